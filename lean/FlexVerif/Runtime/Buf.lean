/-
  Runtime/Buf.lean — the buffer level of the generated scanner: `yy_get_next_buffer()` and the
  match loop around it (cpp-flex.skl), for a scanner whose actions leave the input alone.

  The abstract scanner of `Runtime/Abs.lean` has no buffer.  This file models what that abstraction
  hides — the character buffer of `yy_buf_size` bytes, the move of the partial token to its
  front, growth by doubling, the size of every read request, `EOB_ACT_CONTINUE_SCAN /
  LAST_MATCH / END_OF_FILE`, the `EOF_PENDING` status, the recomputation of the DFA state by
  `yy_get_previous_state()` — and proves (`Runtime/BufProofs.lean`) that for every buffer size,
  every way the input routine cuts the input into reads and every automaton, the tokens are
  those of a scan of the whole remaining input (C03), and that the buffer never holds more than
  `yy_buf_size` characters (C13).  The sizes of the read requests are observable in the real
  scanner (`rq n` lines of the harness), which is how this model is tied to the code.

  Not modelled: the NUL sentinel trick itself (reaching `yy_n_chars` is the end-of-buffer test
  here), `int` overflow of `yy_buf_size * 2`, REJECT's state stack, yymore/yyless/unput/input.
-/
namespace FlexVerif.Buf

/-- the automaton as the match loop sees it -/
structure DFA (σ : Type) where
  start : Bool → σ                 -- start state for "at beginning of line" or not
  step : σ → UInt8 → Option σ      -- `none`: jam
  accept : σ → Option Nat          -- rule accepting in this state
  /-- an interactive scanner stops here without looking at the next character; only states
      without any outgoing transition may be flagged (`DFA.DeadOK`) -/
  dead : σ → Bool

/-- last accepting position (length from the token start) and rule -/
abbrev Last := Option (Nat × Nat)

def upd {σ : Type} (D : DFA σ) (la : Last) (p : Nat) (s : σ) : Last :=
  match D.accept s with
  | some r => some (p, r)
  | none => la

/-! ### reference: scanning the whole remaining input -/

/-- scan `inp` from state `s`, `p` characters into the token, remembering the last accept -/
def absScan {σ : Type} (D : DFA σ) (s : σ) (la : Last) (p : Nat) : List UInt8 → Last
  | [] => la
  | c :: rest =>
    if D.dead s then la else
    match D.step s c with
    | none => la
    | some s' => absScan D s' (upd D la (p + 1) s') (p + 1) rest

/-- the token at the head of `inp`: (length, rule); `none`: no rule matches (jammed) -/
def absTok {σ : Type} (D : DFA σ) (bol : Bool) (inp : List UInt8) : Last :=
  absScan D (D.start bol) none 0 inp

def endsNl (t : List UInt8) (dflt : Bool) : Bool :=
  match t.getLast? with
  | some c => c == 10
  | none => dflt


/-! ### the buffer machine -/

inductive Ev
  | rq (n : Nat)                       -- YY_INPUT called with max_size = n
  | tok (rule : Nat) (text : List UInt8)
  | jammed
deriving Repr, DecidableEq

/-- the input routine: how many bytes it returns on call number `i` when asked for at most
    `max` and `avail` are left -/
abbrev Reader := Nat → Nat → Nat → Nat

/-- an input routine returns between 1 and `max` bytes while there is input, 0 at its end -/
def Reader.OK (rd : Reader) : Prop :=
  ∀ i max avail, rd i max avail ≤ max ∧ rd i max avail ≤ avail ∧
    (0 < avail → 0 < max → 0 < rd i max avail)

/-- the harness's reader: a cyclic schedule of wanted sizes (empty: as much as asked for) -/
def schedReader (sched : List Nat) : Reader := fun i max avail =>
  let want := match sched with
    | [] => max
    | _ => sched.getD (i % sched.length) 1
  let want := if want < 1 then 1 else want
  min (min want max) avail

structure BState where
  buf : List UInt8 := []      -- the `yy_n_chars` valid characters of `yy_ch_buf`
  size : Nat                  -- `yy_buf_size`
  tok : Nat := 0              -- `yytext_ptr` (offset into `buf`)
  pre : Nat := 0              -- `yy_more_len`: characters of `yytext` carried over by yymore()
  src : List UInt8            -- what the input routine has not delivered yet
  calls : Nat := 0            -- number of YY_INPUT calls so far
  eofPending : Bool := false  -- YY_BUFFER_EOF_PENDING
  atBol : Bool := true
  out : Array Ev := #[]

def readBufSize : Nat := 8192      -- YY_READ_BUF_SIZE

/-- `while ( num_to_read <= 0 ) yy_buf_size *= 2;` -/
def growTo (size p : Nat) : Nat → Nat
  | 0 => size
  | fuel + 1 => if size ≥ p + 2 then size else growTo (if size = 0 then 1 else size * 2) p fuel

/-- `yy_get_next_buffer()` with the partial token of length `p` at `tok`.
    Returns the new state and the number of characters obtained (0: end of input). -/
def refill (rd : Reader) (st : BState) (p : Nat) : BState × Nat :=
  let part := (st.buf.drop st.tok).take p                     -- moved to the front of the buffer
  if st.eofPending then
    ({ st with buf := part, tok := 0 }, 0)
  else
    let size := growTo st.size p (p + 2)
    let numToRead := min (size - p - 1) readBufSize
    let k := rd st.calls numToRead st.src.length
    ({ st with buf := part ++ st.src.take k, tok := 0, size := size, src := st.src.drop k,
               calls := st.calls + 1, out := st.out.push (.rq numToRead) }, k)

/-- `yy_get_previous_state()`: the state after the first `p` characters of the token -/
def prevState {σ : Type} (D : DFA σ) (bol : Bool) (text : List UInt8) : Option σ :=
  text.foldl (fun s c => s.bind fun s => D.step s c) (some (D.start bol))

inductive Res (σ : Type)
  | tok (st : BState) (la : Last)      -- the match loop ended: back up to `la`
  | eof (st : BState)                  -- EOB_ACT_END_OF_FILE
  | fuel

/-- the match loop of `yylex` for one token, `p` characters scanned, in state `s`;
    `rem` is the rest of the buffer from the scan position (`*yy_cp` is its head) -/
def scan {σ : Type} (D : DFA σ) (rd : Reader) : Nat → BState → Nat → σ → Last → List UInt8 → Res σ
  | 0, _, _, _, _, _ => .fuel
  | fuel + 1, st, p, s, la, rem =>
    if D.dead s then .tok st la else
    match rem with
    | c :: rem' =>
      match D.step s c with
      | none => .tok st la
      | some s' => scan D rd fuel st (p + 1) s' (upd D la (p + 1) s') rem'
    | [] =>
      -- the end of the buffer: try to get more (the yymore() prefix moves along with the token)
      let (st', k) := refill rd st (st.pre + p)
      if k = 0 then
        if p = 0 then .eof st'                            -- number_to_move == YY_MORE_ADJ
        else .tok { st' with eofPending := true } la      -- EOB_ACT_LAST_MATCH
      else
        -- EOB_ACT_CONTINUE_SCAN: the state is computed again from the moved text
        match prevState D st.atBol ((st'.buf.drop st.pre).take p) with
        | some s' => scan D rd fuel st' p s' la (st'.buf.drop (st.pre + p))
        | none => .tok st' la

/-- what an action does to the input (the part the buffer level sees) -/
inductive Act
  | plain                      -- nothing
  | less (n : Nat)             -- yyless(n): keep the first n characters of yytext
  | more                       -- yymore()
  | lessMore (n : Nat)         -- yyless(n) then yymore()
deriving Repr, DecidableEq, Inhabited

/-- the script: what the action does given a script position, the rule and yytext, and the
    script position after it (the default rule's ECHO does not advance it) -/
abbrev Script := Nat → Nat → List UInt8 → Act × Nat

/-- effect of an action on (token start, prefix length), the token having `len` characters of
    which `pre` are the carried prefix -/
def Act.apply (a : Act) (tok _pre len : Nat) : Nat × Nat :=
  match a with
  | .plain => (tok + len, 0)
  | .less n => (tok + min n len, 0)
  | .more => (tok, len)
  | .lessMore n => (tok, min n len)

/-- reference: all tokens of `inp` under the script, as (rule, yytext); `pre` characters at the
    front of `inp` are the prefix carried over by yymore().  Stops at the end of input or when
    jammed.  No buffer, no reads: just lists. -/
def absLex {σ : Type} (D : DFA σ) (act : Script) : Nat → Nat → Bool → Nat → List UInt8 → List (Nat × List UInt8)
  | 0, _, _, _, _ => []
  | fuel + 1, k, bol, pre, inp =>
    if inp.length ≤ pre then [] else
    match absTok D bol (inp.drop pre) with
    | some (l, r) =>
      if l = 0 then [] else
      let text := inp.take (pre + l)
      let (d, pre') := (act k r text).1.apply 0 pre (pre + l)
      (r, text) :: absLex D act fuel (act k r text).2 (endsNl text bol) pre' (inp.drop d)
    | none => []

/-- enough fuel for one token: every character is looked at once, every refill that returns
    something is followed by a look -/
def tokFuel (st : BState) : Nat := 2 * ((st.buf.length - st.tok) + st.src.length) + 4

/-- `yylex` called until the end of input; `act k rule text` is what the k-th action does -/
def run {σ : Type} (D : DFA σ) (rd : Reader) (act : Script) : Nat → Nat → BState → BState
  | 0, _, st => st
  | fuel + 1, k, st =>
    match scan D rd (tokFuel st) st 0 (D.start st.atBol) none (st.buf.drop (st.tok + st.pre)) with
    | .tok st' (some (l, r)) =>
      if l = 0 then { st' with out := st'.out.push .jammed } else
      let text := (st'.buf.drop st'.tok).take (st'.pre + l)          -- yytext, prefix included
      let (tok', pre') := (act k r text).1.apply st'.tok st'.pre (st'.pre + l)
      let k' := (act k r text).2
      run D rd act fuel k' { st' with tok := tok', pre := pre', atBol := endsNl text st'.atBol,
                                           out := st'.out.push (.tok r text) }
    | .tok st' none => { st' with out := st'.out.push .jammed }
    | .eof st' => st'
    | .fuel => st

def tokensOf (evs : List Ev) : List (Nat × List UInt8) :=
  evs.filterMap fun e => match e with
    | .tok r t => some (r, t)
    | _ => none

/-- the initial state of a scanner over a fresh buffer of size `size` -/
def init (size : Nat) (src : List UInt8) : BState := { size := size, src := src }

end FlexVerif.Buf

import FlexVerif.Runtime.Match
/-
  Runtime/MatchProofs.lean — the specification matcher selects the token the manual prescribes.

  `specCands S sc bol inp` is the list of alternatives the abstract scanner tries at a position
  (REJECT order).  Its head is the token: `specCands_selects` shows it is the *longest* prefix any
  active rule matches and, at that length, the *first* such rule in the file — `RuleSet.Selects`,
  the denotational statement of flex.texi's "Matching" chapter — for every rule set and input.
-/
namespace FlexVerif

/-! ### sortedness of accepting tags -/

theorem dedupAdj_sublist {α : Type} [DecidableEq α] (l : List α) : (dedupAdj l).Sublist l := by
  fun_induction dedupAdj l with
  | case1 => exact List.Sublist.refl _
  | case2 => exact List.Sublist.refl _
  | case3 a l ih => exact List.Sublist.cons _ ih
  | case4 a b l h ih => exact List.Sublist.cons_cons _ ih

theorem SState.accTags_sorted (S : SState) : (SState.accTags S).Pairwise (· ≤ ·) := by
  unfold SState.accTags
  refine List.Pairwise.sublist (dedupAdj_sublist _) ?_
  have := List.pairwise_mergeSort (le := fun (a b : Nat) => decide (a ≤ b))
    (fun a b c h1 h2 => by simp at *; omega) (fun a b => by simp; omega)
    (((S.filter fun it => it.2.nullable).map fun it => it.1))
  exact this.imp (by intro a b h; simpa using h)

@[simp] theorem SState.step_nil (c : Byte) : SState.step c [] = [] := by
  simp [SState.step, normItems, dedupAdj]

@[simp] theorem SState.run_nil_state (w : List Byte) : SState.run [] w = [] := by
  induction w with
  | nil => rfl
  | cons c w ih => simpa [SState.run] using ih

@[simp] theorem SState.accTags_nil : SState.accTags [] = [] := by
  simp [SState.accTags, dedupAdj]

theorem SState.run_cons' (S : SState) (c : Byte) (w : List Byte) :
    SState.run S (c :: w) = SState.run (SState.step c S) w := rfl

/-! ### the candidate list without accumulator -/

/-- the alternatives at the current length: rules accepting here, in file order -/
def candsHere (st : SState) (len : Nat) : List (Nat × Nat) :=
  (st.accTags.filter fun t => t % 2 = 0).map fun t => (len, t / 2)

/-- `specCands.go` written without its accumulator: longer matches first -/
def goF : SState → List UInt8 → Nat → List (Nat × Nat)
  | st, [], len => candsHere st len
  | st, c :: rest, len =>
    (if (st.step c).isEmpty then [] else goF (st.step c) rest (len + 1)) ++ candsHere st len

theorem specCands_go_eq (st : SState) (rest : List UInt8) (len : Nat) (acc : List (Nat × Nat)) :
    specCands.go st rest len acc = goF st rest len ++ acc := by
  induction rest generalizing st len acc with
  | nil => rw [specCands.go, goF]; rfl
  | cons c rest ih =>
    rw [specCands.go, goF]
    by_cases he : (st.step c).isEmpty
    · simp only [he, if_true]; rfl
    · simp only [he]
      rw [ih]; simp [candsHere]

theorem specCands_eq (S : RuleSet) (sc : Nat) (bol : Bool) (inp : List UInt8) :
    specCands S sc bol inp = goF (S.startState sc bol) inp 0 := by
  unfold specCands
  rw [specCands_go_eq]; simp

/-- `r` is the first accepting rule of state `q` -/
def HeadOK (q : SState) (r : Nat) : Prop :=
  2 * r ∈ q.accTags ∧ ∀ t ∈ q.accTags, t % 2 = 0 → r ≤ t / 2

theorem candsHere_head {st : SState} {len l r : Nat} {tl : List (Nat × Nat)}
    (h : candsHere st len = (l, r) :: tl) : l = len ∧ HeadOK st r := by
  unfold candsHere at h
  have hs := (SState.accTags_sorted st).filter (fun t => t % 2 = 0)
  generalize hL : st.accTags.filter (fun t => t % 2 = 0) = L at h hs
  cases L with
  | nil => simp at h
  | cons t ts =>
    simp only [List.map_cons, List.cons.injEq, Prod.mk.injEq] at h
    obtain ⟨⟨h1, h2⟩, _⟩ := h
    have ht : t ∈ st.accTags ∧ t % 2 = 0 := by
      have : t ∈ st.accTags.filter (fun t => t % 2 = 0) := by rw [hL]; simp
      simpa using this
    refine ⟨h1.symm, ?_, ?_⟩
    · have : 2 * r = t := by omega
      rw [this]; exact ht.1
    · intro t' ht' he
      have : t' ∈ t :: ts := by rw [← hL]; simp [ht', he]
      rcases List.mem_cons.mp this with rfl | hm
      · omega
      · have := (List.pairwise_cons.mp hs).1 t' hm
        omega

theorem candsHere_nil {st : SState} {len : Nat} (h : candsHere st len = []) :
    ∀ t ∈ st.accTags, t % 2 = 1 := by
  intro t ht
  unfold candsHere at h
  simp only [List.map_eq_nil_iff, List.filter_eq_nil_iff, decide_eq_true_eq] at h
  have := h t ht
  omega

/-- nothing accepts at any length when the candidate list is empty -/
theorem goF_nil (rest : List UInt8) (st : SState) (len : Nat) (h : goF st rest len = []) :
    ∀ k, k ≤ rest.length → ∀ t ∈ (SState.run st (rest.take k)).accTags, t % 2 = 1 := by
  induction rest generalizing st len with
  | nil =>
    intro k hk t ht
    simp only [goF] at h
    simp only [List.take_nil, SState.run, List.foldl_nil] at ht
    exact candsHere_nil h t ht
  | cons c rest ih =>
    intro k hk t ht
    simp only [goF, List.append_eq_nil_iff] at h
    obtain ⟨h1, h2⟩ := h
    cases k with
    | zero =>
      simp only [List.take_zero, SState.run, List.foldl_nil] at ht
      exact candsHere_nil h2 t ht
    | succ k =>
      rw [List.take_succ_cons, SState.run_cons'] at ht
      by_cases he : (SState.step c st).isEmpty
      · have : SState.step c st = [] := by simpa using he
        rw [this] at ht; simp at ht
      · simp only [he] at h1
        exact ih _ _ h1 k (by simpa using hk) t ht

/-- the head of the candidate list is the longest accepting length and the first rule there -/
theorem goF_head (rest : List UInt8) (st : SState) (len l r : Nat) (tl : List (Nat × Nat))
    (h : goF st rest len = (l, r) :: tl) :
    ∃ k, l = len + k ∧ k ≤ rest.length ∧ HeadOK (SState.run st (rest.take k)) r ∧
      ∀ k', k < k' → k' ≤ rest.length →
        ∀ t ∈ (SState.run st (rest.take k')).accTags, t % 2 = 1 := by
  induction rest generalizing st len l r tl with
  | nil =>
    simp only [goF] at h
    obtain ⟨h1, h2⟩ := candsHere_head h
    exact ⟨0, by omega, by simp, by simpa [SState.run] using h2, by intro k' h1 h2; simp at h2; omega⟩
  | cons c rest ih =>
    simp only [goF] at h
    by_cases he : (SState.step c st).isEmpty
    · -- the automaton dies on `c`: only the current length can accept
      simp only [he, if_true, List.nil_append] at h
      obtain ⟨h1, h2⟩ := candsHere_head h
      refine ⟨0, by omega, by simp, by simpa [SState.run] using h2, ?_⟩
      intro k' hk1 hk2 t ht
      obtain ⟨k'', rfl⟩ : ∃ k'', k' = k'' + 1 := ⟨k' - 1, by omega⟩
      rw [List.take_succ_cons, SState.run_cons'] at ht
      have : SState.step c st = [] := by simpa using he
      rw [this] at ht; simp at ht
    · simp only [he, Bool.false_eq_true, if_false] at h
      cases hd : goF (SState.step c st) rest (len + 1) with
      | nil =>
        rw [hd, List.nil_append] at h
        obtain ⟨h1, h2⟩ := candsHere_head h
        refine ⟨0, by omega, by simp, by simpa [SState.run] using h2, ?_⟩
        intro k' hk1 hk2 t ht
        obtain ⟨k'', rfl⟩ : ∃ k'', k' = k'' + 1 := ⟨k' - 1, by omega⟩
        rw [List.take_succ_cons, SState.run_cons'] at ht
        exact goF_nil rest _ _ hd k'' (by simpa using hk2) t ht
      | cons x xs =>
        rw [hd, List.cons_append] at h
        obtain ⟨rfl, rfl⟩ := List.cons.inj h
        obtain ⟨k, e1, e2, e3, e4⟩ := ih _ _ _ _ _ hd
        refine ⟨k + 1, by omega, by simpa using e2, by rw [List.take_succ_cons, SState.run_cons']; exact e3, ?_⟩
        intro k' hk1 hk2 t ht
        obtain ⟨k'', rfl⟩ : ∃ k'', k' = k'' + 1 := ⟨k' - 1, by omega⟩
        rw [List.take_succ_cons, SState.run_cons'] at ht
        exact e4 k'' (by omega) (by simpa using hk2) t ht

/-! ### the statement in terms of the denotational specification -/

theorem HeadOK_firstRule (S : RuleSet) (sc : Nat) (bol : Bool) (w : List Byte) (r : Nat)
    (h : HeadOK ((S.startState sc bol).run w) r) : S.FirstRule sc bol w (some r) := by
  obtain ⟨h1, h2⟩ := h
  constructor
  · rw [S.specAuto_tags] at h1
    rcases h1 with ⟨_, h1⟩ | ⟨h1, _⟩
    · have : 2 * r / 2 = r := by omega
      exact this ▸ h1
    · omega
  · intro j hj hm
    have : 2 * j ∈ ((S.startState sc bol).run w).accTags := by
      rw [S.specAuto_tags]; left
      have e : 2 * j / 2 = j := by omega
      exact ⟨by omega, by rw [e]; exact hm⟩
    have := h2 _ this (by omega)
    omega

theorem allOdd_noMatch (S : RuleSet) (sc : Nat) (bol : Bool) (w : List Byte)
    (h : ∀ t ∈ ((S.startState sc bol).run w).accTags, t % 2 = 1) :
    ∀ j, ¬ S.RuleMatches sc bol j w := by
  intro j hm
  have : 2 * j ∈ ((S.startState sc bol).run w).accTags := by
    rw [S.specAuto_tags]; left
    have e : 2 * j / 2 = j := by omega
    exact ⟨by omega, by rw [e]; exact hm⟩
  have := h _ this
  omega

/-- **Longest match, first rule.**  For every rule set, start condition, line-start state and
    remaining input, the first alternative of the specification matcher is the token the manual
    prescribes: no active rule matches a longer prefix, and no earlier rule matches this one. -/
theorem specCands_selects (S : RuleSet) (sc : Nat) (bol : Bool) (inp : List UInt8)
    (len i : Nat) (tl : List (Nat × Nat)) (h : specCands S sc bol inp = (len, i) :: tl) :
    S.Selects sc bol inp len i := by
  rw [specCands_eq] at h
  obtain ⟨k, e1, e2, e3, e4⟩ := goF_head inp _ 0 len i tl h
  have : len = k := by omega
  subst this
  refine ⟨e2, HeadOK_firstRule S sc bol _ i e3, ?_⟩
  intro len' h1 h2
  exact allOdd_noMatch S sc bol _ (e4 len' h1 h2)

/-- … and when it offers no alternative, no active rule matches any prefix (the scanner is
    jammed; cannot happen when the default rule is present and input remains). -/
theorem specCands_nil (S : RuleSet) (sc : Nat) (bol : Bool) (inp : List UInt8)
    (h : specCands S sc bol inp = []) :
    ∀ len, len ≤ inp.length → ∀ j, ¬ S.RuleMatches sc bol j (inp.take len) := by
  rw [specCands_eq] at h
  intro len hl
  exact allOdd_noMatch S sc bol _ (goF_nil inp _ 0 h len hl)

/-- **The scanner never jams** while some active rule (the default rule, in every rule set flex
    accepts without `nodefault`) matches the next byte: the hypothesis of `specCands_selects`
    is met at every position of every input. -/
theorem specCands_ne_nil (S : RuleSet) (sc : Nat) (bol : Bool) (c : UInt8) (rest : List UInt8)
    (j : Nat) (hdef : S.RuleMatches sc bol j [c]) : specCands S sc bol (c :: rest) ≠ [] := by
  intro h
  exact specCands_nil S sc bol (c :: rest) h 1 (by simp) j (by simpa using hdef)

/-! ### the table matcher, under the validator's verdict -/

/-- the alternatives the emitted tables offer in state `st` -/
def hereT (T : Tables) (st : DState) (len : Nat) : List (Nat × Nat) :=
  match T.label st with
  | some l => (labelRules T.reject l).map fun r => (len, r)
  | none => []

/-- `tableCands.go` without its accumulator -/
def tgoF (T : Tables) : DState → List UInt8 → Nat → List (Nat × Nat)
  | st, [], len => hereT T st len
  | st, c :: rest, len =>
    (match T.step st c with
      | .jam => []
      | .bad => []
      | st' => tgoF T st' rest (len + 1)) ++ hereT T st len

theorem tableCands_go_eq (T : Tables) (st : DState) (rest : List UInt8) (len : Nat)
    (acc : List (Nat × Nat)) : tableCands.go T st rest len acc = tgoF T st rest len ++ acc := by
  induction rest generalizing st len acc with
  | nil => rw [tableCands.go, tgoF]; rfl
  | cons c rest ih =>
    rw [tableCands.go, tgoF]
    cases h : T.step st c with
    | jam => simp only [List.nil_append]; rfl
    | bad => simp only [List.nil_append]; rfl
    | st n => simp only; rw [ih]; simp only [hereT, List.append_assoc]; rfl

theorem tableCands_eq (T : Tables) (sc : Nat) (bol : Bool) (inp : List UInt8) :
    tableCands T sc bol inp = tgoF T (T.startState sc bol) inp 0 := by
  unfold tableCands
  rw [tableCands_go_eq]; simp

theorem tblRun_cons (T : Tables) (st : DState) (c : UInt8) (w : List UInt8) :
    (tblAuto T).run st (c :: w) = (tblAuto T).run (T.step st c) w := rfl

theorem tblRun_jam (T : Tables) (w : List UInt8) : (tblAuto T).run .jam w = .jam := by
  induction w with
  | nil => rfl
  | cons c w ih => rw [tblRun_cons]; exact ih

theorem tblRun_bad (T : Tables) (w : List UInt8) : (tblAuto T).run .bad w = .bad := by
  induction w with
  | nil => rfl
  | cons c w ih => rw [tblRun_cons]; exact ih

theorem hereT_jam (T : Tables) (len : Nat) : hereT T .jam len = [] := by
  simp [hereT, Tables.label, labelRules]

theorem hereT_bad (T : Tables) (len : Nat) : hereT T .bad len = [] := by
  simp [hereT, Tables.label]

theorem tgoF_nil (T : Tables) (rest : List UInt8) (st : DState) (len : Nat)
    (h : tgoF T st rest len = []) :
    ∀ k, k ≤ rest.length → hereT T ((tblAuto T).run st (rest.take k)) (len + k) = [] := by
  induction rest generalizing st len with
  | nil =>
    intro k hk
    simp only [tgoF] at h
    have : k = 0 := by simpa using hk
    subst this
    simpa [Auto.run] using h
  | cons c rest ih =>
    intro k hk
    simp only [tgoF, List.append_eq_nil_iff] at h
    obtain ⟨h1, h2⟩ := h
    cases k with
    | zero => simpa [Auto.run] using h2
    | succ k =>
      rw [List.take_succ_cons, tblRun_cons]
      cases hs : T.step st c with
      | jam => rw [tblRun_jam]; exact hereT_jam T _
      | bad => rw [tblRun_bad]; exact hereT_bad T _
      | st n =>
        rw [hs] at h1
        have := ih (.st n) (len + 1) h1 k (by simpa using hk)
        rw [show len + (k + 1) = len + 1 + k by omega]
        exact this

theorem tgoF_head (T : Tables) (rest : List UInt8) (st : DState) (len l r : Nat)
    (tl : List (Nat × Nat)) (h : tgoF T st rest len = (l, r) :: tl) :
    ∃ k, l = len + k ∧ k ≤ rest.length ∧
      (∃ tl', hereT T ((tblAuto T).run st (rest.take k)) (len + k) = (l, r) :: tl') ∧
      ∀ k', k < k' → k' ≤ rest.length →
        hereT T ((tblAuto T).run st (rest.take k')) (len + k') = [] := by
  induction rest generalizing st len l r tl with
  | nil =>
    simp only [tgoF] at h
    have hl : l = len := by
      unfold hereT at h
      split at h
      · cases hh : labelRules T.reject ‹_› with
        | nil => rw [hh] at h; simp at h
        | cons a as => rw [hh] at h; simp at h; omega
      · simp at h
    exact ⟨0, by omega, by simp, ⟨tl, by simpa [Auto.run] using h⟩, by intro k' h1 h2; simp at h2; omega⟩
  | cons c rest ih =>
    simp only [tgoF] at h
    -- the alternatives found deeper, if any
    generalize hd : (match T.step st c with
      | .jam => ([] : List (Nat × Nat))
      | .bad => []
      | st' => tgoF T st' rest (len + 1)) = deeper at h
    have hdeep : deeper = [] → ∀ k, k ≤ rest.length →
        hereT T ((tblAuto T).run (T.step st c) (rest.take k)) (len + 1 + k) = [] := by
      intro he k hk
      cases hs : T.step st c with
      | jam => rw [tblRun_jam]; exact hereT_jam T _
      | bad => rw [tblRun_bad]; exact hereT_bad T _
      | st n =>
        rw [hs] at hd
        exact tgoF_nil T rest (.st n) (len + 1) (by rw [← he]; exact hd) k hk
    cases deeper with
    | nil =>
      rw [List.nil_append] at h
      have hl : l = len := by
        unfold hereT at h
        split at h
        · cases hh : labelRules T.reject ‹_› with
          | nil => rw [hh] at h; simp at h
          | cons a as => rw [hh] at h; simp at h; omega
        · simp at h
      refine ⟨0, by omega, by simp, ⟨tl, by simpa [Auto.run] using h⟩, ?_⟩
      intro k' hk1 hk2
      obtain ⟨k'', rfl⟩ : ∃ k'', k' = k'' + 1 := ⟨k' - 1, by omega⟩
      rw [List.take_succ_cons, tblRun_cons, show len + (k'' + 1) = len + 1 + k'' by omega]
      exact hdeep rfl k'' (by simpa using hk2)
    | cons x xs =>
      rw [List.cons_append] at h
      obtain ⟨rfl, rfl⟩ := List.cons.inj h
      cases hs : T.step st c with
      | jam => rw [hs] at hd; cases hd
      | bad => rw [hs] at hd; cases hd
      | st n =>
        rw [hs] at hd
        obtain ⟨k, e1, e2, ⟨tl', e3⟩, e4⟩ := ih _ _ _ _ _ hd
        refine ⟨k + 1, by omega, by simpa using e2, ⟨tl', ?_⟩, ?_⟩
        · rw [List.take_succ_cons, tblRun_cons, hs, show len + (k + 1) = len + 1 + k by omega]
          exact e3
        · intro k' hk1 hk2
          obtain ⟨k'', rfl⟩ : ∃ k'', k' = k'' + 1 := ⟨k' - 1, by omega⟩
          rw [List.take_succ_cons, tblRun_cons, hs, show len + (k'' + 1) = len + 1 + k'' by omega]
          exact e4 k'' (by omega) (by simpa using hk2)

/-- **The emitted tables select the documented token** (scanners without REJECT): whenever the
    validator accepts flex's tables for a rule set, then for every start condition, line-start
    state and input over the scanner's character set, the first alternative the table-driven
    matcher offers is the longest match, and among the rules matching that text the first. -/
theorem tableCands_selects (S : RuleSet) (T : Tables) (budget : Nat)
    (hv : (validate S T budget).ok = true) (hr : T.reject = false)
    (sc : Nat) (hsc : sc < S.nsc) (bol : Bool) (inp : List UInt8)
    (hw : ∀ c ∈ inp, c.toNat < T.csize)
    (len i : Nat) (tl : List (Nat × Nat)) (h : tableCands T sc bol inp = (len, i) :: tl) :
    S.Selects sc bol inp len i := by
  rw [tableCands_eq] at h
  obtain ⟨k, e1, e2, ⟨tl', e3⟩, e4⟩ := tgoF_head T inp _ 0 len i tl h
  have hk : len = k := by omega
  subst hk
  have hlab : ∀ k, T.label ((tblAuto T).run (T.startState sc bol) (inp.take k)) =
      (match firstFull ((S.startState sc bol).run (inp.take k)).accTags with
        | none => some []
        | some j => some [(j : Int)]) := by
    intro k
    rw [validate_sound S T budget hv sc hsc bol (inp.take k)
      (fun c hc => hw c (List.mem_of_mem_take hc)), specLabel, hr]
    simp only [Bool.false_eq_true, if_false]
    rfl
  refine ⟨e2, ?_, ?_⟩
  · have := S.specAuto_first sc bol (inp.take len)
    simp only [hereT, hlab, Nat.zero_add] at e3
    cases hf : firstFull ((S.startState sc bol).run (inp.take len)).accTags with
    | none => rw [hf] at e3; simp [labelRules, hr] at e3
    | some j =>
      rw [hf] at e3 this
      simp [labelRules, hr] at e3
      rw [← e3.1]; exact this
  · intro len' h1 h2 j hm
    have e := e4 len' h1 h2
    have := S.specAuto_first sc bol (inp.take len')
    simp only [hereT, hlab, Nat.zero_add] at e
    cases hf : firstFull ((S.startState sc bol).run (inp.take len')).accTags with
    | none => rw [hf] at this; exact this j hm
    | some j' => rw [hf] at e; simp [labelRules, hr] at e

end FlexVerif

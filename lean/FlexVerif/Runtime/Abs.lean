/-
  Runtime/Abs.lean — the abstract scanner: what the manual says the generated scanner's API
  does to the input stream, start conditions, buffers and line counter, with no buffer
  mechanics at all (no sentinels, no refills, no hold character).

  It is parameterised by a `Matcher` (what matches at a position); the driver instantiates it
  with flex's emitted tables (model trace) and with the specification automaton (spec trace).
  The correspondence harness compares its event trace with the real generated scanner's.
-/
namespace FlexVerif

/-- what can be matched at an input position -/
structure Matcher where
  /-- all `(len, rule)` pairs matching a prefix of the input, longest first, then by rule number;
      the head of the list is the token flex must select -/
  cands : (sc : Nat) → (bol : Bool) → List UInt8 → List (Nat × Nat)
  /-- length of the text the action of `rule` sees when the rule matched the first `len` bytes
      (differs from `len` only for trailing-context rules) -/
  headLen : (rule len : Nat) → List UInt8 → Nat
  /-- length of the text `YY_DO_BEFORE_ACTION` sees first, which a `%array` scanner checks against
      `YYLMAX`: the whole match, trailing context included (the action of a rule with fixed
      trailing context backs up afterwards) — except for rules with *variable* trailing context,
      where `yy_find_action` has walked back to the end of the head before -/
  fitLen : (rule len : Nat) → List UInt8 → Nat := fun _ len _ => len
  /-- number of bytes of the input the automaton can consume before it jams (the look-ahead the
      generated scanner may have in its buffer when it checks `YYLMAX`, finding F28) -/
  scan : (sc : Nat) → (bol : Bool) → List UInt8 → Nat := fun _ _ _ => 0
  /-- number of bytes of the input the scanner has to *see* before it can decide on the token:
      a batch scanner runs into the byte that jams the automaton; an interactive one also stops
      as soon as the state reached has no outgoing transition at all -/
  need : (interactive : Bool) → (sc : Nat) → (bol : Bool) → List UInt8 → Nat := fun _ _ _ _ => 0

structure Cfg where
  bolNeeded : Bool := false      -- some rule uses `^` (the scanner tracks line starts)
  hasLineno : Bool := false
  reentrant : Bool := false      -- line number kept per buffer
  numRules : Nat := 0            -- number of the default rule
  eofScs : List Nat := []        -- start conditions with a user <<EOF>> action
  yylmax : Nat := 0              -- %array scanners: size of yytext (0: %pointer, no limit)
  actionOf : Array Nat := #[]    -- rule ↦ the rule whose action it shares ('|' actions); index rule-1
  stackDepthLimit : Nat := 0     -- unused (the stack is unbounded)
  logReads : Bool := false       -- trace how many bytes have been requested from the source (`rd n`)
  interactive : Bool := false    -- the scanner stops at states without outgoing transitions
  srcTotal : Nat := 0            -- length of the (single) source when `logReads`
deriving Inhabited

inductive Op
  | lex (force : Bool) | less (n : Nat) /- keep `prefix + n mod (new part + 1)` characters -/ | more | unput (c : Nat) | input | reject | begin_ (s : Nat) | push (s : Nat)
  | pop | top | start | setbol (b : Nat) | atbol | ret (v : Int) | terminate | getlineno
  | setlineno (n : Nat) | grab | scanbytes (src : Nat) | scanstring (src : Nat)
  | scanbuffer (src : Nat) (nuls : Nat) | create (src : Nat) (size : Nat) | switch (b : Nat)
  | pushbuf (b : Nat) | popbuf | flush (b : Nat) | flushcur | delete (b : Nat) | restart (src : Nat)
  | newyyin (src : Nat) | destroy | cont | includeEnd
deriving Repr, Inhabited, DecidableEq

structure ABuf where
  pending : List UInt8 := []
  atBol : Bool := true
  lineno : Int := 1
  /-- the source a refill would read from (`none`: in-memory buffer, no refills) -/
  file : Option Nat := none
  /-- bytes of `file` not yet delivered into `pending` are represented eagerly: `pending` already
      holds them; `fresh` says the buffer has not been scanned yet -/
  alive : Bool := true
deriving Repr, Inhabited

structure AState where
  bufs : Array ABuf := #[]
  reg : Array (Option Nat) := #[]      -- harness registry index ↦ buffer id
  cur : Option Nat := none             -- current buffer
  bstack : List Nat := []              -- buffers below the current one on the buffer stack
  yyin : Option Nat := some 0          -- source `yyin` points at
  start : Nat := 0
  sstack : List Nat := []
  lineno : Int := 1                    -- the non-reentrant scanner's yylineno
  srcs : Array (List UInt8) := #[]
  wraps : List (Option Nat) := []
  acts : Array (List Op) := #[]
  eofDefault : List Op := []           -- script of an <<EOF>> action that has no script of its own
  eacts : Array (List Op) := #[]       -- scripts of the successive <<EOF>> action executions
  eactCounter : Nat := 0
  actCounter : Nat := 0
  out : Array String := #[]
  halted : Bool := false               -- fatal error happened
  eofSeen : Bool := false              -- the last yylex call returned 0
  -- the token being processed by the running action
  text : List UInt8 := []
  morePrefix : Nat := 0                -- length of the yymore-carried prefix inside `text`
  moreFlag : Bool := false
  rejectList : List (Nat × Nat) := []  -- remaining (len, rule) alternatives at this position
  tokInput : List UInt8 := []          -- the input as it was when the token started (for REJECT)
  textValid : Bool := true             -- false after yyunput in a %pointer scanner
  /-- `logReads`: how many bytes at the end of the current buffer's `pending` the scanner has not
      yet asked its input routine for (`none`: nothing scanned yet, i.e. all of it) -/
  unfetched : Option Nat := none
deriving Inhabited

def hexDigit (n : Nat) : Char := if n < 10 then Char.ofNat (48 + n) else Char.ofNat (87 + n)
def hexBytes (bs : List UInt8) : String :=
  if bs.isEmpty then "-" else
  String.ofList (bs.flatMap fun b => [hexDigit (b.toNat / 16), hexDigit (b.toNat % 16)])

def countNl (bs : List UInt8) : Nat := (bs.filter (· == 10)).length

namespace AState

def emit (s : AState) (l : String) : AState := { s with out := s.out.push l }

def curBuf (s : AState) : ABuf :=
  match s.cur with
  | some i => s.bufs.getD i {}
  | none => {}

def setCurBuf (s : AState) (b : ABuf) : AState :=
  match s.cur with
  | some i => { s with bufs := s.bufs.setIfInBounds i b }
  | none => s

/-- the scanner has to see the first `d` bytes of the `plen` pending ones -/
def noteNeed (s : AState) (d plen : Nat) : AState :=
  { s with unfetched := some (min (s.unfetched.getD plen) (plen - min d plen)) }

def fatal (s : AState) (cls : String) : AState := { (s.emit s!"fatal {cls}") with halted := true }

def getLineno (cfg : Cfg) (s : AState) : Int :=
  if !cfg.hasLineno then -1 else if cfg.reentrant then s.curBuf.lineno else s.lineno

def addLineno (cfg : Cfg) (s : AState) (d : Int) : AState :=
  if !cfg.hasLineno then s
  else if cfg.reentrant then
    let b := s.curBuf
    s.setCurBuf { b with lineno := b.lineno + d }
  else { s with lineno := s.lineno + d }

/-- make sure there is a current buffer (the scanner creates one over `yyin` on demand) -/
def ensureBuf (s : AState) : AState :=
  match s.cur with
  | some _ => s
  | none =>
    let bytes := match s.yyin with
      | some f => s.srcs.getD f []
      | none => []
    let b : ABuf := { pending := bytes, file := s.yyin }
    { s with bufs := s.bufs.push b, cur := some s.bufs.size }

/-- the action of a match / EOF begins: pick the script of this action execution -/
def nextScript (s : AState) : AState × List Op :=
  ({ s with actCounter := s.actCounter + 1 }, s.acts.getD s.actCounter [])

end AState

inductive ActEnd
  | cont          -- action fell through: keep scanning inside the same yylex call
  | eofCont       -- an <<EOF>> action asked to keep scanning (it switched buffers)
  | ret (v : Int) -- action returned
  | rejected      -- action executed REJECT: run the next alternative
  | halt

/-- announce the match of `rule` on the first `len` bytes of `inp` and set up the token -/
def beginMatch (M : Matcher) (cfg : Cfg) (s : AState) (inp : List UInt8) (len rule : Nat)
    (prefix_ : List UInt8) : AState :=
  -- %array: the text set up first (`fitLen`) plus its NUL must fit yytext
  if cfg.yylmax != 0 && prefix_.length + M.fitLen rule len inp ≥ cfg.yylmax then s.fatal "yylmax" else
  let hl := M.headLen rule len inp
  let newPart := inp.take hl
  let text := prefix_ ++ newPart
  let b := s.curBuf
  let atBol := if cfg.bolNeeded && !text.isEmpty then text.getLast? == some 10 else b.atBol
  let s := s.setCurBuf { b with pending := inp.drop hl, atBol := atBol }
  let s := { s with text := text, morePrefix := prefix_.length, textValid := true }
  let s := s.addLineno cfg (countNl newPart)
  let shown := cfg.actionOf.getD (rule - 1) rule
  s.emit s!"m {shown} {hexBytes text} {s.getLineno cfg} {s.start} {if cfg.bolNeeded then (if atBol then 1 else 0 : Int) else -1}"

/-- ops that behave the same inside an action and in top-level code -/
def commonOp (cfg : Cfg) (s : AState) : Op → Option AState
  | .begin_ n => some { s with start := n }
  | .push n => some { s with sstack := s.start :: s.sstack, start := n }
  | .pop =>
    match s.sstack with
    | [] => some (s.fatal "underflow")
    | t :: rest => some { s with start := t, sstack := rest }
  | .top =>
    match s.sstack with
    | [] => some (s.emit s!"top {s.start}")    -- the code's choice for an empty stack: the current start condition
    | t :: _ => some (s.emit s!"top {t}")
  | .start => some (s.emit s!"start {s.start}")
  | .setbol b =>
    let s := s.ensureBuf
    let bf := s.curBuf
    some (s.setCurBuf { bf with atBol := b != 0 })
  | .atbol => some (s.emit s!"atbol {if s.curBuf.atBol then 1 else 0}")
  | .getlineno => some (s.emit s!"lineno {s.getLineno cfg}")
  | _ => none

/-- `EOB_ACT_END_OF_FILE` on a buffer that is filled from a file: `yyrestart(yyin)` — the beginning-of-line
    flag is set (a memory buffer, `yy_fill_buffer == 0`, is left alone) -/
def AState.eofRestart (s : AState) : AState :=
  let b := s.curBuf
  if b.file.isSome then s.setCurBuf { b with atBol := true } else s

/-- end of the current buffer's input reached while something wants a byte: consult yywrap.
    Returns `true` if another source was installed (scanning continues). -/
def doWrap (s : AState) : AState × Bool :=
  match s.wraps with
  | [] => (s.emit "wrap -1", false)
  | none :: rest => ({ s with wraps := rest }.emit "wrap -1", false)
  | some 1000000 :: rest =>
    -- yywrap() pops the buffer stack and says "go on" (include files ended by yywrap)
    let s := { s with wraps := rest }.emit "wrap -2"
    match s.cur, s.bstack with
    | some c, t :: bs =>
      let s := { s with bufs := s.bufs.modify c fun b => { b with alive := false } }
      ({ s with cur := some t, bstack := bs, yyin := (s.bufs.getD t {}).file <|> s.yyin }, true)
    | _, _ => (s, false)
  | some f :: rest =>
    if 2000000 ≤ f then
      -- yywrap() switches back to a buffer that was left for an include (registry entry f - 2000000) and says "go on"
      let s := { s with wraps := rest }.emit "wrap -3"
      match s.reg.getD (f - 2000000) none with
      | some id =>
        if s.cur == some id then (s, false)
        else ({ s with cur := some id, yyin := (s.bufs.getD id {}).file <|> s.yyin }, true)
      | none => (s, false)
    else
    let s := { s with wraps := rest, yyin := some f }.emit s!"wrap {f}"
    -- YY_NEW_FILE: yyrestart(yyin) re-initialises the current buffer over the new source
    let b := s.curBuf
    (s.setCurBuf { b with pending := s.srcs.getD f [], atBol := true, file := some f }, true)

def inputOp (cfg : Cfg) (s : AState) : Nat → AState
  | 0 => s.fatal "model-fuel"
  | fuel + 1 =>
    let s := s.ensureBuf
    let b := s.curBuf
    match b.pending with
    | c :: rest =>
      let atBol := if cfg.bolNeeded then c == 10 else b.atBol
      let s := s.setCurBuf { b with pending := rest, atBol := atBol }
      let s := if c == 10 then s.addLineno cfg 1 else s
      s.emit s!"in {c.toNat}"
    | [] =>
      -- as in yylex: at the end of the input a buffer read from a file is re-initialised (yyrestart), which puts it
      -- at the beginning of a line, before yywrap is asked
      let (s, more) := doWrap s.eofRestart
      if more then inputOp cfg s fuel else s.emit "in 0"

/-- buffer-level operations (C11) -/
def bufferOp (cfg : Cfg) (s : AState) : Op → AState
  | .grab =>
    let s := s.ensureBuf
    { s with reg := s.reg.push s.cur }.emit s!"buf {s.reg.size}"
  | .scanbytes src | .scanstring src =>
    let b : ABuf := { pending := s.srcs.getD src [], file := none }
    let id := s.bufs.size
    let s := { s with bufs := s.bufs.push b, reg := s.reg.push (some id), cur := some id }
    s.emit s!"buf {s.reg.size - 1}"
  | .scanbuffer src nuls =>
    -- the caller hands over `size` bytes: the source followed by `nuls` of two NUL bytes;
    -- yy_scan_buffer accepts them only if the last two bytes are NUL and scans the rest in place
    let given : List UInt8 := ((s.srcs.getD src []) ++ [(0 : UInt8), 0]).take ((s.srcs.getD src []).length + nuls)
    let n := given.length
    if n < 2 || given.drop (n - 2) != [(0 : UInt8), 0] then
      { s with reg := s.reg.push none }.emit s!"nullbuf {s.reg.size}"
    else
      let b : ABuf := { pending := given.take (n - 2), file := none }
      let id := s.bufs.size
      let s := { s with bufs := s.bufs.push b, reg := s.reg.push (some id), cur := some id }
      s.emit s!"buf {s.reg.size - 1}"
  | .create src _ =>
    let b : ABuf := { pending := s.srcs.getD src [], file := some src }
    let id := s.bufs.size
    { s with bufs := s.bufs.push b, reg := s.reg.push (some id) }.emit s!"buf {s.reg.size}"
  | .switch r =>
    match s.reg.getD r none with
    | some id => { s with cur := some id, yyin := (s.bufs.getD id {}).file <|> s.yyin }
    | none => s
  | .pushbuf r =>
    match s.reg.getD r none with
    | some id =>
      let bstack := match s.cur with
        | some c => c :: s.bstack
        | none => s.bstack
      { s with cur := some id, bstack := bstack, yyin := (s.bufs.getD id {}).file <|> s.yyin }
    | none => s
  | .popbuf =>
    match s.cur with
    | none => s
    | some c =>
      let s := { s with bufs := s.bufs.modify c fun b => { b with alive := false } }
      match s.bstack with
      | [] => { s with cur := none }
      | t :: rest => { s with cur := some t, bstack := rest, yyin := (s.bufs.getD t {}).file <|> s.yyin }
  | .flush r =>
    match s.reg.getD r none with
    | some id => { s with bufs := s.bufs.modify id fun b => { b with pending := [], atBol := true } }
    | none => s
  | .flushcur =>
    let s := s.ensureBuf
    let b := s.curBuf
    s.setCurBuf { b with pending := [], atBol := true }
  | .delete r =>
    match s.reg.getD r none with
    | some id =>
      let s := { s with bufs := s.bufs.modify id fun b => { b with alive := false } }
      if s.cur == some id then { s with cur := none } else s
    | none => s
  | .restart src =>
    let s := s.ensureBuf
    let b := s.curBuf
    { (s.setCurBuf { b with pending := s.srcs.getD src [], atBol := true, file := some src })
      with yyin := some src }
  | .newyyin src => { s with yyin := some src }
  | .setlineno n =>
    if cfg.reentrant then
      let s := s.ensureBuf
      let b := s.curBuf
      s.setCurBuf { b with lineno := n }
    else { s with lineno := n }
  | _ => s.fatal "harness: op not valid here"

/-- run the script of one action execution -/
def runAction (M : Matcher) (cfg : Cfg) (s : AState) : List Op → AState × ActEnd
  | [] => (s, .cont)
  | op :: ops =>
    if s.halted then (s, .halt) else
    match op with
    | .less n =>
      -- keep the first n characters of yytext, return the rest to the input
      let n := s.morePrefix + n % (s.text.length - s.morePrefix + 1)
      let keep := s.text.take n
      let back := s.text.drop n
      let b := s.curBuf
      let s := s.setCurBuf { b with pending := back ++ b.pending }
      let s := s.addLineno cfg (-(countNl back : Int))
      let s := { s with text := keep }
      runAction M cfg (s.emit s!"less {hexBytes keep}") ops
    | .more => runAction M cfg { s with moreFlag := true } ops
    | .unput c =>
      let b := s.curBuf
      let s := s.setCurBuf { b with pending := UInt8.ofNat c :: b.pending }
      let s := if c == 10 then s.addLineno cfg (-1) else s
      runAction M cfg { s with textValid := false } ops
    | .input =>
      let s := if cfg.logReads then s.noteNeed 1 s.curBuf.pending.length else s
      let s := inputOp cfg s (s.wraps.length + 2)
      if s.halted then (s, .halt) else runAction M cfg s ops
    | .reject => (s, .rejected)
    | .cont => (s, .eofCont)
    | .includeEnd =>
      if s.bstack.isEmpty then runAction M cfg s ops
      else
        let s' := bufferOp cfg s .popbuf
        if s'.halted then (s', .halt) else
        match runAction M cfg s' ops with
        | (s'', .cont) => (s'', .eofCont)
        | r => r
    | .ret v => (s, .ret v)
    | .terminate => (s, .ret 0)
    | op =>
      match commonOp cfg s op with
      | some s' => if s'.halted then (s', .halt) else runAction M cfg s' ops
      | none =>
        let s' := bufferOp cfg s op
        if s'.halted then (s', .halt) else runAction M cfg s' ops

/-- try the alternatives of the current position in REJECT order until an action does not reject -/
def runAlternatives (M : Matcher) (cfg : Cfg) (s : AState) (inp : List UInt8) (prefix_ : List UInt8)
    (bufBefore : ABuf) (linenoBefore : Int) : List (Nat × Nat) → AState × ActEnd
  | [] => (s.fatal "jammed", .halt)
  | (len, rule) :: rest =>
    -- every alternative starts from the state the token started in
    let s0 := (s.setCurBuf bufBefore)
    let s0 := if cfg.reentrant then s0 else { s0 with lineno := linenoBefore }
    let s0 := if cfg.logReads then s0.emit s!"rd {cfg.srcTotal - s0.unfetched.getD 0}" else s0
    let s1 := beginMatch M cfg s0 inp len rule prefix_
    if s1.halted then (s1, .halt) else
    -- the default rule's action (ECHO) is not user code: it takes no script
    -- (a rule whose '|' action chains into the default rule runs the default action)
    let (s2, script) := if cfg.actionOf.getD (rule - 1) rule == cfg.numRules then (s1, []) else s1.nextScript
    let (s3, e) := runAction M cfg { s2 with moreFlag := false } script
    match e with
    | .rejected => runAlternatives M cfg s3 inp prefix_ bufBefore linenoBefore rest
    | e => (s3, e)

/-- F28: the generated scanner applies the YYLMAX check to look-ahead text (and to the
    end-of-buffer sentinel) as well; whether that happens depends on the refill points, which this
    model abstracts from — the trace marks the tokens (`n` = prefix + look-ahead) where it may -/
def markMayFatal (cfg : Cfg) (s : AState) (n : Nat) : AState :=
  if cfg.yylmax != 0 && n + 1 ≥ cfg.yylmax then s.emit "mayfatal" else s

/-- `logReads`: the scanner has to see `need` bytes of the pending input -/
def noteReads (cfg : Cfg) (s : AState) (need plen : Nat) : AState :=
  if cfg.logReads then s.noteNeed need plen else s

/-- the `<<EOF>>` action of the current start condition begins: announce it, pick its script -/
def eofScript (s : AState) : AState × List Op :=
  let s := s.emit s!"eof {s.start}"
  let script := s.eacts.getD s.eactCounter []
  let s := { s with eactCounter := s.eactCounter + 1 }
  (s, if script.isEmpty then s.eofDefault else script)

/-- one call of `yylex`: scan tokens until an action returns -/
def lexCall (M : Matcher) (cfg : Cfg) : Nat → AState → AState
  | 0, s => s.fatal "model-fuel"
  | fuel + 1, s =>
    if s.halted then s else
    let s := s.ensureBuf
    let b := s.curBuf
    let prefix_ := if s.moreFlag then s.text else []
    match b.pending with
    | [] =>
      -- end of input: a buffer read from a file is re-initialised at this point (yy_get_next_buffer calls
      -- yyrestart(yyin)), which puts it at the beginning of a line; then yywrap, then the EOF action of
      -- the current start condition
      let s := s.eofRestart
      let (s, more) := doWrap (markMayFatal cfg s prefix_.length)
      if more then lexCall M cfg fuel s
      else if cfg.eofScs.contains s.start then
        let (s, script) := eofScript s
        let (s, e) := runAction M cfg s script
        match e with
        | .ret v => s.emit s!"ret {v}"
        | .halt => s
        | .eofCont => lexCall M cfg fuel s
        | _ => s.emit "ret 0"
      else s.emit "ret 0"
    | inp =>
      let cands := M.cands s.start b.atBol inp
      let s := markMayFatal cfg s (prefix_.length + M.scan s.start b.atBol inp)
      let s := noteReads cfg s (M.need cfg.interactive s.start b.atBol inp) inp.length
      let lnBefore := if cfg.reentrant then b.lineno else s.lineno
      let (s, e) := runAlternatives M cfg s inp prefix_ b lnBefore cands
      match e with
      | .ret v => s.emit s!"ret {v}"
      | .halt => s
      | _ => lexCall M cfg fuel s

/-- the top-level script -/
def runMain (M : Matcher) (cfg : Cfg) (fuel : Nat) (s : AState) : List Op → AState
  | [] => s.emit "end"
  | op :: ops =>
    if s.halted then s.emit "end" else
    match op with
    | .lex force =>
      if s.eofSeen && !force then runMain M cfg fuel s ops
      else
        let s' := lexCall M cfg fuel s
        let eof := s'.out.back? == some "ret 0"
        runMain M cfg fuel { s' with eofSeen := eof } ops
    | .input => runMain M cfg fuel (inputOp cfg s (s.wraps.length + 2)) ops
    | .unput c =>
      let s := s.ensureBuf
      let b := s.curBuf
      let s := s.setCurBuf { b with pending := UInt8.ofNat c :: b.pending }
      runMain M cfg fuel (if c == 10 then s.addLineno cfg (-1) else s) ops
    | .destroy =>
      let s' : AState := { srcs := s.srcs, wraps := s.wraps, acts := s.acts, actCounter := s.actCounter,
                           eofDefault := s.eofDefault, eacts := s.eacts, eactCounter := s.eactCounter,
                           out := s.out.push "destroy 0", yyin := none }
      runMain M cfg fuel s' ops
    | op =>
      match commonOp cfg s op with
      | some s' => runMain M cfg fuel s' ops
      | none => runMain M cfg fuel { (bufferOp cfg s op) with eofSeen := false } ops

end FlexVerif

import FlexVerif.Runtime.Abs
import FlexVerif.Validator.Validate
/-
  Runtime/Match.lean — the two matchers the abstract scanner is run with:
  `tableMatcher` steps through flex's emitted tables (decoders of Validator/Tables.lean),
  `specMatcher` through the specification automaton.  When `validate` accepts they agree on
  every input (`validate_sound`).
-/
namespace FlexVerif

/-- executable regex matching by partial derivatives -/
def Re.matchesB (r : Re) (w : List UInt8) : Bool :=
  let S : SState := [(0, r)]
  !((S.run w).accTags.isEmpty)

/-- longest `k ≤ len` such that `head` matches the first `k` bytes and `trail` the next `len-k` -/
def longestSplit (head trail : Re) (inp : List UInt8) (len : Nat) : Nat :=
  let w := inp.take len
  let rec go : Nat → Nat
    | 0 => 0
    | k + 1 => if head.matchesB (w.take (k + 1)) && trail.matchesB (w.drop (k + 1)) then k + 1 else go k
  go len

structure RuleInfo where
  head : Re
  trail : Option Re
  /-- flex's RULE_VARIABLE: head and trail both of variable length -/
  var : Bool := false
deriving Inhabited

def headLenOf (infos : Array RuleInfo) (rule len : Nat) (inp : List UInt8) : Nat :=
  match infos[rule - 1]? with
  | some { head := h, trail := some t, .. } => longestSplit h t inp len
  | _ => len

def fitLenOf (infos : Array RuleInfo) (rule len : Nat) (inp : List UInt8) : Nat :=
  match infos[rule - 1]? with
  | some { head := h, trail := some t, var := true } => longestSplit h t inp len
  | _ => len

/-- rule numbers in an accepting label, flags stripped, head markers dropped -/
def labelRules (reject : Bool) (l : List Int) : List Nat :=
  if reject then
    l.filterMap fun a =>
      let n := a.toNat
      if n &&& YY_TRAILING_HEAD_MASK != 0 then none else some (n &&& (YY_TRAILING_MASK - 1))
  else l.map Int.toNat     -- without REJECT `yy_accept` holds plain rule numbers

def tableCands (T : Tables) (sc : Nat) (bol : Bool) (inp : List UInt8) : List (Nat × Nat) :=
  let rec go (st : DState) (rest : List UInt8) (len : Nat) (acc : List (Nat × Nat)) : List (Nat × Nat) :=
    let here := match T.label st with
      | some l => (labelRules T.reject l).map fun r => (len, r)
      | none => []
    let acc := here ++ acc         -- longer lengths are prepended later: acc stays longest-first
    match rest with
    | [] => acc
    | c :: rest' =>
      match T.step st c with
      | .jam => acc
      | .bad => acc
      | st' => go st' rest' (len + 1) acc
  go (T.startState sc bol) inp 0 []

def specCands (S : RuleSet) (sc : Nat) (bol : Bool) (inp : List UInt8) : List (Nat × Nat) :=
  let rec go (st : SState) (rest : List UInt8) (len : Nat) (acc : List (Nat × Nat)) : List (Nat × Nat) :=
    let here := (st.accTags.filter fun t => t % 2 = 0).map fun t => (len, t / 2)
    let acc := here ++ acc
    match rest with
    | [] => acc
    | c :: rest' =>
      let st' := st.step c
      if st'.isEmpty then acc else go st' rest' (len + 1) acc
  go (S.startState sc bol) inp 0 []

def tableScan (T : Tables) (sc : Nat) (bol : Bool) (inp : List UInt8) : Nat :=
  let rec go (st : DState) (rest : List UInt8) (len : Nat) : Nat :=
    match rest with
    | [] => len
    | c :: rest' =>
      match T.step st c with
      | .jam => len
      | .bad => len
      | st' => go st' rest' (len + 1)
  go (T.startState sc bol) inp 0

def specScan (S : RuleSet) (sc : Nat) (bol : Bool) (inp : List UInt8) : Nat :=
  let rec go (st : SState) (rest : List UInt8) (len : Nat) : Nat :=
    match rest with
    | [] => len
    | c :: rest' =>
      let st' := st.step c
      if st'.isEmpty then len else go st' rest' (len + 1)
  go (S.startState sc bol) inp 0

/-- bytes the table-driven scanner has to see (see `Matcher.need`) -/
def tableNeed (T : Tables) (interactive : Bool) (sc : Nat) (bol : Bool) (inp : List UInt8) : Nat :=
  let deadEnd (st : DState) : Bool :=
    (List.range T.csize).all fun c => match T.step st (UInt8.ofNat c) with
      | .jam => true
      | _ => false
  let rec go (st : DState) (rest : List UInt8) (len : Nat) : Nat :=
    match rest with
    | [] => len
    | c :: rest' =>
      match T.step st c with
      | .jam => len + 1
      | .bad => len + 1
      | st' => if interactive && deadEnd st' then len + 1 else go st' rest' (len + 1)
  go (T.startState sc bol) inp 0

def specNeed (S : RuleSet) (interactive : Bool) (sc : Nat) (bol : Bool) (inp : List UInt8) : Nat :=
  let deadEnd (st : SState) : Bool :=
    (List.range S.csize).all fun c => (st.step (UInt8.ofNat c)).isEmpty
  let rec go (st : SState) (rest : List UInt8) (len : Nat) : Nat :=
    match rest with
    | [] => len
    | c :: rest' =>
      let st' := st.step c
      if st'.isEmpty then len + 1
      else if interactive && deadEnd st' then len + 1 else go st' rest' (len + 1)
  go (S.startState sc bol) inp 0

def tableMatcher (T : Tables) (infos : Array RuleInfo) : Matcher where
  cands := tableCands T
  headLen := headLenOf infos
  fitLen := fitLenOf infos
  scan := tableScan T
  need := tableNeed T

def specMatcher (S : RuleSet) (infos : Array RuleInfo) : Matcher where
  cands := specCands S
  headLen := headLenOf infos
  fitLen := fitLenOf infos
  scan := specScan S
  need := specNeed S

end FlexVerif

import FlexVerif.Runtime.Buf
/-
  Runtime/BufProofs.lean — the buffer machine of `Runtime/Buf.lean` refines a scan of the whole
  remaining input, whatever the buffer size and however the input routine cuts the input.
-/
namespace FlexVerif.Buf

/-- what is still to be tokenised: the unscanned part of the buffer, then what has not been read -/
def unread (st : BState) : List UInt8 := st.buf.drop st.tok ++ st.src

/-! ### growth of the buffer -/

theorem growTo_ge (p : Nat) : ∀ (fuel size : Nat), p + 2 ≤ fuel + size → p + 2 ≤ growTo size p fuel
  | 0, size, h => by simp only [growTo]; omega
  | fuel + 1, size, h => by
    simp only [growTo]
    split
    · assumption
    · apply growTo_ge p fuel
      split <;> omega

theorem growTo_mono (p : Nat) : ∀ (fuel size : Nat), size ≤ growTo size p fuel
  | 0, size => by simp [growTo]
  | fuel + 1, size => by
    simp only [growTo]
    split
    · exact Nat.le_refl _
    · by_cases hz : size = 0
      · simp only [hz, if_true]; omega
      · have := growTo_mono p fuel (size * 2)
        simp only [hz, if_false]; omega

/-! ### the automaton on a prefix -/

theorem prevState_snoc {σ : Type} (D : DFA σ) (bol : Bool) (t : List UInt8) (c : UInt8) :
    prevState D bol (t ++ [c]) = (prevState D bol t).bind fun s => D.step s c := by
  simp [prevState, List.foldl_append]

theorem take_succ_of_getElem? {α : Type} (l : List α) (p : Nat) (c : α) (h : l[p]? = some c) :
    l.take (p + 1) = l.take p ++ [c] := by
  rw [List.take_add_one, h]; rfl

/-! ### one refill -/

structure Inv (st : BState) : Prop where
  tok_le : st.tok + st.pre ≤ st.buf.length
  fits : st.buf.length ≤ st.size
  pending : st.eofPending = true → st.src = []
  size_pos : 1 ≤ st.size

theorem refill_spec (rd : Reader) (hrd : rd.OK) (st : BState) (p : Nat) (hi : Inv st)
    (hp : st.tok + p = st.buf.length) (hpre : st.pre ≤ p) :
    let r := refill rd st p
    unread r.1 = unread st ∧ r.1.tok = 0 ∧ r.1.buf.length = p + r.2 ∧ r.1.atBol = st.atBol ∧
      r.1.eofPending = st.eofPending ∧ Inv r.1 ∧ (r.2 = 0 → r.1.src = []) ∧
      r.1.buf.take p = (unread st).take p ∧
      tokensOf r.1.out.toList = tokensOf st.out.toList ∧ r.1.pre = st.pre := by
  have hpart : (st.buf.drop st.tok).take p = st.buf.drop st.tok := by
    apply List.take_of_length_le; simp; omega
  have hplen : (st.buf.drop st.tok).length = p := by simp; omega
  simp only [refill]
  split
  · -- EOF pending: nothing is read
    rename_i he
    have hs := hi.pending he
    refine ⟨?_, rfl, ?_, rfl, rfl, ?_, fun _ => hs, ?_, rfl, rfl⟩
    · simp [unread, hpart, hs]
    · simp [hpart, hplen]
    · exact ⟨by simp [hpart, hplen]; omega, by simp [hpart, hplen]; have := hi.fits; omega, fun _ => hs, hi.size_pos⟩
    · simp [unread, hpart, hs]
  · rename_i he
    have hg := growTo_ge p (p + 2) st.size (by omega)
    have hm := growTo_mono p (p + 2) st.size
    obtain ⟨h1, h2, h3⟩ := hrd st.calls (min (growTo st.size p (p + 2) - p - 1) readBufSize) st.src.length
    generalize rd st.calls (min (growTo st.size p (p + 2) - p - 1) readBufSize) st.src.length = k at h1 h2 h3
    refine ⟨?_, rfl, ?_, rfl, rfl, ?_, ?_, ?_, ?_, rfl⟩
    · simp [unread, hpart, List.append_assoc]
    · simp [hpart, hplen, List.length_take]; omega
    · have hk1 : k ≤ growTo st.size p (p + 2) - p - 1 := Nat.le_trans h1 (Nat.min_le_left _ _)
      have hk2 : min k st.src.length ≤ k := Nat.min_le_left _ _
      have hsz := hi.size_pos
      exact {
        tok_le := by
          simp only [List.length_append, List.length_take, hpart, hplen]
          omega
        fits := by
          simp only [List.length_append, List.length_take, hpart, hplen]
          omega
        pending := by intro h; simp [he] at h
        size_pos := by show 1 ≤ growTo st.size p (p + 2); omega }
    · intro hk
      have : ¬ 0 < st.src.length := by
        intro hpos
        have := h3 hpos (by simp [readBufSize]; omega)
        omega
      simp only [List.drop_eq_nil_iff]; omega
    · simp [unread, hpart, hplen]
    · simp [tokensOf]

/-! ### the match loop -/

def LaLe (la : Last) (p : Nat) : Prop := ∀ l r, la = some (l, r) → l ≤ p

theorem upd_LaLe {σ : Type} (D : DFA σ) (la : Last) (p : Nat) (s : σ) (h : LaLe la p) :
    LaLe (upd D la (p + 1) s) (p + 1) := by
  intro l r hh
  unfold upd at hh
  split at hh
  · cases hh; omega
  · have := h l r hh; omega

/-- what one run of the match loop has to deliver -/
structure ScanPost {σ : Type} (D : DFA σ) (U : List UInt8) (bol : Bool) (pre : Nat)
    (T : List (Nat × List UInt8)) (expect : Last) (r : Res σ) : Prop where
  ok : match r with
    | .tok st' la' =>
        la' = expect ∧ unread st' = U ∧ st'.atBol = bol ∧ st'.pre = pre ∧ Inv st' ∧
          (∀ l r, la' = some (l, r) → st'.tok + st'.pre + l ≤ st'.buf.length) ∧
          tokensOf st'.out.toList = T
    | .eof st' => U.length ≤ pre ∧ expect = none ∧ Inv st' ∧ tokensOf st'.out.toList = T
    | .fuel => False

theorem drop_take_eq {α : Type} (l : List α) (a b : Nat) : (l.take (a + b)).drop a = (l.drop a).take b := by
  rw [List.drop_take]; simp

/-- The central invariant step: from any point of the match loop — `p` characters of the
    token scanned (after a carried prefix of `pre` characters), all of them in the buffer, in the
    state the automaton reaches on them — the loop ends with the result of scanning the rest of
    the *whole* remaining input. -/
theorem scan_spec {σ : Type} (D : DFA σ) (rd : Reader) (hrd : rd.OK) :
    ∀ (fuel : Nat) (st : BState) (p : Nat) (s : σ) (la : Last) (rem : List UInt8),
      rem = st.buf.drop (st.tok + st.pre + p) →
      Inv st → st.tok + st.pre + p ≤ st.buf.length →
      prevState D st.atBol (((unread st).drop st.pre).take p) = some s →
      LaLe la p →
      (p = 0 → la = none) →
      2 * ((unread st).length - st.pre - p) + (if st.tok + st.pre + p < st.buf.length then 0 else 1) + 1 ≤ fuel →
      ScanPost D (unread st) st.atBol st.pre (tokensOf st.out.toList)
        (absScan D s la p (((unread st).drop st.pre).drop p))
        (scan D rd fuel st p s la rem)
  | 0, st, p, s, la, rem, _, _, _, _, _, _, hf => by omega
  | fuel + 1, st, p, s, la, rem, hrem, hi, hp, hs, hla, hp0, hf => by
    have hU : (unread st).length = st.buf.length - st.tok + st.src.length := by simp [unread]
    simp only [scan]
    by_cases hd : D.dead s
    · -- an interactive scanner stops here
      simp only [hd, if_true]
      refine ⟨?_, rfl, rfl, rfl, hi, fun l r hh => by have := hla l r hh; omega, rfl⟩
      cases h : ((unread st).drop st.pre).drop p with
      | nil => simp [absScan]
      | cons c rest => simp [absScan, hd]
    · simp only [hd, Bool.false_eq_true, if_false]
      cases hrm : rem with
      | cons c rem' =>
        -- a character of the buffer
        have hdr0 : st.buf.drop (st.tok + st.pre + p) = c :: rem' := by rw [← hrem, hrm]
        have hlt : st.tok + st.pre + p < st.buf.length := by
          rcases Nat.lt_or_ge (st.tok + st.pre + p) st.buf.length with h | h
          · exact h
          · rw [List.drop_eq_nil_of_le h] at hdr0; cases hdr0
        have hc : st.buf[st.tok + st.pre + p]? = some c := by
          have := List.getElem?_drop (xs := st.buf) (i := st.tok + st.pre + p) (j := 0)
          rw [hdr0] at this; simpa using this.symm
        have hrem' : rem' = st.buf.drop (st.tok + st.pre + (p + 1)) := by
          have : st.buf.drop (st.tok + st.pre + (p + 1)) = (st.buf.drop (st.tok + st.pre + p)).drop 1 := by
            rw [List.drop_drop]; congr 1
          rw [this, hdr0]; rfl
        have hUc : ((unread st).drop st.pre)[p]? = some c := by
          simp only [unread]
          rw [List.getElem?_drop, List.getElem?_append_left (by simp; omega), List.getElem?_drop]
          rw [← hc]; congr 1; omega
        have hdrop : ((unread st).drop st.pre).drop p = c :: ((unread st).drop st.pre).drop (p + 1) := by
          rw [List.drop_eq_getElem?_toList_append, hUc]; rfl
        simp only
        rw [hdrop]
        simp only [absScan, hd, Bool.false_eq_true, if_false]
        cases hstep : D.step s c with
        | none =>
          simp only
          exact ⟨rfl, rfl, rfl, rfl, hi, fun l r hh => by have := hla l r hh; omega, rfl⟩
        | some s' =>
          simp only
          have hs' : prevState D st.atBol (((unread st).drop st.pre).take (p + 1)) = some s' := by
            rw [take_succ_of_getElem? _ _ _ hUc, prevState_snoc, hs]; simpa using hstep
          have hlen : p < ((unread st).drop st.pre).length := by
            rcases Nat.lt_or_ge p ((unread st).drop st.pre).length with h | h
            · exact h
            · rw [List.getElem?_eq_none h] at hUc; cases hUc
          have hlen' : st.pre + p < (unread st).length := by simp at hlen; omega
          have := scan_spec D rd hrd fuel st (p + 1) s' (upd D la (p + 1) s') rem' hrem' hi (by omega) hs'
            (upd_LaLe D la p s' hla) (by omega) (by
              simp only [hlt, if_true] at hf
              split <;> omega)
          exact this
      | nil =>
        -- the end of the buffer
        have hge : st.buf.length ≤ st.tok + st.pre + p := by
          have : st.buf.drop (st.tok + st.pre + p) = [] := by rw [← hrem, hrm]
          simpa using this
        have hpe : st.tok + (st.pre + p) = st.buf.length := by omega
        obtain ⟨r1, r2, r3, r4, r5, r6, r7, r8, r9, r10⟩ := refill_spec rd hrd st (st.pre + p) hi hpe (by omega)
        simp only
        generalize hr : refill rd st (st.pre + p) = rr at r1 r2 r3 r4 r5 r6 r7 r8 r9 r10
        obtain ⟨st', k⟩ := rr
        simp only at r1 r2 r3 r4 r5 r6 r7 r8 r9 r10 ⊢
        have hmoved : (st'.buf.drop st.pre).take p = ((unread st).drop st.pre).take p := by
          rw [← drop_take_eq, ← drop_take_eq, r8]
        by_cases hk : k = 0
        · -- nothing more: end of file, or the last match
          simp only [hk, if_true]
          have hsrc := r7 hk
          have hUp : (unread st).length = st.pre + p := by
            have : (unread st').length = st.pre + p := by simp [unread, r2, hsrc, r3, hk]
            rw [r1] at this; exact this
          have hdr : ((unread st).drop st.pre).drop p = [] := by
            apply List.drop_eq_nil_of_le; simp; omega
          rw [hdr]
          simp only [absScan]
          by_cases hz : p = 0
          · simp only [hz, if_true]
            subst hz
            exact ⟨by omega, hp0 rfl, r6, r9⟩
          · simp only [hz, if_false]
            refine ⟨rfl, ?_, r4, r10, ?_, ?_, r9⟩
            · simpa [unread] using r1
            · exact ⟨r6.tok_le, r6.fits, fun _ => hsrc, r6.size_pos⟩
            · intro l r hh
              have := hla l r hh
              simp only [r2, r3, r10]; omega
        · simp only [hk, if_false]
          -- the state computed again from the moved text is the same state
          have hprev : prevState D st.atBol ((st'.buf.drop st.pre).take p) = some s := by
            rw [hmoved]; exact hs
          rw [hprev]
          simp only
          have := scan_spec D rd hrd fuel st' p s la (st'.buf.drop (st.pre + p)) (by rw [r2, r10]; simp) r6 (by omega) (by rw [r1, r4, r10]; exact hs) hla hp0 (by
            rw [r1, r10]
            have h1 : ¬ st.tok + st.pre + p < st.buf.length := by omega
            simp only [h1, if_false] at hf
            have h2 : st'.tok + st.pre + p < st'.buf.length := by omega
            simp only [h2, if_true]
            omega)
          rw [r1, r4, r9, r10] at this
          exact this

/-! ### all tokens -/

theorem prevState_nil {σ : Type} (D : DFA σ) (bol : Bool) : prevState D bol [] = some (D.start bol) := rfl

theorem tokensOf_push_tok (a : Array Ev) (r : Nat) (t : List UInt8) :
    tokensOf (a.push (.tok r t)).toList = tokensOf a.toList ++ [(r, t)] := by
  simp [tokensOf, List.filterMap_append]

theorem tokensOf_push_jammed (a : Array Ev) :
    tokensOf (a.push .jammed).toList = tokensOf a.toList := by
  simp [tokensOf, List.filterMap_append]

/-- an action moves the token start by as much as it drops from the front of the unread input -/
theorem apply_fst (a : Act) (tok pre len : Nat) :
    (a.apply tok pre len).1 = tok + (a.apply 0 pre len).1 ∧ (a.apply tok pre len).2 = (a.apply 0 pre len).2 ∧
      (a.apply 0 pre len).1 + (a.apply 0 pre len).2 ≤ len := by
  cases a <;> simp [Act.apply] <;> omega

/-- **Delivery independence (C03), buffer level.**  Whatever the buffer size (≥ 1), however the
    input routine cuts the input into reads (`Reader.OK`: between 1 and the requested number of
    bytes while input remains) and whatever the actions do with yyless() and yymore(), the tokens
    the buffer machine produces — rule and yytext, carried prefix included — are those of the
    buffer-less reference `absLex` on the whole input; and the buffer never holds more than
    `yy_buf_size` characters. -/
theorem run_tokens {σ : Type} (D : DFA σ) (rd : Reader) (hrd : rd.OK) (act : Script) :
    ∀ (fuel k : Nat) (st : BState), Inv st →
      tokensOf (run D rd act fuel k st).out.toList =
        tokensOf st.out.toList ++ absLex D act fuel k st.atBol st.pre (unread st) ∧
      Inv (run D rd act fuel k st)
  | 0, k, st, hi => by simp [run, absLex, hi]
  | fuel + 1, k, st, hi => by
    have hU : (unread st).length = st.buf.length - st.tok + st.src.length := by simp [unread]
    have hsp := scan_spec D rd hrd (tokFuel st) st 0 (D.start st.atBol) none (st.buf.drop (st.tok + st.pre)) rfl hi (by have := hi.tok_le; omega)
      (by simp [prevState_nil]) (by intro l r h; cases h) (fun _ => rfl)
      (by simp only [tokFuel]; split <;> omega)
    simp only [List.drop_zero] at hsp
    simp only [run]
    cases hr : scan D rd (tokFuel st) st 0 (D.start st.atBol) none (st.buf.drop (st.tok + st.pre)) with
    | fuel => rw [hr] at hsp; exact absurd hsp.ok (by simp)
    | eof st' =>
      rw [hr] at hsp
      obtain ⟨h1, h2, h3, h4⟩ := hsp.ok
      simp only
      refine ⟨?_, h3⟩
      rw [h4]
      simp [absLex, h1]
    | tok st' la' =>
      rw [hr] at hsp
      obtain ⟨h1, h2, h3, hpre, h4, h5, h6⟩ := hsp.ok
      have habs : absTok D st.atBol ((unread st).drop st.pre) = la' := h1.symm
      cases hla : la' with
      | none =>
        simp only
        refine ⟨?_, ⟨h4.tok_le, h4.fits, h4.pending, h4.size_pos⟩⟩
        rw [tokensOf_push_jammed, h6]
        simp only [absLex]
        split
        · simp
        · rw [habs, hla]; simp
      | some lr =>
        obtain ⟨l, r⟩ := lr
        simp only
        by_cases hl : l = 0
        · simp only [hl, if_true]
          refine ⟨?_, ⟨h4.tok_le, h4.fits, h4.pending, h4.size_pos⟩⟩
          rw [tokensOf_push_jammed, h6]
          simp only [absLex]
          split
          · simp
          · rw [habs, hla, hl]; simp
        · simp only [hl, if_false]
          have hb := h5 l r hla
          have hlenU : st.pre + l ≤ (unread st).length := by
            rw [← h2]; simp only [unread, List.length_append, List.length_drop]; omega
          have htext : (st'.buf.drop st'.tok).take (st'.pre + l) = (unread st).take (st.pre + l) := by
            rw [← h2, hpre]; simp only [unread]
            rw [List.take_append_of_le_length (by simp; omega)]
          generalize hact : act k r ((st'.buf.drop st'.tok).take (st'.pre + l)) = ak
          obtain ⟨a, k'⟩ := ak
          obtain ⟨ha1, ha2, ha3⟩ := apply_fst a st'.tok st'.pre (st'.pre + l)
          -- the state after the action
          have hi'' : Inv { st' with tok := (a.apply st'.tok st'.pre (st'.pre + l)).1,
                                     pre := (a.apply st'.tok st'.pre (st'.pre + l)).2,
                                     atBol := endsNl ((st'.buf.drop st'.tok).take (st'.pre + l)) st'.atBol,
                                     out := st'.out.push (.tok r ((st'.buf.drop st'.tok).take (st'.pre + l))) } :=
            ⟨by simp only [ha1, ha2]; omega, h4.fits, h4.pending, h4.size_pos⟩
          have hun : unread { st' with tok := (a.apply st'.tok st'.pre (st'.pre + l)).1,
                                       pre := (a.apply st'.tok st'.pre (st'.pre + l)).2,
                                       atBol := endsNl ((st'.buf.drop st'.tok).take (st'.pre + l)) st'.atBol,
                                       out := st'.out.push (.tok r ((st'.buf.drop st'.tok).take (st'.pre + l))) } =
              (unread st).drop (a.apply 0 st'.pre (st'.pre + l)).1 := by
            rw [← h2]; simp only [unread, ha1]
            rw [List.drop_append_of_le_length (by simp; omega), List.drop_drop, Nat.add_comm]
          obtain ⟨ih1, ih2⟩ := run_tokens D rd hrd act fuel k' _ hi''
          refine ⟨?_, ih2⟩
          rw [ih1, hun]
          simp only [tokensOf_push_tok, h6, h3, ha2]
          simp only [absLex]
          have hnle : ¬ (unread st).length ≤ st.pre := by omega
          simp only [hnle, if_false, habs, hla, hl]
          rw [htext] at hact ⊢
          simp only [hact, hpre, List.append_assoc, List.singleton_append]

theorem init_Inv (size : Nat) (src : List UInt8) (h : 1 ≤ size) : Inv (init size src) :=
  ⟨by simp [init], by simp [init], by simp [init], h⟩

/-- the statement for a whole run from a fresh buffer -/
theorem run_from_init {σ : Type} (D : DFA σ) (rd : Reader) (hrd : rd.OK) (act : Script) (size : Nat)
    (hs : 1 ≤ size) (src : List UInt8) (fuel : Nat) :
    tokensOf (run D rd act fuel 0 (init size src)).out.toList = absLex D act fuel 0 true 0 src ∧
      (run D rd act fuel 0 (init size src)).buf.length ≤ (run D rd act fuel 0 (init size src)).size := by
  obtain ⟨h1, h2⟩ := run_tokens D rd hrd act fuel 0 (init size src) (init_Inv size src hs)
  refine ⟨?_, h2.fits⟩
  rw [h1]; simp [init, unread, tokensOf]

/-- C03's first sentence at the buffer level, under the name the checks cite.  **Partial**: it
    is a statement about `Runtime/Buf.lean`, which covers scanners whose actions use yyless() and
    yymore() (%pointer) but not yyunput / yyinput / buffer switches, without REJECT's state stack,
    with the end-of-buffer test as a position test (the NUL sentinel detour is not in the model)
    and without `int` overflow of the buffer size.  The full property is explored against the
    abstract scanner of `Runtime/Abs.lean`. -/
theorem delivery_independent_partial {σ : Type} (D : DFA σ) (rd : Reader) (hrd : rd.OK) (act : Script)
    (size : Nat) (hs : 1 ≤ size) (src : List UInt8) (fuel : Nat) :
    tokensOf (run D rd act fuel 0 (init size src)).out.toList = absLex D act fuel 0 true 0 src :=
  (run_from_init D rd hrd act size hs src fuel).1

/-- the harness's cyclic schedule of read sizes is an input routine in the above sense -/
theorem schedReader_OK (sched : List Nat) : (schedReader sched).OK := by
  intro i max avail
  simp only [schedReader]
  refine ⟨by omega, by omega, ?_⟩
  intro h1 h2
  split <;> split <;> omega

/-- non-vacuity: a two-state automaton for `a+ | b`, buffer of one byte, one byte per read;
    the second action keeps one character and asks for more -/
def exD : DFA Nat where
  start := fun _ => 0
  step := fun s c => if c == 97 then (if s == 0 || s == 1 then some 1 else none) else if c == 98 && s == 0 then some 2 else none
  accept := fun s => if s == 1 then some 1 else if s == 2 then some 2 else none
  dead := fun _ => false

example : tokensOf (run exD (schedReader [1]) (fun k _ _ => (.plain, k + 1)) 10 0 (init 1 [97, 97, 98, 97])).out.toList =
    [(1, [97, 97]), (2, [98]), (1, [97])] := by decide

example : tokensOf (run exD (schedReader [1]) (fun k _ _ => (if k == 0 then .lessMore 1 else .plain, k + 1)) 10 0
    (init 1 [97, 97, 98, 97])).out.toList = [(1, [97, 97]), (1, [97, 97]), (2, [98]), (1, [97])] := by decide

end FlexVerif.Buf

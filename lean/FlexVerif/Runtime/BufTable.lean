import FlexVerif.Runtime.MatchProofs
import FlexVerif.Runtime.BufProofs
/-
  Runtime/BufTable.lean — the buffer machine instantiated with flex's emitted tables, and the
  link between the two levels: the token the buffer machine settles on is the first alternative
  of the table-driven matcher of `Runtime/Match.lean`, hence (for tables the validator accepted)
  the token the manual prescribes.
-/
namespace FlexVerif
open Buf

/-- the emitted automaton as the match loop of a scanner sees it (start condition 0) -/
def tableDFA (T : Tables) (interactive : Bool) : Buf.DFA DState where
  start := fun bol => T.startState 0 bol
  step := fun s c => match T.step s c with
    | .jam => none
    | .bad => none
    | s' => some s'
  accept := fun s => match T.label s with
    | some l => ((labelRules T.reject l).head?)
    | none => none
  dead := fun s => interactive &&
    (List.range T.csize).all fun c => match T.step s (UInt8.ofNat c) with
      | .jam => true
      | _ => false

/-- what the match loop finds beyond state `st` -/
def deeper (T : Tables) (st : DState) (rest : List UInt8) (len : Nat) : List (Nat × Nat) :=
  match rest with
  | [] => []
  | c :: rest' =>
    match T.step st c with
    | .jam => []
    | .bad => []
    | st' => tgoF T st' rest' (len + 1)

theorem tgoF_eq_deeper (T : Tables) (st : DState) (rest : List UInt8) (len : Nat) :
    tgoF T st rest len = deeper T st rest len ++ hereT T st len := by
  cases rest with
  | nil => simp [tgoF, deeper]
  | cons c rest' =>
    simp only [tgoF, deeper]
    rfl

theorem hereT_head (T : Tables) (st : DState) (len : Nat) :
    (hereT T st len).head? = ((tableDFA T false).accept st).map fun r => (len, r) := by
  simp only [hereT, tableDFA]
  cases T.label st with
  | none => rfl
  | some l =>
    simp only
    cases labelRules T.reject l <;> simp

theorem upd_eq (T : Tables) (la : Last) (p : Nat) (s : DState) :
    upd (tableDFA T false) la p s = ((hereT T s p).head?).or la := by
  rw [hereT_head]
  unfold upd
  cases (tableDFA T false).accept s <;> rfl

/-- the loop of the buffer machine's reference scan follows the table matcher's candidates -/
theorem absScan_eq_deeper (T : Tables) :
    ∀ (rest : List UInt8) (st : DState) (la : Last) (len : Nat),
      absScan (tableDFA T false) st la len rest = ((deeper T st rest len).head?).or la
  | [], st, la, len => by simp [absScan, deeper]
  | c :: rest, st, la, len => by
    simp only [absScan, deeper]
    have hd : (tableDFA T false).dead st = false := by simp [tableDFA]
    simp only [hd, Bool.false_eq_true, if_false]
    cases hs : T.step st c with
    | jam => simp [tableDFA, hs]
    | bad => simp [tableDFA, hs]
    | st n =>
      have : (tableDFA T false).step st c = some (.st n) := by simp [tableDFA, hs]
      simp only [this]
      rw [absScan_eq_deeper T rest (.st n) _ (len + 1), upd_eq, tgoF_eq_deeper]
      cases (deeper T (.st n) rest (len + 1)) with
      | nil => simp
      | cons x xs => simp

/-- **The two levels agree on the token.**  Whenever the table-driven matcher's first
    alternative is a non-empty match, it is the token the buffer machine's reference scan finds. -/
theorem absTok_eq_tableCands_head (T : Tables) (bol : Bool) (inp : List UInt8) (l r : Nat)
    (tl : List (Nat × Nat)) (h : tableCands T 0 bol inp = (l, r) :: tl) (hl : 1 ≤ l) :
    absTok (tableDFA T false) bol inp = some (l, r) := by
  unfold absTok
  show absScan (tableDFA T false) (T.startState 0 bol) none 0 inp = some (l, r)
  rw [absScan_eq_deeper, tableCands_eq, tgoF_eq_deeper] at *
  cases hd : deeper T (T.startState 0 bol) inp 0 with
  | nil =>
    rw [hd, List.nil_append] at h
    -- every alternative of the start state itself has length 0
    have : l = 0 := by
      unfold hereT at h
      split at h
      · cases hh : labelRules T.reject ‹_› with
        | nil => rw [hh] at h; simp at h
        | cons a as => rw [hh] at h; simp at h; omega
      · simp at h
    omega
  | cons x xs =>
    rw [hd, List.cons_append] at h
    cases h
    rfl

/-- **From the buffer to the manual.**  For tables the validator accepted (scanner without
    REJECT), the token found by scanning the whole remaining input — which by `Buf.run_tokens`
    is the token the buffer machine produces for every buffer size and every read schedule — is
    the longest match, first rule of the documentation. -/
theorem bufToken_selects (S : RuleSet) (T : Tables) (budget : Nat)
    (hv : (validate S T budget).ok = true) (hr : T.reject = false) (h0 : 0 < S.nsc)
    (bol : Bool) (inp : List UInt8) (hw : ∀ c ∈ inp, c.toNat < T.csize)
    (l r : Nat) (tl : List (Nat × Nat)) (h : tableCands T 0 bol inp = (l, r) :: tl) (hl : 1 ≤ l) :
    absTok (tableDFA T false) bol inp = some (l, r) ∧ S.Selects 0 bol inp l r :=
  ⟨absTok_eq_tableCands_head T bol inp l r tl h hl,
   tableCands_selects S T budget hv hr 0 h0 bol inp hw l r tl h⟩

end FlexVerif

import FlexVerif.Gen.Proc
/-
  Proc/Exit.lean — how flex's exit status comes about.

  flex is a tree of processes: the main process writes the scanner text into a pipe; its children
  are the header "tee", m4 and the #line fixer (which writes the scanner file); the tee in turn
  has an m4 and a #line fixer of its own that write the header file.  A process that cannot write
  exits non-zero (`lerr` ends in `flexerror`, i.e. `exit(1)`).  What the user sees is the main
  process's status, so each parent has to fold its children's statuses into its own.
-/
namespace FlexVerif.Proc

/-- a process: did it fail by itself (write error, m4 error, …), does it look at its children's
    exit statuses, its children -/
inductive PNode where
  | mk (ownFailure : Bool) (folds : Bool) (children : List PNode)

mutual
def exitStatus : PNode → Nat
  | .mk own folds cs => if own then 1 else if folds && anyFails cs then 1 else 0
def anyFails : List PNode → Bool
  | [] => false
  | c :: cs => exitStatus c != 0 || anyFails cs
end

mutual
/-- no process of the tree failed -/
def allOk : PNode → Bool
  | .mk own _ cs => !own && allOkList cs
def allOkList : List PNode → Bool
  | [] => true
  | c :: cs => allOk c && allOkList cs
end

mutual
/-- every process that has children folds their statuses -/
def allFold : PNode → Bool
  | .mk _ folds cs => (folds || cs.isEmpty) && allFoldList cs
def allFoldList : List PNode → Bool
  | [] => true
  | c :: cs => allFold c && allFoldList cs
end

mutual
theorem exit_zero_aux : (n : PNode) → allFold n = true → exitStatus n = 0 → allOk n = true
  | .mk own folds cs, hf, he => by
    simp only [allFold, Bool.and_eq_true, Bool.or_eq_true] at hf
    simp only [exitStatus] at he
    cases own with
    | true => simp at he
    | false =>
      simp only [Bool.false_eq_true, if_false] at he
      simp only [allOk, Bool.not_false, Bool.true_and]
      cases cs with
      | nil => rfl
      | cons c cs' =>
        have hfold : folds = true := by
          rcases hf.1 with h | h
          · exact h
          · simp at h
        simp only [hfold, Bool.true_and] at he
        have hany : anyFails (c :: cs') = false := by
          cases h : anyFails (c :: cs') with
          | false => rfl
          | true => simp [h] at he
        exact exit_zero_list (c :: cs') hf.2 hany
theorem exit_zero_list : (cs : List PNode) → allFoldList cs = true → anyFails cs = false → allOkList cs = true
  | [], _, _ => rfl
  | c :: cs, hf, ha => by
    simp only [allFoldList, Bool.and_eq_true] at hf
    simp only [anyFails, Bool.or_eq_false_iff, bne_eq_false_iff_eq, beq_iff_eq] at ha
    simp only [allOkList, Bool.and_eq_true]
    exact ⟨exit_zero_aux c hf.1 (by simpa using ha.1), exit_zero_list cs hf.2 ha.2⟩
end

/-- **Exit status 0 only if nothing failed**: in a tree where every parent folds its children's
    statuses, a zero status of the root means no process reported a failure — in particular no
    output file was left unwritten. -/
theorem exit_zero_only_if_complete (n : PNode) (hf : allFold n = true) (he : exitStatus n = 0) :
    allOk n = true := exit_zero_aux n hf he

/-- flex's process tree with a header file requested; failures are parameters -/
def flexTree (mainFails teeFails m4cFails fixcFails m4hFails fixhFails : Bool) : PNode :=
  .mk mainFails Gen.mainFoldsChildren
    [ .mk teeFails Gen.teeFoldsChildren [ .mk m4hFails true [], .mk fixhFails true [] ],
      .mk m4cFails true [],
      .mk fixcFails true [] ]

/-- **flex's own tree is honest** — decided on the folding behaviour re-extracted from the
    current main.c / filter.c: whatever fails, status 0 implies that nothing failed. -/
theorem flex_tree_honest :
    ∀ a b c d e f : Bool, exitStatus (flexTree a b c d e f) = 0 → allOk (flexTree a b c d e f) = true := by
  decide

end FlexVerif.Proc

import FlexVerif.Gen.Proc
/-
  Proc/Exit.lean — how flex's exit status comes about.

  flex is a tree of processes: the main process writes the scanner text into a pipe; its children
  are the header "tee", m4 and the #line fixer (which writes the scanner file); the tee in turn
  has an m4 and a #line fixer of its own that write the header file.  A process that cannot write
  exits non-zero (`lerr` ends in `flexerror`, i.e. `exit(1)`) or is killed by a signal (SIGXFSZ
  at a file-size limit, SIGPIPE when its reader died).  What the user sees is the main process's
  status, so each parent has to fold its children's wait statuses — both kinds — into its own.
-/
namespace FlexVerif.Proc

/-- how a process ends, as its parent's `wait` sees it -/
inductive Outcome where
  | ok        -- exited with status 0
  | err       -- exited with a non-zero status
  | killed    -- terminated by a signal
deriving DecidableEq, Repr

/-- which wait statuses of its children a parent treats as failure
    (the condition after `wait(&status)` evaluated on the three kinds of status) -/
structure Fold where
  countsErr : Bool
  countsKilled : Bool
deriving DecidableEq, Repr

def Fold.full (f : Fold) : Bool := f.countsErr && f.countsKilled

/-- a process: how it ends by itself (write error, m4 error, signal, …), how it looks at its
    children's statuses, its children -/
inductive PNode where
  | mk (own : Outcome) (fold : Fold) (children : List PNode)

mutual
/-- the wait status of a process: its own failure, else failure if it notices a failed child -/
def status : PNode → Outcome
  | .mk own f cs =>
    match own with
    | .ok => if seesFailure f cs then .err else .ok
    | o => o
def seesFailure (f : Fold) : List PNode → Bool
  | [] => false
  | c :: cs =>
    (match status c with
      | .ok => false
      | .err => f.countsErr
      | .killed => f.countsKilled) || seesFailure f cs
end

mutual
/-- no process of the tree failed -/
def allOk : PNode → Bool
  | .mk own _ cs => (own == .ok) && allOkList cs
def allOkList : List PNode → Bool
  | [] => true
  | c :: cs => allOk c && allOkList cs
end

mutual
/-- every process that has children counts both kinds of failure -/
def allFold : PNode → Bool
  | .mk _ f cs => (f.full || cs.isEmpty) && allFoldList cs
def allFoldList : List PNode → Bool
  | [] => true
  | c :: cs => allFold c && allFoldList cs
end

mutual
theorem exit_zero_aux : (n : PNode) → allFold n = true → status n = .ok → allOk n = true
  | .mk own f cs, hf, he => by
    simp only [allFold, Bool.and_eq_true, Bool.or_eq_true] at hf
    simp only [status] at he
    cases own with
    | err => simp at he
    | killed => simp at he
    | ok =>
      simp only at he
      simp only [allOk, beq_self_eq_true, Bool.true_and]
      cases cs with
      | nil => rfl
      | cons c cs' =>
        have hfull : f.full = true := by
          rcases hf.1 with h | h
          · exact h
          · simp at h
        have hsee : seesFailure f (c :: cs') = false := by
          cases h : seesFailure f (c :: cs') with
          | false => rfl
          | true => simp [h] at he
        exact exit_zero_list f hfull (c :: cs') hf.2 hsee
theorem exit_zero_list (f : Fold) (hfull : f.full = true) :
    (cs : List PNode) → allFoldList cs = true → seesFailure f cs = false → allOkList cs = true
  | [], _, _ => rfl
  | c :: cs, hf, ha => by
    simp only [allFoldList, Bool.and_eq_true] at hf
    simp only [seesFailure, Bool.or_eq_false_iff] at ha
    simp only [allOkList, Bool.and_eq_true]
    have hc : status c = .ok := by
      simp only [Fold.full, Bool.and_eq_true] at hfull
      cases h : status c with
      | ok => rfl
      | err => rw [h] at ha; simp [hfull.1] at ha
      | killed => rw [h] at ha; simp [hfull.2] at ha
    exact ⟨exit_zero_aux c hf.1 hc, exit_zero_list f hfull cs hf.2 ha.2⟩
end

/-- **Exit status 0 only if nothing failed**: in a tree where every parent counts both a
    non-zero exit and a death by signal of a child as failure, a zero status of the root means
    no process failed in either way — in particular no output file was left unwritten. -/
theorem exit_zero_only_if_complete (n : PNode) (hf : allFold n = true) (he : status n = .ok) :
    allOk n = true := exit_zero_aux n hf he

/-- the two parents of flex's tree, as re-extracted from the current main.c / filter.c -/
def mainFold : Fold := ⟨Gen.mainCountsErr, Gen.mainCountsKilled⟩
def teeFold : Fold := ⟨Gen.teeCountsErr, Gen.teeCountsKilled⟩
def leaf : Fold := ⟨true, true⟩

/-- flex's process tree with a header file requested; how each process ends is a parameter -/
def flexTree (main tee m4c fixc m4h fixh : Outcome) : PNode :=
  .mk main mainFold
    [ .mk tee teeFold [ .mk m4h leaf [], .mk fixh leaf [] ],
      .mk m4c leaf [],
      .mk fixc leaf [] ]

/-- **flex's own tree is honest** — on the folding conditions re-extracted from the current
    sources: however each process ends (normally, with an error, by a signal), status 0 of flex
    implies that none of them failed. -/
theorem flex_tree_honest (a b c d e f : Outcome) :
    status (flexTree a b c d e f) = .ok → allOk (flexTree a b c d e f) = true :=
  exit_zero_only_if_complete _ (by
    simp only [flexTree, allFold, allFoldList, List.isEmpty_nil, List.isEmpty_cons, Bool.or_true,
      Bool.or_false, Bool.and_true, Bool.true_and]
    decide)

/-- non-vacuity: a run in which nothing fails does end with status 0, and a killed #line fixer
    of the header makes the status non-zero -/
example : status (flexTree .ok .ok .ok .ok .ok .ok) = .ok := by decide
example : status (flexTree .ok .ok .ok .ok .ok .killed) = .err := by decide

end FlexVerif.Proc

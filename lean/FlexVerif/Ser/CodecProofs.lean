import FlexVerif.Ser.Codec
/-
  Ser/CodecProofs.lean — round trip, 64-bit alignment, look-up by name in concatenated files,
  failure on every truncation and on a wrong magic number, for the serialized-tables codec.
-/
namespace FlexVerif.Ser

theorem be_length (n v : Nat) : (be n v).length = n := by
  induction n generalizing v with
  | zero => rfl
  | succ n ih => simp [be, ih]

theorem rd_be (n v : Nat) (rest : List UInt8) (h : v < 256 ^ n) :
    rd n (be n v ++ rest) = some (v, rest) := by
  induction n generalizing v with
  | zero => simp at h; subst h; rfl
  | succ n ih =>
    have hp : 0 < 256 ^ n := Nat.pow_pos (by decide)
    have hd : v / 256 ^ n < 256 := by
      rw [Nat.div_lt_iff_lt_mul hp]; rw [Nat.pow_succ] at h; rw [Nat.mul_comm]; exact h
    have hm : v % 256 ^ n < 256 ^ n := Nat.mod_lt _ hp
    simp only [be, List.cons_append, rd, ih _ hm]
    have e1 : v / 256 ^ n % 256 = v / 256 ^ n := Nat.mod_eq_of_lt hd
    have e2 : (UInt8.ofNat (v / 256 ^ n)).toNat = v / 256 ^ n := by
      simp [UInt8.toNat_ofNat']; omega
    rw [e1, e2]
    congr 2
    rw [Nat.mul_comm]; exact Nat.div_add_mod v (256 ^ n)

theorem rd_some_length {n : Nat} {bs r : List UInt8} {v : Nat} (h : rd n bs = some (v, r)) :
    bs.length = n + r.length := by
  induction n generalizing bs v with
  | zero => simp [rd] at h; obtain ⟨_, rfl⟩ := h; simp
  | succ n ih =>
    cases bs with
    | nil => simp [rd] at h
    | cons b bs =>
      simp only [rd] at h
      cases h2 : rd n bs with
      | none => simp [h2] at h
      | some p =>
        obtain ⟨v', r'⟩ := p
        simp [h2] at h
        obtain ⟨_, rfl⟩ := h
        have := ih h2
        simp [this]; omega

theorem rd_append {n : Nat} {bs r x : List UInt8} {v : Nat} (h : rd n bs = some (v, r)) :
    rd n (bs ++ x) = some (v, r ++ x) := by
  induction n generalizing bs v with
  | zero => simp [rd] at h; obtain ⟨rfl, rfl⟩ := h; rfl
  | succ n ih =>
    cases bs with
    | nil => simp [rd] at h
    | cons b bs =>
      simp only [rd, List.cons_append] at h ⊢
      cases h2 : rd n bs with
      | none => simp [h2] at h
      | some p =>
        obtain ⟨v', r'⟩ := p
        simp [h2] at h
        obtain ⟨rfl, rfl⟩ := h
        simp [ih h2]

theorem padLen_mod (len : Nat) : (len + padLen len) % 8 = 0 := by
  unfold padLen; omega

theorem padLen_lt (len : Nat) : padLen len < 8 := by unfold padLen; omega

theorem zeros_length (n : Nat) : (zeros n).length = n := by simp [zeros]

theorem dropExact_zeros (n : Nat) (rest : List UInt8) : dropExact n (zeros n ++ rest) = some rest := by
  simp [dropExact, zeros]

/-! ### one table -/

structure Tbl.WF (t : Tbl) : Prop where
  id : t.id < 256 ^ 2
  flags : t.flags < 256 ^ 2
  hilen : t.hilen < 256 ^ 4
  lolen : t.lolen < 256 ^ 4
  len : t.data.length = t.total
  elems : ∀ x ∈ t.data, x < 256 ^ t.width

theorem encElems_length (w : Nat) (l : List Nat) : (encElems w l).length = l.length * w := by
  induction l with
  | nil => simp [encElems]
  | cons x l ih =>
    simp only [encElems, List.flatMap_cons, List.length_append, be_length, List.length_cons] at ih ⊢
    rw [ih]; rw [Nat.add_mul]; omega

theorem rdElems_enc (w : Nat) (l : List Nat) (rest : List UInt8) (h : ∀ x ∈ l, x < 256 ^ w) :
    rdElems w l.length (encElems w l ++ rest) = some (l, rest) := by
  induction l with
  | nil => simp [rdElems, encElems]
  | cons x l ih =>
    have hx := h x (by simp)
    have hl : ∀ y ∈ l, y < 256 ^ w := fun y hy => h y (by simp [hy])
    simp only [encElems, List.flatMap_cons, List.length_cons, rdElems, List.append_assoc]
    rw [rd_be w x _ hx]
    have := ih hl
    simp only [encElems] at this
    simp [this]

theorem encTbl_body_length (t : Tbl) (h : t.WF) :
    (be 2 t.id ++ be 2 t.flags ++ be 4 t.hilen ++ be 4 t.lolen ++ encElems t.width t.data).length =
      12 + t.total * t.width := by
  simp only [List.length_append, be_length, encElems_length, h.len]

theorem encTbl_length (t : Tbl) (h : t.WF) :
    (encTbl t).length = 12 + t.total * t.width + padLen (12 + t.total * t.width) := by
  have hb := encTbl_body_length t h
  unfold encTbl
  simp only []
  rw [List.length_append, zeros_length, hb]

theorem encTbl_length_mod8 (t : Tbl) (h : t.WF) : (encTbl t).length % 8 = 0 := by
  rw [encTbl_length t h]; exact padLen_mod _

theorem encTbl_length_pos (t : Tbl) (h : t.WF) : 0 < (encTbl t).length := by
  rw [encTbl_length t h]; omega

theorem rdTblHdr_enc (t : Tbl) (h : t.WF) (rest : List UInt8) :
    rdTblHdr (be 2 t.id ++ (be 2 t.flags ++ (be 4 t.hilen ++ (be 4 t.lolen ++ rest)))) =
      some ((t.id, t.flags, t.hilen, t.lolen), rest) := by
  unfold rdTblHdr
  rw [rd_be 2 t.id _ h.id]
  simp only []
  rw [rd_be 2 t.flags _ h.flags]
  simp only []
  rw [rd_be 4 t.hilen _ h.hilen]
  simp only []
  rw [rd_be 4 t.lolen _ h.lolen]

theorem rdTblBody_enc (t : Tbl) (h : t.WF) (rest : List UInt8) :
    rdTblBody t.id t.flags t.hilen t.lolen
        (encElems t.width t.data ++ (zeros (padLen (12 + t.total * t.width)) ++ rest)) =
      some (t, 12 + t.total * t.width + padLen (12 + t.total * t.width), rest) := by
  have e : totalOf t.id t.hilen t.lolen = t.data.length := h.len.symm
  have hw : t.width = widthOf t.flags := rfl
  have htot : t.total = t.data.length := h.len.symm
  unfold rdTblBody
  simp only []
  rw [e, hw, htot, rdElems_enc (widthOf t.flags) t.data _ (by rw [← hw]; exact h.elems)]
  simp only []
  rw [dropExact_zeros]

/-- **a table reads back as written** -/
theorem decTbl_encTbl (t : Tbl) (h : t.WF) (rest : List UInt8) :
    decTbl (encTbl t ++ rest) = some (t, (encTbl t).length, rest) := by
  have hlen := encTbl_length t h
  have hb := encTbl_body_length t h
  rw [hlen]
  unfold encTbl decTbl
  simp only []
  rw [hb]
  simp only [List.append_assoc]
  rw [rdTblHdr_enc t h]
  simp only []
  exact rdTblBody_enc t h rest

theorem rdElems_some_length {w n : Nat} {bs r : List UInt8} {vs : List Nat}
    (h : rdElems w n bs = some (vs, r)) : bs.length = n * w + r.length := by
  induction n generalizing bs vs with
  | zero => simp [rdElems] at h; obtain ⟨_, rfl⟩ := h; simp
  | succ n ih =>
    simp only [rdElems] at h
    split at h; · cases h
    rename_i v rr hv
    split at h; · cases h
    rename_i vs' rr' hvs
    simp only [Option.some.injEq, Prod.mk.injEq] at h
    obtain ⟨_, rfl⟩ := h
    have a := rd_some_length hv
    have b := ih hvs
    rw [a, b, Nat.add_mul]; omega

theorem rdTblHdr_consumes {bs r : List UInt8} {f : Nat × Nat × Nat × Nat}
    (h : rdTblHdr bs = some (f, r)) : bs.length = 12 + r.length := by
  unfold rdTblHdr at h
  split at h; · cases h
  rename_i id r1 h1
  split at h; · cases h
  rename_i flags r2 h2
  split at h; · cases h
  rename_i hilen r3 h3
  split at h; · cases h
  rename_i lolen r4 h4
  simp only [Option.some.injEq, Prod.mk.injEq] at h
  obtain ⟨_, rfl⟩ := h
  have l1 := rd_some_length h1
  have l2 := rd_some_length h2
  have l3 := rd_some_length h3
  have l4 := rd_some_length h4
  omega

theorem rdTblBody_consumes {id flags hilen lolen used : Nat} {r4 r : List UInt8} {t : Tbl}
    (h : rdTblBody id flags hilen lolen r4 = some (t, used, r)) :
    12 + r4.length = used + r.length ∧ 12 ≤ used := by
  unfold rdTblBody at h
  simp only at h
  split at h; · cases h
  rename_i data r5 h5
  split at h; · cases h
  rename_i r6 h6
  simp only [Option.some.injEq, Prod.mk.injEq] at h
  obtain ⟨_, hu, hr⟩ := h
  subst hu; subst hr
  have l5 := rdElems_some_length h5
  have l6 : r5.length = padLen (12 + totalOf id hilen lolen * widthOf flags) + r6.length := by
    unfold dropExact at h6
    split at h6
    · simp at h6; subst h6; simp; omega
    · cases h6
  omega

/-- a decoded table really occupied `used` bytes of the input -/
theorem decTbl_consumes {bs r : List UInt8} {t : Tbl} {used : Nat}
    (h : decTbl bs = some (t, used, r)) : bs.length = used + r.length ∧ 12 ≤ used := by
  unfold decTbl at h
  split at h; · cases h
  rename_i id flags hilen lolen r4 h4
  have a := rdTblHdr_consumes h4
  have b := rdTblBody_consumes h
  omega

/-! ### the tables of a set -/

theorem encTbls_cons (t : Tbl) (ts : List Tbl) : encTbls (t :: ts) = encTbl t ++ encTbls ts := by
  simp [encTbls]

theorem encTbls_length_mod8 (ts : List Tbl) (h : ∀ t ∈ ts, t.WF) : (encTbls ts).length % 8 = 0 := by
  induction ts with
  | nil => rfl
  | cons t ts ih =>
    rw [encTbls_cons, List.length_append]
    have a := encTbl_length_mod8 t (h t (by simp))
    have b := ih (fun x hx => h x (by simp [hx]))
    omega

theorem decTbls_step (fuel remaining used : Nat) (bs r : List UInt8) (t : Tbl)
    (hr : remaining ≠ 0) (hd : decTbl bs = some (t, used, r)) :
    decTbls (fuel + 1) remaining bs =
      (match decTbls fuel (remaining - used) r with
       | none => none
       | some (ts, r') => some (t :: ts, r')) := by
  rw [decTbls]
  simp only [hr, if_false, hd]
  cases decTbls fuel (remaining - used) r with
  | none => rfl
  | some p => rfl

theorem decTbls_enc (ts : List Tbl) (h : ∀ t ∈ ts, t.WF) (rest : List UInt8) (fuel : Nat)
    (hf : (encTbls ts).length ≤ fuel) :
    decTbls fuel (encTbls ts).length (encTbls ts ++ rest) = some (ts, rest) := by
  induction ts generalizing fuel with
  | nil =>
    cases fuel <;> simp [decTbls, encTbls]
  | cons t ts ih =>
    have ht := h t (by simp)
    have hpos := encTbl_length_pos t ht
    have ih' := ih (fun x hx => h x (by simp [hx]))
    rw [encTbls_cons] at hf ⊢
    rw [List.length_append] at hf ⊢
    cases fuel with
    | zero => omega
    | succ fuel =>
      have hd := decTbl_encTbl t ht (encTbls ts ++ rest)
      rw [List.append_assoc]
      rw [decTbls_step fuel _ _ _ _ t (by omega) hd]
      have e : (encTbl t).length + (encTbls ts).length - (encTbl t).length = (encTbls ts).length := by omega
      rw [e, ih' fuel (by omega)]

/-- tables decoded from `bs` with enough fuel occupy at least `remaining` bytes of it -/
theorem decTbls_consumes (fuel remaining : Nat) (bs r : List UInt8) (ts : List Tbl)
    (hf : remaining ≤ fuel) (h : decTbls fuel remaining bs = some (ts, r)) :
    remaining + r.length ≤ bs.length := by
  induction fuel generalizing remaining bs ts with
  | zero =>
    have : remaining = 0 := by omega
    subst this
    simp [decTbls] at h; obtain ⟨_, rfl⟩ := h; simp
  | succ fuel ih =>
    simp only [decTbls] at h
    split at h
    · rename_i h0; simp at h; obtain ⟨_, rfl⟩ := h; omega
    · split at h; · cases h
      rename_i t used r1 hd
      split at h; · cases h
      rename_i ts' r' hrec
      simp only [Option.some.injEq, Prod.mk.injEq] at h
      obtain ⟨_, rfl⟩ := h
      obtain ⟨hlen, hu⟩ := decTbl_consumes hd
      have := ih (remaining - used) r1 ts' (by omega) hrec
      omega

end FlexVerif.Ser

namespace FlexVerif.Ser

/-! ### a whole set -/

structure TblSet.WF (s : TblSet) : Prop where
  vnul : ∀ b ∈ s.version, b ≠ 0
  nnul : ∀ b ∈ s.name, b ≠ 0
  hsize : hsizeOf s ≤ 1024
  tbls : ∀ t ∈ s.tables, t.WF
  size : hsizeOf s + (encTbls s.tables).length < 256 ^ 4

theorem cstr_append (v x : List UInt8) (h : ∀ b ∈ v, b ≠ 0) : cstr (v ++ 0 :: x) = v := by
  induction v with
  | nil => simp [cstr]
  | cons b v ih =>
    have hb : b ≠ 0 := h b (by simp)
    have := ih (fun c hc => h c (by simp [hc]))
    simp only [cstr, List.cons_append] at this ⊢
    rw [List.takeWhile_cons]
    simp [hb, this]

theorem encSet_length (s : TblSet) : (encSet s).length = hsizeOf s + (encTbls s.tables).length := by
  simp only [encSet, hsizeOf, List.length_append, be_length, zeros_length, List.length_cons, List.length_nil]

/-- **64-bit alignment**: header, every table and the whole set end on an 8-byte boundary -/
theorem hsizeOf_mod8 (s : TblSet) : hsizeOf s % 8 = 0 := by
  unfold hsizeOf; exact padLen_mod _

theorem encSet_length_mod8 (s : TblSet) (h : s.WF) : (encSet s).length % 8 = 0 := by
  rw [encSet_length]
  have a := hsizeOf_mod8 s
  have b := encTbls_length_mod8 s.tables h.tbls
  omega

theorem decHdr_enc (s : TblSet) (h : s.WF) (rest : List UInt8) :
    decHdr (encSet s ++ rest) =
      some (s.version, s.name, hsizeOf s, hsizeOf s + (encTbls s.tables).length,
            encTbls s.tables ++ rest) := by
  have hh := h.hsize
  have hs := h.size
  have hge : 16 ≤ hsizeOf s := by simp only [hsizeOf]; omega
  unfold decHdr encSet
  simp only [List.append_assoc]
  rw [rd_be 4 MAGIC _ (by decide)]
  simp only [ne_eq, not_true_eq_false, if_false]
  rw [rd_be 4 (hsizeOf s) _ (by omega)]
  simp only []
  rw [rd_be 4 _ _ hs]
  simp only []
  rw [rd_be 2 0 _ (by decide)]
  simp only []
  have hnot : ¬ (hsizeOf s < 16 ∨ hsizeOf s > 1024) := by omega
  simp only [hnot, if_false]
  -- the string area
  have hlen : hsizeOf s - 14 =
      (s.version ++ (0 :: (s.name ++ (0 :: zeros (padLen (14 + s.version.length + 1 + s.name.length + 1)))))).length := by
    simp only [hsizeOf, List.length_append, List.length_cons, zeros_length]
    omega
  have happ : s.version ++ ([0] ++ (s.name ++ ([0] ++ (zeros (padLen (14 + s.version.length + 1 + s.name.length + 1)) ++ (encTbls s.tables ++ rest))))) =
      (s.version ++ (0 :: (s.name ++ (0 :: zeros (padLen (14 + s.version.length + 1 + s.name.length + 1)))))) ++ (encTbls s.tables ++ rest) := by
    simp
  rw [happ, hlen]
  have hle : ¬ ((s.version ++ (0 :: (s.name ++ (0 :: zeros (padLen (14 + s.version.length + 1 + s.name.length + 1)))))).length >
      ((s.version ++ (0 :: (s.name ++ (0 :: zeros (padLen (14 + s.version.length + 1 + s.name.length + 1)))))) ++ (encTbls s.tables ++ rest)).length) := by
    simp
  simp only [hle, if_false, List.take_left', List.drop_left']
  rw [cstr_append _ _ h.vnul]
  have hd : List.drop (s.version.length + 1) (s.version ++ (0 :: (s.name ++ (0 :: zeros (padLen (14 + s.version.length + 1 + s.name.length + 1)))))) =
      s.name ++ (0 :: zeros (padLen (14 + s.version.length + 1 + s.name.length + 1))) := by
    rw [show s.version ++ (0 :: (s.name ++ (0 :: zeros (padLen (14 + s.version.length + 1 + s.name.length + 1))))) =
      (s.version ++ [0]) ++ (s.name ++ (0 :: zeros (padLen (14 + s.version.length + 1 + s.name.length + 1)))) by simp]
    rw [show s.version.length + 1 = (s.version ++ [0]).length by simp]
    exact List.drop_left' rfl
  rw [hd, cstr_append _ _ h.nnul]

theorem decSet_of_hdr {bs r : List UInt8} {v n : List UInt8} {hs ss : Nat}
    (h : decHdr bs = some (v, n, hs, ss, r)) :
    decSet bs = (match decTbls ss (ss - hs) r with
      | none => none
      | some (ts, r') => some ({ version := v, name := n, tables := ts }, r')) := by
  unfold decSet
  rw [h]
  simp only []
  cases decTbls ss (ss - hs) r with
  | none => rfl
  | some p => rfl

/-- **Round trip**: a set written by the writer, followed by anything, reads back as itself and
    leaves exactly what followed. -/
theorem decSet_encSet (s : TblSet) (h : s.WF) (rest : List UInt8) :
    decSet (encSet s ++ rest) = some (s, rest) := by
  rw [decSet_of_hdr (decHdr_enc s h rest)]
  have e : hsizeOf s + (encTbls s.tables).length - hsizeOf s = (encTbls s.tables).length := by omega
  rw [e, decTbls_enc s.tables h.tbls rest _ (by omega)]

end FlexVerif.Ser

namespace FlexVerif.Ser

/-! ### wrong magic number, truncation -/

theorem decHdr_bad_magic {bs r : List UInt8} {m : Nat} (h : rd 4 bs = some (m, r)) (hm : m ≠ MAGIC) :
    decHdr bs = none := by
  unfold decHdr
  rw [h]
  simp [hm]

/-- **Wrong magic number ⇒ loading fails** (whatever follows), by position or by name. -/
theorem bad_magic_fails {bs r : List UInt8} {m : Nat} (h : rd 4 bs = some (m, r)) (hm : m ≠ MAGIC) :
    decSet bs = none ∧ ∀ key fuel, findSet key fuel bs = none := by
  have hd := decHdr_bad_magic h hm
  constructor
  · unfold decSet; rw [hd]
  · intro key fuel
    cases fuel with
    | zero => rfl
    | succ f => unfold findSet; rw [hd]

theorem decHdr_consumes {bs r v n : List UInt8} {hs ss : Nat}
    (h : decHdr bs = some (v, n, hs, ss, r)) : bs.length = hs + r.length ∧ 16 ≤ hs := by
  unfold decHdr at h
  split at h; · cases h
  rename_i magic r1 h1
  split at h; · cases h
  split at h; · cases h
  rename_i hsize r2 h2
  split at h; · cases h
  rename_i ssize r3 h3
  split at h; · cases h
  rename_i fl r4 h4
  split at h; · cases h
  rename_i hrange
  split at h; · cases h
  rename_i havail
  simp only [Option.some.injEq, Prod.mk.injEq] at h
  obtain ⟨_, _, rfl, _, rfl⟩ := h
  have l1 := rd_some_length h1
  have l2 := rd_some_length h2
  have l3 := rd_some_length h3
  have l4 := rd_some_length h4
  simp only [List.length_drop]
  omega

theorem decHdr_append {bs r v n x : List UInt8} {hs ss : Nat}
    (h : decHdr bs = some (v, n, hs, ss, r)) : decHdr (bs ++ x) = some (v, n, hs, ss, r ++ x) := by
  unfold decHdr at h ⊢
  split at h; · cases h
  rename_i magic r1 h1
  rw [rd_append h1]
  simp only []
  split at h; · cases h
  rename_i hmag
  simp only [hmag, if_false]
  split at h; · cases h
  rename_i hsize r2 h2
  rw [rd_append h2]
  simp only []
  split at h; · cases h
  rename_i ssize r3 h3
  rw [rd_append h3]
  simp only []
  split at h; · cases h
  rename_i fl r4 h4
  rw [rd_append h4]
  simp only []
  split at h; · cases h
  rename_i hrange
  simp only [hrange, if_false]
  split at h; · cases h
  rename_i havail
  have hav' : ¬ (hsize - 14 > (r4 ++ x).length) := by simp only [List.length_append]; omega
  simp only [hav', if_false]
  simp only [Option.some.injEq, Prod.mk.injEq] at h
  obtain ⟨rfl, rfl, rfl, rfl, rfl⟩ := h
  have hle : hsize - 14 ≤ r4.length := by omega
  rw [List.take_append_of_le_length hle, List.drop_append_of_le_length hle]

/-- **Every truncation fails**: no proper prefix of a written set loads. -/
theorem truncation_fails (s : TblSet) (h : s.WF) (k : Nat) (hk : k < (encSet s).length) :
    decSet ((encSet s).take k) = none := by
  cases hdec : decSet ((encSet s).take k) with
  | none => rfl
  | some res =>
    exfalso
    obtain ⟨s', r⟩ := res
    unfold decSet at hdec
    split at hdec; · cases hdec
    rename_i v n hs ss r1 hh
    split at hdec; · cases hdec
    rename_i ts r' ht
    -- the header of the prefix is the header of the whole file
    have hfull := decHdr_append (x := (encSet s).drop k) hh
    rw [List.take_append_drop] at hfull
    have hE := decHdr_enc s h []
    rw [List.append_nil] at hE
    rw [hE] at hfull
    simp only [Option.some.injEq, Prod.mk.injEq] at hfull
    obtain ⟨_, _, hhs, hss, _⟩ := hfull
    obtain ⟨hc, _⟩ := decHdr_consumes hh
    have hc2 := decTbls_consumes ss (ss - hs) r1 r' ts (by omega) ht
    have hl : ((encSet s).take k).length = k := by
      rw [List.length_take]; omega
    have hEl := encSet_length s
    omega

/-! ### several sets in one file -/

def encSets (l : List TblSet) : List UInt8 := l.flatMap encSet

theorem findSet_hit {key bs r v n : List UInt8} {hs ss fuel : Nat} {ts : List Tbl} {r' : List UInt8}
    (hh : decHdr bs = some (v, n, hs, ss, r)) (hn : n = key)
    (ht : decTbls ss (ss - hs) r = some (ts, r')) :
    findSet key (fuel + 1) bs = some { version := v, name := n, tables := ts } := by
  unfold findSet
  rw [hh]
  simp only [hn, if_true]
  rw [ht]

theorem findSet_miss {key bs r v n : List UInt8} {hs ss fuel : Nat} {r' : List UInt8}
    (hh : decHdr bs = some (v, n, hs, ss, r)) (hn : n ≠ key)
    (hd : dropExact (ss - hs) r = some r') :
    findSet key (fuel + 1) bs = findSet key fuel r' := by
  rw [findSet]
  rw [hh]
  simp only [hn, if_false]
  rw [hd]

/-- **Look-up by name in a concatenation, in any order**: loading by name from a file that holds
    the sets of `l` one after the other yields the first set of `l` carrying that name. -/
theorem findSet_concat (l : List TblSet) (h : ∀ s ∈ l, s.WF) (key : List UInt8) (rest : List UInt8)
    (fuel : Nat) (hf : l.length < fuel) (s : TblSet) (hs : l.find? (fun x => x.name = key) = some s) :
    findSet key fuel (encSets l ++ rest) = some s := by
  induction l generalizing fuel with
  | nil => simp at hs
  | cons a l ih =>
    have ha := h a (by simp)
    cases fuel with
    | zero => simp at hf
    | succ fuel =>
      have hd := decHdr_enc a ha (encSets l ++ rest)
      have e : hsizeOf a + (encTbls a.tables).length - hsizeOf a = (encTbls a.tables).length := by omega
      have hcat : encSets (a :: l) ++ rest = encSet a ++ (encSets l ++ rest) := by
        simp [encSets]
      rw [hcat]
      by_cases hn : a.name = key
      · have ht : decTbls (hsizeOf a + (encTbls a.tables).length)
            (hsizeOf a + (encTbls a.tables).length - hsizeOf a) (encTbls a.tables ++ (encSets l ++ rest)) =
            some (a.tables, encSets l ++ rest) := by
          rw [e]; exact decTbls_enc a.tables ha.tbls (encSets l ++ rest) _ (by omega)
        rw [findSet_hit hd hn ht]
        simp only [List.find?_cons, hn, decide_true] at hs
        cases hs
        rfl
      · have hdrop : dropExact (hsizeOf a + (encTbls a.tables).length - hsizeOf a)
            (encTbls a.tables ++ (encSets l ++ rest)) = some (encSets l ++ rest) := by
          rw [e]; simp [dropExact]
        rw [findSet_miss hd hn hdrop]
        simp only [List.find?_cons, hn, decide_false] at hs
        exact ih (fun x hx => h x (by simp [hx])) fuel (by simp at hf; omega) hs

/-- non-vacuity: a well-formed set with two tables -/
example : ({ version := [50, 46, 54], name := [121, 121],
             tables := [{ id := 1, flags := 1, hilen := 0, lolen := 3, data := [0, 5, 255] },
                        { id := 0x0B, flags := 0x12, hilen := 0, lolen := 2, data := [0, 1, 65535, 2] }] } : TblSet).WF := by
  refine ⟨by decide, by decide, by decide, ?_, by decide⟩
  intro t ht
  simp only [List.mem_cons, List.mem_nil_iff, or_false] at ht
  rcases ht with rfl | rfl
  · exact ⟨by decide, by decide, by decide, by decide, by decide, by decide⟩
  · exact ⟨by decide, by decide, by decide, by decide, by decide, by decide⟩

end FlexVerif.Ser

/-
  Ser/Codec.lean — the serialized-tables file format ("Serialized Tables" chapter of the manual;
  writer `src/tables.c`, reader `yytbl_hdr_read / yytbl_data_load / yytbl_fload` of the skeleton).

  `encSet` transcribes the writer, `decSet` the reader (as far as the byte format goes: magic,
  header size, set size, flags, version and name strings, 64-bit padding; per table id, flags,
  dimensions, big-endian elements of 1/2/4 bytes, padding).
-/
namespace FlexVerif.Ser

/-- `n` bytes, big-endian, of `v` -/
def be : Nat → Nat → List UInt8
  | 0, _ => []
  | n + 1, v => UInt8.ofNat (v / 256 ^ n % 256) :: be n (v % 256 ^ n)

/-- read `n` bytes big-endian -/
def rd : Nat → List UInt8 → Option (Nat × List UInt8)
  | 0, bs => some (0, bs)
  | _ + 1, [] => none
  | n + 1, b :: bs =>
    match rd n bs with
    | some (v, r) => some (b.toNat * 256 ^ n + v, r)
    | none => none

def zeros (n : Nat) : List UInt8 := List.replicate n 0

/-- bytes needed after `len` bytes to reach a 64-bit boundary -/
def padLen (len : Nat) : Nat := (8 - len % 8) % 8

def MAGIC : Nat := 0xF13C57B1
def ID_TRANSITION : Nat := 0x0B

structure Tbl where
  id : Nat
  flags : Nat
  hilen : Nat
  lolen : Nat
  data : List Nat          -- elements as written: unsigned words of `width` bytes
deriving Repr, DecidableEq, Inhabited

/-- `YYTDFLAGS2BYTES` -/
def widthOf (flags : Nat) : Nat :=
  if flags % 2 = 1 then 1 else if flags / 2 % 2 = 1 then 2 else 4

/-- `yytbl_calc_total_len` -/
def totalOf (id hilen lolen : Nat) : Nat :=
  (if hilen > 0 then lolen * hilen else lolen) * (if id = ID_TRANSITION then 2 else 1)

def Tbl.width (t : Tbl) : Nat := widthOf t.flags
def Tbl.total (t : Tbl) : Nat := totalOf t.id t.hilen t.lolen

def encElems (w : Nat) (l : List Nat) : List UInt8 := l.flatMap (be w)

/-- `yytbl_data_fwrite` -/
def encTbl (t : Tbl) : List UInt8 :=
  let body := be 2 t.id ++ be 2 t.flags ++ be 4 t.hilen ++ be 4 t.lolen ++ encElems t.width t.data
  body ++ zeros (padLen body.length)

/-- read `k` elements of `w` bytes -/
def rdElems (w : Nat) : Nat → List UInt8 → Option (List Nat × List UInt8)
  | 0, bs => some ([], bs)
  | k + 1, bs =>
    match rd w bs with
    | none => none
    | some (v, r) =>
      match rdElems w k r with
      | none => none
      | some (vs, r') => some (v :: vs, r')

def dropExact (n : Nat) (bs : List UInt8) : Option (List UInt8) :=
  if n ≤ bs.length then some (bs.drop n) else none

/-- the four fixed fields of a table: id, flags, hilen, lolen -/
def rdTblHdr (bs : List UInt8) : Option ((Nat × Nat × Nat × Nat) × List UInt8) :=
  match rd 2 bs with
  | none => none
  | some (id, r1) =>
  match rd 2 r1 with
  | none => none
  | some (flags, r2) =>
  match rd 4 r2 with
  | none => none
  | some (hilen, r3) =>
  match rd 4 r3 with
  | none => none
  | some (lolen, r4) => some ((id, flags, hilen, lolen), r4)

/-- elements and padding of a table whose fixed fields have been read -/
def rdTblBody (id flags hilen lolen : Nat) (r4 : List UInt8) : Option (Tbl × Nat × List UInt8) :=
  let w := widthOf flags
  let n := totalOf id hilen lolen
  match rdElems w n r4 with
  | none => none
  | some (data, r5) =>
  let used := 12 + n * w
  match dropExact (padLen used) r5 with
  | none => none
  | some r6 => some ({ id := id, flags := flags, hilen := hilen, lolen := lolen, data := data },
                    used + padLen used, r6)

/-- `yytbl_data_load` (format part): a table, the bytes it occupied, the rest -/
def decTbl (bs : List UInt8) : Option (Tbl × Nat × List UInt8) :=
  match rdTblHdr bs with
  | none => none
  | some ((id, flags, hilen, lolen), r4) => rdTblBody id flags hilen lolen r4

structure TblSet where
  version : List UInt8
  name : List UInt8
  tables : List Tbl
deriving Repr, DecidableEq, Inhabited

def hsizeOf (s : TblSet) : Nat :=
  let raw := 14 + s.version.length + 1 + s.name.length + 1
  raw + padLen raw

def encTbls (ts : List Tbl) : List UInt8 := ts.flatMap encTbl

/-- `yytbl_hdr_fwrite` followed by the tables, `th_ssize` back-patched -/
def encSet (s : TblSet) : List UInt8 :=
  let raw := 14 + s.version.length + 1 + s.name.length + 1
  let tb := encTbls s.tables
  be 4 MAGIC ++ be 4 (hsizeOf s) ++ be 4 (hsizeOf s + tb.length) ++ be 2 0 ++
    s.version ++ [0] ++ s.name ++ [0] ++ zeros (padLen raw) ++ tb

/-- C string at the start of `bs` -/
def cstr (bs : List UInt8) : List UInt8 := bs.takeWhile (· != 0)

/-- the tables of a set: `remaining` bytes of the set are still to be read -/
def decTbls : Nat → Nat → List UInt8 → Option (List Tbl × List UInt8)
  | 0, _, bs => some ([], bs)
  | fuel + 1, remaining, bs =>
    if remaining = 0 then some ([], bs) else
    match decTbl bs with
    | none => none
    | some (t, used, r) =>
      match decTbls fuel (remaining - used) r with
      | none => none
      | some (ts, r') => some (t :: ts, r')

/-- header of a set: (version, name, hsize, ssize, rest after the header) -/
def decHdr (bs : List UInt8) : Option (List UInt8 × List UInt8 × Nat × Nat × List UInt8) :=
  match rd 4 bs with
  | none => none
  | some (magic, r1) =>
  if magic ≠ MAGIC then none else
  match rd 4 r1 with
  | none => none
  | some (hsize, r2) =>
  match rd 4 r2 with
  | none => none
  | some (ssize, r3) =>
  match rd 2 r3 with
  | none => none
  | some (_, r4) =>
  if hsize < 16 ∨ hsize > 1024 then none else
  if hsize - 14 > r4.length then none else
  let strs := r4.take (hsize - 14)
  let version := cstr strs
  let name := cstr (strs.drop (version.length + 1))
  some (version, name, hsize, ssize, r4.drop (hsize - 14))

/-- `yytbl_fload` with a NULL key: read the first set -/
def decSet (bs : List UInt8) : Option (TblSet × List UInt8) :=
  match decHdr bs with
  | none => none
  | some (version, name, hsize, ssize, r) =>
    match decTbls ssize (ssize - hsize) r with
    | none => none
    | some (ts, r') => some ({ version := version, name := name, tables := ts }, r')

/-- `yytbl_fload` with a key: skip sets until the name matches -/
def findSet (key : List UInt8) : Nat → List UInt8 → Option TblSet
  | 0, _ => none
  | fuel + 1, bs =>
    match decHdr bs with
    | none => none
    | some (version, name, hsize, ssize, r) =>
      if name = key then
        match decTbls ssize (ssize - hsize) r with
        | none => none
        | some (ts, _) => some { version := version, name := name, tables := ts }
      else
        match dropExact (ssize - hsize) r with
        | none => none
        | some r' => findSet key fuel r'

/-- interpretation of a stored word as the signed integer the scanner gets -/
def signedOf (w : Nat) (v : Nat) : Int :=
  if v ≥ 256 ^ w / 2 then (v : Int) - (256 ^ w : Nat) else (v : Int)

end FlexVerif.Ser

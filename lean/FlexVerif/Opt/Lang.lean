/-
  Opt/Lang.lean — the little imperative language `check_options()` of src/main.c (and the
  `%option` actions of src/scan.l) is written in: tests of option variables, `flexerror`,
  `lwarn`, assignments of constants.  `tools/fv/gen_options.py` translates the C text into a
  `Stmt` on every run (`Gen/Options.lean`); this file gives it a semantics (`Stmt.run`), computes
  the condition under which a program refuses (`Stmt.errs`, `Stmt.errsWith`) or ends normally
  in a state satisfying `Q` (`Stmt.wp`) as a formula over the *initial* option variables, and
  decides such formulas over the finite value sets of those variables (`tautOn`).  All three
  are proved sound, so a property theorem about the generated program is one kernel evaluation.
-/
namespace FlexVerif.Opt

abbrev Fld := Nat
abbrev St := Fld → Int

def upd (st : St) (f : Fld) (k : Int) : St := fun g => if g = f then k else st g

inductive Cond
  | tt | ff
  | truthy (f : Fld)            -- `if (x)`
  | eq (f : Fld) (k : Int)      -- `x == k`
  | not (c : Cond)
  | and (a b : Cond)
  | or (a b : Cond)
deriving Repr, DecidableEq, Inhabited

def Cond.eval (st : St) : Cond → Bool
  | .tt => true
  | .ff => false
  | .truthy f => st f != 0
  | .eq f k => st f == k
  | .not c => !c.eval st
  | .and a b => a.eval st && b.eval st
  | .or a b => a.eval st || b.eval st

inductive Stmt
  | skip
  | err (msg : Nat)             -- flexerror(msgs[msg]): does not return
  | warn (msg : Nat)            -- lwarn(msgs[msg])
  | set (f : Fld) (k : Int)
  | ite (c : Cond) (t e : Stmt)
  | seq (a b : Stmt)
deriving Repr, Inhabited

structure Res where
  st : St
  err : Option Nat := none
  warns : List Nat := []

def Stmt.run : Stmt → St → Res
  | .skip, st => { st }
  | .err m, st => { st, err := some m }
  | .warn m, st => { st, warns := [m] }
  | .set f k, st => { st := upd st f k }
  | .ite c t e, st => if c.eval st then t.run st else e.run st
  | .seq a b, st =>
    let r := a.run st
    match r.err with
    | some _ => r
    | none => let r' := b.run r.st; { r' with warns := r.warns ++ r'.warns }

/-! ### formulas over the initial state -/

def mkNot : Cond → Cond
  | .tt => .ff
  | .ff => .tt
  | c => .not c

/-- `a ∧ b`, folded: constants, `a ∧ ¬a`, `a ∧ (¬a ∨ b)` -/
def mkAnd (a b : Cond) : Cond :=
  match a, b with
  | .ff, _ => .ff
  | _, .ff => .ff
  | .tt, b => b
  | a, .tt => a
  | a, b =>
    if b = .not a ∨ a = .not b then .ff else
    match b with
    | .or (.not a') b' => if a' = a then .and a b' else .and a b
    | _ => .and a b

/-- `a ∨ b`, folded: constants, `a ∨ ¬a`, `a ∨ (¬a ∧ b)` — the shape `errs` and `wp` produce for a
    chain of `if (c) flexerror(...)` -/
def mkOr (a b : Cond) : Cond :=
  match a, b with
  | .tt, _ => .tt
  | _, .tt => .tt
  | .ff, b => b
  | a, .ff => a
  | a, b =>
    if b = .not a ∨ a = .not b then .tt else
    match b with
    | .and (.not a') b' => if a' = a then .or a b' else .or a b
    | _ => .or a b

def mkImp (a b : Cond) : Cond := mkOr (mkNot a) b

@[simp] theorem mkNot_eval (st : St) (c : Cond) : (mkNot c).eval st = !c.eval st := by
  cases c <;> simp [mkNot, Cond.eval]

@[simp] theorem mkAnd_eval (st : St) (a b : Cond) : (mkAnd a b).eval st = (a.eval st && b.eval st) := by
  unfold mkAnd
  split <;> try (simp [Cond.eval]; done)
  split
  · rename_i h
    rcases h with h | h <;> subst h <;> simp [Cond.eval]
  · split
    · split
      · rename_i h; subst h
        simp only [Cond.eval, Bool.and_or_distrib_left, Bool.and_not_self, Bool.false_or]
      · rfl
    · rfl

@[simp] theorem mkOr_eval (st : St) (a b : Cond) : (mkOr a b).eval st = (a.eval st || b.eval st) := by
  unfold mkOr
  split <;> try (simp [Cond.eval]; done)
  split
  · rename_i h
    rcases h with h | h <;> subst h <;> simp [Cond.eval]
  · split
    · split
      · rename_i h; subst h
        simp only [Cond.eval, Bool.or_and_distrib_left, Bool.or_not_self, Bool.true_and]
      · rfl
    · rfl

@[simp] theorem mkImp_eval (st : St) (a b : Cond) : (mkImp a b).eval st = (!a.eval st || b.eval st) := by
  simp [mkImp]

/-- the formula after `f := k`: atoms about `f` become constants, the rest is folded -/
def Cond.subst (f : Fld) (k : Int) : Cond → Cond
  | .tt => .tt
  | .ff => .ff
  | .truthy g => if g = f then (if k != 0 then .tt else .ff) else .truthy g
  | .eq g j => if g = f then (if k == j then .tt else .ff) else .eq g j
  | .not c => mkNot (c.subst f k)
  | .and a b => mkAnd (a.subst f k) (b.subst f k)
  | .or a b => mkOr (a.subst f k) (b.subst f k)

theorem Cond.subst_eval (st : St) (f : Fld) (k : Int) (c : Cond) :
    (c.subst f k).eval st = c.eval (upd st f k) := by
  induction c with
  | tt => rfl
  | ff => rfl
  | truthy g =>
    by_cases h : g = f
    · subst h; by_cases hk : k = 0 <;> simp [Cond.subst, Cond.eval, upd, hk]
    · simp [Cond.subst, Cond.eval, upd, h]
  | eq g j =>
    by_cases h : g = f
    · subst h; by_cases hk : k = j <;> simp [Cond.subst, Cond.eval, upd, hk]
    · simp [Cond.subst, Cond.eval, upd, h]
  | not c ih => simp [Cond.subst, Cond.eval, ih]
  | and a b iha ihb => simp [Cond.subst, Cond.eval, iha, ihb]
  | or a b iha ihb => simp [Cond.subst, Cond.eval, iha, ihb]

/-- `s` ends without `flexerror` and `Q` holds of the final state -/
def Stmt.wp : Stmt → Cond → Cond
  | .skip, Q => Q
  | .err _, _ => .ff
  | .warn _, Q => Q
  | .set f k, Q => Q.subst f k
  | .ite c t e, Q => mkOr (mkAnd c (t.wp Q)) (mkAnd (mkNot c) (e.wp Q))
  | .seq a b, Q => a.wp (b.wp Q)

theorem Stmt.wp_sound (s : Stmt) : ∀ (Q : Cond) (st : St),
    (s.wp Q).eval st = ((s.run st).err.isNone && Q.eval (s.run st).st) := by
  induction s with
  | skip => intro Q st; simp [Stmt.wp, Stmt.run]
  | err m => intro Q st; simp [Stmt.wp, Stmt.run, Cond.eval]
  | warn m => intro Q st; simp [Stmt.wp, Stmt.run]
  | set f k => intro Q st; simp [Stmt.wp, Stmt.run, Cond.subst_eval]
  | ite c t e iht ihe =>
    intro Q st
    by_cases h : c.eval st <;> simp [Stmt.wp, Stmt.run, h, iht, ihe]
  | seq a b iha ihb =>
    intro Q st
    simp only [Stmt.wp, iha, ihb, Stmt.run]
    cases h : (a.run st).err <;> simp [h]

/-- `s` calls `flexerror` -/
def Stmt.errs : Stmt → Cond
  | .skip => .ff
  | .err _ => .tt
  | .warn _ => .ff
  | .set _ _ => .ff
  | .ite c t e => mkOr (mkAnd c t.errs) (mkAnd (mkNot c) e.errs)
  | .seq a b => mkOr a.errs (a.wp b.errs)

theorem Stmt.errs_sound (s : Stmt) : ∀ (st : St), s.errs.eval st = (s.run st).err.isSome := by
  induction s with
  | skip => intro st; simp [Stmt.errs, Stmt.run, Cond.eval]
  | err m => intro st; simp [Stmt.errs, Stmt.run, Cond.eval]
  | warn m => intro st; simp [Stmt.errs, Stmt.run, Cond.eval]
  | set f k => intro st; simp [Stmt.errs, Stmt.run, Cond.eval]
  | ite c t e iht ihe =>
    intro st
    by_cases h : c.eval st <;> simp [Stmt.errs, Stmt.run, h, iht, ihe]
  | seq a b iha ihb =>
    intro st
    simp only [Stmt.errs, mkOr_eval, iha, Stmt.wp_sound, ihb, Stmt.run]
    cases h : (a.run st).err <;> simp [h]

/-- `s` calls `flexerror` with message `m` -/
def Stmt.errsWith (m : Nat) : Stmt → Cond
  | .skip => .ff
  | .err m' => if m' = m then .tt else .ff
  | .warn _ => .ff
  | .set _ _ => .ff
  | .ite c t e => mkOr (mkAnd c (t.errsWith m)) (mkAnd (mkNot c) (e.errsWith m))
  | .seq a b => mkOr (a.errsWith m) (a.wp (b.errsWith m))

theorem Stmt.errsWith_sound (m : Nat) (s : Stmt) : ∀ (st : St),
    (s.errsWith m).eval st = ((s.run st).err == some m) := by
  induction s with
  | skip => intro st; simp [Stmt.errsWith, Stmt.run, Cond.eval]
  | err m' =>
    intro st
    by_cases h : m' = m <;> simp [Stmt.errsWith, Stmt.run, Cond.eval, h]
  | warn m => intro st; simp [Stmt.errsWith, Stmt.run, Cond.eval]
  | set f k => intro st; simp [Stmt.errsWith, Stmt.run, Cond.eval]
  | ite c t e iht ihe =>
    intro st
    by_cases h : c.eval st <;> simp [Stmt.errsWith, Stmt.run, h, iht, ihe]
  | seq a b iha ihb =>
    intro st
    simp only [Stmt.errsWith, mkOr_eval, iha, Stmt.wp_sound, ihb, Stmt.run]
    cases h : (a.run st).err <;> simp [h]

/-- `s` ends normally having printed warning `m` -/
def Stmt.warnsWith (m : Nat) : Stmt → Cond
  | .skip => .ff
  | .err _ => .ff
  | .warn m' => if m' = m then .tt else .ff
  | .set _ _ => .ff
  | .ite c t e => mkOr (mkAnd c (t.warnsWith m)) (mkAnd (mkNot c) (e.warnsWith m))
  | .seq a b => mkOr (mkAnd (a.warnsWith m) (a.wp (b.wp .tt))) (a.wp (b.warnsWith m))

theorem Stmt.warnsWith_sound (m : Nat) (s : Stmt) : ∀ (st : St),
    (s.warnsWith m).eval st = ((s.run st).err.isNone && (s.run st).warns.contains m) := by
  induction s with
  | skip => intro st; simp [Stmt.warnsWith, Stmt.run, Cond.eval]
  | err m' => intro st; simp [Stmt.warnsWith, Stmt.run, Cond.eval]
  | warn m' =>
    intro st
    by_cases h : m' = m
    · simp [Stmt.warnsWith, Stmt.run, Cond.eval, h]
    · have : ¬ m = m' := fun e => h e.symm
      simp [Stmt.warnsWith, Stmt.run, Cond.eval, h, this]
  | set f k => intro st; simp [Stmt.warnsWith, Stmt.run, Cond.eval]
  | ite c t e iht ihe =>
    intro st
    by_cases h : c.eval st <;> simp [Stmt.warnsWith, Stmt.run, h, iht, ihe]
  | seq a b iha ihb =>
    intro st
    simp only [Stmt.warnsWith, mkOr_eval, mkAnd_eval, iha, Stmt.wp_sound, ihb, Stmt.run, Cond.eval]
    cases h : (a.run st).err with
    | some x => simp [h]
    | none =>
      set_option linter.unusedSimpArgs false in
      cases h2 : ((b.run (a.run st).st).err) <;> simp [h, h2, List.contains_append] <;>
        cases (a.run st).warns.contains m <;> simp

/-! ### deciding a formula over finite value sets -/

/-- `c` holds for every assignment of the listed values to the listed variables (and `c` mentions
    no other variable) -/
def Cond.mentions (f : Fld) : Cond → Bool
  | .tt => false
  | .ff => false
  | .truthy g => g == f
  | .eq g _ => g == f
  | .not c => c.mentions f
  | .and a b => a.mentions f || b.mentions f
  | .or a b => a.mentions f || b.mentions f

def tautOn : List (Fld × List Int) → Cond → Bool
  | [], c => c == .tt
  | (f, vals) :: rest, c =>
    if c.mentions f then vals.all fun v => tautOn rest (c.subst f v) else tautOn rest c

theorem subst_self_eval (st : St) (f : Fld) (c : Cond) : (c.subst f (st f)).eval st = c.eval st := by
  rw [Cond.subst_eval]
  congr 1
  funext g
  by_cases h : g = f <;> simp [upd, h]

theorem tautOn_sound : ∀ (doms : List (Fld × List Int)) (c : Cond), tautOn doms c = true →
    ∀ st : St, (∀ p ∈ doms, st p.1 ∈ p.2) → c.eval st = true := by
  intro doms
  induction doms with
  | nil =>
    intro c h st _
    simp only [tautOn, beq_iff_eq] at h
    subst h; rfl
  | cons p rest ih =>
    intro c h st hst
    obtain ⟨f, vals⟩ := p
    have hrest : ∀ q ∈ rest, st q.1 ∈ q.2 := fun q hq => hst q (List.mem_cons_of_mem _ hq)
    simp only [tautOn] at h
    split at h
    · simp only [List.all_eq_true] at h
      have hf : st f ∈ vals := hst (f, vals) (List.mem_cons_self ..)
      have := ih _ (h _ hf) st hrest
      rwa [subst_self_eval] at this
    · exact ih _ h st hrest

/-- the variables of `fs` first (those a hypothesis fixes: the formula collapses at once) -/
def reorder (fs : List Fld) (doms : List (Fld × List Int)) : List (Fld × List Int) :=
  doms.filter (fun p => fs.contains p.1) ++ doms.filter (fun p => !fs.contains p.1)

theorem mem_of_mem_reorder {fs : List Fld} {doms : List (Fld × List Int)} {p : Fld × List Int}
    (h : p ∈ reorder fs doms) : p ∈ doms := by
  simp only [reorder, List.mem_append, List.mem_filter] at h
  rcases h with h | h <;> exact h.1

def Cond.fields : Cond → List Fld
  | .tt => []
  | .ff => []
  | .truthy g => [g]
  | .eq g _ => [g]
  | .not c => c.fields
  | .and a b => a.fields ++ b.fields
  | .or a b => a.fields ++ b.fields

/-- leftmost variable of a formula -/
def Cond.first? : Cond → Option Fld
  | .tt => none
  | .ff => none
  | .truthy g => some g
  | .eq g _ => some g
  | .not c => c.first?
  | .and a b => a.first? <|> b.first?
  | .or a b => a.first? <|> b.first?

/-- as `tautOn`, but the next variable to split on is the leftmost one of the formula: the order in
    which the program tests them, so each branch collapses as a path of the program would -/
def tautA (doms : List (Fld × List Int)) : Nat → Cond → Bool
  | 0, c => c == .tt
  | fuel + 1, c =>
    match c.first? with
    | none => c == .tt
    | some f =>
      match doms.find? (fun p => p.1 == f) with
      | none => false
      | some p => p.2.all fun v => tautA doms fuel (c.subst f v)

theorem tautA_sound (doms : List (Fld × List Int)) : ∀ (fuel : Nat) (c : Cond), tautA doms fuel c = true →
    ∀ st : St, (∀ p ∈ doms, st p.1 ∈ p.2) → c.eval st = true := by
  intro fuel
  induction fuel with
  | zero =>
    intro c h st _
    simp only [tautA, beq_iff_eq] at h
    subst h; rfl
  | succ n ih =>
    intro c h st hst
    simp only [tautA] at h
    split at h
    · simp only [beq_iff_eq] at h
      subst h; rfl
    · rename_i f _
      split at h
      · exact absurd h (by simp)
      · rename_i p hp
        have hmem : p ∈ doms := List.mem_of_find?_eq_some hp
        have hf : p.1 = f := by
          have := List.find?_some hp
          simpa using this
        simp only [List.all_eq_true] at h
        have hv : st f ∈ p.2 := hf ▸ hst p hmem
        have := ih _ (h _ hv) st hst
        rwa [subst_self_eval] at this

/-- every option variable has a value of its C type (`bool`, `trit`, …) -/
def WT (doms : List (Fld × List Int)) (st : St) : Prop := ∀ p ∈ doms, st p.1 ∈ p.2

end FlexVerif.Opt

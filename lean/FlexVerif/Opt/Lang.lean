/-
  Opt/Lang.lean — the little imperative language `check_options()` of src/main.c (and the
  `%option` actions of src/scan.l) is written in: tests of option variables, `flexerror`,
  `lwarn`, assignments of constants.  `tools/fv/gen_options.py` translates the C text into a
  `Stmt` on every run (`Gen/Options.lean`); this file gives it a semantics (`Stmt.run`), computes
  the condition under which a program refuses (`Stmt.errs`, `Stmt.errsWith`) or ends normally
  in a state satisfying `Q` (`Stmt.wp`) as a formula over the *initial* option variables, and
  decides such formulas over the finite value sets of those variables (`tautOn`).  All three
  are proved sound, so a property theorem about the generated program is one kernel evaluation.
-/
namespace FlexVerif.Opt

abbrev Fld := Nat
abbrev St := Fld → Int

def upd (st : St) (f : Fld) (k : Int) : St := fun g => if g = f then k else st g

inductive Cond
  | tt | ff
  | truthy (f : Fld)            -- `if (x)`
  | eq (f : Fld) (k : Int)      -- `x == k`
  | not (c : Cond)
  | and (a b : Cond)
  | or (a b : Cond)
deriving Repr, DecidableEq, Inhabited

/-- syntactic equality, as a plain Boolean function (the kernel evaluates it far faster than the
    derived `DecidableEq`) -/
def Cond.beq : Cond → Cond → Bool
  | .tt, .tt => true
  | .ff, .ff => true
  | .truthy f, .truthy g => f == g
  | .eq f k, .eq g j => f == g && k == j
  | .not a, .not b => a.beq b
  | .and a b, .and c d => a.beq c && b.beq d
  | .or a b, .or c d => a.beq c && b.beq d
  | _, _ => false

theorem Cond.eq_of_beq : ∀ (a b : Cond), a.beq b = true → a = b := by
  intro a
  induction a with
  | tt => intro b h; cases b <;> simp_all [Cond.beq]
  | ff => intro b h; cases b <;> simp_all [Cond.beq]
  | truthy f => intro b h; cases b <;> simp_all [Cond.beq]
  | eq f k => intro b h; cases b <;> simp_all [Cond.beq]
  | not a ih => intro b h; cases b <;> simp_all [Cond.beq]; exact ih _ h
  | and a b iha ihb =>
    intro c h; cases c <;> simp_all [Cond.beq]
    exact ⟨iha _ h.1, ihb _ h.2⟩
  | or a b iha ihb =>
    intro c h; cases c <;> simp_all [Cond.beq]
    exact ⟨iha _ h.1, ihb _ h.2⟩

def Cond.isTT : Cond → Bool
  | .tt => true
  | _ => false

theorem Cond.eq_tt_of_isTT {c : Cond} (h : c.isTT = true) : c = .tt := by
  cases c <;> simp_all [Cond.isTT]

def Cond.eval (st : St) : Cond → Bool
  | .tt => true
  | .ff => false
  | .truthy f => st f != 0
  | .eq f k => st f == k
  | .not c => !c.eval st
  | .and a b => a.eval st && b.eval st
  | .or a b => a.eval st || b.eval st

inductive Stmt
  | skip
  | err (msg : Nat)             -- flexerror(msgs[msg]): does not return
  | warn (msg : Nat)            -- lwarn(msgs[msg])
  | set (f : Fld) (k : Int)
  | ite (c : Cond) (t e : Stmt)
  | seq (a b : Stmt)
deriving Repr, Inhabited

structure Res where
  st : St
  err : Option Nat := none
  warns : List Nat := []

def Stmt.run : Stmt → St → Res
  | .skip, st => { st }
  | .err m, st => { st, err := some m }
  | .warn m, st => { st, warns := [m] }
  | .set f k, st => { st := upd st f k }
  | .ite c t e, st => if c.eval st then t.run st else e.run st
  | .seq a b, st =>
    let r := a.run st
    match r.err with
    | some _ => r
    | none => let r' := b.run r.st; { r' with warns := r.warns ++ r'.warns }

/-! ### formulas over the initial state -/

def mkNot : Cond → Cond
  | .tt => .ff
  | .ff => .tt
  | c => .not c

/-- `a ∧ b`, folded: constants, `a ∧ ¬a`, `a ∧ (¬a ∨ b)` -/
def mkAnd (a b : Cond) : Cond :=
  match a, b with
  | .ff, _ => .ff
  | _, .ff => .ff
  | .tt, b => b
  | a, .tt => a
  | a, b =>
    if b.beq (.not a) || a.beq (.not b) then .ff else
    match b with
    | .or (.not a') b' => if a'.beq a then .and a b' else .and a b
    | _ => .and a b

/-- `a ∨ b`, folded: constants, `a ∨ ¬a`, `a ∨ (¬a ∧ b)` — the shape `errs` and `wp` produce for a
    chain of `if (c) flexerror(...)` -/
def mkOr (a b : Cond) : Cond :=
  match a, b with
  | .tt, _ => .tt
  | _, .tt => .tt
  | .ff, b => b
  | a, .ff => a
  | a, b =>
    if b.beq (.not a) || a.beq (.not b) then .tt else
    match b with
    | .and (.not a') b' => if a'.beq a then .or a b' else .or a b
    | _ => .or a b

def mkImp (a b : Cond) : Cond := mkOr (mkNot a) b

@[simp] theorem mkNot_eval (st : St) (c : Cond) : (mkNot c).eval st = !c.eval st := by
  cases c <;> simp [mkNot, Cond.eval]

@[simp] theorem mkAnd_eval (st : St) (a b : Cond) : (mkAnd a b).eval st = (a.eval st && b.eval st) := by
  unfold mkAnd
  split <;> try (simp [Cond.eval]; done)
  split
  · rename_i h
    rw [Bool.or_eq_true] at h
    rcases h with h | h <;> have h := Cond.eq_of_beq _ _ h <;> subst h <;> simp [Cond.eval]
  · split
    · split
      · rename_i h; have h := Cond.eq_of_beq _ _ h; subst h
        simp only [Cond.eval, Bool.and_or_distrib_left, Bool.and_not_self, Bool.false_or]
      · rfl
    · rfl

@[simp] theorem mkOr_eval (st : St) (a b : Cond) : (mkOr a b).eval st = (a.eval st || b.eval st) := by
  unfold mkOr
  split <;> try (simp [Cond.eval]; done)
  split
  · rename_i h
    rw [Bool.or_eq_true] at h
    rcases h with h | h <;> have h := Cond.eq_of_beq _ _ h <;> subst h <;> simp [Cond.eval]
  · split
    · split
      · rename_i h; have h := Cond.eq_of_beq _ _ h; subst h
        simp only [Cond.eval, Bool.or_and_distrib_left, Bool.or_not_self, Bool.true_and]
      · rfl
    · rfl

/-- `if c then x else y` as a formula; nothing at all when both branches say the same (an `if` of
    the program that does not touch what the formula is about) -/
def mkIte (c x y : Cond) : Cond :=
  if x.beq y then x else mkOr (mkAnd c x) (mkAnd (mkNot c) y)

@[simp] theorem mkIte_eval (st : St) (c x y : Cond) :
    (mkIte c x y).eval st = (if c.eval st then x.eval st else y.eval st) := by
  unfold mkIte
  split
  · rename_i h; have h := Cond.eq_of_beq _ _ h; subst h; split <;> rfl
  · simp only [mkOr_eval, mkAnd_eval, mkNot_eval]
    cases h : c.eval st <;> simp

@[simp] theorem mkImp_eval (st : St) (a b : Cond) : (mkImp a b).eval st = (!a.eval st || b.eval st) := by
  simp [mkImp]

/-- the formula after `f := k`: atoms about `f` become constants, the rest is folded -/
def Cond.subst (f : Fld) (k : Int) : Cond → Cond
  | .tt => .tt
  | .ff => .ff
  | .truthy g => if g = f then (if k != 0 then .tt else .ff) else .truthy g
  | .eq g j => if g = f then (if k == j then .tt else .ff) else .eq g j
  | .not c => mkNot (c.subst f k)
  | .and a b => mkAnd (a.subst f k) (b.subst f k)
  | .or a b => mkOr (a.subst f k) (b.subst f k)

theorem Cond.subst_eval (st : St) (f : Fld) (k : Int) (c : Cond) :
    (c.subst f k).eval st = c.eval (upd st f k) := by
  induction c with
  | tt => rfl
  | ff => rfl
  | truthy g =>
    by_cases h : g = f
    · subst h; by_cases hk : k = 0 <;> simp [Cond.subst, Cond.eval, upd, hk]
    · simp [Cond.subst, Cond.eval, upd, h]
  | eq g j =>
    by_cases h : g = f
    · subst h; by_cases hk : k = j <;> simp [Cond.subst, Cond.eval, upd, hk]
    · simp [Cond.subst, Cond.eval, upd, h]
  | not c ih => simp [Cond.subst, Cond.eval, ih]
  | and a b iha ihb => simp [Cond.subst, Cond.eval, iha, ihb]
  | or a b iha ihb => simp [Cond.subst, Cond.eval, iha, ihb]

/-- `s` ends without `flexerror` and `Q` holds of the final state -/
def Stmt.wp : Stmt → Cond → Cond
  | .skip, Q => Q
  | .err _, _ => .ff
  | .warn _, Q => Q
  | .set f k, Q => Q.subst f k
  | .ite c t e, Q => mkIte c (t.wp Q) (e.wp Q)
  | .seq a b, Q => a.wp (b.wp Q)

theorem Stmt.wp_sound (s : Stmt) : ∀ (Q : Cond) (st : St),
    (s.wp Q).eval st = ((s.run st).err.isNone && Q.eval (s.run st).st) := by
  induction s with
  | skip => intro Q st; simp [Stmt.wp, Stmt.run]
  | err m => intro Q st; simp [Stmt.wp, Stmt.run, Cond.eval]
  | warn m => intro Q st; simp [Stmt.wp, Stmt.run]
  | set f k => intro Q st; simp [Stmt.wp, Stmt.run, Cond.subst_eval]
  | ite c t e iht ihe =>
    intro Q st
    by_cases h : c.eval st <;> simp [Stmt.wp, Stmt.run, h, iht, ihe]
  | seq a b iha ihb =>
    intro Q st
    simp only [Stmt.wp, iha, ihb, Stmt.run]
    cases h : (a.run st).err <;> simp [h]

/-- `s` calls `flexerror` -/
def Stmt.errs : Stmt → Cond
  | .skip => .ff
  | .err _ => .tt
  | .warn _ => .ff
  | .set _ _ => .ff
  | .ite c t e => mkIte c t.errs e.errs
  | .seq a b => mkOr a.errs (a.wp b.errs)

theorem Stmt.errs_sound (s : Stmt) : ∀ (st : St), s.errs.eval st = (s.run st).err.isSome := by
  induction s with
  | skip => intro st; simp [Stmt.errs, Stmt.run, Cond.eval]
  | err m => intro st; simp [Stmt.errs, Stmt.run, Cond.eval]
  | warn m => intro st; simp [Stmt.errs, Stmt.run, Cond.eval]
  | set f k => intro st; simp [Stmt.errs, Stmt.run, Cond.eval]
  | ite c t e iht ihe =>
    intro st
    by_cases h : c.eval st <;> simp [Stmt.errs, Stmt.run, h, iht, ihe]
  | seq a b iha ihb =>
    intro st
    simp only [Stmt.errs, mkOr_eval, iha, Stmt.wp_sound, ihb, Stmt.run]
    cases h : (a.run st).err <;> simp [h]

/-- `s` calls `flexerror` with message `m` -/
def Stmt.errsWith (m : Nat) : Stmt → Cond
  | .skip => .ff
  | .err m' => if m' = m then .tt else .ff
  | .warn _ => .ff
  | .set _ _ => .ff
  | .ite c t e => mkIte c (t.errsWith m) (e.errsWith m)
  | .seq a b => mkOr (a.errsWith m) (a.wp (b.errsWith m))

theorem Stmt.errsWith_sound (m : Nat) (s : Stmt) : ∀ (st : St),
    (s.errsWith m).eval st = ((s.run st).err == some m) := by
  induction s with
  | skip => intro st; simp [Stmt.errsWith, Stmt.run, Cond.eval]
  | err m' =>
    intro st
    by_cases h : m' = m <;> simp [Stmt.errsWith, Stmt.run, Cond.eval, h]
  | warn m => intro st; simp [Stmt.errsWith, Stmt.run, Cond.eval]
  | set f k => intro st; simp [Stmt.errsWith, Stmt.run, Cond.eval]
  | ite c t e iht ihe =>
    intro st
    by_cases h : c.eval st <;> simp [Stmt.errsWith, Stmt.run, h, iht, ihe]
  | seq a b iha ihb =>
    intro st
    simp only [Stmt.errsWith, mkOr_eval, iha, Stmt.wp_sound, ihb, Stmt.run]
    cases h : (a.run st).err <;> simp [h]

/-- `s` ends normally having printed warning `m` -/
def Stmt.warnsWith (m : Nat) : Stmt → Cond
  | .skip => .ff
  | .err _ => .ff
  | .warn m' => if m' = m then .tt else .ff
  | .set _ _ => .ff
  | .ite c t e => mkIte c (t.warnsWith m) (e.warnsWith m)
  | .seq a b => mkOr (mkAnd (a.warnsWith m) (a.wp (b.wp .tt))) (a.wp (b.warnsWith m))

theorem Stmt.warnsWith_sound (m : Nat) (s : Stmt) : ∀ (st : St),
    (s.warnsWith m).eval st = ((s.run st).err.isNone && (s.run st).warns.contains m) := by
  induction s with
  | skip => intro st; simp [Stmt.warnsWith, Stmt.run, Cond.eval]
  | err m' => intro st; simp [Stmt.warnsWith, Stmt.run, Cond.eval]
  | warn m' =>
    intro st
    by_cases h : m' = m
    · simp [Stmt.warnsWith, Stmt.run, Cond.eval, h]
    · have : ¬ m = m' := fun e => h e.symm
      simp [Stmt.warnsWith, Stmt.run, Cond.eval, h, this]
  | set f k => intro st; simp [Stmt.warnsWith, Stmt.run, Cond.eval]
  | ite c t e iht ihe =>
    intro st
    by_cases h : c.eval st <;> simp [Stmt.warnsWith, Stmt.run, h, iht, ihe]
  | seq a b iha ihb =>
    intro st
    simp only [Stmt.warnsWith, mkOr_eval, mkAnd_eval, iha, Stmt.wp_sound, ihb, Stmt.run, Cond.eval]
    cases h : (a.run st).err with
    | some x => simp [h]
    | none =>
      set_option linter.unusedSimpArgs false in
      cases h2 : ((b.run (a.run st).st).err) <;> simp [h, h2, List.contains_append] <;>
        cases (a.run st).warns.contains m <;> simp

/-! ### leaving out assignments nobody reads

The program that defines the m4 symbols is long, and a statement about one symbol concerns two or
three of its statements.  `Stmt.drop p` removes the assignments to variables in `p`; if no
condition of the program reads such a variable (`condsAvoid`), the outcome, the warnings and all
other variables are unchanged (`run_drop`). -/

def Cond.avoids (p : Fld → Bool) : Cond → Bool
  | .tt => true
  | .ff => true
  | .truthy f => !p f
  | .eq f _ => !p f
  | .not c => c.avoids p
  | .and a b => a.avoids p && b.avoids p
  | .or a b => a.avoids p && b.avoids p

def Stmt.condsAvoid (p : Fld → Bool) : Stmt → Bool
  | .ite c t e => c.avoids p && t.condsAvoid p && e.condsAvoid p
  | .seq a b => a.condsAvoid p && b.condsAvoid p
  | _ => true

def Stmt.isSkip : Stmt → Bool
  | .skip => true
  | _ => false

def Stmt.drop (p : Fld → Bool) : Stmt → Stmt
  | .set f k => if p f then .skip else .set f k
  | .ite c t e =>
    let t' := t.drop p
    let e' := e.drop p
    if t'.isSkip && e'.isSkip then .skip else .ite c t' e'
  | .seq a b =>
    let a' := a.drop p
    let b' := b.drop p
    if a'.isSkip then b' else if b'.isSkip then a' else .seq a' b'
  | s => s

def agree (p : Fld → Bool) (st st' : St) : Prop := ∀ f, p f = false → st f = st' f

theorem Cond.eval_agree {p : Fld → Bool} {st st' : St} (h : agree p st st') :
    ∀ c : Cond, c.avoids p = true → c.eval st = c.eval st' := by
  intro c
  induction c with
  | tt => intro _; rfl
  | ff => intro _; rfl
  | truthy f => intro hc; simp only [Cond.avoids, Bool.not_eq_true'] at hc; simp [Cond.eval, h f hc]
  | eq f k => intro hc; simp only [Cond.avoids, Bool.not_eq_true'] at hc; simp [Cond.eval, h f hc]
  | not c ih => intro hc; simp [Cond.eval, ih hc]
  | and a b iha ihb =>
    intro hc; simp only [Cond.avoids, Bool.and_eq_true] at hc; simp [Cond.eval, iha hc.1, ihb hc.2]
  | or a b iha ihb =>
    intro hc; simp only [Cond.avoids, Bool.and_eq_true] at hc; simp [Cond.eval, iha hc.1, ihb hc.2]

theorem Stmt.isSkip_eq {s : Stmt} (h : s.isSkip = true) : s = .skip := by
  cases s <;> simp_all [Stmt.isSkip]

theorem Stmt.run_seq_skip (a : Stmt) (st : St) :
    ((Stmt.seq a .skip).run st).err = (a.run st).err ∧ ((Stmt.seq a .skip).run st).warns = (a.run st).warns ∧
      ((Stmt.seq a .skip).run st).st = (a.run st).st := by
  simp only [Stmt.run]
  cases h : (a.run st).err <;> simp [h]

/-- same outcome, same warnings, same values outside `p` -/
def Sim (p : Fld → Bool) (r r' : Res) : Prop := r.err = r'.err ∧ r.warns = r'.warns ∧ agree p r.st r'.st

theorem Stmt.run_drop (p : Fld → Bool) (s : Stmt) : s.condsAvoid p = true →
    ∀ st st', agree p st st' → Sim p (s.run st) ((s.drop p).run st') := by
  induction s with
  | skip => intro _ st st' h; exact ⟨rfl, rfl, h⟩
  | err m => intro _ st st' h; exact ⟨rfl, rfl, h⟩
  | warn m => intro _ st st' h; exact ⟨rfl, rfl, h⟩
  | set f k =>
    intro _ st st' h
    simp only [Stmt.drop]
    split
    · rename_i hp
      refine ⟨rfl, rfl, ?_⟩
      intro g hg
      have : g ≠ f := fun e => by subst e; simp [hp] at hg
      simp [Stmt.run, upd, this, h g hg]
    · refine ⟨rfl, rfl, ?_⟩
      intro g hg
      by_cases e : g = f <;> simp [Stmt.run, upd, e, h g hg]
  | ite c t e iht ihe =>
    intro hc st st' h
    simp only [Stmt.condsAvoid, Bool.and_eq_true] at hc
    have hcond := Cond.eval_agree h c hc.1.1
    have ht := iht hc.1.2 st st' h
    have he := ihe hc.2 st st' h
    simp only [Stmt.drop]
    split
    · rename_i hs
      simp only [Bool.and_eq_true] at hs
      rw [Stmt.isSkip_eq hs.1] at ht
      rw [Stmt.isSkip_eq hs.2] at he
      simp only [Stmt.run]
      split
      · exact ht
      · exact he
    · simp only [Stmt.run, hcond]
      split
      · exact ht
      · exact he
  | seq a b iha ihb =>
    intro hc st st' h
    simp only [Stmt.condsAvoid, Bool.and_eq_true] at hc
    have ha := iha hc.1 st st' h
    -- the run of `seq a b` against the run of `seq (a.drop p) (b.drop p)`
    have key : Sim p ((Stmt.seq a b).run st) ((Stmt.seq (a.drop p) (b.drop p)).run st') := by
      obtain ⟨he, hw, hs⟩ := ha
      simp only [Stmt.run]
      cases hea : (a.run st).err with
      | some m =>
        rw [hea] at he
        simp only [← he]
        exact ⟨by rw [hea, he], hw, hs⟩
      | none =>
        rw [hea] at he
        simp only [← he]
        obtain ⟨he2, hw2, hs2⟩ := ihb hc.2 _ _ hs
        exact ⟨he2, by simp [hw, hw2], hs2⟩
    simp only [Stmt.drop]
    split
    · rename_i hs
      rw [Stmt.isSkip_eq hs] at key
      simpa [Stmt.run] using key
    · split
      · rename_i hs
        rw [Stmt.isSkip_eq hs] at key
        obtain ⟨k1, k2, k3⟩ := key
        obtain ⟨e1, e2, e3⟩ := Stmt.run_seq_skip (a.drop p) st'
        refine ⟨by rw [k1, e1], by rw [k2, e2], ?_⟩
        intro g hg; rw [k3 g hg, e3]
      · exact key

theorem Stmt.run_drop_self (p : Fld → Bool) (s : Stmt) (h : s.condsAvoid p = true) (st : St) :
    Sim p (s.run st) ((s.drop p).run st) :=
  s.run_drop p h st st (fun _ _ => rfl)

theorem Stmt.condsAvoid_mono {p q : Fld → Bool} (hpq : ∀ f, q f = true → p f = true) :
    ∀ s : Stmt, s.condsAvoid p = true → s.condsAvoid q = true := by
  have hc : ∀ c : Cond, c.avoids p = true → c.avoids q = true := by
    intro c
    induction c with
    | tt => intro _; rfl
    | ff => intro _; rfl
    | truthy f =>
      intro h
      simp only [Cond.avoids, Bool.not_eq_true'] at h ⊢
      cases hq : q f with
      | false => rfl
      | true => rw [hpq f hq] at h; exact absurd h (by simp)
    | eq f k =>
      intro h
      simp only [Cond.avoids, Bool.not_eq_true'] at h ⊢
      cases hq : q f with
      | false => rfl
      | true => rw [hpq f hq] at h; exact absurd h (by simp)
    | not c ih => intro h; exact ih h
    | and a b iha ihb =>
      intro h; simp only [Cond.avoids, Bool.and_eq_true] at h ⊢; exact ⟨iha h.1, ihb h.2⟩
    | or a b iha ihb =>
      intro h; simp only [Cond.avoids, Bool.and_eq_true] at h ⊢; exact ⟨iha h.1, ihb h.2⟩
  intro s
  induction s with
  | ite c t e iht ihe =>
    intro h
    simp only [Stmt.condsAvoid, Bool.and_eq_true] at h ⊢
    exact ⟨⟨hc c h.1.1, iht h.1.2⟩, ihe h.2⟩
  | seq a b iha ihb =>
    intro h
    simp only [Stmt.condsAvoid, Bool.and_eq_true] at h ⊢
    exact ⟨iha h.1, ihb h.2⟩
  | _ => intro _; rfl

/-! ### deciding a formula over finite value sets -/

/-- `c` holds for every assignment of the listed values to the listed variables (and `c` mentions
    no other variable) -/
def Cond.mentions (f : Fld) : Cond → Bool
  | .tt => false
  | .ff => false
  | .truthy g => g == f
  | .eq g _ => g == f
  | .not c => c.mentions f
  | .and a b => a.mentions f || b.mentions f
  | .or a b => a.mentions f || b.mentions f

def tautOn : List (Fld × List Int) → Cond → Bool
  | [], c => c.isTT
  | (f, vals) :: rest, c =>
    if c.mentions f then vals.all fun v => tautOn rest (c.subst f v) else tautOn rest c

theorem subst_self_eval (st : St) (f : Fld) (c : Cond) : (c.subst f (st f)).eval st = c.eval st := by
  rw [Cond.subst_eval]
  congr 1
  funext g
  by_cases h : g = f <;> simp [upd, h]

theorem tautOn_sound : ∀ (doms : List (Fld × List Int)) (c : Cond), tautOn doms c = true →
    ∀ st : St, (∀ p ∈ doms, st p.1 ∈ p.2) → c.eval st = true := by
  intro doms
  induction doms with
  | nil =>
    intro c h st _
    simp only [tautOn] at h
    have h := Cond.eq_tt_of_isTT h
    subst h; rfl
  | cons p rest ih =>
    intro c h st hst
    obtain ⟨f, vals⟩ := p
    have hrest : ∀ q ∈ rest, st q.1 ∈ q.2 := fun q hq => hst q (List.mem_cons_of_mem _ hq)
    simp only [tautOn] at h
    split at h
    · simp only [List.all_eq_true] at h
      have hf : st f ∈ vals := hst (f, vals) (List.mem_cons_self ..)
      have := ih _ (h _ hf) st hrest
      rwa [subst_self_eval] at this
    · exact ih _ h st hrest

/-- the variables of `fs` first (those a hypothesis fixes: the formula collapses at once) -/
def reorder (fs : List Fld) (doms : List (Fld × List Int)) : List (Fld × List Int) :=
  doms.filter (fun p => fs.contains p.1) ++ doms.filter (fun p => !fs.contains p.1)

theorem mem_of_mem_reorder {fs : List Fld} {doms : List (Fld × List Int)} {p : Fld × List Int}
    (h : p ∈ reorder fs doms) : p ∈ doms := by
  simp only [reorder, List.mem_append, List.mem_filter] at h
  rcases h with h | h <;> exact h.1

def Cond.fields : Cond → List Fld
  | .tt => []
  | .ff => []
  | .truthy g => [g]
  | .eq g _ => [g]
  | .not c => c.fields
  | .and a b => a.fields ++ b.fields
  | .or a b => a.fields ++ b.fields

/-- leftmost variable of a formula -/
def Cond.first? : Cond → Option Fld
  | .tt => none
  | .ff => none
  | .truthy g => some g
  | .eq g _ => some g
  | .not c => c.first?
  | .and a b => a.first? <|> b.first?
  | .or a b => a.first? <|> b.first?

/-- as `tautOn`, but the next variable to split on is the leftmost one of the formula: the order in
    which the program tests them, so each branch collapses as a path of the program would -/
def tautA (doms : List (Fld × List Int)) : Nat → Cond → Bool
  | 0, c => c.isTT
  | fuel + 1, c =>
    match c.first? with
    | none => c.isTT
    | some f =>
      match doms.find? (fun p => p.1 == f) with
      | none => false
      | some p => p.2.all fun v => tautA doms fuel (c.subst f v)

theorem tautA_sound (doms : List (Fld × List Int)) : ∀ (fuel : Nat) (c : Cond), tautA doms fuel c = true →
    ∀ st : St, (∀ p ∈ doms, st p.1 ∈ p.2) → c.eval st = true := by
  intro fuel
  induction fuel with
  | zero =>
    intro c h st _
    simp only [tautA] at h
    have h := Cond.eq_tt_of_isTT h
    subst h; rfl
  | succ n ih =>
    intro c h st hst
    simp only [tautA] at h
    split at h
    · have h := Cond.eq_tt_of_isTT h
      subst h; rfl
    · rename_i f _
      split at h
      · exact absurd h (by simp)
      · rename_i p hp
        have hmem : p ∈ doms := List.mem_of_find?_eq_some hp
        have hf : p.1 = f := by
          have := List.find?_some hp
          simpa using this
        simp only [List.all_eq_true] at h
        have hv : st f ∈ p.2 := hf ▸ hst p hmem
        have := ih _ (h _ hv) st hst
        rwa [subst_self_eval] at this

/-- every option variable has a value of its C type (`bool`, `trit`, …) -/
def WT (doms : List (Fld × List Int)) (st : St) : Prop := ∀ p ∈ doms, st p.1 ∈ p.2

end FlexVerif.Opt

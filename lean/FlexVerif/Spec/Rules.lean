import FlexVerif.Spec.Pat
/-
  Spec/Rules.lean — rule sets, start conditions, and what "the rule selected at a
  position" means (flex.texi, chapters "Matching" and "Start Conditions").
-/
namespace FlexVerif

/-- A rule as far as matching is concerned.  Rule numbers are 1-based positions in the file;
    the default rule (`<*>.|\n`) is the last rule of every rule set. -/
structure Rule where
  scs : List Nat          -- start conditions listed in `<...>` (0 = INITIAL)
  allSc : Bool            -- `<*>`
  bol : Bool              -- `^`
  full : Re               -- what the rule competes with: head followed by trailing context
  head : Re               -- what the action sees (`= full` when there is no trailing context)
  varTrail : Bool         -- variable-length head *and* trail (flex's RULE_VARIABLE)
deriving Repr, Inhabited

structure RuleSet where
  nsc : Nat                     -- number of start conditions, INITIAL included
  exclusive : List Bool         -- per start condition: declared with %x
  rules : List Rule             -- file order; rule `i` (1-based) is `rules[i-1]`
  csize : Nat := 256
deriving Repr, Inhabited

namespace RuleSet

def isExclusive (S : RuleSet) (sc : Nat) : Bool := S.exclusive.getD sc false

/-- **The manual's activation sentence.**  A rule is active in start condition `sc` iff it names
    `sc`, or is written with `<*>`, or has no start condition at all and `sc` is inclusive.
    A `^` rule is moreover only active at the beginning of a line. -/
def activeIn (S : RuleSet) (sc : Nat) (atBol : Bool) (r : Rule) : Bool :=
  (r.allSc || r.scs.contains sc || (r.scs.isEmpty && !r.allSc && !S.isExclusive sc))
    && (!r.bol || atBol)

/-- rule number `i` (1-based) is active and its full pattern matches exactly `w` -/
def RuleMatches (S : RuleSet) (sc : Nat) (atBol : Bool) (i : Nat) (w : List Byte) : Prop :=
  ∃ r, S.rules[i - 1]? = some r ∧ 1 ≤ i ∧ S.activeIn sc atBol r = true ∧ r.full.Matches w

/-- the head of variable-trailing-context rule `i` matches exactly `w` -/
def HeadMatches (S : RuleSet) (sc : Nat) (atBol : Bool) (i : Nat) (w : List Byte) : Prop :=
  ∃ r, S.rules[i - 1]? = some r ∧ 1 ≤ i ∧ S.activeIn sc atBol r = true ∧ r.varTrail = true ∧
    r.head.Matches w

/-- `l` is the rule the documentation selects among those matching exactly `w`:
    the first one in the file, `none` if no active rule matches `w`. -/
def FirstRule (S : RuleSet) (sc : Nat) (atBol : Bool) (w : List Byte) (l : Option Nat) : Prop :=
  match l with
  | none => ∀ i, ¬ S.RuleMatches sc atBol i w
  | some i => S.RuleMatches sc atBol i w ∧ ∀ j, j < i → ¬ S.RuleMatches sc atBol j w

/-- `(len, i)` is the token the documentation prescribes on remaining input `inp`:
    `len` is the longest length at which any active rule matches a prefix, and `i` the first
    rule matching at that length.  `none`: nothing matches (cannot happen with the default
    rule present and `inp ≠ []`). -/
def Selects (S : RuleSet) (sc : Nat) (atBol : Bool) (inp : List Byte) (len i : Nat) : Prop :=
  len ≤ inp.length ∧ S.FirstRule sc atBol (inp.take len) (some i) ∧
    ∀ len', len < len' → len' ≤ inp.length → ∀ j, ¬ S.RuleMatches sc atBol j (inp.take len')

end RuleSet
end FlexVerif

import FlexVerif.Spec.ReLemmas
/-
  Spec/Nl.lean — "this pattern can match a newline", decided on the regular expression.

  flex keeps `yylineno` by looking for newlines only in the text of rules it has flagged
  (`yy_rule_can_match_eol`).  The flag must be *sound*: set for every rule that matches some
  text containing a newline.  `Re.canNl` decides exactly that property of the denotation
  (`canNl_iff`), so the emitted table can be compared with it per program (C09).
-/
namespace FlexVerif
namespace ByteSet

/-- some byte belongs to the set -/
def nonempty (s : ByteSet) : Bool := (List.range 256).any fun i => s.mem (UInt8.ofNat i)

theorem nonempty_iff (s : ByteSet) : s.nonempty = true ↔ ∃ b, s.mem b = true := by
  simp only [nonempty, List.any_eq_true, List.mem_range]
  constructor
  · rintro ⟨i, _, h⟩; exact ⟨_, h⟩
  · rintro ⟨b, h⟩
    refine ⟨b.toNat, b.toNat_lt, ?_⟩
    simpa using h

end ByteSet

namespace Re

/-- the language is not empty -/
def nonEmpty : Re → Bool
  | .empty => false
  | .eps => true
  | .cls s => s.nonempty
  | .cat a b => a.nonEmpty && b.nonEmpty
  | .alt a b => a.nonEmpty || b.nonEmpty
  | .star _ => true

theorem nonEmpty_iff : ∀ (r : Re), r.nonEmpty = true ↔ ∃ w, r.Matches w
  | .empty => by
    simp only [nonEmpty, Bool.false_eq_true, false_iff]
    rintro ⟨w, h⟩; cases h
  | .eps => by simp only [nonEmpty, true_iff]; exact ⟨[], .eps⟩
  | .cls s => by
    simp only [nonEmpty, ByteSet.nonempty_iff]
    constructor
    · rintro ⟨b, h⟩; exact ⟨[b], .cls h⟩
    · rintro ⟨w, h⟩; cases h with | cls hb => exact ⟨_, hb⟩
  | .cat a b => by
    simp only [nonEmpty, Bool.and_eq_true, nonEmpty_iff a, nonEmpty_iff b]
    constructor
    · rintro ⟨⟨u, hu⟩, ⟨v, hv⟩⟩; exact ⟨u ++ v, .cat hu hv⟩
    · rintro ⟨w, h⟩; cases h with | cat hu hv => exact ⟨⟨_, hu⟩, ⟨_, hv⟩⟩
  | .alt a b => by
    simp only [nonEmpty, Bool.or_eq_true, nonEmpty_iff a, nonEmpty_iff b]
    constructor
    · rintro (⟨w, h⟩ | ⟨w, h⟩)
      · exact ⟨w, .altL h⟩
      · exact ⟨w, .altR h⟩
    · rintro ⟨w, h⟩
      cases h with
      | altL h => exact .inl ⟨_, h⟩
      | altR h => exact .inr ⟨_, h⟩
  | .star a => by simp only [nonEmpty, true_iff]; exact ⟨[], .starNil⟩

/-- some string of the language contains a newline -/
def canNl : Re → Bool
  | .empty => false
  | .eps => false
  | .cls s => s.mem 10
  | .cat a b => (a.canNl && b.nonEmpty) || (a.nonEmpty && b.canNl)
  | .alt a b => a.canNl || b.canNl
  | .star a => a.canNl

/-- a match of `star a` whose text contains a newline has an iteration that does -/
theorem star_nl {a : Re} {w : List Byte} (h : Matches (.star a) w) (hn : (10 : Byte) ∈ w) :
    ∃ u, a.Matches u ∧ (10 : Byte) ∈ u := by
  generalize hr : Re.star a = r at h
  induction h with
  | eps => cases hr
  | cls _ => cases hr
  | cat _ _ => cases hr
  | altL _ => cases hr
  | altR _ => cases hr
  | starNil => cases hn
  | starCons hu hv _ ih =>
    cases hr
    rcases List.mem_append.mp hn with h1 | h2
    · exact ⟨_, hu, h1⟩
    · exact ih h2 rfl

/-- **`canNl` is exact**: it holds iff the pattern matches some text that contains a newline. -/
theorem canNl_iff : ∀ (r : Re), r.canNl = true ↔ ∃ w, r.Matches w ∧ (10 : Byte) ∈ w
  | .empty => by
    simp only [canNl, Bool.false_eq_true, false_iff]
    rintro ⟨w, h, _⟩; cases h
  | .eps => by
    simp only [canNl, Bool.false_eq_true, false_iff]
    rintro ⟨w, h, hn⟩; cases h; cases hn
  | .cls s => by
    simp only [canNl]
    constructor
    · intro h; exact ⟨[10], .cls h, by simp⟩
    · rintro ⟨w, h, hn⟩
      cases h with
      | @cls _ b hb =>
        have : (10 : Byte) = b := by simpa using hn
        rw [this]; exact hb
  | .cat a b => by
    simp only [canNl, Bool.or_eq_true, Bool.and_eq_true, canNl_iff a, canNl_iff b, nonEmpty_iff]
    constructor
    · rintro (⟨⟨u, hu, hn⟩, ⟨v, hv⟩⟩ | ⟨⟨u, hu⟩, ⟨v, hv, hn⟩⟩)
      · exact ⟨u ++ v, .cat hu hv, List.mem_append.mpr (.inl hn)⟩
      · exact ⟨u ++ v, .cat hu hv, List.mem_append.mpr (.inr hn)⟩
    · rintro ⟨w, h, hn⟩
      cases h with
      | cat hu hv =>
        rcases List.mem_append.mp hn with h1 | h2
        · exact .inl ⟨⟨_, hu, h1⟩, ⟨_, hv⟩⟩
        · exact .inr ⟨⟨_, hu⟩, ⟨_, hv, h2⟩⟩
  | .alt a b => by
    simp only [canNl, Bool.or_eq_true, canNl_iff a, canNl_iff b]
    constructor
    · rintro (⟨w, h, hn⟩ | ⟨w, h, hn⟩)
      · exact ⟨w, .altL h, hn⟩
      · exact ⟨w, .altR h, hn⟩
    · rintro ⟨w, h, hn⟩
      cases h with
      | altL h => exact .inl ⟨_, h, hn⟩
      | altR h => exact .inr ⟨_, h, hn⟩
  | .star a => by
    simp only [canNl, canNl_iff a]
    constructor
    · rintro ⟨u, hu, hn⟩
      exact ⟨u ++ [], .starCons hu .starNil, by simpa using hn⟩
    · rintro ⟨w, h, hn⟩
      exact star_nl h hn

end Re
end FlexVerif

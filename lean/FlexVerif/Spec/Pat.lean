import FlexVerif.Spec.Re
/-
  Spec/Pat.lean — the documented pattern language (flex.texi, chapter "Patterns")
  as an abstract syntax, and its meaning as a `Re`.

  This file is a reading of the *manual*, not of `parse.y`: each constructor is one
  documented pattern form and `Pat.toRe` is what the manual says it matches
  ("C" locale for the POSIX class expressions).
-/
namespace FlexVerif

inductive PosixCls
  | alnum | alpha | blank | cntrl | digit | graph | lower | print | punct | space | upper | xdigit
deriving DecidableEq, Repr, Inhabited

namespace PosixCls
def lowerSet : ByteSet := ByteSet.range 97 122
def upperSet : ByteSet := ByteSet.range 65 90
def digitSet : ByteSet := ByteSet.range 48 57
def alphaSet : ByteSet := lowerSet.union upperSet
def alnumSet : ByteSet := alphaSet.union digitSet
def graphSet : ByteSet := ByteSet.range 33 126

/-- members of a POSIX class expression in the "C" locale -/
def set : PosixCls → ByteSet
  | alnum => alnumSet
  | alpha => alphaSet
  | blank => ByteSet.ofList [32, 9]
  | cntrl => (ByteSet.range 0 31).union (ByteSet.single 127)
  | digit => digitSet
  | graph => graphSet
  | lower => lowerSet
  | print => ByteSet.range 32 126
  | punct => graphSet.diff alnumSet
  | space => (ByteSet.range 9 13).union (ByteSet.single 32)
  | upper => upperSet
  | xdigit => digitSet.union ((ByteSet.range 65 70).union (ByteSet.range 97 102))
end PosixCls

def hasCase (c : Nat) : Bool := (65 ≤ c && c ≤ 90) || (97 ≤ c && c ≤ 122)
def revCase (c : Nat) : Nat :=
  if 65 ≤ c && c ≤ 90 then c + 32 else if 97 ≤ c && c ≤ 122 then c - 32 else c

/-- one item inside a bracket expression -/
inductive ClsItem
  | ch (c : Nat)
  | range (lo hi : Nat)
  | posix (k : PosixCls) (neg : Bool)      -- `[:alpha:]` / `[:^alpha:]`
deriving DecidableEq, Repr, Inhabited

/-- `[...]` or `[^...]` -/
structure Bracket where
  neg : Bool
  items : List ClsItem
deriving DecidableEq, Repr, Inhabited

/-- character class expression: a bracket expression followed by `{-}` / `{+}` operations
    (left associative, as documented) -/
inductive ClsExpr
  | br (b : Bracket)
  | diff (a : ClsExpr) (b : Bracket)
  | union (a : ClsExpr) (b : Bracket)
deriving Repr, Inhabited

/-- matching flags in force at a point of a pattern -/
structure Flags where
  caseIns : Bool := false       -- `i`
  dotAll : Bool := false        -- `s`
deriving DecidableEq, Repr, Inhabited

/-- the character-set size of the scanner (128 for a 7-bit scanner, 256 otherwise) -/
structure Env where
  csize : Nat := 256
deriving Repr, Inhabited

def ClsItem.set (env : Env) (f : Flags) : ClsItem → ByteSet
  | .ch c =>
    if f.caseIns && hasCase c then (ByteSet.single (UInt8.ofNat c)).union (ByteSet.single (UInt8.ofNat (revCase c)))
    else ByteSet.single (UInt8.ofNat c)
  | .range lo hi =>
    if f.caseIns && hasCase lo && hasCase hi then
      (ByteSet.range lo hi).union (ByteSet.range (revCase lo) (revCase hi))
    else ByteSet.range lo hi
  | .posix k neg =>
    let base :=
      if f.caseIns && (k == .lower || k == .upper) then PosixCls.alphaSet else k.set
    if neg then ByteSet.compl env.csize base else base

def Bracket.set (env : Env) (f : Flags) (b : Bracket) : ByteSet :=
  let u := b.items.foldl (fun acc it => acc.union (it.set env f)) ByteSet.empty
  if b.neg then ByteSet.compl env.csize u else u

def ClsExpr.set (env : Env) (f : Flags) : ClsExpr → ByteSet
  | .br b => b.set env f
  | .diff a b => (a.set env f).diff (b.set env f)
  | .union a b => (a.set env f).union (b.set env f)

/-- the pattern language -/
inductive Pat
  | chr (c : Nat)                       -- a literal character, however it was escaped
  | dot                                 -- `.`
  | cls (e : ClsExpr)                   -- bracket expressions with `{-}` `{+}`
  | str (cs : List Nat)                 -- `"..."`
  | cat (a b : Pat)
  | alt (a b : Pat)
  | star (a : Pat)
  | plus (a : Pat)
  | opt (a : Pat)
  | rep (a : Pat) (lo : Nat) (hi : Option Nat)   -- `{n}` = rep n (some n); `{n,}` = rep n none
  | group (setI clrI setS clrS : Bool) (a : Pat) -- `(?i-s: ... )` etc.; plain `( )` sets nothing
deriving Repr, Inhabited

def chrRe (f : Flags) (c : Nat) : Re :=
  if f.caseIns && hasCase c then
    .cls ((ByteSet.single (UInt8.ofNat c)).union (ByteSet.single (UInt8.ofNat (revCase c))))
  else .cls (ByteSet.single (UInt8.ofNat c))

def strRe (f : Flags) : List Nat → Re
  | [] => .eps
  | c :: cs => .cat (chrRe f c) (strRe f cs)

def Pat.toRe (env : Env) (f : Flags) : Pat → Re
  | .chr c => chrRe f c
  | .dot =>
    if f.dotAll then .cls (ByteSet.below env.csize)
    else .cls (ByteSet.compl env.csize (ByteSet.single 10))
  | .cls e => .cls (e.set env f)
  | .str cs => strRe f cs
  | .cat a b => .cat (a.toRe env f) (b.toRe env f)
  | .alt a b => .alt (a.toRe env f) (b.toRe env f)
  | .star a => .star (a.toRe env f)
  | .plus a => Re.plus (a.toRe env f)
  | .opt a => Re.opt (a.toRe env f)
  | .rep a lo hi => Re.rep (a.toRe env f) lo hi
  | .group si ci ss cs a =>
    let f' : Flags := { caseIns := (f.caseIns || si) && !ci, dotAll := (f.dotAll || ss) && !cs }
    a.toRe env f'

end FlexVerif

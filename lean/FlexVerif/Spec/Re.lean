/-
  Spec/Re.lean — the regular-expression core of the specification.

  `Re` is the six-constructor regular-expression language over bytes and
  `Re.Matches` is its denotation (a `Prop`, seven rules).  Everything the
  manual's pattern language offers is *defined* in terms of these six
  constructors in `Spec/Pat.lean`.

  Model files import core Lean only (no Mathlib), so that the driver can be
  linked as a native executable.
-/
namespace FlexVerif

abbrev Byte := UInt8

/-- A set of byte values as a bit mask: bit `b` set ⇔ byte `b` is in the set. -/
structure ByteSet where
  bits : Nat
deriving DecidableEq, Hashable, Repr, Ord, Inhabited

namespace ByteSet
def mem (s : ByteSet) (b : Byte) : Bool := s.bits.testBit b.toNat
def empty : ByteSet := ⟨0⟩
def single (b : Byte) : ByteSet := ⟨1 <<< b.toNat⟩
def union (s t : ByteSet) : ByteSet := ⟨s.bits ||| t.bits⟩
def inter (s t : ByteSet) : ByteSet := ⟨s.bits &&& t.bits⟩
/-- all byte values below `n` -/
def below (n : Nat) : ByteSet := ⟨2 ^ n - 1⟩
/-- `s \ t` -/
def diff (s t : ByteSet) : ByteSet := ⟨s.bits &&& (t.bits ^^^ (2 ^ 256 - 1))⟩
/-- complement relative to the character-set size `csize` (128 or 256) -/
def compl (csize : Nat) (s : ByteSet) : ByteSet := diff (below csize) s
def range (lo hi : Nat) : ByteSet := diff (below (hi + 1)) (below lo)
def ofList (l : List Nat) : ByteSet := ⟨l.foldl (fun acc b => acc ||| (1 <<< b)) 0⟩
def isEmpty (s : ByteSet) : Bool := s.bits % 2 ^ 256 == 0
end ByteSet

inductive Re where
  | empty
  | eps
  | cls (s : ByteSet)
  | cat (a b : Re)
  | alt (a b : Re)
  | star (a : Re)
deriving DecidableEq, Hashable, Repr, Ord, Inhabited

namespace Re

/-- The denotation: `r.Matches w` — the byte string `w` is in the language of `r`. -/
inductive Matches : Re → List Byte → Prop
  | eps : Matches .eps []
  | cls {s : ByteSet} {b : Byte} : s.mem b = true → Matches (.cls s) [b]
  | cat {a b : Re} {u v : List Byte} : Matches a u → Matches b v → Matches (.cat a b) (u ++ v)
  | altL {a b : Re} {w : List Byte} : Matches a w → Matches (.alt a b) w
  | altR {a b : Re} {w : List Byte} : Matches b w → Matches (.alt a b) w
  | starNil {a : Re} : Matches (.star a) []
  | starCons {a : Re} {u v : List Byte} : Matches a u → Matches (.star a) v → Matches (.star a) (u ++ v)

def nullable : Re → Bool
  | .empty => false
  | .eps => true
  | .cls _ => false
  | .cat a b => a.nullable && b.nullable
  | .alt a b => a.nullable || b.nullable
  | .star _ => true

/-- concatenation with the unit / zero laws applied on the left (keeps residuals small) -/
def mkCat (a b : Re) : Re :=
  match a with
  | .eps => b
  | .empty => .empty
  | _ => .cat a b

/-- Antimirov partial derivatives: the set (as a list) of residuals of `r` after byte `c`. -/
def pderiv (c : Byte) : Re → List Re
  | .empty => []
  | .eps => []
  | .cls s => if s.mem c then [.eps] else []
  | .alt a b => pderiv c a ++ pderiv c b
  | .cat a b => (pderiv c a).map (fun p => mkCat p b) ++ (if a.nullable then pderiv c b else [])
  | .star a => (pderiv c a).map (fun p => mkCat p (.star a))

/-! ### n-fold concatenation, used to define counted repetition -/

def pow (a : Re) : Nat → Re
  | 0 => .eps
  | n + 1 => .cat a (pow a n)

/-- `a{0,n}` -/
def upTo (a : Re) : Nat → Re
  | 0 => .eps
  | n + 1 => .alt .eps (.cat a (upTo a n))

/-- `a{lo,hi}`; `hi = none` means unbounded -/
def rep (a : Re) (lo : Nat) (hi : Option Nat) : Re :=
  match hi with
  | none => .cat (pow a lo) (.star a)
  | some h => if h < lo then .empty else .cat (pow a lo) (upTo a (h - lo))

def plus (a : Re) : Re := .cat a (.star a)
def opt (a : Re) : Re := .alt .eps a

end Re
end FlexVerif

import FlexVerif.Spec.Re
/-
  Spec/ReLemmas.lean — the partial-derivative matcher is exactly the denotation.
-/
namespace FlexVerif
namespace Re

theorem matches_empty_iff {w : List Byte} : Matches .empty w ↔ False := by
  constructor
  · intro h; cases h
  · intro h; exact h.elim

theorem matches_eps_iff {w : List Byte} : Matches .eps w ↔ w = [] := by
  constructor
  · intro h; cases h; rfl
  · intro h; subst h; exact .eps

theorem matches_cls_iff {s : ByteSet} {w : List Byte} :
    Matches (.cls s) w ↔ ∃ b, w = [b] ∧ s.mem b = true := by
  constructor
  · intro h; cases h with | cls hb => exact ⟨_, rfl, hb⟩
  · rintro ⟨b, rfl, hb⟩; exact .cls hb

theorem matches_cat_iff {a b : Re} {w : List Byte} :
    Matches (.cat a b) w ↔ ∃ u v, w = u ++ v ∧ Matches a u ∧ Matches b v := by
  constructor
  · intro h; cases h with | cat h1 h2 => exact ⟨_, _, rfl, h1, h2⟩
  · rintro ⟨u, v, rfl, h1, h2⟩; exact .cat h1 h2

theorem matches_alt_iff {a b : Re} {w : List Byte} :
    Matches (.alt a b) w ↔ Matches a w ∨ Matches b w := by
  constructor
  · intro h; cases h with
    | altL h => exact .inl h
    | altR h => exact .inr h
  · rintro (h | h)
    · exact .altL h
    · exact .altR h

theorem nullable_iff (r : Re) : r.nullable = true ↔ Matches r [] := by
  induction r with
  | empty => simp [nullable, matches_empty_iff]
  | eps => simp [nullable, matches_eps_iff]
  | cls s => simp [nullable, matches_cls_iff]
  | cat a b iha ihb =>
    simp only [nullable, Bool.and_eq_true, iha, ihb, matches_cat_iff]
    constructor
    · rintro ⟨h1, h2⟩; exact ⟨[], [], rfl, h1, h2⟩
    · rintro ⟨u, v, h, h1, h2⟩
      have hu : u = [] := by cases u with | nil => rfl | cons _ _ => simp at h
      have hv : v = [] := by cases v with | nil => rfl | cons _ _ => simp [hu] at h
      subst hu; subst hv; exact ⟨h1, h2⟩
  | alt a b iha ihb =>
    simp only [nullable, Bool.or_eq_true, iha, ihb, matches_alt_iff]
  | star a _ => simp only [nullable]; exact ⟨fun _ => .starNil, fun _ => trivial⟩

theorem mkCat_matches {a b : Re} {w : List Byte} :
    Matches (mkCat a b) w ↔ Matches (.cat a b) w := by
  unfold mkCat
  split
  · rw [matches_cat_iff]
    constructor
    · intro h; exact ⟨[], w, rfl, .eps, h⟩
    · rintro ⟨u, v, rfl, h1, h2⟩
      rw [matches_eps_iff] at h1; subst h1; simpa using h2
  · rw [matches_cat_iff]
    constructor
    · intro h; cases h
    · rintro ⟨u, v, _, h1, _⟩; cases h1
  · exact Iff.rfl

/-- a non-empty word in `a*` starts with a non-empty word of `a` -/
theorem star_cons_inv {a : Re} {c : Byte} {w : List Byte} :
    Matches (.star a) (c :: w) → ∃ u v, w = u ++ v ∧ Matches a (c :: u) ∧ Matches (.star a) v := by
  intro h
  generalize hr : Re.star a = r at h
  generalize hx : c :: w = x at h
  induction h generalizing w with
  | eps => cases hr
  | cls _ => cases hr
  | cat _ _ => cases hr
  | altL _ => cases hr
  | altR _ => cases hr
  | starNil => cases hx
  | @starCons a' u v h1 h2 _ ih2 =>
    cases hr
    cases u with
    | nil =>
      simp only [List.nil_append] at hx
      exact ih2 rfl hx
    | cons d u' =>
      simp only [List.cons_append, List.cons.injEq] at hx
      obtain ⟨rfl, rfl⟩ := hx
      exact ⟨u', v, rfl, h1, h2⟩

theorem matches_star_cons_iff {a : Re} {c : Byte} {w : List Byte} :
    Matches (.star a) (c :: w) ↔ ∃ u v, w = u ++ v ∧ Matches a (c :: u) ∧ Matches (.star a) v := by
  constructor
  · exact star_cons_inv
  · rintro ⟨u, v, rfl, h1, h2⟩
    have := Matches.starCons h1 h2
    simpa using this

/-- **Correctness of partial derivatives**: the residuals of `r` after `c` accept exactly the
    tails of the words of `r` that start with `c`. -/
theorem pderiv_correct (c : Byte) (r : Re) (w : List Byte) :
    (∃ p, p ∈ pderiv c r ∧ Matches p w) ↔ Matches r (c :: w) := by
  induction r generalizing w with
  | empty => simp [pderiv, matches_empty_iff]
  | eps => simp [pderiv, matches_eps_iff]
  | cls s =>
    simp only [pderiv, matches_cls_iff]
    constructor
    · rintro ⟨p, hp, hm⟩
      split at hp
      · simp only [List.mem_singleton] at hp; subst hp
        rw [matches_eps_iff] at hm; subst hm
        exact ⟨c, rfl, by assumption⟩
      · simp at hp
    · rintro ⟨b, hb, hs⟩
      simp only [List.cons.injEq] at hb
      obtain ⟨rfl, rfl⟩ := hb
      exact ⟨.eps, by simp [hs], .eps⟩
  | alt a b iha ihb =>
    simp only [pderiv, List.mem_append, matches_alt_iff, ← iha, ← ihb]
    constructor
    · rintro ⟨p, hp | hp, hm⟩
      · exact .inl ⟨p, hp, hm⟩
      · exact .inr ⟨p, hp, hm⟩
    · rintro (⟨p, hp, hm⟩ | ⟨p, hp, hm⟩)
      · exact ⟨p, .inl hp, hm⟩
      · exact ⟨p, .inr hp, hm⟩
  | cat a b iha ihb =>
    simp only [pderiv, List.mem_append, List.mem_map]
    constructor
    · rintro ⟨p, hp | hp, hm⟩
      · obtain ⟨q, hq, rfl⟩ := hp
        rw [mkCat_matches, matches_cat_iff] at hm
        obtain ⟨u, v, rfl, h1, h2⟩ := hm
        have := (iha u).mp ⟨q, hq, h1⟩
        have := Matches.cat this h2
        simpa using this
      · split at hp
        · rename_i hn
          have h1 := (nullable_iff a).mp hn
          have h2 := (ihb w).mp ⟨p, hp, hm⟩
          have := Matches.cat h1 h2
          simpa using this
        · simp at hp
    · intro h
      rw [matches_cat_iff] at h
      obtain ⟨u, v, huv, h1, h2⟩ := h
      cases u with
      | nil =>
        simp only [List.nil_append] at huv; subst huv
        obtain ⟨p, hp, hm⟩ := (ihb w).mpr h2
        have hn := (nullable_iff a).mpr h1
        exact ⟨p, .inr (by simp [hn, hp]), hm⟩
      | cons d u' =>
        simp only [List.cons_append, List.cons.injEq] at huv
        obtain ⟨rfl, rfl⟩ := huv
        obtain ⟨q, hq, hm⟩ := (iha u').mpr h1
        refine ⟨mkCat q b, .inl ⟨q, hq, rfl⟩, ?_⟩
        rw [mkCat_matches]
        exact .cat hm h2
  | star a iha =>
    simp only [pderiv, List.mem_map, matches_star_cons_iff]
    constructor
    · rintro ⟨p, ⟨q, hq, rfl⟩, hm⟩
      rw [mkCat_matches, matches_cat_iff] at hm
      obtain ⟨u, v, rfl, h1, h2⟩ := hm
      exact ⟨u, v, rfl, (iha u).mp ⟨q, hq, h1⟩, h2⟩
    · rintro ⟨u, v, rfl, h1, h2⟩
      obtain ⟨q, hq, hm⟩ := (iha u).mpr h1
      refine ⟨mkCat q (.star a), ⟨q, hq, rfl⟩, ?_⟩
      rw [mkCat_matches]
      exact .cat hm h2

/-! ### Counted repetition -/

/-- `w` is a concatenation of exactly `n` words of `a` -/
inductive Power (a : Re) : Nat → List Byte → Prop
  | zero : Power a 0 []
  | succ {n : Nat} {u v : List Byte} : Matches a u → Power a n v → Power a (n + 1) (u ++ v)

theorem pow_matches {a : Re} {n : Nat} {w : List Byte} : Matches (pow a n) w ↔ Power a n w := by
  induction n generalizing w with
  | zero =>
    simp only [pow, matches_eps_iff]
    constructor
    · rintro rfl; exact .zero
    · intro h; cases h; rfl
  | succ n ih =>
    simp only [pow, matches_cat_iff]
    constructor
    · rintro ⟨u, v, rfl, h1, h2⟩; exact .succ h1 (ih.mp h2)
    · intro h; cases h with | succ h1 h2 => exact ⟨_, _, rfl, h1, ih.mpr h2⟩

theorem star_matches {a : Re} {w : List Byte} : Matches (.star a) w ↔ ∃ n, Power a n w := by
  constructor
  · intro h
    generalize hr : Re.star a = r at h
    induction h with
    | eps => cases hr
    | cls _ => cases hr
    | cat _ _ => cases hr
    | altL _ => cases hr
    | altR _ => cases hr
    | starNil => exact ⟨0, .zero⟩
    | starCons h1 _ _ ih2 =>
      cases hr
      obtain ⟨n, hn⟩ := ih2 rfl
      exact ⟨n + 1, .succ h1 hn⟩
  · rintro ⟨n, hn⟩
    induction hn with
    | zero => exact .starNil
    | succ h1 _ ih => exact .starCons h1 ih

theorem upTo_matches {a : Re} {n : Nat} {w : List Byte} :
    Matches (upTo a n) w ↔ ∃ k, k ≤ n ∧ Power a k w := by
  induction n generalizing w with
  | zero =>
    simp only [upTo, matches_eps_iff]
    constructor
    · rintro rfl; exact ⟨0, Nat.le_refl _, .zero⟩
    · rintro ⟨k, hk, hp⟩
      have : k = 0 := by omega
      subst this; cases hp; rfl
  | succ n ih =>
    simp only [upTo, matches_alt_iff, matches_eps_iff, matches_cat_iff]
    constructor
    · rintro (rfl | ⟨u, v, rfl, h1, h2⟩)
      · exact ⟨0, by omega, .zero⟩
      · obtain ⟨k, hk, hp⟩ := ih.mp h2
        exact ⟨k + 1, by omega, .succ h1 hp⟩
    · rintro ⟨k, hk, hp⟩
      cases hp with
      | zero => exact .inl rfl
      | succ h1 h2 => exact .inr ⟨_, _, rfl, h1, ih.mpr ⟨_, by omega, h2⟩⟩

theorem power_add {a : Re} {m n : Nat} {u v : List Byte} :
    Power a m u → Power a n v → Power a (m + n) (u ++ v) := by
  intro h1 h2
  induction h1 with
  | zero => simpa using h2
  | @succ k x y hx _ ih =>
    have := Power.succ hx ih
    rw [List.append_assoc]
    have e : k + 1 + n = (k + n) + 1 := by omega
    rw [e]; exact this

theorem power_split {a : Re} {m n : Nat} {w : List Byte} :
    Power a (m + n) w → ∃ u v, w = u ++ v ∧ Power a m u ∧ Power a n v := by
  induction m generalizing w with
  | zero => intro h; exact ⟨[], w, rfl, .zero, by simpa using h⟩
  | succ m ih =>
    intro h
    have e : m + 1 + n = (m + n) + 1 := by omega
    rw [e] at h
    cases h with
    | succ h1 h2 =>
      obtain ⟨u, v, rfl, hu, hv⟩ := ih h2
      exact ⟨_ ++ u, v, by simp, .succ h1 hu, hv⟩

/-- **Counted repetition** `a{lo,hi}` denotes the words that are `k`-fold concatenations of
    words of `a` for some `lo ≤ k ≤ hi` (`hi = none`: no upper bound). -/
theorem rep_matches {a : Re} {lo : Nat} {hi : Option Nat} {w : List Byte} :
    Matches (rep a lo hi) w ↔ ∃ k, lo ≤ k ∧ (∀ h, hi = some h → k ≤ h) ∧ Power a k w := by
  unfold rep
  cases hi with
  | none =>
    simp only [matches_cat_iff, pow_matches, star_matches]
    constructor
    · rintro ⟨u, v, rfl, h1, n, h2⟩
      exact ⟨lo + n, by omega, by simp, power_add h1 h2⟩
    · rintro ⟨k, hk, _, hp⟩
      obtain ⟨n, rfl⟩ : ∃ n, k = lo + n := ⟨k - lo, by omega⟩
      obtain ⟨u, v, rfl, hu, hv⟩ := power_split hp
      exact ⟨u, v, rfl, hu, n, hv⟩
  | some h =>
    show Matches (if h < lo then Re.empty else _) w ↔ _
    split
    · rename_i hlt
      rw [matches_empty_iff, false_iff]
      rintro ⟨k, hk, hh, _⟩
      have := hh h rfl
      omega
    · rename_i hge
      rw [matches_cat_iff]
      constructor
      · rintro ⟨u, v, rfl, h1, h2⟩
        rw [pow_matches] at h1
        obtain ⟨n, hn, h2⟩ := upTo_matches.mp h2
        refine ⟨lo + n, by omega, ?_, power_add h1 h2⟩
        intro h' e; cases e; omega
      · rintro ⟨k, hk, hh, hp⟩
        have := hh h rfl
        obtain ⟨n, rfl⟩ : ∃ n, k = lo + n := ⟨k - lo, by omega⟩
        obtain ⟨u, v, rfl, hu, hv⟩ := power_split hp
        exact ⟨u, v, rfl, pow_matches.mpr hu, upTo_matches.mpr ⟨n, by omega, hv⟩⟩

theorem plus_matches {a : Re} {w : List Byte} :
    Matches (plus a) w ↔ ∃ k, 1 ≤ k ∧ Power a k w := by
  unfold plus
  rw [matches_cat_iff]
  constructor
  · rintro ⟨u, v, rfl, h1, h2⟩
    obtain ⟨n, hn⟩ := star_matches.mp h2
    exact ⟨n + 1, by omega, .succ h1 hn⟩
  · rintro ⟨k, hk, hp⟩
    cases hp with
    | zero => omega
    | succ h1 h2 => exact ⟨_, _, rfl, h1, star_matches.mpr ⟨_, h2⟩⟩

theorem opt_matches {a : Re} {w : List Byte} : Matches (opt a) w ↔ w = [] ∨ Matches a w := by
  unfold opt; rw [matches_alt_iff, matches_eps_iff]

end Re
end FlexVerif

namespace FlexVerif
namespace Re

/-- the byte sets occurring in a regex -/
def clsSets : Re → List ByteSet
  | .empty => []
  | .eps => []
  | .cls s => [s]
  | .cat a b => clsSets a ++ clsSets b
  | .alt a b => clsSets a ++ clsSets b
  | .star a => clsSets a

/-- two bytes that no set of `r` tells apart have the same partial derivatives -/
theorem pderiv_congr (c c' : Byte) (r : Re) (h : ∀ s ∈ r.clsSets, s.mem c = s.mem c') :
    pderiv c r = pderiv c' r := by
  induction r with
  | empty => rfl
  | eps => rfl
  | cls s => simp only [pderiv]; rw [h s (by simp [clsSets])]
  | cat a b iha ihb =>
    simp only [clsSets, List.mem_append] at h
    simp only [pderiv]
    rw [iha (fun s hs => h s (.inl hs)), ihb (fun s hs => h s (.inr hs))]
  | alt a b iha ihb =>
    simp only [clsSets, List.mem_append] at h
    simp only [pderiv]
    rw [iha (fun s hs => h s (.inl hs)), ihb (fun s hs => h s (.inr hs))]
  | star a iha =>
    simp only [clsSets] at h
    simp only [pderiv]
    rw [iha h]

end Re
end FlexVerif

import FlexVerif.M4.Quote
/-
  M4/QuoteProofs.lean — user code protected by scheme A comes out of m4 byte for byte.
-/
namespace FlexVerif.M4

theorem unq_succ_char (d : Nat) (c c2 : UInt8) (r : List UInt8)
    (h1 : ¬ (c = LB ∧ c2 = LB)) (h2 : ¬ (c = RB ∧ c2 = RB)) :
    unq (d + 1) (c :: c2 :: r) = c :: unq (d + 1) (c2 :: r) := by
  rw [unq]; simp [h1, h2]

theorem unq_one_close (r : List UInt8) : unq 1 (RB :: RB :: r) = unq 0 r := by
  rw [unq]; simp [LB, RB]

theorem unq_zero_open (r : List UInt8) : unq 0 (LB :: LB :: r) = unq 1 r := by
  rw [unq]; simp

theorem unq_zero_char (c c2 : UInt8) (r : List UInt8) (h1 : ¬ (c = LB ∧ c2 = LB)) (h2 : isIdent c = false) :
    unq 0 (c :: c2 :: r) = c :: unq 0 (c2 :: r) := by
  rw [unq]; simp [h1, h2]

theorem unq_zero_rb (r : List UInt8) : unq 0 (RB :: r) = RB :: unq 0 r := by
  cases r with
  | nil => rw [unq, unq]; simp [isIdent, RB]
  | cons c2 r => exact unq_zero_char RB c2 r (by simp [LB, RB]) (by decide)

/-- the escape of `[[` yields `[[` and leaves m4 inside the quotes -/
theorem unq_QS_A (X : List UInt8) : unq 1 (QS_A ++ X) = LB :: LB :: unq 1 X := by
  simp only [QS_A, List.cons_append, List.nil_append]
  rw [unq_succ_char 0 LB RB _ (by simp [LB, RB]) (by simp [LB, RB])]
  rw [unq_one_close, unq_zero_open]
  rw [unq_succ_char 0 LB RB _ (by simp [LB, RB]) (by simp [LB, RB])]
  rw [unq_one_close, unq_zero_open]

/-- the escape of `]]` yields `]]` and leaves m4 inside the quotes -/
theorem unq_QE_A (X : List UInt8) : unq 1 (QE_A ++ X) = RB :: RB :: unq 1 X := by
  simp only [QE_A, List.cons_append, List.nil_append]
  rw [unq_one_close, unq_zero_rb, unq_zero_open, unq_one_close, unq_zero_rb, unq_zero_open]

theorem escA_head (c : UInt8) (r : List UInt8) : ∃ t, escA (c :: r) = c :: t := by
  cases r with
  | nil => exact ⟨[], rfl⟩
  | cons c2 r =>
    unfold escA esc
    split
    · rename_i h; exact ⟨_, by simp [QS_A, h.1]; rfl⟩
    · split
      · rename_i h; exact ⟨_, by simp [QE_A, h.1]; rfl⟩
      · exact ⟨_, rfl⟩

/-- **Scheme A is the identity after m4**: for every byte string `code` (whatever it contains:
    `[[`, `]]`, `]]]`, m4 macro names, `$1`, backquotes, …) the text `[[` escA(code) `]]` followed
    by anything is expanded by m4 to exactly `code` followed by the expansion of what follows. -/
theorem unq_escA (code tail : List UInt8) :
    unq 1 (escA code ++ RB :: RB :: tail) = code ++ unq 0 tail := by
  unfold escA
  fun_induction esc QS_A QE_A code with
  | case1 => simp [unq_one_close]
  | case2 c =>
    simp only [List.cons_append, List.nil_append]
    by_cases hc : c = RB
    · subst hc
      rw [unq_one_close, unq_zero_rb]
    · rw [unq_succ_char 0 c RB _ (by simp [LB, RB]) (by simp [hc]), unq_one_close]
  | case3 c c2 r h ih =>
    rw [List.append_assoc, unq_QS_A, ih, h.1, h.2]; rfl
  | case4 c c2 r h1 h ih =>
    rw [List.append_assoc, unq_QE_A, ih, h.1, h.2]; rfl
  | case5 c c2 r h1 h2 ih =>
    obtain ⟨t, ht⟩ := escA_head c2 r
    unfold escA at ht
    rw [ht] at ih ⊢
    simp only [List.cons_append] at ih ⊢
    rw [unq_succ_char 0 c c2 _ h1 h2, ih]

/-- non-vacuity / example: the m4 quote sequences themselves survive -/
example : unq 1 (escA [LB, LB, RB, RB, RB] ++ [RB, RB]) = [LB, LB, RB, RB, RB] := by
  have := unq_escA [LB, LB, RB, RB, RB] []
  simpa [unq] using this

/-! ### scheme B (`%top`, user-code section) -/

theorem unq_zero_noop (c : UInt8) (r : List UInt8) (hc : isIdent c = false) :
    unq 0 (NOOP ++ c :: r) = unq 0 (c :: r) := by
  simp only [NOOP, List.cons_append, List.nil_append]
  rw [unq]
  have i77 : isIdent 77 = true := by decide
  have i52 : isIdent 52 = true := by decide
  have i95 : isIdent 95 = true := by decide
  have i89 : isIdent 89 = true := by decide
  have i78 : isIdent 78 = true := by decide
  have i79 : isIdent 79 = true := by decide
  have i80 : isIdent 80 = true := by decide
  have hw : List.takeWhile isIdent (77 :: 52 :: 95 :: 89 :: 89 :: 95 :: 78 :: 79 :: 79 :: 80 :: c :: r) =
      [77, 52, 95, 89, 89, 95, 78, 79, 79, 80] := by
    simp only [List.takeWhile_cons, i77, i52, i95, i89, i78, i79, i80, hc, if_true]
    rfl
  have hd : List.dropWhile isIdent (52 :: 95 :: 89 :: 89 :: 95 :: 78 :: 79 :: 79 :: 80 :: c :: r) = c :: r := by
    simp only [List.dropWhile_cons, i52, i95, i89, i78, i79, i80, hc, if_true]
    rfl
  have hne : ¬ ((77 : UInt8) = LB ∧ (52 : UInt8) = LB) := by decide
  simp only [hne, if_false, i77, if_true, hw, hd]
  simp [NOOP]

theorem unq_zero_lb_noop (r : List UInt8) : unq 0 (LB :: (NOOP ++ r)) = LB :: unq 0 (NOOP ++ r) := by
  simp only [NOOP, List.cons_append]
  exact unq_zero_char LB 77 _ (by simp [LB]) (by decide)

theorem unq_QS_B (X : List UInt8) : unq 1 (QS_B ++ X) = LB :: LB :: unq 1 X := by
  simp only [QS_B, List.append_assoc, List.cons_append, List.nil_append]
  rw [unq_one_close]
  rw [unq_zero_noop LB _ (by decide), unq_zero_lb_noop]
  rw [unq_zero_noop LB _ (by decide), unq_zero_lb_noop]
  rw [unq_zero_noop LB _ (by decide), unq_zero_open]

theorem unq_zero_rb_noop (r : List UInt8) : unq 0 (RB :: (NOOP ++ r)) = RB :: unq 0 (NOOP ++ r) :=
  unq_zero_rb _

theorem unq_QE_B (X : List UInt8) : unq 1 (QE_B ++ X) = RB :: RB :: unq 1 X := by
  simp only [QE_B, List.append_assoc, List.cons_append, List.nil_append]
  rw [unq_one_close]
  rw [unq_zero_noop RB _ (by decide), unq_zero_rb]
  rw [unq_zero_noop RB _ (by decide), unq_zero_rb]
  rw [unq_zero_noop LB _ (by decide), unq_zero_open]

/-- the head of escaped text: the code's own first byte, or `]` when the code starts with a pair -/
theorem escB_pair_or_head (c : UInt8) (r : List UInt8) :
    (∃ t, escB (c :: r) = c :: t) ∨ (∃ q Y, escB (c :: r) = RB :: RB :: q ++ Y ∧
        ∀ X, unq 1 (RB :: RB :: q ++ Y ++ X) = unq 0 (q ++ Y ++ X)) := by
  cases r with
  | nil => exact .inl ⟨[], rfl⟩
  | cons c2 r =>
    unfold escB esc
    split
    · right
      refine ⟨NOOP ++ [LB] ++ NOOP ++ [LB] ++ NOOP ++ [LB, LB], esc QS_B QE_B r, by simp [QS_B], ?_⟩
      intro X; simp [unq_one_close]
    · split
      · right
        refine ⟨NOOP ++ [RB] ++ NOOP ++ [RB] ++ NOOP ++ [LB, LB], esc QS_B QE_B r, by simp [QE_B], ?_⟩
        intro X; simp [unq_one_close]
      · exact .inl ⟨_, rfl⟩

/-- **Scheme B is the identity after m4** as well. -/
theorem unq_escB (code tail : List UInt8) :
    unq 1 (escB code ++ RB :: RB :: tail) = code ++ unq 0 tail := by
  unfold escB
  fun_induction esc QS_B QE_B code with
  | case1 => simp [unq_one_close]
  | case2 c =>
    simp only [List.cons_append, List.nil_append]
    by_cases hc : c = RB
    · subst hc
      rw [unq_one_close, unq_zero_rb]
    · rw [unq_succ_char 0 c RB _ (by simp [LB, RB]) (by simp [hc]), unq_one_close]
  | case3 c c2 r h ih =>
    rw [List.append_assoc, unq_QS_B, ih, h.1, h.2]; rfl
  | case4 c c2 r h1 h ih =>
    rw [List.append_assoc, unq_QE_B, ih, h.1, h.2]; rfl
  | case5 c c2 r h1 h2 ih =>
    rcases escB_pair_or_head c2 r with ⟨t, ht⟩ | ⟨q, Y, hq, hclose⟩
    · unfold escB at ht
      rw [ht] at ih ⊢
      simp only [List.cons_append] at ih ⊢
      rw [unq_succ_char 0 c c2 _ h1 h2, ih]
    · unfold escB at hq
      rw [hq] at ih ⊢
      have ih' := ih
      rw [hclose] at ih'
      by_cases hc : c = RB
      · subst hc
        simp only [List.cons_append, List.append_assoc] at ih' ⊢
        rw [unq_one_close, unq_zero_rb]
        rw [ih']
      · simp only [List.cons_append] at ih ⊢
        rw [unq_succ_char 0 c RB _ (by simp [LB, RB]) (by simp [hc]), ih]

end FlexVerif.M4

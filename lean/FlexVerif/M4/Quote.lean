/-
  M4/Quote.lean — how flex protects user code from m4, and why it comes out verbatim.

  flex wraps user code in m4 quotes `[[ ... ]]` and rewrites every `[[` / `]]` inside it
  (scan.l: ESCAPED_QSTART / ESCAPED_QEND in actions and code blocks; main.c: escaped_qstart /
  escaped_qend with M4_YY_NOOP in %top blocks and in the user-code section).  `unq` models what
  GNU m4 (-P, quotes changed to `[[` `]]`) does to such text: outermost quotes are stripped,
  nothing inside quotes is expanded, `M4_YY_NOOP` outside quotes expands to nothing.
-/
namespace FlexVerif.M4

abbrev LB : UInt8 := 91   -- '['
abbrev RB : UInt8 := 93   -- ']'

def isIdent (c : UInt8) : Bool :=
  (65 ≤ c && c ≤ 90) || (97 ≤ c && c ≤ 122) || (48 ≤ c && c ≤ 57) || c == 95

/-- "M4_YY_NOOP" -/
def NOOP : List UInt8 := [77, 52, 95, 89, 89, 95, 78, 79, 79, 80]

theorem dropWhile_length_le {α : Type} (p : α → Bool) (l : List α) : (l.dropWhile p).length ≤ l.length := by
  induction l with
  | nil => simp
  | cons a l ih => simp only [List.dropWhile_cons]; split <;> simp <;> omega

/-- m4's treatment of text at quote depth `d` -/
def unq (d : Nat) (s : List UInt8) : List UInt8 :=
  match d, s with
  | _, [] => []
  | 0, [c] => if isIdent c then (if [c] = NOOP then [] else [c]) else [c]
  | 0, c :: c2 :: r2 =>
    if c = LB ∧ c2 = LB then unq 1 r2
    else if isIdent c then
      let word := (c :: c2 :: r2).takeWhile isIdent
      let rest := (c2 :: r2).dropWhile isIdent
      (if word = NOOP then [] else word) ++ unq 0 rest
    else c :: unq 0 (c2 :: r2)
  | _ + 1, [c] => [c]
  | d + 1, c :: c2 :: r2 =>
    if c = LB ∧ c2 = LB then LB :: LB :: unq (d + 2) r2
    else if c = RB ∧ c2 = RB then (if d = 0 then unq 0 r2 else RB :: RB :: unq d r2)
    else c :: unq (d + 1) (c2 :: r2)
termination_by s.length
decreasing_by
  all_goals simp_wf
  all_goals try omega
  · have := dropWhile_length_le isIdent (c2 :: r2)
    simp only [List.length_cons] at this
    omega

/-- scheme A (actions, `%{ %}` blocks, indented code): `[[` ↦ `[]][[[]][[`, `]]` ↦ `]]][[]]][[` -/
def QS_A : List UInt8 := [LB, RB, RB, LB, LB, LB, RB, RB, LB, LB]
def QE_A : List UInt8 := [RB, RB, RB, LB, LB, RB, RB, RB, LB, LB]

/-- scheme B (`%top` blocks, user-code section): with `M4_YY_NOOP` between the brackets -/
def QS_B : List UInt8 := [RB, RB] ++ NOOP ++ [LB] ++ NOOP ++ [LB] ++ NOOP ++ [LB, LB]
def QE_B : List UInt8 := [RB, RB] ++ NOOP ++ [RB] ++ NOOP ++ [RB] ++ NOOP ++ [LB, LB]

/-- what the scanner does to user code: scanning left to right, every `[[` and `]]` is replaced -/
def esc (qs qe : List UInt8) : List UInt8 → List UInt8
  | [] => []
  | [c] => [c]
  | c :: c2 :: r =>
    if c = LB ∧ c2 = LB then qs ++ esc qs qe r
    else if c = RB ∧ c2 = RB then qe ++ esc qs qe r
    else c :: esc qs qe (c2 :: r)

def escA := esc QS_A QE_A
def escB := esc QS_B QE_B

end FlexVerif.M4

import FlexVerif.Spec.Nl
import FlexVerif.Driver.Case
import FlexVerif.Validator.Validate
import FlexVerif.Driver.Trace
import FlexVerif.Driver.TblCmd
import FlexVerif.Validator.Useful
import FlexVerif.M4.Quote
import FlexVerif.Driver.OptCmd
namespace FlexVerif

def showLabel : Option (List Int) → String
  | none => "bad"
  | some l => "[" ++ ",".intercalate (l.map toString) ++ "]"

def cmdValidate (c : Case) (budget : Nat) : IO UInt32 := do
  let S := c.ruleSet
  let T := c.tables
  let v := validate S T budget
  if v.ok then
    IO.println s!"verdict ok pairs={v.pairs}"
    return 0
  match v.cex with
  | some (w, d, q) =>
    IO.println s!"verdict cex word={hexOf w} len={w.length} dfa={showLabel (T.label d)} spec={showLabel (specLabel S T.reject q.accTags)} pairs={v.pairs}"
  | none =>
    if v.exhausted then IO.println s!"verdict exhausted pairs={v.pairs}"
    else IO.println s!"verdict notclosed pairs={v.pairs}"
  return 0

partial def readLines (h : IO.FS.Stream) (acc : Array String) : IO (Array String) := do
  let line ← h.getLine
  if line.isEmpty then return acc
  readLines h (acc.push (line.trimAscii.toString))

def mainImpl (args : List String) : IO UInt32 := do
  match args with
  | "optrun" :: _ => cmdOptRun
  | "validate" :: path :: rest =>
    let lines ← IO.FS.lines path
    let c := Case.ofLines lines
    for e in c.errors do IO.println s!"error {e}"
    if !c.errors.isEmpty then return 2
    let budget := (rest.head?.bind String.toNat?).getD 200000
    cmdValidate c budget
  | "trace" :: path :: rest =>
    let lines ← IO.FS.lines path
    let c := Case.ofLines lines
    for e in c.errors do IO.println s!"error {e}"
    if !c.errors.isEmpty then return 2
    cmdTrace c (rest.contains "--spec")
  | "eolflags" :: path :: _ =>
    -- per rule: can its text / its whole match contain a newline (Re.canNl, exact by canNl_iff),
    -- and what the emitted yy_rule_can_match_eol says
    let lines ← IO.FS.lines path
    let c := Case.ofLines lines
    for e in c.errors do IO.println s!"error {e}"
    if !c.errors.isEmpty then return 2
    let S := c.ruleSet
    let T := c.tables
    let mut i := 1
    for r in S.rules do
      IO.println s!"rule {i} head={if r.head.canNl then 1 else 0} full={if r.full.canNl then 1 else 0} flag={T.canEol.getD i (-1)}"
      i := i + 1
    -- (the default rule is the last rule of `S.rules`)
    return 0
  | "bufrun" :: path :: _ =>
    let lines ← IO.FS.lines path
    let c := Case.ofLines lines
    for e in c.errors do IO.println s!"error {e}"
    if !c.errors.isEmpty then return 2
    cmdBufRun c
  | "useful" :: path :: rest =>
    let lines ← IO.FS.lines path
    let c := Case.ofLines lines
    for e in c.errors do IO.println s!"error {e}"
    if !c.errors.isEmpty then return 2
    let S := c.ruleSet
    let budget := (rest.head?.bind String.toNat?).getD 20000
    let classes := groupBySig S.allSets (bytesBelow c.csize)
    let (cert, exhausted) := reach S classes budget
    if exhausted then
      IO.println s!"useful exhausted states={cert.length}"
      return 0
    let ok := certOK S c.csize classes cert
    let us := (usefulRules cert).mergeSort (· ≤ ·)
    IO.println s!"useful certok={if ok then 1 else 0} states={cert.length} rules={" ".intercalate (us.map toString)}"
    return 0
  | "m4esc" :: scheme :: hex :: _ =>
    let code := parseHex hex
    let e := if scheme == "B" then M4.escB code else M4.escA code
    IO.println (hexOf e)
    IO.println (hexOf (M4.unq 1 (e ++ [93, 93])))
    return 0
  | "m4esc" :: _ :: [] =>
    IO.println ""
    IO.println ""
    return 0
  | "tbl-dump" :: path :: _ => cmdTblDump path
  | "tbl-load" :: path :: key :: _ => cmdTblLoad path key
  | _ =>
    IO.eprintln "usage: fvdriver validate <case> [budget] | trace <case> [--spec]"
    return 2

end FlexVerif

def main (args : List String) : IO UInt32 := FlexVerif.mainImpl args

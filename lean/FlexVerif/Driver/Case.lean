import FlexVerif.Driver.Parse
/-
  Driver/Case.lean — a case file: rule set (abstract syntax), emitted tables, input, scripts.
-/
namespace FlexVerif

structure RawRule where
  scs : List Nat := []
  allSc : Bool := false
  bol : Bool := false
  var : Bool := false
  head : Option Pat := none
  trail : Option Pat := none
deriving Inhabited

structure Case where
  csize : Nat := 256
  nsc : Nat := 1
  excl : List Bool := [false]
  caseIns : Bool := false
  rules : Array RawRule := #[]
  tables : Tables := {}
  input : List UInt8 := []
  extra : Array (String × List String) := #[]
  errors : Array String := #[]
deriving Inhabited

def kv (w : String) : String × String :=
  match w.splitOn "=" with
  | [k, v] => (k, v)
  | _ => (w, "")

def parseRuleHdr (ws : List String) : RawRule := Id.run do
  let mut r : RawRule := {}
  for w in ws do
    let (k, v) := kv w
    if k == "scs" then
      r := { r with scs := if v == "-" then [] else (v.splitOn ",").filterMap String.toNat? }
    else if k == "all" then r := { r with allSc := v == "1" }
    else if k == "bol" then r := { r with bol := v == "1" }
    else if k == "var" then r := { r with var := v == "1" }
  return r

def setArr (T : Tables) (name : String) (a : Array Int) : Tables :=
  match name with
  | "accept" => { T with accept := a }
  | "acclist" => { T with acclist := a }
  | "ec" => { T with ec := a }
  | "meta" => { T with metaEc := a }
  | "base" => { T with base := a }
  | "def" => { T with deflt := a }
  | "nxt" => { T with nxt := a }
  | "chk" => { T with chk := a }
  | "NUL_trans" => { T with nulTrans := a, hasNulTrans := true }
  | "transition_v" => { T with transV := a }
  | "transition_n" => { T with transN := a }
  | "start_state_list" => { T with startList := a }
  | "rule_can_match_eol" => { T with canEol := a }
  | _ => T

def setConst (T : Tables) (name : String) (v : Int) : Tables :=
  match name with
  | "YY_NUM_RULES" => { T with numRules := v.toNat }
  | "YY_JAMBASE" => { T with jamBase := v }
  | "YY_JAMSTATE" => { T with jamState := v }
  | "YY_NUL_EC" => { T with nulEc := v }
  | _ => T

def Case.addLine (c : Case) (line : String) : Case :=
  let ws := (line.splitOn " ").filter (· != "")
  match ws with
  | [] => c
  | "csize" :: n :: _ =>
    let k := n.toNat?.getD 256
    { c with csize := k, tables := { c.tables with csize := k } }
  | "nsc" :: n :: _ => { c with nsc := n.toNat?.getD 1 }
  | "excl" :: bs => { c with excl := bs.map (· == "1") }
  | "caseins" :: b :: _ => { c with caseIns := b == "1" }
  | "rule" :: rest => { c with rules := c.rules.push (parseRuleHdr rest) }
  | "head" :: _ =>
    let body := (line.drop 4).toString
    match parsePat body with
    | some p => { c with rules := c.rules.modify (c.rules.size - 1) fun r => { r with head := some p } }
    | none => { c with errors := c.errors.push s!"bad head: {body}" }
  | "trail" :: _ =>
    let body := (line.drop 5).toString
    match parsePat body with
    | some p => { c with rules := c.rules.modify (c.rules.size - 1) fun r => { r with trail := some p } }
    | none => { c with errors := c.errors.push s!"bad trail: {body}" }
  | "tbl" :: rest =>
    let T := rest.foldl (fun (T : Tables) w =>
      let (k, v) := kv w
      match k with
      | "kind" => { T with kind := if v == "full" then .full else if v == "fast" then .fast else .compressed }
      | "ecs" => { T with useEcs := v == "1" }
      | "mecs" => { T with useMecs := v == "1" }
      | "reject" => { T with reject := v == "1" }
      | _ => T) c.tables
    { c with tables := T }
  | "const" :: name :: v :: _ => { c with tables := setConst c.tables name (v.toInt?.getD 0) }
  | "arr" :: name :: vals => { c with tables := setArr c.tables name (parseInts vals) }
  | "row" :: vals => { c with tables := { c.tables with nxt2 := c.tables.nxt2.push (parseInts vals) } }
  | "in" :: h :: _ => { c with input := parseHex h }
  | "in" :: [] => { c with input := [] }
  | k :: rest => { c with extra := c.extra.push (k, rest) }

def Case.ofLines (lines : Array String) : Case :=
  lines.foldl (fun c l => c.addLine l) {}

/-- the rule set of a case, with the meaning of each pattern given by `Pat.toRe` -/
def Case.ruleSet (c : Case) : RuleSet :=
  let env : Env := { csize := c.csize }
  let f : Flags := { caseIns := c.caseIns }
  let rules := c.rules.toList.map fun r =>
    let h := (r.head.getD (.str [])).toRe env f
    let full := match r.trail with
      | none => h
      | some t => Re.cat h (t.toRe env f)
    ({ scs := r.scs, allSc := r.allSc, bol := r.bol, full := full, head := h, varTrail := r.var } : Rule)
  { nsc := c.nsc, exclusive := c.excl, rules := rules, csize := c.csize }

end FlexVerif

import FlexVerif.Ser.Codec
namespace FlexVerif
open Ser

def bytesToString (bs : List UInt8) : String := String.ofList (bs.map fun b => Char.ofNat b.toNat)

partial def dumpSets (bs : List UInt8) (idx : Nat) : IO Unit := do
  if bs.isEmpty then return
  match decSet bs with
  | none => IO.println s!"set {idx} undecodable remaining={bs.length}"
  | some (s, rest) =>
    let consumed := bs.length - rest.length
    let re := encSet s
    let same := re == bs.take consumed
    IO.println s!"set {idx} name={bytesToString s.name} version={bytesToString s.version} bytes={consumed} tables={s.tables.length} reencode={if same then "identical" else "DIFFERENT"}"
    for t in s.tables do
      let vals := t.data.map fun v => toString (signedOf t.width v)
      IO.println s!"tbl {t.id} {t.flags} {t.hilen} {t.lolen} : {" ".intercalate vals}"
    dumpSets rest (idx + 1)

def cmdTblDump (path : String) : IO UInt32 := do
  let data ← IO.FS.readBinFile path
  dumpSets data.toList 0
  return 0

/-- outcome of loading set `key` from a file (model of `yytables_fload`) -/
def cmdTblLoad (path : String) (key : String) : IO UInt32 := do
  let data ← IO.FS.readBinFile path
  let k := key.toList.map fun c => UInt8.ofNat c.toNat
  match findSet k (data.size + 1) data.toList with
  | some s => IO.println s!"load ok tables={s.tables.length}"
  | none => IO.println "load fail"
  return 0

end FlexVerif

import FlexVerif.Spec.Rules
import FlexVerif.Validator.Tables
/-
  Driver/Parse.lean — reading case files (line protocol).  Not part of any theorem.
-/
namespace FlexVerif

inductive Sx
  | atom (s : String)
  | list (l : List Sx)
deriving Repr, Inhabited

def tokenize (s : String) : List String := Id.run do
  let mut out : Array String := #[]
  let mut cur := ""
  for ch in s.toList do
    if ch == '(' || ch == ')' then
      if cur != "" then out := out.push cur; cur := ""
      out := out.push (String.singleton ch)
    else if ch == ' ' || ch == '\t' || ch == '\n' || ch == '\r' then
      if cur != "" then out := out.push cur; cur := ""
    else cur := cur.push ch
  if cur != "" then out := out.push cur
  return out.toList

mutual
partial def parseSx : List String → Option (Sx × List String)
  | [] => none
  | "(" :: rest => do
    let (l, rest') ← parseSxList rest
    some (.list l, rest')
  | ")" :: _ => none
  | a :: rest => some (.atom a, rest)
partial def parseSxList : List String → Option (List Sx × List String)
  | [] => none
  | ")" :: rest => some ([], rest)
  | toks => do
    let (x, rest) ← parseSx toks
    let (xs, rest') ← parseSxList rest
    some (x :: xs, rest')
end

def Sx.nat? : Sx → Option Nat
  | .atom s => s.toNat?
  | _ => none

def posixOf : String → Option PosixCls
  | "alnum" => some .alnum | "alpha" => some .alpha | "blank" => some .blank
  | "cntrl" => some .cntrl | "digit" => some .digit | "graph" => some .graph
  | "lower" => some .lower | "print" => some .print | "punct" => some .punct
  | "space" => some .space | "upper" => some .upper | "xdigit" => some .xdigit
  | _ => none

def sxItem : Sx → Option ClsItem
  | .list [.atom "c", n] => do some (.ch (← n.nat?))
  | .list [.atom "r", a, b] => do some (.range (← a.nat?) (← b.nat?))
  | .list [.atom "p", .atom k, n] => do some (.posix (← posixOf k) ((← n.nat?) != 0))
  | _ => none

def sxBracket : Sx → Option Bracket
  | .list (.atom "br" :: neg :: items) => do
    let n ← neg.nat?
    let its ← items.mapM sxItem
    some { neg := n != 0, items := its }
  | _ => none

partial def sxClsExpr : Sx → Option ClsExpr
  | .list [.atom "diff", a, b] => do some (.diff (← sxClsExpr a) (← sxBracket b))
  | .list [.atom "union", a, b] => do some (.union (← sxClsExpr a) (← sxBracket b))
  | s => do some (.br (← sxBracket s))

partial def sxPat : Sx → Option Pat
  | .atom "dot" => some .dot
  | .list [.atom "chr", n] => do some (.chr (← n.nat?))
  | .list [.atom "cls", e] => do some (.cls (← sxClsExpr e))
  | .list (.atom "str" :: cs) => do some (.str (← cs.mapM Sx.nat?))
  | .list [.atom "cat", a, b] => do some (.cat (← sxPat a) (← sxPat b))
  | .list [.atom "alt", a, b] => do some (.alt (← sxPat a) (← sxPat b))
  | .list [.atom "star", a] => do some (.star (← sxPat a))
  | .list [.atom "plus", a] => do some (.plus (← sxPat a))
  | .list [.atom "opt", a] => do some (.opt (← sxPat a))
  | .list [.atom "rep", a, lo, .atom "inf"] => do some (.rep (← sxPat a) (← lo.nat?) none)
  | .list [.atom "rep", a, lo, hi] => do some (.rep (← sxPat a) (← lo.nat?) (some (← hi.nat?)))
  | .list [.atom "grp", si, ci, ss, cs, a] => do
    some (.group ((← si.nat?) != 0) ((← ci.nat?) != 0) ((← ss.nat?) != 0) ((← cs.nat?) != 0) (← sxPat a))
  | _ => none

def parsePat (s : String) : Option Pat := do
  let (sx, rest) ← parseSx (tokenize s)
  if rest.isEmpty then sxPat sx else none

def parseInts (ws : List String) : Array Int :=
  (ws.filterMap String.toInt?).toArray

def hexVal (c : Char) : Nat :=
  if '0' ≤ c && c ≤ '9' then c.toNat - 48
  else if 'a' ≤ c && c ≤ 'f' then c.toNat - 87
  else if 'A' ≤ c && c ≤ 'F' then c.toNat - 55 else 0

def parseHex (s : String) : List UInt8 :=
  let rec go : List Char → List UInt8
    | a :: b :: rest => UInt8.ofNat (hexVal a * 16 + hexVal b) :: go rest
    | _ => []
  go s.toList

def hexOf (bs : List UInt8) : String :=
  let d (n : Nat) : Char := if n < 10 then Char.ofNat (48 + n) else Char.ofNat (87 + n)
  String.mk (bs.flatMap fun b => [d (b.toNat / 16), d (b.toNat % 16)])

end FlexVerif

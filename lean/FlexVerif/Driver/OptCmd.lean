/-
  Driver/OptCmd.lean — `fvdriver optrun`: the regenerated option model run on option lists.
  One line in: the `%option` words in order (`name`, `noname`) and raw settings `field=value`
  (for what the grammar sets outside the <OPTION> rules: tables-file, emit, -C flags);
  one line out: `ok` / `err <message>` plus the warnings, and the final values of a few variables.
-/
import FlexVerif.Opt.Lang
import FlexVerif.Gen.Options
namespace FlexVerif
open FlexVerif.Opt FlexVerif.Gen.Options

def optInit : St := fun f => (defaults.lookup f).getD 0

def applyWord (st : St) (w : String) : Except String St :=
  match w.splitOn "=" with
  | [name, v] =>
    match fieldNames.findIdx? (· == name), v.toInt? with
    | some i, some k => .ok (upd st i k)
    | _, _ => .error s!"unknown setting {w}"
  | _ =>
    match optionEffects.find? (·.1 == w) with
    | some (_, on, _) => .ok (on.run st).st
    | none =>
      if w.startsWith "no" then
        match optionEffects.find? (·.1 == (w.drop 2).toString) with
        | some (_, _, off) => .ok (off.run st).st
        | none => .error s!"unknown option {w}"
      else .error s!"unknown option {w}"

def optLine (line : String) : String :=
  let ws := (line.splitOn " ").filter (· ≠ "")
  match ws.foldlM applyWord optInit with
  | .error e => s!"bad {e}"
  | .ok st =>
    let r := checkOptions.run st
    let ws := " ".intercalate (r.warns.map fun m => s!"warn[{msgs.getD m "?"}]")
    let fin := s!"csize={r.st F.csize} interactive={r.st F.interactive} array={r.st F.yytext_is_array}"
    match r.err with
    | some m => s!"err {msgs.getD m "?"}"
    | none =>
      -- readin(): the m4 symbols the skeleton gets to see
      let d := defineSymbols.run r.st
      match d.err with
      | some m => s!"ok {fin} {ws} readin-err[{msgs.getD m "?"}]"
      | none =>
        let syms := symbols.filterMap fun p => if d.st p.2 != 0 then some p.1 else none
        s!"ok {fin} {ws} syms={",".intercalate syms}"

partial def optLoop (h : IO.FS.Stream) : IO Unit := do
  let line ← h.getLine
  if line.isEmpty then return ()
  IO.println (optLine line.trimAscii.toString)
  optLoop h

def cmdOptRun : IO UInt32 := do
  optLoop (← IO.getStdin)
  return 0

end FlexVerif

import FlexVerif.Driver.Case
import FlexVerif.Runtime.Match
import FlexVerif.Runtime.BufTable
namespace FlexVerif

def parseOp (w : String) : Option Op :=
  let parts := w.splitOn ":"
  let a := (parts[1]? >>= String.toNat?).getD 0
  let b := (parts[2]? >>= String.toNat?).getD 0
  match parts.head! with
  | "lex" => some (.lex (a != 0)) | "less" => some (.less a) | "more" => some .more | "unput" => some (.unput a)
  | "input" => some .input | "reject" => some .reject | "begin" => some (.begin_ a)
  | "push" => some (.push a) | "pop" => some .pop | "top" => some .top | "start" => some .start
  | "setbol" => some (.setbol a) | "atbol" => some .atbol
  | "return" => some (.ret ((parts[1]? >>= String.toInt?).getD 0))
  | "terminate" => some .terminate | "getlineno" => some .getlineno | "setlineno" => some (.setlineno a)
  | "grab" => some .grab | "scanbytes" => some (.scanbytes a) | "scanstring" => some (.scanstring a)
  | "scanbuffer" => some (.scanbuffer a b) | "create" => some (.create a b) | "switch" => some (.switch a)
  | "pushbuf" => some (.pushbuf a) | "popbuf" => some .popbuf | "flush" => some (.flush a)
  | "flushcur" => some .flushcur | "delete" => some (.delete a) | "restart" => some (.restart a)
  | "newyyin" => some (.newyyin a) | "destroy" => some .destroy | "cont" => some .cont | "include_end" => some .includeEnd
  | _ => none

structure RunSpec where
  cfg : Cfg := {}
  srcs : Array (List UInt8) := #[]
  main : List Op := []
  acts : Array (List Op) := #[]
  wraps : List (Option Nat) := []
  eofDefault : List Op := []
  eacts : Array (List Op) := #[]
  maxEvents : Nat := 200000

def setAt {α : Type} (a : Array α) (i : Nat) (v : α) (dflt : α) : Array α :=
  let a := if a.size ≤ i then a ++ Array.replicate (i + 1 - a.size) dflt else a
  a.set! i v

def RunSpec.ofCase (c : Case) : RunSpec := Id.run do
  let mut r : RunSpec := {}
  for (k, ws) in c.extra do
    match k, ws with
    | "src", id :: rest => r := { r with srcs := setAt r.srcs (id.toNat?.getD 0) (parseHex (rest.head?.getD "")) [] }
    | "main", ops => r := { r with main := ops.filterMap parseOp }
    | "act", id :: ops => r := { r with acts := setAt r.acts (id.toNat?.getD 0) (ops.filterMap parseOp) [] }
    | "eact", id :: ops => r := { r with eacts := setAt r.eacts (id.toNat?.getD 0) (ops.filterMap parseOp) [] }
    | "eofact", ops => r := { r with eofDefault := ops.filterMap parseOp }
    | "wrap", ws => r := { r with wraps := ws.map fun w => if w == "-" then none else if w == "p" then some 1000000 else w.toNat? }
    | "yylmax", v :: _ => r := { r with cfg := { r.cfg with yylmax := v.toNat?.getD 0 } }
    | "chain", ws => r := { r with cfg := { r.cfg with actionOf := (ws.filterMap String.toNat?).toArray } }
    | "bolneeded", v :: _ => r := { r with cfg := { r.cfg with bolNeeded := v == "1" } }
    | "haslineno", v :: _ => r := { r with cfg := { r.cfg with hasLineno := v == "1" } }
    | "reentrant", v :: _ => r := { r with cfg := { r.cfg with reentrant := v == "1" } }
    | "logreads", v :: _ => r := { r with cfg := { r.cfg with logReads := v == "1" } }
    | "interactive", v :: _ => r := { r with cfg := { r.cfg with interactive := v == "1" } }
    | "eofscs", ws => r := { r with cfg := { r.cfg with eofScs := ws.filterMap String.toNat? } }
    | "maxevents", v :: _ => r := { r with maxEvents := v.toNat?.getD 200000 }
    | _, _ => pure ()
  return r

def Case.ruleInfos (c : Case) : Array RuleInfo :=
  let env : Env := { csize := c.csize }
  let f : Flags := { caseIns := c.caseIns }
  c.rules.map fun r =>
    { head := (r.head.getD (.str [])).toRe env f, trail := r.trail.map (·.toRe env f) }

def cmdTrace (c : Case) (useSpec : Bool) : IO UInt32 := do
  let rs := RunSpec.ofCase c
  let infos := c.ruleInfos
  let M := if useSpec then specMatcher c.ruleSet infos else tableMatcher c.tables infos
  let s0 : AState := { srcs := rs.srcs, wraps := rs.wraps, acts := rs.acts, eofDefault := rs.eofDefault, eacts := rs.eacts }
  let s := runMain M { rs.cfg with numRules := c.tables.numRules, srcTotal := (rs.srcs.getD 0 []).length }
    rs.maxEvents s0 rs.main
  let out := if s.out.size > rs.maxEvents then s.out.extract 0 rs.maxEvents |>.push "cap" else s.out
  let stdout ← IO.getStdout
  for l in out do stdout.putStrLn l
  return 0

/-! ### the buffer-level machine (Runtime/Buf.lean) on the emitted tables -/

/-- `bufrun`: the sizes of the read requests and the tokens, from buffer size, read schedule and
    source of the case file -/
def cmdBufRun (c : Case) : IO UInt32 := do
  let mut bufsize := 16384
  let mut sched : List Nat := []
  let mut src : List UInt8 := []
  let mut inter := false
  for (k, ws) in c.extra do
    match k, ws with
    | "bufsize", v :: _ => bufsize := v.toNat?.getD 16384
    | "sched", vs => sched := vs.filterMap String.toNat?
    | "src", "0" :: rest => src := parseHex (rest.head?.getD "")
    | "interactive", v :: _ => inter := v == "1"
    | _, _ => pure ()
  let D := tableDFA c.tables inter
  let st := Buf.run D (Buf.schedReader sched) (src.length + 2) (Buf.init bufsize src)
  let stdout ← IO.getStdout
  for e in st.out do
    match e with
    | .rq n => stdout.putStrLn s!"rq {n}"
    | .tok r t => stdout.putStrLn s!"m {r} {hexBytes t}"
    | .jammed => stdout.putStrLn "fatal jammed"
  return 0

end FlexVerif

import FlexVerif.Driver.Case
import FlexVerif.Runtime.Match
import FlexVerif.Runtime.BufTable
namespace FlexVerif

def parseOp (w : String) : Option Op :=
  let parts := w.splitOn ":"
  let a := (parts[1]? >>= String.toNat?).getD 0
  let b := (parts[2]? >>= String.toNat?).getD 0
  match parts.head! with
  | "lex" => some (.lex (a != 0)) | "less" => some (.less a) | "less3" => some (.less a) | "more" => some .more | "unput" => some (.unput a)
  | "input" => some .input | "reject" => some .reject | "begin" => some (.begin_ a)
  | "push" => some (.push a) | "pop" => some .pop | "top" => some .top | "start" => some .start
  | "setbol" => some (.setbol a) | "atbol" => some .atbol
  | "return" => some (.ret ((parts[1]? >>= String.toInt?).getD 0))
  | "terminate" => some .terminate | "getlineno" => some .getlineno | "setlineno" => some (.setlineno a)
  | "grab" => some .grab | "scanbytes" => some (.scanbytes a) | "scanstring" => some (.scanstring a)
  | "scanbuffer" => some (.scanbuffer a b) | "create" => some (.create a b) | "switch" => some (.switch a)
  | "pushbuf" => some (.pushbuf a) | "popbuf" => some .popbuf | "flush" => some (.flush a)
  | "flushcur" => some .flushcur | "delete" => some (.delete a) | "restart" => some (.restart a)
  | "newyyin" => some (.newyyin a) | "destroy" => some .destroy | "cont" => some .cont | "include_end" => some .includeEnd
  | _ => none

structure RunSpec where
  cfg : Cfg := {}
  srcs : Array (List UInt8) := #[]
  main : List Op := []
  acts : Array (List Op) := #[]
  wraps : List (Option Nat) := []
  eofDefault : List Op := []
  eacts : Array (List Op) := #[]
  maxEvents : Nat := 200000

def setAt {α : Type} (a : Array α) (i : Nat) (v : α) (dflt : α) : Array α :=
  let a := if a.size ≤ i then a ++ Array.replicate (i + 1 - a.size) dflt else a
  a.set! i v

def RunSpec.ofCase (c : Case) : RunSpec := Id.run do
  let mut r : RunSpec := {}
  for (k, ws) in c.extra do
    match k, ws with
    | "src", id :: rest => r := { r with srcs := setAt r.srcs (id.toNat?.getD 0) (parseHex (rest.head?.getD "")) [] }
    | "main", ops => r := { r with main := ops.filterMap parseOp }
    | "act", id :: ops => r := { r with acts := setAt r.acts (id.toNat?.getD 0) (ops.filterMap parseOp) [] }
    | "eact", id :: ops => r := { r with eacts := setAt r.eacts (id.toNat?.getD 0) (ops.filterMap parseOp) [] }
    | "eofact", ops => r := { r with eofDefault := ops.filterMap parseOp }
    | "wrap", ws => r := { r with wraps := ws.map fun w => if w == "-" then none else if w == "p" then some 1000000 else if w.startsWith "s" then (w.drop 1).toNat?.map (· + 2000000) else w.toNat? }
    | "yylmax", v :: _ => r := { r with cfg := { r.cfg with yylmax := v.toNat?.getD 0 } }
    | "chain", ws => r := { r with cfg := { r.cfg with actionOf := (ws.filterMap String.toNat?).toArray } }
    | "bolneeded", v :: _ => r := { r with cfg := { r.cfg with bolNeeded := v == "1" } }
    | "haslineno", v :: _ => r := { r with cfg := { r.cfg with hasLineno := v == "1" } }
    | "reentrant", v :: _ => r := { r with cfg := { r.cfg with reentrant := v == "1" } }
    | "logreads", v :: _ => r := { r with cfg := { r.cfg with logReads := v == "1" } }
    | "interactive", v :: _ => r := { r with cfg := { r.cfg with interactive := v == "1" } }
    | "eofscs", ws => r := { r with cfg := { r.cfg with eofScs := ws.filterMap String.toNat? } }
    | "maxevents", v :: _ => r := { r with maxEvents := v.toNat?.getD 200000 }
    | _, _ => pure ()
  return r

def Case.ruleInfos (c : Case) : Array RuleInfo :=
  let env : Env := { csize := c.csize }
  let f : Flags := { caseIns := c.caseIns }
  c.rules.map fun r =>
    { head := (r.head.getD (.str [])).toRe env f, trail := r.trail.map (·.toRe env f), var := r.var }

def cmdTrace (c : Case) (useSpec : Bool) : IO UInt32 := do
  let rs := RunSpec.ofCase c
  let infos := c.ruleInfos
  let M := if useSpec then specMatcher c.ruleSet infos else tableMatcher c.tables infos
  let s0 : AState := { srcs := rs.srcs, wraps := rs.wraps, acts := rs.acts, eofDefault := rs.eofDefault, eacts := rs.eacts }
  let s := runMain M { rs.cfg with numRules := c.tables.numRules, srcTotal := (rs.srcs.getD 0 []).length }
    rs.maxEvents s0 rs.main
  let out := if s.out.size > rs.maxEvents then s.out.extract 0 rs.maxEvents |>.push "cap" else s.out
  let stdout ← IO.getStdout
  for l in out do stdout.putStrLn l
  return 0

/-! ### the buffer-level machine (Runtime/Buf.lean) on the emitted tables -/

/-- what an action script does at the buffer level: `less:a` keeps `prefix + a mod (new part + 1)`
    characters (the harness's convention), `more` is yymore(); other operations do not touch the
    input (`none`: the script contains one that does — `bufrun` then has nothing to say) -/
def bufAct (ops : List Op) (pre : Nat) (text : List UInt8) : Option Buf.Act :=
  let rec go (ops : List Op) (len : Nat) (lessed : Option Nat) (more : Bool) : Option Buf.Act :=
    match ops with
    | [] => some (match lessed, more with
        | none, false => .plain
        | some n, false => .less n
        | none, true => .more
        | some n, true => .lessMore n)
    | .less a :: rest =>
      let n := pre + a % (len - pre + 1)
      go rest n (some n) more
    | .more :: rest => go rest len lessed true
    | .ret _ :: _ => go [] len lessed more       -- the action returns: the rest is not executed
    | .start :: rest => go rest len lessed more
    | .atbol :: rest => go rest len lessed more
    | .getlineno :: rest => go rest len lessed more
    | _ => none
  go ops text.length none false

/-- `bufrun`: the sizes of the read requests and the tokens, from buffer size, read schedule,
    source and action scripts of the case file -/
def cmdBufRun (c : Case) : IO UInt32 := do
  let rs := RunSpec.ofCase c
  let mut bufsize := 16384
  let mut sched : List Nat := []
  let mut inter := false
  for (k, ws) in c.extra do
    match k, ws with
    | "bufsize", v :: _ => bufsize := v.toNat?.getD 16384
    | "sched", vs => sched := vs.filterMap String.toNat?
    | "interactive", v :: _ => inter := v == "1"
    | _, _ => pure ()
  let src := rs.srcs.getD 0 []
  let D0 := tableDFA c.tables inter
  -- (speed only) whether a state has no outgoing transition is looked up, not recomputed per byte
  let deadArr : Array Bool := (Array.range (c.tables.accept.size + 2)).map fun n => D0.dead (.st (Int.ofNat n))
  let D : Buf.DFA DState := { D0 with dead := fun s => match s with
    | .st n => if 0 ≤ n && n.toNat < deadArr.size then deadArr[n.toNat]! else D0.dead s
    | s => D0.dead s }
  let dflt := c.tables.numRules
  -- the default rule's ECHO takes no script; a script the buffer level cannot express ends the run
  let unsupported := rs.acts.any fun ops => (bufAct ops 0 []).isNone
  if unsupported then
    IO.println "unsupported"
    return 0
  -- yymore(): the prefix length at the time of the action is known to `Buf.run`; `bufAct` needs it
  -- for the harness's relative `less` argument, so it is recovered from the previous action
  let script : Buf.Script := fun k r text =>
    if r == dflt then (.plain, (k / 4294967296) * 4294967296) else
    -- k encodes (script index, prefix length) as index * 2^32 + prefix
    let idx := k / 4294967296
    let pre := k % 4294967296
    let a := (bufAct (rs.acts.getD idx []) pre text).getD .plain
    let pre' := match a with
      | .more => text.length
      | .lessMore n => min n text.length
      | _ => 0
    (a, (idx + 1) * 4294967296 + pre')
  let st := Buf.run D (Buf.schedReader sched) script (2 * src.length + 4) 0 (Buf.init bufsize src)
  let stdout ← IO.getStdout
  for e in st.out do
    match e with
    | .rq n => stdout.putStrLn s!"rq {n}"
    | .tok r t => stdout.putStrLn s!"m {r} {hexBytes t}"
    | .jammed => stdout.putStrLn "fatal jammed"
  return 0

end FlexVerif

/-
  Imp/Lang.lean — a small imperative language with integer variables and one integer array, enough
  for the start-condition stack of the generated scanner (`yy_push_state`, `yy_pop_state`,
  `yy_top_state`, `yybegin`, `yystart`, the first-call initialisation of `yy_start`).
  `tools/fv/gen_startstack.py` translates those functions from a scanner flex has just generated
  (`Gen/StartStack.lean`); `Props/C05Stack.lean` proves that they implement a LIFO stack of start
  conditions for every sequence of calls, without ever indexing outside the allocated array.
-/
namespace FlexVerif.Imp

inductive Ex
  | lit (k : Int)
  | var (x : Nat)
  | add (a b : Ex) | sub (a b : Ex) | mul (a b : Ex)
  | div (a b : Ex)                 -- C division: toward zero
  | idx (i : Ex)                   -- the array, read
  | lt (a b : Ex) | le (a b : Ex) | eq (a b : Ex)
  | not (a : Ex) | and (a b : Ex) | or (a b : Ex)
  | cond (c a b : Ex)
  | tab (t : Nat) (i : Ex)         -- read-only table number t (yy_ec, yy_accept, yy_base, ...), read at index i
deriving Repr, Inhabited

inductive St
  | skip
  | assign (x : Nat) (e : Ex)
  | store (i e : Ex)               -- array[i] = e
  | growTo (n : Ex)                -- yyalloc / yyrealloc succeeded: the array has n elements now, the old ones kept,
                                   -- the new ones hold whatever the allocator left there (`garbage`)
  | zero (i n : Ex)                -- memset(array + i, 0, n elements)
  | call (f : Nat) (e : Ex)        -- a call of a function outside the model, with its argument: logged
  | scope (s : St)                 -- the body of an inlined function: `return` ends it
  | while_ (c : Ex) (b : St)       -- while (c) b
  | ite (c : Ex) (t e : St)
  | seq (a b : St)
  | fatal (m : Nat)                -- YY_FATAL_ERROR: does not return
  | ret (e : Ex)
  | read (dst max : Ex) (res : Nat) -- YY_INPUT(&array[dst], res, max): the reader outside the model puts at most `max`
                                   -- elements at array[dst...] and says in `res` how many
  | whileB (bound c : Ex) (b : St) -- while (c) b, where more than `bound` rounds are reported as `fuel` (loops over tables,
                                   -- whose length has nothing to do with the array's)
  | move (dst src n : Ex)          -- memmove(&array[dst], &array[src], n elements): as if through a temporary copy
deriving Repr, Inhabited

inductive Outcome
  | normal
  | fatal (m : Nat)
  | oob                            -- an index outside the array: undefined behaviour in C
  | returned (v : Int)
  | fuel                           -- a loop ran longer than the model allows (array length + 3 rounds)
deriving Repr, DecidableEq, Inhabited

structure State where
  vars : Nat → Int
  arr : List Int
  log : List (Nat × Int) := []

/-- what freshly allocated memory holds: not zero -/
def garbage : Int := 2989

def b2i (b : Bool) : Int := if b then 1 else 0

/-- read-only tables live in the (universally quantified) variables: table `t` has `vars (tabLen t)` elements,
    element `i` is `vars (tabCell t i)`; reading outside `0 ≤ i < length` is out of bounds -/
def tabLen (t : Nat) : Nat := 5000 + t
def tabCell (t i : Nat) : Nat := 10000 + i * 16 + t

/-- value of an expression; `none`: an array read out of bounds -/
def Ex.eval (s : State) : Ex → Option Int
  | .lit k => some k
  | .var x => some (s.vars x)
  | .add a b => do let x ← a.eval s; let y ← b.eval s; pure (x + y)
  | .sub a b => do let x ← a.eval s; let y ← b.eval s; pure (x - y)
  | .mul a b => do let x ← a.eval s; let y ← b.eval s; pure (x * y)
  | .div a b => do let x ← a.eval s; let y ← b.eval s; pure (Int.tdiv x y)
  | .idx i => do
      let k ← i.eval s
      if 0 ≤ k then s.arr[k.toNat]? else none
  | .lt a b => do let x ← a.eval s; let y ← b.eval s; pure (b2i (x < y))
  | .le a b => do let x ← a.eval s; let y ← b.eval s; pure (b2i (x ≤ y))
  | .eq a b => do let x ← a.eval s; let y ← b.eval s; pure (b2i (x == y))
  | .not a => do let x ← a.eval s; pure (b2i (x == 0))
  | .and a b => do let x ← a.eval s; let y ← b.eval s; pure (b2i (x != 0 && y != 0))
  | .or a b => do let x ← a.eval s; let y ← b.eval s; pure (b2i (x != 0 || y != 0))
  | .cond c a b => do let x ← c.eval s; if x != 0 then a.eval s else b.eval s
  | .tab t i => do
      let k ← i.eval s
      if 0 ≤ k ∧ k < s.vars (tabLen t) then some (s.vars (tabCell t k.toNat)) else none

/-- what the reader called by `read` supplies, as part of the (universally quantified) variables: it
    offers `vars inLen` elements (none if that is not positive), element `i` being `vars (inByte i)` -/
def inLen : Nat := 900
def inByte (i : Nat) : Nat := 901 + i

def setVar (s : State) (x : Nat) (v : Int) : State :=
  { s with vars := fun y => if y = x then v else s.vars y }

/-- `while`: at most `n` rounds -/
def loop (cond : State → Option Int) (body : State → State × Outcome) : Nat → State → State × Outcome
  | 0, s => (s, .fuel)
  | n + 1, s =>
    match cond s with
    | none => (s, .oob)
    | some v =>
      if v != 0 then
        match body s with
        | (s', .normal) => loop cond body n s'
        | r => r
      else (s, .normal)

def St.run : St → State → State × Outcome
  | .skip, s => (s, .normal)
  | .assign x e, s =>
    match e.eval s with
    | some v => (setVar s x v, .normal)
    | none => (s, .oob)
  | .store i e, s =>
    match i.eval s, e.eval s with
    | some k, some v =>
      if 0 ≤ k ∧ k.toNat < s.arr.length then ({ s with arr := s.arr.set k.toNat v }, .normal) else (s, .oob)
    | _, _ => (s, .oob)
  | .growTo n, s =>
    match n.eval s with
    | some k => ({ s with arr := s.arr ++ List.replicate (k.toNat - s.arr.length) garbage }, .normal)
    | none => (s, .oob)
  | .zero i n, s =>
    match i.eval s, n.eval s with
    | some k, some c =>
      if 0 ≤ k ∧ 0 ≤ c ∧ k.toNat + c.toNat ≤ s.arr.length then
        ({ s with arr := s.arr.take k.toNat ++ List.replicate c.toNat 0 ++ s.arr.drop (k.toNat + c.toNat) }, .normal)
      else (s, .oob)
    | _, _ => (s, .oob)
  | .call f e, s =>
    match e.eval s with
    | some v => ({ s with log := s.log ++ [(f, v)] }, .normal)
    | none => (s, .oob)
  | .while_ c b, s => loop (fun s' => c.eval s') (fun s' => b.run s') (s.arr.length + 3) s
  | .whileB n c b, s =>
    match n.eval s with
    | some k => loop (fun s' => c.eval s') (fun s' => b.run s') k.toNat s
    | none => (s, .oob)
  | .scope b, s =>
    match b.run s with
    | (s', .returned _) => (s', .normal)
    | r => r
  | .ite c t e, s =>
    match c.eval s with
    | some v => if v != 0 then t.run s else e.run s
    | none => (s, .oob)
  | .seq a b, s =>
    match a.run s with
    | (s', .normal) => b.run s'
    | r => r
  | .fatal m, s => (s, .fatal m)
  | .ret e, s =>
    match e.eval s with
    | some v => (s, .returned v)
    | none => (s, .oob)
  | .move dst src n, s =>
    match dst.eval s, src.eval s, n.eval s with
    | some d, some f, some c =>
      if 0 ≤ d ∧ 0 ≤ f ∧ 0 ≤ c ∧ d.toNat + c.toNat ≤ s.arr.length ∧ f.toNat + c.toNat ≤ s.arr.length then
        ({ s with arr := s.arr.take d.toNat ++ (s.arr.drop f.toNat).take c.toNat ++ s.arr.drop (d.toNat + c.toNat) }, .normal)
      else (s, .oob)
    | _, _, _ => (s, .oob)
  | .read dst max res, s =>
    -- the reader may write anywhere in array[dst .. dst+max): all of that must lie inside the array
    match dst.eval s, max.eval s with
    | some d, some m =>
      if 0 ≤ d ∧ 0 ≤ m ∧ d.toNat + m.toNat ≤ s.arr.length then
        let n := min (s.vars inLen).toNat m.toNat
        (setVar { s with arr := s.arr.take d.toNat ++ (List.range n).map (fun i => s.vars (inByte i)) ++ s.arr.drop (d.toNat + n) }
           res n, .normal)
      else (s, .oob)
    | _, _ => (s, .oob)

end FlexVerif.Imp

import FlexVerif.Spec.Rules
import FlexVerif.Spec.ReLemmas
/-
  Validator/SpecAuto.lean — the executable specification automaton.

  A state is a finite set (sorted duplicate-free list) of tagged residual regexes.  Tag `2*i`
  stands for "the full pattern of rule i", tag `2*i+1` for "the head of variable-trailing-
  context rule i".  `specAuto_tags` says the tags whose residual is nullable after reading `w`
  are exactly the rules the denotational specification makes match `w`.
-/
namespace FlexVerif

abbrev Item := Nat × Re
abbrev SState := List Item

def dedupAdj {α : Type} [DecidableEq α] : List α → List α
  | [] => []
  | [a] => [a]
  | a :: b :: l => if a = b then dedupAdj (b :: l) else a :: dedupAdj (b :: l)

theorem mem_dedupAdj {α : Type} [DecidableEq α] {x : α} {l : List α} :
    x ∈ dedupAdj l ↔ x ∈ l := by
  fun_induction dedupAdj l with
  | case1 => simp
  | case2 a => simp
  | case3 a l ih =>
    simp only [ih, List.mem_cons]
    constructor
    · intro h; exact .inr h
    · rintro (h | h)
      · exact .inl h
      · exact h
  | case4 a b l h ih =>
    simp only [List.mem_cons, ih]

instance : Ord Item := lexOrd

def itemLe (a b : Item) : Bool := compare a b != Ordering.gt

def normItems (l : List Item) : SState := dedupAdj (l.mergeSort itemLe)

theorem mem_normItems {x : Item} {l : List Item} : x ∈ normItems l ↔ x ∈ l := by
  simp [normItems, mem_dedupAdj]

namespace SState

def step (c : Byte) (S : SState) : SState :=
  normItems (S.flatMap fun it => (Re.pderiv c it.2).map fun p => (it.1, p))

def run (S : SState) (w : List Byte) : SState := w.foldl (fun S c => step c S) S

/-- tag `t` has a residual in `S` whose language contains `v` -/
def TagLang (S : SState) (t : Nat) (v : List Byte) : Prop := ∃ p, (t, p) ∈ S ∧ p.Matches v

theorem step_lang (c : Byte) (S : SState) (t : Nat) (v : List Byte) :
    TagLang (step c S) t v ↔ TagLang S t (c :: v) := by
  unfold TagLang step
  simp only [mem_normItems, List.mem_flatMap, List.mem_map, Prod.mk.injEq]
  constructor
  · rintro ⟨p, ⟨it, hit, q, hq, rfl, rfl⟩, hm⟩
    exact ⟨it.2, hit, (Re.pderiv_correct c it.2 v).mp ⟨q, hq, hm⟩⟩
  · rintro ⟨p, hp, hm⟩
    obtain ⟨q, hq, hqm⟩ := (Re.pderiv_correct c p v).mpr hm
    exact ⟨q, ⟨(t, p), hp, q, hq, rfl, rfl⟩, hqm⟩

theorem run_lang (S : SState) (w : List Byte) (t : Nat) (v : List Byte) :
    TagLang (run S w) t v ↔ TagLang S t (w ++ v) := by
  induction w generalizing S with
  | nil => simp [run]
  | cons c w ih =>
    simp only [run, List.foldl_cons, List.cons_append]
    have := ih (step c S)
    simp only [run] at this
    rw [this, step_lang]

/-- every byte set occurring in the residuals of `S` is in `sets` -/
def setsWithin (sets : List ByteSet) (S : SState) : Bool :=
  S.all fun it => it.2.clsSets.all fun s => sets.contains s

/-- bytes that no set of `sets` tells apart lead to the same successor state -/
theorem step_congr (sets : List ByteSet) (S : SState) (c c' : Byte)
    (hS : setsWithin sets S = true) (hc : sets.map (·.mem c) = sets.map (·.mem c')) :
    step c S = step c' S := by
  unfold step
  congr 1
  have key : ∀ it ∈ S, (Re.pderiv c it.2).map (fun p => (it.1, p)) =
      (Re.pderiv c' it.2).map (fun p => (it.1, p)) := by
    intro it hit
    rw [Re.pderiv_congr c c' it.2]
    intro s hs
    simp only [setsWithin, List.all_eq_true] at hS
    have h1 := hS it hit s hs
    have h2 : s ∈ sets := by simpa using h1
    obtain ⟨i, hi, rfl⟩ := List.getElem_of_mem h2
    have := congrArg (fun l => l[i]?) hc
    simpa [hi] using this
  clear hS
  induction S with
  | nil => rfl
  | cons it S ih =>
    simp only [List.flatMap_cons]
    rw [key it (by simp), ih (fun it' h' => key it' (by simp [h']))]

/-- the sorted list of tags that accept in `S` -/
def accTags (S : SState) : List Nat :=
  dedupAdj (((S.filter fun it => it.2.nullable).map fun it => it.1).mergeSort (fun a b => a ≤ b))

theorem mem_accTags {S : SState} {t : Nat} : t ∈ accTags S ↔ TagLang S t [] := by
  unfold accTags TagLang
  simp only [mem_dedupAdj, List.mem_mergeSort, List.mem_map, List.mem_filter]
  constructor
  · rintro ⟨it, ⟨hit, hn⟩, rfl⟩
    exact ⟨it.2, hit, (Re.nullable_iff _).mp hn⟩
  · rintro ⟨p, hp, hm⟩
    exact ⟨(t, p), ⟨hp, (Re.nullable_iff _).mpr hm⟩, rfl⟩

theorem mem_accTags_run {S : SState} {w : List Byte} {t : Nat} :
    t ∈ accTags (run S w) ↔ TagLang S t w := by
  rw [mem_accTags, run_lang]; simp

end SState

/-! ### The start states of a rule set -/

namespace RuleSet

def ruleItems (S : RuleSet) (sc : Nat) (atBol : Bool) (rk : Rule × Nat) : List Item :=
  if S.activeIn sc atBol rk.1 then
    (2 * (rk.2 + 1), rk.1.full) :: (if rk.1.varTrail then [(2 * (rk.2 + 1) + 1, rk.1.head)] else [])
  else []

def startState (S : RuleSet) (sc : Nat) (atBol : Bool) : SState :=
  normItems (S.rules.zipIdx.flatMap (S.ruleItems sc atBol))

theorem start_full (S : RuleSet) (sc : Nat) (atBol : Bool) (i : Nat) (w : List Byte) :
    SState.TagLang (S.startState sc atBol) (2 * i) w ↔ S.RuleMatches sc atBol i w := by
  unfold SState.TagLang startState RuleMatches
  simp only [mem_normItems, List.mem_flatMap]
  constructor
  · rintro ⟨p, ⟨⟨r, k⟩, hrk, hit⟩, hm⟩
    rw [List.mem_zipIdx_iff_getElem?] at hrk
    unfold ruleItems at hit
    split at hit
    · rename_i hact
      simp only [List.mem_cons, Prod.mk.injEq] at hit
      rcases hit with ⟨h1, h2⟩ | hit
      · have : i = k + 1 := by omega
        subst this
        exact ⟨r, by simpa using hrk, by omega, hact, h2 ▸ hm⟩
      · split at hit
        · simp only [List.mem_singleton, Prod.mk.injEq] at hit
          omega
        · simp at hit
    · simp at hit
  · rintro ⟨r, hr, hi, hact, hm⟩
    refine ⟨r.full, ⟨(r, i - 1), ?_, ?_⟩, hm⟩
    · rw [List.mem_zipIdx_iff_getElem?]; exact hr
    · unfold ruleItems
      simp only [hact, if_true, List.mem_cons, Prod.mk.injEq]
      left; constructor
      · omega
      · trivial

theorem start_head (S : RuleSet) (sc : Nat) (atBol : Bool) (i : Nat) (w : List Byte) :
    SState.TagLang (S.startState sc atBol) (2 * i + 1) w ↔ S.HeadMatches sc atBol i w := by
  unfold SState.TagLang startState HeadMatches
  simp only [mem_normItems, List.mem_flatMap]
  constructor
  · rintro ⟨p, ⟨⟨r, k⟩, hrk, hit⟩, hm⟩
    rw [List.mem_zipIdx_iff_getElem?] at hrk
    unfold ruleItems at hit
    split at hit
    · rename_i hact
      simp only [List.mem_cons, Prod.mk.injEq] at hit
      rcases hit with ⟨h1, _⟩ | hit
      · omega
      · split at hit
        · rename_i hv
          simp only [List.mem_singleton, Prod.mk.injEq] at hit
          obtain ⟨h1, h2⟩ := hit
          have : i = k + 1 := by omega
          subst this
          exact ⟨r, by simpa using hrk, by omega, hact, hv, h2 ▸ hm⟩
        · simp at hit
    · simp at hit
  · rintro ⟨r, hr, hi, hact, hv, hm⟩
    refine ⟨r.head, ⟨(r, i - 1), ?_, ?_⟩, hm⟩
    · rw [List.mem_zipIdx_iff_getElem?]; exact hr
    · unfold ruleItems
      simp only [hact, hv, if_true, List.mem_cons, Prod.mk.injEq]
      right; left; constructor
      · omega
      · trivial

/-- **The specification automaton computes the denotational specification**: after reading `w`
    from the start state for `(sc, atBol)`, the accepting tags are exactly the active rules whose
    full pattern matches `w` (tag `2i`) and the variable-trailing-context rules whose head
    matches `w` (tag `2i+1`). -/
theorem specAuto_tags (S : RuleSet) (sc : Nat) (atBol : Bool) (w : List Byte) (t : Nat) :
    t ∈ ((S.startState sc atBol).run w).accTags ↔
      (t % 2 = 0 ∧ S.RuleMatches sc atBol (t / 2) w) ∨
      (t % 2 = 1 ∧ S.HeadMatches sc atBol (t / 2) w) := by
  rw [SState.mem_accTags_run]
  rcases Nat.mod_two_eq_zero_or_one t with h | h
  · have e : t = 2 * (t / 2) := by omega
    rw [e, start_full]
    have : 2 * (t / 2) / 2 = t / 2 := by omega
    simp [this]
  · have e : t = 2 * (t / 2) + 1 := by omega
    rw [e, start_head]
    have : (2 * (t / 2) + 1) / 2 = t / 2 := by omega
    simp [this]

end RuleSet

/-! ### First rule -/

/-- smallest even tag, halved: the number of the first rule (in file order) accepting in `S` -/
def firstFull : List Nat → Option Nat
  | [] => none
  | t :: ts =>
    match firstFull ts with
    | none => if t % 2 = 0 then some (t / 2) else none
    | some j => if t % 2 = 0 ∧ t / 2 < j then some (t / 2) else some j

theorem firstFull_none {l : List Nat} : firstFull l = none ↔ ∀ t ∈ l, t % 2 = 1 := by
  induction l with
  | nil => simp [firstFull]
  | cons t ts ih =>
    simp only [firstFull, List.mem_cons, forall_eq_or_imp]
    cases h : firstFull ts with
    | none =>
      have := ih.mp h
      simp only
      split
      · simp; omega
      · simp; exact ⟨by omega, this⟩
    | some j =>
      simp only
      have : ¬ ∀ t ∈ ts, t % 2 = 1 := fun hh => by rw [ih.mpr hh] at h; cases h
      split <;> simp [this]

theorem firstFull_some {l : List Nat} {i : Nat} :
    firstFull l = some i ↔ (2 * i ∈ l ∧ ∀ t ∈ l, t % 2 = 0 → i ≤ t / 2) := by
  induction l generalizing i with
  | nil => simp [firstFull]
  | cons t ts ih =>
    simp only [firstFull, List.mem_cons, forall_eq_or_imp]
    cases h : firstFull ts with
    | none =>
      have hn := firstFull_none.mp h
      simp only
      split
      · rename_i ht
        simp only [Option.some.injEq]
        constructor
        · rintro rfl
          refine ⟨.inl (by omega), fun _ => Nat.le_refl _, ?_⟩
          intro t' ht' he; have := hn t' ht'; omega
        · rintro ⟨h1 | h1, h2, _⟩
          · omega
          · have := hn _ h1; omega
      · rename_i ht
        simp only [reduceCtorEq, false_iff]
        rintro ⟨h1 | h1, _, _⟩
        · omega
        · have := hn _ h1; omega
    | some j =>
      have hj := ih.mp h
      simp only
      split
      · rename_i ht
        simp only [Option.some.injEq]
        constructor
        · rintro rfl
          refine ⟨.inl (by omega), fun _ => Nat.le_refl _, ?_⟩
          intro t' ht' he; have := hj.2 t' ht' he; omega
        · rintro ⟨h1 | h1, h2, h3⟩
          · omega
          · have a := h2 ht.1
            have b := hj.2 _ h1 (by omega)
            omega
      · rename_i ht
        simp only [Option.some.injEq]
        constructor
        · rintro rfl
          refine ⟨.inr hj.1, ?_, hj.2⟩
          intro he; omega
        · rintro ⟨h1 | h1, h2, h3⟩
          · have := h3 _ hj.1 (by omega); omega
          · have a := h3 _ hj.1 (by omega)
            have b := hj.2 _ h1 (by omega)
            omega

/-- **First-rule label**: the label the specification automaton gives a word is the rule the
    documentation selects for it. -/
theorem RuleSet.specAuto_first (S : RuleSet) (sc : Nat) (atBol : Bool) (w : List Byte) :
    S.FirstRule sc atBol w (firstFull ((S.startState sc atBol).run w).accTags) := by
  cases h : firstFull ((S.startState sc atBol).run w).accTags with
  | none =>
    intro i hi
    have hn := firstFull_none.mp h
    have : 2 * i ∈ ((S.startState sc atBol).run w).accTags := by
      rw [S.specAuto_tags]; left
      have e : 2 * i / 2 = i := by omega
      exact ⟨by omega, by rw [e]; exact hi⟩
    have := hn _ this
    omega
  | some i =>
    obtain ⟨h1, h2⟩ := firstFull_some.mp h
    constructor
    · rw [S.specAuto_tags] at h1
      rcases h1 with ⟨_, h1⟩ | ⟨h1, _⟩
      · have : 2 * i / 2 = i := by omega
        exact this ▸ h1
      · omega
    · intro j hj hm
      have : 2 * j ∈ ((S.startState sc atBol).run w).accTags := by
        rw [S.specAuto_tags]; left
        have e : 2 * j / 2 = j := by omega
        exact ⟨by omega, by rw [e]; exact hm⟩
      have := h2 _ this (by omega)
      omega

end FlexVerif

import Std.Data.HashSet
import Std.Data.HashMap
/-
  Validator/Bisim.lean — a bisimulation checker and its soundness theorem.

  `explore` is an (unverified) worklist search producing either a candidate relation or a
  distinguishing word.  `closed` re-checks a candidate relation; `closed_sound` says that a
  relation passing `closed` relates only label-equivalent states: the two automata give the
  same label on **every** word over the alphabet.  Soundness does not depend on `explore`.
-/
namespace FlexVerif

abbrev Byte' := UInt8

structure Auto (σ : Type) (L : Type) where
  step : σ → UInt8 → σ
  label : σ → L

namespace Auto
def run {σ L : Type} (A : Auto σ L) (s : σ) (w : List UInt8) : σ := w.foldl A.step s
@[simp] theorem run_nil {σ L : Type} (A : Auto σ L) (s : σ) : A.run s [] = s := rfl
@[simp] theorem run_cons {σ L : Type} (A : Auto σ L) (s : σ) (c : UInt8) (w : List UInt8) :
    A.run s (c :: w) = A.run (A.step s c) w := rfl
end Auto

section
variable {σ τ L : Type} [BEq σ] [Hashable σ] [LawfulBEq σ] [BEq τ] [Hashable τ] [LawfulBEq τ]
  [DecidableEq L]

/-- `R` (a list of state pairs) is closed: related states have equal labels and their
    successors on every byte of `alphabet` are related again. -/
def closed (A : Auto σ L) (B : Auto τ L) (alphabet : List UInt8) (R : List (σ × τ)) : Bool :=
  let H : Std.HashSet (σ × τ) := Std.HashSet.ofList R
  R.all fun p =>
    decide (A.label p.1 = B.label p.2) &&
      alphabet.all fun c => H.contains (A.step p.1 c, B.step p.2 c)

/-- **Soundness of the checker.**  If `R` is closed then any related pair of states gives equal
    labels after every word over the alphabet. -/
theorem closed_sound (A : Auto σ L) (B : Auto τ L) (alphabet : List UInt8) (R : List (σ × τ))
    (h : closed A B alphabet R = true) (a : σ) (b : τ) (hab : (a, b) ∈ R)
    (w : List UInt8) (hw : ∀ c ∈ w, c ∈ alphabet) :
    A.label (A.run a w) = B.label (B.run b w) := by
  induction w generalizing a b with
  | nil =>
    simp only [closed, List.all_eq_true, Bool.and_eq_true, decide_eq_true_eq] at h
    exact (h _ hab).1
  | cons c w ih =>
    simp only [Auto.run_cons]
    apply ih
    · have h' := h
      simp only [closed, List.all_eq_true, Bool.and_eq_true, decide_eq_true_eq] at h'
      have hc := (h' _ hab).2 c (hw c (by simp))
      rw [Std.HashSet.contains_ofList] at hc
      simpa using hc
    · intro d hd; exact hw d (by simp [hd])

/-- Like `closed`, but the successor on the `B` side is computed once per byte class
    `(representative, members)`.  Sound when `B` cannot tell the members of a class from its
    representative (hypothesis `hB` of `closedBy_sound`). -/
def closedBy (A : Auto σ L) (B : Auto τ L) (alphabet : List UInt8)
    (classes : List (UInt8 × List UInt8)) (R : List (σ × τ)) : Bool :=
  let H : Std.HashSet (σ × τ) := Std.HashSet.ofList R
  (alphabet.all fun c => classes.any fun kc => kc.2.contains c) &&
  R.all fun p =>
    decide (A.label p.1 = B.label p.2) &&
      classes.all fun kc =>
        let q' := B.step p.2 kc.1
        kc.2.all fun c => H.contains (A.step p.1 c, q')

theorem closedBy_sound (A : Auto σ L) (B : Auto τ L) (alphabet : List UInt8)
    (classes : List (UInt8 × List UInt8)) (R : List (σ × τ))
    (h : closedBy A B alphabet classes R = true)
    (hB : ∀ p ∈ R, ∀ kc ∈ classes, ∀ c ∈ kc.2, B.step p.2 c = B.step p.2 kc.1)
    (a : σ) (b : τ) (hab : (a, b) ∈ R)
    (w : List UInt8) (hw : ∀ c ∈ w, c ∈ alphabet) :
    A.label (A.run a w) = B.label (B.run b w) := by
  simp only [closedBy, Bool.and_eq_true, List.all_eq_true, List.any_eq_true,
    decide_eq_true_eq] at h
  obtain ⟨hcover, hR⟩ := h
  induction w generalizing a b with
  | nil => exact (hR _ hab).1
  | cons c w ih =>
    simp only [Auto.run_cons]
    apply ih
    · obtain ⟨kc, hkc, hc⟩ := hcover c (hw c (by simp))
      have hc' : c ∈ kc.2 := by simpa using hc
      have := (hR _ hab).2 kc hkc c hc'
      rw [Std.HashSet.contains_ofList] at this
      have hm : (A.step a c, B.step b kc.1) ∈ R := by simpa using this
      rw [hB _ hab kc hkc c hc']
      exact hm
    · intro d hd; exact hw d (by simp [hd])

end

/-- all byte values below `n` -/
def bytesBelow (n : Nat) : List UInt8 := (List.range n).map UInt8.ofNat

theorem mem_bytesBelow {n : Nat} {c : UInt8} (h : c.toNat < n) : c ∈ bytesBelow n := by
  unfold bytesBelow
  rw [List.mem_map]
  exact ⟨c.toNat, by simp [h], by simp⟩

/-! ### Exploration (unverified; its result is re-checked by `closed`) -/

section
variable {σ τ L : Type} [BEq σ] [Hashable σ] [BEq τ] [Hashable τ] [DecidableEq L] [Inhabited σ] [Inhabited τ]

structure ExploreResult (σ τ : Type) where
  rel : Array (σ × τ)
  /-- a word on which the labels differ, with the pair of states reached -/
  cex : Option (List UInt8 × σ × τ)
  exhausted : Bool     -- pair budget hit: the relation is incomplete

/-- breadth-first product exploration from the given start pairs.  Each queue entry carries
    the index of its parent and the byte that led to it, so a shortest distinguishing word can
    be reconstructed. -/
partial def explore (A : Auto σ L) (B : Auto τ L) (classes : List (UInt8 × List UInt8))
    (starts : List (σ × τ)) (budget : Nat) : ExploreResult σ τ := Id.run do
  let mut seen : Std.HashSet (σ × τ) := {}
  let mut queue : Array (σ × τ) := #[]
  let mut parent : Array (Nat × UInt8) := #[]
  for p in starts do
    if !seen.contains p then
      seen := seen.insert p
      queue := queue.push p
      parent := parent.push (0, 0)
  let nstarts := queue.size
  let mut i := 0
  let mut cex : Option (List UInt8 × σ × τ) := none
  let mut exhausted := false
  while i < queue.size do
    let p := queue[i]!
    if A.label p.1 ≠ B.label p.2 then
      -- reconstruct the word
      let mut w : List UInt8 := []
      let mut j := i
      while j ≥ nstarts do
        let (pj, c) := parent[j]!
        w := c :: w
        j := pj
      cex := some (w, p.1, p.2)
      break
    if queue.size > budget then
      exhausted := true
      break
    for kc in classes do
      let qb := B.step p.2 kc.1
      for c in kc.2 do
        let q := (A.step p.1 c, qb)
        if !seen.contains q then
          seen := seen.insert q
          queue := queue.push q
          parent := parent.push (i, c)
    i := i + 1
  return { rel := queue, cex := cex, exhausted := exhausted }

end

end FlexVerif

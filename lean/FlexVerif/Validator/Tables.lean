/-
  Validator/Tables.lean — the DFA tables as flex emits them and the decoders, i.e. a model of
  the state-stepping code of the skeleton (`M4_GEN_NEXT_COMPRESSED_STATE`, the `-Cf` row
  lookup, the `-CF` record lookup, `yy_try_NUL_trans`, `yy_find_action`'s table reads).

  Every table read is bounds-checked: an index outside its array yields `DState.bad`, which no
  specification label equals, so a table set that could make the real scanner index out of
  range on some input is rejected by the validator rather than silently totalised.
-/
namespace FlexVerif

inductive TblKind | compressed | full | fast
deriving DecidableEq, Repr, Inhabited

structure Tables where
  kind : TblKind := .compressed
  useEcs : Bool := false
  useMecs : Bool := false
  reject : Bool := false            -- acclist representation (REJECT or variable trailing context)
  hasNulTrans : Bool := false
  csize : Nat := 256
  numRules : Nat := 0               -- YY_NUM_RULES (the default rule's number)
  jamBase : Int := 0
  jamState : Int := 0
  nulEc : Int := 0
  accept : Array Int := #[]
  acclist : Array Int := #[]
  ec : Array Int := #[]
  metaEc : Array Int := #[]
  base : Array Int := #[]
  deflt : Array Int := #[]
  nxt : Array Int := #[]
  chk : Array Int := #[]
  nulTrans : Array Int := #[]
  nxt2 : Array (Array Int) := #[]
  transV : Array Int := #[]
  transN : Array Int := #[]
  startList : Array Int := #[]
  canEol : Array Int := #[]
deriving Repr, Inhabited

inductive DState
  | bad                 -- a table access was out of range / the default chain did not end
  | jam
  | st (n : Int)
deriving DecidableEq, Hashable, Repr, Inhabited

/-- bounds-checked read with an `Int` index -/
def rd (a : Array Int) (i : Int) : Option Int :=
  if i < 0 then none else a[i.toNat]?

namespace Tables

/-- `M4_GEN_NEXT_COMPRESSED_STATE`: follow default chains until `yy_chk` confirms. -/
def compStep (T : Tables) : Nat → Int → Int → DState
  | 0, _, _ => .bad
  | fuel + 1, s, c =>
    match rd T.base s with
    | none => .bad
    | some b =>
      match rd T.chk (b + c) with
      | none => .bad
      | some k =>
        if k = s then
          match rd T.nxt (b + c) with
          | none => .bad
          | some n => if n = T.jamState then .jam else .st n
        else
          match rd T.deflt s with
          | none => .bad
          | some s' =>
            if T.useMecs && s' ≥ T.jamState + 1 then
              match rd T.metaEc c with
              | none => .bad
              | some c' => compStep T fuel s' c'
            else compStep T fuel s' c

/-- one step on equivalence class / column `c` -/
def stepClass (T : Tables) (s : Int) (c : Int) : DState :=
  match T.kind with
  | .compressed => compStep T (T.deflt.size + 2) s c
  | .full =>
    if s < 0 then .bad else
    match T.nxt2[s.toNat]? with
    | none => .bad
    | some row =>
      match rd row c with
      | none => .bad
      | some n => if n ≤ 0 then .jam else .st n
  | .fast =>
    match rd T.transV (s + c), rd T.transN (s + c) with
    | some v, some n => if v = c then .st (s + n) else .jam
    | _, _ => .bad

/-- column for a non-NUL byte: `M4_EC(YY_SC_TO_UI(*yy_cp))` -/
def classOf (T : Tables) (b : UInt8) : Option Int :=
  if T.useEcs then rd T.ec b.toNat else some b.toNat

/-- the transition the scanner makes on input byte `b` from state `s`;
    byte 0 goes the way of `yy_try_NUL_trans` / `CHAR_MAP_3`. -/
def stepByte (T : Tables) (s : Int) (b : UInt8) : DState :=
  if b = 0 then
    if T.hasNulTrans then
      match rd T.nulTrans s with
      | none => .bad
      | some n => if n = 0 then .jam else .st n
    else stepClass T s T.nulEc
  else
    match classOf T b with
    | none => .bad
    | some c => stepClass T s c

def step (T : Tables) (s : DState) (b : UInt8) : DState :=
  match s with
  | .bad => .bad
  | .jam => .jam
  | .st n => stepByte T n b

/-- accepting information of state `s`: `none` = a table read was out of range.
    Without REJECT: `[]` or `[rule]`.  With REJECT: the state's slice of `yy_acclist`. -/
def acceptOf (T : Tables) (s : Int) : Option (List Int) :=
  if T.reject then
    match rd T.accept s, rd T.accept (s + 1) with
    | some lo, some hi =>
      if lo = 0 then some [] else
      if lo < 0 ∨ hi < lo ∨ hi.toNat > T.acclist.size then none
      else some ((T.acclist.extract lo.toNat hi.toNat).toList)
    | _, _ => none
  else
    match T.kind with
    | .fast =>
      match rd T.transN (s - 1) with
      | none => none
      | some a => some (if a = 0 then [] else [a])
    | _ =>
      match rd T.accept s with
      | none => none
      | some a => some (if a = 0 then [] else [a])

def label (T : Tables) : DState → Option (List Int)
  | .bad => none
  | .jam => some []
  | .st n => T.acceptOf n

/-- the start state for start condition `sc` and line-start flag `bol` -/
def startState (T : Tables) (sc : Nat) (bol : Bool) : DState :=
  let k : Int := 1 + 2 * sc + (if bol then 1 else 0)
  match T.kind with
  | .fast =>
    match rd T.startList k with
    | none => .bad
    | some i => .st i
  | _ => .st k

end Tables
end FlexVerif

import FlexVerif.Validator.Validate
/-
  Validator/Useful.lean — which rules can ever be the selected rule ("rule cannot be matched").

  `reach` explores the specification automaton (unverified); its result is a certificate: a list
  of states, each with a witness (start condition, line-start flag, word) that reaches it.
  `certOK` re-checks the certificate; `useful_exact` says a checked certificate contains exactly
  the states reachable on some input, so rule `i` occurs as a first-rule label in it iff some
  input in some start condition makes `i` the selected rule.
-/
namespace FlexVerif

structure ReachEntry where
  state : SState
  sc : Nat
  bol : Bool
  word : List UInt8
deriving Inhabited

def certOK (S : RuleSet) (csize : Nat) (classes : List (UInt8 × List UInt8)) (C : List ReachEntry) : Bool :=
  let alpha := bytesBelow csize
  let sets := S.allSets
  let H : Std.HashSet SState := Std.HashSet.ofList (C.map (·.state))
  classesOK sets classes &&
  (alpha.all fun c => classes.any fun kc => kc.2.contains c) &&
  -- every entry's witness really reaches its state
  (C.all fun e => decide (e.sc < S.nsc) && (e.word.all fun c => decide (c.toNat < csize)) &&
      decide ((S.startState e.sc e.bol).run e.word = e.state)) &&
  -- every start state is listed
  ((List.range S.nsc).all fun sc => H.contains (S.startState sc false) && H.contains (S.startState sc true)) &&
  -- closed under every byte class
  (C.all fun e => SState.setsWithin sets e.state && classes.all fun kc => H.contains (e.state.step kc.1))

theorem SState.run_append (q : SState) (u v : List UInt8) : q.run (u ++ v) = (q.run u).run v := by
  simp [SState.run, List.foldl_append]

theorem SState.run_cons (q : SState) (c : UInt8) (w : List UInt8) : q.run (c :: w) = (q.step c).run w := rfl

/-- completeness: a checked certificate contains every reachable state -/
theorem cert_complete (S : RuleSet) (csize : Nat) (classes : List (UInt8 × List UInt8)) (C : List ReachEntry)
    (h : certOK S csize classes C = true) (sc : Nat) (hsc : sc < S.nsc) (bol : Bool) (w : List UInt8)
    (hw : ∀ c ∈ w, c.toNat < csize) :
    ∃ e ∈ C, e.state = (S.startState sc bol).run w := by
  simp only [certOK, Bool.and_eq_true, List.all_eq_true, List.any_eq_true, decide_eq_true_eq] at h
  obtain ⟨⟨⟨⟨hcls, hcover⟩, _⟩, hstart⟩, hclosed⟩ := h
  have hmemH : ∀ q : SState, (Std.HashSet.ofList (C.map (·.state))).contains q = true → ∃ e ∈ C, e.state = q := by
    intro q hq
    rw [Std.HashSet.contains_ofList] at hq
    have : q ∈ C.map (·.state) := by simpa using hq
    rw [List.mem_map] at this
    obtain ⟨e, he, rfl⟩ := this
    exact ⟨e, he, rfl⟩
  -- any listed state stays listed after any word
  have key : ∀ (w : List UInt8), (∀ c ∈ w, c.toNat < csize) → ∀ e ∈ C, ∃ e' ∈ C, e'.state = e.state.run w := by
    intro w
    induction w with
    | nil => intro _ e he; exact ⟨e, he, rfl⟩
    | cons c w ih =>
      intro hw e he
      obtain ⟨kc, hkc, hc⟩ := hcover c (mem_bytesBelow (hw c (by simp)))
      have hc' : c ∈ kc.2 := by simpa using hc
      obtain ⟨hwithin, hcl⟩ := hclosed e he
      have hstep := hcl kc hkc
      have hsig : S.allSets.map (·.mem c) = S.allSets.map (·.mem kc.1) := by
        have hc2 := hcls
        simp only [classesOK, List.all_eq_true] at hc2
        simpa using hc2 kc hkc c hc'
      have heq : e.state.step c = e.state.step kc.1 := SState.step_congr S.allSets e.state c kc.1 hwithin hsig
      obtain ⟨e1, he1, hs1⟩ := hmemH _ hstep
      obtain ⟨e2, he2, hs2⟩ := ih (fun d hd => hw d (by simp [hd])) e1 he1
      refine ⟨e2, he2, ?_⟩
      rw [hs2, hs1, SState.run_cons, heq]
  have hs := hstart sc (by simp [hsc])
  have hs' : (Std.HashSet.ofList (C.map (·.state))).contains (S.startState sc bol) = true := by
    cases bol
    · exact hs.1
    · exact hs.2
  obtain ⟨e0, he0, hs0⟩ := hmemH _ hs'
  obtain ⟨e', he', hse'⟩ := key w hw e0 he0
  exact ⟨e', he', by rw [hse', hs0]⟩

/-- soundness: every listed state is reached by its witness -/
theorem cert_sound (S : RuleSet) (csize : Nat) (classes : List (UInt8 × List UInt8)) (C : List ReachEntry)
    (h : certOK S csize classes C = true) (e : ReachEntry) (he : e ∈ C) :
    e.sc < S.nsc ∧ (∀ c ∈ e.word, c.toNat < csize) ∧ (S.startState e.sc e.bol).run e.word = e.state := by
  simp only [certOK, Bool.and_eq_true, List.all_eq_true, decide_eq_true_eq] at h
  obtain ⟨⟨⟨_, hwit⟩, _⟩, _⟩ := h
  obtain ⟨⟨h1, h2⟩, h3⟩ := hwit e he
  exact ⟨h1, h2, h3⟩

/-- the rules that are the first-rule label of some listed state -/
def usefulRules (C : List ReachEntry) : List Nat :=
  (C.filterMap fun e => firstFull e.state.accTags).eraseDups

/-- **Exactness of "rule can be matched"**: with a checked certificate, rule `i` is listed as
    useful iff some input (in some start condition and line-start state) makes it the selected
    rule, i.e. the first active rule matching that input. -/
theorem useful_exact (S : RuleSet) (csize : Nat) (classes : List (UInt8 × List UInt8)) (C : List ReachEntry)
    (h : certOK S csize classes C = true) (i : Nat) :
    i ∈ usefulRules C ↔
      ∃ sc, sc < S.nsc ∧ ∃ bol w, (∀ c ∈ w, c.toNat < csize) ∧ S.FirstRule sc bol w (some i) := by
  unfold usefulRules
  rw [List.mem_eraseDups, List.mem_filterMap]
  constructor
  · rintro ⟨e, he, hl⟩
    obtain ⟨h1, h2, h3⟩ := cert_sound S csize classes C h e he
    refine ⟨e.sc, h1, e.bol, e.word, h2, ?_⟩
    have := S.specAuto_first e.sc e.bol e.word
    rw [h3, hl] at this
    exact this
  · rintro ⟨sc, hsc, bol, w, hw, hf⟩
    obtain ⟨e, he, hs⟩ := cert_complete S csize classes C h sc hsc bol w hw
    refine ⟨e, he, ?_⟩
    rw [hs]
    -- the label the automaton computes is *the* first rule
    have hspec := S.specAuto_first sc bol w
    cases hl : firstFull ((S.startState sc bol).run w).accTags with
    | none =>
      rw [hl] at hspec
      exact absurd hf.1 (hspec i)
    | some j =>
      rw [hl] at hspec
      -- both i and j are first rules: equal
      have hij : ¬ i < j := fun hlt => hspec.2 i hlt hf.1
      have hji : ¬ j < i := fun hlt => hf.2 j hlt hspec.1
      have : j = i := by omega
      rw [this]

/-! ### exploration (unverified) -/

partial def reach (S : RuleSet) (classes : List (UInt8 × List UInt8)) (budget : Nat) : List ReachEntry × Bool := Id.run do
  let mut seen : Std.HashSet SState := {}
  let mut queue : Array ReachEntry := #[]
  for sc in List.range S.nsc do
    for bol in [false, true] do
      let q := S.startState sc bol
      if !seen.contains q then
        seen := seen.insert q
        queue := queue.push { state := q, sc := sc, bol := bol, word := [] }
  let mut i := 0
  let mut exhausted := false
  while i < queue.size do
    if queue.size > budget then
      exhausted := true
      break
    let e := queue[i]!
    for kc in classes do
      let q := e.state.step kc.1
      if !seen.contains q then
        seen := seen.insert q
        queue := queue.push { state := q, sc := e.sc, bol := e.bol, word := e.word ++ [kc.1] }
    i := i + 1
  return (queue.toList, exhausted)

end FlexVerif

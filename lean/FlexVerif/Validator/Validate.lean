import FlexVerif.Validator.SpecAuto
import FlexVerif.Validator.Bisim
import FlexVerif.Validator.Tables
/-
  Validator/Validate.lean — translation validation of the emitted automaton.

  `validate S T` decides (soundly) whether the automaton flex emitted (`T`, through the decoders
  of `Tables.lean`) gives, on every byte string and from every start state, the accepting
  information the specification `S` prescribes.
-/
namespace FlexVerif

def YY_TRAILING_MASK : Nat := 0x2000
def YY_TRAILING_HEAD_MASK : Nat := 0x4000

/-- the label the specification prescribes for a set of accepting tags, in the encoding of the
    emitted tables: without REJECT the first rule; with REJECT the `yy_acclist` slice (full
    matches in rule order, variable-trailing-context rules flagged, then head matches). -/
def specLabel (S : RuleSet) (reject : Bool) (tags : List Nat) : Option (List Int) :=
  if reject then
    let fulls := (tags.filter fun t => t % 2 = 0).map fun t =>
      let i := t / 2
      match S.rules[i - 1]? with
      | some r => if r.varTrail then ((i ||| YY_TRAILING_MASK : Nat) : Int) else (i : Int)
      | none => (i : Int)
    let heads := (tags.filter fun t => t % 2 = 1).map fun t => (((t / 2) ||| YY_TRAILING_HEAD_MASK : Nat) : Int)
    some (fulls ++ heads)
  else
    match firstFull tags with
    | none => some []
    | some i => some [(i : Int)]

def specAuto (S : RuleSet) (reject : Bool) : Auto SState (Option (List Int)) where
  step := fun q c => q.step c
  label := fun q => specLabel S reject q.accTags

def tblAuto (T : Tables) : Auto DState (Option (List Int)) where
  step := T.step
  label := T.label

theorem specAuto_run (S : RuleSet) (reject : Bool) (q : SState) (w : List Byte) :
    (specAuto S reject).run q w = q.run w := by
  induction w generalizing q with
  | nil => rfl
  | cons c w ih => simp only [Auto.run_cons, SState.run, List.foldl_cons]; exact ih _

def startPairs (S : RuleSet) (T : Tables) : List (DState × SState) :=
  (List.range S.nsc).flatMap fun sc =>
    [(T.startState sc false, S.startState sc false), (T.startState sc true, S.startState sc true)]

structure Verdict where
  ok : Bool
  pairs : Nat
  exhausted : Bool
  cex : Option (List UInt8 × DState × SState)
deriving Inhabited

/-- all byte sets occurring in the rule set's patterns -/
def RuleSet.allSets (S : RuleSet) : List ByteSet :=
  (S.rules.flatMap fun r => r.full.clsSets ++ r.head.clsSets).eraseDups

/-- group the alphabet by signature w.r.t. `sets` (unverified; re-checked by `classesOK`) -/
def groupBySig (sets : List ByteSet) (alpha : List UInt8) : List (UInt8 × List UInt8) :=
  let m : Std.HashMap (List Bool) (List UInt8) :=
    alpha.foldl (fun m c =>
      let k := sets.map (·.mem c)
      m.insert k (c :: (m.getD k []))) {}
  m.toList.filterMap fun (_, cs) =>
    match cs.reverse with
    | [] => none
    | k :: rest => some (k, k :: rest)

def classesOK (sets : List ByteSet) (classes : List (UInt8 × List UInt8)) : Bool :=
  classes.all fun kc => kc.2.all fun c => sets.map (·.mem c) == sets.map (·.mem kc.1)

/-- the decision procedure: explore, then re-check the relation found -/
def validate (S : RuleSet) (T : Tables) (budget : Nat) : Verdict :=
  let A := tblAuto T
  let B := specAuto S T.reject
  let alpha := bytesBelow T.csize
  let sets := S.allSets
  let classes := groupBySig sets alpha
  let starts := startPairs S T
  let r := explore A B classes starts budget
  let R := r.rel.toList
  let ok := r.cex.isNone && !r.exhausted && classesOK sets classes &&
    (R.all fun p => SState.setsWithin sets p.2) &&
    closedBy A B alpha classes R && starts.all fun p => R.contains p
  { ok := ok, pairs := r.rel.size, exhausted := r.exhausted, cex := r.cex }

/-- **Soundness of the validator** (for all inputs): if `validate` accepts, then from every
    start condition and line-start state, after every byte string `w` (bytes below the
    character-set size), the emitted automaton's accepting information equals what the
    specification automaton prescribes. -/
theorem validate_sound (S : RuleSet) (T : Tables) (budget : Nat)
    (h : (validate S T budget).ok = true)
    (sc : Nat) (hsc : sc < S.nsc) (bol : Bool) (w : List Byte)
    (hw : ∀ c ∈ w, c.toNat < T.csize) :
    T.label ((tblAuto T).run (T.startState sc bol) w) =
      specLabel S T.reject ((S.startState sc bol).run w).accTags := by
  simp only [validate, Bool.and_eq_true] at h
  obtain ⟨⟨⟨⟨⟨_, _⟩, hcls⟩, hwithin⟩, hcl⟩, hst⟩ := h
  have hmem : (T.startState sc bol, S.startState sc bol) ∈ (explore (tblAuto T) (specAuto S T.reject)
      (groupBySig S.allSets (bytesBelow T.csize)) (startPairs S T) budget).rel.toList := by
    rw [List.all_eq_true] at hst
    have : (T.startState sc bol, S.startState sc bol) ∈ startPairs S T := by
      unfold startPairs
      rw [List.mem_flatMap]
      refine ⟨sc, by simp [hsc], ?_⟩
      cases bol <;> simp
    have := hst _ this
    simpa using this
  have hB : ∀ p ∈ (explore (tblAuto T) (specAuto S T.reject)
      (groupBySig S.allSets (bytesBelow T.csize)) (startPairs S T) budget).rel.toList,
      ∀ kc ∈ groupBySig S.allSets (bytesBelow T.csize), ∀ c ∈ kc.2,
        (specAuto S T.reject).step p.2 c = (specAuto S T.reject).step p.2 kc.1 := by
    intro p hp kc hkc c hc
    simp only [specAuto]
    apply SState.step_congr S.allSets
    · rw [List.all_eq_true] at hwithin
      exact hwithin p hp
    · simp only [classesOK, List.all_eq_true] at hcls
      have := hcls kc hkc c hc
      simpa using this
  have := closedBy_sound (tblAuto T) (specAuto S T.reject) (bytesBelow T.csize) _ _ hcl hB _ _ hmem w
    (fun c hc => mem_bytesBelow (hw c hc))
  rw [specAuto_run] at this
  exact this

/-- Corollary for scanners without REJECT: the rule number the emitted tables report for `w`
    is the rule the documentation selects (first active rule whose pattern matches `w`);
    `0`/jam when no rule matches. -/
theorem validate_first_rule (S : RuleSet) (T : Tables) (budget : Nat)
    (h : (validate S T budget).ok = true) (hr : T.reject = false)
    (sc : Nat) (hsc : sc < S.nsc) (bol : Bool) (w : List Byte)
    (hw : ∀ c ∈ w, c.toNat < T.csize) :
    ∃ l, S.FirstRule sc bol w l ∧
      T.label ((tblAuto T).run (T.startState sc bol) w) =
        some (match l with | none => [] | some i => [(i : Int)]) := by
  refine ⟨firstFull ((S.startState sc bol).run w).accTags, S.specAuto_first sc bol w, ?_⟩
  rw [validate_sound S T budget h sc hsc bol w hw, specLabel, hr]
  simp only [Bool.false_eq_true, if_false]
  cases firstFull ((S.startState sc bol).run w).accTags <;> rfl

end FlexVerif

/-
  Props/C03Refine.lean — C03: the translated `yy_get_next_buffer()` (default and c99 skeleton) **refines the
  refill step of the hand-written buffer machine** `Runtime/Buf.lean`.  `Buf.run_tokens` (for every buffer size,
  every cutting of the input into reads and every automaton, the tokens are those of a scan of the whole input) is
  proved about that machine; its `refill` was tied to the code only by comparing read requests on generated cases.
  Here: whenever the code's state represents the machine's (`Rep`) and the reader offers what the machine's reader
  returns (`Offers`), the translated function returns what the machine's step says — CONTINUE_SCAN / END_OF_FILE /
  LAST_MATCH — and leaves a state that represents the machine's next state: same buffer contents, same size after
  the same doubling, same read request.
-/
import FlexVerif.Props.C03NextBuf
import FlexVerif.Props.C03NextBufC99
import FlexVerif.Runtime.Buf
import FlexVerif.Runtime.BufProofs
namespace FlexVerif.C03Refine
open FlexVerif.Imp FlexVerif.C03NextBuf FlexVerif.Buf

def cell (b : UInt8) : Int := (b.toNat : Int)

theorem growSize_eq : ∀ (fuel size p : Nat), growSize size p fuel = growTo size p fuel
  | 0, _, _ => rfl
  | fuel + 1, size, p => by
    simp only [growSize, growTo]
    split
    · rfl
    · exact growSize_eq fuel _ p

/-- the code's state represents the machine's when the match loop has run into the end of the buffer with `q`
    characters (yymore() prefix included) of the unfinished token in it -/
structure Rep (s : State) (st : BState) (q : Nat) : Prop where
  buf : s.arr.take st.buf.length = st.buf.map cell
  nchars : s.vars 2 = st.buf.length
  size : s.vars 4 = st.size
  tok : s.vars 1 = st.tok
  pos : s.vars 0 = (st.buf.length : Int) + 1
  q_eq : st.tok + q = st.buf.length
  fill : s.vars 5 ≠ 0
  ours : s.vars 7 ≠ 0
  status : s.vars 6 = 2 ↔ st.eofPending = true
  rbs : s.vars 18 = readBufSize
  len : (s.arr.length : Int) = s.vars 4 + 2
  fits : st.buf.length ≤ st.size
  size_pos : 1 ≤ st.size

/-- the reader seen from the code offers what the machine's reader returns for the request the machine computes -/
structure Offers (s : State) (st : BState) (q : Nat) (rd : Reader) : Prop where
  len : s.vars inLen = rd st.calls (min (growTo st.size q (q + 2) - q - 1) readBufSize) st.src.length
  bytes : ∀ i b, st.src[i]? = some b → s.vars (inByte i) = cell b

/-- what the code's state says about the machine's afterwards -/
structure Rep' (s' : State) (st' : BState) : Prop where
  buf : s'.arr.take st'.buf.length = st'.buf.map cell
  mark0 : s'.arr[st'.buf.length]? = some 0
  mark1 : s'.arr[st'.buf.length + 1]? = some 0
  nchars : s'.vars 2 = st'.buf.length
  bufn : s'.vars 3 = st'.buf.length
  size : s'.vars 4 = st'.size
  tok : s'.vars 1 = st'.tok
  len : (s'.arr.length : Int) = s'.vars 4 + 2
  fits : st'.buf.length ≤ st'.size

theorem pre_of_rep {s : State} {st : BState} {q : Nat} (h : Rep s st q) : Pre s := by
  have := h.nchars; have := h.size; have := h.tok; have := h.pos; have := h.q_eq; have := h.fits; have := h.size_pos
  exact ⟨h.len, by omega, by omega, by omega, by omega, by omega, by rw [h.rbs]; decide⟩

theorem ntm_of_rep {s : State} {st : BState} {q : Nat} (h : Rep s st q) : ntm s = q := by
  have := h.tok; have := h.pos; have := h.q_eq; unfold ntm; omega

/-- from "the first a+2 cells are D then two zeros": the first a cells are D and the marks are there -/
theorem split_marks (l D : List Int) (a : Nat) (hD : D.length = a) (h : l.take (a + 2) = D ++ [0, 0]) :
    l.take a = D ∧ l[a]? = some 0 ∧ l[a + 1]? = some 0 := by
  have h1 : l.take a = D := by
    have e : l.take a = (l.take (a + 2)).take a := by rw [List.take_take, Nat.min_eq_left (by omega)]
    rw [e, h, List.take_append_of_le_length (by omega), List.take_of_length_le (by omega)]
  have hg : ∀ j, j < a + 2 → l[j]? = (D ++ [0, 0])[j]? := by
    intro j hj
    rw [← h, List.getElem?_take, if_pos hj]
  refine ⟨h1, ?_, ?_⟩
  · rw [hg a (by omega), List.getElem?_append_right (by omega), hD]; simp
  · rw [hg (a + 1) (by omega), List.getElem?_append_right (by omega), hD]; simp

/-- the part of the buffer that is moved, in the code and in the machine -/
theorem part_eq {s : State} {st : BState} {q : Nat} (h : Rep s st q) :
    (s.arr.drop (s.vars 1).toNat).take q = ((st.buf.drop st.tok).take q).map cell := by
  have ht : (s.vars 1).toNat = st.tok := by have := h.tok; omega
  rw [ht]
  have : (s.arr.drop st.tok).take q = (s.arr.take st.buf.length).drop st.tok := by
    rw [List.drop_take]; congr 1; have := h.q_eq; omega
  rw [this, h.buf, List.map_take, List.map_drop]
  rw [List.take_of_length_le]
  simp; have := h.q_eq; omega

theorem chunk_eq {s : State} {st : BState} {q : Nat} {rd : Reader} (hO : Offers s st q rd) (k : Nat) (hk : k ≤ st.src.length) :
    chunk s k = (st.src.take k).map cell := by
  apply List.ext_getElem?
  intro i
  by_cases hi : i < k
  · have hlt : i < st.src.length := by omega
    have h1 : st.src[i]? = some st.src[i] := List.getElem?_eq_getElem hlt
    simp only [chunk, List.getElem?_map, List.getElem?_range hi, Option.map_some, List.getElem?_take, if_pos hi, h1]
    rw [hO.bytes i _ h1]
  · have e1 : (chunk s k)[i]? = none := by simp [chunk]; omega
    have e2 : ((st.src.take k).map cell)[i]? = none := by simp; omega
    rw [e1, e2]

/-- **refinement**: a translation of yy_get_next_buffer() that meets `Correct` does the machine's `refill` -/
theorem refines_refill {prog : St} (hC : Correct prog) (s : State) (st : BState) (q : Nat) (rd : Reader)
    (hR : Rep s st q) (hrd : rd.OK) (hO : Offers s st q rd) :
    ∃ s', prog.run s = (s', .returned (retOf s (refill rd st q).2)) ∧ Rep' s' (refill rd st q).1 := by
  have hP := pre_of_rep hR
  have hq := ntm_of_rep hR
  have hpart := part_eq hR
  have hplen : ((st.buf.drop st.tok).take q).length = q := by simp; have := hR.q_eq; omega
  by_cases he : st.eofPending = true
  · obtain ⟨s', hrun, hF, h4⟩ := hC.eof_pending s hP hR.fill (hR.status.mpr he)
    refine ⟨s', ?_, ?_⟩
    · simp [refill, he, hrun]
    · have hd := hF.data
      rw [hq] at hd
      simp only [Int.toNat_natCast] at hd
      rw [hpart] at hd
      simp only [chunk, List.range_zero, List.map_nil, List.append_nil, Nat.add_zero] at hd
      obtain ⟨d1, d2, d3⟩ := split_marks _ _ q (by rw [List.length_map, hplen]) hd
      have hn := hF.nchars; have hb := hF.bufn; have hl := hF.len; have hf := hF.fits; have hs := hF.size_le
      have hfit := hR.fits; have hqe := hR.q_eq; have hsz := hR.size
      simp only [refill, he, if_true]
      rw [hq] at hn hb hf
      exact ⟨by rw [hplen]; exact d1, by rw [hplen]; exact d2, by rw [hplen]; exact d3, by rw [hplen, hn]; simp,
        by rw [hplen, hb]; simp, by show s'.vars 4 = st.size; omega, hF.text, hl, by rw [hplen]; show q ≤ st.size; omega⟩
  · have he' : st.eofPending = false := by simpa using he
    have h6 : s.vars 6 ≠ 2 := fun h => he (hR.status.mp h)
    obtain ⟨s', m, hm1, hm2, hrun, hF, hE⟩ := hC.read s hP hR.fill h6 (Or.inl hR.ours)
    have hsize := hR.size; have hpos := hR.size_pos; have hfit := hR.fits; have hqe := hR.q_eq
    have hge := growTo_ge q (q + 2) st.size (by omega)
    have hsz : (s'.vars 4).toNat = growTo st.size q (q + 2) := by
      have h0 : (s.vars 4).toNat = st.size := by omega
      rw [hE.size, hq, growSize_eq, h0]; simp
    have hsl := hF.size_le
    have hs4 : s'.vars 4 = (growTo st.size q (q + 2) : Nat) := by omega
    have hm : m = ((min (growTo st.size q (q + 2) - q - 1) readBufSize : Nat) : Int) := by
      rw [hE.asked, hR.rbs, hq, hs4]; omega
    obtain ⟨hk1, hk2, _⟩ := hrd st.calls (min (growTo st.size q (q + 2) - q - 1) readBufSize) st.src.length
    have hgot : got s m = rd st.calls (min (growTo st.size q (q + 2) - q - 1) readBufSize) st.src.length := by
      unfold got; rw [hO.len, hm]; omega
    have hr : refill rd st q =
        ({ st with buf := (st.buf.drop st.tok).take q ++
                     st.src.take (rd st.calls (min (growTo st.size q (q + 2) - q - 1) readBufSize) st.src.length),
                   tok := 0, size := growTo st.size q (q + 2),
                   src := st.src.drop (rd st.calls (min (growTo st.size q (q + 2) - q - 1) readBufSize) st.src.length),
                   calls := st.calls + 1,
                   out := st.out.push (.rq (min (growTo st.size q (q + 2) - q - 1) readBufSize)) },
         rd st.calls (min (growTo st.size q (q + 2) - q - 1) readBufSize) st.src.length) := by
      simp [refill, he']
    rw [hr]
    generalize rd st.calls (min (growTo st.size q (q + 2) - q - 1) readBufSize) st.src.length = k at *
    refine ⟨s', by rw [hrun, hgot], ?_⟩
    have hd := hF.data
    rw [hq, hgot] at hd
    simp only [Int.toNat_natCast] at hd
    rw [hpart, chunk_eq hO k hk2, ← List.map_append] at hd
    have hlen : ((st.buf.drop st.tok).take q ++ st.src.take k).length = q + k := by
      rw [List.length_append, hplen, List.length_take]; omega
    obtain ⟨d1, d2, d3⟩ := split_marks _ _ (q + k) (by rw [List.length_map, hlen]) hd
    have hn := hF.nchars; have hb := hF.bufn; have hl := hF.len; have hf := hF.fits
    rw [hq, hgot] at hn hb hf
    exact ⟨by dsimp only; rw [hlen]; exact d1, by dsimp only; rw [hlen]; exact d2, by dsimp only; rw [hlen]; exact d3,
      by dsimp only; rw [hlen, hn]; simp, by dsimp only; rw [hlen, hb]; simp,
      hs4, hF.text, hl, by dsimp only; rw [hlen]; omega⟩

/-- the default skeleton's function does the machine's refill -/
theorem nextBuf_refines_refill (s : State) (st : BState) (q : Nat) (rd : Reader) (hR : Rep s st q) (hrd : rd.OK)
    (hO : Offers s st q rd) :
    ∃ s', Gen.NextBuf.nextBuf.run s = (s', .returned (retOf s (refill rd st q).2)) ∧ Rep' s' (refill rd st q).1 :=
  refines_refill nextBuf_correct s st q rd hR hrd hO

/-- and so does the c99 skeleton's -/
theorem nextBuf99_refines_refill (s : State) (st : BState) (q : Nat) (rd : Reader) (hR : Rep s st q) (hrd : rd.OK)
    (hO : Offers s st q rd) :
    ∃ s', Gen.NextBufC99.nextBuf.run s = (s', .returned (retOf s (refill rd st q).2)) ∧ Rep' s' (refill rd st q).1 :=
  refines_refill C03NextBufC99.nextBuf99_correct s st q rd hR hrd hO

/-- the value returned is the one the machine's match loop branches on: nothing read and nothing but the yymore() prefix
    pending (END_OF_FILE = 1), nothing read (LAST_MATCH = 2), something read (CONTINUE_SCAN = 0) -/
theorem retOf_cases (s : State) (st : BState) (p : Nat) (hR : Rep s st (st.pre + p)) (h9 : s.vars 9 = st.pre) (k : Nat) :
    retOf s k = if k = 0 then (if p = 0 then 1 else 2) else 0 := by
  have := ntm_of_rep hR
  unfold retOf
  by_cases hk : k = 0
  · by_cases hp : p = 0
    · simp [hk, hp, this, h9]
    · have : ntm s ≠ s.vars 9 := by omega
      simp [hk, hp, this]
  · simp [hk]

/-! the hypotheses are met: the buffer "abc" of the example in `C03NextBuf.lean`, token "bc", reader offering "xy" -/
example : Rep sEx { buf := [97, 98, 99], size := 4, tok := 1, src := [120, 121, 122, 0, 0] } 2 :=
  ⟨by decide, by decide, by decide, by decide, by decide, by decide, by decide, by decide, by decide, by decide, by decide,
   by decide, by decide⟩

def sEx3 : State := { sEx with vars := fun y => if y = 900 then 1 else sEx.vars y }
example : Rep sEx3 { buf := [97, 98, 99], size := 4, tok := 1, src := [120] } 2 :=
  ⟨by decide, by decide, by decide, by decide, by decide, by decide, by decide, by decide, by decide, by decide, by decide,
   by decide, by decide⟩
example : Offers sEx3 { buf := [97, 98, 99], size := 4, tok := 1, src := [120] } 2 (schedReader []) :=
  ⟨by decide, fun i b h => by
    match i, h with
    | 0, h => simp at h; subst h; decide
    | i + 1, h => simp at h⟩
example : Reader.OK (schedReader []) := schedReader_OK []

end FlexVerif.C03Refine

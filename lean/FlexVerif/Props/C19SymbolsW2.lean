/-
  Props/C19SymbolsW2.lean — C19: rows of the symbol wiring table (see Props/C19Symbols.lean), part 2.
-/
import FlexVerif.Props.C19Symbols
namespace FlexVerif.C19Opts
open FlexVerif.Opt FlexVerif.Gen.Options

def wiring2 : List (Fld × Cond) := [
  (F.sym_M4_YY_NO_YYPANIC, .truthy F.no_yypanic),
  (F.sym_M4_YY_NO_PUSH_STATE, .truthy F.no_yy_push_state),
  (F.sym_M4_YY_NO_POP_STATE, .truthy F.no_yy_pop_state),
  (F.sym_M4_YY_NO_TOP_STATE, .truthy F.no_yy_top_state),
  (F.sym_M4_YY_NO_YYUNPUT, .truthy F.no_yyunput),
  (F.sym_M4_YY_NO_SCAN_BUFFER, .truthy F.no_yy_scan_buffer),
  (F.sym_M4_YY_NO_SCAN_BYTES, .truthy F.no_yy_scan_bytes),
  (F.sym_M4_YY_NO_SCAN_STRING, .truthy F.no_yy_scan_string),
  (F.sym_M4_YY_NO_GET_EXTRA, .truthy F.no_yyget_extra),
  (F.sym_M4_YY_NO_SET_EXTRA, .truthy F.no_yyset_extra),
  (F.sym_M4_YY_NO_GET_LENG, .truthy F.no_yyget_leng),
  (F.sym_M4_YY_NO_GET_TEXT, .truthy F.no_yyget_text),
  (F.sym_M4_YY_NO_GET_LINENO, .truthy F.no_yyget_lineno),
  (F.sym_M4_YY_NO_SET_LINENO, .truthy F.no_yyset_lineno),
  (F.sym_M4_YY_NO_GET_COLUMN, .truthy F.no_yyget_column),
  (F.sym_M4_YY_NO_SET_COLUMN, .truthy F.no_yyset_column),
  (F.sym_M4_YY_NO_GET_IN, .truthy F.no_yyget_in),
  (F.sym_M4_YY_NO_SET_IN, .truthy F.no_yyset_in),
  (F.sym_M4_YY_NO_GET_OUT, .truthy F.no_yyget_out),
  (F.sym_M4_YY_NO_SET_OUT, .truthy F.no_yyset_out),
  (F.sym_M4_YY_NO_GET_LVAL, .truthy F.no_yyget_lval)]

theorem symbols_wired_2 : ∀ r ∈ wiring2, ∀ st, Ok st →
    (dprog.run st).err.isSome = true ∨ (iffC (.truthy r.1) r.2).eval (dprog.run st).st = true :=
  wired_sound wiring2 (by decide +kernel)

end FlexVerif.C19Opts

/-
  Props/C07Reject.lean — C07: the REJECT machinery of the generated scanner.  `tools/fv/gen_reject.py` translates the
  code from `yy_find_action:` to YY_DO_BEFORE_ACTION (pop a state, the `find_rule` loop) and the macro `yyreject()`
  from a scanner flex has just generated for a rule set with REJECT (`Gen/Reject.lean`).  The array is
  `yy_state_buf` — the automaton state after 0, 1, 2, … characters of the token —, `yy_accept`/`yy_acclist` are
  read-only tables.  Proved for every state stack and every pair of tables whose entries are in range: the first
  action run and each one run by a further `yyreject()` are, in order, the entries of `remaining` — for the longest
  prefix first the rules of its state's `yy_acclist` slice in table order, then the same for the prefix one character
  shorter, and so on; `yy_cp`/`yy_full_match` is the end of that prefix; no read is out of bounds.  The slices are
  what the decoder `Tables.acceptOf` returns, which the validator proves equal to the specification's rule lists.
-/
import FlexVerif.Imp.Lang
import FlexVerif.Gen.Reject
import FlexVerif.Props.C01Step
namespace FlexVerif.C07Reject
open FlexVerif.Imp FlexVerif.Gen.Reject FlexVerif.C01Step

def hiOf (acc : Array Int) (stk : List Int) (i : Nat) : Int := (rd acc (stk.getD i 0 + 1)).getD 0
def loOf (acc : Array Int) (stk : List Int) (i : Nat) : Int := (rd acc (stk.getD i 0)).getD 0

/-- what is left of one state's slice of `yy_acclist` from index `lp` on, offered at end position `cp` -/
def here (acl : Array Int) (hi lp cp : Int) : List (Int × Int) :=
  if lp ≠ 0 then ((acl.toList.drop lp.toNat).take (hi.toNat - lp.toNat)).map (fun r => (cp, r)) else []

/-- the (end position, rule) pairs still to be offered: from `yy_acclist[lp]` to the end of the slice of the state on top,
    then the whole slices of the states below, each one position earlier -/
def remaining (acc acl : Array Int) (stk : List Int) : Nat → Int → Int → List (Int × Int)
  | 0, lp, cp => here acl (hiOf acc stk 0) lp cp
  | sp + 1, lp, cp => here acl (hiOf acc stk (sp + 1)) lp cp ++ remaining acc acl stk sp (loOf acc stk sp) (cp - 1)

/-- the table entries the machinery reads for the states on the stack exist and are in range -/
def WF (acc acl : Array Int) (stk : List Int) (sp : Nat) : Prop :=
  ∀ i, i ≤ sp → ∃ lo hi, rd acc (stk.getD i 0) = some lo ∧ rd acc (stk.getD i 0 + 1) = some hi ∧ 0 ≤ lo ∧
    (lo ≠ 0 → hi ≤ acl.size)

def loopCond : Ex := .lit 1
def brk : St := .seq (.assign 4 (.tab 7 (.var 2))) (.seq (.assign 5 (.var 3)) (.ret (.lit 0)))
def test : Ex := .and (.var 2) (.lt (.var 2) (.tab 1 (.add (.var 1) (.lit 1))))
def down : St := .seq (.assign 3 (.add (.var 3) (.lit (-1))))
  (.seq (.seq (.assign 0 (.add (.var 0) (.lit (-1)))) (.assign 1 (.idx (.var 0)))) (.assign 2 (.tab 1 (.var 1))))
def loopBody : St := .seq (.ite test brk .skip) down
def findRule : St := .scope (.while_ loopCond loopBody)

theorem findAction_shape : findAction =
    .seq (.seq (.assign 0 (.add (.var 0) (.lit (-1)))) (.assign 1 (.idx (.var 0)))) (.seq (.assign 2 (.tab 1 (.var 1))) findRule) := rfl
theorem reject_shape : reject = .seq (.assign 3 (.var 5)) (.seq (.assign 2 (.add (.var 2) (.lit 1))) findRule) := rfl


theorem eval_and_some {s : State} {a b : Ex} {x y : Int} (ha : a.eval s = some x) (hb : b.eval s = some y) :
    (Ex.and a b).eval s = some (b2i (x != 0 && y != 0)) := by simp [Ex.eval, ha, hb, bind, Option.bind, pure]

theorem run_seq_returned {a b : St} {s s' : State} {v : Int} (h : a.run s = (s', .returned v)) :
    (St.seq a b).run s = (s', .returned v) := by simp [St.run, h]

theorem slice_cons (l : List Int) (a b : Nat) (ha : a < b) (hb : b ≤ l.length) :
    (l.drop a).take (b - a) = l[a]'(by omega) :: (l.drop (a + 1)).take (b - (a + 1)) := by
  have h : a < l.length := by omega
  rw [List.drop_eq_getElem_cons h]
  have : b - a = (b - (a + 1)) + 1 := by omega
  rw [this, List.take_succ_cons]

theorem here_cons (acl : Array Int) (hi lp cp : Int) (hp : 0 < lp) (hlt : lp < hi) (hsz : hi ≤ acl.size) :
    ∃ r, rd acl lp = some r ∧ here acl hi lp cp = (cp, r) :: here acl hi (lp + 1) cp := by
  have ha : lp.toNat < hi.toNat := by omega
  have hb : hi.toNat ≤ acl.toList.length := by simp; omega
  have hi' : lp.toNat < acl.size := by simp at hb; omega
  refine ⟨acl[lp.toNat], ?_, ?_⟩
  · have : ¬ lp < 0 := by omega
    simp only [rd, this, if_false]
    rw [Array.getElem?_eq_getElem hi']
  · have hne : lp ≠ 0 := by omega
    have hne' : lp + 1 ≠ 0 := by omega
    have e1 : (lp + 1).toNat = lp.toNat + 1 := by omega
    simp only [here, hne, hne', if_true, e1, ne_eq, not_false_eq_true]
    rw [slice_cons _ _ _ ha hb]
    simp

theorem here_nil (acl : Array Int) (hi lp cp : Int) (h : ¬ (lp ≠ 0 ∧ lp < hi)) (hp : lp ≠ 0 → 0 < lp) : here acl hi lp cp = [] := by
  unfold here
  by_cases hz : lp = 0
  · simp [hz]
  · have hge : ¬ lp < hi := fun h' => h ⟨hz, h'⟩
    have := hp hz
    have : hi.toNat - lp.toNat = 0 := by omega
    simp [hz, this]

theorem remaining_break (acc acl : Array Int) (stk : List Int) (sp : Nat) (lp cp : Int) (hp : 0 < lp) (hlt : lp < hiOf acc stk sp)
    (hsz : hiOf acc stk sp ≤ acl.size) :
    ∃ r, rd acl lp = some r ∧ remaining acc acl stk sp lp cp = (cp, r) :: remaining acc acl stk sp (lp + 1) cp := by
  obtain ⟨r, hr, hh⟩ := here_cons acl (hiOf acc stk sp) lp cp hp hlt hsz
  refine ⟨r, hr, ?_⟩
  cases sp with
  | zero => simp only [remaining]; exact hh
  | succ sp => simp only [remaining, hh, List.cons_append]

/-- **the `find_rule` loop**: from a state of the machinery whose list of remaining alternatives starts with `(c, r)`,
    the loop leaves through its `break` with `yy_act = r`, `yy_full_match = yy_cp = c`, at a position whose remaining
    alternatives (after `++yy_lp`) are the rest; nothing is read outside the tables or the state buffer -/
theorem find_loop (acc acl : Array Int) : ∀ (sp : Nat) (s : State) (fuel : Nat) (c r : Int) (rest : List (Int × Int)),
    Holds s 1 acc → Holds s 7 acl → s.vars 0 = sp → sp < s.arr.length → s.vars 1 = s.arr.getD sp 0 → WF acc acl s.arr sp →
    (s.vars 2 ≠ 0 → 0 < s.vars 2 ∧ hiOf acc s.arr sp ≤ acl.size) →
    remaining acc acl s.arr sp (s.vars 2) (s.vars 3) = (c, r) :: rest → sp + 2 ≤ fuel →
    ∃ (s' : State) (sp' : Nat), loop (fun x => loopCond.eval x) (fun x => loopBody.run x) fuel s = (s', .returned 0) ∧
      s'.vars 4 = r ∧ s'.vars 5 = c ∧ s'.vars 3 = c ∧ sp' ≤ sp ∧ s'.vars 0 = sp' ∧ s'.vars 1 = s.arr.getD sp' 0 ∧
      s'.arr = s.arr ∧ s'.log = s.log ∧ Holds s' 1 acc ∧ Holds s' 7 acl ∧ 0 < s'.vars 2 ∧
      hiOf acc s.arr sp' ≤ acl.size ∧ remaining acc acl s.arr sp' (s'.vars 2 + 1) c = rest := by
  intro sp
  induction sp with
  | zero =>
    intro s fuel c r rest h1 h7 h0 hlen hcur hwf hlp hrem hf
    obtain ⟨f, rfl⟩ : ∃ f, fuel = f + 1 := ⟨fuel - 1, by omega⟩
    obtain ⟨lo, hi, hlo, hhi, hlo0, hhisz⟩ := hwf 0 (Nat.le_refl _)
    have hhiOf : hiOf acc s.arr 0 = hi := by unfold hiOf; rw [hhi]; rfl
    have hc : loopCond.eval s = some 1 := rfl
    have hone : ((1 : Int) != 0) = true := by decide
    have htab : (Ex.tab 1 (.add (.var 1) (.lit 1))).eval s = some hi := by
      rw [tab_eval h1 _ _ (eval_add_some (eval_var s 1) (eval_lit s 1)), hcur]; exact hhi
    have htest : test.eval s = some (b2i (s.vars 2 != 0 && b2i (s.vars 2 < hi) != 0)) :=
      eval_and_some (eval_var s 2) (eval_lt_some (eval_var s 2) htab)
    by_cases hA : s.vars 2 ≠ 0 ∧ s.vars 2 < hi
    · obtain ⟨hp, hsz⟩ := hlp hA.1
      obtain ⟨r', hr', hbr⟩ := remaining_break acc acl s.arr 0 (s.vars 2) (s.vars 3) hp (by rw [hhiOf]; exact hA.2) hsz
      rw [hbr] at hrem
      simp only [List.cons.injEq, Prod.mk.injEq] at hrem
      obtain ⟨⟨hc', hrr⟩, hrest⟩ := hrem
      subst hrr
      have hacl : (Ex.tab 7 (.var 2)).eval s = some r' := by rw [tab_eval h7 _ _ (eval_var s 2)]; exact hr'
      have hbody : loopBody.run s = (setVar (setVar s 4 r') 5 (s.vars 3), .returned 0) := by
        have hbrk : brk.run s = (setVar (setVar s 4 r') 5 (s.vars 3), .returned 0) := by
          have e5 : (Ex.var 3).eval (setVar s 4 r') = some (s.vars 3) := by rw [eval_var, setVar_vars, if_neg (by omega)]
          rw [brk, run_seq_normal (run_assign_some hacl), run_seq_normal (run_assign_some e5)]
          rfl
        have : (St.ite test brk .skip).run s = (setVar (setVar s 4 r') 5 (s.vars 3), .returned 0) := by
          rw [run_ite_some htest]
          have : (b2i (s.vars 2 != 0 && b2i (s.vars 2 < hi) != 0) != 0) = true := by simp [b2i, hA.1, hA.2]
          simp only [this, if_true]; exact hbrk
        rw [loopBody]; exact run_seq_returned this
      refine ⟨setVar (setVar s 4 r') 5 (s.vars 3), 0, ?_, ?_, ?_, ?_, Nat.le_refl _, ?_, ?_, rfl, rfl,
        holds_setVar (holds_setVar h1 4 r' (by omega)) 5 _ (by omega),
        holds_setVar (holds_setVar h7 4 r' (by omega)) 5 _ (by omega), ?_, hsz, ?_⟩
      · rw [loop]; try dsimp only
        rw [hc, hbody]; simp only [hone, if_true]
      · simp [setVar_vars]
      · simp [setVar_vars, hc']
      · simp [setVar_vars, hc']
      · simp [setVar_vars, h0]
      · simp [setVar_vars, hcur]
      · simp [setVar_vars]; exact hp
      · simp only [setVar_vars]; rw [← hc']; simpa using hrest
    · exfalso
      have := here_nil acl hi (s.vars 2) (s.vars 3) hA (fun h => (hlp h).1)
      simp [remaining, hhiOf, this] at hrem
  | succ sp ih =>
    intro s fuel c r rest h1 h7 h0 hlen hcur hwf hlp hrem hf
    obtain ⟨f, rfl⟩ : ∃ f, fuel = f + 1 := ⟨fuel - 1, by omega⟩
    obtain ⟨lo, hi, hlo, hhi, hlo0, hhisz⟩ := hwf (sp + 1) (Nat.le_refl _)
    have hhiOf : hiOf acc s.arr (sp + 1) = hi := by unfold hiOf; rw [hhi]; rfl
    have hc : loopCond.eval s = some 1 := rfl
    have hone : ((1 : Int) != 0) = true := by decide
    have htab : (Ex.tab 1 (.add (.var 1) (.lit 1))).eval s = some hi := by
      rw [tab_eval h1 _ _ (eval_add_some (eval_var s 1) (eval_lit s 1)), hcur]; exact hhi
    have htest : test.eval s = some (b2i (s.vars 2 != 0 && b2i (s.vars 2 < hi) != 0)) :=
      eval_and_some (eval_var s 2) (eval_lt_some (eval_var s 2) htab)
    by_cases hA : s.vars 2 ≠ 0 ∧ s.vars 2 < hi
    · obtain ⟨hp, hsz⟩ := hlp hA.1
      obtain ⟨r', hr', hbr⟩ := remaining_break acc acl s.arr (sp + 1) (s.vars 2) (s.vars 3) hp (by rw [hhiOf]; exact hA.2) hsz
      rw [hbr] at hrem
      simp only [List.cons.injEq, Prod.mk.injEq] at hrem
      obtain ⟨⟨hc', hrr⟩, hrest⟩ := hrem
      subst hrr
      have hacl : (Ex.tab 7 (.var 2)).eval s = some r' := by rw [tab_eval h7 _ _ (eval_var s 2)]; exact hr'
      have hbody : loopBody.run s = (setVar (setVar s 4 r') 5 (s.vars 3), .returned 0) := by
        have hbrk : brk.run s = (setVar (setVar s 4 r') 5 (s.vars 3), .returned 0) := by
          have e5 : (Ex.var 3).eval (setVar s 4 r') = some (s.vars 3) := by rw [eval_var, setVar_vars, if_neg (by omega)]
          rw [brk, run_seq_normal (run_assign_some hacl), run_seq_normal (run_assign_some e5)]
          rfl
        have : (St.ite test brk .skip).run s = (setVar (setVar s 4 r') 5 (s.vars 3), .returned 0) := by
          rw [run_ite_some htest]
          have : (b2i (s.vars 2 != 0 && b2i (s.vars 2 < hi) != 0) != 0) = true := by simp [b2i, hA.1, hA.2]
          simp only [this, if_true]; exact hbrk
        rw [loopBody]; exact run_seq_returned this
      refine ⟨setVar (setVar s 4 r') 5 (s.vars 3), sp + 1, ?_, ?_, ?_, ?_, Nat.le_refl _, ?_, ?_, rfl, rfl,
        holds_setVar (holds_setVar h1 4 r' (by omega)) 5 _ (by omega),
        holds_setVar (holds_setVar h7 4 r' (by omega)) 5 _ (by omega), ?_, hsz, ?_⟩
      · rw [loop]; try dsimp only
        rw [hc, hbody]; simp only [hone, if_true]
      · simp [setVar_vars]
      · simp [setVar_vars, hc']
      · simp [setVar_vars, hc']
      · simp [setVar_vars, h0]
      · simp [setVar_vars, hcur]
      · simp [setVar_vars]; exact hp
      · simp only [setVar_vars]; rw [← hc']; simpa using hrest
    · -- nothing (left) for this prefix: one character back
      have hnil := here_nil acl hi (s.vars 2) (s.vars 3) hA (fun h => (hlp h).1)
      simp only [remaining, hhiOf, hnil, List.nil_append] at hrem
      obtain ⟨lo', hi', hlo', hhi', hlo0', hhisz'⟩ := hwf sp (by omega)
      have hloOf : loOf acc s.arr sp = lo' := by unfold loOf; rw [hlo']; rfl
      have hhiOf' : hiOf acc s.arr sp = hi' := by unfold hiOf; rw [hhi']; rfl
      rw [hloOf] at hrem
      have hskip : (St.ite test brk .skip).run s = (s, .normal) := by
        rw [run_ite_some htest]
        have : (b2i (s.vars 2 != 0 && b2i (s.vars 2 < hi) != 0) != 0) = false := by
          by_cases hz : s.vars 2 = 0
          · simp [b2i, hz]
          · have hge : ¬ s.vars 2 < hi := fun h => hA ⟨hz, h⟩
            simp [b2i, hz, hge]
        simp only [this, Bool.false_eq_true, if_false]; rfl
      have hsp : sp < s.arr.length := by omega
      have hd1 : (St.assign 3 (.add (.var 3) (.lit (-1)))).run s = (setVar s 3 (s.vars 3 - 1), .normal) :=
        run_assign_some (by rw [eval_add_some (eval_var s 3) (eval_lit s (-1))]; rfl)
      have hd2 : (St.assign 0 (.add (.var 0) (.lit (-1)))).run (setVar s 3 (s.vars 3 - 1)) =
          (setVar (setVar s 3 (s.vars 3 - 1)) 0 (sp : Int), .normal) :=
        run_assign_some (by rw [eval_add_some (eval_var _ 0) (eval_lit _ (-1))]; simp [setVar_vars, h0]; omega)
      have hd3 : (St.assign 1 (.idx (.var 0))).run (setVar (setVar s 3 (s.vars 3 - 1)) 0 (sp : Int)) =
          (setVar (setVar (setVar s 3 (s.vars 3 - 1)) 0 (sp : Int)) 1 (s.arr.getD sp 0), .normal) := by
        apply run_assign_some
        exact eval_idx_some (eval_var _ 0) (by simp [setVar_vars]) (by
          simp only [setVar_vars, setVar_arr, if_true, Int.toNat_natCast]
          rw [List.getElem?_eq_getElem hsp]; simp [List.getD_eq_getElem?_getD, List.getElem?_eq_getElem hsp])
      have h1_3 : Holds (setVar (setVar (setVar s 3 (s.vars 3 - 1)) 0 (sp : Int)) 1 (s.arr.getD sp 0)) 1 acc :=
        holds_setVar (holds_setVar (holds_setVar h1 3 _ (by omega)) 0 _ (by omega)) 1 _ (by omega)
      have h7_3 : Holds (setVar (setVar (setVar s 3 (s.vars 3 - 1)) 0 (sp : Int)) 1 (s.arr.getD sp 0)) 7 acl :=
        holds_setVar (holds_setVar (holds_setVar h7 3 _ (by omega)) 0 _ (by omega)) 1 _ (by omega)
      have hd4 : (St.assign 2 (.tab 1 (.var 1))).run (setVar (setVar (setVar s 3 (s.vars 3 - 1)) 0 (sp : Int)) 1 (s.arr.getD sp 0)) =
          (setVar (setVar (setVar (setVar s 3 (s.vars 3 - 1)) 0 (sp : Int)) 1 (s.arr.getD sp 0)) 2 lo', .normal) :=
        run_assign_some (by rw [tab_eval h1_3 _ _ (eval_var _ 1)]; simp only [setVar_vars, if_true]; exact hlo')
      have hdown : down.run s = (setVar (setVar (setVar (setVar s 3 (s.vars 3 - 1)) 0 (sp : Int)) 1 (s.arr.getD sp 0)) 2 lo', .normal) := by
        rw [down, run_seq_normal hd1]
        have : (St.seq (.assign 0 (.add (.var 0) (.lit (-1)))) (.assign 1 (.idx (.var 0)))).run (setVar s 3 (s.vars 3 - 1)) =
            (setVar (setVar (setVar s 3 (s.vars 3 - 1)) 0 (sp : Int)) 1 (s.arr.getD sp 0), .normal) := by
          rw [run_seq_normal hd2, hd3]
        rw [run_seq_normal this, hd4]
      have hbody : loopBody.run s = (setVar (setVar (setVar (setVar s 3 (s.vars 3 - 1)) 0 (sp : Int)) 1 (s.arr.getD sp 0)) 2 lo', .normal) := by
        rw [loopBody, run_seq_normal hskip, hdown]
      obtain ⟨s', sp', hl, e4, e5, e3, hle, e0, e1, ea, el, hh1, hh7, hpos, hsz, hrm⟩ :=
        ih (setVar (setVar (setVar (setVar s 3 (s.vars 3 - 1)) 0 (sp : Int)) 1 (s.arr.getD sp 0)) 2 lo') f c r rest
          (holds_setVar h1_3 2 _ (by omega)) (holds_setVar h7_3 2 _ (by omega)) (by simp [setVar_vars])
          (by simpa using hsp) (by simp [setVar_vars]) (fun i hi => hwf i (by omega))
          (by simp only [setVar_vars, setVar_arr, if_true, hhiOf']; intro hne; exact ⟨by omega, hhisz' hne⟩)
          (by simp only [setVar_vars, setVar_arr, if_true]; simpa using hrem) (by omega)
      refine ⟨s', sp', ?_, e4, e5, e3, by omega, e0, by simpa using e1, by rw [ea]; simp, by rw [el]; simp, hh1, hh7, hpos,
        by simpa using hsz, by simpa using hrm⟩
      rw [loop]; try dsimp only
      rw [hc, hbody]; simp only [hone, if_true]; exact hl


theorem run_scope_returned {b : St} {s s' : State} {v : Int} (h : b.run s = (s', .returned v)) :
    (St.scope b).run s = (s', .normal) := by simp [St.run, h]

/-- the machinery's state between two offers -/
structure At (acc acl : Array Int) (s : State) (sp : Nat) : Prop where
  t1 : Holds s 1 acc
  t7 : Holds s 7 acl
  sp_eq : s.vars 0 = sp
  inb : sp < s.arr.length
  cur : s.vars 1 = s.arr.getD sp 0
  wf : WF acc acl s.arr sp

theorem findRule_run (acc acl : Array Int) (s : State) (sp : Nat) (c r : Int) (rest : List (Int × Int)) (hA : At acc acl s sp)
    (hlp : s.vars 2 ≠ 0 → 0 < s.vars 2 ∧ hiOf acc s.arr sp ≤ acl.size)
    (hrem : remaining acc acl s.arr sp (s.vars 2) (s.vars 3) = (c, r) :: rest) :
    ∃ (s' : State) (sp' : Nat), findRule.run s = (s', .normal) ∧ s'.vars 4 = r ∧ s'.vars 5 = c ∧ s'.vars 3 = c ∧ sp' ≤ sp ∧
      At acc acl s' sp' ∧ s'.arr = s.arr ∧ s'.log = s.log ∧ 0 < s'.vars 2 ∧ hiOf acc s.arr sp' ≤ acl.size ∧
      remaining acc acl s.arr sp' (s'.vars 2 + 1) c = rest := by
  obtain ⟨s', sp', hl, e4, e5, e3, hle, e0, e1, ea, el, hh1, hh7, hpos, hsz, hrm⟩ :=
    find_loop acc acl sp s (s.arr.length + 3) c r rest hA.t1 hA.t7 hA.sp_eq hA.inb hA.cur hA.wf hlp hrem (by have := hA.inb; omega)
  refine ⟨s', sp', ?_, e4, e5, e3, hle, ⟨hh1, hh7, e0, by rw [ea]; have := hA.inb; omega, by rw [ea]; exact e1,
    by rw [ea]; exact fun i hi => hA.wf i (by omega)⟩, ea, el, hpos, hsz, hrm⟩
  have hw : (St.while_ loopCond loopBody).run s = (s', .returned 0) := by simp only [St.run]; exact hl
  exact run_scope_returned hw

/-- **entering at `yy_find_action`** with `k + 1` states on the stack (`yy_state_ptr` one past the last): the first action
    offered is the head of the list of all alternatives -/
theorem findAction_spec (acc acl : Array Int) (s : State) (k : Nat) (c r : Int) (rest : List (Int × Int))
    (h1 : Holds s 1 acc) (h7 : Holds s 7 acl) (hsp : s.vars 0 = ((k + 1 : Nat) : Int)) (hin : k < s.arr.length)
    (hwf : WF acc acl s.arr k) (hrem : remaining acc acl s.arr k (loOf acc s.arr k) (s.vars 3) = (c, r) :: rest) :
    ∃ (s' : State) (sp' : Nat), findAction.run s = (s', .normal) ∧ s'.vars 4 = r ∧ s'.vars 5 = c ∧ s'.vars 3 = c ∧ sp' ≤ k ∧
      At acc acl s' sp' ∧ s'.arr = s.arr ∧ s'.log = s.log ∧ 0 < s'.vars 2 ∧ hiOf acc s.arr sp' ≤ acl.size ∧
      remaining acc acl s.arr sp' (s'.vars 2 + 1) c = rest := by
  obtain ⟨lo, hi, hlo, hhi, hlo0, hhisz⟩ := hwf k (Nat.le_refl _)
  have hloOf : loOf acc s.arr k = lo := by unfold loOf; rw [hlo]; rfl
  have hhiOf : hiOf acc s.arr k = hi := by unfold hiOf; rw [hhi]; rfl
  have hd2 : (St.assign 0 (.add (.var 0) (.lit (-1)))).run s = (setVar s 0 (k : Int), .normal) :=
    run_assign_some (by rw [eval_add_some (eval_var _ 0) (eval_lit _ (-1)), hsp]; simp; omega)
  have hd3 : (St.assign 1 (.idx (.var 0))).run (setVar s 0 (k : Int)) = (setVar (setVar s 0 (k : Int)) 1 (s.arr.getD k 0), .normal) := by
    apply run_assign_some
    exact eval_idx_some (eval_var _ 0) (by simp [setVar_vars]) (by
      simp only [setVar_vars, setVar_arr, if_true, Int.toNat_natCast]
      rw [List.getElem?_eq_getElem hin]; simp [List.getD_eq_getElem?_getD, List.getElem?_eq_getElem hin])
  have h1_2 : Holds (setVar (setVar s 0 (k : Int)) 1 (s.arr.getD k 0)) 1 acc := holds_setVar (holds_setVar h1 0 _ (by omega)) 1 _ (by omega)
  have h7_2 : Holds (setVar (setVar s 0 (k : Int)) 1 (s.arr.getD k 0)) 7 acl := holds_setVar (holds_setVar h7 0 _ (by omega)) 1 _ (by omega)
  have hd4 : (St.assign 2 (.tab 1 (.var 1))).run (setVar (setVar s 0 (k : Int)) 1 (s.arr.getD k 0)) =
      (setVar (setVar (setVar s 0 (k : Int)) 1 (s.arr.getD k 0)) 2 lo, .normal) :=
    run_assign_some (by rw [tab_eval h1_2 _ _ (eval_var _ 1)]; simp only [setVar_vars, if_true]; exact hlo)
  have hpre : (St.seq (.assign 0 (.add (.var 0) (.lit (-1)))) (.assign 1 (.idx (.var 0)))).run s =
      (setVar (setVar s 0 (k : Int)) 1 (s.arr.getD k 0), .normal) := by rw [run_seq_normal hd2, hd3]
  rw [findAction_shape, run_seq_normal hpre, run_seq_normal hd4]
  have hAt : At acc acl (setVar (setVar (setVar s 0 (k : Int)) 1 (s.arr.getD k 0)) 2 lo) k :=
    ⟨holds_setVar h1_2 2 _ (by omega), holds_setVar h7_2 2 _ (by omega), by simp [setVar_vars], by simpa using hin,
     by simp [setVar_vars], by simpa using hwf⟩
  obtain ⟨s', sp', hr, e4, e5, e3, hle, hA', ea, el, hpos, hsz, hrm⟩ := findRule_run acc acl _ k c r rest hAt
    (by simp only [setVar_vars, setVar_arr, if_true, hhiOf]; intro hne; exact ⟨by omega, hhisz hne⟩)
    (by simp only [setVar_vars, setVar_arr, if_true]; rw [← hloOf]; simpa [setVar_vars] using hrem)
  exact ⟨s', sp', hr, e4, e5, e3, hle, hA', by rw [ea]; simp, by rw [el]; simp, hpos, by simpa using hsz, by simpa using hrm⟩

/-- **yyreject()** after an offer: the next action offered is the head of what remained -/
theorem reject_spec (acc acl : Array Int) (s : State) (sp : Nat) (c r : Int) (rest : List (Int × Int)) (hA : At acc acl s sp)
    (hpos : 0 < s.vars 2) (hsz : hiOf acc s.arr sp ≤ acl.size)
    (hrem : remaining acc acl s.arr sp (s.vars 2 + 1) (s.vars 5) = (c, r) :: rest) :
    ∃ (s' : State) (sp' : Nat), reject.run s = (s', .normal) ∧ s'.vars 4 = r ∧ s'.vars 5 = c ∧ s'.vars 3 = c ∧ sp' ≤ sp ∧
      At acc acl s' sp' ∧ s'.arr = s.arr ∧ s'.log = s.log ∧ 0 < s'.vars 2 ∧ hiOf acc s.arr sp' ≤ acl.size ∧
      remaining acc acl s.arr sp' (s'.vars 2 + 1) c = rest := by
  have hr1 : (St.assign 3 (.var 5)).run s = (setVar s 3 (s.vars 5), .normal) := run_assign_some (eval_var s 5)
  have hr2 : (St.assign 2 (.add (.var 2) (.lit 1))).run (setVar s 3 (s.vars 5)) = (setVar (setVar s 3 (s.vars 5)) 2 (s.vars 2 + 1), .normal) :=
    run_assign_some (by rw [eval_add_some (eval_var _ 2) (eval_lit _ 1)]; simp [setVar_vars])
  rw [reject_shape, run_seq_normal hr1, run_seq_normal hr2]
  have hAt : At acc acl (setVar (setVar s 3 (s.vars 5)) 2 (s.vars 2 + 1)) sp :=
    ⟨holds_setVar (holds_setVar hA.t1 3 _ (by omega)) 2 _ (by omega), holds_setVar (holds_setVar hA.t7 3 _ (by omega)) 2 _ (by omega),
     by simp [setVar_vars, hA.sp_eq], by simpa using hA.inb, by simp [setVar_vars, hA.cur], by simpa using hA.wf⟩
  obtain ⟨s', sp', hr, e4, e5, e3, hle, hA', ea, el, hpos', hsz', hrm⟩ := findRule_run acc acl _ sp c r rest hAt
    (by simp only [setVar_vars, setVar_arr, if_true]; intro _; exact ⟨by omega, hsz⟩)
    (by simp only [setVar_vars, setVar_arr, if_true]; simpa [setVar_vars] using hrem)
  exact ⟨s', sp', hr, e4, e5, e3, hle, hA', by rw [ea]; simp, by rw [el]; simp, hpos', by simpa using hsz', by simpa using hrm⟩


/-! ### the order: longest prefix first, within a prefix the order of its state's rule list -/

/-- what the decoder says a state accepts, offered at end position `cp` -/
def offers (T : Tables) (st cp : Int) : List (Int × Int) := ((T.acceptOf st).getD []).map (fun r => (cp, r))

theorem accept_cases (T : Tables) (hrej : T.reject = true) (st : Int) (h : T.acceptOf st ≠ none) :
    ∃ lo hi, rd T.accept st = some lo ∧ rd T.accept (st + 1) = some hi ∧ 0 ≤ lo ∧ (lo ≠ 0 → hi ≤ T.acclist.size) ∧
      T.acceptOf st = some (if lo = 0 then [] else (T.acclist.extract lo.toNat hi.toNat).toList) := by
  unfold Tables.acceptOf at h ⊢
  rw [if_pos hrej] at h ⊢
  cases hlo : rd T.accept st with
  | none => rw [hlo] at h; exact absurd rfl h
  | some lo =>
    cases hhi : rd T.accept (st + 1) with
    | none => rw [hlo, hhi] at h; exact absurd rfl h
    | some hi =>
      rw [hlo, hhi] at h
      refine ⟨lo, hi, rfl, rfl, ?_⟩
      by_cases hz : lo = 0
      · exact ⟨by omega, fun h' => absurd hz h', by simp [hz]⟩
      · by_cases hbad : lo < 0 ∨ hi < lo ∨ hi.toNat > T.acclist.size
        · exfalso; apply h; simp only [hz, if_false, hbad, if_true]
        · exact ⟨by omega, fun _ => by omega, by simp only [hz, if_false, hbad]⟩

theorem here_eq_offers (T : Tables) (hrej : T.reject = true) (st cp : Int) (h : T.acceptOf st ≠ none) :
    here T.acclist ((rd T.accept (st + 1)).getD 0) ((rd T.accept st).getD 0) cp = offers T st cp := by
  obtain ⟨lo, hi, hlo, hhi, _, _, hacc⟩ := accept_cases T hrej st h
  unfold offers
  rw [hacc, hlo, hhi]
  simp only [Option.getD_some, here]
  by_cases hz : lo = 0
  · simp [hz]
  · simp only [hz, ne_eq, not_false_eq_true, if_true, if_false]
    rw [Array.toList_extract, List.extract_eq_take_drop]

/-- **the whole list of alternatives** of a token whose prefixes of length 0 … k lead to the states `stk[0 … k]`: for the
    longest prefix the decoder's rule list of its state, then that of the prefix one shorter, and so on -/
theorem remaining_all (T : Tables) (hrej : T.reject = true) (stk : List Int) : ∀ (k : Nat) (cp : Int),
    (∀ i, i ≤ k → T.acceptOf (stk.getD i 0) ≠ none) →
    remaining T.accept T.acclist stk k (loOf T.accept stk k) cp =
      ((List.range (k + 1)).reverse).flatMap (fun i => offers T (stk.getD i 0) (cp - ((k - i : Nat) : Int))) := by
  intro k
  induction k with
  | zero =>
    intro cp h
    simp only [remaining, hiOf, loOf]
    rw [here_eq_offers T hrej _ _ (h 0 (Nat.le_refl _))]
    simp
  | succ k ih =>
    intro cp h
    simp only [remaining, hiOf, loOf]
    rw [here_eq_offers T hrej _ _ (h (k + 1) (Nat.le_refl _))]
    have hih := ih (cp - 1) (fun i hi => h i (by omega))
    simp only [loOf] at hih
    rw [hih]
    have hr : (List.range (k + 1 + 1)).reverse = (k + 1) :: (List.range (k + 1)).reverse := by
      rw [List.range_succ, List.reverse_append]; rfl
    rw [hr, List.flatMap_cons]
    have e0 : cp - ((k + 1 - (k + 1) : Nat) : Int) = cp := by simp
    rw [e0]
    congr 1
    have hcong : ∀ (l : List Nat) (f g : Nat → List (Int × Int)), (∀ x ∈ l, f x = g x) → l.flatMap f = l.flatMap g := by
      intro l f g hfg
      induction l with
      | nil => rfl
      | cons a t iht =>
        simp only [List.flatMap_cons]
        rw [hfg a (List.mem_cons_self ..), iht (fun x hx => hfg x (List.mem_cons_of_mem _ hx))]
    apply hcong
    intro i hi
    have hik : i ≤ k := by
      have := List.mem_reverse.mp hi
      have := List.mem_range.mp this
      omega
    congr 1
    omega

/-- what `acceptOf ≠ none` gives the machinery: the entries it reads exist and are in range -/
theorem wf_of_accept (T : Tables) (hrej : T.reject = true) (stk : List Int) (k : Nat)
    (h : ∀ i, i ≤ k → T.acceptOf (stk.getD i 0) ≠ none) : WF T.accept T.acclist stk k := by
  intro i hi
  obtain ⟨lo, hi', hlo, hhi, h0, hsz, _⟩ := accept_cases T hrej _ (h i hi)
  exact ⟨lo, hi', hlo, hhi, h0, hsz⟩


/-- **C07, the first action**: for validated tables (every state on the stack has its rule list), entering at
    `yy_find_action` offers the first of all alternatives — longest prefix, first rule of its list -/
theorem first_offer (T : Tables) (hrej : T.reject = true) (s : State) (k : Nat) (c r : Int) (rest : List (Int × Int))
    (h1 : Holds s 1 T.accept) (h7 : Holds s 7 T.acclist) (hsp : s.vars 0 = ((k + 1 : Nat) : Int)) (hin : k < s.arr.length)
    (hacc : ∀ i, i ≤ k → T.acceptOf (s.arr.getD i 0) ≠ none)
    (halts : ((List.range (k + 1)).reverse).flatMap (fun i => offers T (s.arr.getD i 0) (s.vars 3 - ((k - i : Nat) : Int))) = (c, r) :: rest) :
    ∃ (s' : State) (sp' : Nat), findAction.run s = (s', .normal) ∧ s'.vars 4 = r ∧ s'.vars 5 = c ∧ s'.vars 3 = c ∧
      At T.accept T.acclist s' sp' ∧ s'.arr = s.arr ∧ 0 < s'.vars 2 ∧ hiOf T.accept s.arr sp' ≤ T.acclist.size ∧
      remaining T.accept T.acclist s.arr sp' (s'.vars 2 + 1) c = rest := by
  obtain ⟨s', sp', hr, e4, e5, e3, _, hA, ea, _, hpos, hsz, hrm⟩ :=
    findAction_spec T.accept T.acclist s k c r rest h1 h7 hsp hin (wf_of_accept T hrej s.arr k hacc)
      (by rw [remaining_all T hrej s.arr k (s.vars 3) hacc]; exact halts)
  exact ⟨s', sp', hr, e4, e5, e3, hA, ea, hpos, hsz, hrm⟩

/-! ### the hypotheses are met: three states on the stack (after "", "a", "ab"); state 1 accepts rules 1 and 2, state 2 rule 2 -/

def sEx : State :=
  { vars := fun y => if y = 0 then 3 else if y = 3 then 2
      else if y = 5001 then 4 else if y = 10001 then 0 else if y = 10017 then 1 else if y = 10033 then 3 else if y = 10049 then 4
      else if y = 5007 then 4 else if y = 10007 then 0 else if y = 10023 then 1 else if y = 10039 then 2 else if y = 10055 then 2
      else 0,
    arr := [1, 1, 2] }

/-- "ab" as rule 2; rejected: "a" as rule 1; rejected: "a" as rule 2; rejected: "" as rule 1 (the state after no character is
    state 1 in this made-up table) -/
example : let s1 := (findAction.run sEx).1
    let s2 := (reject.run s1).1
    let s3 := (reject.run s2).1
    let s4 := (reject.run s3).1
    (s1.vars 4, s1.vars 3) = (2, 2) ∧ (s2.vars 4, s2.vars 3) = (1, 1) ∧ (s3.vars 4, s3.vars 3) = (2, 1) ∧
      (s4.vars 4, s4.vars 3) = (1, 0) ∧ (reject.run s3).2 = .normal := by
  decide

end FlexVerif.C07Reject

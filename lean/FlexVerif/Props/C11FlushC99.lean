/-
  Props/C11FlushC99.lean — yy_flush_buffer(), yy_load_buffer_state() and yy_init_buffer() of the **c99 back end**
  (`Gen/FlushC99.lean`; `yyatbol_flag`, `bs_yylineno`, `bs_yycolumn`, `yytext_r`, `yyin_r` read as the default skeleton's
  names).  The first two are the default skeleton's programs; yy_init_buffer() spells the interactive flag
  `(file != NULL) && (isatty(fileno(file)) > 0)` where the default skeleton writes `file ? … : 0` — the same value for a
  0/1 `isatty` result, and the rest of `init_spec` unchanged.
-/
import FlexVerif.Gen.FlushC99
import FlexVerif.Props.C11Flush
namespace FlexVerif.C11FlushC99
open FlexVerif.Imp FlexVerif.C11Flush

theorem load_same : Gen.FlushC99.load = Gen.Flush.load := rfl
theorem flush_same : Gen.FlushC99.flush = Gen.Flush.flush := rfl

theorem flush99_spec (s : State) (hb : s.vars 0 ≠ 0) (hlen : 2 ≤ s.arr.length) :
    ∃ s', Gen.FlushC99.flush.run s = (s', .normal) ∧ Flushed s s' := by
  rw [flush_same]; exact flush_spec s hb hlen

/-- **yy_init_buffer(b, file)** of the c99 skeleton: `Inited`, the interactive flag being 1 exactly when there is a file and
    it is a terminal -/
theorem init99_spec (s : State) (hb : s.vars 0 ≠ 0) (hlen : 2 ≤ s.arr.length) :
    ∃ s', Gen.FlushC99.init.run s = (s', .normal) ∧
      s'.vars 2 = 0 ∧ s'.arr.take 2 = [0, 0] ∧ s'.vars 3 = 0 ∧ s'.vars 4 = 1 ∧ s'.vars 5 = Gen.Flush.cYY_BUFFER_NEW ∧
      s'.vars 6 = s.vars 16 ∧ s'.vars 7 = (if s.vars 16 = 0 then 0 else 1) ∧
      (if s.vars 1 = 0 then s'.vars 8 = 1 ∧ s'.vars 9 = 0 else s'.vars 8 = s.vars 8 ∧ s'.vars 9 = s.vars 9) ∧
      s'.vars 10 = (if s.vars 16 = 0 then 0 else if s.vars 17 = 0 then 0 else 1) ∧ s'.vars 18 = s.vars 18 ∧ s'.log = s.log := by
  obtain ⟨x0, x1, rest, harr⟩ : ∃ x0 x1 rest, s.arr = x0 :: x1 :: rest := by
    match h : s.arr with
    | [] => simp [h] at hlen
    | [_] => simp [h] at hlen
    | x0 :: x1 :: rest => exact ⟨x0, x1, rest, rfl⟩
  by_cases hc : s.vars 1 = 0 <;> by_cases hf : s.vars 16 = 0 <;> by_cases ht : s.vars 17 = 0
  all_goals
    refine ⟨_, by simp [Gen.FlushC99.init, St.run, Ex.eval, bind, Option.bind, pure, b2i, hb, hc, hf, ht, harr, setVar_vars]; rfl, ?_⟩
    refine ⟨?_, ?_, ?_, ?_, ?_, ?_, ?_, ?_, ?_, ?_, ?_⟩ <;> simp [setVar_vars, harr, Gen.Flush.cYY_BUFFER_NEW, hc, hf, ht]


/-- **yy_create_buffer(file, size)** of the c99 skeleton: the statement of `create_spec` -/
theorem create99_spec (s : State) (harr : s.arr = []) (hsz : 0 ≤ s.vars 20) (hcur : s.vars 1 = 0) :
    ∃ s', Gen.FlushC99.create.run s = (s', .returned 1) ∧ (s'.arr.length : Int) = s'.vars 21 + 2 ∧ s'.vars 21 = s.vars 20 ∧
      s'.vars 22 = 1 ∧ s'.vars 2 = 0 ∧ s'.arr.take 2 = [0, 0] ∧ s'.vars 3 = 0 ∧ s'.vars 4 = 1 ∧
      s'.vars 5 = Gen.Flush.cYY_BUFFER_NEW ∧ s'.vars 6 = s.vars 16 ∧ s'.vars 7 = (if s.vars 16 = 0 then 0 else 1) ∧
      s'.vars 8 = 1 ∧ s'.vars 9 = 0 ∧ s'.vars 18 = s.vars 18 ∧ s'.log = s.log := by
  obtain ⟨n, hn⟩ : ∃ n : Nat, s.vars 20 = n := ⟨(s.vars 20).toNat, by omega⟩
  have e : ((n : Int) + 2).toNat = n + 2 := by omega
  have hrep : List.replicate (n + 2) garbage = garbage :: garbage :: List.replicate n garbage := by
    rw [List.replicate_succ, List.replicate_succ]
  by_cases hf : s.vars 16 = 0 <;> by_cases ht : s.vars 17 = 0
  all_goals
    refine ⟨_, by simp [Gen.FlushC99.create, St.run, Ex.eval, bind, Option.bind, pure, b2i, hcur, hf, ht, harr, hn, e, hrep, setVar_vars]; rfl, ?_⟩
    refine ⟨?_, ?_, ?_, ?_, ?_, ?_, ?_, ?_, ?_, ?_, ?_, ?_, ?_, ?_⟩ <;>
      simp [setVar_vars, Gen.Flush.cYY_BUFFER_NEW, hcur, hf, ht, hn] <;> omega

/-- yy_delete_buffer() of the c99 skeleton is the same program -/
theorem delete_same : Gen.FlushC99.delete = Gen.Flush.delete := rfl

/-- **yy_delete_buffer(b)** of the c99 skeleton: the statement of `delete_spec` -/
theorem delete99_spec (s : State) :
    (s.vars 0 = 0 → Gen.FlushC99.delete.run s = (s, .returned 0)) ∧
    (s.vars 0 ≠ 0 → ∃ s', Gen.FlushC99.delete.run s = (s', .normal) ∧
      s'.log = s.log ++ (if s.vars 22 = 0 then [] else [((1 : Nat), (1 : Int))]) ++ [(1, 0)] ∧
      s'.vars 24 = (if s.vars 1 = 0 then s.vars 24 else 0) ∧ s'.arr = s.arr ∧
      ∀ y, y ≠ 24 → s'.vars y = s.vars y) := by
  rw [delete_same]; exact C11Flush.delete_spec s

/-- **yyrestart(f)** of the c99 skeleton, with a current buffer: the statement of `restart_current` -/
theorem restart99_current (s : State) (hslot : s.vars 24 ≠ 0) (hb : s.vars 0 ≠ 0) (hcur : s.vars 1 ≠ 0) (hlen : 2 ≤ s.arr.length) :
    ∃ s', Gen.FlushC99.restart.run s = (s', .normal) ∧ C11Flush.Restarted s s' ∧ s'.arr.length = s.arr.length ∧
      s'.vars 24 = s.vars 24 ∧ s'.vars 8 = s.vars 8 ∧ s'.vars 9 = s.vars 9 ∧ s'.log = s.log := by
  obtain ⟨x0, x1, rest, harr⟩ : ∃ x0 x1 rest, s.arr = x0 :: x1 :: rest := by
    match h : s.arr with
    | [] => simp [h] at hlen
    | [_] => simp [h] at hlen
    | x0 :: x1 :: rest => exact ⟨x0, x1, rest, rfl⟩
  by_cases hf : s.vars 25 = 0 <;> by_cases ht : s.vars 17 = 0
  all_goals
    refine ⟨_, by simp [Gen.FlushC99.restart, St.run, Ex.eval, bind, Option.bind, pure, b2i, hslot, hb, hcur, hf, ht, harr, setVar_vars]; rfl, ?_⟩
    refine ⟨⟨?_, ?_, ?_, ?_, ?_, ?_, ?_, ?_, ?_, ?_, ?_⟩, ?_, ?_, ?_, ?_, ?_⟩ <;>
      simp [setVar_vars, harr, Gen.Flush.cYY_BUFFER_NEW, hslot, hcur, hf, ht]

/-- **yyrestart(f)** of the c99 skeleton, without a current buffer: the statement of `restart_fresh` -/
theorem restart99_fresh (s : State) (hslot : s.vars 24 = 0) (harr : s.arr = []) (hsz : 0 ≤ s.vars 26) :
    ∃ s', Gen.FlushC99.restart.run s = (s', .normal) ∧ C11Flush.Restarted s s' ∧ (s'.arr.length : Int) = s.vars 26 + 2 ∧
      s'.vars 21 = s.vars 26 ∧ s'.vars 22 = 1 ∧ s'.vars 8 = 1 ∧ s'.vars 9 = 0 ∧ s'.log = s.log ++ [(2, 0)] := by
  obtain ⟨n, hn⟩ : ∃ n : Nat, s.vars 26 = n := ⟨(s.vars 26).toNat, by omega⟩
  have e : ((n : Int) + 2).toNat = n + 2 := by omega
  have hrep : List.replicate (n + 2) garbage = garbage :: garbage :: List.replicate n garbage := by
    rw [List.replicate_succ, List.replicate_succ]
  by_cases hy : s.vars 14 = 0 <;> by_cases hf : s.vars 25 = 0 <;> by_cases ht : s.vars 17 = 0
  all_goals
    refine ⟨_, by simp [Gen.FlushC99.restart, St.run, Ex.eval, bind, Option.bind, pure, b2i, hslot, hy, hf, ht, harr, hn, e, hrep, setVar_vars]; rfl, ?_⟩
    refine ⟨⟨?_, ?_, ?_, ?_, ?_, ?_, ?_, ?_, ?_, ?_, ?_⟩, ?_, ?_, ?_, ?_, ?_, ?_⟩ <;>
      simp [setVar_vars, Gen.Flush.cYY_BUFFER_NEW, hslot, hy, hf, ht, hn] <;> omega

end FlexVerif.C11FlushC99

/-
  Props/C19SymbolsR4.lean — C19: `%option` word … check_options() … readin(), rows part 4 (see Props/C19Symbols.lean).
-/
import FlexVerif.Props.C19Symbols
namespace FlexVerif.C19Opts
open FlexVerif.Opt FlexVerif.Gen.Options

def reaches4 : List (Stmt × Fld × Bool × Cond) := [
  (O.o_yyget_lineno_off, F.sym_M4_YY_NO_GET_LINENO, true, .ff),
  (O.o_yyset_lineno_off, F.sym_M4_YY_NO_SET_LINENO, true, .ff),
  (O.o_yyget_in_off, F.sym_M4_YY_NO_GET_IN, true, .ff),
  (O.o_yyset_in_off, F.sym_M4_YY_NO_SET_IN, true, .ff),
  (O.o_yyget_out_off, F.sym_M4_YY_NO_GET_OUT, true, .ff),
  (O.o_yyset_out_off, F.sym_M4_YY_NO_SET_OUT, true, .ff),
  (O.o_yyget_lval_off, F.sym_M4_YY_NO_GET_LVAL, true, .ff),
  (O.o_yyset_lval_off, F.sym_M4_YY_NO_SET_LVAL, true, .ff),
  (O.o_yyget_lloc_off, F.sym_M4_YY_NO_GET_LLOC, true, .ff),
  (O.o_yyset_lloc_off, F.sym_M4_YY_NO_SET_LLOC, true, .ff),
  (O.o_yyget_debug_off, F.sym_M4_YY_NO_GET_DEBUG, true, .ff),
  (O.o_yyset_debug_off, F.sym_M4_YY_NO_SET_DEBUG, true, .ff)]

theorem options_reach_skeleton_4 : ∀ r ∈ reaches4, ∀ st, Ok st →
    ((pipeline r.1).run st).err.isSome = true ∨ r.2.2.2.eval st = true ∨
      (reachQ r).eval ((pipeline r.1).run st).st = true :=
  reach_sound reaches4 (by decide +kernel)

end FlexVerif.C19Opts

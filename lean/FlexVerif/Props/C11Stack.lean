/-
  Props/C11Stack.lean — C11, the buffer stack: theorems about the programs of `Gen/BufStack.lean`,
  which `tools/fv/gen_bufstack.py` translates from a scanner flex has just generated
  (yyensure_buffer_stack, yypush_buffer_state, yypop_buffer_state, yy_switch_to_buffer,
  yy_current_buffer()).  For every sequence of these calls: the code keeps a stack of buffer handles
  with the current buffer on top, yypop_buffer_state deletes exactly the current buffer and makes the
  one below current again, yy_switch_to_buffer replaces the current one without touching the rest,
  and no access to `yy_buffer_stack[]` is ever out of bounds — the growth by 8 slots and the zeroing
  of fresh slots included.
-/
import FlexVerif.Imp.Lang
import FlexVerif.Gen.BufStack
namespace FlexVerif.C11Stack
open FlexVerif.Imp FlexVerif.Gen.BufStack

/-- the specification: the buffers below the current one (bottom first), the current one (0: none),
    the buffers deleted so far -/
structure AB where
  below : List Int := []
  cur : Int := 0
  deleted : List Int := []

structure R (s : State) (a : AB) : Prop where
  log : s.log = a.deleted.map fun b => (fDelete, b)
  nonzero : ∀ b ∈ a.below, b ≠ 0
  curzero : a.cur = 0 → a.below = []
  shape : (s.vars vStack = 0 ∧ s.arr = [] ∧ a.below = [] ∧ a.cur = 0) ∨
          (s.vars vStack ≠ 0 ∧ s.vars vMax = s.arr.length ∧ s.vars vTop = a.below.length ∧
            a.below.length < s.arr.length ∧ s.arr.take a.below.length = a.below ∧
            s.arr[a.below.length]? = some a.cur)

theorem setVar_vars (s : State) (x y : Nat) (v : Int) : (setVar s x v).vars y = if y = x then v else s.vars y := rfl
@[simp] theorem setVar_arr (s : State) (x : Nat) (v : Int) : (setVar s x v).arr = s.arr := rfl
@[simp] theorem setVar_log (s : State) (x : Nat) (v : Int) : (setVar s x v).log = s.log := rfl

/-- `yy_current_buffer()` -/
theorem current_refines {s : State} {a : AB} (h : R s a) : currentEx.eval s = some a.cur := by
  rcases h.shape with ⟨h0, _, _, hc⟩ | ⟨h1, _, ht, _, _, hg⟩
  · have : s.vars 0 = 0 := h0
    simp [currentEx, Ex.eval, bind, Option.bind, this, hc]
  · have h1' : s.vars 0 ≠ 0 := h1
    have ht' : s.vars 1 = a.below.length := ht
    simp [currentEx, Ex.eval, bind, Option.bind, h1', ht', hg]

/-- after `yyensure_buffer_stack()`: the stack exists and has room for one more push -/
structure Ready (s0 s : State) (a : AB) : Prop where
  rep : R s a
  alloc : s.vars vStack ≠ 0
  room : a.below.length + 1 < s.arr.length ∨ a.cur = 0
  arg : s.vars vArg = s0.vars vArg

theorem tdiv8 (k : Int) : Int.tdiv (k * 8) 8 = k := Int.mul_tdiv_cancel _ (by decide)

theorem ensure_spec {s : State} {a : AB} (h : R s a) :
    ∃ s' o, ensure.run s = (s', o) ∧ (o = .normal ∨ o = .returned 0) ∧ Ready s s' a := by
  rcases h.shape with ⟨h0, harr, hb, hc⟩ | ⟨h1, hm, ht, hlt, htk, hg⟩
  · -- first call: one slot, zeroed
    have h0' : s.vars 0 = 0 := h0
    refine ⟨{ (setVar (setVar (setVar (setVar s 3 1) 0 1) 2 1) 1 0) with arr := [0] }, .returned 0, ?_, Or.inr rfl, ?_⟩
    · simp [ensure, St.run, Ex.eval, bind, Option.bind, pure, setVar_vars, h0', harr, b2i, garbage]
      rfl
    · refine ⟨⟨?_, h.nonzero, h.curzero, Or.inr ⟨?_, ?_, ?_, ?_, ?_, ?_⟩⟩, ?_, Or.inr hc, ?_⟩
      · simpa using h.log
      · simp [setVar_vars, vStack]
      · simp [setVar_vars, vMax]
      · simp [setVar_vars, vTop, hb]
      · simp [hb]
      · simp [hb]
      · simp [hb, hc]
      · simp [setVar_vars, vStack]
      · simp [setVar_vars, vArg]
  · have h1' : s.vars 0 ≠ 0 := h1
    have hm' : s.vars 2 = s.arr.length := hm
    have ht' : s.vars 1 = a.below.length := ht
    by_cases hfull : a.below.length + 1 < s.arr.length
    · -- room left: nothing happens
      have hle : ((s.arr.length : Int) - 1 ≤ (a.below.length : Int)) = False := by simp; omega
      refine ⟨s, .normal, ?_, Or.inl rfl, ⟨h, h1, Or.inl hfull, rfl⟩⟩
      simp [ensure, St.run, Ex.eval, bind, Option.bind, pure, h1', hm', ht', hle, b2i]
    · -- the top slot is the last one: eight more, zeroed
      have heq : a.below.length + 1 = s.arr.length := by omega
      have hle : ((s.arr.length : Int) - 1 ≤ (a.below.length : Int)) = True := by simp; omega
      have hk : ((s.arr.length : Int) + 8).toNat - s.arr.length = 8 := by omega
      have hd1 : Int.tdiv (((s.arr.length : Int) + 8) * 8) 8 = (s.arr.length : Int) + 8 := tdiv8 _
      refine ⟨{ (setVar (setVar (setVar (setVar s 4 8) 3 (s.arr.length + 8)) 0 1) 2 (s.arr.length + 8)) with
                  arr := s.arr ++ List.replicate 8 0 }, .normal, ?_, Or.inl rfl, ?_⟩
      · simp [ensure, St.run, Ex.eval, bind, Option.bind, pure, setVar_vars, h1', hm', ht', hle, b2i, hd1, hk, garbage]
        rfl
      · have hget : (s.arr ++ List.replicate 8 (0 : Int))[a.below.length]? = some a.cur := by
          rw [List.getElem?_append_left hlt]; exact hg
        have htk' : (s.arr ++ List.replicate 8 (0 : Int)).take a.below.length = a.below := by
          rw [List.take_append_of_le_length (Nat.le_of_lt hlt)]; exact htk
        refine ⟨⟨?_, h.nonzero, h.curzero, Or.inr ⟨?_, ?_, ?_, ?_, htk', hget⟩⟩, ?_, Or.inl ?_, ?_⟩
        · simpa using h.log
        · simp [setVar_vars, vStack]
        · simp [setVar_vars, vMax]
        · simp [setVar_vars, vTop, ht']
        · simp; omega
        · simp [setVar_vars, vStack]
        · simp; omega
        · simp [setVar_vars, vArg]

theorem R_setArg {s : State} {a : AB} (h : R s a) (x : Int) : R (setVar s vArg x) a := by
  refine ⟨by simpa using h.log, h.nonzero, h.curzero, ?_⟩
  rcases h.shape with ⟨h0, h1, h2, h3⟩ | ⟨h1, hm, ht, hlt, htk, hg⟩
  · exact Or.inl ⟨by rw [setVar_vars]; simpa [vStack, vArg] using h0, by simpa using h1, h2, h3⟩
  · refine Or.inr ⟨?_, ?_, ?_, by simpa using hlt, by simpa using htk, by simpa using hg⟩
    · rw [setVar_vars]; simpa [vStack, vArg] using h1
    · rw [setVar_vars]; simpa [vMax, vArg] using hm
    · rw [setVar_vars]; simpa [vTop, vArg] using ht

theorem scope_ensure {s : State} {a : AB} (h : R s a) :
    ∃ s', (St.scope ensure).run s = (s', .normal) ∧ Ready s s' a := by
  obtain ⟨s', o, hrun, ho, hr⟩ := ensure_spec h
  refine ⟨s', ?_, hr⟩
  simp only [St.run, hrun]
  rcases ho with rfl | rfl <;> rfl

theorem cur_eval {s : State} {a : AB} (h : R s a) :
    Ex.eval s (.cond (.var 0) (.idx (.var 1)) (.lit 0)) = some a.cur := current_refines h

theorem take_set_above {l : List Int} {n m : Nat} (v : Int) (h : n ≤ m) : (l.set m v).take n = l.take n := by
  apply List.ext_getElem?
  intro i
  by_cases hi : i < n
  · rw [List.getElem?_take, if_pos hi, List.getElem?_take, if_pos hi, List.getElem?_set_ne (by omega)]
  · rw [List.getElem?_take, if_neg hi, List.getElem?_take, if_neg hi]

/-- `yypush_buffer_state(b)`, `b` a buffer -/
theorem push_refines {s : State} {a : AB} (h : R s a) (b : Int) (hb : b ≠ 0) :
    ∃ s', push.run (setVar s vArg b) = (s', .normal) ∧
      R s' (if a.cur = 0 then { a with cur := b } else { a with below := a.below ++ [a.cur], cur := b }) := by
  obtain ⟨s1, o, hens, ho, hr⟩ := ensure_spec (R_setArg h b)
  have harg : s1.vars 5 = b := by have := hr.arg; simpa [vArg, setVar_vars] using this
  have hcur := cur_eval hr.rep
  rcases hr.rep.shape with ⟨h0, _, _, _⟩ | ⟨h1, hm, ht, hlt, htk, hg⟩
  · exact absurd h0 hr.alloc
  have ht' : s1.vars 1 = a.below.length := ht
  have hb5 : (setVar s vArg b).vars 5 = b := by simp [setVar_vars, vArg]
  have hg' : s1.arr[a.below.length]'hlt = a.cur := by
    have := hg; rw [List.getElem?_eq_getElem hlt] at this; exact Option.some.inj this
  by_cases hc : a.cur = 0
  · -- no current buffer: the new one takes the top slot
    have hbel : a.below = [] := h.curzero hc
    refine ⟨{ s1 with arr := s1.arr.set a.below.length b }, ?_, ?_⟩
    · rcases ho with rfl | rfl <;>
        simp [push, St.run, Ex.eval, bind, Option.bind, pure, hb5, hb, b2i, hens, hc, ht', harg, hlt, hg']
    · rw [if_pos hc]
      refine ⟨by simpa using hr.rep.log, h.nonzero, fun hz => absurd hz hb, Or.inr ⟨h1, ?_, ht, ?_, ?_, ?_⟩⟩
      · simpa using hm
      · simpa using hlt
      · simp [hbel]
      · simp [hlt]
  · -- the current buffer stays below the new one
    have hroom : a.below.length + 1 < s1.arr.length := by
      rcases hr.room with h' | h'
      · exact h'
      · exact absurd h' hc
    refine ⟨{ (setVar s1 1 (a.below.length + 1)) with arr := s1.arr.set (a.below.length + 1) b }, ?_, ?_⟩
    · have hidx : ((a.below.length : Int) + 1).toNat = a.below.length + 1 := by omega
      have hnn : (0 : Int) ≤ (a.below.length : Int) + 1 := by omega
      rcases ho with rfl | rfl <;>
        simp [push, St.run, Ex.eval, bind, Option.bind, pure, hb5, hb, b2i, hens, hc, ht', harg, setVar_vars, hidx, hnn, hroom,
          (show s1.vars 0 ≠ 0 from h1), hg] <;> rfl
    · rw [if_neg hc]
      refine ⟨by simpa using hr.rep.log, ?_, fun hz => absurd hz hb, Or.inr ⟨?_, ?_, ?_, ?_, ?_, ?_⟩⟩
      · intro x hx
        rcases List.mem_append.mp hx with hx | hx
        · exact h.nonzero x hx
        · simp at hx; rw [hx]; exact hc
      · simpa [setVar_vars, vStack] using h1
      · simpa [setVar_vars, vMax] using hm
      · simp [setVar_vars, vTop]
      · simp; omega
      · simp only [List.length_append, List.length_singleton]
        rw [take_set_above b (Nat.le_refl _)]
        rw [List.take_add_one, htk, hg]; rfl
      · simp [hroom]

/-- `yy_switch_to_buffer(b)`, `b` a buffer: the current buffer is replaced (not deleted, not stacked) -/
theorem switch_refines {s : State} {a : AB} (h : R s a) (b : Int) (hb : b ≠ 0) :
    ∃ s' o, switch_.run (setVar s vArg b) = (s', o) ∧ (o = .normal ∨ o = .returned 0) ∧ R s' { a with cur := b } := by
  obtain ⟨s1, o, hens, ho, hr⟩ := ensure_spec (R_setArg h b)
  have harg : s1.vars 5 = b := by have := hr.arg; simpa [vArg, setVar_vars] using this
  rcases hr.rep.shape with ⟨h0, _, _, _⟩ | ⟨h1, hm, ht, hlt, htk, hg⟩
  · exact absurd h0 hr.alloc
  have ht' : s1.vars 1 = a.below.length := ht
  have hg' : s1.arr[a.below.length]'hlt = a.cur := by
    have := hg; rw [List.getElem?_eq_getElem hlt] at this; exact Option.some.inj this
  by_cases hsame : a.cur = b
  · -- already current
    refine ⟨s1, .returned 0, ?_, Or.inr rfl, ?_⟩
    · rcases ho with rfl | rfl <;>
        simp [switch_, St.run, Ex.eval, bind, Option.bind, pure, b2i, hens, ht', harg, hlt, (show s1.vars 0 ≠ 0 from h1), hg', hsame]
    · have : ({ a with cur := b } : AB) = a := by cases a; simp_all
      rw [this]; exact hr.rep
  · refine ⟨{ s1 with arr := s1.arr.set a.below.length b }, .normal, ?_, Or.inl rfl, ?_⟩
    · rcases ho with rfl | rfl <;>
        simp [switch_, St.run, Ex.eval, bind, Option.bind, pure, b2i, hens, ht', harg, hlt, (show s1.vars 0 ≠ 0 from h1), hg', hsame]
    · refine ⟨by simpa using hr.rep.log, h.nonzero, fun hz => absurd hz hb, Or.inr ⟨h1, ?_, ht, ?_, ?_, ?_⟩⟩
      · simpa using hm
      · simpa using hlt
      · show (s1.arr.set a.below.length b).take a.below.length = a.below
        rw [take_set_above b (Nat.le_refl _)]; exact htk
      · simp [hlt]

/-- `yypop_buffer_state()` -/
def AB.pop (a : AB) : AB :=
  if a.cur = 0 then a else
    match a.below.getLast? with
    | none => { a with cur := 0, deleted := a.deleted ++ [a.cur] }
    | some t => { below := a.below.dropLast, cur := t, deleted := a.deleted ++ [a.cur] }

theorem pop_refines {s : State} {a : AB} (h : R s a) :
    ∃ s' o, pop.run s = (s', o) ∧ (o = .normal ∨ o = .returned 0) ∧ R s' a.pop := by
  have hcur := cur_eval h
  by_cases hc : a.cur = 0
  · refine ⟨s, .returned 0, ?_, Or.inr rfl, ?_⟩
    · rcases h.shape with ⟨h0, _, _, _⟩ | ⟨h1, _, ht, hlt, _, hg⟩
      · have : s.vars 0 = 0 := h0
        simp [pop, St.run, Ex.eval, bind, Option.bind, pure, this, b2i]
      · have h1' : s.vars 0 ≠ 0 := h1
        have ht' : s.vars 1 = a.below.length := ht
        have hg' : s.arr[a.below.length]'hlt = 0 := by
          have := hg; rw [List.getElem?_eq_getElem hlt, hc] at this; exact Option.some.inj this
        simp [pop, St.run, Ex.eval, bind, Option.bind, pure, h1', ht', hlt, hg', b2i]
    · simp [AB.pop, hc]; exact h
  · rcases h.shape with ⟨_, _, _, h0⟩ | ⟨h1, hm, ht, hlt, htk, hg⟩
    · exact absurd h0 hc
    have h1' : s.vars 0 ≠ 0 := h1
    have ht' : s.vars 1 = a.below.length := ht
    have hg' : s.arr[a.below.length]'hlt = a.cur := by
      have := hg; rw [List.getElem?_eq_getElem hlt] at this; exact Option.some.inj this
    rcases List.eq_nil_or_concat a.below with he | ⟨rest, t, hs0⟩
    · -- the last buffer goes: no current buffer any more
      have hl : a.below.length = 0 := by simp [he]
      have hpos : (0 : Int) < (a.below.length : Int) ↔ False := by simp [hl]
      refine ⟨{ s with arr := s.arr.set 0 0, log := s.log ++ [(0, a.cur)] }, .normal, ?_, Or.inl rfl, ?_⟩
      · have hlt0 : 0 < s.arr.length := by omega
        have hg0 : s.arr[0]'hlt0 = a.cur := by simpa [hl] using hg'
        simp [pop, St.run, Ex.eval, bind, Option.bind, pure, b2i, h1', ht', hl, hlt0, hg0, hc]
      · have hpop : a.pop = { a with cur := 0, deleted := a.deleted ++ [a.cur] } := by simp [AB.pop, hc, he]
        rw [hpop]
        refine ⟨?_, h.nonzero, fun _ => he, Or.inr ⟨h1, ?_, ?_, ?_, ?_, ?_⟩⟩
        · simp [h.log, fDelete]
        · simpa using hm
        · exact ht
        · simpa using hlt
        · simp [he]
        · have hlt0 : 0 < s.arr.length := by omega
          simp [hl, hlt0]
    · -- the buffer below becomes current again
      have hs : a.below = rest ++ [t] := by simpa using hs0
      have hl : a.below.length = rest.length + 1 := by simp [hs]
      have ht'' : s.vars 1 = (rest.length : Int) + 1 := by rw [ht', hl]; simp
      have hlt1 : rest.length + 1 < s.arr.length := by omega
      have htnz : t ≠ 0 := h.nonzero t (by simp [hs])
      have hgt : s.arr[rest.length]? = some t := by
        have h2 : (s.arr.take a.below.length)[rest.length]? = a.below[rest.length]? := by rw [htk]
        rw [List.getElem?_take, if_pos (by omega), hs] at h2
        simpa using h2
      have hgt' : s.arr[rest.length]'(by omega) = t := by
        have := hgt; rw [List.getElem?_eq_getElem (by omega)] at this; exact Option.some.inj this
      have hg1 : s.arr[rest.length + 1]'hlt1 = a.cur := by simpa [hl] using hg'
      refine ⟨{ (setVar s 1 rest.length) with arr := s.arr.set (rest.length + 1) 0, log := s.log ++ [(0, a.cur)] }, .normal, ?_, Or.inl rfl, ?_⟩
      · have hidx : ((rest.length : Int) + 1).toNat = rest.length + 1 := by omega
        have hnn : (0 : Int) ≤ (rest.length : Int) + 1 := by omega
        have hpos : (0 : Int) < (rest.length : Int) + 1 := by omega
        have hsub : (rest.length : Int) + 1 + -1 = rest.length := by omega
        have hne : rest.length + 1 ≠ rest.length := by omega
        simp [pop, St.run, Ex.eval, bind, Option.bind, pure, b2i, h1', ht'', hidx, hnn, hlt1, hg1, hc, hpos, hsub, setVar_vars,
          hgt, htnz]
        rfl
      · have hpop : a.pop = { below := rest, cur := t, deleted := a.deleted ++ [a.cur] } := by
          simp [AB.pop, hc, hs]
        rw [hpop]
        refine ⟨?_, ?_, fun hz => absurd hz htnz, Or.inr ⟨?_, ?_, ?_, ?_, ?_, ?_⟩⟩
        · simp [h.log, fDelete]
        · intro x hx; exact h.nonzero x (by simp [hs, hx])
        · simpa [setVar_vars, vStack] using h1
        · simpa [setVar_vars, vMax] using hm
        · simp [setVar_vars, vTop]
        · simp; omega
        · show (s.arr.set (rest.length + 1) 0).take rest.length = rest
          rw [take_set_above 0 (Nat.le_succ _)]
          have := congrArg (List.take rest.length) htk
          rw [hl, hs, List.take_take, Nat.min_eq_left (Nat.le_succ _)] at this
          simpa using this
        · show (s.arr.set (rest.length + 1) 0)[rest.length]? = some t
          rw [List.getElem?_set_ne (by omega)]; exact hgt

/-! ### every sequence of calls -/

inductive Op
  | push (b : Int)
  | pop
  | switch (b : Int)
deriving Repr

/-- the calls the manual allows: the argument is a buffer -/
def Op.ok : Op → Bool
  | .push b => b != 0
  | .pop => true
  | .switch b => b != 0

def AB.step (a : AB) : Op → AB
  | .push b => if a.cur = 0 then { a with cur := b } else { a with below := a.below ++ [a.cur], cur := b }
  | .pop => a.pop
  | .switch b => { a with cur := b }

def cstep (s : State) : Op → State × Outcome
  | .push b => push.run (setVar s vArg b)
  | .pop => pop.run s
  | .switch b => switch_.run (setVar s vArg b)

/-- a call came back -/
def returns : Outcome → Bool
  | .normal => true
  | .returned _ => true
  | _ => false

/-- run the calls; stop at the first one that does not come back -/
def crun : List Op → State → State × Bool
  | [], s => (s, true)
  | op :: rest, s =>
    let r := cstep s op
    if returns r.2 then crun rest r.1 else (r.1, false)

theorem step_refines {s : State} {a : AB} (h : R s a) (op : Op) (hok : op.ok = true) :
    returns (cstep s op).2 = true ∧ R (cstep s op).1 (a.step op) := by
  cases op with
  | push b =>
    have hb : b ≠ 0 := by simpa [Op.ok] using hok
    obtain ⟨s', hrun, hr⟩ := push_refines h b hb
    simp only [cstep, hrun, AB.step]
    exact ⟨rfl, hr⟩
  | pop =>
    obtain ⟨s', o, hrun, ho, hr⟩ := pop_refines h
    simp only [cstep, hrun, AB.step]
    rcases ho with rfl | rfl <;> exact ⟨rfl, hr⟩
  | switch b =>
    have hb : b ≠ 0 := by simpa [Op.ok] using hok
    obtain ⟨s', o, hrun, ho, hr⟩ := switch_refines h b hb
    simp only [cstep, hrun, AB.step]
    rcases ho with rfl | rfl <;> exact ⟨rfl, hr⟩

/-- **C11, buffer stack**: every sequence of yypush_buffer_state / yypop_buffer_state /
    yy_switch_to_buffer calls (with buffers as arguments) comes back — no fatal error, no access to
    `yy_buffer_stack[]` out of bounds — and leaves the code's stack representing the list machine's -/
theorem stack_refines : ∀ (ops : List Op) (s : State) (a : AB), R s a → (∀ op ∈ ops, op.ok = true) →
    (crun ops s).2 = true ∧ R (crun ops s).1 (ops.foldl AB.step a) := by
  intro ops
  induction ops with
  | nil => intro s a h _; exact ⟨rfl, h⟩
  | cons op rest ih =>
    intro s a h hok
    obtain ⟨hr, hR⟩ := step_refines h op (hok op (List.mem_cons_self ..))
    simp only [crun, hr, if_true, List.foldl_cons]
    exact ih _ _ hR (fun o ho => hok o (List.mem_cons_of_mem _ ho))

def s0 : State := { vars := fun _ => 0, arr := [], log := [] }
def a0 : AB := {}

theorem R_init : R s0 a0 := ⟨rfl, by simp [a0], fun _ => rfl, Or.inl ⟨rfl, rfl, rfl, rfl⟩⟩

/-- what the scanner calls the current buffer is the list machine's, after any sequence of calls -/
theorem current_after (ops : List Op) (hok : ∀ op ∈ ops, op.ok = true) :
    currentEx.eval (crun ops s0).1 = some (ops.foldl AB.step a0).cur :=
  current_refines (stack_refines ops s0 a0 R_init hok).2

/-- the buffers handed to yy_delete_buffer are exactly those the list machine popped, in order -/
theorem deleted_after (ops : List Op) (hok : ∀ op ∈ ops, op.ok = true) :
    (crun ops s0).1.log = (ops.foldl AB.step a0).deleted.map fun b => (fDelete, b) :=
  (stack_refines ops s0 a0 R_init hok).2.log

/-- LIFO at the level of the specification: push then pop gives back the buffer that was current, and
    deletes the pushed one -/
theorem push_pop (a : AB) (b : Int) (hb : b ≠ 0) (hc : a.cur ≠ 0) :
    ((a.step (.push b)).step .pop).cur = a.cur ∧ ((a.step (.push b)).step .pop).below = a.below ∧
      ((a.step (.push b)).step .pop).deleted = a.deleted ++ [b] := by
  simp [AB.step, AB.pop, hc, hb]

/-- the premises can be met: ten pushes (the stack array grows from 1 to 9 to 17 slots), pops, a switch -/
example : (crun ((List.range 10).map (fun i => Op.push (Int.ofNat i + 1)) ++ [.pop, .pop, .switch 77, .pop]) s0).2 = true ∧
    currentEx.eval (crun ((List.range 10).map (fun i => Op.push (Int.ofNat i + 1)) ++ [.pop, .pop, .switch 77, .pop]) s0).1 = some 7 ∧
    (crun ((List.range 10).map (fun i => Op.push (Int.ofNat i + 1)) ++ [.pop, .pop, .switch 77, .pop]) s0).1.log = [(0, 10), (0, 9), (0, 77)] := by
  decide

end FlexVerif.C11Stack

/-
  Props/C19SymbolsW1.lean — C19: rows of the symbol wiring table (see Props/C19Symbols.lean), part 1.
-/
import FlexVerif.Props.C19Symbols
namespace FlexVerif.C19Opts
open FlexVerif.Opt FlexVerif.Gen.Options

def wiring1 : List (Fld × Cond) := [
  (F.sym_M4_YY_REENTRANT, .truthy F.reentrant),
  (F.sym_M4_MODE_REENTRANT_TEXT_IS_ARRAY, .and (.truthy F.reentrant) (.truthy F.yytext_is_array)),
  (F.sym_M4_YY_MAIN, .eq F.do_main 1),
  (F.sym_M4_MODE_DO_STDINIT, .truthy F.do_stdinit),
  (F.sym_M4_MODE_YYTEXT_IS_ARRAY, .truthy F.yytext_is_array),
  (F.sym_M4_MODE_REAL_FULLSPD, .truthy F.fullspd),
  (F.sym_M4_MODE_REAL_FULLTBL, .truthy F.fulltbl),
  (F.sym_M4_MODE_FULLSPD, .truthy F.fullspd),
  (F.sym_M4_MODE_FIND_ACTION_FULLTBL, .and (.not (.truthy F.fullspd)) (.truthy F.fulltbl)),
  (F.sym_M4_MODE_CPP_USE_READ, .truthy F.use_read),
  (F.sym_M4_MODE_USEMECS, .truthy F.usemecs),
  (F.sym_M4_MODE_USEECS, .truthy F.useecs),
  (F.sym_M4_MODE_YYLINENO, .truthy F.do_yylineno),
  (F.sym_M4_MODE_INTERACTIVE, .eq F.interactive 1),
  (F.sym_M4_MODE_DEBUG, .truthy F.ddebug),
  (F.sym_M4_MODE_YYWRAP, .truthy F.do_yywrap),
  (F.sym_M4_MODE_USER_YYREAD, .truthy F.noyyread),
  (F.sym_M4_MODE_CXX_ONLY, .and (.truthy F.is_default_backend) (.truthy F.C_plus_plus)),
  (F.sym_M4_MODE_C_ONLY, .and (.truthy F.is_default_backend) (.not (.truthy F.C_plus_plus))),
  (F.sym_M4_MODE_TABLESEXT, .truthy F.tablesext),
  (F.sym_M4_MODE_NO_YYINPUT, .truthy F.no_yyinput)]

theorem symbols_wired_1 : ∀ r ∈ wiring1, ∀ st, Ok st →
    (dprog.run st).err.isSome = true ∨ (iffC (.truthy r.1) r.2).eval (dprog.run st).st = true :=
  wired_sound wiring1 (by decide +kernel)

end FlexVerif.C19Opts

/-
  Props/C01StepC99.lean — C01: `yy_get_previous_state()` and `yy_try_NUL_trans()` of the **c99 back end**
  (`Gen/PrevStateC99.lean`, translated from a scanner generated with `%option emit="c99"`, `-Cem`; `yyscanner->`
  dropped, `yytext_r` for `yytext_ptr`, `yy_more_len` for YY_MORE_ADJ).  They are the default skeleton's programs:
  the theorems of `Props/C01Step.lean` hold of them.
-/
import FlexVerif.Gen.PrevStateC99
import FlexVerif.Props.C01Step
namespace FlexVerif.C01StepC99
open FlexVerif.Imp FlexVerif.C01Step

theorem prevState_same : Gen.PrevStateC99.prevState = Gen.PrevState.prevState := rfl
theorem nulTrans_same : Gen.PrevStateC99.nulTrans = Gen.PrevState.nulTrans := rfl

theorem prevState_spec_c99 (T : Tables) (hm : T.useMecs = true) (s : State) (hT : TablesIn s T) (t0 len : Nat) (n : Int)
    (ht : s.vars 3 + s.vars 4 = t0) (he : s.vars 5 = ((t0 + len : Nat) : Int)) (hin : t0 + len ≤ s.arr.length)
    (hw : walk T (s.vars 6) ((s.arr.drop t0).take len) = some n) :
    ∃ s', Gen.PrevStateC99.prevState.run s = (s', .returned n) ∧ s'.arr = s.arr ∧ s'.log = s.log := by
  rw [prevState_same]; exact prevState_spec T hm s hT t0 len n ht he hin hw

theorem nulTrans_spec_c99 (T : Tables) (hk : T.kind = .compressed) (hm : T.useMecs = true) (hnt : T.hasNulTrans = false)
    (s : State) (hT : TablesIn s T) (ha : rd T.accept (s.vars 0) ≠ none) (hnb : T.stepByte (s.vars 0) 0 ≠ .bad) :
    ∃ s', Gen.PrevStateC99.nulTrans.run s = (s', .returned (match T.stepByte (s.vars 0) 0 with | .st n => n | _ => 0)) ∧
      s'.arr = s.arr ∧ s'.log = s.log := by
  rw [nulTrans_same]; exact nulTrans_spec T hk hm hnt s hT ha hnb

end FlexVerif.C01StepC99

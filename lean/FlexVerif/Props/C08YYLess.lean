/-
  Props/C08YYLess.lean — C08 / C09, yyless(n): theorems about the two programs of `Gen/YYLess.lean`,
  which `tools/fv/gen_yyless.py` translates from the two definitions of the `yyless` macro in a scanner
  flex has just generated with `%option yylineno` — the one actions use and the one "redefined so it
  works in section 3 code".  For every token position and length, every `n` between 0 and yyleng and
  every buffer content, both leave the same state: yytext keeps its first `n` characters, the scan
  position is right after them, the character there is saved in yy_hold_char and replaced by the
  terminating NUL, the cell that ended the old yytext has its character back, and yylineno has gone down
  by exactly the number of newlines in the characters given back.
-/
import FlexVerif.Imp.Lang
import FlexVerif.Gen.YYLess
import FlexVerif.Props.C08Unput
namespace FlexVerif.C08YYLess
open FlexVerif.Imp FlexVerif.Gen.YYLess
open FlexVerif.C08Unput (setVar_vars seq_assoc_run run_seq_normal)

theorem state_ext {a b : State} (hv : ∀ y, a.vars y = b.vars y) (ha : a.arr = b.arr) (hl : a.log = b.log) : a = b := by
  cases a; cases b
  simp only at hv ha hl
  have : ‹Nat → Int› = ‹Nat → Int› := rfl
  congr 1
  · funext y; exact hv y

@[simp] theorem setVar_arr' (s : State) (x : Nat) (v : Int) : (setVar s x v).arr = s.arr := rfl
@[simp] theorem setVar_log' (s : State) (x : Nat) (v : Int) : (setVar s x v).log = s.log := rfl

/-- newlines among `m` cells from `k` on -/
def cntNl (arr : List Int) : Nat → Nat → Nat
  | _, 0 => 0
  | k, m + 1 => (if arr.getD k 0 = 10 then 1 else 0) + cntNl arr (k + 1) m

def lnCond : Ex := .lt (.var 8) (.var 3)
def lnBody : St :=
  .seq (.ite (.eq (.idx (.add (.var 2) (.var 8))) (.lit 10)) (.assign 4 (.add (.var 4) (.lit (-1)))) .skip)
       (.assign 8 (.add (.var 8) (.lit 1)))

/-- the YY_LESS_LINENO loop: `yyl` runs up to yyleng, yylineno goes down once per newline met -/
theorem ln_loop : ∀ (m : Nat) (s : State) (t i L fuel : Nat), s.vars 2 = t → s.vars 8 = i → s.vars 3 = L →
    i + m = L → t + L ≤ s.arr.length → m + 1 ≤ fuel →
    loop (fun s' => lnCond.eval s') (fun s' => lnBody.run s') fuel s =
      (setVar (setVar s 4 (s.vars 4 - (cntNl s.arr (t + i) m : Nat))) 8 (L : Int), .normal) := by
  intro m
  induction m with
  | zero =>
    intro s t i L fuel h2 h8 h3 hiL _ hf
    obtain ⟨f, rfl⟩ : ∃ f, fuel = f + 1 := ⟨fuel - 1, by omega⟩
    have : i = L := by omega
    subst this
    have hc : lnCond.eval s = some 0 := by simp [lnCond, Ex.eval, bind, Option.bind, pure, h8, h3, b2i]
    rw [loop]; try dsimp only
    rw [hc]
    simp only [bne_self_eq_false, Bool.false_eq_true, if_false, cntNl]
    congr 1
    apply state_ext
    · intro y
      simp only [setVar_vars]
      by_cases hy : y = 8
      · subst hy; simp [h8]
      · by_cases hy4 : y = 4
        · subst hy4; simp
        · simp [hy, hy4]
    · rfl
    · rfl
  | succ m ih =>
    intro s t i L fuel h2 h8 h3 hiL hlen hf
    obtain ⟨f, rfl⟩ : ∃ f, fuel = f + 1 := ⟨fuel - 1, by omega⟩
    have hlt : ((i : Int) < (L : Int)) := by omega
    have hc : lnCond.eval s = some 1 := by simp [lnCond, Ex.eval, bind, Option.bind, pure, h8, h3, b2i, hlt]
    have hidx : t + i < s.arr.length := by omega
    have hnn : (0 : Int) ≤ (t : Int) + (i : Int) := by omega
    have hto : ((t : Int) + (i : Int)).toNat = t + i := by omega
    have hgd : s.arr.getD (t + i) 0 = s.arr[t + i]'hidx := by
      simp [List.getD_eq_getElem?_getD, List.getElem?_eq_getElem hidx]
    have hbody : lnBody.run s =
        (setVar (setVar s 4 (s.vars 4 - ((if s.arr.getD (t + i) 0 = 10 then 1 else 0 : Nat) : Int))) 8 ((i + 1 : Nat) : Int), .normal) := by
      rw [hgd]
      by_cases hnl : s.arr[t + i]'hidx = 10
      · simp [lnBody, St.run, Ex.eval, bind, Option.bind, pure, setVar_vars, h2, h8, hnn, hto, hidx, hnl, b2i]
        apply state_ext
        · intro y; simp only [setVar_vars]
          by_cases h8' : y = 8
          · simp [h8']
          · by_cases h4 : y = 4
            · subst h4; simp; omega
            · simp [h8', h4]
        · rfl
        · rfl
      · simp [lnBody, St.run, Ex.eval, bind, Option.bind, pure, setVar_vars, h2, h8, hnn, hto, hidx, hnl, b2i]
        apply state_ext
        · intro y; simp only [setVar_vars]
          by_cases h8' : y = 8
          · simp [h8']
          · by_cases h4 : y = 4
            · subst h4; simp
            · simp [h8', h4]
        · rfl
        · rfl
    rw [loop]; try dsimp only
    rw [hc, hbody]
    have h1 : ((1 : Int) != 0) = true := by decide
    simp only [h1, if_true]
    rw [ih _ t (i + 1) L f (by simpa [setVar_vars] using h2) (by simp [setVar_vars]) (by simpa [setVar_vars] using h3)
      (by omega) (by simpa using hlen) (by omega)]
    congr 1
    apply state_ext
    · intro y
      simp only [cntNl, setVar_vars, setVar_arr']
      by_cases hy : y = 8
      · simp [hy]
      · by_cases hy4 : y = 4
        · subst hy4
          simp only [hy, if_false, if_true]
          have : t + (i + 1) = t + i + 1 := by omega
          rw [this]
          push_cast
          omega
        · simp [hy, hy4]
    · rfl
    · rfl

/-- what `yyless(n)` has to leave: token at offset `t`, old length `L`, new length `n` -/
structure Out (s s' : State) (t L n : Nat) : Prop where
  text : s'.vars 2 = t
  leng : s'.vars 3 = n
  pos : s'.vars 0 = (t + n : Nat)
  hold : some (s'.vars 1) = (s.arr.set (t + L) (s.vars 1))[t + n]?
  arr : s'.arr = (s.arr.set (t + L) (s.vars 1)).set (t + n) 0
  lineno : s'.vars 4 = s.vars 4 - (cntNl s.arr (t + n) (L - n) : Nat)

/-- the state `yyless` is called in: the token is `L` characters at offset `t`, the cell after it holds
    the terminating NUL (its character is in yy_hold_char) -/
structure In (s : State) (t L n : Nat) : Prop where
  text : s.vars 2 = t
  leng : s.vars 3 = L
  arg : s.vars 9 = n
  hn : n ≤ L
  fits : t + L < s.arr.length

theorem while_ln {s : State} {t L n : Nat} (h2 : s.vars 2 = t) (h3 : s.vars 3 = L) (h8 : s.vars 8 = n) (hn : n ≤ L)
    (hf : t + L < s.arr.length) :
    (St.while_ lnCond lnBody).run s = (setVar (setVar s 4 (s.vars 4 - (cntNl s.arr (t + n) (L - n) : Nat))) 8 (L : Int), .normal) := by
  show loop (fun s' => lnCond.eval s') (fun s' => lnBody.run s') (s.arr.length + 3) s = _
  exact ln_loop (L - n) s t n L _ h2 h8 h3 (by omega) (by omega) (by omega)

/-- the definition actions use (with YY_DO_BEFORE_ACTION); `yy_cp` and `yy_bp` are the action's: the end and
    the start of the token -/
theorem less_action_spec {s : State} {t L n : Nat} (h : In s t L n) (hcp : s.vars 5 = (t + L : Nat)) (hbp : s.vars 6 = t) :
    ∃ s', lessAction.run s = (s', .normal) ∧ Out s s' t L n := by
  have hshape : lessAction = .seq (.assign 7 (.var 9)) (.seq (.seq (.assign 8 (.var 7)) (.while_ lnCond lnBody))
      (.seq (.store (.var 5) (.var 1)) (.seq (.seq (.assign 5 (.sub (.add (.var 6) (.var 7)) (.lit 0))) (.assign 0 (.var 5)))
      (.seq (.assign 2 (.var 6)) (.seq (.assign 3 (.sub (.var 5) (.var 6))) (.seq (.assign 1 (.idx (.var 5)))
      (.seq (.store (.var 5) (.lit 0)) (.assign 0 (.var 5))))))))) := rfl
  let s1 := setVar (setVar s 7 n) 8 n
  have hw := while_ln (s := s1) (t := t) (L := L) (n := n) (by simp [s1, setVar_vars]; exact h.text)
    (by simp [s1, setVar_vars]; exact h.leng) (by simp [s1, setVar_vars]) h.hn (by simpa [s1] using h.fits)
  have hA : t + L < s.arr.length := h.fits
  have hnn : (0 : Int) ≤ ((t + L : Nat) : Int) := by omega
  have hget : ∃ v, (s.arr.set (t + L) (s.vars 1))[t + n]? = some v := by
    have : t + n < (s.arr.set (t + L) (s.vars 1)).length := by simp; have := h.hn; omega
    exact ⟨_, List.getElem?_eq_getElem this⟩
  obtain ⟨v, hv⟩ := hget
  have e56 : ((t : Int) + (n : Int) - 0) = ((t + n : Nat) : Int) := by push_cast; omega
  have e3 : ((t + n : Nat) : Int) - (t : Int) = (n : Int) := by push_cast; omega
  have hnn2 : (0 : Int) ≤ ((t + n : Nat) : Int) := by omega
  have hlt2 : t + n < s.arr.length := by have := h.hn; omega
  let sF : State :=
    { vars := fun y => if y = 0 then ((t + n : Nat) : Int) else if y = 1 then v else if y = 3 then (n : Int) else if y = 2 then (t : Int)
                else if y = 5 then ((t + n : Nat) : Int) else if y = 8 then (L : Int)
                else if y = 4 then s.vars 4 - (cntNl s.arr (t + n) (L - n) : Nat) else if y = 7 then (n : Int) else s.vars y,
      arr := (s.arr.set (t + L) (s.vars 1)).set (t + n) 0, log := s.log }
  refine ⟨sF, ?_, ?_⟩
  · rw [hshape]
    simp only [St.run, Ex.eval, bind, Option.bind, pure, h.arg]
    have : (setVar (setVar s 7 n) 8 ((setVar s 7 n).vars 7)) = s1 := by simp [s1, setVar_vars]
    have hw' : loop (fun s' => lnCond.eval s') (fun s' => lnBody.run s') (s1.arr.length + 3) s1 =
        (setVar (setVar s1 4 (s1.vars 4 - (cntNl s1.arr (t + n) (L - n) : Nat))) 8 (L : Int), .normal) := hw
    rw [this, hw']
    have p1 : (0 : Int) ≤ (t : Int) + (L : Int) := by omega
    have p2 : ((t : Int) + (L : Int)).toNat = t + L := by omega
    have p3 : (0 : Int) ≤ (t : Int) + (n : Int) := by omega
    have p4 : ((t : Int) + (n : Int)).toNat = t + n := by omega
    have p5 : (t : Int) + (n : Int) - (t : Int) = (n : Int) := by omega
    simp [setVar_vars, s1, hcp, hbp, hA, hlt2, hv, p1, p2, p3, p4, p5]
    apply state_ext
    · intro y
      simp only [setVar_vars, sF]
      repeat' split
      all_goals first | rfl | omega | (subst_vars; simp_all) | simp_all
    · rfl
    · rfl
  · refine ⟨by simp [sF], by simp [sF], by simp [sF], ?_, rfl, by simp [sF]⟩
    simp [sF, hv]

/-- the definition section-3 code sees: it works from yytext and yyleng alone -/
theorem less_section3_spec {s : State} {t L n : Nat} (h : In s t L n) :
    ∃ s', lessSection3.run s = (s', .normal) ∧ Out s s' t L n := by
  have hshape : lessSection3 = .seq (.assign 7 (.var 9)) (.seq (.seq (.assign 8 (.var 7)) (.while_ lnCond lnBody))
      (.seq (.store (.add (.var 2) (.var 3)) (.var 1)) (.seq (.assign 0 (.add (.var 2) (.var 7)))
      (.seq (.assign 1 (.idx (.var 0))) (.seq (.store (.var 0) (.lit 0)) (.assign 3 (.var 7))))))) := rfl
  let s1 := setVar (setVar s 7 n) 8 n
  have hw := while_ln (s := s1) (t := t) (L := L) (n := n) (by simp [s1, setVar_vars]; exact h.text)
    (by simp [s1, setVar_vars]; exact h.leng) (by simp [s1, setVar_vars]) h.hn (by simpa [s1] using h.fits)
  have hA : t + L < s.arr.length := h.fits
  have hget : ∃ v, (s.arr.set (t + L) (s.vars 1))[t + n]? = some v := by
    have : t + n < (s.arr.set (t + L) (s.vars 1)).length := by simp; have := h.hn; omega
    exact ⟨_, List.getElem?_eq_getElem this⟩
  obtain ⟨v, hv⟩ := hget
  have hlt2 : t + n < s.arr.length := by have := h.hn; omega
  have h2 : s.vars 2 = t := h.text
  have h3 : s.vars 3 = L := h.leng
  let sF : State :=
    { vars := fun y => if y = 0 then ((t + n : Nat) : Int) else if y = 1 then v else if y = 3 then (n : Int)
                else if y = 8 then (L : Int)
                else if y = 4 then s.vars 4 - (cntNl s.arr (t + n) (L - n) : Nat) else if y = 7 then (n : Int) else s.vars y,
      arr := (s.arr.set (t + L) (s.vars 1)).set (t + n) 0, log := s.log }
  refine ⟨sF, ?_, ?_⟩
  · rw [hshape]
    simp only [St.run, Ex.eval, bind, Option.bind, pure, h.arg]
    have : (setVar (setVar s 7 n) 8 ((setVar s 7 n).vars 7)) = s1 := by simp [s1, setVar_vars]
    have hw' : loop (fun s' => lnCond.eval s') (fun s' => lnBody.run s') (s1.arr.length + 3) s1 =
        (setVar (setVar s1 4 (s1.vars 4 - (cntNl s1.arr (t + n) (L - n) : Nat))) 8 (L : Int), .normal) := hw
    rw [this, hw']
    have p1 : (0 : Int) ≤ (t : Int) + (L : Int) := by omega
    have p2 : ((t : Int) + (L : Int)).toNat = t + L := by omega
    have p3 : (0 : Int) ≤ (t : Int) + (n : Int) := by omega
    have p4 : ((t : Int) + (n : Int)).toNat = t + n := by omega
    simp [setVar_vars, s1, h2, h3, hA, hlt2, hv, p1, p2, p3, p4]
    apply state_ext
    · intro y
      simp only [setVar_vars, sF]
      repeat' split
      all_goals first | rfl | omega | (subst_vars; simp_all) | simp_all
    · rfl
    · rfl
  · refine ⟨by simp [sF]; exact h.text, by simp [sF], by simp [sF], ?_, rfl, by simp [sF]⟩
    simp [sF, hv]

/-- **C08 / C09, yyless**: the two definitions of `yyless(n)` do the same to the token, the scan
    position, the hold character, the buffer and yylineno -/
theorem both_definitions_agree {s : State} {t L n : Nat} (h : In s t L n) (hcp : s.vars 5 = (t + L : Nat)) (hbp : s.vars 6 = t) :
    ∃ sa s3, lessAction.run s = (sa, .normal) ∧ lessSection3.run s = (s3, .normal) ∧
      sa.arr = s3.arr ∧ sa.vars 0 = s3.vars 0 ∧ sa.vars 1 = s3.vars 1 ∧ sa.vars 2 = s3.vars 2 ∧ sa.vars 3 = s3.vars 3 ∧
      sa.vars 4 = s3.vars 4 := by
  obtain ⟨sa, ha, oa⟩ := less_action_spec h hcp hbp
  obtain ⟨s3, h3, o3⟩ := less_section3_spec h
  refine ⟨sa, s3, ha, h3, by rw [oa.arr, o3.arr], by rw [oa.pos, o3.pos], ?_, by rw [oa.text, o3.text], by rw [oa.leng, o3.leng],
    by rw [oa.lineno, o3.lineno]⟩
  have := oa.hold.trans o3.hold.symm
  exact Option.some.inj this

/-- the premises can be met: the token "a\nb\n" at offset 1 of a small buffer, yyless(1): two newlines
    are given back -/
def sEx : State :=
  { vars := fun y => if y = 1 then 120 else if y = 2 then 1 else if y = 3 then 4 else if y = 4 then 7 else if y = 5 then 5
              else if y = 6 then 1 else if y = 9 then 1 else 0,
    arr := [5, 97, 10, 98, 10, 0, 121, 0, 0], log := [] }

example : (lessAction.run sEx).2 = .normal ∧ (lessAction.run sEx).1.vars 4 = 5 ∧ (lessAction.run sEx).1.vars 3 = 1 ∧
    (lessAction.run sEx).1.arr = [5, 97, 0, 98, 10, 120, 121, 0, 0] ∧ (lessAction.run sEx).1.vars 1 = 10 ∧
    (lessSection3.run sEx).1.vars 4 = 5 ∧ (lessSection3.run sEx).1.arr = [5, 97, 0, 98, 10, 120, 121, 0, 0] := by decide

end FlexVerif.C08YYLess

/-
  Props/C19SymbolsW3.lean — C19: rows of the symbol wiring table (see Props/C19Symbols.lean), part 3.
-/
import FlexVerif.Props.C19Symbols
namespace FlexVerif.C19Opts
open FlexVerif.Opt FlexVerif.Gen.Options

def wiring3 : List (Fld × Cond) := [
  (F.sym_M4_YY_NO_SET_LVAL, .truthy F.no_yyset_lval),
  (F.sym_M4_YY_NO_GET_LLOC, .truthy F.no_yyget_lloc),
  (F.sym_M4_YY_NO_SET_LLOC, .truthy F.no_yyset_lloc),
  (F.sym_M4_YY_NO_FLEX_ALLOC, .truthy F.no_flex_alloc),
  (F.sym_M4_YY_NO_FLEX_REALLOC, .truthy F.no_flex_realloc),
  (F.sym_M4_YY_NO_FLEX_FREE, .truthy F.no_flex_free),
  (F.sym_M4_YY_NO_GET_DEBUG, .truthy F.no_get_debug),
  (F.sym_M4_YY_NO_SET_DEBUG, .truthy F.no_set_debug),
  (F.sym_M4_YY_NO_UNISTD_H, .truthy F.no_unistd),
  (F.sym_M4_YY_ALWAYS_INTERACTIVE, .truthy F.always_interactive),
  (F.sym_M4_YY_NEVER_INTERACTIVE, .truthy F.never_interactive),
  (F.sym_M4_YY_STACK_USED, .truthy F.stack_used),
  (F.sym_M4_MODE_REWRITE, .truthy F.rewrite_v),
  (F.sym_M4_YY_BISON_LVAL, .truthy F.bison_bridge_lval),
  (F.sym__M4_YY_BISON_LLOC, .truthy F.bison_bridge_lloc),
  (F.sym_M4_MODE_YYMORE_USED, .truthy F.yymore_used),
  (F.sym_M4_MODE_USES_REJECT, .truthy F.reject),
  (F.sym_M4_MODE_BOL_NEEDED, .truthy F.bol_needed),
  (F.sym_M4_MODE_VARIABLE_TRAILING_CONTEXT_RULES, .truthy F.variable_trailing_context_rules),
  (F.sym_M4_MODE_GENTABLES, .truthy F.gentables)]

theorem symbols_wired_3 : ∀ r ∈ wiring3, ∀ st, Ok st →
    (dprog.run st).err.isSome = true ∨ (iffC (.truthy r.1) r.2).eval (dprog.run st).st = true :=
  wired_sound wiring3 (by decide +kernel)

end FlexVerif.C19Opts

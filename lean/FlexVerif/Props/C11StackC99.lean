/-
  Props/C11StackC99.lean — C11: the buffer stack of the **c99 back end**.
  `tools/fv/gen_bufstack.py` translates the same functions from a scanner generated with
  `%option emit="c99"` (`Gen/BufStackC99.lean`; the `yyscanner->` prefix dropped, `yy_current_buffer()` —
  a function there, a macro in the default skeleton — inlined, `yypanic` for YY_FATAL_ERROR).  The
  programs are the default skeleton's: every theorem of `Props/C11Stack.lean` is a theorem about the
  c99 scanner as well.  A change to either skeleton alone breaks a `_same` theorem here or a theorem
  there.
-/
import FlexVerif.Gen.BufStackC99
import FlexVerif.Props.C11Stack
namespace FlexVerif.C11StackC99
open FlexVerif.Imp

theorem ensure_same : Gen.BufStackC99.ensure = Gen.BufStack.ensure := rfl
theorem push_same : Gen.BufStackC99.push = Gen.BufStack.push := rfl
theorem pop_same : Gen.BufStackC99.pop = Gen.BufStack.pop := rfl
theorem switch_same : Gen.BufStackC99.switch_ = Gen.BufStack.switch_ := rfl
theorem current_same : Gen.BufStackC99.currentEx = Gen.BufStack.currentEx := rfl
theorem msgs_same : Gen.BufStackC99.msgs = Gen.BufStack.msgs := rfl

/-- one call of the c99 scanner's functions -/
def cstep99 (s : State) : C11Stack.Op → State × Outcome
  | .push b => Gen.BufStackC99.push.run (setVar s Gen.BufStack.vArg b)
  | .pop => Gen.BufStackC99.pop.run s
  | .switch b => Gen.BufStackC99.switch_.run (setVar s Gen.BufStack.vArg b)

theorem cstep99_same (s : State) (op : C11Stack.Op) : cstep99 s op = C11Stack.cstep s op := by
  cases op <;> simp [cstep99, C11Stack.cstep, push_same, pop_same, switch_same]

def crun99 : List C11Stack.Op → State → State × Bool
  | [], s => (s, true)
  | op :: rest, s =>
    let r := cstep99 s op
    if C11Stack.returns r.2 then crun99 rest r.1 else (r.1, false)

theorem crun99_same : ∀ (ops : List C11Stack.Op) (s : State), crun99 ops s = C11Stack.crun ops s := by
  intro ops
  induction ops with
  | nil => intro _; rfl
  | cons op rest ih => intro s; simp only [crun99, C11Stack.crun, cstep99_same, ih]

/-- **C11, c99 back end**: every sequence of buffer-stack calls of the c99 scanner comes back and
    leaves its stack representing the list machine's -/
theorem stack_refines_c99 (ops : List C11Stack.Op) (s : State) (a : C11Stack.AB) (h : C11Stack.R s a)
    (hok : ∀ op ∈ ops, op.ok = true) :
    (crun99 ops s).2 = true ∧ C11Stack.R (crun99 ops s).1 (ops.foldl C11Stack.AB.step a) := by
  rw [crun99_same]; exact C11Stack.stack_refines ops s a h hok

/-- the current buffer of the c99 scanner after any sequence of calls -/
theorem current_after_c99 (ops : List C11Stack.Op) (hok : ∀ op ∈ ops, op.ok = true) :
    Gen.BufStackC99.currentEx.eval (crun99 ops C11Stack.s0).1 = some (ops.foldl C11Stack.AB.step C11Stack.a0).cur := by
  rw [crun99_same, current_same]; exact C11Stack.current_after ops hok

end FlexVerif.C11StackC99

/-
  Props/C01Step.lean — C01: the state-stepping code of the generated scanner and the table decoders of
  `Validator/Tables.lean`.  The validator's theorem (`validate_sound`) is about the automaton the *decoders* read out of
  the emitted tables; that the scanner walks the tables the way the decoders do was a matter of correspondence.  Here
  `yy_get_previous_state()` and `yy_try_NUL_trans()` are translated from a scanner flex has just generated with
  compressed tables, equivalence classes and meta-equivalence classes (`Gen/PrevState.lean`) and proved to compute
  `Tables.stepByte` / a fold of it: whenever the decoder's step is not `bad` (what the validator establishes for every
  reachable state), the code reads every table inside its bounds, the default-chain loop ends, and the state it arrives
  at is the decoder's.
-/
import FlexVerif.Imp.Lang
import FlexVerif.Gen.PrevState
import FlexVerif.Validator.Tables
namespace FlexVerif.C01Step
open FlexVerif.Imp FlexVerif.Gen.PrevState

theorem setVar_vars (s : State) (x y : Nat) (v : Int) : (setVar s x v).vars y = if y = x then v else s.vars y := rfl
@[simp] theorem setVar_arr (s : State) (x : Nat) (v : Int) : (setVar s x v).arr = s.arr := rfl
@[simp] theorem setVar_log (s : State) (x : Nat) (v : Int) : (setVar s x v).log = s.log := rfl

/-- table `t` of the state is the array `a` -/
structure Holds (s : State) (t : Nat) (a : Array Int) : Prop where
  len : s.vars (tabLen t) = a.size
  cell : ∀ i (h : i < a.size), s.vars (tabCell t i) = a[i]

theorem tab_eval {s : State} {t : Nat} {a : Array Int} (h : Holds s t a) (e : Ex) (k : Int) (he : e.eval s = some k) :
    (Ex.tab t e).eval s = rd a k := by
  simp only [Ex.eval, he, bind, Option.bind, rd, h.len]
  by_cases hk : k < 0
  · have : ¬ (0 ≤ k ∧ k < (a.size : Int)) := by omega
    simp [hk, this]
  · by_cases hlt : k < (a.size : Int)
    · have hi : k.toNat < a.size := by omega
      have : (0 ≤ k ∧ k < (a.size : Int)) := by omega
      simp [hk, this, h.cell _ hi, hi]
    · have : ¬ (0 ≤ k ∧ k < (a.size : Int)) := by omega
      have hi : ¬ k.toNat < a.size := by omega
      simp [hk, this, hi]

/-- the tables of `T` are the scanner's, YY_JAMSTATE and YY_NUL_EC its constants -/
structure TablesIn (s : State) (T : Tables) : Prop where
  ec : Holds s 0 T.ec
  accept : Holds s 1 T.accept
  base : Holds s 2 T.base
  chk : Holds s 3 T.chk
  deflt : Holds s 4 T.deflt
  nxt : Holds s 5 T.nxt
  metaEc : Holds s 6 T.metaEc
  jam : s.vars 11 = T.jamState
  nulEc : s.vars 10 = T.nulEc

theorem holds_setVar {s : State} {t : Nat} {a : Array Int} (h : Holds s t a) (x : Nat) (v : Int) (hx : x < 5000) :
    Holds (setVar s x v) t a := by
  refine ⟨?_, ?_⟩
  · rw [setVar_vars, if_neg (by unfold tabLen; omega)]; exact h.len
  · intro i hi; rw [setVar_vars, if_neg (by unfold tabCell; omega)]; exact h.cell i hi

theorem tablesIn_setVar {s : State} {T : Tables} (h : TablesIn s T) (x : Nat) (v : Int) (hx : x < 10) :
    TablesIn (setVar s x v) T :=
  ⟨holds_setVar h.ec x v (by omega), holds_setVar h.accept x v (by omega), holds_setVar h.base x v (by omega),
   holds_setVar h.chk x v (by omega), holds_setVar h.deflt x v (by omega), holds_setVar h.nxt x v (by omega),
   holds_setVar h.metaEc x v (by omega), by rw [setVar_vars, if_neg (by omega)]; exact h.jam,
   by rw [setVar_vars, if_neg (by omega)]; exact h.nulEc⟩

/-! ### the pieces -/

def stepCond : Ex := .not (.eq (.tab 3 (.add (.tab 2 (.var 0)) (.var 2))) (.var 0))
def stepBody : St :=
  .seq (.assign 0 (.tab 4 (.var 0))) (.ite (.le (.add (.var 11) (.lit 1)) (.var 0)) (.assign 2 (.tab 6 (.var 2))) .skip)
def stepLoop : St := .whileB (.add (.var 5004) (.lit 2)) stepCond stepBody
def stepNxt : St := .assign 0 (.tab 5 (.add (.tab 2 (.var 0)) (.var 2)))
def saveAcc : St := .ite (.tab 1 (.var 0)) (.seq (.assign 7 (.var 0)) (.assign 8 (.var 1))) .skip
def classOfCell : St := .assign 2 (.cond (.idx (.var 1)) (.tab 0 (.idx (.var 1))) (.var 10))
def forCond : Ex := .lt (.var 1) (.var 5)
def forBody : St := .seq (.seq classOfCell (.seq saveAcc (.seq stepLoop stepNxt))) (.assign 1 (.add (.var 1) (.lit 1)))

theorem prevState_shape :
    prevState = .seq (.assign 0 (.var 6)) (.seq (.seq (.assign 1 (.add (.var 3) (.var 4))) (.while_ forCond forBody)) (.ret (.var 0))) := rfl
theorem nulTrans_shape :
    nulTrans = .seq (.assign 1 (.var 5)) (.seq (.assign 2 (.var 10)) (.seq saveAcc (.seq stepLoop (.seq stepNxt
      (.seq (.assign 9 (.eq (.var 0) (.var 11))) (.ret (.cond (.var 9) (.lit 0) (.var 0)))))))) := rfl


/-! ### evaluation lemmas (sub-expressions stay folded) -/

theorem eval_var (s : State) (x : Nat) : (Ex.var x).eval s = some (s.vars x) := rfl
theorem eval_lit (s : State) (k : Int) : (Ex.lit k).eval s = some k := rfl
theorem eval_add_some {s : State} {a b : Ex} {x y : Int} (ha : a.eval s = some x) (hb : b.eval s = some y) :
    (Ex.add a b).eval s = some (x + y) := by simp [Ex.eval, ha, hb, bind, Option.bind, pure]
theorem eval_eq_some {s : State} {a b : Ex} {x y : Int} (ha : a.eval s = some x) (hb : b.eval s = some y) :
    (Ex.eq a b).eval s = some (b2i (x == y)) := by simp [Ex.eval, ha, hb, bind, Option.bind, pure]
theorem eval_le_some {s : State} {a b : Ex} {x y : Int} (ha : a.eval s = some x) (hb : b.eval s = some y) :
    (Ex.le a b).eval s = some (b2i (x ≤ y)) := by simp [Ex.eval, ha, hb, bind, Option.bind, pure]
theorem eval_lt_some {s : State} {a b : Ex} {x y : Int} (ha : a.eval s = some x) (hb : b.eval s = some y) :
    (Ex.lt a b).eval s = some (b2i (x < y)) := by simp [Ex.eval, ha, hb, bind, Option.bind, pure]
theorem eval_not_some {s : State} {a : Ex} {x : Int} (ha : a.eval s = some x) :
    (Ex.not a).eval s = some (b2i (x == 0)) := by simp [Ex.eval, ha, bind, Option.bind, pure]
theorem eval_cond_some {s : State} {c a b : Ex} {x : Int} (hc : c.eval s = some x) :
    (Ex.cond c a b).eval s = if x != 0 then a.eval s else b.eval s := by simp [Ex.eval, hc, bind, Option.bind]
theorem run_assign_some {s : State} {x : Nat} {e : Ex} {v : Int} (he : e.eval s = some v) :
    (St.assign x e).run s = (setVar s x v, .normal) := by simp [St.run, he]
theorem run_seq_normal {a b : St} {s s' : State} (h : a.run s = (s', .normal)) : (St.seq a b).run s = b.run s' := by
  simp [St.run, h]
theorem run_ite_some {s : State} {c : Ex} {t e : St} {v : Int} (hc : c.eval s = some v) :
    (St.ite c t e).run s = if v != 0 then t.run s else e.run s := by simp [St.run, hc]

/-! ### one step: the default-chain loop and the final `yy_nxt` read compute `compStep` -/

/-- the state number a decoder result stands for in the code (the jam state is a state of the tables) -/
def valOf (T : Tables) : DState → Int
  | .st n => n
  | .jam => T.jamState
  | .bad => 0

theorem comp_code (T : Tables) (hm : T.useMecs = true) : ∀ (fuel : Nat) (s : State) (f : Nat), TablesIn s T → fuel ≤ f →
    T.compStep fuel (s.vars 0) (s.vars 2) ≠ .bad →
    ∃ s1, loop (fun s' => stepCond.eval s') (fun s' => stepBody.run s') f s = (s1, .normal) ∧
      stepNxt.run s1 = (setVar s1 0 (valOf T (T.compStep fuel (s.vars 0) (s.vars 2))), .normal) ∧
      TablesIn s1 T ∧ (∀ y, y ≠ 0 → y ≠ 2 → s1.vars y = s.vars y) ∧ s1.arr = s.arr ∧ s1.log = s.log := by
  intro fuel
  induction fuel with
  | zero => intro s f _ _ h; simp [Tables.compStep] at h
  | succ fuel ih =>
    intro s f hT hf hnb
    obtain ⟨f', rfl⟩ : ∃ f', f = f' + 1 := ⟨f - 1, by omega⟩
    have hbase := tab_eval hT.base (.var 0) (s.vars 0) rfl
    unfold Tables.compStep at hnb ⊢
    cases hb : rd T.base (s.vars 0) with
    | none => simp [hb] at hnb
    | some b =>
      simp only [hb] at hnb ⊢
      have hsum : (Ex.add (.tab 2 (.var 0)) (.var 2)).eval s = some (b + s.vars 2) :=
        eval_add_some (hbase.trans hb) (eval_var s 2)
      have hchk := tab_eval hT.chk _ _ hsum
      cases hk : rd T.chk (b + s.vars 2) with
      | none => simp [hk] at hnb
      | some k =>
        simp only [hk] at hnb ⊢
        have hcond : stepCond.eval s = some (b2i (b2i (k == s.vars 0) == 0)) :=
          eval_not_some (eval_eq_some (hchk.trans hk) (eval_var s 0))
        by_cases hks : k = s.vars 0
        · -- the entry is this state's: the loop ends, yy_nxt is read
          simp only [hks, if_true] at hnb ⊢
          cases hn : rd T.nxt (b + s.vars 2) with
          | none => simp [hn] at hnb
          | some n =>
            have hc : stepCond.eval s = some 0 := by rw [hcond]; simp [hks, b2i]
            refine ⟨s, ?_, ?_, hT, fun _ _ _ => rfl, rfl, rfl⟩
            · rw [loop]; try dsimp only
              rw [hc]; rfl
            · have hnx := (tab_eval hT.nxt _ _ hsum).trans hn
              rw [stepNxt, run_assign_some hnx]
              congr 2
              by_cases hj : n = T.jamState
              · simp [hj, valOf]
              · simp [hj, valOf]
        · -- follow the default chain
          simp only [hks, if_false] at hnb ⊢
          have hc : stepCond.eval s = some 1 := by rw [hcond]; simp [hks, b2i]
          have hdef := tab_eval hT.deflt (.var 0) (s.vars 0) rfl
          cases hd : rd T.deflt (s.vars 0) with
          | none => simp [hd] at hnb
          | some d =>
            simp only [hd, hm, Bool.true_and] at hnb ⊢
            have h1 : ((1 : Int) != 0) = true := by decide
            have hT0 : TablesIn (setVar s 0 d) T := tablesIn_setVar hT 0 d (by omega)
            have ha0 : (St.assign 0 (.tab 4 (.var 0))).run s = (setVar s 0 d, .normal) := run_assign_some (hdef.trans hd)
            have hjam : (setVar s 0 d).vars 11 = T.jamState := by rw [setVar_vars, if_neg (by omega)]; exact hT.jam
            have htest : (Ex.le (.add (.var 11) (.lit 1)) (.var 0)).eval (setVar s 0 d) = some (b2i (T.jamState + 1 ≤ d)) := by
              have := eval_le_some (eval_add_some (eval_var (setVar s 0 d) 11) (eval_lit _ 1)) (eval_var (setVar s 0 d) 0)
              rw [this, hjam]; simp [setVar_vars]
            by_cases hge : d ≥ T.jamState + 1
            · simp only [hge, decide_true, if_true] at hnb ⊢
              cases hme : rd T.metaEc (s.vars 2) with
              | none => simp [hme] at hnb
              | some c' =>
                simp only [hme] at hnb ⊢
                have hT1 : TablesIn (setVar (setVar s 0 d) 2 c') T := tablesIn_setVar hT0 2 c' (by omega)
                have hmeta' : (Ex.tab 6 (.var 2)).eval (setVar s 0 d) = some c' := by
                  rw [tab_eval hT0.metaEc (.var 2) (s.vars 2) (by simp [Ex.eval, setVar_vars])]
                  exact hme
                have hbody : stepBody.run s = (setVar (setVar s 0 d) 2 c', .normal) := by
                  rw [stepBody, run_seq_normal ha0, run_ite_some htest]
                  have : (b2i (T.jamState + 1 ≤ d) != 0) = true := by simp [b2i, hge]
                  simp only [this, if_true]
                  exact run_assign_some hmeta'
                have e0 : (setVar (setVar s 0 d) 2 c').vars 0 = d := by simp [setVar_vars]
                have e2 : (setVar (setVar s 0 d) 2 c').vars 2 = c' := by simp [setVar_vars]
                obtain ⟨s1, hl, hn, hT', hfr, ha, hlg⟩ := ih (setVar (setVar s 0 d) 2 c') f' hT1 (by omega) (by rw [e0, e2]; exact hnb)
                rw [e0, e2] at hn
                refine ⟨s1, ?_, hn, hT', ?_, by rw [ha]; simp, by rw [hlg]; simp⟩
                · rw [loop]; try dsimp only
                  rw [hc, hbody]; simp only [h1, if_true]; exact hl
                · intro y h0 h2; rw [hfr y h0 h2]; simp [setVar_vars, h0, h2]
            · have hge' : (decide (d ≥ T.jamState + 1)) = false := by simp [hge]
              simp only [hge', Bool.false_eq_true, if_false] at hnb ⊢
              have hbody : stepBody.run s = (setVar s 0 d, .normal) := by
                rw [stepBody, run_seq_normal ha0, run_ite_some htest]
                have hn' : ¬ (T.jamState + 1 ≤ d) := by omega
                have : (b2i (T.jamState + 1 ≤ d) != 0) = false := by simp [b2i, hn']
                simp only [this, Bool.false_eq_true, if_false]
                rfl
              have e0 : (setVar s 0 d).vars 0 = d := by simp [setVar_vars]
              have e2 : (setVar s 0 d).vars 2 = s.vars 2 := by simp [setVar_vars]
              obtain ⟨s1, hl, hn, hT', hfr, ha, hlg⟩ := ih (setVar s 0 d) f' hT0 (by omega) (by rw [e0, e2]; exact hnb)
              rw [e0, e2] at hn
              refine ⟨s1, ?_, hn, hT', ?_, by rw [ha]; simp, by rw [hlg]; simp⟩
              · rw [loop]; try dsimp only
                rw [hc, hbody]; simp only [h1, if_true]; exact hl
              · intro y h0 h2; rw [hfr y h0 h2]; simp [setVar_vars, h0]


theorem compStep_st_ne_jam (T : Tables) : ∀ (fuel : Nat) (cur c n : Int), T.compStep fuel cur c = .st n → n ≠ T.jamState := by
  intro fuel
  induction fuel with
  | zero => intro _ _ _ h; simp [Tables.compStep] at h
  | succ fuel ih =>
    intro cur c n h
    unfold Tables.compStep at h
    split at h
    · simp at h
    · split at h
      · simp at h
      · split at h
        · split at h
          · simp at h
          · rename_i n' _
            split at h
            · simp at h
            · rename_i hne
              simp only [DState.st.injEq] at h
              subst h; exact hne
        · split at h
          · simp at h
          · split at h
            · split at h
              · simp at h
              · exact ih _ _ _ h
            · exact ih _ _ _ h

/-- `saveAcc`: the back-up bookkeeping reads `yy_accept[yy_current_state]`, which must exist; it touches nothing the
    step depends on -/
theorem saveAcc_run {s : State} {T : Tables} (hT : TablesIn s T) (ha : rd T.accept (s.vars 0) ≠ none) :
    ∃ s', saveAcc.run s = (s', .normal) ∧ TablesIn s' T ∧ (∀ y, y ≠ 7 → y ≠ 8 → s'.vars y = s.vars y) ∧
      s'.arr = s.arr ∧ s'.log = s.log := by
  have hacc := tab_eval hT.accept (.var 0) (s.vars 0) rfl
  cases h : rd T.accept (s.vars 0) with
  | none => exact absurd h ha
  | some a =>
    rw [saveAcc, run_ite_some (hacc.trans h)]
    by_cases hz : a = 0
    · refine ⟨s, by simp [hz, St.run], hT, fun _ _ _ => rfl, rfl, rfl⟩
    · have : (a != 0) = true := by simp [hz]
      simp only [this, if_true]
      refine ⟨setVar (setVar s 7 (s.vars 0)) 8 (s.vars 1), ?_, tablesIn_setVar (tablesIn_setVar hT 7 _ (by omega)) 8 _ (by omega), ?_, rfl, rfl⟩
      · rw [run_seq_normal (run_assign_some (eval_var s 0))]
        exact run_assign_some (by simp [Ex.eval, setVar_vars])
      · intro y h7 h8; simp [setVar_vars, h7, h8]

/-- the loop with its bound, then the `yy_nxt` read: one call of the decoder's `compStep` with the decoder's fuel -/
theorem step_code (T : Tables) (hm : T.useMecs = true) (s : State) (hT : TablesIn s T)
    (hnb : T.compStep (T.deflt.size + 2) (s.vars 0) (s.vars 2) ≠ .bad) :
    ∃ s1, (St.seq stepLoop stepNxt).run s =
        (setVar s1 0 (valOf T (T.compStep (T.deflt.size + 2) (s.vars 0) (s.vars 2))), .normal) ∧
      TablesIn s1 T ∧ (∀ y, y ≠ 0 → y ≠ 2 → s1.vars y = s.vars y) ∧ s1.arr = s.arr ∧ s1.log = s.log := by
  obtain ⟨s1, hl, hn, hT1, hfr, ha, hlg⟩ := comp_code T hm (T.deflt.size + 2) s (T.deflt.size + 2) hT (Nat.le_refl _) hnb
  refine ⟨s1, ?_, hT1, hfr, ha, hlg⟩
  have hb : (Ex.add (.var 5004) (.lit 2)).eval s = some ((T.deflt.size : Int) + 2) := by
    have := hT.deflt.len
    simp only [tabLen] at this
    exact eval_add_some (by rw [eval_var]; exact congrArg some this) (eval_lit s 2)
  have hrun : stepLoop.run s = (s1, .normal) := by
    simp only [stepLoop, St.run, hb]
    have : ((T.deflt.size : Int) + 2).toNat = T.deflt.size + 2 := by omega
    rw [this]; exact hl
  rw [run_seq_normal hrun, hn]

/-- **yy_try_NUL_trans()** computes the decoder's transition on a NUL: 0 when it jams, else the next state -/
theorem nulTrans_spec (T : Tables) (hk : T.kind = .compressed) (hm : T.useMecs = true) (hnt : T.hasNulTrans = false)
    (s : State) (hT : TablesIn s T) (ha : rd T.accept (s.vars 0) ≠ none) (hnb : T.stepByte (s.vars 0) 0 ≠ .bad) :
    ∃ s', nulTrans.run s = (s', .returned (match T.stepByte (s.vars 0) 0 with | .st n => n | _ => 0)) ∧
      s'.arr = s.arr ∧ s'.log = s.log := by
  have hsb : T.stepByte (s.vars 0) 0 = T.compStep (T.deflt.size + 2) (s.vars 0) T.nulEc := by
    simp [Tables.stepByte, hnt, Tables.stepClass, hk]
  rw [hsb] at hnb ⊢
  -- yy_cp = yy_c_buf_p; yy_c = YY_NUL_EC
  let s1 := setVar (setVar s 1 (s.vars 5)) 2 T.nulEc
  have h1 : (St.assign 1 (.var 5)).run s = (setVar s 1 (s.vars 5), .normal) := run_assign_some (eval_var s 5)
  have h2 : (St.assign 2 (.var 10)).run (setVar s 1 (s.vars 5)) = (s1, .normal) := by
    apply run_assign_some; rw [eval_var, setVar_vars, if_neg (by omega), hT.nulEc]
  have hT1 : TablesIn s1 T := tablesIn_setVar (tablesIn_setVar hT 1 _ (by omega)) 2 _ (by omega)
  have e0 : s1.vars 0 = s.vars 0 := by simp [s1, setVar_vars]
  have e2 : s1.vars 2 = T.nulEc := by simp [s1, setVar_vars]
  obtain ⟨s2, hsa, hT2, hfr2, ha2, hl2⟩ := saveAcc_run hT1 (by rw [e0]; exact ha)
  have e0' : s2.vars 0 = s.vars 0 := by rw [hfr2 0 (by omega) (by omega), e0]
  have e2' : s2.vars 2 = T.nulEc := by rw [hfr2 2 (by omega) (by omega), e2]
  obtain ⟨s3, hst, hT3, hfr3, ha3, hl3⟩ := step_code T hm s2 hT2 (by rw [e0', e2']; exact hnb)
  rw [e0', e2'] at hst
  rw [nulTrans_shape, run_seq_normal h1, run_seq_normal h2, run_seq_normal hsa]
  -- (stepLoop; stepNxt; rest) : re-associate
  have hassoc : ∀ (r : St) (x : State), (St.seq stepLoop (.seq stepNxt r)).run x = (St.seq (.seq stepLoop stepNxt) r).run x := by
    intro r x; simp only [St.run]; cases stepLoop.run x with | mk a o => cases o <;> rfl
  rw [hassoc, run_seq_normal hst]
  generalize hv : valOf T (T.compStep (T.deflt.size + 2) (s.vars 0) T.nulEc) = v
  have hjam : (setVar s3 0 v).vars 11 = T.jamState := by
    rw [setVar_vars, if_neg (by omega)]; exact hT3.jam
  have h9 : (St.assign 9 (.eq (.var 0) (.var 11))).run (setVar s3 0 v) = (setVar (setVar s3 0 v) 9 (b2i (v == T.jamState)), .normal) := by
    apply run_assign_some
    rw [eval_eq_some (eval_var _ 0) (eval_var _ 11), hjam]; simp [setVar_vars]
  rw [run_seq_normal h9]
  refine ⟨setVar (setVar s3 0 v) 9 (b2i (v == T.jamState)), ?_, by simp [ha3, ha2, s1], by simp [hl3, hl2, s1]⟩
  have hc : (Ex.cond (.var 9) (.lit 0) (.var 0)).eval (setVar (setVar s3 0 v) 9 (b2i (v == T.jamState))) =
      some (if v = T.jamState then 0 else v) := by
    rw [eval_cond_some (eval_var _ 9)]
    by_cases hj : v = T.jamState
    · simp [setVar_vars, hj, b2i, Ex.eval]
    · simp [setVar_vars, hj, b2i, Ex.eval]
  simp only [St.run, hc]
  congr 2
  cases hcs : T.compStep (T.deflt.size + 2) (s.vars 0) T.nulEc with
  | bad => exact absurd hcs hnb
  | jam => simp [hcs, valOf] at hv; simp [← hv]
  | st n =>
    have := compStep_st_ne_jam T _ _ _ _ hcs
    simp [hcs, valOf] at hv; simp [← hv, this]


/-! ### yy_get_previous_state(): a fold of the decoder's step over the text -/

/-- the decoder's transition on a buffer cell holding the byte value `b` -/
def cellStep (T : Tables) (cur b : Int) : DState :=
  if b = 0 then T.compStep (T.deflt.size + 2) cur T.nulEc
  else match rd T.ec b with
    | none => .bad
    | some c => T.compStep (T.deflt.size + 2) cur c

theorem cellStep_eq_stepByte (T : Tables) (hk : T.kind = .compressed) (he : T.useEcs = true) (hnt : T.hasNulTrans = false)
    (cur : Int) (b : UInt8) : cellStep T cur (b.toNat : Int) = T.stepByte cur b := by
  unfold cellStep Tables.stepByte
  by_cases hb : b = 0
  · subst hb; simp [hnt, Tables.stepClass, hk]
  · have : (b.toNat : Int) ≠ 0 := by
      intro h
      apply hb
      have h0 : b.toNat = 0 := by omega
      exact UInt8.toNat_inj.mp (by simpa using h0)
    simp only [this, if_false, hb, Tables.classOf, he, if_true, Tables.stepClass, hk]
    cases rd T.ec (b.toNat : Int) <;> rfl

/-- the states the code goes through on `cells` from `cur`: every one has its `yy_accept` entry and a next state -/
def walk (T : Tables) : Int → List Int → Option Int
  | cur, [] => some cur
  | cur, b :: rest =>
    match rd T.accept cur, cellStep T cur b with
    | some _, .st n => walk T n rest
    | _, _ => none

theorem eval_idx_some {s : State} {i : Ex} {k b : Int} (hi : i.eval s = some k) (hk : 0 ≤ k) (hb : s.arr[k.toNat]? = some b) :
    (Ex.idx i).eval s = some b := by simp [Ex.eval, hi, hk, hb, bind, Option.bind]

theorem forBody_run (T : Tables) (hm : T.useMecs = true) (s : State) (hT : TablesIn s T) (cp : Nat) (b n : Int)
    (h1 : s.vars 1 = cp) (hb : s.arr[cp]? = some b) (ha : rd T.accept (s.vars 0) ≠ none)
    (hst : cellStep T (s.vars 0) b = .st n) :
    ∃ s', forBody.run s = (s', .normal) ∧ TablesIn s' T ∧ s'.vars 0 = n ∧ s'.vars 1 = (cp : Int) + 1 ∧
      (∀ y, y ≠ 0 → y ≠ 1 → y ≠ 2 → y ≠ 7 → y ≠ 8 → s'.vars y = s.vars y) ∧ s'.arr = s.arr ∧ s'.log = s.log := by
  have hidx : (Ex.idx (.var 1)).eval s = some b :=
    eval_idx_some (eval_var s 1) (by rw [h1]; omega) (by rw [h1]; simpa using hb)
  -- the class of the cell
  obtain ⟨c0, hcl, hcs⟩ : ∃ c0, classOfCell.run s = (setVar s 2 c0, .normal) ∧
      T.compStep (T.deflt.size + 2) (s.vars 0) c0 = .st n := by
    by_cases hz : b = 0
    · refine ⟨T.nulEc, ?_, by simpa [cellStep, hz] using hst⟩
      rw [classOfCell]; apply run_assign_some
      rw [eval_cond_some hidx]; simp [hz, eval_var, hT.nulEc]
    · simp only [cellStep, hz, if_false] at hst
      cases hec : rd T.ec b with
      | none => simp [hec] at hst
      | some c =>
        refine ⟨c, ?_, by simpa [hec] using hst⟩
        rw [classOfCell]; apply run_assign_some
        rw [eval_cond_some hidx]
        have : (b != 0) = true := by simp [hz]
        simp only [this, if_true]
        exact (tab_eval hT.ec _ _ hidx).trans hec
  have hT1 : TablesIn (setVar s 2 c0) T := tablesIn_setVar hT 2 c0 (by omega)
  have e0 : (setVar s 2 c0).vars 0 = s.vars 0 := by simp [setVar_vars]
  obtain ⟨s2, hsa, hT2, hfr2, ha2, hl2⟩ := saveAcc_run hT1 (by rw [e0]; exact ha)
  have e0' : s2.vars 0 = s.vars 0 := by rw [hfr2 0 (by omega) (by omega), e0]
  have e2' : s2.vars 2 = c0 := by rw [hfr2 2 (by omega) (by omega)]; simp [setVar_vars]
  obtain ⟨s3, hstp, hT3, hfr3, ha3, hl3⟩ := step_code T hm s2 hT2 (by rw [e0', e2', hcs]; simp)
  rw [e0', e2', hcs] at hstp
  simp only [valOf] at hstp
  have hinc : (St.assign 1 (.add (.var 1) (.lit 1))).run (setVar s3 0 n) = (setVar (setVar s3 0 n) 1 ((cp : Int) + 1), .normal) := by
    apply run_assign_some
    rw [eval_add_some (eval_var _ 1) (eval_lit _ 1)]
    have : (setVar s3 0 n).vars 1 = cp := by
      rw [setVar_vars, if_neg (by omega), hfr3 1 (by omega) (by omega), hfr2 1 (by omega) (by omega), setVar_vars, if_neg (by omega), h1]
    rw [this]
  refine ⟨setVar (setVar s3 0 n) 1 ((cp : Int) + 1), ?_, tablesIn_setVar (tablesIn_setVar hT3 0 n (by omega)) 1 _ (by omega),
    by simp [setVar_vars], by simp [setVar_vars], ?_, by simp [ha3, ha2], by simp [hl3, hl2]⟩
  · rw [forBody]
    have hinner : (St.seq classOfCell (.seq saveAcc (.seq stepLoop stepNxt))).run s = (setVar s3 0 n, .normal) := by
      rw [run_seq_normal hcl, run_seq_normal hsa, hstp]
    rw [run_seq_normal hinner, hinc]
  · intro y h0 h1' h2 h7 h8
    rw [setVar_vars, if_neg h1', setVar_vars, if_neg h0, hfr3 y h0 h2, hfr2 y h7 h8, setVar_vars, if_neg h2]

theorem for_loop (T : Tables) (hm : T.useMecs = true) : ∀ (cells : List Int) (s : State) (cp : Nat) (fuel : Nat) (n : Int),
    TablesIn s T → s.vars 1 = cp → s.vars 5 = ((cp + cells.length : Nat) : Int) →
    (s.arr.drop cp).take cells.length = cells → cp + cells.length ≤ s.arr.length →
    walk T (s.vars 0) cells = some n → cells.length + 1 ≤ fuel →
    ∃ s', loop (fun x => forCond.eval x) (fun x => forBody.run x) fuel s = (s', .normal) ∧ s'.vars 0 = n ∧
      s'.arr = s.arr ∧ s'.log = s.log := by
  intro cells
  induction cells with
  | nil =>
    intro s cp fuel n _ h1 h5 _ _ hw hf
    obtain ⟨f, rfl⟩ : ∃ f, fuel = f + 1 := ⟨fuel - 1, by omega⟩
    have hc : forCond.eval s = some 0 := by
      rw [forCond, eval_lt_some (eval_var s 1) (eval_var s 5), h1, h5]; simp [b2i]
    refine ⟨s, ?_, by simpa [walk] using hw, rfl, rfl⟩
    rw [loop]; try dsimp only
    rw [hc]; rfl
  | cons b rest ih =>
    intro s cp fuel n hT h1 h5 hcells hlen hw hf
    obtain ⟨f, rfl⟩ : ∃ f, fuel = f + 1 := ⟨fuel - 1, by omega⟩
    simp only [List.length_cons] at hcells hlen h5 hf
    have hc : forCond.eval s = some 1 := by
      rw [forCond, eval_lt_some (eval_var s 1) (eval_var s 5), h1, h5]
      have : ((cp : Int) < ((cp + (rest.length + 1) : Nat) : Int)) := by omega
      simp only [b2i, this, decide_true, if_true]
    have hcp : cp < s.arr.length := by omega
    have hd : s.arr.drop cp = s.arr[cp] :: s.arr.drop (cp + 1) := List.drop_eq_getElem_cons hcp
    rw [hd, List.take_succ_cons] at hcells
    have hb : s.arr[cp]? = some b := by
      rw [List.getElem?_eq_getElem hcp]; congr 1; exact (List.cons.inj hcells).1
    have hrest : (s.arr.drop (cp + 1)).take rest.length = rest := (List.cons.inj hcells).2
    -- the walk's first step
    simp only [walk] at hw
    cases hacc : rd T.accept (s.vars 0) with
    | none => simp [hacc] at hw
    | some a =>
      cases hcs : cellStep T (s.vars 0) b with
      | bad => simp [hacc, hcs] at hw
      | jam => simp [hacc, hcs] at hw
      | st n1 =>
        simp only [hacc, hcs] at hw
        obtain ⟨s1, hrun, hT1, e0, e1, hfr, ha, hl⟩ := forBody_run T hm s hT cp b n1 h1 hb (by rw [hacc]; simp) hcs
        obtain ⟨s', hl', hn', ha', hlg'⟩ := ih s1 (cp + 1) f n hT1 (by rw [e1]; simp)
          (by rw [hfr 5 (by omega) (by omega) (by omega) (by omega) (by omega), h5]; congr 1; omega)
          (by rw [ha]; exact hrest) (by rw [ha]; omega) (by rw [e0]; exact hw) (by omega)
        refine ⟨s', ?_, hn', by rw [ha', ha], by rw [hlg', hl]⟩
        rw [loop]; try dsimp only
        rw [hc, hrun]
        have h1' : ((1 : Int) != 0) = true := by decide
        simp only [h1', if_true]
        exact hl'

/-- **yy_get_previous_state()** returns the state the decoder's steps lead to over the text between
    `yytext_ptr + YY_MORE_ADJ` and `yy_c_buf_p`, reading every table inside its bounds -/
theorem prevState_spec (T : Tables) (hm : T.useMecs = true) (s : State) (hT : TablesIn s T) (t0 len : Nat) (n : Int)
    (ht : s.vars 3 + s.vars 4 = t0) (he : s.vars 5 = ((t0 + len : Nat) : Int)) (hin : t0 + len ≤ s.arr.length)
    (hw : walk T (s.vars 6) ((s.arr.drop t0).take len) = some n) :
    ∃ s', prevState.run s = (s', .returned n) ∧ s'.arr = s.arr ∧ s'.log = s.log := by
  have h0 : (St.assign 0 (.var 6)).run s = (setVar s 0 (s.vars 6), .normal) := run_assign_some (eval_var s 6)
  have h1 : (St.assign 1 (.add (.var 3) (.var 4))).run (setVar s 0 (s.vars 6)) = (setVar (setVar s 0 (s.vars 6)) 1 t0, .normal) := by
    apply run_assign_some
    rw [eval_add_some (eval_var _ 3) (eval_var _ 4)]; simp [setVar_vars, ht]
  let s1 := setVar (setVar s 0 (s.vars 6)) 1 (t0 : Int)
  have hT1 : TablesIn s1 T := tablesIn_setVar (tablesIn_setVar hT 0 _ (by omega)) 1 _ (by omega)
  have hlen : ((s.arr.drop t0).take len).length = len := by simp; omega
  obtain ⟨s', hl, hn, ha, hlg⟩ := for_loop T hm ((s.arr.drop t0).take len) s1 t0 (s1.arr.length + 3) n hT1
    (by simp [s1, setVar_vars]) (by simp only [s1, setVar_vars]; rw [hlen]; simpa using he)
    (by rw [hlen]; rfl) (by rw [hlen]; exact hin) (by simpa [s1, setVar_vars] using hw) (by rw [hlen]; simp [s1]; omega)
  have hwl : (St.seq (.assign 1 (.add (.var 3) (.var 4))) (.while_ forCond forBody)).run (setVar s 0 (s.vars 6)) = (s', .normal) := by
    rw [run_seq_normal h1]; simp only [St.run]; exact hl
  rw [prevState_shape, run_seq_normal h0, run_seq_normal hwl]
  refine ⟨s', ?_, by rw [ha]; simp [s1], by rw [hlg]; simp [s1]⟩
  simp [St.run, Ex.eval, hn]

end FlexVerif.C01Step

/-
  Props/C01StepBuf.lean — C01 / C03: what the translated `yy_get_previous_state()` computes (`C01Step.walk`, a fold of
  the decoder's step over the buffer cells) is what the buffer machine `Runtime/Buf.lean` calls `prevState` when it is
  instantiated with the emitted tables (`tableDFA`, `Runtime/BufTable.lean`): after a refill the machine "recomputes the
  state from the moved text" with exactly the function the code has been proved to compute.
-/
import FlexVerif.Props.C01Step
import FlexVerif.Runtime.BufTable
namespace FlexVerif.C01StepBuf
open FlexVerif.C01Step

/-- the buffer machine's recomputation of the state, from an arbitrary state -/
def prevFrom (T : Tables) (interactive : Bool) (st : DState) (text : List UInt8) : Option DState :=
  text.foldl (fun s c => s.bind fun s => (tableDFA T interactive).step s c) (some st)

theorem prevFrom_start (T : Tables) (interactive bol : Bool) (text : List UInt8) :
    Buf.prevState (tableDFA T interactive) bol text = prevFrom T interactive ((tableDFA T interactive).start bol) text := rfl

/-- **the walk of the code is the machine's `prevState`** -/
theorem walk_prevFrom (T : Tables) (hk : T.kind = .compressed) (he : T.useEcs = true) (hnt : T.hasNulTrans = false)
    (interactive : Bool) : ∀ (bytes : List UInt8) (cur n : Int),
    walk T cur (bytes.map fun b => (b.toNat : Int)) = some n → prevFrom T interactive (.st cur) bytes = some (.st n) := by
  intro bytes
  induction bytes with
  | nil =>
    intro cur n h
    simp only [List.map_nil, walk, Option.some.injEq] at h
    simp [prevFrom, h]
  | cons b rest ih =>
    intro cur n h
    simp only [List.map_cons, walk] at h
    cases hacc : rd T.accept cur with
    | none => simp [hacc] at h
    | some a =>
      cases hcs : cellStep T cur (b.toNat : Int) with
      | bad => simp [hacc, hcs] at h
      | jam => simp [hacc, hcs] at h
      | st n1 =>
        simp only [hacc, hcs] at h
        have hstep : T.step (.st cur) b = .st n1 := by
          simp only [Tables.step]
          rw [← cellStep_eq_stepByte T hk he hnt cur b]; exact hcs
        have hd : (tableDFA T interactive).step (.st cur) b = some (.st n1) := by
          simp only [tableDFA, hstep]
        have := ih n1 n h
        simp only [prevFrom, List.foldl_cons, Option.bind, hd] at this ⊢
        exact this


/-- **yy_try_NUL_trans() and the machine's step on a NUL**: the value returned is the next state of `tableDFA` on byte 0,
    or 0 where that automaton has no transition -/
theorem nulTrans_tableDFA (T : Tables) (hk : T.kind = .compressed) (hm : T.useMecs = true) (hnt : T.hasNulTrans = false)
    (interactive : Bool) (s : Imp.State) (hT : TablesIn s T) (ha : rd T.accept (s.vars 0) ≠ none)
    (hnb : T.stepByte (s.vars 0) 0 ≠ .bad) :
    ∃ s', Gen.PrevState.nulTrans.run s =
        (s', .returned (match (tableDFA T interactive).step (.st (s.vars 0)) 0 with | some (.st n) => n | _ => 0)) := by
  obtain ⟨s', h, _, _⟩ := nulTrans_spec T hk hm hnt s hT ha hnb
  refine ⟨s', ?_⟩
  rw [h]
  congr 2
  simp only [tableDFA, Tables.step]
  cases hs : T.stepByte (s.vars 0) 0 with
  | bad => exact absurd hs hnb
  | jam => rfl
  | st n => rfl

end FlexVerif.C01StepBuf

/-
  Props/C11ScanBuf.lean — C11, yy_scan_buffer(): "yy_scan_buffer scans in place and returns NULL for a buffer lacking
  the two terminating NULs".  `tools/fv/gen_scanbuf.py` translates the function from a scanner flex has just generated
  (`Gen/ScanBuf.lean`; the array is the caller's memory, `||` keeps its short-circuit evaluation).  For every size and
  every content: NULL exactly when the memory is shorter than two bytes or does not end in two NULs — without reading
  outside it, also when `size < 2` —, else a buffer over that very memory (nothing copied, nothing written), with
  `size - 2` characters, never refilled, not owned by the scanner, at the beginning of a line, made current.
-/
import FlexVerif.Imp.Lang
import FlexVerif.Gen.ScanBuf
import FlexVerif.Props.C01Step
namespace FlexVerif.C11ScanBuf
open FlexVerif.Imp FlexVerif.Gen.ScanBuf

theorem setVar_vars (s : State) (x y : Nat) (v : Int) : (setVar s x v).vars y = if y = x then v else s.vars y := rfl
@[simp] theorem setVar_arr (s : State) (x : Nat) (v : Int) : (setVar s x v).arr = s.arr := rfl
@[simp] theorem setVar_log (s : State) (x : Nat) (v : Int) : (setVar s x v).log = s.log := rfl

/-- the memory ends in the two end-of-buffer characters -/
def Terminated (arr : List Int) : Prop :=
  2 ≤ arr.length ∧ arr[arr.length - 2]? = some 0 ∧ arr[arr.length - 1]? = some 0

instance (arr : List Int) : Decidable (Terminated arr) := by unfold Terminated; infer_instance

open FlexVerif.C01Step (eval_var eval_lit eval_lt_some eval_eq_some eval_not_some eval_cond_some run_ite_some run_seq_normal run_assign_some)

def nz (e : Ex) : Ex := .not (.eq e (.lit 0))
def cell2 : Ex := .not (.eq (.idx (.sub (.var 0) (.lit 2))) (.lit 0))      -- base[size-2] != 0
def cell1 : Ex := .not (.eq (.idx (.sub (.var 0) (.lit 1))) (.lit 0))      -- base[size-1] != 0
def guard : Ex := .cond (.cond (.lt (.var 0) (.lit 2)) (.lit 1) (nz cell2)) (.lit 1) (nz cell1)
def rest : St :=
  .seq (.assign 1 (.lit 1)) (.seq (.ite (.eq (.var 1) (.lit 0)) (.fatal 0) .skip) (.seq (.assign 2 (.sub (.var 0) (.lit 2)))
  (.seq (.seq (.assign 4 (.lit 0)) (.assign 3 (.var 4))) (.seq (.assign 5 (.lit 0)) (.seq (.assign 6 (.lit 0)) (.seq (.assign 7 (.var 2))
  (.seq (.assign 8 (.lit 0)) (.seq (.assign 9 (.lit 1)) (.seq (.assign 10 (.lit 1)) (.seq (.assign 11 (.lit 0)) (.seq (.assign 12 (.lit 0))
  (.seq (.assign 13 (.lit 0)) (.seq (.call 0 (.var 1)) (.ret (.var 1)))))))))))))))

theorem scanBuffer_shape : scanBuffer = .seq (.ite guard (.ret (.lit 0)) .skip) rest := rfl

theorem eval_idx_at {s : State} {e : Ex} {k : Int} (he : e.eval s = some k) (hk : 0 ≤ k) (hlt : k.toNat < s.arr.length) :
    (Ex.idx e).eval s = some (s.arr[k.toNat]) := by
  simp [Ex.eval, he, hk, bind, Option.bind, List.getElem?_eq_getElem hlt]

theorem eval_sub_some {s : State} {a b : Ex} {x y : Int} (ha : a.eval s = some x) (hb : b.eval s = some y) :
    (Ex.sub a b).eval s = some (x - y) := by simp [Ex.eval, ha, hb, bind, Option.bind, pure]

theorem nz_eval {s : State} {e : Ex} {v : Int} (h : e.eval s = some v) : (nz e).eval s = some (b2i (b2i (v == 0) == 0)) :=
  eval_not_some (eval_eq_some h (eval_lit s 0))

/-- the test at the head of the function: 1 exactly when the memory does not end in two NULs; with `size < 2` no cell is read -/
theorem guard_eval (s : State) (hsz : s.vars 0 = s.arr.length) :
    guard.eval s = some (if Terminated s.arr then 0 else 1) := by
  have hlt : (Ex.lt (.var 0) (.lit 2)).eval s = some (b2i (s.vars 0 < 2)) := eval_lt_some (eval_var s 0) (eval_lit s 2)
  unfold guard
  by_cases h2 : s.arr.length < 2
  · have hs : s.vars 0 < 2 := by omega
    have hin : (Ex.cond (.lt (.var 0) (.lit 2)) (.lit 1) (nz cell2)).eval s = some 1 := by
      rw [eval_cond_some hlt]; simp [b2i, hs, eval_lit]
    rw [eval_cond_some hin]
    have : ¬ Terminated s.arr := fun h => by have := h.1; omega
    simp [this, eval_lit]
  · have hs : ¬ s.vars 0 < 2 := by omega
    have l2 : (s.vars 0 - 2).toNat < s.arr.length := by omega
    have l1 : (s.vars 0 - 1).toNat < s.arr.length := by omega
    have i2 : (s.vars 0 - 2).toNat = s.arr.length - 2 := by omega
    have i1 : (s.vars 0 - 1).toNat = s.arr.length - 1 := by omega
    have e2 := eval_idx_at (eval_sub_some (eval_var s 0) (eval_lit s 2)) (by omega) l2
    have e1 := eval_idx_at (eval_sub_some (eval_var s 0) (eval_lit s 1)) (by omega) l1
    have c2 : cell2.eval s = some (b2i (b2i (s.arr[(s.vars 0 - 2).toNat] == 0) == 0)) := eval_not_some (eval_eq_some e2 (eval_lit s 0))
    have c1 : cell1.eval s = some (b2i (b2i (s.arr[(s.vars 0 - 1).toNat] == 0) == 0)) := eval_not_some (eval_eq_some e1 (eval_lit s 0))
    have g2 : s.arr[s.arr.length - 2]? = some (s.arr[(s.vars 0 - 2).toNat]) := by
      rw [List.getElem?_eq_getElem (by omega)]; congr 1; exact getElem_congr_idx i2.symm
    have g1 : s.arr[s.arr.length - 1]? = some (s.arr[(s.vars 0 - 1).toNat]) := by
      rw [List.getElem?_eq_getElem (by omega)]; congr 1; exact getElem_congr_idx i1.symm
    have hin : (Ex.cond (.lt (.var 0) (.lit 2)) (.lit 1) (nz cell2)).eval s =
        some (b2i (b2i (b2i (b2i (s.arr[(s.vars 0 - 2).toNat] == 0) == 0) == 0) == 0)) := by
      rw [eval_cond_some hlt]; simp only [b2i, hs, decide_false]; exact nz_eval c2
    rw [eval_cond_some hin]
    generalize s.arr[(s.vars 0 - 2).toNat] = v2 at *
    generalize s.arr[(s.vars 0 - 1).toNat] = v1 at *
    by_cases ha : v2 = 0
    · by_cases hb : v1 = 0
      · have ht : Terminated s.arr := ⟨by omega, by rw [g2, ha], by rw [g1, hb]⟩
        simp [b2i, ha, hb, ht, nz_eval c1]
      · have ht : ¬ Terminated s.arr := fun h => hb (by have := h.2.2; rw [g1] at this; exact Option.some.inj this)
        simp [b2i, ha, hb, ht, nz_eval c1]
    · have ht : ¬ Terminated s.arr := fun h => ha (by have := h.2.1; rw [g2] at this; exact Option.some.inj this)
      simp [b2i, ha, ht, eval_lit]

/-- **refused**: NULL, and nothing is touched -/
theorem scanBuffer_refuses (s : State) (hsz : s.vars 0 = s.arr.length) (h : ¬ Terminated s.arr) :
    scanBuffer.run s = (s, .returned 0) := by
  have hg := guard_eval s hsz
  rw [if_neg h] at hg
  have : (St.ite guard (.ret (.lit 0)) .skip).run s = (s, .returned 0) := by
    rw [run_ite_some hg]; rfl
  rw [scanBuffer_shape]
  show (match (St.ite guard (.ret (.lit 0)) .skip).run s with | (s', .normal) => rest.run s' | r => r) = _
  rw [this]

/-- the buffer yy_scan_buffer() sets up over the caller's memory -/
def scanned (s : State) : State :=
  { (setVar (setVar (setVar (setVar (setVar (setVar (setVar (setVar (setVar (setVar (setVar (setVar (setVar s
      1 1) 2 (s.vars 0 - 2)) 4 0) 3 0) 5 0) 6 0) 7 (s.vars 0 - 2)) 8 0) 9 1) 10 1) 11 0) 12 0) 13 cYY_BUFFER_NEW) with
    log := s.log ++ [(0, 1)] }

/-- its fields: `size - 2` characters (`yy_buf_size`, `yy_n_chars`), `yy_ch_buf = yy_buf_pos = base` (offset 0), not ours, no
    file, not interactive, at the beginning of a line, line 1 column 0, never refilled, new; `yy_switch_to_buffer(b)` called -/
theorem scanned_fields (s : State) :
    (scanned s).vars 2 = s.vars 0 - 2 ∧ (scanned s).vars 7 = s.vars 0 - 2 ∧ (scanned s).vars 3 = 0 ∧ (scanned s).vars 4 = 0 ∧
    (scanned s).vars 5 = 0 ∧ (scanned s).vars 6 = 0 ∧ (scanned s).vars 8 = 0 ∧ (scanned s).vars 9 = 1 ∧ (scanned s).vars 10 = 1 ∧
    (scanned s).vars 11 = 0 ∧ (scanned s).vars 12 = 0 ∧ (scanned s).vars 13 = cYY_BUFFER_NEW ∧ (scanned s).arr = s.arr ∧
    (scanned s).log = s.log ++ [(0, 1)] := by
  simp [scanned, setVar_vars]

/-- **accepted**: a buffer over the very memory handed in is made current and returned; the memory is not written -/
theorem scanBuffer_accepts (s : State) (hsz : s.vars 0 = s.arr.length) (h : Terminated s.arr) :
    scanBuffer.run s = (scanned s, .returned 1) := by
  have hg := guard_eval s hsz
  rw [if_pos h] at hg
  have h0 : (St.ite guard (.ret (.lit 0)) .skip).run s = (s, .normal) := by
    rw [run_ite_some hg]; rfl
  rw [scanBuffer_shape, run_seq_normal h0]
  simp [rest, St.run, Ex.eval, bind, Option.bind, pure, b2i, setVar_vars, scanned, cYY_BUFFER_NEW]

/-- **C11, yy_scan_buffer()**: NULL iff the memory lacks the two terminating NULs; no access outside the memory -/
theorem scanBuffer_spec (s : State) (hsz : s.vars 0 = s.arr.length) :
    (scanBuffer.run s).2 = .returned (if Terminated s.arr then 1 else 0) ∧ (scanBuffer.run s).1.arr = s.arr := by
  by_cases h : Terminated s.arr
  · rw [scanBuffer_accepts s hsz h]; simp [h, scanned]
  · rw [scanBuffer_refuses s hsz h]; simp [h]

/-! examples: "ab" followed by two NULs is accepted in place; one NUL short, or one byte in all, is refused -/
example : (scanBuffer.run { vars := fun y => if y = 0 then 4 else 7, arr := [97, 98, 0, 0] }).2 = .returned 1 := by decide
example : (scanBuffer.run { vars := fun y => if y = 0 then 3 else 7, arr := [97, 98, 0] }).2 = .returned 0 := by decide
example : (scanBuffer.run { vars := fun y => if y = 0 then 1 else 7, arr := [0] }).2 = .returned 0 := by decide

end FlexVerif.C11ScanBuf

import FlexVerif.Props.C09
/-
  Props/C08.lean — yyless / yyunput / yyinput / matching edit the input stream exactly as
  documented: in the abstract scanner nothing is lost, duplicated or reordered.
  `unread s` is the input not yet consumed of the current buffer.
-/
namespace FlexVerif
open AState

@[simp] theorem AState.setCurBuf_text (t : AState) (b : ABuf) : (t.setCurBuf b).text = t.text := by
  unfold AState.setCurBuf; split <;> rfl
@[simp] theorem AState.setCurBuf_out (t : AState) (b : ABuf) : (t.setCurBuf b).out = t.out := by
  unfold AState.setCurBuf; split <;> rfl
@[simp] theorem AState.addLineno_text (cfg : Cfg) (t : AState) (d : Int) : (t.addLineno cfg d).text = t.text := by
  unfold AState.addLineno; split; rfl; split; simp; rfl
@[simp] theorem AState.addLineno_out (cfg : Cfg) (t : AState) (d : Int) : (t.addLineno cfg d).out = t.out := by
  unfold AState.addLineno; split; rfl; split; simp; rfl

def unread (s : AState) : List UInt8 := s.curBuf.pending

theorem unread_setCurBuf (s : AState) (b : ABuf) (h : s.HasCur) : unread (s.setCurBuf b) = b.pending := by
  unfold unread; rw [curBuf_setCurBuf s b h]

theorem unread_addLineno (cfg : Cfg) (s : AState) (d : Int) (h : s.HasCur) :
    unread (s.addLineno cfg d) = unread s := by
  unfold AState.addLineno unread
  split
  · rfl
  · split
    · rw [curBuf_setCurBuf s _ h]
    · rfl

theorem hasCur_setCurBuf (s : AState) (b : ABuf) (h : s.HasCur) : (s.setCurBuf b).HasCur := by
  obtain ⟨i, hi, hlt⟩ := h
  exact ⟨i, by simp [AState.setCurBuf, hi], by simp [AState.setCurBuf, hi, hlt]⟩

/-- **Matching**: the text handed to the action (after the yymore prefix) followed by what is
    left unread is exactly the input the token was matched on: every byte is consumed once and
    in order, and the trailing context stays unread. -/
theorem match_conserves (M : Matcher) (cfg : Cfg) (s : AState) (inp : List UInt8) (len rule : Nat)
    (p : List UInt8) (h : s.HasCur)
    (hfit : (cfg.yylmax != 0 && decide (p.length + M.fitLen rule len inp ≥ cfg.yylmax)) = false) :
    let s' := beginMatch M cfg s inp len rule p
    s'.text = p ++ inp.take (M.headLen rule len inp) ∧ unread s' = inp.drop (M.headLen rule len inp) ∧
      s'.text.drop p.length ++ unread s' = inp := by
  have e : ∀ (t : AState) (l : String), unread (t.emit l) = unread t := fun _ _ => rfl
  have e2 : ∀ (t : AState) (x : List UInt8) (y : Nat) (z : Bool),
      unread { t with text := x, morePrefix := y, textValid := z } = unread t := fun _ _ _ _ => rfl
  have hc : ∀ (t : AState) (x : List UInt8) (y : Nat) (z : Bool), t.HasCur →
      AState.HasCur { t with text := x, morePrefix := y, textValid := z } :=
    fun _ _ _ _ ⟨i, hi, hlt⟩ => ⟨i, hi, hlt⟩
  have key : unread (beginMatch M cfg s inp len rule p) = inp.drop (M.headLen rule len inp) := by
    simp only [beginMatch, hfit, Bool.false_eq_true, if_false]
    rw [e, unread_addLineno cfg _ _ (hc _ _ _ _ (hasCur_setCurBuf s _ h)), e2, unread_setCurBuf s _ h]
  have ht : (beginMatch M cfg s inp len rule p).text = p ++ inp.take (M.headLen rule len inp) := by
    simp [beginMatch, AState.emit, hfit]
  refine ⟨ht, key, ?_⟩
  rw [key, ht]
  simp

/-- **yyless(n)**: the first characters stay in yytext, the rest goes back in front of the unread
    input, in order: `yytext ++ unread` is unchanged. -/
theorem less_conserves (M : Matcher) (cfg : Cfg) (s : AState) (n : Nat) (h : s.HasCur)
    (hh : s.halted = false) :
    let s' := (runAction M cfg s [.less n]).1
    s'.text ++ unread s' = s.text ++ unread s ∧ s'.text.length ≤ s.text.length := by
  simp only [runAction, hh, Bool.false_eq_true, if_false]
  refine ⟨?_, ?_⟩
  · show List.take _ s.text ++ unread (AState.emit _ _) = _
    have e : ∀ (t : AState) (l : String), unread (t.emit l) = unread t := fun _ _ => rfl
    rw [e]
    show _ ++ unread ({ (AState.addLineno cfg _ _) with text := _ }) = _
    have e2 : ∀ (t : AState) (x : List UInt8), unread { t with text := x } = unread t := fun _ _ => rfl
    rw [e2, unread_addLineno cfg _ _ (hasCur_setCurBuf s _ h), unread_setCurBuf s _ h]
    simp only [unread]
    rw [← List.append_assoc, List.take_append_drop]
  · show (List.take _ s.text).length ≤ _
    rw [List.length_take]; omega

/-- **yyunput(c)** makes `c` the next character read -/
theorem unput_conserves (M : Matcher) (cfg : Cfg) (s : AState) (c : Nat) (h : s.HasCur)
    (hh : s.halted = false) :
    unread (runAction M cfg s [.unput c]).1 = UInt8.ofNat c :: unread s := by
  simp only [runAction, hh, Bool.false_eq_true, if_false]
  have e2 : ∀ (t : AState) (x : Bool), unread { t with textValid := x } = unread t := fun _ _ => rfl
  rw [e2]
  split
  · rw [unread_addLineno cfg _ _ (hasCur_setCurBuf s _ h), unread_setCurBuf s _ h]; rfl
  · rw [unread_setCurBuf s _ h]; rfl

/-- **yyinput()** consumes and reports exactly the next unread character -/
theorem input_conserves (cfg : Cfg) (s : AState) (fuel : Nat) (h : s.HasCur) (c : UInt8)
    (rest : List UInt8) (hp : unread s = c :: rest) :
    unread (inputOp cfg s (fuel + 1)) = rest ∧
      (inputOp cfg s (fuel + 1)).out = s.out.push s!"in {c.toNat}" := by
  simp only [inputOp]
  rw [ensureBuf_of_hasCur s h]
  unfold unread at hp
  simp only [hp]
  have e : ∀ (t : AState) (l : String), unread (t.emit l) = unread t := fun _ _ => rfl
  refine ⟨?_, ?_⟩
  · rw [e]
    split
    · rw [unread_addLineno cfg _ _ (hasCur_setCurBuf s _ h), unread_setCurBuf s _ h]
    · rw [unread_setCurBuf s _ h]
  · split <;> simp [AState.emit]

end FlexVerif

import FlexVerif.Props.C05
/-
  Props/C05Run.lean — the start-condition frame lifted from one action to whole `yylex` calls
  and whole runs: if no script of the run calls yybegin / yy_push_state / yy_pop_state (and the
  top-level code does not either), the start condition never changes — through any number of
  tokens, REJECTs, end-of-file actions, yywrap switches and buffer operations.
-/
namespace FlexVerif
open AState

@[simp] theorem AState.emit_acts (s : AState) (l : String) : (s.emit l).acts = s.acts := rfl
@[simp] theorem AState.fatal_acts (s : AState) (c : String) : (s.fatal c).acts = s.acts := rfl
@[simp] theorem AState.setCurBuf_acts (s : AState) (b : ABuf) : (s.setCurBuf b).acts = s.acts := by
  unfold AState.setCurBuf; split <;> rfl
@[simp] theorem AState.ensureBuf_acts (s : AState) : s.ensureBuf.acts = s.acts := by
  unfold AState.ensureBuf; split <;> rfl
@[simp] theorem AState.addLineno_acts (cfg : Cfg) (s : AState) (d : Int) : (s.addLineno cfg d).acts = s.acts := by
  unfold AState.addLineno; split; rfl; split <;> simp
@[simp] theorem AState.noteNeed_acts (s : AState) (d p : Nat) : (s.noteNeed d p).acts = s.acts := rfl
@[simp] theorem AState.emit_eacts (s : AState) (l : String) : (s.emit l).eacts = s.eacts := rfl
@[simp] theorem AState.fatal_eacts (s : AState) (c : String) : (s.fatal c).eacts = s.eacts := rfl
@[simp] theorem AState.setCurBuf_eacts (s : AState) (b : ABuf) : (s.setCurBuf b).eacts = s.eacts := by
  unfold AState.setCurBuf; split <;> rfl
@[simp] theorem AState.ensureBuf_eacts (s : AState) : s.ensureBuf.eacts = s.eacts := by
  unfold AState.ensureBuf; split <;> rfl
@[simp] theorem AState.addLineno_eacts (cfg : Cfg) (s : AState) (d : Int) : (s.addLineno cfg d).eacts = s.eacts := by
  unfold AState.addLineno; split; rfl; split <;> simp
@[simp] theorem AState.noteNeed_eacts (s : AState) (d p : Nat) : (s.noteNeed d p).eacts = s.eacts := rfl
@[simp] theorem AState.emit_eofDefault (s : AState) (l : String) : (s.emit l).eofDefault = s.eofDefault := rfl
@[simp] theorem AState.fatal_eofDefault (s : AState) (c : String) : (s.fatal c).eofDefault = s.eofDefault := rfl
@[simp] theorem AState.setCurBuf_eofDefault (s : AState) (b : ABuf) : (s.setCurBuf b).eofDefault = s.eofDefault := by
  unfold AState.setCurBuf; split <;> rfl
@[simp] theorem AState.ensureBuf_eofDefault (s : AState) : s.ensureBuf.eofDefault = s.eofDefault := by
  unfold AState.ensureBuf; split <;> rfl
@[simp] theorem AState.addLineno_eofDefault (cfg : Cfg) (s : AState) (d : Int) : (s.addLineno cfg d).eofDefault = s.eofDefault := by
  unfold AState.addLineno; split; rfl; split <;> simp
@[simp] theorem AState.noteNeed_eofDefault (s : AState) (d p : Nat) : (s.noteNeed d p).eofDefault = s.eofDefault := rfl

/-- the scripts a state carries (they drive the actions; nothing may rewrite them) -/
def scr (s : AState) : Array (List Op) × Array (List Op) × List Op := (s.acts, s.eacts, s.eofDefault)

theorem scr_bufferOp (cfg : Cfg) (s : AState) (op : Op) : scr (bufferOp cfg s op) = scr s := by
  cases op <;> simp only [bufferOp, scr] <;> (try rfl) <;> (try simp) <;>
    (repeat (first | rfl | (split <;> try simp)))

theorem scr_doWrap (s : AState) : scr (doWrap s).1 = scr s := by
  unfold doWrap scr
  split <;> (try simp)
  · split <;> simp
  · split
    · split
      · split <;> simp
      · simp
    · simp

theorem scr_inputOp (cfg : Cfg) (s : AState) (fuel : Nat) : scr (inputOp cfg s fuel) = scr s := by
  induction fuel generalizing s with
  | zero => simp [inputOp, scr]
  | succ n ih =>
    simp only [inputOp]
    split
    · split <;> simp [scr]
    · have h0 : scr s.ensureBuf.eofRestart = scr s := by
        simp only [AState.eofRestart, scr]; split <;> simp
      have h1 := (scr_doWrap s.ensureBuf.eofRestart).trans h0
      split
      · rw [ih]; simpa [scr] using h1
      · simpa [scr] using h1

theorem scr_commonOp (cfg : Cfg) (s s' : AState) (op : Op) (h : commonOp cfg s op = some s') : scr s' = scr s := by
  cases op <;> simp only [commonOp] at h
  all_goals first
    | (cases h; simp [scr])
    | (split at h <;> cases h <;> simp [scr])
    | (cases h)

theorem scr_beginMatch (M : Matcher) (cfg : Cfg) (s : AState) (inp : List UInt8) (len rule : Nat)
    (p : List UInt8) : scr (beginMatch M cfg s inp len rule p) = scr s := by
  unfold beginMatch scr
  split <;> simp

theorem scr_nextScript (s : AState) : scr s.nextScript.1 = scr s := rfl

/-- no action rewrites the scripts -/
theorem scr_runAction (M : Matcher) (cfg : Cfg) (s : AState) (ops : List Op) :
    scr (runAction M cfg s ops).1 = scr s := by
  induction ops generalizing s with
  | nil => simp [runAction]
  | cons op ops ih =>
    simp only [runAction]
    split
    · rfl
    · cases op <;> (try dsimp only)
      all_goals try (rw [ih]; done)
      all_goals try (rw [ih]; simp [scr]; done)
      all_goals try rfl
      all_goals try (
        cases h : commonOp cfg s _ with
        | some s' =>
          simp only
          split
          · exact scr_commonOp cfg s s' _ h
          · rw [ih]; exact scr_commonOp cfg s s' _ h
        | none =>
          simp only
          split
          · exact scr_bufferOp cfg s _
          · rw [ih]; exact scr_bufferOp cfg s _)
      case includeEnd =>
        split
        · exact ih s
        · split
          · exact scr_bufferOp cfg s _
          · have hb := scr_bufferOp cfg s .popbuf
            have := ih (bufferOp cfg s .popbuf)
            split <;> simp_all
      case unput =>
        rw [ih]; split <;> simp [scr]
      case input =>
        generalize hs' : (if cfg.logReads = true then s.noteNeed 1 s.curBuf.pending.length else s) = s'
        have hst : scr s' = scr s := by rw [← hs']; split <;> rfl
        split
        · rw [scr_inputOp]; exact hst
        · rw [ih, scr_inputOp]; exact hst

/-- none of the scripts calls yybegin / yy_push_state / yy_pop_state -/
def SafeScr (t : Array (List Op) × Array (List Op) × List Op) : Prop :=
  (∀ i, ∀ op ∈ t.1.getD i [], op.setsStart = false) ∧
  (∀ i, ∀ op ∈ t.2.1.getD i [], op.setsStart = false) ∧
  (∀ op ∈ t.2.2, op.setsStart = false)

theorem runAlternatives_start (M : Matcher) (cfg : Cfg) (inp prefix_ : List UInt8) (bb : ABuf) (ln : Int) :
    ∀ (cands : List (Nat × Nat)) (s : AState), SafeScr (scr s) →
      (runAlternatives M cfg s inp prefix_ bb ln cands).1.start = s.start ∧
      scr (runAlternatives M cfg s inp prefix_ bb ln cands).1 = scr s
  | [], s, _ => by simp [runAlternatives, scr]
  | (len, rule) :: rest, s, hs => by
    simp only [runAlternatives]
    -- the state the alternative starts from
    generalize hs0 : (if cfg.logReads = true then
        (if cfg.reentrant = true then s.setCurBuf bb else { s.setCurBuf bb with lineno := ln }).emit
          s!"rd {cfg.srcTotal - (if cfg.reentrant = true then s.setCurBuf bb else { s.setCurBuf bb with lineno := ln }).unfetched.getD 0}"
      else (if cfg.reentrant = true then s.setCurBuf bb else { s.setCurBuf bb with lineno := ln })) = s0
    have h0 : s0.start = s.start ∧ scr s0 = scr s := by
      rw [← hs0]
      split <;> split <;> simp [scr]
    have h1s : (beginMatch M cfg s0 inp len rule prefix_).start = s.start := by rw [beginMatch_start]; exact h0.1
    have h1c : scr (beginMatch M cfg s0 inp len rule prefix_) = scr s := by rw [scr_beginMatch]; exact h0.2
    split
    · exact ⟨h1s, h1c⟩
    · -- the script of this action execution
      generalize hsel : (if (cfg.actionOf.getD (rule - 1) rule == cfg.numRules) = true
          then (beginMatch M cfg s0 inp len rule prefix_, ([] : List Op))
          else (beginMatch M cfg s0 inp len rule prefix_).nextScript) = sel
      obtain ⟨s2, script⟩ := sel
      have h2 : s2.start = s.start ∧ scr s2 = scr s ∧ ∀ op ∈ script, op.setsStart = false := by
        split at hsel
        · cases hsel; exact ⟨h1s, h1c, by simp⟩
        · cases hsel
          refine ⟨h1s, h1c, ?_⟩
          have := hs.1 (beginMatch M cfg s0 inp len rule prefix_).actCounter
          have hc : (beginMatch M cfg s0 inp len rule prefix_).acts = s.acts := by
            have := h1c; simp only [scr, Prod.mk.injEq] at this; exact this.1
          rw [hc]; exact this
      simp only
      have h3s := runAction_start M cfg { s2 with moreFlag := false } script h2.2.2
      have h3c := scr_runAction M cfg { s2 with moreFlag := false } script
      generalize hra : runAction M cfg { s2 with moreFlag := false } script = ra at h3s h3c
      obtain ⟨s3, e⟩ := ra
      simp only at h3s h3c ⊢
      have h3s' : s3.start = s.start := by rw [h3s]; exact h2.1
      have h3c' : scr s3 = scr s := by rw [h3c]; exact h2.2.1
      cases e with
      | rejected =>
        simp only
        have := runAlternatives_start M cfg inp prefix_ bb ln rest s3 (by rw [h3c']; exact hs)
        exact ⟨by rw [this.1, h3s'], by rw [this.2, h3c']⟩
      | cont => exact ⟨h3s', h3c'⟩
      | eofCont => exact ⟨h3s', h3c'⟩
      | ret v => exact ⟨h3s', h3c'⟩
      | halt => exact ⟨h3s', h3c'⟩

theorem markMayFatal_start (cfg : Cfg) (s : AState) (n : Nat) : (markMayFatal cfg s n).start = s.start := by
  unfold markMayFatal; split <;> rfl
theorem scr_markMayFatal (cfg : Cfg) (s : AState) (n : Nat) : scr (markMayFatal cfg s n) = scr s := by
  unfold markMayFatal; split <;> rfl
theorem noteReads_start (cfg : Cfg) (s : AState) (a b : Nat) : (noteReads cfg s a b).start = s.start := by
  unfold noteReads; split <;> rfl
theorem scr_noteReads (cfg : Cfg) (s : AState) (a b : Nat) : scr (noteReads cfg s a b) = scr s := by
  unfold noteReads; split <;> rfl

theorem eofScript_spec (s : AState) (hs : SafeScr (scr s)) :
    (eofScript s).1.start = s.start ∧ scr (eofScript s).1 = scr s ∧
      ∀ op ∈ (eofScript s).2, op.setsStart = false := by
  refine ⟨rfl, rfl, ?_⟩
  simp only [eofScript]
  split
  · exact hs.2.2
  · exact hs.2.1 _

/-- **A whole `yylex` call** — any number of tokens, REJECTs, yywrap switches, `<<EOF>>` actions —
    leaves the start condition where it was when no script calls yybegin / yy_push_state /
    yy_pop_state. -/
theorem lexCall_start (M : Matcher) (cfg : Cfg) :
    ∀ (fuel : Nat) (s : AState), SafeScr (scr s) →
      (lexCall M cfg fuel s).start = s.start ∧ scr (lexCall M cfg fuel s) = scr s
  | 0, s, _ => by simp [lexCall, scr]
  | fuel + 1, s, hs => by
    simp only [lexCall]
    split
    · exact ⟨rfl, rfl⟩
    · have he : s.ensureBuf.start = s.start ∧ scr s.ensureBuf = scr s := by simp [scr]
      split
      · -- end of input
        generalize hs1 : markMayFatal cfg s.ensureBuf.eofRestart
          (if s.ensureBuf.moreFlag = true then s.ensureBuf.text else []).length = s1
        have he' : s.ensureBuf.eofRestart.start = s.start ∧ scr s.ensureBuf.eofRestart = scr s := by
          simp only [AState.eofRestart]
          split
          · exact ⟨by rw [AState.setCurBuf_start]; exact he.1, by simp [scr]⟩
          · exact he
        have h1 : s1.start = s.start ∧ scr s1 = scr s := by
          rw [← hs1, markMayFatal_start, scr_markMayFatal]; exact he'
        have hw1 := doWrap_start s1
        have hw2 := scr_doWrap s1
        generalize hdw : doWrap s1 = dw at hw1 hw2
        obtain ⟨s2, more⟩ := dw
        simp only at hw1 hw2 ⊢
        have h2 : s2.start = s.start ∧ scr s2 = scr s := ⟨by rw [hw1]; exact h1.1, by rw [hw2]; exact h1.2⟩
        split
        · have := lexCall_start M cfg fuel s2 (by rw [h2.2]; exact hs)
          exact ⟨by rw [this.1]; exact h2.1, by rw [this.2]; exact h2.2⟩
        · split
          · -- the <<EOF>> action of this start condition
            obtain ⟨e1, e2, e3⟩ := eofScript_spec s2 (by rw [h2.2]; exact hs)
            generalize hes : eofScript s2 = es at e1 e2 e3
            obtain ⟨s2', script⟩ := es
            simp only at e1 e2 e3 ⊢
            have h3s := runAction_start M cfg s2' script e3
            have h3c := scr_runAction M cfg s2' script
            generalize hra : runAction M cfg s2' script = ra at h3s h3c
            obtain ⟨s3, e⟩ := ra
            simp only at h3s h3c ⊢
            have h3s' : s3.start = s.start := by rw [h3s, e1]; exact h2.1
            have h3c' : scr s3 = scr s := by rw [h3c, e2]; exact h2.2
            cases e with
            | ret v => exact ⟨by simpa using h3s', by simpa [scr] using h3c'⟩
            | halt => exact ⟨h3s', h3c'⟩
            | eofCont =>
              have := lexCall_start M cfg fuel s3 (by rw [h3c']; exact hs)
              exact ⟨by rw [this.1]; exact h3s', by rw [this.2]; exact h3c'⟩
            | cont => exact ⟨by simpa using h3s', by simpa [scr] using h3c'⟩
            | rejected => exact ⟨by simpa using h3s', by simpa [scr] using h3c'⟩
          · exact ⟨by simpa using h2.1, by simpa [scr] using h2.2⟩
      · -- a token
        rename_i inp hpend
        generalize hs1 : noteReads cfg (markMayFatal cfg s.ensureBuf _) _ _ = s1
        have h1 : s1.start = s.start ∧ scr s1 = scr s := by
          rw [← hs1, noteReads_start, scr_noteReads, markMayFatal_start, scr_markMayFatal]; exact he
        have hra := runAlternatives_start M cfg s.ensureBuf.curBuf.pending
          (if s.ensureBuf.moreFlag = true then s.ensureBuf.text else []) s.ensureBuf.curBuf
          (if cfg.reentrant = true then s.ensureBuf.curBuf.lineno else s1.lineno)
          (M.cands s.ensureBuf.start s.ensureBuf.curBuf.atBol s.ensureBuf.curBuf.pending) s1 (by rw [h1.2]; exact hs)
        generalize hr : runAlternatives M cfg s1 s.ensureBuf.curBuf.pending
          (if s.ensureBuf.moreFlag = true then s.ensureBuf.text else []) s.ensureBuf.curBuf
          (if cfg.reentrant = true then s.ensureBuf.curBuf.lineno else s1.lineno)
          (M.cands s.ensureBuf.start s.ensureBuf.curBuf.atBol s.ensureBuf.curBuf.pending) = ra at hra
        obtain ⟨s3, e⟩ := ra
        simp only at hra ⊢
        have h3s' : s3.start = s.start := by rw [hra.1]; exact h1.1
        have h3c' : scr s3 = scr s := by rw [hra.2]; exact h1.2
        cases e with
        | ret v => exact ⟨by simpa using h3s', by simpa [scr] using h3c'⟩
        | halt => exact ⟨h3s', h3c'⟩
        | eofCont =>
          have := lexCall_start M cfg fuel s3 (by rw [h3c']; exact hs)
          exact ⟨by rw [this.1]; exact h3s', by rw [this.2]; exact h3c'⟩
        | cont =>
          have := lexCall_start M cfg fuel s3 (by rw [h3c']; exact hs)
          exact ⟨by rw [this.1]; exact h3s', by rw [this.2]; exact h3c'⟩
        | rejected =>
          have := lexCall_start M cfg fuel s3 (by rw [h3c']; exact hs)
          exact ⟨by rw [this.1]; exact h3s', by rw [this.2]; exact h3c'⟩

/-- **A whole run**: the top-level script calls `yylex` any number of times, does buffer
    operations, yyinput/yyunput — and, as long as neither it nor any action script calls yybegin /
    yy_push_state / yy_pop_state (or destroys the scanner), the start condition stays put. -/
theorem runMain_start (M : Matcher) (cfg : Cfg) (fuel : Nat) :
    ∀ (ops : List Op) (s : AState), SafeScr (scr s) → (∀ op ∈ ops, op.setsStart = false) →
      (runMain M cfg fuel s ops).start = s.start
  | [], s, _, _ => by simp [runMain]
  | op :: ops, s, hs, hops => by
    have hop := hops op (by simp)
    have hrest : ∀ o ∈ ops, o.setsStart = false := fun o ho => hops o (by simp [ho])
    simp only [runMain]
    split
    · simp
    · cases op <;> (try (simp [Op.setsStart] at hop; done)) <;> (try dsimp only)
      case lex force =>
        split
        · exact runMain_start M cfg fuel ops s hs hrest
        · have := lexCall_start M cfg fuel s hs
          rw [runMain_start M cfg fuel ops _ (by
            show SafeScr (scr (lexCall M cfg fuel s)); rw [this.2]; exact hs) hrest]
          exact this.1
      case input =>
        rw [runMain_start M cfg fuel ops _ (by rw [scr_inputOp]; exact hs) hrest, inputOp_start]
      case unput c =>
        rw [runMain_start M cfg fuel ops _ (by split <;> simp [scr] <;> exact hs) hrest]
        split <;> simp
      all_goals (
        cases h : commonOp cfg s _ with
        | some s' =>
          simp only
          rw [runMain_start M cfg fuel ops s' (by rw [scr_commonOp cfg s s' _ h]; exact hs) hrest]
          exact commonOp_start_frame cfg s s' _ h hop
        | none =>
          simp only
          rw [runMain_start M cfg fuel ops _ (by
            show SafeScr (scr (bufferOp cfg s _)); rw [scr_bufferOp]; exact hs) hrest]
          exact bufferOp_start cfg s _)

/-- the hypothesis is decidable: check every stored script -/
def safeScrB (t : Array (List Op) × Array (List Op) × List Op) : Bool :=
  (t.1.toList.all fun ops => ops.all fun op => !op.setsStart) &&
  (t.2.1.toList.all fun ops => ops.all fun op => !op.setsStart) &&
  (t.2.2.all fun op => !op.setsStart)

theorem getD_mem_or_nil (a : Array (List Op)) (i : Nat) : a.getD i [] = [] ∨ a.getD i [] ∈ a.toList := by
  simp only [Array.getD_eq_getD_getElem?]
  cases h : a[i]? with
  | none => left; rfl
  | some x => right; simp only [Option.getD_some]; exact Array.mem_toList_iff.mpr (Array.mem_of_getElem? h)

theorem SafeScr_of_safeScrB (t : Array (List Op) × Array (List Op) × List Op) (h : safeScrB t = true) :
    SafeScr t := by
  simp only [safeScrB, Bool.and_eq_true, List.all_eq_true, Bool.not_eq_true'] at h
  obtain ⟨⟨h1, h2⟩, h3⟩ := h
  refine ⟨?_, ?_, h3⟩
  · intro i op hop
    rcases getD_mem_or_nil t.1 i with he | he
    · rw [he] at hop; cases hop
    · exact h1 _ he op hop
  · intro i op hop
    rcases getD_mem_or_nil t.2.1 i with he | he
    · rw [he] at hop; cases hop
    · exact h2 _ he op hop

/-- non-vacuity: a run whose scripts use yymore/yyless/REJECT/yyinput but never touch the start
    condition meets the hypothesis -/
example : SafeScr (scr ({ acts := #[[.more, .less 1], [.reject], [.input, .ret 3]], eofDefault := [.cont] } : AState)) :=
  SafeScr_of_safeScrB _ (by decide)

end FlexVerif

/-
  Props/C19SymbolsR1.lean — C19: `%option` word … check_options() … readin(), rows part 1 (see Props/C19Symbols.lean).
-/
import FlexVerif.Props.C19Symbols
namespace FlexVerif.C19Opts
open FlexVerif.Opt FlexVerif.Gen.Options

def reaches1 : List (Stmt × Fld × Bool × Cond) := [
  (O.o_reentrant_on, F.sym_M4_YY_REENTRANT, true, .ff),
  (O.o_reentrant_off, F.sym_M4_YY_REENTRANT, false, .ff),
  (O.o_main_on, F.sym_M4_YY_MAIN, true, .ff),
  (O.o_main_off, F.sym_M4_YY_MAIN, false, .ff),
  (O.o_main_on, F.sym_M4_MODE_YYWRAP, false, .ff),   -- main implies noyywrap
  (O.o_stack_on, F.sym_M4_YY_STACK_USED, true, .ff),
  (O.o_debug_on, F.sym_M4_MODE_DEBUG, true, .ff),
  (O.o_yylineno_on, F.sym_M4_MODE_YYLINENO, true, .ff),
  (O.o_stdinit_on, F.sym_M4_MODE_DO_STDINIT, true, .ff),
  (O.o_array_on, F.sym_M4_MODE_YYTEXT_IS_ARRAY, true, .truthy F.C_plus_plus),   -- overridden for C++
  (O.o_pointer_on, F.sym_M4_MODE_YYTEXT_IS_ARRAY, false, .truthy F.lex_compat),   -- lex compatibility implies %array
  (O.o_read_on, F.sym_M4_MODE_CPP_USE_READ, true, .truthy F.lex_compat),
  (O.o_full_on, F.sym_M4_MODE_REAL_FULLTBL, true, .ff),
  (O.o_fast_on, F.sym_M4_MODE_REAL_FULLSPD, true, .ff),
  (O.o_full_on, F.sym_M4_MODE_INTERACTIVE, false, .ff)]   -- full tables: a batch scanner

theorem options_reach_skeleton_1 : ∀ r ∈ reaches1, ∀ st, Ok st →
    ((pipeline r.1).run st).err.isSome = true ∨ r.2.2.2.eval st = true ∨
      (reachQ r).eval ((pipeline r.1).run st).st = true :=
  reach_sound reaches1 (by decide +kernel)

end FlexVerif.C19Opts

import FlexVerif.Gen.M4Symbols
/-
  Props/C19Facts.lean — option wiring facts re-extracted from /repo on every run.
-/
namespace FlexVerif

/-- **Every m4 symbol a skeleton tests can be defined** by the generator or by the skeleton
    itself: no option is wired to a symbol that is spelled differently on the other side. -/
theorem every_tested_symbol_is_definable :
    (Gen.undefinableTested.all fun p => p.2.isEmpty) = true := by decide

end FlexVerif

/-
  Props/C05Stack.lean — C05, the start-condition stack: theorems about the programs of
  `Gen/StartStack.lean`, which `tools/fv/gen_startstack.py` translates from a scanner flex has just
  generated.  For every sequence of yy_push_state / yy_pop_state / yy_top_state / yybegin calls and
  calls of yylex, of any length: the code behaves like a list used as a stack (LIFO), yy_top_state
  returns its top, popping the empty stack is the "underflow" fatal error, no array access is ever
  out of bounds, and once yylex has run the scanner's start state is `1 + 2 * condition` — also when
  the first push came *before* the first call of yylex, when `yy_start` is still 0.
-/
import FlexVerif.Imp.Lang
import FlexVerif.Gen.StartStack
namespace FlexVerif.C05Stack
open FlexVerif.Imp FlexVerif.Gen.StartStack

/-- the abstract start-condition machine -/
structure AS where
  start : Int := 0
  stack : List Int := []
  inited : Bool := false          -- yylex has been called

/-- the concrete state represents the abstract one -/
structure R (s : State) (a : AS) : Prop where
  ptr : s.vars vPtr = a.stack.length
  depth : s.vars vDepth = s.arr.length
  fits : a.stack.length ≤ s.arr.length
  elems : s.arr.take a.stack.length = a.stack
  start : s.vars vStart = 1 + 2 * a.start ∨ (a.inited = false ∧ s.vars vStart = 0 ∧ a.start = 0)

theorem tdiv_cooked (t : Int) : Int.tdiv (1 + 2 * t - 1) 2 = t := by
  have : 1 + 2 * t - 1 = 2 * t := by omega
  rw [this, Int.mul_tdiv_cancel_left _ (by decide : (2 : Int) ≠ 0)]

/-- `yystart()` of a represented state is the abstract start condition -/
theorem start_cooked {s : State} {a : AS} (h : R s a) : startEx.eval s = some a.start := by
  simp only [startEx, Ex.eval, bind, Option.bind, pure]
  rcases h.start with h1 | ⟨_, h0, ha⟩
  · have : s.vars 0 = 1 + 2 * a.start := h1
    rw [this, tdiv_cooked]
  · have : s.vars 0 = 0 := h0
    rw [this, ha]; rfl

@[simp] theorem setVar_arr (s : State) (x : Nat) (v : Int) : (setVar s x v).arr = s.arr := rfl
@[simp] theorem setVar_same (s : State) (x : Nat) (v : Int) : (setVar s x v).vars x = v := by simp [setVar]
theorem setVar_ne (s : State) {x y : Nat} (v : Int) (h : y ≠ x) : (setVar s x v).vars y = s.vars y := by
  simp [setVar, h]

/-- the argument of a call is passed in `vArg`; it is no part of the representation -/
theorem R_setArg {s : State} {a : AS} (h : R s a) (x : Int) : R (setVar s vArg x) a := by
  refine ⟨?_, ?_, h.fits, h.elems, ?_⟩
  · rw [setVar_ne _ _ (by decide)]; exact h.ptr
  · rw [setVar_ne _ _ (by decide)]; exact h.depth
  · rw [setVar_ne _ _ (by decide)]; exact h.start

/-- `yybegin(x)` -/
theorem begin_refines {s : State} {a : AS} (h : R s a) (x : Int) :
    (begin_.run (setVar s vArg x)).2 = .normal ∧
      R (begin_.run (setVar s vArg x)).1 { a with start := x } := by
  have h' := R_setArg h x
  simp only [begin_, St.run, Ex.eval, bind, Option.bind, pure]
  refine ⟨by first | rfl | trivial, ?_, ?_, h'.fits, h'.elems, ?_⟩
  · show (setVar (setVar s vArg x) 0 _).vars vPtr = _
    rw [setVar_ne _ _ (by decide)]; exact h'.ptr
  · show (setVar (setVar s vArg x) 0 _).vars vDepth = _
    rw [setVar_ne _ _ (by decide)]; exact h'.depth
  · left
    show (setVar (setVar s vArg x) 0 _).vars vStart = _
    have : (setVar s vArg x).vars 5 = x := setVar_same _ _ _
    rw [show vStart = 0 from rfl, setVar_same, this]

/-- the first thing `yylex()` does -/
theorem lexInit_refines {s : State} {a : AS} (h : R s a) :
    (lexInit.run s).2 = .normal ∧ R (lexInit.run s).1 { a with inited := true } := by
  simp only [lexInit, St.run, Ex.eval, bind, Option.bind, pure]
  rcases h.start with h1 | ⟨_, h0, ha⟩
  · by_cases hz : s.vars 0 = 0
    · -- 1 + 2 * start = 0 is impossible
      have : s.vars 0 = 1 + 2 * a.start := h1
      omega
    · have hb : (b2i (s.vars 0 == 0) != 0) = false := by simp [b2i, hz]
      simp only [hb]
      exact ⟨by first | rfl | trivial, h.ptr, h.depth, h.fits, h.elems, Or.inl h1⟩
  · have hz : s.vars 0 = 0 := h0
    have hb : (b2i (s.vars 0 == 0) != 0) = true := by simp [b2i, hz]
    simp only [hb, if_true]
    refine ⟨by first | rfl | trivial, ?_, ?_, h.fits, h.elems, ?_⟩
    · show (setVar s 0 1).vars vPtr = _
      rw [setVar_ne _ _ (by decide)]; exact h.ptr
    · show (setVar s 0 1).vars vDepth = _
      rw [setVar_ne _ _ (by decide)]; exact h.depth
    · left
      show (setVar s 0 1).vars vStart = _
      rw [show vStart = 0 from rfl, setVar_same, ha]; rfl

theorem arr_get_of_take {l st : List Int} {i : Nat} (h : l.take st.length = st) (hi : i < st.length) :
    l[i]? = st[i]? := by
  rw [← h, List.getElem?_take]
  simp [hi]

/-- `yy_top_state()`: the top of the stack, or (the code's choice) the current start condition when
    the stack is empty -/
theorem top_refines {s : State} {a : AS} (h : R s a) :
    (top.run s).2 = .returned (a.stack.getLast?.getD a.start) := by
  have hp : s.vars 1 = a.stack.length := h.ptr
  have hst := start_cooked h
  simp only [startEx, Ex.eval, bind, Option.bind, pure] at hst
  simp only [top, St.run, Ex.eval, bind, Option.bind, pure, hp]
  by_cases he : a.stack.length = 0
  · have : a.stack = [] := List.eq_nil_of_length_eq_zero he
    simp [b2i, this, hst]
  · have hpos : 0 < a.stack.length := Nat.pos_of_ne_zero he
    have hlt : ((0 : Int) < (a.stack.length : Int)) := by omega
    have hidx : ((a.stack.length : Int) - 1).toNat = a.stack.length - 1 := by omega
    have hnn : (0 : Int) ≤ (a.stack.length : Int) - 1 := by omega
    have hg := arr_get_of_take (i := a.stack.length - 1) h.elems (by omega)
    have hlast : a.stack[a.stack.length - 1]? = a.stack.getLast? := by
      rw [List.getLast?_eq_getElem?]
    simp only [hlt, b2i, decide_true, if_true, hnn, hidx, hg, hlast]
    cases hl : a.stack.getLast? with
    | none =>
      have := List.getLast?_eq_none_iff.mp hl
      simp [this] at hpos
    | some v => simp

def underflowMsg : Nat := msgs.findIdx (· == "start-condition stack underflow")

attribute [local simp] setVar_same setVar_arr

/-- `yy_pop_state()` on the empty stack: the fatal error -/
theorem pop_empty {s : State} {a : AS} (h : R s a) (he : a.stack = []) :
    (pop.run s).2 = .fatal underflowMsg := by
  have hp : s.vars 1 + -1 = -1 := by
    have := h.ptr; rw [he] at this
    have h0 : s.vars 1 = 0 := by simpa [vPtr] using this
    omega
  simp [pop, St.run, Ex.eval, bind, Option.bind, pure, hp, b2i]
  rfl

/-- `yy_pop_state()`: the start condition on top of the stack is current again -/
theorem pop_refines {s : State} {a : AS} (h : R s a) (rest : List Int) (t : Int) (hs : a.stack = rest ++ [t]) :
    (pop.run s).2 = .normal ∧ R (pop.run s).1 { a with start := t, stack := rest } := by
  have hlen : a.stack.length = rest.length + 1 := by simp [hs]
  have hp : s.vars 1 + -1 = (rest.length : Int) := by
    have := h.ptr; rw [hlen] at this
    have h0 : s.vars 1 = (rest.length : Int) + 1 := by simpa [vPtr] using this
    omega
  have hfits : rest.length + 1 ≤ s.arr.length := by have := h.fits; omega
  have htake : s.arr.take (rest.length + 1) = rest ++ [t] := by have := h.elems; rw [hlen, hs] at this; exact this
  have hget : s.arr[rest.length]? = some t := by
    have := arr_get_of_take (l := s.arr) (st := rest ++ [t]) (i := rest.length) (by simpa using htake) (by simp)
    rw [this]; simp
  have htake' : s.arr.take rest.length = rest := by
    have := congrArg (List.take rest.length) htake
    rw [List.take_take, Nat.min_eq_left (Nat.le_succ _)] at this
    simpa using this
  have hrun : pop.run s = (setVar (setVar s 1 rest.length) 0 (1 + 2 * t), .normal) := by
    simp [pop, St.run, Ex.eval, bind, Option.bind, pure, hp, b2i, hget]
  rw [hrun]
  refine ⟨rfl, ?_, ?_, ?_, htake', ?_⟩
  · show (setVar (setVar s 1 _) 0 _).vars vPtr = _
    rw [setVar_ne _ _ (by decide), show vPtr = 1 from rfl, setVar_same]
  · show (setVar (setVar s 1 _) 0 _).vars vDepth = _
    rw [setVar_ne _ _ (by decide), setVar_ne _ _ (by decide)]; exact h.depth
  · show rest.length ≤ s.arr.length
    omega
  · left
    show (setVar (setVar s 1 _) 0 _).vars vStart = _
    rw [show vStart = 0 from rfl, setVar_same]

theorem setVar_vars (s : State) (x y : Nat) (v : Int) : (setVar s x v).vars y = if y = x then v else s.vars y := rfl

theorem take_set_succ {l st : List Int} (v : Int) (h : l.take st.length = st) (hlt : st.length < l.length) :
    (l.set st.length v).take (st.length + 1) = st ++ [v] := by
  apply List.ext_getElem?
  intro i
  by_cases hi : i < st.length
  · have h1 : i < st.length + 1 := by omega
    have hne : st.length ≠ i := by omega
    rw [List.getElem?_take, if_pos h1, List.getElem?_set_ne hne, List.getElem?_append_left hi]
    exact arr_get_of_take h hi
  · by_cases he : i = st.length
    · subst he
      rw [List.getElem?_take, if_pos (by omega), List.getElem?_set_self hlt]
      simp
    · have h2 : ¬ i < st.length + 1 := by omega
      rw [List.getElem?_take, if_neg h2]
      rw [List.getElem?_eq_none (by simp; omega)]

/-- `yy_push_state(x)` -/
theorem push_refines {s : State} {a : AS} (h : R s a) (x : Int) :
    (push.run (setVar s vArg x)).2 = .normal ∧
      R (push.run (setVar s vArg x)).1 { a with start := x, stack := a.stack ++ [a.start] } := by
  have hst := start_cooked h
  simp only [startEx, Ex.eval, bind, Option.bind, pure, Option.some.injEq] at hst
  have hp : s.vars 1 = (a.stack.length : Int) := h.ptr
  have hd : s.vars 2 = (s.arr.length : Int) := h.depth
  by_cases hfull : a.stack.length < s.arr.length
  · -- room left
    have hle : ((s.arr.length : Int) ≤ (a.stack.length : Int)) = False := by simp; omega
    have hrun : push.run (setVar s vArg x) =
        (setVar (setVar { (setVar s vArg x) with arr := s.arr.set a.stack.length a.start } 1 (a.stack.length + 1)) 0 (1 + 2 * x),
          .normal) := by
      simp [push, St.run, Ex.eval, bind, Option.bind, pure, setVar_vars, vArg, hp, hd, hle, b2i, hst, hfull]
    rw [hrun]
    refine ⟨rfl, ?_, ?_, ?_, ?_, ?_⟩
    · simp [setVar_vars, vPtr]
    · simp [setVar_vars, vDepth, vArg, hd]
    · simp; omega
    · simpa using take_set_succ a.start h.elems hfull
    · left; simp [vStart]
  · -- the array is full (or not there yet): it grows by YY_START_STACK_INCR elements
    have heq : a.stack.length = s.arr.length := by have := h.fits; omega
    have hle : ((s.arr.length : Int) ≤ (a.stack.length : Int)) = True := by simp; omega
    have hdiv : Int.tdiv (((s.arr.length : Int) + 25) * 4) 4 = (s.arr.length : Int) + 25 :=
      Int.mul_tdiv_cancel _ (by decide)
    have hk : ((s.arr.length : Int) + 25).toNat - s.arr.length = 25 := by omega
    have hrun : push.run (setVar s vArg x) =
        (setVar (setVar { (setVar (setVar (setVar (setVar s vArg x) 2 (s.arr.length + 25)) 4 ((s.arr.length + 25) * 4)) 3 1) with
            arr := (s.arr ++ List.replicate 25 garbage).set a.stack.length a.start } 1 (a.stack.length + 1)) 0 (1 + 2 * x), .normal) := by
      simp [push, St.run, Ex.eval, bind, Option.bind, pure, setVar_vars, vArg, hp, hd, b2i, hst, hdiv, heq, hk]
      rfl
    rw [hrun]
    have hlt : a.stack.length < (s.arr ++ List.replicate 25 garbage).length := by simp; omega
    have htk : (s.arr ++ List.replicate 25 garbage).take a.stack.length = a.stack := by
      rw [heq, List.take_left']
      · have := h.elems; rw [heq] at this; simpa using this
      · rfl
    refine ⟨rfl, ?_, ?_, ?_, ?_, ?_⟩
    · simp [setVar_vars, vPtr]
    · simp [setVar_vars, vDepth]
    · simp; omega
    · simpa using take_set_succ a.start htk hlt
    · left; simp [vStart, vArg]

theorem top_state (s : State) : (top.run s).1 = s := by
  simp only [top, St.run]
  split <;> rfl

/-! ### every sequence of calls -/

inductive Op
  | push (x : Int)
  | pop
  | top
  | begin_ (x : Int)
  | lex                 -- a call of yylex (as far as the start condition is concerned: its first lines)
deriving Repr

/-- the specification: a list used as a stack -/
def AS.step (a : AS) : Op → AS × Outcome
  | .push x => ({ a with start := x, stack := a.stack ++ [a.start] }, .normal)
  | .pop =>
    match a.stack.getLast? with
    | none => (a, .fatal underflowMsg)
    | some t => ({ a with start := t, stack := a.stack.dropLast }, .normal)
  | .top => (a, .returned (a.stack.getLast?.getD a.start))
  | .begin_ x => ({ a with start := x }, .normal)
  | .lex => ({ a with inited := true }, .normal)

/-- the generated code -/
def cstep (s : State) : Op → State × Outcome
  | .push x => push.run (setVar s vArg x)
  | .pop => pop.run s
  | .top => top.run s
  | .begin_ x => begin_.run (setVar s vArg x)
  | .lex => lexInit.run s

def stops : Outcome → Bool
  | .fatal _ => true
  | .oob => true
  | _ => false

/-- what a caller observes: the outcome of every call, up to the first one that does not return -/
def crun : List Op → State → List Outcome
  | [], _ => []
  | op :: rest, s =>
    let r := cstep s op
    if stops r.2 then [r.2] else r.2 :: crun rest r.1

def arun : List Op → AS → List Outcome
  | [], _ => []
  | op :: rest, a =>
    let r := a.step op
    if stops r.2 then [r.2] else r.2 :: arun rest r.1

theorem step_refines {s : State} {a : AS} (h : R s a) (op : Op) :
    (cstep s op).2 = (a.step op).2 ∧ (stops (a.step op).2 = false → R (cstep s op).1 (a.step op).1) := by
  cases op with
  | push x => exact ⟨(push_refines h x).1, fun _ => (push_refines h x).2⟩
  | begin_ x => exact ⟨(begin_refines h x).1, fun _ => (begin_refines h x).2⟩
  | lex => exact ⟨(lexInit_refines h).1, fun _ => (lexInit_refines h).2⟩
  | top =>
    refine ⟨top_refines h, fun _ => ?_⟩
    show R (top.run s).1 a
    rw [top_state]; exact h
  | pop =>
    rcases List.eq_nil_or_concat a.stack with he | ⟨rest, t, hs⟩
    · have : a.stack.getLast? = none := by rw [he]; rfl
      refine ⟨?_, ?_⟩
      · show (pop.run s).2 = _
        simp only [AS.step, this]
        exact pop_empty h he
      · intro hn; simp [AS.step, this, stops] at hn
    · have hl : a.stack.getLast? = some t := by rw [hs]; simp
      have hd : a.stack.dropLast = rest := by rw [hs]; simp
      have := pop_refines h rest t (by rw [hs]; simp)
      refine ⟨?_, fun _ => ?_⟩
      · show (pop.run s).2 = _
        simp only [AS.step, hl]; exact this.1
      · show R (pop.run s).1 _
        simp only [AS.step, hl, hd]; exact this.2

/-- **C05, stack**: the start-condition stack of the generated scanner is a stack — for every sequence
    of calls the outcomes (normal return, the value of yy_top_state, the underflow error) are those of
    the list machine -/
theorem stack_refines : ∀ (ops : List Op) (s : State) (a : AS), R s a → crun ops s = arun ops a := by
  intro ops
  induction ops with
  | nil => intro s a _; rfl
  | cons op rest ih =>
    intro s a h
    obtain ⟨ho, hr⟩ := step_refines h op
    simp only [crun, arun, ho]
    split
    · rfl
    · rename_i hs
      rw [ih _ _ (hr (by simpa using hs))]

def s0 : State := { vars := fun _ => 0, arr := [], log := [] }
def a0 : AS := {}

theorem R_init : R s0 a0 := ⟨rfl, rfl, Nat.le_refl _, rfl, Or.inr ⟨rfl, rfl, rfl⟩⟩

/-- no sequence of calls ever indexes the stack array out of bounds -/
theorem never_out_of_bounds (ops : List Op) : Outcome.oob ∉ crun ops s0 := by
  rw [stack_refines ops s0 a0 R_init]
  suffices h : ∀ (ops : List Op) (a : AS), Outcome.oob ∉ arun ops a from h ops a0
  intro ops
  induction ops with
  | nil => intro a; simp [arun]
  | cons op rest ih =>
    intro a
    have hne : (a.step op).2 ≠ .oob := by
      cases op <;> simp [AS.step]
      split <;> simp
    simp only [arun]
    split
    · simp; exact fun h => hne h.symm
    · simp only [List.mem_cons, not_or]
      exact ⟨fun h => hne h.symm, ih _⟩

/-- state reached by a sequence of calls none of which failed -/
def cstate : List Op → State → State
  | [], s => s
  | op :: rest, s => cstate rest (cstep s op).1
def astate : List Op → AS → AS
  | [], a => a
  | op :: rest, a => astate rest (a.step op).1

/-- once yylex has run, `yy_start` is `1 + 2 * (current start condition)` — the number the match loop
    starts from — whatever was pushed and popped, before or after -/
theorem start_state_encoding (ops : List Op) (hok : ∀ o ∈ arun ops a0, stops o = false)
    (hinit : (astate ops a0).inited = true) :
    (cstate ops s0).vars vStart = 1 + 2 * (astate ops a0).start := by
  suffices h : ∀ (ops : List Op) (s : State) (a : AS), R s a → (∀ o ∈ arun ops a, stops o = false) →
      R (cstate ops s) (astate ops a) by
    have hr := h ops s0 a0 R_init hok
    rcases hr.start with h1 | ⟨h2, _, _⟩
    · exact h1
    · rw [hinit] at h2; exact absurd h2 (by simp)
  intro ops
  induction ops with
  | nil => intro s a h _; exact h
  | cons op rest ih =>
    intro s a h hall
    obtain ⟨_, hr⟩ := step_refines h op
    have hs : stops (a.step op).2 = false := by
      by_cases hst : stops (a.step op).2 = true
      · have := hall (a.step op).2 (by simp [arun, hst])
        rw [hst] at this; exact absurd this (by simp)
      · simpa using hst
    refine ih _ _ (hr hs) ?_
    intro o ho
    exact hall o (by simp [arun, hs, ho])

/-- LIFO, at the level of the specification: what was pushed last comes back first -/
theorem push_pop_restores (a : AS) (x : Int) :
    (((a.step (.push x)).1).step .pop).1.start = a.start ∧ (((a.step (.push x)).1).step .pop).1.stack = a.stack := by
  simp [AS.step]

/-- the premises can be met: a push *before* the first call of yylex, a call of yylex, the pop -/
example : crun [.push 3, .lex, .top, .pop, .top, .pop] s0 =
    [.normal, .normal, .returned 0, .normal, .returned 0, .fatal underflowMsg] := by decide

example : (cstate [.push 3, .lex, .pop] s0).vars vStart = 1 := by decide

end FlexVerif.C05Stack

import FlexVerif.Runtime.Match
/-
  Props/C06.lean — trailing context: what the action sees.

  For a rule `r/s` the scanner matches `rs` (that is what competes with the other rules) and hands
  the action the part matched by `r`.  When both parts have variable length the split is not
  determined by the lengths; the abstract scanner takes the *longest* head (`longestSplit`), and
  this file shows that `longestSplit` is exactly that: a split of the matched text into a string of
  `r` followed by a string of `s`, with no longer head possible.
-/
namespace FlexVerif

/-- the executable matcher decides the denotation -/
theorem Re.matchesB_iff (r : Re) (w : List UInt8) : r.matchesB w = true ↔ r.Matches w := by
  unfold Re.matchesB
  simp only [Bool.not_eq_true', List.isEmpty_eq_false_iff]
  constructor
  · intro h
    obtain ⟨t, ht⟩ := List.exists_mem_of_ne_nil _ h
    rw [SState.mem_accTags_run] at ht
    obtain ⟨p, hp, hm⟩ := ht
    simp only [List.mem_singleton, Prod.mk.injEq] at hp
    rw [← hp.2]; exact hm
  · intro h
    have : (0 : Nat) ∈ (SState.run [((0 : Nat), r)] w).accTags := by
      rw [SState.mem_accTags_run]; exact ⟨r, by simp, h⟩
    exact List.ne_nil_of_mem this

/-- `k` splits the first `len` bytes of `inp` into a head and a trail -/
def IsSplit (head trail : Re) (inp : List UInt8) (len k : Nat) : Prop :=
  head.Matches ((inp.take len).take k) ∧ trail.Matches ((inp.take len).drop k)

theorem longestSplit_go_spec (head trail : Re) (w : List UInt8) :
    ∀ n, (longestSplit.go head trail w n ≤ n) ∧
      (0 < longestSplit.go head trail w n →
        head.Matches (w.take (longestSplit.go head trail w n)) ∧
        trail.Matches (w.drop (longestSplit.go head trail w n))) ∧
      (∀ k, longestSplit.go head trail w n < k → k ≤ n →
        ¬ (head.Matches (w.take k) ∧ trail.Matches (w.drop k)))
  | 0 => by
    simp only [longestSplit.go]
    exact ⟨Nat.le_refl _, fun h => absurd h (Nat.lt_irrefl _), fun k h1 h2 => by omega⟩
  | n + 1 => by
    simp only [longestSplit.go]
    split
    · rename_i hm
      simp only [Bool.and_eq_true, Re.matchesB_iff] at hm
      exact ⟨Nat.le_refl _, fun _ => hm, fun k h1 h2 => by omega⟩
    · rename_i hm
      obtain ⟨i1, i2, i3⟩ := longestSplit_go_spec head trail w n
      refine ⟨by omega, i2, ?_⟩
      intro k h1 h2
      by_cases hk : k = n + 1
      · subst hk
        intro hh
        apply hm
        simp only [Bool.and_eq_true, Re.matchesB_iff]
        exact hh
      · exact i3 k h1 (by omega)

/-- **What a trailing-context action sees**: a positive result of `longestSplit` is a split of the
    matched text into head and trailing context, and no longer head gives such a split. -/
theorem longestSplit_spec (head trail : Re) (inp : List UInt8) (len : Nat) :
    (0 < longestSplit head trail inp len → IsSplit head trail inp len (longestSplit head trail inp len)) ∧
    (∀ k, longestSplit head trail inp len < k → k ≤ len → ¬ IsSplit head trail inp len k) ∧
    longestSplit head trail inp len ≤ len := by
  obtain ⟨h1, h2, h3⟩ := longestSplit_go_spec head trail (inp.take len) len
  exact ⟨h2, h3, h1⟩

end FlexVerif

/-
  Props/C12.lean — instances with disjoint state do not influence each other.

  A reentrant scanner keeps all of its mutable state in its own `yyscan_t` object; the tables are
  read-only and shared.  Abstractly: `n` machines with one step function each over their own
  state, and a schedule saying whose turn it is.  Whatever the schedule, every machine ends in
  the state (and has produced the outputs) of running its own share of the schedule alone.
-/
namespace FlexVerif

structure Machine (σ ω : Type) where
  step : σ → σ × ω

/-- run machine `i`'s turns of a schedule, alone -/
def soloRun {σ ω : Type} (M : Machine σ ω) (i : Nat) (s : σ) : List Nat → σ × List ω
  | [] => (s, [])
  | j :: sched =>
    if j = i then
      let (s', o) := M.step s
      let (s'', os) := soloRun M i s' sched
      (s'', o :: os)
    else soloRun M i s sched

/-- run all machines under a schedule: `states i` is machine `i`'s state, outputs are tagged -/
def interleave {σ ω : Type} (M : Machine σ ω) (states : Nat → σ) : List Nat → (Nat → σ) × List (Nat × ω)
  | [] => (states, [])
  | j :: sched =>
    let (s', o) := M.step (states j)
    let states' := fun k => if k = j then s' else states k
    let (fin, outs) := interleave M states' sched
    (fin, (j, o) :: outs)

/-- **Interleaving independence**: for every schedule, machine `i` finishes in the state and
    with exactly the outputs of its solo run (other instances' steps are invisible to it). -/
theorem interleave_independent {σ ω : Type} (M : Machine σ ω) (states : Nat → σ) (sched : List Nat) (i : Nat) :
    (interleave M states sched).1 i = (soloRun M i (states i) sched).1 ∧
    ((interleave M states sched).2.filter (fun p => p.1 = i)).map (·.2) = (soloRun M i (states i) sched).2 := by
  induction sched generalizing states with
  | nil => simp [interleave, soloRun]
  | cons j sched ih =>
    simp only [interleave, soloRun]
    by_cases h : j = i
    · subst h
      have := ih (fun k => if k = j then (M.step (states j)).1 else states k)
      simp only [if_true] at this ⊢
      constructor
      · exact this.1
      · simp [this.2]
    · have := ih (fun k => if k = j then (M.step (states j)).1 else states k)
      have hi : (if i = j then (M.step (states j)).1 else states i) = states i := by
        simp [Ne.symm h]
      simp only [hi] at this
      simp only [h, if_false]
      constructor
      · exact this.1
      · simp [h, this.2]

/-- non-vacuity: two counters -/
example : ((interleave (⟨fun n : Nat => (n + 1, n)⟩ : Machine Nat Nat) (fun _ => 0) [0, 1, 0, 0]).1 0) = 3 := by
  decide

end FlexVerif

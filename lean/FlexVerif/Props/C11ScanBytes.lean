/-
  Props/C11ScanBytes.lean — C11, yy_scan_bytes(): "yy_scan_string/yy_scan_bytes scan a private copy of exactly the given
  bytes".  Translated from a generated scanner (`Gen/ScanBuf.lean`, namespace `ScanBytes`): the array is the fresh memory
  `buf = yyalloc(len + 2)`, the caller's bytes are a read-only table, `yy_scan_buffer(buf, n)` is a logged call whose result
  is whatever `scan_result` holds.  For every length and content: the fresh memory ends up holding exactly the `len` bytes
  handed in followed by the two end-of-buffer NULs — so `yy_scan_buffer` (C11ScanBuf) accepts it —, the caller's bytes are
  only read, inside `[0, len)`, and the new buffer is marked as owned by the scanner.  (yy_scan_string is
  `yy_scan_bytes(s, strlen(s))`.)
-/
import FlexVerif.Imp.Lang
import FlexVerif.Gen.ScanBuf
import FlexVerif.Props.C01Step
import FlexVerif.Props.C11ScanBuf
namespace FlexVerif.C11ScanBytes
open FlexVerif.Imp FlexVerif.Gen.ScanBytes
open FlexVerif.C01Step (Holds tab_eval holds_setVar eval_var eval_lit eval_add_some eval_lt_some eval_eq_some run_assign_some run_seq_normal run_ite_some)

theorem setVar_vars (s : State) (x y : Nat) (v : Int) : (setVar s x v).vars y = if y = x then v else s.vars y := rfl
@[simp] theorem setVar_arr (s : State) (x : Nat) (v : Int) : (setVar s x v).arr = s.arr := rfl
@[simp] theorem setVar_log (s : State) (x : Nat) (v : Int) : (setVar s x v).log = s.log := rfl

def cpCond : Ex := .lt (.var 2) (.var 0)
def cpBody : St := .seq (.store (.var 2) (.tab 0 (.var 2))) (.assign 2 (.add (.var 2) (.lit 1)))
def tailSt : St :=
  .seq (.seq (.store (.add (.var 0) (.lit 1)) (.lit 0)) (.store (.var 0) (.idx (.add (.var 0) (.lit 1)))))
  (.seq (.seq (.call 0 (.var 1)) (.assign 4 (.var 6))) (.seq (.ite (.eq (.var 4) (.lit 0)) (.fatal 1) .skip)
  (.seq (.assign 5 (.lit 1)) (.ret (.var 4)))))

theorem scanBytes_shape : scanBytes =
    .seq (.assign 1 (.add (.var 0) (.lit 2))) (.seq (.seq (.growTo (.var 1)) (.assign 3 (.lit 1)))
    (.seq (.ite (.eq (.var 3) (.lit 0)) (.fatal 0) .skip) (.seq (.seq (.assign 2 (.lit 0)) (.while_ cpCond cpBody)) tailSt))) := rfl

theorem holds_arr {s : State} {t : Nat} {a : Array Int} (h : Holds s t a) (arr : List Int) : Holds { s with arr := arr } t a :=
  ⟨h.len, h.cell⟩

/-- the copy loop: after it the first `i + k` cells are the first `i + k` bytes handed in; nothing else is touched -/
theorem copy_loop (bytes : Array Int) : ∀ (k : Nat) (s : State) (i fuel : Nat), Holds s 0 bytes → s.vars 2 = i →
    s.vars 0 = ((i + k : Nat) : Int) → i + k ≤ bytes.size → i + k ≤ s.arr.length → s.arr.take i = bytes.toList.take i → k + 1 ≤ fuel →
    ∃ s', loop (fun x => cpCond.eval x) (fun x => cpBody.run x) fuel s = (s', .normal) ∧
      s'.arr.take (i + k) = bytes.toList.take (i + k) ∧ s'.arr.length = s.arr.length ∧ s'.arr.drop (i + k) = s.arr.drop (i + k) ∧
      (∀ y, y ≠ 2 → s'.vars y = s.vars y) ∧ s'.log = s.log := by
  intro k
  induction k with
  | zero =>
    intro s i fuel _ h2 h0 _ _ htake hf
    obtain ⟨f, rfl⟩ : ∃ f, fuel = f + 1 := ⟨fuel - 1, by omega⟩
    have hc : cpCond.eval s = some 0 := by
      rw [cpCond, eval_lt_some (eval_var s 2) (eval_var s 0), h2, h0]; simp [b2i]
    refine ⟨s, ?_, by simpa using htake, rfl, rfl, fun _ _ => rfl, rfl⟩
    rw [loop]; try dsimp only
    rw [hc]; rfl
  | succ k ih =>
    intro s i fuel hH h2 h0 hsz hlen htake hf
    obtain ⟨f, rfl⟩ : ∃ f, fuel = f + 1 := ⟨fuel - 1, by omega⟩
    have hc : cpCond.eval s = some 1 := by
      rw [cpCond, eval_lt_some (eval_var s 2) (eval_var s 0), h2, h0]
      have : ((i : Int) < ((i + (k + 1) : Nat) : Int)) := by omega
      simp only [b2i, this, decide_true, if_true]
    have hib : i < bytes.size := by omega
    have hia : i < s.arr.length := by omega
    have htab : (Ex.tab 0 (.var 2)).eval s = some bytes[i] := by
      rw [tab_eval hH _ _ (eval_var s 2), h2]
      simp only [rd]
      have : ¬ ((i : Int) < 0) := by omega
      simp only [this, if_false, Int.toNat_natCast]
      exact Array.getElem?_eq_getElem hib
    have hst : (St.store (.var 2) (.tab 0 (.var 2))).run s = ({ s with arr := s.arr.set i bytes[i] }, .normal) := by
      simp only [St.run, eval_var, htab, h2]
      have : (0 : Int) ≤ i ∧ (i : Int).toNat < s.arr.length := ⟨by omega, by simpa using hia⟩
      simp [this, hia]
    have hinc : (St.assign 2 (.add (.var 2) (.lit 1))).run { s with arr := s.arr.set i bytes[i] } =
        (setVar { s with arr := s.arr.set i bytes[i] } 2 ((i : Int) + 1), .normal) :=
      run_assign_some (by rw [eval_add_some (eval_var _ 2) (eval_lit _ 1)]; simp [h2])
    have hbody : cpBody.run s = (setVar { s with arr := s.arr.set i bytes[i] } 2 ((i : Int) + 1), .normal) := by
      rw [cpBody, run_seq_normal hst, hinc]
    have htake' : (s.arr.set i bytes[i]).take (i + 1) = bytes.toList.take (i + 1) := by
      rw [List.take_add_one, List.take_add_one, List.take_set_of_le (Nat.le_refl _), htake]
      congr 1
      simp [hia, hib]
    obtain ⟨s', hl, ht, hlen', hdrop, hfr, hlg⟩ := ih (setVar { s with arr := s.arr.set i bytes[i] } 2 ((i : Int) + 1)) (i + 1) f
      (holds_setVar (holds_arr hH _) 2 _ (by omega)) (by simp [setVar_vars]) (by simp [setVar_vars, h0]; omega) (by omega)
      (by simp; omega) (by simpa using htake') (by omega)
    have e1 : i + 1 + k = i + (k + 1) := by omega
    refine ⟨s', ?_, by rw [← e1]; exact ht, by rw [hlen']; simp, ?_, ?_, by rw [hlg]; rfl⟩
    · rw [loop]; try dsimp only
      rw [hc, hbody]
      have h1' : ((1 : Int) != 0) = true := by decide
      simp only [h1', if_true]; exact hl
    · rw [← e1, hdrop]; simp only [setVar_arr]
      rw [List.drop_set_of_lt (by omega)]
    · intro y hy; rw [hfr y hy]; simp [setVar_vars, hy]


theorem run_store_some {s : State} {i e : Ex} {k v : Int} (hi : i.eval s = some k) (he : e.eval s = some v) (hk : 0 ≤ k)
    (hlt : k.toNat < s.arr.length) : (St.store i e).run s = ({ s with arr := s.arr.set k.toNat v }, .normal) := by
  simp [St.run, hi, he, hk, hlt]

theorem run_seq_fatal {a b : St} {s s' : State} {m : Nat} (h : a.run s = (s', .fatal m)) : (St.seq a b).run s = (s', .fatal m) := by
  simp [St.run, h]

theorem two_marks (X B : List Int) (L : Nat) (hB : B.length = L) (hX : X.take L = B) (hlen : X.length = L + 2) :
    (X.set (L + 1) 0).set L 0 = B ++ [0, 0] := by
  have hd : (X.drop L).length = 2 := by simp [hlen]
  have hx : X = B ++ X.drop L := by rw [← hX]; exact (List.take_append_drop L X).symm
  match hD : X.drop L, hd with
  | [x0, x1], _ =>
    rw [hD] at hx
    rw [hx, List.set_append_right _ _ (by omega), hB, List.set_append_right _ _ (by simp [hB])]
    simp [hB]

/-- **C11, yy_scan_bytes()**: the scanner's private memory holds exactly the `len` bytes handed in, then the two end marks;
    that memory (of `len + 2` bytes) is what yy_scan_buffer() is called on; the buffer it returns is marked as the scanner's
    own; NULL from yy_scan_buffer() would be the documented fatal error -/
theorem scanBytes_spec (bytes : Array Int) (s : State) (L : Nat) (hH : Holds s 0 bytes) (h0 : s.vars 0 = L)
    (hL : L ≤ bytes.size) (harr : s.arr = []) :
    ∃ s', s'.arr = bytes.toList.take L ++ [0, 0] ∧ s'.log = s.log ++ [(0, (L : Int) + 2)] ∧
      (s.vars 6 = 0 → scanBytes.run s = (s', .fatal 1)) ∧
      (s.vars 6 ≠ 0 → scanBytes.run s = (s', .returned (s.vars 6)) ∧ s'.vars 5 = 1) := by
  -- n = len + 2; buf = yyalloc(n)
  have hn : (St.assign 1 (.add (.var 0) (.lit 2))).run s = (setVar s 1 ((L : Int) + 2), .normal) :=
    run_assign_some (by rw [eval_add_some (eval_var s 0) (eval_lit s 2), h0])
  have hg : (St.seq (.growTo (.var 1)) (.assign 3 (.lit 1))).run (setVar s 1 ((L : Int) + 2)) =
      (setVar { setVar s 1 ((L : Int) + 2) with arr := List.replicate (L + 2) garbage } 3 1, .normal) := by
    have e : ((L : Int) + 2).toNat = L + 2 := by omega
    simp [St.run, Ex.eval, setVar_vars, harr, e]
  let s2 : State := setVar { setVar s 1 ((L : Int) + 2) with arr := List.replicate (L + 2) garbage } 3 1
  have hchk : (St.ite (.eq (.var 3) (.lit 0)) (.fatal 0) .skip).run s2 = (s2, .normal) := by
    rw [run_ite_some (eval_eq_some (eval_var s2 3) (eval_lit s2 0))]; simp [s2, setVar_vars, b2i, St.run]
  -- the copy
  have hi0 : (St.assign 2 (.lit 0)).run s2 = (setVar s2 2 0, .normal) := run_assign_some (eval_lit s2 0)
  have hH2 : Holds (setVar s2 2 0) 0 bytes :=
    holds_setVar (holds_setVar (holds_arr (holds_setVar hH 1 _ (by omega)) _) 3 _ (by omega)) 2 _ (by omega)
  obtain ⟨s3, hloop, htake, hlen3, _, hfr3, hlg3⟩ := copy_loop bytes L (setVar s2 2 0) 0 ((setVar s2 2 0).arr.length + 3) hH2
    (by simp [setVar_vars]) (by simp [s2, setVar_vars, h0]) (by omega) (by simp [s2]) (by simp) (by simp [s2])
  have hcopy : (St.seq (.assign 2 (.lit 0)) (.while_ cpCond cpBody)).run s2 = (s3, .normal) := by
    rw [run_seq_normal hi0]; simp only [St.run]; exact hloop
  simp only [Nat.zero_add] at htake
  have hlen3' : s3.arr.length = L + 2 := by rw [hlen3]; simp [s2]
  have v0 : s3.vars 0 = L := by rw [hfr3 0 (by omega)]; simp [s2, setVar_vars, h0]
  have v1 : s3.vars 1 = (L : Int) + 2 := by rw [hfr3 1 (by omega)]; simp [s2, setVar_vars]
  have v6 : s3.vars 6 = s.vars 6 := by rw [hfr3 6 (by omega)]; simp [s2, setVar_vars]
  have hlog3 : s3.log = s.log := by rw [hlg3]; simp [s2]
  -- the two end marks
  have eL1 : (Ex.add (.var 0) (.lit 1)).eval s3 = some ((L : Int) + 1) := by rw [eval_add_some (eval_var s3 0) (eval_lit s3 1), v0]
  have tL1 : ((L : Int) + 1).toNat = L + 1 := by omega
  have hm1 : (St.store (.add (.var 0) (.lit 1)) (.lit 0)).run s3 = ({ s3 with arr := s3.arr.set (L + 1) 0 }, .normal) := by
    have := run_store_some eL1 (eval_lit s3 0) (by omega) (by rw [tL1, hlen3']; omega)
    rw [tL1] at this; exact this
  have hm2 : (St.store (.var 0) (.idx (.add (.var 0) (.lit 1)))).run { s3 with arr := s3.arr.set (L + 1) 0 } =
      ({ s3 with arr := (s3.arr.set (L + 1) 0).set L 0 }, .normal) := by
    have hl : L + 1 < (s3.arr.set (L + 1) 0).length := by simp [hlen3']
    have eL1' : (Ex.add (.var 0) (.lit 1)).eval { s3 with arr := s3.arr.set (L + 1) 0 } = some ((L : Int) + 1) := eL1
    have hidx : (Ex.idx (.add (.var 0) (.lit 1))).eval { s3 with arr := s3.arr.set (L + 1) 0 } = some 0 := by
      have hg : ({ s3 with arr := s3.arr.set (L + 1) 0 } : State).arr[((L : Int) + 1).toNat]? = some 0 := by
        rw [tL1]; show (s3.arr.set (L + 1) 0)[L + 1]? = some 0
        rw [List.getElem?_eq_getElem hl]; simp
      exact C01Step.eval_idx_some eL1' (by omega) hg
    have e0 : (Ex.var 0).eval { s3 with arr := s3.arr.set (L + 1) 0 } = some (L : Int) := congrArg some v0
    have := run_store_some e0 hidx (by omega) (by simp [hlen3'])
    simpa using this
  have harrF : (s3.arr.set (L + 1) 0).set L 0 = bytes.toList.take L ++ [0, 0] :=
    two_marks s3.arr _ L (by simp; omega) htake hlen3'
  let s5 : State := { s3 with arr := (s3.arr.set (L + 1) 0).set L 0 }
  have hmarks : (St.seq (.store (.add (.var 0) (.lit 1)) (.lit 0)) (.store (.var 0) (.idx (.add (.var 0) (.lit 1))))).run s3 = (s5, .normal) := by
    rw [run_seq_normal hm1, hm2]
  have hcall : (St.seq (.call 0 (.var 1)) (.assign 4 (.var 6))).run s5 =
      (setVar { s5 with log := s5.log ++ [(0, (L : Int) + 2)] } 4 (s.vars 6), .normal) := by
    simp [St.run, Ex.eval, s5, v1, v6]
  let s6 : State := setVar { s5 with log := s5.log ++ [(0, (L : Int) + 2)] } 4 (s.vars 6)
  have hpre : ∀ r, scanBytes.run s = (St.seq (.ite (.eq (.var 4) (.lit 0)) (.fatal 1) .skip) r).run s6 →
      True := fun _ _ => trivial
  have hrun : scanBytes.run s = (St.seq (.ite (.eq (.var 4) (.lit 0)) (.fatal 1) .skip) (.seq (.assign 5 (.lit 1)) (.ret (.var 4)))).run s6 := by
    rw [scanBytes_shape, run_seq_normal hn, run_seq_normal hg, run_seq_normal hchk, run_seq_normal hcopy, tailSt,
      run_seq_normal hmarks, run_seq_normal hcall]
  have htest : (Ex.eq (.var 4) (.lit 0)).eval s6 = some (b2i (s.vars 6 == 0)) := by
    rw [eval_eq_some (eval_var s6 4) (eval_lit s6 0)]; simp [s6, setVar_vars]
  by_cases hz : s.vars 6 = 0
  · refine ⟨s6, by simp [s6, s5, harrF], by simp [s6, s5, hlog3], fun _ => ?_, fun h => absurd hz h⟩
    rw [hrun]
    have : (St.ite (.eq (.var 4) (.lit 0)) (.fatal 1) .skip).run s6 = (s6, .fatal 1) := by
      rw [run_ite_some htest]; simp [hz, b2i, St.run]
    exact run_seq_fatal this
  · refine ⟨setVar s6 5 1, by simp [s6, s5, harrF], by simp [s6, s5, hlog3], fun h => absurd h hz, fun _ => ⟨?_, by simp [setVar_vars]⟩⟩
    rw [hrun]
    have h1 : (St.ite (.eq (.var 4) (.lit 0)) (.fatal 1) .skip).run s6 = (s6, .normal) := by
      rw [run_ite_some htest]; simp [hz, b2i, St.run]
    rw [run_seq_normal h1, run_seq_normal (run_assign_some (eval_lit s6 1))]
    simp [St.run, Ex.eval, s6, setVar_vars]

/-- what yy_scan_bytes() hands to yy_scan_buffer() is always accepted: it ends in the two NULs -/
theorem copy_terminated (bytes : List Int) (L : Nat) (h : L ≤ bytes.length) : C11ScanBuf.Terminated (bytes.take L ++ [0, 0]) := by
  have ht : (bytes.take L).length = L := by simp; omega
  have hl : (bytes.take L ++ [0, 0]).length = L + 2 := by rw [List.length_append, ht]; rfl
  refine ⟨by omega, ?_, ?_⟩
  · rw [hl, List.getElem?_append_right (by omega), ht]
    have : L + 2 - 2 - L = 0 := by omega
    rw [this]; rfl
  · rw [hl, List.getElem?_append_right (by omega), ht]
    have : L + 2 - 1 - L = 1 := by omega
    rw [this]; rfl

end FlexVerif.C11ScanBytes

import FlexVerif.Runtime.Abs
/-
  Props/C05.lean — start conditions: the current start condition changes only through
  yybegin / yy_push_state / yy_pop_state; push/pop/top are an unbounded LIFO stack whose
  underflow is a reported fatal error.   (Activation of rules by start condition is the
  definition `RuleSet.activeIn`, checked against flex per program by the validator.)
-/
namespace FlexVerif
open AState

@[simp] theorem AState.emit_start (s : AState) (l : String) : (s.emit l).start = s.start := rfl
@[simp] theorem AState.emit_sstack (s : AState) (l : String) : (s.emit l).sstack = s.sstack := rfl
@[simp] theorem AState.fatal_start (s : AState) (c : String) : (s.fatal c).start = s.start := rfl
@[simp] theorem AState.fatal_sstack (s : AState) (c : String) : (s.fatal c).sstack = s.sstack := rfl
@[simp] theorem AState.setCurBuf_start (s : AState) (b : ABuf) : (s.setCurBuf b).start = s.start := by
  unfold AState.setCurBuf; split <;> rfl
@[simp] theorem AState.setCurBuf_sstack (s : AState) (b : ABuf) : (s.setCurBuf b).sstack = s.sstack := by
  unfold AState.setCurBuf; split <;> rfl
@[simp] theorem AState.ensureBuf_start (s : AState) : s.ensureBuf.start = s.start := by
  unfold AState.ensureBuf; split <;> rfl
@[simp] theorem AState.ensureBuf_sstack (s : AState) : s.ensureBuf.sstack = s.sstack := by
  unfold AState.ensureBuf; split <;> rfl
@[simp] theorem AState.addLineno_start (cfg : Cfg) (s : AState) (d : Int) :
    (s.addLineno cfg d).start = s.start := by
  unfold AState.addLineno; split; rfl; split <;> simp
@[simp] theorem AState.addLineno_sstack (cfg : Cfg) (s : AState) (d : Int) :
    (s.addLineno cfg d).sstack = s.sstack := by
  unfold AState.addLineno; split; rfl; split <;> simp

/-- an operation that is allowed to change the start condition -/
def Op.setsStart : Op → Bool
  | .begin_ _ | .push _ | .pop | .destroy => true
  | _ => false

/-- **Buffer operations never change the start condition** — yyrestart, yy_switch_to_buffer,
    push/pop of buffers, flush, delete, scan_*, create, new yyin. -/
theorem bufferOp_start (cfg : Cfg) (s : AState) (op : Op) : (bufferOp cfg s op).start = s.start := by
  cases op <;> simp only [bufferOp] <;> (try rfl) <;> (try simp) <;>
    (repeat (first | rfl | (split <;> try simp)))

/-- **yywrap / end of a source never changes the start condition.** -/
theorem doWrap_start (s : AState) : (doWrap s).1.start = s.start := by
  unfold doWrap
  split <;> (try simp)
  · split <;> simp
  · split
    · split
      · split <;> simp
      · simp
    · simp

/-- **yyinput never changes the start condition** (including across yywrap). -/
theorem inputOp_start (cfg : Cfg) (s : AState) (fuel : Nat) : (inputOp cfg s fuel).start = s.start := by
  induction fuel generalizing s with
  | zero => simp [inputOp]
  | succ n ih =>
    simp only [inputOp]
    split
    · split <;> simp
    · have h0 : s.ensureBuf.eofRestart.start = s.start := by
        simp only [AState.eofRestart]; split <;> simp
      have h1 := doWrap_start s.ensureBuf.eofRestart
      split
      · rw [ih]; simpa [h0] using h1
      · simpa [h0] using h1

/-- the other API calls (top, start, setbol, atbol, lineno queries) leave it alone too -/
theorem commonOp_start_frame (cfg : Cfg) (s s' : AState) (op : Op)
    (h : commonOp cfg s op = some s') (hop : op.setsStart = false) : s'.start = s.start := by
  cases op <;> simp [Op.setsStart] at hop <;> simp only [commonOp] at h
  all_goals first
    | (cases h; simp)
    | (split at h <;> cases h <;> simp)
    | (cases h)

/-- **push then pop is the identity** on (start condition, stack) -/
theorem push_pop (cfg : Cfg) (s : AState) (n : Nat) :
    ∃ s1 s2, commonOp cfg s (.push n) = some s1 ∧ commonOp cfg s1 .pop = some s2 ∧
      s2.start = s.start ∧ s2.sstack = s.sstack ∧ s2.halted = s.halted ∧ s1.start = n := by
  refine ⟨_, _, rfl, rfl, rfl, rfl, rfl, rfl⟩

/-- **underflow is a reported fatal error** -/
theorem pop_underflow (cfg : Cfg) (s s' : AState) (he : s.sstack = [])
    (h : commonOp cfg s .pop = some s') : s'.halted = true ∧ s'.out.back? = some "fatal underflow" := by
  simp only [commonOp, he] at h
  cases h
  simp only [AState.fatal, AState.emit, Array.back?_push, true_and]
  rfl

/-- pushing a list of start conditions -/
def pushAll (cfg : Cfg) (s : AState) : List Nat → AState
  | [] => s
  | n :: ns => match commonOp cfg s (.push n) with
    | some s' => pushAll cfg s' ns
    | none => s

/-- popping `k` times, collecting the start condition found after each pop -/
def popAll (cfg : Cfg) (s : AState) : Nat → AState × List Nat
  | 0 => (s, [])
  | k + 1 => match commonOp cfg s .pop with
    | some s' => let (s'', l) := popAll cfg s' k; (s'', s'.start :: l)
    | none => (s, [])

theorem pushAll_spec (cfg : Cfg) (s : AState) (ns : List Nat) :
    (pushAll cfg s ns).sstack = ((s.start :: ns).take ns.length).reverse ++ s.sstack ∧
    (pushAll cfg s ns).start = (s.start :: ns).getLast (by simp) ∧
    (pushAll cfg s ns).halted = s.halted := by
  induction ns generalizing s with
  | nil => simp [pushAll]
  | cons n ns ih =>
    simp only [pushAll, commonOp]
    obtain ⟨h1, h2, h3⟩ := ih { s with sstack := s.start :: s.sstack, start := n }
    refine ⟨?_, ?_, h3⟩
    · rw [h1]; simp [List.take_succ_cons]
    · rw [h2]; simp [List.getLast_cons]

theorem popAll_spec (cfg : Cfg) (s : AState) (l rest : List Nat) (h : s.sstack = l ++ rest) :
    (popAll cfg s l.length).2 = l ∧ (popAll cfg s l.length).1.sstack = rest ∧
    (popAll cfg s l.length).1.start = (s.start :: l).getLast (by simp) ∧
    (popAll cfg s l.length).1.halted = s.halted := by
  induction l generalizing s with
  | nil => simp [popAll, h]
  | cons t l ih =>
    simp only [List.length_cons, popAll, commonOp, h, List.cons_append]
    obtain ⟨h1, h2, h3, h4⟩ := ih { s with start := t, sstack := l ++ rest } rfl
    refine ⟨by simp [h1], h2, ?_, h4⟩
    rw [h3]; simp [List.getLast_cons]

/-- **LIFO**, for stacks of any depth: after pushing `n₁ … n_k`, `k` pops yield the start
    conditions that were current before each push, most recent first, and restore the start
    condition and the stack (no bound on the depth). -/
theorem stack_lifo (cfg : Cfg) (s : AState) (ns : List Nat) :
    let r := popAll cfg (pushAll cfg s ns) ns.length
    r.1.start = s.start ∧ r.1.sstack = s.sstack ∧ r.1.halted = s.halted ∧
      r.2 = ((s.start :: ns).take ns.length).reverse := by
  obtain ⟨h1, h2, h3⟩ := pushAll_spec cfg s ns
  have hl : (((s.start :: ns).take ns.length).reverse).length = ns.length := by simp
  have := popAll_spec cfg (pushAll cfg s ns) _ _ h1
  rw [hl] at this
  obtain ⟨p1, p2, p3, p4⟩ := this
  refine ⟨?_, p2, by rw [p4, h3], p1⟩
  rw [p3]
  cases ns with
  | nil => simp [pushAll]
  | cons n ns => simp [List.take_succ_cons, List.getLast_cons]

/-- non-vacuity: a concrete history -/
example : (popAll {} (pushAll {} ({} : AState) [2, 1, 3]) 3).2 = [1, 2, 0] := by decide

end FlexVerif

namespace FlexVerif
open AState

@[simp] theorem beginMatch_start (M : Matcher) (cfg : Cfg) (s : AState) (inp : List UInt8) (len rule : Nat)
    (p : List UInt8) : (beginMatch M cfg s inp len rule p).start = s.start := by
  unfold beginMatch
  split <;> simp

theorem step_generic_start (M : Matcher) (cfg : Cfg) (s : AState) (ops : List Op) (op : Op)
    (hop : op.setsStart = false)
    (ih : ∀ s : AState, (runAction M cfg s ops).1.start = s.start) :
    (match commonOp cfg s op with
      | some s' => if s'.halted = true then (s', ActEnd.halt) else runAction M cfg s' ops
      | none =>
        if (bufferOp cfg s op).halted = true then (bufferOp cfg s op, ActEnd.halt)
        else runAction M cfg (bufferOp cfg s op) ops).1.start = s.start := by
  cases h : commonOp cfg s op with
  | some s' =>
    have := commonOp_start_frame cfg s s' op h hop
    simp only
    split
    · exact this
    · rw [ih]; exact this
  | none =>
    simp only
    split
    · exact bufferOp_start cfg s op
    · rw [ih]; exact bufferOp_start cfg s op

/-- **An action that does not call yybegin / yy_push_state / yy_pop_state leaves the start
    condition unchanged**, whatever else it does (yyless, yymore, yyunput, yyinput across yywrap,
    buffer switches, yyrestart, …). -/
theorem runAction_start (M : Matcher) (cfg : Cfg) (s : AState) (ops : List Op)
    (h : ∀ op ∈ ops, op.setsStart = false) : (runAction M cfg s ops).1.start = s.start := by
  induction ops generalizing s with
  | nil => simp [runAction]
  | cons op ops ih =>
    have hop := h op (by simp)
    have hops : ∀ o ∈ ops, o.setsStart = false := fun o ho => h o (by simp [ho])
    have ih' : ∀ s : AState, (runAction M cfg s ops).1.start = s.start := fun s => ih s hops
    simp only [runAction]
    split
    · rfl
    · cases op <;> (try dsimp only)
      all_goals try (exact step_generic_start M cfg s ops _ hop ih')
      all_goals try (simp [Op.setsStart] at hop; done)
      all_goals try rfl
      all_goals try (rw [ih']; done)
      all_goals try (rw [ih']; simp; done)
      case includeEnd =>
        split
        · exact ih' s
        · split
          · exact bufferOp_start cfg s _
          · have hb := bufferOp_start cfg s .popbuf
            have := ih' (bufferOp cfg s .popbuf)
            split <;> simp_all
      case unput =>
        rw [ih']; split <;> simp
      case input =>
        generalize hs' : (if cfg.logReads = true then s.noteNeed 1 s.curBuf.pending.length else s) = s'
        have hst : s'.start = s.start := by rw [← hs']; split <;> rfl
        split
        · rw [inputOp_start]; exact hst
        · rw [ih', inputOp_start]; exact hst

end FlexVerif

/-
  Props/C19OptsDefaults.lean — C19: the documented defaults (character-set size, interactive or
  batch), the implications of lex compatibility, `%array` overridden for C++, and the shape of every
  accepted configuration — theorems about the regenerated `checkOptions` (see Props/C19Opts.lean).
-/
import FlexVerif.Props.C19Opts
namespace FlexVerif.C19Opts
open FlexVerif.Opt FlexVerif.Gen.Options

/-! ### documented defaults -/

def sevenBitCase : Cond := .and fullOrFast (.not (.truthy F.useecs))

/-- no `-7`/`-8`: a 7-bit scanner exactly for full/fast tables *without* equivalence classes … -/
theorem csize_default_7bit : ∀ st, Ok st → (Cond.and (.eq F.csize (-1)) sevenBitCase).eval st = true →
    (prog.run st).err.isSome = true ∨ (Cond.eq F.csize 128).eval (prog.run st).st = true :=
  holds_after _ _ (by decide +kernel)

/-- … and an 8-bit scanner otherwise (`-Cfe`, `-CFe` and all compressed tables) -/
theorem csize_default_8bit : ∀ st, Ok st → (Cond.and (.eq F.csize (-1)) (.not sevenBitCase)).eval st = true →
    (prog.run st).err.isSome = true ∨ (Cond.eq F.csize 256).eval (prog.run st).st = true :=
  holds_after _ _ (by decide +kernel)

/-- `-7` / `-8` given: kept -/
theorem csize_explicit_kept (k : Int) (hk : k = 128 ∨ k = 256) : ∀ st, Ok st → (Cond.eq F.csize k).eval st = true →
    (prog.run st).err.isSome = true ∨ (Cond.eq F.csize k).eval (prog.run st).st = true := by
  rcases hk with rfl | rfl
  · exact holds_after _ _ (by decide +kernel)
  · exact holds_after _ _ (by decide +kernel)

/-- neither `-I` nor `-B`: interactive unless full/fast tables -/
theorem interactive_default : ∀ st, Ok st → (Cond.eq F.interactive (-1)).eval st = true →
    (prog.run st).err.isSome = true ∨
      (Cond.or (.and fullOrFast (.eq F.interactive 0)) (.and (.not fullOrFast) (.eq F.interactive 1))).eval (prog.run st).st = true :=
  holds_after _ _ (by decide +kernel)

/-- lex compatibility implies `%array`, `yylineno` and no `read()` -/
theorem lex_compat_implies : ∀ st, Ok st → (Cond.truthy F.lex_compat).eval st = true →
    (prog.run st).err.isSome = true ∨
      (Cond.and (.eq F.yytext_is_array 1) (.and (.eq F.do_yylineno 1) (.eq F.use_read 0))).eval (prog.run st).st = true :=
  holds_after _ _ (by decide +kernel)

/-- `%array` with `c++`: overridden with a warning, not refused for that reason -/
theorem cxx_array_overridden : ∀ st, Ok st → (both F.C_plus_plus F.yytext_is_array).eval st = true →
    (prog.run st).err.isSome = true ∨
      (Cond.not (.truthy F.yytext_is_array)).eval (prog.run st).st = true :=
  holds_after _ _ (by decide +kernel)

theorem cxx_array_warns : ∀ st, Ok st → (both F.C_plus_plus F.yytext_is_array).eval st = true →
    (prog.run st).err.isSome = true ∨
      (prog.run st).warns.contains (msgIdx "%array incompatible with -+ option") = true :=
  warns_of _ _ (by decide +kernel)

/-- what every accepted configuration looks like -/
def Accepted : Cond :=
  .and (.not (both F.C_plus_plus F.reentrant))
  (.and (.not (both F.C_plus_plus F.yytext_is_array))
  (.and (.not (both F.C_plus_plus F.fullspd))
  (.and (.not (both F.fulltbl F.fullspd))
  (.and (.or (.not fullOrFast) (.and (.eq F.interactive 0) (.not (.truthy F.usemecs))))
  (.and (.or (.eq F.csize 128) (.eq F.csize 256))
        (.or (.eq F.interactive 0) (.eq F.interactive 1)))))))

theorem accepted_consistent : ∀ st, Ok st →
    (prog.run st).err.isSome = true ∨ Accepted.eval (prog.run st).st = true := by
  intro st hst
  exact holds_after .tt _ (by decide +kernel) st hst rfl

end FlexVerif.C19Opts

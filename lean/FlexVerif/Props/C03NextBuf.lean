/-
  Props/C03NextBuf.lean — C03 / C10 / C13, yy_get_next_buffer(): theorems about the program of
  `Gen/NextBuf.lean`, which `tools/fv/gen_nextbuf.py` translates from the `yy_get_next_buffer()` of a
  scanner flex has just generated.  The character buffer is an array of `yy_buf_size + 2` cells, every
  `char *` an offset into it; `YY_INPUT` is a reader outside the model that is asked for at most `max`
  bytes and delivers what it has, up to that many.
-/
import FlexVerif.Imp.Lang
import FlexVerif.Gen.NextBuf
namespace FlexVerif.C03NextBuf
open FlexVerif.Imp FlexVerif.Gen.NextBuf

theorem state_ext {a b : State} (hv : ∀ y, a.vars y = b.vars y) (ha : a.arr = b.arr) (hl : a.log = b.log) : a = b := by
  cases a; cases b
  simp only at hv ha hl
  subst ha hl
  congr 1
  funext y; exact hv y

theorem setVar_vars (s : State) (x y : Nat) (v : Int) : (setVar s x v).vars y = if y = x then v else s.vars y := rfl
@[simp] theorem setVar_arr (s : State) (x : Nat) (v : Int) : (setVar s x v).arr = s.arr := rfl
@[simp] theorem setVar_log (s : State) (x : Nat) (v : Int) : (setVar s x v).log = s.log := rfl

/-! ### the pieces of `yy_get_next_buffer` -/

def a1 : St := .assign 10 (.lit 0)                                      -- dest = buf
def a2 : St := .assign 11 (.var 1)                                      -- source = yytext_ptr
def g1 : St := .ite (.lt (.add (.var 2) (.lit 1)) (.var 0)) (.fatal 0) .skip
def g2 : St := .ite (.eq (.var 5) (.lit 0))
  (.ite (.eq (.sub (.sub (.var 0) (.var 1)) (.var 9)) (.lit 1)) (.ret (.lit 1)) (.ret (.lit 2))) .skip
def a3 : St := .assign 12 (.sub (.sub (.var 0) (.var 1)) (.lit 1))      -- number_to_move
def mvCond : Ex := .lt (.var 13) (.var 12)
def mvBody : St :=
  .seq (.seq (.store (.var 10) (.idx (.var 11))) (.seq (.assign 10 (.add (.var 10) (.lit 1))) (.assign 11 (.add (.var 11) (.lit 1)))))
       (.assign 13 (.add (.var 13) (.lit 1)))
def mv : St := .seq (.assign 13 (.lit 0)) (.while_ mvCond mvBody)
def eofp : St := .seq (.assign 2 (.lit 0)) (.assign 3 (.var 2))
def grCond : Ex := .le (.var 15) (.lit 0)
def grBody : St :=
  .seq (.assign 16 (.sub (.var 0) (.lit 0)))
  (.seq (.ite (.var 7)
          (.seq (.assign 17 (.mul (.var 4) (.lit 2)))
            (.seq (.ite (.le (.var 17) (.lit 0)) (.assign 4 (.add (.var 4) (.div (.var 4) (.lit 8)))) (.assign 4 (.mul (.var 4) (.lit 2))))
              (.seq (.growTo (.add (.var 4) (.lit 2))) (.assign 8 (.lit 1)))))
          (.assign 8 (.lit 0)))
  (.seq (.ite (.eq (.var 8) (.lit 0)) (.fatal 1) .skip)
  (.seq (.assign 0 (.var 16)) (.assign 15 (.sub (.sub (.var 4) (.var 12)) (.lit 1))))))
def rdTail : St :=
  .seq (.ite (.lt (.var 18) (.var 15)) (.assign 15 (.var 18)) .skip)
    (.seq (.read (.var 12) (.var 15) 2) (.assign 3 (.var 2)))
def rd : St := .seq (.assign 15 (.sub (.sub (.var 4) (.var 12)) (.lit 1))) (.seq (.while_ grCond grBody) rdTail)
def fill : St := .ite (.eq (.var 6) (.lit 2)) eofp rd
def fin : St :=
  .seq (.ite (.eq (.var 2) (.lit 0))
          (.ite (.eq (.var 12) (.var 9)) (.seq (.assign 14 (.lit 1)) (.call 0 (.lit 0))) (.seq (.assign 14 (.lit 2)) (.assign 6 (.lit 2))))
          (.assign 14 (.lit 0)))
  (.seq (.ite (.lt (.var 4) (.add (.var 2) (.var 12)))
          (.seq (.assign 17 (.add (.add (.add (.var 2) (.var 12)) (.div (.var 2) (.lit 2))) (.lit 2)))
            (.seq (.seq (.growTo (.var 17)) (.assign 8 (.lit 1)))
              (.seq (.ite (.eq (.var 8) (.lit 0)) (.fatal 2) .skip) (.assign 4 (.sub (.var 17) (.lit 2))))))
          .skip)
  (.seq (.assign 2 (.add (.var 2) (.var 12)))
  (.seq (.assign 3 (.var 2))
  (.seq (.store (.var 2) (.lit 0))
  (.seq (.store (.add (.var 2) (.lit 1)) (.lit 0))
  (.seq (.assign 1 (.lit 0)) (.ret (.var 14))))))))

/-- the translated function is made of these pieces, in this order (a change to the source shows here) -/
theorem nextBuf_shape :
    nextBuf = .seq a1 (.seq a2 (.seq g1 (.seq g2 (.seq a3 (.seq mv (.seq fill fin)))))) := rfl


/-! ### moving the unfinished token to the start of the buffer -/

/-- `k` rounds of `*(dest++) = *(source++)` with dest = i, source = t + i -/
def moveFrom (arr : List Int) (t : Nat) : Nat → Nat → List Int
  | _, 0 => arr
  | i, k + 1 => moveFrom (arr.set i (arr.getD (t + i) 0)) t (i + 1) k

theorem moveFrom_length (arr : List Int) (t i k : Nat) : (moveFrom arr t i k).length = arr.length := by
  induction k generalizing arr i with
  | zero => rfl
  | succ k ih => simp [moveFrom, ih]

/-- the copy runs upwards and the destination is not above the source, so no cell is read after it was
    overwritten: cells `i … i+k-1` get the old cells `t+i … t+i+k-1`, the rest stays -/
theorem moveFrom_get (arr : List Int) (t i k : Nat) (h : t + i + k ≤ arr.length) (j : Nat) :
    (moveFrom arr t i k)[j]? = if i ≤ j ∧ j < i + k then arr[t + j]? else arr[j]? := by
  induction k generalizing arr i with
  | zero =>
    simp only [moveFrom]
    split
    · rename_i hc; omega
    · rfl
  | succ k ih =>
    simp only [moveFrom]
    rw [ih _ _ (by simp; omega)]
    have hti : t + i < arr.length := by omega
    by_cases h1 : i + 1 ≤ j ∧ j < i + 1 + k
    · rw [if_pos h1, if_pos ⟨by omega, by omega⟩, List.getElem?_set_ne (by omega)]
    · rw [if_neg h1]
      by_cases h2 : j = i
      · subst h2
        rw [if_pos ⟨by omega, by omega⟩, List.getElem?_set_self (by omega)]
        simp [List.getD_eq_getElem?_getD, List.getElem?_eq_getElem hti]
      · rw [if_neg (by omega), List.getElem?_set_ne (by omega)]

theorem moveFrom_eq (arr : List Int) (t m : Nat) (h : t + m ≤ arr.length) :
    moveFrom arr t 0 m = (arr.drop t).take m ++ arr.drop m := by
  apply List.ext_getElem?
  intro j
  rw [moveFrom_get arr t 0 m (by omega)]
  by_cases hj : j < m
  · rw [if_pos ⟨by omega, by omega⟩, List.getElem?_append_left (by simp; omega)]
    simp [hj]
  · rw [if_neg (by omega), List.getElem?_append_right (by simp; omega)]
    have hl : ((arr.drop t).take m).length = m := by simp; omega
    rw [hl, List.getElem?_drop]
    congr 1; omega

/-- the state after the copy loop -/
def afterMove (s : State) (t i k : Nat) : State :=
  { s with vars := fun y => if y = 13 then (i : Int) + k else if y = 10 then (i : Int) + k
                            else if y = 11 then (t : Int) + ((i : Int) + k) else s.vars y,
           arr := moveFrom s.arr t i k }

theorem mv_loop : ∀ (k : Nat) (s : State) (t i fuel : Nat), s.vars 13 = i → s.vars 10 = i → s.vars 11 = (t : Int) + i →
    s.vars 12 = (i : Int) + k → t + i + k ≤ s.arr.length → k + 1 ≤ fuel →
    loop (fun s' => mvCond.eval s') (fun s' => mvBody.run s') fuel s = (afterMove s t i k, .normal) := by
  intro k
  induction k with
  | zero =>
    intro s t i fuel h13 h10 h11 h12 _ hf
    obtain ⟨f, rfl⟩ : ∃ f, fuel = f + 1 := ⟨fuel - 1, by omega⟩
    have hc : mvCond.eval s = some 0 := by simp [mvCond, Ex.eval, bind, Option.bind, pure, h13, h12, b2i]
    rw [loop]; try dsimp only
    rw [hc]
    simp only [bne_self_eq_false, Bool.false_eq_true, if_false]
    congr 1
    apply state_ext
    · intro y
      simp only [afterMove]
      by_cases hy : y = 13
      · subst hy; simp [h13]
      · by_cases hy0 : y = 10
        · subst hy0; simp [h10]
        · by_cases hy1 : y = 11
          · subst hy1; simp [h11]
          · simp [hy, hy0, hy1]
    · rfl
    · rfl
  | succ k ih =>
    intro s t i fuel h13 h10 h11 h12 hlen hf
    obtain ⟨f, rfl⟩ : ∃ f, fuel = f + 1 := ⟨fuel - 1, by omega⟩
    have hlt : ((i : Int) < (i : Int) + ((k : Int) + 1)) := by omega
    have hc : mvCond.eval s = some 1 := by
      simp [mvCond, Ex.eval, bind, Option.bind, pure, h13, h12, b2i, hlt]
    have hti : t + i < s.arr.length := by omega
    have hi : i < s.arr.length := by omega
    have hnn : (0 : Int) ≤ (t : Int) + (i : Int) := by omega
    have hto : ((t : Int) + (i : Int)).toNat = t + i := by omega
    have hgd : s.arr.getD (t + i) 0 = s.arr[t + i]'hti := by
      simp [List.getD_eq_getElem?_getD, List.getElem?_eq_getElem hti]
    have hbody : mvBody.run s =
        ({ (setVar (setVar (setVar s 10 ((i : Int) + 1)) 11 ((t : Int) + i + 1)) 13 ((i : Int) + 1)) with
            arr := s.arr.set i (s.arr.getD (t + i) 0) }, .normal) := by
      rw [hgd]
      simp [mvBody, St.run, Ex.eval, bind, Option.bind, pure, setVar_vars, h13, h10, h11, hti, hi, hnn, hto]
      rfl
    rw [loop]; try dsimp only
    rw [hc, hbody]
    have h1 : ((1 : Int) != 0) = true := by decide
    simp only [h1, if_true]
    rw [ih _ t (i + 1) f (by simp [setVar_vars]) (by simp [setVar_vars]) (by simp [setVar_vars]; omega)
      (by simp [setVar_vars, h12]; omega) (by simp; omega) (by omega)]
    congr 1
    apply state_ext
    · intro y
      simp only [afterMove, setVar_vars]
      by_cases hy : y = 13
      · simp [hy]; omega
      · by_cases hy0 : y = 10
        · simp [hy0]; omega
        · by_cases hy1 : y = 11
          · simp [hy1]; omega
          · simp [hy, hy0, hy1]
    · simp [afterMove, moveFrom]
    · rfl


/-! ### making room: the growth loop -/

/-- one round of the growth loop on a buffer the scanner owns, of positive size: the size doubles -/
def growOnce (s : State) : State :=
  { s with vars := fun y => if y = 15 then s.vars 4 * 2 - s.vars 12 - 1 else if y = 0 then s.vars 0 else if y = 8 then 1
                            else if y = 4 then s.vars 4 * 2 else if y = 17 then s.vars 4 * 2 else if y = 16 then s.vars 0
                            else s.vars y,
           arr := s.arr ++ List.replicate ((s.vars 4 * 2 + 2).toNat - s.arr.length) garbage }

theorem grBody_run (s : State) (hours : s.vars 7 ≠ 0) (hpos : 1 ≤ s.vars 4) : grBody.run s = (growOnce s, .normal) := by
  have h1 : ¬ (s.vars 4 * 2 ≤ 0) := by omega
  simp [grBody, St.run, Ex.eval, bind, Option.bind, pure, setVar_vars, hours, h1, b2i]
  apply state_ext
  · intro y
    simp only [growOnce, setVar_vars]
  · simp [growOnce]
  · rfl

theorem grBody_fatal (s : State) (hours : s.vars 7 = 0) :
    (grBody.run s).2 = .fatal 1 ∧ (grBody.run s).1.arr = s.arr ∧ (grBody.run s).1.log = s.log := by
  simp [grBody, St.run, Ex.eval, bind, Option.bind, pure, setVar_vars, hours, b2i]

/-- what the growth loop keeps and what it establishes -/
structure Grown (s0 s : State) : Prop where
  frame : ∀ y, y ≠ 15 → y ≠ 8 → y ≠ 4 → y ≠ 17 → y ≠ 16 → s.vars y = s0.vars y
  size_le : s0.vars 4 ≤ s.vars 4
  ntr : s.vars 15 = s.vars 4 - s.vars 12 - 1
  room : 1 ≤ s.vars 15
  len : (s.arr.length : Int) = s.vars 4 + 2
  ext : ∃ e, s.arr = s0.arr ++ e
  log : s.log = s0.log

theorem gr_skip (s : State) (fuel : Nat) (h : 1 ≤ s.vars 15) :
    loop (fun s' => grCond.eval s') (fun s' => grBody.run s') (fuel + 1) s = (s, .normal) := by
  have hc : grCond.eval s = some 0 := by
    have : ¬ (s.vars 15 ≤ 0) := by omega
    simp [grCond, Ex.eval, bind, Option.bind, pure, b2i, this]
  rw [loop]; try dsimp only
  rw [hc]; rfl

theorem gr_fatal (s : State) (fuel : Nat) (h : s.vars 15 ≤ 0) (hours : s.vars 7 = 0) :
    ∃ s', loop (fun s' => grCond.eval s') (fun s' => grBody.run s') (fuel + 1) s = (s', .fatal 1) ∧ s'.log = s.log := by
  have hc : grCond.eval s = some 1 := by simp [grCond, Ex.eval, bind, Option.bind, pure, b2i, h]
  obtain ⟨hb, _, hl⟩ := grBody_fatal s hours
  refine ⟨(grBody.run s).1, ?_, hl⟩
  have hb' : grBody.run s = ((grBody.run s).1, .fatal 1) := by rw [← hb]
  rw [loop]; try dsimp only
  rw [hc, hb']; rfl

/-- the size the growth loop ends with (the same recursion as `Buf.growTo` of the hand-written buffer machine) -/
def growSize (size p : Nat) : Nat → Nat
  | 0 => size
  | fuel + 1 => if size ≥ p + 2 then size else growSize (if size = 0 then 1 else size * 2) p fuel

theorem growSize_done (size p : Nat) (h : p + 2 ≤ size) : ∀ f, growSize size p f = size
  | 0 => rfl
  | f + 1 => by simp [growSize, h]

theorem gr_loop : ∀ (d : Nat) (s : State) (fuel : Nat), 1 ≤ s.vars 4 → s.vars 7 ≠ 0 → s.vars 15 = s.vars 4 - s.vars 12 - 1 →
    (s.arr.length : Int) = s.vars 4 + 2 → (s.vars 12 + 2 - s.vars 4).toNat ≤ d → d + 1 ≤ fuel → 0 ≤ s.vars 12 →
    ∃ s', loop (fun s' => grCond.eval s') (fun s' => grBody.run s') fuel s = (s', .normal) ∧ Grown s s' ∧
      ∀ f, d ≤ f → (s'.vars 4).toNat = growSize (s.vars 4).toNat (s.vars 12).toNat f := by
  intro d
  induction d with
  | zero =>
    intro s fuel hpos _ h15 hlen hd hf h12
    obtain ⟨f, rfl⟩ : ∃ f, fuel = f + 1 := ⟨fuel - 1, by omega⟩
    have hroom : 1 ≤ s.vars 15 := by omega
    exact ⟨s, gr_skip s f hroom, ⟨fun _ _ _ _ _ _ => rfl, Int.le_refl _, h15, hroom, hlen, ⟨[], by simp⟩, rfl⟩,
      fun f' _ => (growSize_done _ _ (by omega) f').symm⟩
  | succ d ih =>
    intro s fuel hpos hours h15 hlen hd hf h12
    obtain ⟨f, rfl⟩ : ∃ f, fuel = f + 1 := ⟨fuel - 1, by omega⟩
    by_cases hroom : 1 ≤ s.vars 15
    · exact ⟨s, gr_skip s f hroom, ⟨fun _ _ _ _ _ _ => rfl, Int.le_refl _, h15, hroom, hlen, ⟨[], by simp⟩, rfl⟩,
        fun f' _ => (growSize_done _ _ (by omega) f').symm⟩
    · have hc : grCond.eval s = some 1 := by
        have : s.vars 15 ≤ 0 := by omega
        simp [grCond, Ex.eval, bind, Option.bind, pure, b2i, this]
      have hg4 : (growOnce s).vars 4 = s.vars 4 * 2 := by simp [growOnce]
      have hg12 : (growOnce s).vars 12 = s.vars 12 := by simp [growOnce]
      have hg15 : (growOnce s).vars 15 = s.vars 4 * 2 - s.vars 12 - 1 := by simp [growOnce]
      have hg7 : (growOnce s).vars 7 = s.vars 7 := by simp [growOnce]
      have hglen : ((growOnce s).arr.length : Int) = s.vars 4 * 2 + 2 := by
        simp only [growOnce, List.length_append, List.length_replicate]
        omega
      obtain ⟨s', hrun, hG, hsz⟩ := ih (growOnce s) f (by rw [hg4]; omega) (by rw [hg7]; exact hours)
        (by rw [hg15, hg4, hg12]) (by rw [hglen, hg4]) (by rw [hg12, hg4]; omega) (by omega) (by rw [hg12]; exact h12)
      refine ⟨s', ?_, ?_, ?_⟩
      · rw [loop]; try dsimp only
        rw [hc, grBody_run s hours hpos]
        have h1 : ((1 : Int) != 0) = true := by decide
        simp only [h1, if_true]
        exact hrun
      · refine ⟨?_, ?_, hG.ntr, hG.room, hG.len, ?_, ?_⟩
        · intro y a b c d e
          rw [hG.frame y a b c d e]
          simp only [growOnce]
          by_cases h0 : y = 0
          · simp [h0]
          · simp [a, b, c, d, e, h0]
        · have := hG.size_le; rw [hg4] at this; omega
        · obtain ⟨e, he⟩ := hG.ext
          exact ⟨List.replicate ((s.vars 4 * 2 + 2).toNat - s.arr.length) garbage ++ e, by rw [he]; simp [growOnce]⟩
        · rw [hG.log]; rfl
      · intro f' hf'
        obtain ⟨f'', rfl⟩ : ∃ f'', f' = f'' + 1 := ⟨f' - 1, by omega⟩
        have hlt : ¬ ((s.vars 4).toNat ≥ (s.vars 12).toNat + 2) := by omega
        have hne : (s.vars 4).toNat ≠ 0 := by omega
        have h2 : (s.vars 4 * 2).toNat = (s.vars 4).toNat * 2 := by omega
        rw [hsz f'' (by omega), hg4, hg12, h2]
        simp [growSize, hlt, hne]


/-! ### asking the reader -/

/-- what the reader delivers when asked for at most `m` bytes -/
def got (s : State) (m : Int) : Nat := min (s.vars inLen).toNat m.toNat
def chunk (s : State) (n : Nat) : List Int := (List.range n).map fun i => s.vars (inByte i)

/-- how much is asked for: the room left, at most YY_READ_BUF_SIZE -/
def ask (s : State) : Int := if s.vars 18 < s.vars 15 then s.vars 18 else s.vars 15

def afterRead (s : State) : State :=
  setVar (setVar { setVar s 15 (ask s) with
      arr := s.arr.take (s.vars 12).toNat ++ chunk s (got s (ask s)) ++ s.arr.drop ((s.vars 12).toNat + got s (ask s)) }
    2 (got s (ask s))) 3 (got s (ask s))

theorem inByte_ne (i x : Nat) (hx : x < 900) : inByte i ≠ x := by unfold inByte; omega

theorem rdTail_run (s : State) (h15 : 1 ≤ s.vars 15) (h12 : 0 ≤ s.vars 12) (h18 : 1 ≤ s.vars 18)
    (hfit : s.vars 12 + s.vars 15 ≤ (s.arr.length : Int)) : rdTail.run s = (afterRead s, .normal) := by
  by_cases hc : s.vars 18 < s.vars 15
  · have hask : ask s = s.vars 18 := by simp [ask, hc]
    have hin : (s.vars 12).toNat + (s.vars 18).toNat ≤ s.arr.length := by omega
    have h18' : 0 ≤ s.vars 18 := by omega
    simp [rdTail, St.run, Ex.eval, bind, Option.bind, pure, setVar_vars, hc, b2i, h12, h18', hin, inLen]
    apply state_ext
    · intro y
      simp only [afterRead, setVar_vars, hask, got, inLen]
    · simp [afterRead, hask, got, chunk, inLen]
      intro a _ h
      exact absurd h (inByte_ne a 15 (by omega))
    · rfl
  · have hask : ask s = s.vars 15 := by simp [ask, hc]
    have hin : (s.vars 12).toNat + (s.vars 15).toNat ≤ s.arr.length := by omega
    have h15' : 0 ≤ s.vars 15 := by omega
    simp [rdTail, St.run, Ex.eval, bind, Option.bind, pure, setVar_vars, hc, b2i, h12, h15', hin, inLen]
    apply state_ext
    · intro y
      simp only [afterRead, setVar_vars, hask, got, inLen]
      by_cases h3 : y = 3
      · simp [h3]
      · by_cases h2 : y = 2
        · simp [h2]
        · by_cases h5 : y = 15
          · simp [h5]
          · simp [h3, h2, h5]
    · simp [afterRead, hask, got, chunk, inLen, inByte]
    · rfl


/-! ### the verdict and the end-of-buffer marks -/

/-- nothing read: end of file if nothing but the yymore() prefix is pending (yyrestart is called), else the pending
    text is to be matched first and the buffer remembers that the end was seen; something read: go on scanning -/
def verdict (s : State) : State :=
  if s.vars 2 = 0 then
    if s.vars 12 = s.vars 9 then { setVar s 14 1 with log := s.log ++ [(0, 0)] }
    else setVar (setVar s 14 2) 6 2
  else setVar s 14 0

def finish (s : State) : State :=
  setVar { setVar (setVar s 2 (s.vars 2 + s.vars 12)) 3 (s.vars 2 + s.vars 12) with
      arr := (s.arr.set (s.vars 2 + s.vars 12).toNat 0).set ((s.vars 2 + s.vars 12).toNat + 1) 0 } 1 0

theorem fin_run (s : State) (h2 : 0 ≤ s.vars 2) (h12 : 0 ≤ s.vars 12) (hfit : s.vars 2 + s.vars 12 ≤ s.vars 4)
    (hlen : (s.arr.length : Int) = s.vars 4 + 2) :
    fin.run s = (finish (verdict s), .returned ((verdict s).vars 14)) := by
  have hdead : ¬ (s.vars 4 < s.vars 2 + s.vars 12) := by omega
  have hnn : 0 ≤ s.vars 2 + s.vars 12 := by omega
  have hi1 : (s.vars 2 + s.vars 12).toNat < s.arr.length := by omega
  have hnn2 : 0 ≤ s.vars 2 + s.vars 12 + 1 := by omega
  have hi2 : (s.vars 2 + s.vars 12 + 1).toNat < s.arr.length := by omega
  have hto : (s.vars 2 + s.vars 12 + 1).toNat = (s.vars 2 + s.vars 12).toNat + 1 := by omega
  by_cases hz : s.vars 2 = 0
  · have hz12 : 0 + s.vars 12 = s.vars 12 := by omega
    have hi1' : (s.vars 12).toNat < s.arr.length := by omega
    have hnn2' : 0 ≤ s.vars 12 + 1 := by omega
    have hi2' : (s.vars 12 + 1).toNat < s.arr.length := by omega
    have hi2'' : (s.vars 12).toNat + 1 < s.arr.length := by omega
    have hto' : (s.vars 12 + 1).toNat = (s.vars 12).toNat + 1 := by omega
    have hdead' : ¬ (s.vars 4 < s.vars 12) := by omega
    by_cases he : s.vars 12 = s.vars 9
    · have h9 : 0 ≤ s.vars 9 := by omega
      have k1 : (s.vars 9).toNat < s.arr.length := by omega
      have k2 : 0 ≤ s.vars 9 + 1 := by omega
      have k3 : (s.vars 9).toNat + 1 < s.arr.length := by omega
      have k4 : (s.vars 9 + 1).toNat = (s.vars 9).toNat + 1 := by omega
      have k5 : ¬ (s.vars 4 < s.vars 9) := by omega
      simp [fin, St.run, Ex.eval, bind, Option.bind, pure, setVar_vars, b2i, hz, he, verdict, finish, h9, k1, k2, k3, k4, k5]
    · simp [fin, St.run, Ex.eval, bind, Option.bind, pure, setVar_vars, b2i, hz, he, verdict, finish, h12, hi1', hnn2', hi2'', hto', hdead']
  · have hi2'' : (s.vars 2 + s.vars 12).toNat + 1 < s.arr.length := by omega
    simp [fin, St.run, Ex.eval, bind, Option.bind, pure, setVar_vars, b2i, hz, verdict, finish, hdead, hnn, hi1, hnn2, hi2'', hto]


/-! ### putting the pieces together -/

theorem seq_normal {a b : St} {s s' : State} (h : a.run s = (s', .normal)) : (St.seq a b).run s = b.run s' := by
  simp [St.run, h]

/-- what the scanner guarantees when it calls `yy_get_next_buffer()`: the buffer has `yy_buf_size + 2` cells and a positive
    size, the token being matched starts inside the buffer, the scan position is past it and at most one past the end-of-buffer
    mark, the data fit the buffer, and the read size is positive -/
structure Pre (s : State) : Prop where
  len : (s.arr.length : Int) = s.vars 4 + 2
  size_pos : 1 ≤ s.vars 4
  t_nn : 0 ≤ s.vars 1
  t_lt : s.vars 1 < s.vars 0
  c_le : s.vars 0 ≤ s.vars 2 + 1
  n_le : s.vars 2 ≤ s.vars 4
  rbs : 1 ≤ s.vars 18

/-- number_to_move: the length of the unfinished token -/
def ntm (s : State) : Int := s.vars 0 - s.vars 1 - 1

/-- the state when the unfinished token has been moved to the start of the buffer -/
def moved (s : State) : State :=
  afterMove (setVar (setVar (setVar (setVar s 10 0) 11 (s.vars 1)) 12 (ntm s)) 13 0) (s.vars 1).toNat 0 (ntm s).toNat

theorem prefix_run (s : State) (hP : Pre s) (hfill : s.vars 5 ≠ 0) (rest : St) :
    (St.seq a1 (.seq a2 (.seq g1 (.seq g2 (.seq a3 (.seq mv rest)))))).run s = rest.run (moved s) := by
  have ⟨hlen, hpos, htn, htl, hcl, hnl, _⟩ := hP
  have h1 : a1.run s = (setVar s 10 0, .normal) := by simp [a1, St.run, Ex.eval]
  have h2 : a2.run (setVar s 10 0) = (setVar (setVar s 10 0) 11 (s.vars 1), .normal) := by
    simp [a2, St.run, Ex.eval, setVar_vars]
  have hg1 : g1.run (setVar (setVar s 10 0) 11 (s.vars 1)) = (setVar (setVar s 10 0) 11 (s.vars 1), .normal) := by
    have : ¬ (s.vars 2 + 1 < s.vars 0) := by omega
    simp [g1, St.run, Ex.eval, bind, Option.bind, pure, setVar_vars, b2i, this]
  have hg2 : g2.run (setVar (setVar s 10 0) 11 (s.vars 1)) = (setVar (setVar s 10 0) 11 (s.vars 1), .normal) := by
    simp [g2, St.run, Ex.eval, bind, Option.bind, pure, setVar_vars, b2i, hfill]
  have h3 : a3.run (setVar (setVar s 10 0) 11 (s.vars 1)) = (setVar (setVar (setVar s 10 0) 11 (s.vars 1)) 12 (ntm s), .normal) := by
    simp [a3, St.run, Ex.eval, bind, Option.bind, pure, setVar_vars, ntm]
  have hk : 0 ≤ ntm s := by unfold ntm; omega
  have hmv : mv.run (setVar (setVar (setVar s 10 0) 11 (s.vars 1)) 12 (ntm s)) = (moved s, .normal) := by
    have e : mv.run (setVar (setVar (setVar s 10 0) 11 (s.vars 1)) 12 (ntm s)) =
        loop (fun s' => mvCond.eval s') (fun s' => mvBody.run s') (s.arr.length + 3)
          (setVar (setVar (setVar (setVar s 10 0) 11 (s.vars 1)) 12 (ntm s)) 13 0) := by
      simp [mv, St.run, Ex.eval]
    rw [e]
    exact mv_loop (ntm s).toNat _ (s.vars 1).toNat 0 _ (by simp [setVar_vars]) (by simp [setVar_vars])
      (by simp [setVar_vars]; omega) (by simp [setVar_vars]; omega) (by simp; unfold ntm at *; omega) (by unfold ntm at *; omega)
  rw [seq_normal h1, seq_normal h2, seq_normal hg1, seq_normal hg2, seq_normal h3, seq_normal hmv]


theorem moved_vars (s : State) (y : Nat) (h0 : y ≠ 10) (h1 : y ≠ 11) (h2 : y ≠ 12) (h3 : y ≠ 13) : (moved s).vars y = s.vars y := by
  simp [moved, afterMove, setVar_vars, h0, h1, h2, h3]
theorem moved_12 (s : State) : (moved s).vars 12 = ntm s := by simp [moved, afterMove, setVar_vars]
theorem moved_arr (s : State) : (moved s).arr = moveFrom s.arr (s.vars 1).toNat 0 (ntm s).toNat := by simp [moved, afterMove]
theorem moved_log (s : State) : (moved s).log = s.log := by simp [moved, afterMove]

theorem verdict_vars (s : State) (y : Nat) (h14 : y ≠ 14) (h6 : y ≠ 6) : (verdict s).vars y = s.vars y := by
  unfold verdict; split
  · split <;> simp [setVar_vars, h14, h6]
  · simp [setVar_vars, h14]
theorem verdict_arr (s : State) : (verdict s).arr = s.arr := by
  unfold verdict; split
  · split <;> simp
  · simp
theorem verdict_14 (s : State) : (verdict s).vars 14 = if s.vars 2 ≠ 0 then 0 else if s.vars 12 = s.vars 9 then 1 else 2 := by
  unfold verdict; split
  · rename_i h; split <;> simp [setVar_vars, h]
  · rename_i h; simp [setVar_vars, h]
theorem verdict_6 (s : State) : (verdict s).vars 6 = if s.vars 2 = 0 ∧ s.vars 12 ≠ s.vars 9 then 2 else s.vars 6 := by
  unfold verdict; split
  · rename_i h; split <;> rename_i h' <;> simp [setVar_vars, h, h']
  · rename_i h; simp [setVar_vars, h]
theorem verdict_log (s : State) : (verdict s).log = s.log ++ if s.vars 2 = 0 ∧ s.vars 12 = s.vars 9 then [(0, 0)] else [] := by
  unfold verdict; split
  · rename_i h; split <;> rename_i h' <;> simp [h, h']
  · rename_i h; simp [h]

/-- the two end-of-buffer marks after the moved text and the bytes read -/
theorem marks (X mvd c : List Int) (k n : Nat) (hk : mvd.length = k) (hn : c.length = n) (hX : X.take k = mvd)
    (hlen : k + n + 2 ≤ X.length) :
    (((X.take k ++ c ++ X.drop (k + n)).set (k + n) 0).set (k + n + 1) 0).take (k + n + 2) = mvd ++ c ++ [0, 0] := by
  rw [hX]
  have hd : (X.drop (k + n)).length = X.length - (k + n) := by simp
  match hD : X.drop (k + n), hd with
  | [], h => simp at h; omega
  | [_], h => simp at h; omega
  | x0 :: x1 :: rest, _ =>
    have hP : (mvd ++ c).length = k + n := by simp [hk, hn]
    rw [List.set_append_right _ _ (by omega), hP, Nat.sub_self]
    rw [List.set_append_right _ _ (by omega), hP, Nat.add_sub_cancel_left]
    rw [List.take_append, hP, List.take_of_length_le (by omega)]
    have : k + n + 2 - (k + n) = 2 := by omega
    rw [this]
    simp

theorem chunk_length (s : State) (n : Nat) : (chunk s n).length = n := by simp [chunk]

/-- **what yy_get_next_buffer() leaves** when it took `n` bytes from the reader: the unfinished token at the start of the
    buffer, then exactly those bytes, then the two end-of-buffer marks; the counts of the scanner and of the buffer agree;
    everything inside a buffer that may have grown but never shrinks -/
structure Filled (s s' : State) (n : Nat) : Prop where
  text : s'.vars 1 = 0
  pos : s'.vars 0 = s.vars 0
  nchars : s'.vars 2 = ntm s + n
  bufn : s'.vars 3 = ntm s + n
  size_le : s.vars 4 ≤ s'.vars 4
  len : (s'.arr.length : Int) = s'.vars 4 + 2
  fits : ntm s + n ≤ s'.vars 4
  data : s'.arr.take ((ntm s).toNat + n + 2) = (s.arr.drop (s.vars 1).toNat).take (ntm s).toNat ++ chunk s n ++ [0, 0]
  status : s'.vars 6 = if n = 0 ∧ ntm s ≠ s.vars 9 then 2 else s.vars 6
  log : s'.log = s.log ++ if n = 0 ∧ ntm s = s.vars 9 then [(0, 0)] else []

/-- the value returned: go on scanning (0) if anything was read; else end of file (1) if only the yymore() prefix is
    pending, else match the pending text first (2) -/
def retOf (s : State) (n : Nat) : Int := if n ≠ 0 then 0 else if ntm s = s.vars 9 then 1 else 2

theorem finish_filled (s s6 : State) (n : Nat) (X : List Int) (h0 : s6.vars 0 = s.vars 0) (h9 : s6.vars 9 = s.vars 9)
    (h6 : s6.vars 6 = s.vars 6) (h2 : s6.vars 2 = n) (h12 : s6.vars 12 = ntm s) (hk : 0 ≤ ntm s) (hsz : s.vars 4 ≤ s6.vars 4)
    (hlen : (s6.arr.length : Int) = s6.vars 4 + 2) (hfit : ntm s + n ≤ s6.vars 4)
    (harr : s6.arr = X.take (ntm s).toNat ++ chunk s n ++ X.drop ((ntm s).toNat + n))
    (hX : X.take (ntm s).toNat = (s.arr.drop (s.vars 1).toNat).take (ntm s).toNat) (hXl : X.length = s6.arr.length)
    (hmv : ((s.arr.drop (s.vars 1).toNat).take (ntm s).toNat).length = (ntm s).toNat)
    (hlog : s6.log = s.log) :
    ∃ s', fin.run s6 = (s', .returned (retOf s n)) ∧ Filled s s' n ∧ s'.vars 4 = s6.vars 4 := by
  refine ⟨finish (verdict s6), ?_, ?_, ?_⟩
  · rw [fin_run s6 (by omega) (by omega) (by omega) hlen, verdict_14, h2, h12, h9]
    simp only [retOf]
    by_cases hn : n = 0
    · simp [hn]
    · have : (n : Int) ≠ 0 := by omega
      simp [hn, this]
  · have v2 := verdict_vars s6 2 (by decide) (by decide)
    have v12 := verdict_vars s6 12 (by decide) (by decide)
    have v0 := verdict_vars s6 0 (by decide) (by decide)
    have v4 := verdict_vars s6 4 (by decide) (by decide)
    have hsum : s6.vars 2 + s6.vars 12 = ntm s + n := by omega
    have hto : (ntm s + (n : Int)).toNat = (ntm s).toNat + n := by omega
    refine ⟨?_, ?_, ?_, ?_, ?_, ?_, ?_, ?_, ?_, ?_⟩
    · simp [finish, setVar_vars]
    · simp [finish, setVar_vars, v0, h0]
    · simp [finish, setVar_vars, v2, v12]; omega
    · simp [finish, setVar_vars, v2, v12]; omega
    · simp [finish, setVar_vars, v4]; omega
    · simp [finish, setVar_vars, v4, verdict_arr]; omega
    · simp [finish, setVar_vars, v4]; omega
    · simp only [finish, setVar_arr, verdict_arr, v2, v12, hsum, hto, harr]
      exact marks X _ _ _ n hmv (chunk_length s n) hX (by omega)
    · simp only [finish, setVar_vars]
      rw [verdict_6, h2, h12, h9, h6]
      by_cases hn : n = 0
      · simp [hn]
      · have : (n : Int) ≠ 0 := by omega
        simp [hn, this]
    · simp only [finish, setVar_log]
      rw [verdict_log, h2, h12, h9, hlog]
      by_cases hn : n = 0
      · simp [hn]
      · have : (n : Int) ≠ 0 := by omega
        simp [hn, this]


  · simp [finish, setVar_vars, verdict_vars s6 4 (by decide) (by decide)]

theorem grow_run (s : State) (hpos : 1 ≤ s.vars 4) (h15 : s.vars 15 = s.vars 4 - s.vars 12 - 1)
    (hlen : (s.arr.length : Int) = s.vars 4 + 2) (hle : s.vars 12 ≤ s.vars 4) (hcan : s.vars 7 ≠ 0 ∨ 1 ≤ s.vars 15)
    (h12 : 0 ≤ s.vars 12) :
    ∃ s', (St.while_ grCond grBody).run s = (s', .normal) ∧ Grown s s' ∧
      (s'.vars 4).toNat = growSize (s.vars 4).toNat (s.vars 12).toNat ((s.vars 12).toNat + 2) := by
  have e : (St.while_ grCond grBody).run s =
      loop (fun s' => grCond.eval s') (fun s' => grBody.run s') (s.arr.length + 3) s := by simp [St.run]
  rw [e]
  by_cases hroom : 1 ≤ s.vars 15
  · exact ⟨s, gr_skip s _ hroom, ⟨fun _ _ _ _ _ _ => rfl, Int.le_refl _, h15, hroom, hlen, ⟨[], by simp⟩, rfl⟩,
      (growSize_done _ _ (by omega) _).symm⟩
  · have hours : s.vars 7 ≠ 0 := by
      rcases hcan with h | h
      · exact h
      · exact absurd h hroom
    obtain ⟨s', hrun, hG, hsz⟩ := gr_loop 2 s (s.arr.length + 3) hpos hours h15 hlen (by omega) (by omega) h12
    exact ⟨s', hrun, hG, hsz _ (by omega)⟩

theorem grow_fatal (s : State) (h15 : s.vars 15 ≤ 0) (hours : s.vars 7 = 0) :
    ∃ s', (St.while_ grCond grBody).run s = (s', .fatal 1) ∧ s'.log = s.log := by
  have e : (St.while_ grCond grBody).run s =
      loop (fun s' => grCond.eval s') (fun s' => grBody.run s') (s.arr.length + 2 + 1) s := by simp [St.run]
  rw [e]
  exact gr_fatal s _ h15 hours

theorem seq_stop {a b : St} {s s' : State} {m : Nat} (h : a.run s = (s', .fatal m)) : (St.seq a b).run s = (s', .fatal m) := by
  simp [St.run, h]

/-- the moved text: `k` cells from `t` on -/
theorem moved_take (s : State) (hP : Pre s) :
    (moved s).arr.take (ntm s).toNat = (s.arr.drop (s.vars 1).toNat).take (ntm s).toNat ∧
    ((s.arr.drop (s.vars 1).toNat).take (ntm s).toNat).length = (ntm s).toNat ∧ (moved s).arr.length = s.arr.length := by
  have ⟨hlen, hpos, htn, htl, hcl, hnl, _⟩ := hP
  have hin : (s.vars 1).toNat + (ntm s).toNat ≤ s.arr.length := by unfold ntm; omega
  have hl : ((s.arr.drop (s.vars 1).toNat).take (ntm s).toNat).length = (ntm s).toNat := by simp; omega
  refine ⟨?_, hl, ?_⟩
  · rw [moved_arr, moveFrom_eq _ _ _ hin, List.take_append_of_le_length (by omega), List.take_of_length_le (by omega)]
  · rw [moved_arr, moveFrom_length]

/-- what the rest of the function needs to know about the state once the unfinished token has been moved (the default
    skeleton copies it in a loop, the c99 skeleton calls memmove) -/
structure MovedLike (s sM : State) : Prop where
  vars : ∀ y, y ≠ 10 → y ≠ 11 → y ≠ 12 → y ≠ 13 → sM.vars y = s.vars y
  v12 : sM.vars 12 = ntm s
  take : sM.arr.take (ntm s).toNat = (s.arr.drop (s.vars 1).toNat).take (ntm s).toNat
  mlen : ((s.arr.drop (s.vars 1).toNat).take (ntm s).toNat).length = (ntm s).toNat
  len : sM.arr.length = s.arr.length
  log : sM.log = s.log

theorem moved_like (s : State) (hP : Pre s) : MovedLike s (moved s) := by
  obtain ⟨a, b, c⟩ := moved_take s hP
  exact ⟨moved_vars s, moved_12 s, a, b, c, moved_log s⟩

/-- **no refill asked for** (`yy_fill_buffer` is 0, as for yy_scan_buffer/string/bytes): nothing is touched; end of file if
    only the end-of-buffer mark (and the yymore() prefix) was matched, else the pending text is to be matched first -/
theorem nextBuf_nofill (s : State) (hP : Pre s) (h5 : s.vars 5 = 0) :
    ∃ s', nextBuf.run s = (s', .returned (if s.vars 0 - s.vars 1 - s.vars 9 = 1 then 1 else 2)) ∧ s'.arr = s.arr ∧
      s'.log = s.log ∧ ∀ y, y ≠ 10 → y ≠ 11 → s'.vars y = s.vars y := by
  have ⟨hlen, hpos, htn, htl, hcl, hnl, _⟩ := hP
  have hg : ¬ (s.vars 2 + 1 < s.vars 0) := by omega
  by_cases hc : s.vars 0 - s.vars 1 - s.vars 9 = 1
  · refine ⟨setVar (setVar s 10 0) 11 (s.vars 1), ?_, rfl, rfl, ?_⟩
    · simp [nextBuf_shape, a1, a2, g1, g2, St.run, Ex.eval, bind, Option.bind, pure, setVar_vars, b2i, h5, hg, hc]
    · intro y h0 h1; simp [setVar_vars, h0, h1]
  · refine ⟨setVar (setVar s 10 0) 11 (s.vars 1), ?_, rfl, rfl, ?_⟩
    · simp [nextBuf_shape, a1, a2, g1, g2, St.run, Ex.eval, bind, Option.bind, pure, setVar_vars, b2i, h5, hg, hc]
    · intro y h0 h1; simp [setVar_vars, h0, h1]

theorem rest_eof_pending (s sM : State) (hP : Pre s) (hM : MovedLike s sM) (h6 : s.vars 6 = 2) :
    ∃ s', (St.seq fill fin).run sM = (s', .returned (retOf s 0)) ∧ Filled s s' 0 ∧ s'.vars 4 = s.vars 4 := by
  have ⟨hlen, hpos, htn, htl, hcl, hnl, _⟩ := hP
  have hmt := hM.take; have hml := hM.mlen; have hmlen := hM.len
  have mv := fun y (h : y ≠ 10 ∧ y ≠ 11 ∧ y ≠ 12 ∧ y ≠ 13) => hM.vars y h.1 h.2.1 h.2.2.1 h.2.2.2
  have hf : fill.run sM = (setVar (setVar sM 2 0) 3 0, .normal) := by
    have : sM.vars 6 = 2 := by rw [mv 6 (by decide)]; exact h6
    simp [fill, eofp, St.run, Ex.eval, bind, Option.bind, pure, setVar_vars, b2i, this]
  rw [seq_normal hf]
  have hk : 0 ≤ ntm s := by unfold ntm; omega
  suffices h : ∃ s', fin.run (setVar (setVar sM 2 0) 3 0) = (s', .returned (retOf s 0)) ∧ Filled s s' 0 ∧
      s'.vars 4 = (setVar (setVar sM 2 0) 3 0).vars 4 by
    obtain ⟨s', h1, h2, h3⟩ := h
    exact ⟨s', h1, h2, by rw [h3]; simp [setVar_vars, mv 4 (by decide)]⟩
  apply finish_filled s _ 0 sM.arr
  · simp [setVar_vars, mv 0 (by decide)]
  · simp [setVar_vars, mv 9 (by decide)]
  · simp [setVar_vars, mv 6 (by decide)]
  · simp [setVar_vars]
  · simp [setVar_vars, hM.v12]
  · exact hk
  · simp [setVar_vars, mv 4 (by decide)]
  · simp [setVar_vars, mv 4 (by decide), hmlen]; omega
  · simp [setVar_vars, mv 4 (by decide)]; unfold ntm; omega
  · simp [chunk]
  · exact hmt
  · simp
  · exact hml
  · simp [hM.log]

/-- **the end of the input was seen before** (YY_BUFFER_EOF_PENDING): the reader is not asked again -/
theorem nextBuf_eof_pending (s : State) (hP : Pre s) (h5 : s.vars 5 ≠ 0) (h6 : s.vars 6 = 2) :
    ∃ s', nextBuf.run s = (s', .returned (retOf s 0)) ∧ Filled s s' 0 ∧ s'.vars 4 = s.vars 4 := by
  rw [nextBuf_shape, prefix_run s hP h5]
  exact rest_eof_pending s (moved s) hP (moved_like s hP) h6

theorem afterRead_vars (s : State) (y : Nat) (h15 : y ≠ 15) (h2 : y ≠ 2) (h3 : y ≠ 3) : (afterRead s).vars y = s.vars y := by
  simp [afterRead, setVar_vars, h15, h2, h3]

/-- exactly how much is asked for and how far the buffer grew: the room left after doubling the size until one byte fits,
    at most YY_READ_BUF_SIZE -/
structure Exact (s s' : State) (m : Int) : Prop where
  asked : m = min (s.vars 18) (s'.vars 4 - ntm s - 1)
  size : (s'.vars 4).toNat = growSize (s.vars 4).toNat (ntm s).toNat ((ntm s).toNat + 2)

theorem rest_read (s sM : State) (hP : Pre s) (hM : MovedLike s sM) (h6 : s.vars 6 ≠ 2)
    (hcan : s.vars 7 ≠ 0 ∨ 1 ≤ s.vars 4 - ntm s - 1) :
    ∃ s' m, 1 ≤ m ∧ m ≤ s.vars 18 ∧ (St.seq fill fin).run sM = (s', .returned (retOf s (got s m))) ∧ Filled s s' (got s m) ∧
      Exact s s' m := by
  have ⟨hlen, hpos, htn, htl, hcl, hnl, hrbs⟩ := hP
  have hmt := hM.take; have hml := hM.mlen; have hmlen := hM.len
  have moved_12 := hM.v12
  have moved_log := hM.log
  have moved_vars := fun y a b c d => hM.vars y a b c d
  have hk : 0 ≤ ntm s := by unfold ntm; omega
  have hkle : ntm s ≤ s.vars 4 := by unfold ntm; omega
  have mv4 := moved_vars 4 (by decide) (by decide) (by decide) (by decide)
  have mv6 := moved_vars 6 (by decide) (by decide) (by decide) (by decide)
  have mv7 := moved_vars 7 (by decide) (by decide) (by decide) (by decide)
  -- the state when the room left has been computed
  have h4run : (St.assign 15 (.sub (.sub (.var 4) (.var 12)) (.lit 1))).run sM =
      (setVar sM 15 (s.vars 4 - ntm s - 1), .normal) := by
    simp [St.run, Ex.eval, bind, Option.bind, pure, mv4, moved_12]
  obtain ⟨s5, hgrow, hG, hgsz⟩ := grow_run (setVar sM 15 (s.vars 4 - ntm s - 1))
    (by simp [setVar_vars, mv4]; exact hpos) (by simp [setVar_vars, mv4, moved_12])
    (by simp [setVar_vars, mv4, hmlen]; exact hlen) (by simp [setVar_vars, mv4, moved_12]; exact hkle)
    (by simp [setVar_vars, mv7]; exact hcan) (by simp [setVar_vars, moved_12]; exact hk)
  have hgsz' : (s5.vars 4).toNat = growSize (s.vars 4).toNat (ntm s).toNat ((ntm s).toNat + 2) := by
    simpa [setVar_vars, mv4, moved_12] using hgsz
  have fr : ∀ y, y ≠ 15 → y ≠ 8 → y ≠ 4 → y ≠ 17 → y ≠ 16 → y ≠ 10 → y ≠ 11 → y ≠ 12 → y ≠ 13 → s5.vars y = s.vars y := by
    intro y a b c d e f g h i
    rw [hG.frame y a b c d e]
    simp [setVar_vars, a, moved_vars y f g h i]
  have s5_12 : s5.vars 12 = ntm s := by
    rw [hG.frame 12 (by decide) (by decide) (by decide) (by decide) (by decide)]; simp [setVar_vars, moved_12]
  have s5_18 : s5.vars 18 = s.vars 18 := fr 18 (by decide) (by decide) (by decide) (by decide) (by decide) (by decide) (by decide) (by decide) (by decide)
  have s5_4 : s.vars 4 ≤ s5.vars 4 := by have := hG.size_le; simpa [setVar_vars, mv4] using this
  have hrd : rdTail.run s5 = (afterRead s5, .normal) :=
    rdTail_run s5 hG.room (by rw [s5_12]; exact hk) (by rw [s5_18]; exact hrbs) (by have := hG.ntr; have := hG.len; omega)
  have hfill : fill.run sM = (afterRead s5, .normal) := by
    have e : fill.run sM = rd.run sM := by
      simp [fill, St.run, Ex.eval, bind, Option.bind, pure, b2i, mv6, h6]
    rw [e, rd, seq_normal h4run, seq_normal hgrow, hrd]
  rw [seq_normal hfill]
  have hroom := hG.room
  have hask1 : 1 ≤ ask s5 := by unfold ask; split <;> omega
  have hask2 : ask s5 ≤ s.vars 18 := by unfold ask; split <;> omega
  have hask3 : ask s5 ≤ s5.vars 15 := by unfold ask; split <;> omega
  have hgot : got s5 (ask s5) = got s (ask s5) := by
    unfold got inLen
    rw [fr 900 (by decide) (by decide) (by decide) (by decide) (by decide) (by decide) (by decide) (by decide) (by decide)]
  have hchunk : ∀ n, chunk s5 n = chunk s n := by
    intro n
    unfold chunk
    apply List.map_congr_left
    intro i _
    have hi := fun x hx => inByte_ne i x hx
    exact fr (inByte i) (hi 15 (by omega)) (hi 8 (by omega)) (hi 4 (by omega)) (hi 17 (by omega)) (hi 16 (by omega))
      (hi 10 (by omega)) (hi 11 (by omega)) (hi 12 (by omega)) (hi 13 (by omega))
  have hgle : (got s (ask s5) : Int) ≤ ask s5 := by unfold got; omega
  obtain ⟨e, he⟩ := hG.ext
  have hX : s5.arr.take (ntm s).toNat = (s.arr.drop (s.vars 1).toNat).take (ntm s).toNat := by
    rw [he]
    simp only [setVar_arr]
    rw [List.take_append_of_le_length (by rw [hmlen]; omega), hmt]
  have hfin := finish_filled s (afterRead s5) (got s5 (ask s5)) s5.arr
    (by rw [afterRead_vars s5 0 (by decide) (by decide) (by decide)]; exact fr 0 (by decide) (by decide) (by decide) (by decide) (by decide) (by decide) (by decide) (by decide) (by decide))
    (by rw [afterRead_vars s5 9 (by decide) (by decide) (by decide)]; exact fr 9 (by decide) (by decide) (by decide) (by decide) (by decide) (by decide) (by decide) (by decide) (by decide))
    (by rw [afterRead_vars s5 6 (by decide) (by decide) (by decide)]; exact fr 6 (by decide) (by decide) (by decide) (by decide) (by decide) (by decide) (by decide) (by decide) (by decide))
    (by simp [afterRead, setVar_vars])
    (by rw [afterRead_vars s5 12 (by decide) (by decide) (by decide)]; exact s5_12)
    hk
    (by rw [afterRead_vars s5 4 (by decide) (by decide) (by decide)]; exact s5_4)
    ?_ ?_ ?_ hX ?_ hml ?_
  · obtain ⟨s', hr1, hr2, hr3⟩ := hfin
    rw [hgot] at hr1 hr2
    rw [afterRead_vars s5 4 (by decide) (by decide) (by decide)] at hr3
    refine ⟨s', ask s5, hask1, hask2, hr1, hr2, ?_, ?_⟩
    · rw [hr3]; have := hG.ntr; unfold ask; rw [s5_18, s5_12] at *; split <;> omega
    · rw [hr3]; exact hgsz'
  · -- the length is unchanged by the read
    have hl : (afterRead s5).arr.length = s5.arr.length := by
      have := hG.len; have := hG.ntr
      simp only [afterRead, setVar_arr, List.length_append, List.length_take, List.length_drop, chunk_length, s5_12]
      rw [hgot]; omega
    rw [hl, afterRead_vars s5 4 (by decide) (by decide) (by decide)]; exact hG.len
  · rw [afterRead_vars s5 4 (by decide) (by decide) (by decide), hgot]
    have := hG.ntr; omega
  · simp [afterRead, s5_12, hchunk]
  · have := hG.len; have := hG.ntr
    simp only [afterRead, setVar_arr, List.length_append, List.length_take, List.length_drop, chunk_length, s5_12]
    rw [hgot]; omega
  · simp [afterRead, hG.log, moved_log]

/-- **the reader is asked**: for at least one byte and at most YY_READ_BUF_SIZE, after the buffer was enlarged if the
    unfinished token left no room; what it delivers is appended to that token -/
theorem nextBuf_read (s : State) (hP : Pre s) (h5 : s.vars 5 ≠ 0) (h6 : s.vars 6 ≠ 2)
    (hcan : s.vars 7 ≠ 0 ∨ 1 ≤ s.vars 4 - ntm s - 1) :
    ∃ s' m, 1 ≤ m ∧ m ≤ s.vars 18 ∧ nextBuf.run s = (s', .returned (retOf s (got s m))) ∧ Filled s s' (got s m) ∧
      Exact s s' m := by
  rw [nextBuf_shape, prefix_run s hP h5]
  exact rest_read s (moved s) hP (moved_like s hP) h6 hcan

theorem rest_overflow (s sM : State) (hM : MovedLike s sM) (h6 : s.vars 6 ≠ 2)
    (hours : s.vars 7 = 0) (hfull : s.vars 4 - ntm s - 1 ≤ 0) :
    ∃ s', (St.seq fill fin).run sM = (s', .fatal 1) ∧ s'.log = s.log := by
  have moved_12 := hM.v12
  have moved_log := hM.log
  have moved_vars := fun y a b c d => hM.vars y a b c d
  have mv4 := moved_vars 4 (by decide) (by decide) (by decide) (by decide)
  have mv6 := moved_vars 6 (by decide) (by decide) (by decide) (by decide)
  have mv7 := moved_vars 7 (by decide) (by decide) (by decide) (by decide)
  have h4run : (St.assign 15 (.sub (.sub (.var 4) (.var 12)) (.lit 1))).run sM =
      (setVar sM 15 (s.vars 4 - ntm s - 1), .normal) := by
    simp [St.run, Ex.eval, bind, Option.bind, pure, mv4, moved_12]
  obtain ⟨s', hrun, hlog⟩ := grow_fatal (setVar sM 15 (s.vars 4 - ntm s - 1))
    (by simp [setVar_vars]; exact hfull) (by simp [setVar_vars, mv7]; exact hours)
  refine ⟨s', ?_, by rw [hlog]; simp [moved_log]⟩
  have hfill : fill.run sM = (s', .fatal 1) := by
    have e : fill.run sM = rd.run sM := by
      simp [fill, St.run, Ex.eval, bind, Option.bind, pure, b2i, mv6, h6]
    rw [e, rd, seq_normal h4run, seq_stop hrun]
  rw [seq_stop hfill]


/-- **no room and not ours**: a buffer the scanner does not own cannot be enlarged — the documented fatal error -/
theorem nextBuf_overflow (s : State) (hP : Pre s) (h5 : s.vars 5 ≠ 0) (h6 : s.vars 6 ≠ 2)
    (hours : s.vars 7 = 0) (hfull : s.vars 4 - ntm s - 1 ≤ 0) :
    ∃ s', nextBuf.run s = (s', .fatal 1) ∧ s'.log = s.log := by
  rw [nextBuf_shape, prefix_run s hP h5]
  exact rest_overflow s (moved s) (moved_like s hP) h6 hours hfull

/-! ### the statements the property needs -/

/-- what is proved of a translation of yy_get_next_buffer() (the default skeleton's here, the c99 skeleton's in
    `C03NextBufC99.lean`) -/
structure Correct (prog : St) : Prop where
  nofill : ∀ s, Pre s → s.vars 5 = 0 →
    ∃ s', prog.run s = (s', .returned (if s.vars 0 - s.vars 1 - s.vars 9 = 1 then 1 else 2)) ∧ s'.arr = s.arr ∧
      s'.log = s.log ∧ ∀ y, y ≠ 10 → y ≠ 11 → s'.vars y = s.vars y
  eof_pending : ∀ s, Pre s → s.vars 5 ≠ 0 → s.vars 6 = 2 →
    ∃ s', prog.run s = (s', .returned (retOf s 0)) ∧ Filled s s' 0 ∧ s'.vars 4 = s.vars 4
  read : ∀ s, Pre s → s.vars 5 ≠ 0 → s.vars 6 ≠ 2 → (s.vars 7 ≠ 0 ∨ 1 ≤ s.vars 4 - ntm s - 1) →
    ∃ s' m, 1 ≤ m ∧ m ≤ s.vars 18 ∧ prog.run s = (s', .returned (retOf s (got s m))) ∧ Filled s s' (got s m) ∧ Exact s s' m
  overflow : ∀ s, Pre s → s.vars 5 ≠ 0 → s.vars 6 ≠ 2 → s.vars 7 = 0 → s.vars 4 - ntm s - 1 ≤ 0 →
    ∃ s', prog.run s = (s', .fatal 1) ∧ s'.log = s.log

theorem nextBuf_correct : Correct nextBuf := ⟨nextBuf_nofill, nextBuf_eof_pending, nextBuf_read, nextBuf_overflow⟩

theorem Correct.never_out_of_bounds {prog : St} (hC : Correct prog) (s : State) (hP : Pre s) :
    (prog.run s).2 ≠ .oob ∧ (prog.run s).2 ≠ .fuel := by
  by_cases h5 : s.vars 5 = 0
  · obtain ⟨s', h, _⟩ := hC.nofill s hP h5
    rw [h]; exact ⟨by simp, by simp⟩
  · by_cases h6 : s.vars 6 = 2
    · obtain ⟨s', h, _⟩ := hC.eof_pending s hP h5 h6
      rw [h]; exact ⟨by simp, by simp⟩
    · by_cases hcan : s.vars 7 ≠ 0 ∨ 1 ≤ s.vars 4 - ntm s - 1
      · obtain ⟨s', m, _, _, h, _⟩ := hC.read s hP h5 h6 hcan
        rw [h]; exact ⟨by simp, by simp⟩
      · have h7 : s.vars 7 = 0 := by
          by_cases h : s.vars 7 = 0
          · exact h
          · exact absurd (Or.inl h) hcan
        have hfull : s.vars 4 - ntm s - 1 ≤ 0 := by
          by_cases h : 1 ≤ s.vars 4 - ntm s - 1
          · exact absurd (Or.inr h) hcan
          · omega
        obtain ⟨s', h, _⟩ := hC.overflow s hP h5 h6 h7 hfull
        rw [h]; exact ⟨by simp, by simp⟩

theorem Correct.eof_only_when_reader_dry {prog : St} (hC : Correct prog) (s : State) (hP : Pre s) (h5 : s.vars 5 ≠ 0)
    (h6 : s.vars 6 ≠ 2) (v : Int) (hret : (prog.run s).2 = .returned v) (hv : v ≠ 0) : s.vars inLen ≤ 0 := by
  by_cases hcan : s.vars 7 ≠ 0 ∨ 1 ≤ s.vars 4 - ntm s - 1
  · obtain ⟨s', m, hm, _, h, _⟩ := hC.read s hP h5 h6 hcan
    rw [h] at hret
    simp only [Outcome.returned.injEq] at hret
    by_cases hg : got s m = 0
    · unfold got at hg; omega
    · exfalso; apply hv; rw [← hret]; simp [retOf, hg]
  · have h7 : s.vars 7 = 0 := by
      by_cases h : s.vars 7 = 0
      · exact h
      · exact absurd (Or.inl h) hcan
    have hfull : s.vars 4 - ntm s - 1 ≤ 0 := by
      by_cases h : 1 ≤ s.vars 4 - ntm s - 1
      · exact absurd (Or.inr h) hcan
      · omega
    obtain ⟨s', h, _⟩ := hC.overflow s hP h5 h6 h7 hfull
    rw [h] at hret; simp at hret

theorem Correct.delivered_is_scanned {prog : St} (hC : Correct prog) (s : State) (hP : Pre s) (h5 : s.vars 5 ≠ 0)
    (h6 : s.vars 6 ≠ 2) (hcan : s.vars 7 ≠ 0 ∨ 1 ≤ s.vars 4 - ntm s - 1) (hin : 1 ≤ s.vars inLen) :
    ∃ (s' : State) (n : Nat), 1 ≤ n ∧ (n : Int) ≤ s.vars inLen ∧ prog.run s = (s', .returned 0) ∧
      s'.arr.take ((ntm s).toNat + n + 2) = (s.arr.drop (s.vars 1).toNat).take (ntm s).toNat ++ chunk s n ++ [0, 0] ∧
      s'.vars 2 = ntm s + n ∧ s'.vars 1 = 0 := by
  obtain ⟨s', m, hm, _, h, hF, _⟩ := hC.read s hP h5 h6 hcan
  have hg : 1 ≤ got s m := by unfold got; omega
  refine ⟨s', got s m, hg, by unfold got; omega, ?_, hF.data, hF.nchars, hF.text⟩
  rw [h]; simp [retOf]; omega

/-- **C13 for yy_get_next_buffer()**: whatever the buffer size, the fill level, the position and length of the unfinished
    token and whatever the reader delivers within its contract, no cell outside the buffer is read or written (the reader is
    given a window that lies inside it) and both loops end -/
theorem never_out_of_bounds (s : State) (hP : Pre s) : (nextBuf.run s).2 ≠ .oob ∧ (nextBuf.run s).2 ≠ .fuel :=
  nextBuf_correct.never_out_of_bounds s hP

/-- **C03 / C10: no end of file while the reader has input.**  On a buffer that is refilled and has not seen the end of its
    input, yy_get_next_buffer() says "end of file" or "last match" only if the reader, asked for at least one byte,
    delivered none -/
theorem eof_only_when_reader_dry (s : State) (hP : Pre s) (h5 : s.vars 5 ≠ 0) (h6 : s.vars 6 ≠ 2) (v : Int)
    (hret : (nextBuf.run s).2 = .returned v) (hv : v ≠ 0) : s.vars inLen ≤ 0 :=
  nextBuf_correct.eof_only_when_reader_dry s hP h5 h6 v hret hv

/-- **C03: what was delivered is what will be scanned.**  When the reader delivers `n > 0` bytes, the function says "go on",
    and the buffer holds the unfinished token, those `n` bytes in order, and the end marks — nothing lost, nothing repeated -/
theorem delivered_is_scanned (s : State) (hP : Pre s) (h5 : s.vars 5 ≠ 0) (h6 : s.vars 6 ≠ 2)
    (hcan : s.vars 7 ≠ 0 ∨ 1 ≤ s.vars 4 - ntm s - 1) (hin : 1 ≤ s.vars inLen) :
    ∃ (s' : State) (n : Nat), 1 ≤ n ∧ (n : Int) ≤ s.vars inLen ∧ nextBuf.run s = (s', .returned 0) ∧
      s'.arr.take ((ntm s).toNat + n + 2) = (s.arr.drop (s.vars 1).toNat).take (ntm s).toNat ++ chunk s n ++ [0, 0] ∧
      s'.vars 2 = ntm s + n ∧ s'.vars 1 = 0 :=
  nextBuf_correct.delivered_is_scanned s hP h5 h6 hcan hin

/-! ### the hypotheses are met: a 4-byte buffer holding "abc", the token "bc" unfinished, a reader offering five bytes -/

def sEx : State :=
  { vars := fun y => if y = 0 then 4 else if y = 1 then 1 else if y = 2 then 3 else if y = 3 then 3 else if y = 4 then 4
                     else if y = 5 then 1 else if y = 6 then 1 else if y = 7 then 1 else if y = 8 then 1 else if y = 18 then 8192
                     else if y = 900 then 5 else if y = 901 then 120 else if y = 902 then 121 else if y = 903 then 122 else 0,
    arr := [97, 98, 99, 0, 0, 0] }

example : Pre sEx := ⟨by decide, by decide, by decide, by decide, by decide, by decide, by decide⟩
/-- one byte of room: one byte is taken -/
example : (nextBuf.run sEx).2 = .returned 0 ∧ (nextBuf.run sEx).1.arr = [98, 99, 120, 0, 0, 0] ∧ (nextBuf.run sEx).1.vars 2 = 3 := by
  decide
/-- the token fills the buffer: it doubles, and the reader is asked for what fits then -/
def sEx2 : State := { sEx with vars := fun y => if y = 1 then 0 else if y = 0 then 5 else if y = 2 then 4 else sEx.vars y,
                                arr := [97, 98, 99, 100, 0, 0] }
example : Pre sEx2 := ⟨by decide, by decide, by decide, by decide, by decide, by decide, by decide⟩
example : (nextBuf.run sEx2).2 = .returned 0 ∧ (nextBuf.run sEx2).1.arr = [97, 98, 99, 100, 120, 121, 122, 0, 0, 2989] ∧
    (nextBuf.run sEx2).1.vars 4 = 8 := by
  decide

end FlexVerif.C03NextBuf

/-
  Props/C19SymbolsR3.lean — C19: `%option` word … check_options() … readin(), rows part 3 (see Props/C19Symbols.lean).
-/
import FlexVerif.Props.C19Symbols
namespace FlexVerif.C19Opts
open FlexVerif.Opt FlexVerif.Gen.Options

def reaches3 : List (Stmt × Fld × Bool × Cond) := [
  (O.o_yyread_off, F.sym_M4_MODE_USER_YYREAD, true, .ff),
  (O.o_yypanic_off, F.sym_M4_YY_NO_YYPANIC, true, .ff),
  (O.o_yyalloc_off, F.sym_M4_YY_NO_FLEX_ALLOC, true, .ff),
  (O.o_yyrealloc_off, F.sym_M4_YY_NO_FLEX_REALLOC, true, .ff),
  (O.o_yyfree_off, F.sym_M4_YY_NO_FLEX_FREE, true, .ff),
  (O.o_yy_push_state_off, F.sym_M4_YY_NO_PUSH_STATE, true, .ff),
  (O.o_yy_pop_state_off, F.sym_M4_YY_NO_POP_STATE, true, .ff),
  (O.o_yy_top_state_off, F.sym_M4_YY_NO_TOP_STATE, true, .ff),
  (O.o_yy_scan_buffer_off, F.sym_M4_YY_NO_SCAN_BUFFER, true, .ff),
  (O.o_yy_scan_bytes_off, F.sym_M4_YY_NO_SCAN_BYTES, true, .ff),
  (O.o_yy_scan_string_off, F.sym_M4_YY_NO_SCAN_STRING, true, .ff),
  (O.o_yyget_extra_off, F.sym_M4_YY_NO_GET_EXTRA, true, .ff),
  (O.o_yyset_extra_off, F.sym_M4_YY_NO_SET_EXTRA, true, .ff),
  (O.o_yyget_leng_off, F.sym_M4_YY_NO_GET_LENG, true, .ff),
  (O.o_yyget_text_off, F.sym_M4_YY_NO_GET_TEXT, true, .ff)]

theorem options_reach_skeleton_3 : ∀ r ∈ reaches3, ∀ st, Ok st →
    ((pipeline r.1).run st).err.isSome = true ∨ r.2.2.2.eval st = true ∨
      (reachQ r).eval ((pipeline r.1).run st).st = true :=
  reach_sound reaches3 (by decide +kernel)

end FlexVerif.C19Opts

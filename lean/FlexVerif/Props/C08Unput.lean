/-
  Props/C08Unput.lean — C08, yyunput(): theorems about the program of `Gen/Unput.lean`, which
  `tools/fv/gen_unput.py` translates from the `yyunput_r()` of a scanner flex has just generated.
  The character buffer is an array of `yy_buf_size + 2` cells, every `char *` an offset into it.
  For every buffer size, fill level, scan position and pushed-back character: either the documented
  "push-back overflow" error, or the unread input afterwards is the pushed-back character followed by
  the unread input before — also when the contents had to be shifted to the end of the buffer to make
  room — the two end-of-buffer marks stand right after the data, the scanner's and the buffer's own
  character count agree after a shift, and no access is out of bounds.
-/
import FlexVerif.Imp.Lang
import FlexVerif.Gen.Unput
namespace FlexVerif.C08Unput
open FlexVerif.Imp FlexVerif.Gen.Unput

/-- copy `m` cells upwards by `d`, last cell first (the `while (source > buf) *--dest = *--source;` loop) -/
def shiftUp (arr : List Int) : Nat → Nat → List Int
  | 0, _ => arr
  | m + 1, d => shiftUp (arr.set (m + d) (arr.getD m 0)) m d

theorem shiftUp_length (arr : List Int) (m d : Nat) : (shiftUp arr m d).length = arr.length := by
  induction m generalizing arr with
  | zero => rfl
  | succ m ih => simp [shiftUp, ih]

/-- what the copy leaves: cells `d … m+d-1` hold the old cells `0 … m-1`, the rest is as before -/
theorem shiftUp_get (arr : List Int) (m d : Nat) (h : m + d ≤ arr.length) (j : Nat) :
    (shiftUp arr m d)[j]? = if d ≤ j ∧ j < m + d then arr[j - d]? else arr[j]? := by
  induction m generalizing arr with
  | zero =>
    simp only [shiftUp]
    split
    · rename_i hc; omega
    · rfl
  | succ m ih =>
    simp only [shiftUp]
    rw [ih _ (by simp; omega)]
    have hm : m < arr.length := by omega
    by_cases h1 : d ≤ j ∧ j < m + d
    · rw [if_pos h1, if_pos ⟨h1.1, by omega⟩]
      by_cases hd : d = 0
      · subst hd
        by_cases hj : j = m
        · omega
        · rw [List.getElem?_set_ne (by omega)]
      · rw [List.getElem?_set_ne (by omega)]
    · rw [if_neg h1]
      by_cases h2 : j = m + d
      · subst h2
        rw [if_pos ⟨by omega, by omega⟩, List.getElem?_set_self (by omega)]
        simp [List.getD_eq_getElem?_getD, List.getElem?_eq_getElem hm]
      · rw [if_neg (by omega), List.getElem?_set_ne (by omega)]

def copyCond : Ex := .lt (.lit 0) (.var 10)
def copyBody : St :=
  .seq (.assign 9 (.add (.var 9) (.lit (-1)))) (.seq (.assign 10 (.add (.var 10) (.lit (-1)))) (.store (.var 9) (.idx (.var 10))))

theorem setVar_vars (s : State) (x y : Nat) (v : Int) : (setVar s x v).vars y = if y = x then v else s.vars y := rfl
@[simp] theorem setVar_arr (s : State) (x : Nat) (v : Int) : (setVar s x v).arr = s.arr := rfl
@[simp] theorem setVar_log (s : State) (x : Nat) (v : Int) : (setVar s x v).log = s.log := rfl

/-- the state after the copy loop: `source` is 0, `dest` is the shift distance, the array is shifted -/
def afterCopy (s : State) (m d : Nat) : State :=
  { s with vars := fun y => if y = 10 then 0 else if y = 9 then (d : Int) else s.vars y, arr := shiftUp s.arr m d }

theorem copy_loop : ∀ (m : Nat) (s : State) (d fuel : Nat), s.vars 10 = m → s.vars 9 = (m : Int) + d →
    m + d ≤ s.arr.length → m + 1 ≤ fuel →
    loop (fun s' => copyCond.eval s') (fun s' => copyBody.run s') fuel s = (afterCopy s m d, .normal) := by
  intro m
  induction m with
  | zero =>
    intro s d fuel h10 h9 _ hf
    obtain ⟨f, rfl⟩ : ∃ f, fuel = f + 1 := ⟨fuel - 1, by omega⟩
    have h10' : s.vars 10 = 0 := by simpa using h10
    have hc : copyCond.eval s = some 0 := by
      simp [copyCond, Ex.eval, bind, Option.bind, pure, h10', b2i]
    rw [loop]
    try dsimp only
    rw [hc]
    simp only [bne_self_eq_false, Bool.false_eq_true, if_false]
    congr 1
    simp only [afterCopy, shiftUp]
    cases s with
    | mk vars arr log =>
      congr 1
      funext y
      by_cases hy : y = 10
      · subst hy; simpa using h10'
      · by_cases hy9 : y = 9
        · subst hy9; simp at h9; simpa using h9
        · simp [hy, hy9]
  | succ m ih =>
    intro s d fuel h10 h9 hlen hf
    obtain ⟨f, rfl⟩ : ∃ f, fuel = f + 1 := ⟨fuel - 1, by omega⟩
    have hpos : (0 : Int) < s.vars 10 := by rw [h10]; omega
    have hm : m < s.arr.length := by omega
    have hmd : m + d < s.arr.length := by omega
    have e9 : s.vars 9 + -1 = ((m + d : Nat) : Int) := by rw [h9]; push_cast; omega
    have e10 : s.vars 10 + -1 = (m : Int) := by rw [h10]; push_cast; omega
    have hgd : s.arr.getD m 0 = s.arr[m]'hm := by
      simp [List.getD_eq_getElem?_getD, List.getElem?_eq_getElem hm]
    have hbody : copyBody.run s =
        ({ (setVar (setVar s 9 ((m + d : Nat) : Int)) 10 (m : Int)) with arr := s.arr.set (m + d) (s.arr.getD m 0) }, .normal) := by
      rw [hgd]
      have hto : ((m : Int) + (d : Int)).toNat = m + d := by omega
      have hnn : (0 : Int) ≤ (m : Int) + (d : Int) := by omega
      simp [copyBody, St.run, Ex.eval, bind, Option.bind, pure, setVar_vars, e9, e10, hm, hmd, hto, hnn]
    have hc : copyCond.eval s = some 1 := by
      simp [copyCond, Ex.eval, bind, Option.bind, pure, b2i, hpos]
    rw [loop]
    try dsimp only
    rw [hc, hbody]
    have h1 : ((1 : Int) != 0) = true := by decide
    simp only [h1, if_true]
    rw [ih _ d f (by simp [setVar_vars]) (by simp [setVar_vars]) (by simp; omega) (by omega)]
    congr 1
    simp only [afterCopy, shiftUp]
    congr 1
    funext y
    by_cases hy : y = 10
    · simp [hy]
    · by_cases hy9 : y = 9
      · simp [hy9]
      · simp [hy, hy9, setVar_vars]

/-! ### the pieces of `yyunput_r` -/

def pre1 : St := .assign 6 (.var 0)                                  -- yy_cp = yy_c_buf_p
def pre2 : St := .store (.var 6) (.var 1)                            -- *yy_cp = yy_hold_char
def needShift : Ex := .lt (.var 6) (.add (.lit 0) (.lit 2))          -- yy_cp < buf + 2
def sh1 : St := .assign 8 (.add (.var 2) (.lit 2))                   -- number_to_move = yy_n_chars + 2
def sh2 : St := .assign 9 (.add (.var 4) (.lit 2))                   -- dest = &buf[yy_buf_size + 2]
def sh3 : St := .assign 10 (.var 8)                                  -- source = &buf[number_to_move]
def shRest : St :=
  .seq (.assign 6 (.add (.var 6) (.sub (.var 9) (.var 10))))
  (.seq (.assign 7 (.add (.var 7) (.sub (.var 9) (.var 10))))
  (.seq (.seq (.assign 2 (.var 4)) (.assign 3 (.var 2)))
        (.ite (.lt (.var 6) (.add (.lit 0) (.lit 2))) (.fatal 0) .skip)))
def tail_ : St :=
  .seq (.seq (.assign 6 (.add (.var 6) (.lit (-1)))) (.store (.var 6) (.var 11)))
  (.seq (.assign 5 (.var 7)) (.seq (.assign 1 (.idx (.var 6))) (.assign 0 (.var 6))))

/-- the translated function is made of these pieces (a change of the source shows here first) -/
theorem unput_shape : unput =
    .seq pre1 (.seq pre2 (.seq (.ite needShift (.seq sh1 (.seq sh2 (.seq sh3 (.seq (.while_ copyCond copyBody) shRest)))) .skip) tail_)) := rfl

/-- the state `yyunput` is called in: `B` = yy_buf_size, `n` = yy_n_chars characters in the buffer,
    `p` = yy_c_buf_p (the cell there holds the NUL that ends yytext, the character itself is in
    yy_hold_char), `bp` = the yy_bp handed in -/
structure Pre (s : State) (B n p bp : Nat) : Prop where
  len : s.arr.length = B + 2
  hn : n ≤ B
  vn : s.vars 2 = n
  vb : s.vars 4 = B
  hp : p ≤ n
  vp : s.vars 0 = p
  hbp : bp ≤ p
  vbp : s.vars 7 = bp
  eob1 : (s.arr.set p (s.vars 1))[n]? = some 0
  eob2 : s.arr[n + 1]? = some 0

/-- the text still to be scanned: from the scan position (with the hold character put back) to the
    end of the data -/
def unread (s : State) (n p : Nat) : List Int := ((s.arr.set p (s.vars 1)).drop p).take (n - p)

theorem tail_run (s : State) (q : Nat) (c : Int) (hq : 1 ≤ q) (hlen : q < s.arr.length) (h6 : s.vars 6 = q) (h11 : s.vars 11 = c) :
    tail_.run s = ({ (setVar (setVar (setVar (setVar s 6 ((q - 1 : Nat) : Int)) 5 (s.vars 7)) 1 c) 0 ((q - 1 : Nat) : Int)) with
                      arr := s.arr.set (q - 1) c }, .normal) := by
  have e6 : s.vars 6 + -1 = ((q - 1 : Nat) : Int) := by rw [h6]; omega
  have hlt : q - 1 < s.arr.length := by omega
  simp [tail_, St.run, Ex.eval, bind, Option.bind, pure, setVar_vars, e6, h11, hlt]
  rfl

/-- the state `yyunput` leaves (when it returns): `n'` characters, scan position `p'`, `yytext_ptr = bp'` -/
structure Post (s' : State) (B n' p' bp' : Nat) : Prop where
  len : s'.arr.length = B + 2
  hn : n' ≤ B
  vn : s'.vars 2 = n'
  vb : s'.vars 4 = B
  hp : p' ≤ n'
  vp : s'.vars 0 = p'
  hbp : bp' ≤ p' + 1
  vtp : s'.vars 5 = bp'
  eob1 : (s'.arr.set p' (s'.vars 1))[n']? = some 0
  eob2 : s'.arr[n' + 1]? = some 0

theorem drop_set_pred {l : List Int} {q : Nat} (c : Int) (hq : 1 ≤ q) (hl : q ≤ l.length) :
    (l.set (q - 1) c).drop (q - 1) = c :: l.drop q := by
  have h1 : q - 1 < l.length := by omega
  rw [List.drop_eq_getElem_cons (by simpa using h1)]
  have : q - 1 + 1 = q := by omega
  simp [this, List.drop_set_of_lt (by omega : q - 1 < q)]

theorem seq_assoc_run (a b c : St) (s : State) : (St.seq a (.seq b c)).run s = (St.seq (.seq a b) c).run s := by
  simp only [St.run]
  cases h : a.run s with
  | mk s1 o => cases o <;> simp

theorem seq_congr_right (a b b' : St) (h : ∀ s, b.run s = b'.run s) (s : State) : (St.seq a b).run s = (St.seq a b').run s := by
  simp only [St.run]
  cases h1 : a.run s with
  | mk s1 o => cases o <;> simp [h]

/-- `a; b; c; d` is `(a; b; c); d` -/
theorem front_tail (a b c d : St) (s : State) :
    (St.seq a (.seq b (.seq c d))).run s = (St.seq (.seq a (.seq b c)) d).run s := by
  rw [seq_congr_right a _ _ (fun s' => seq_assoc_run b c d s') s, seq_assoc_run]

theorem run_seq_normal {a b : St} {s s1 : State} (h : a.run s = (s1, .normal)) : (St.seq a b).run s = b.run s1 := by
  simp [St.run, h]

theorem run_seq_stop {a b : St} {s s1 : State} {o : Outcome} (h : a.run s = (s1, o)) (ho : o ≠ .normal) :
    (St.seq a b).run s = (s1, o) := by
  simp only [St.run, h]
  cases o <;> simp_all

/-- enough room below the scan position: the character goes right in front of it -/
theorem unput_noshift {s : State} {B n p bp : Nat} {c : Int} (h : Pre s B n p bp) (hc : s.vars 11 = c) (h2 : 2 ≤ p) :
    ∃ s', unput.run s = (s', .normal) ∧ Post s' B n (p - 1) bp ∧ unread s' n (p - 1) = c :: unread s n p := by
  have hplen : p < s.arr.length := by have := h.len; have := h.hn; have := h.hp; omega
  have hv0 : s.vars 0 = p := h.vp
  -- the state before the last part of the function
  let s2 : State := { (setVar s 6 p) with arr := s.arr.set p (s.vars 1) }
  have hfront : (St.seq pre1 (.seq pre2 (.ite needShift (.seq sh1 (.seq sh2 (.seq sh3 (.seq (.while_ copyCond copyBody) shRest)))) .skip))).run s
      = (s2, .normal) := by
    have hnl : ((p : Int) < 2) = False := by simp; omega
    simp [pre1, pre2, needShift, St.run, Ex.eval, bind, Option.bind, pure, setVar_vars, hv0, hplen, hnl, b2i, s2]
  have htail := tail_run s2 p c (by omega) (by simpa [s2] using hplen) (by simp [s2, setVar_vars]) (by simpa [s2, setVar_vars] using hc)
  have hrun : unput.run s = tail_.run s2 := by
    rw [unput_shape, front_tail, run_seq_normal hfront]
  rw [hrun, htail]
  have hlen2 : s2.arr.length = B + 2 := by simp [s2, h.len]
  refine ⟨_, rfl, ⟨?_, h.hn, ?_, ?_, by have := h.hp; omega, ?_, by have := h.hbp; omega, ?_, ?_, ?_⟩, ?_⟩
  · simp [s2, h.len]
  · simpa [s2, setVar_vars] using h.vn
  · simpa [s2, setVar_vars] using h.vb
  · simp [setVar_vars]
  · simpa [s2, setVar_vars] using h.vbp
  · -- the end-of-buffer mark after the data
    have hne : p - 1 ≠ n ∨ True := Or.inr trivial
    show (((s.arr.set p (s.vars 1)).set (p - 1) c).set (p - 1) _)[n]? = some 0
    simp only [setVar_vars]
    have hpn : p - 1 < n := by have := h.hp; omega
    rw [List.getElem?_set_ne (by omega), List.getElem?_set_ne (by omega)]
    exact h.eob1
  · show ((s.arr.set p (s.vars 1)).set (p - 1) c)[n + 1]? = some 0
    have := h.hp
    rw [List.getElem?_set_ne (by omega), List.getElem?_set_ne (by omega)]
    exact h.eob2
  · -- the unread text
    show (((((s.arr.set p (s.vars 1)).set (p - 1) c).set (p - 1) _)).drop (p - 1)).take (n - (p - 1)) = c :: unread s n p
    simp only [setVar_vars]
    have hset : ((s.arr.set p (s.vars 1)).set (p - 1) c).set (p - 1) c = (s.arr.set p (s.vars 1)).set (p - 1) c := by
      simp
    simp only [show ((1 : Nat) = 0) = False by simp, if_false, if_true]
    rw [hset, drop_set_pred c (by omega) (by simp; omega)]
    have : n - (p - 1) = (n - p) + 1 := by have := h.hp; omega
    rw [this, List.take_succ_cons]
    rfl

def pushbackMsg : Nat := msgs.findIdx (· == "flex scanner push-back overflow")

/-- state after `yy_cp = yy_c_buf_p; *yy_cp = yy_hold_char;` and the three assignments before the loop -/
def beforeCopy (s : State) (B n p : Nat) : State :=
  { (setVar (setVar (setVar (setVar s 6 p) 8 ((n : Int) + 2)) 9 ((B : Int) + 2)) 10 ((n : Int) + 2)) with
      arr := s.arr.set p (s.vars 1) }

theorem shift_front {s : State} {B n p bp : Nat} (h : Pre s B n p bp) (hp2 : p < 2) :
    (St.seq pre1 (.seq pre2 (.ite needShift (.seq sh1 (.seq sh2 (.seq sh3 (.seq (.while_ copyCond copyBody) shRest)))) .skip))).run s =
      (St.seq (.while_ copyCond copyBody) shRest).run (beforeCopy s B n p) := by
  have hplen : p < s.arr.length := by have := h.len; have := h.hn; have := h.hp; omega
  have hv0 : s.vars 0 = p := h.vp
  have hv2 : s.vars 2 = n := h.vn
  have hv4 : s.vars 4 = B := h.vb
  have hl : ((p : Int) < 2) = True := by simp; omega
  have hfront : (St.seq pre1 (.seq pre2 (.seq sh1 (.seq sh2 sh3)))).run s = (beforeCopy s B n p, .normal) := by
    simp [pre1, pre2, sh1, sh2, sh3, St.run, Ex.eval, bind, Option.bind, pure, setVar_vars, hv0, hv2, hv4, hplen, beforeCopy]
    rfl
  -- re-associate: pre1; pre2; if (..) { sh1; sh2; sh3; rest }  =  (pre1; pre2; sh1; sh2; sh3); rest   when the test holds
  simp only [St.run] at hfront ⊢
  cases hp1 : pre1.run s with
  | mk a o =>
    rw [hp1] at hfront
    cases o <;> simp only at hfront ⊢ <;> first | (simp at hfront; done) | skip
    cases hp2' : pre2.run a with
    | mk b o2 =>
      rw [hp2'] at hfront
      cases o2 <;> simp only at hfront ⊢ <;> first | (simp at hfront; done) | skip
      -- the test
      have hb6 : b.vars 6 = p := by
        have h1 : a = setVar s 6 p := by
          have := hp1; simp [pre1, St.run, Ex.eval, hv0] at this; exact this.symm
        have h2 : b = { a with arr := a.arr.set p (a.vars 1) } := by
          have := hp2'
          simp [pre2, St.run, Ex.eval, h1, setVar_vars, hplen] at this
          simpa [h1, setVar_vars] using this.symm
        rw [h2, h1]; simp [setVar_vars]
      have hcond : needShift.eval b = some 1 := by
        simp [needShift, Ex.eval, bind, Option.bind, pure, hb6, hl, b2i]
      simp only [hcond]
      have h1ne : ((1 : Int) != 0) = true := by decide
      simp only [h1ne, if_true]
      cases hs1 : sh1.run b with
      | mk c1 o3 =>
        rw [hs1] at hfront
        cases o3 <;> simp only at hfront ⊢ <;> first | (simp at hfront; done) | skip
        cases hs2 : sh2.run c1 with
        | mk c2 o4 =>
          rw [hs2] at hfront
          cases o4 <;> simp only at hfront ⊢ <;> first | (simp at hfront; done) | skip
          cases hs3 : sh3.run c2 with
          | mk c3 o5 =>
            rw [hs3] at hfront
            cases o5 <;> simp only at hfront ⊢ <;> first | (simp at hfront; done) | skip
            have : c3 = beforeCopy s B n p := (Prod.mk.inj hfront).1
            rw [this]

/-- state after the copy loop and the adjustment of yy_cp, yy_bp and the two character counts -/
def afterShift (s : State) (B n p bp : Nat) : State :=
  let ac := afterCopy (beforeCopy s B n p) (n + 2) (B - n)
  setVar (setVar (setVar (setVar ac 6 ((p + (B - n) : Nat) : Int)) 7 ((bp + (B - n) : Nat) : Int)) 2 (B : Int)) 3 (B : Int)

theorem shift_middle {s : State} {B n p bp : Nat} (h : Pre s B n p bp) :
    (St.seq (.while_ copyCond copyBody) shRest).run (beforeCopy s B n p) =
      if p + (B - n) < 2 then (afterShift s B n p bp, .fatal 0) else (afterShift s B n p bp, .normal) := by
  have hnB := h.hn
  have hlen : (beforeCopy s B n p).arr.length = B + 2 := by simp [beforeCopy, h.len]
  have hloop : (St.while_ copyCond copyBody).run (beforeCopy s B n p) =
      (afterCopy (beforeCopy s B n p) (n + 2) (B - n), .normal) := by
    show loop (fun s' => copyCond.eval s') (fun s' => copyBody.run s') ((beforeCopy s B n p).arr.length + 3) (beforeCopy s B n p) = _
    apply copy_loop
    · simp [beforeCopy, setVar_vars]
    · simp [beforeCopy, setVar_vars]; omega
    · rw [hlen]; omega
    · rw [hlen]; omega
  rw [run_seq_normal hloop]
  have h6 : (afterCopy (beforeCopy s B n p) (n + 2) (B - n)).vars 6 = p := by simp [afterCopy, beforeCopy, setVar_vars]
  have h7 : (afterCopy (beforeCopy s B n p) (n + 2) (B - n)).vars 7 = bp := by
    simp [afterCopy, beforeCopy, setVar_vars]; exact h.vbp
  have h9 : (afterCopy (beforeCopy s B n p) (n + 2) (B - n)).vars 9 = ((B - n : Nat) : Int) := by simp [afterCopy]
  have h10 : (afterCopy (beforeCopy s B n p) (n + 2) (B - n)).vars 10 = 0 := by simp [afterCopy]
  have h4 : (afterCopy (beforeCopy s B n p) (n + 2) (B - n)).vars 4 = B := by
    simp [afterCopy, beforeCopy, setVar_vars]; exact h.vb
  have e6 : (p : Int) + (((B - n : Nat) : Int) - 0) = ((p + (B - n) : Nat) : Int) := by push_cast; omega
  have e7 : (bp : Int) + (((B - n : Nat) : Int) - 0) = ((bp + (B - n) : Nat) : Int) := by push_cast; omega
  by_cases hf : p + (B - n) < 2
  · have hl : (((p + (B - n) : Nat) : Int) < 2) = True := by simp; omega
    rw [if_pos hf]
    simp [shRest, St.run, Ex.eval, bind, Option.bind, pure, setVar_vars, h6, h7, h9, h10, h4, b2i, afterShift]
    omega
  · have hl : (((p + (B - n) : Nat) : Int) < 2) = False := by simp; omega
    rw [if_neg hf]
    simp [shRest, St.run, Ex.eval, bind, Option.bind, pure, setVar_vars, h6, h7, h9, h10, h4, b2i, afterShift]
    omega

theorem afterShift_arr (s : State) (B n p bp : Nat) :
    (afterShift s B n p bp).arr = shiftUp (s.arr.set p (s.vars 1)) (n + 2) (B - n) := by
  simp [afterShift, afterCopy, beforeCopy]

theorem afterShift_vars (s : State) (B n p bp : Nat) (y : Nat) :
    (afterShift s B n p bp).vars y =
      if y = 3 then (B : Int) else if y = 2 then (B : Int) else if y = 7 then ((bp + (B - n) : Nat) : Int)
      else if y = 6 then ((p + (B - n) : Nat) : Int) else if y = 10 then 0 else if y = 9 then ((B - n : Nat) : Int)
      else if y = 8 then (n : Int) + 2 else s.vars y := by
  simp only [afterShift, afterCopy, beforeCopy, setVar_vars]
  repeat' split
  all_goals first | rfl | omega | (subst_vars; simp_all)

/-- no room at all: the documented fatal error -/
theorem unput_overflow {s : State} {B n p bp : Nat} (h : Pre s B n p bp) (hp2 : p < 2) (hf : p + (B - n) < 2) :
    (unput.run s).2 = .fatal pushbackMsg := by
  have hfr : (St.seq pre1 (.seq pre2 (.ite needShift (.seq sh1 (.seq sh2 (.seq sh3 (.seq (.while_ copyCond copyBody) shRest)))) .skip))).run s
      = (afterShift s B n p bp, .fatal 0) := by
    rw [shift_front h hp2, shift_middle h, if_pos hf]
  rw [unput_shape, front_tail, run_seq_stop hfr (by simp)]
  rfl

/-- the contents are shifted to the end of the buffer first -/
theorem unput_shift {s : State} {B n p bp : Nat} {c : Int} (h : Pre s B n p bp) (hc : s.vars 11 = c)
    (hp2 : p < 2) (hroom : 2 ≤ p + (B - n)) :
    ∃ s', unput.run s = (s', .normal) ∧ Post s' B B (p + (B - n) - 1) (bp + (B - n)) ∧
      unread s' B (p + (B - n) - 1) = c :: unread s n p ∧ s'.vars 3 = B := by
  have hnB := h.hn
  have hpn := h.hp
  have hfr : (St.seq pre1 (.seq pre2 (.ite needShift (.seq sh1 (.seq sh2 (.seq sh3 (.seq (.while_ copyCond copyBody) shRest)))) .skip))).run s
      = (afterShift s B n p bp, .normal) := by
    rw [shift_front h hp2, shift_middle h, if_neg (by omega)]
  have hA : (s.arr.set p (s.vars 1)).length = B + 2 := by simp [h.len]
  have hlenS : (afterShift s B n p bp).arr.length = B + 2 := by rw [afterShift_arr, shiftUp_length, hA]
  have htail := tail_run (afterShift s B n p bp) (p + (B - n)) c (by omega) (by rw [hlenS]; omega)
    (by rw [afterShift_vars]; simp) (by rw [afterShift_vars]; simpa using hc)
  have hrun : unput.run s = tail_.run (afterShift s B n p bp) := by
    rw [unput_shape, front_tail, run_seq_normal hfr]
  rw [hrun, htail]
  -- the shifted array
  have hS : ∀ j, (afterShift s B n p bp).arr[j]? =
      if B - n ≤ j ∧ j < n + 2 + (B - n) then (s.arr.set p (s.vars 1))[j - (B - n)]? else (s.arr.set p (s.vars 1))[j]? := by
    intro j
    rw [afterShift_arr]
    exact shiftUp_get _ _ _ (by rw [hA]; omega) j
  refine ⟨_, rfl, ⟨?_, Nat.le_refl _, ?_, ?_, by omega, ?_, by have := h.hbp; omega, ?_, ?_, ?_⟩, ?_, ?_⟩
  · simp [hlenS]
  · simp [setVar_vars, afterShift_vars]
  · simp [setVar_vars, afterShift_vars]; exact h.vb
  · simp [setVar_vars]
  · simp [setVar_vars, afterShift_vars]
  · -- the first end-of-buffer mark
    show ((((afterShift s B n p bp).arr.set (p + (B - n) - 1) c).set (p + (B - n) - 1) _))[B]? = some 0
    rw [List.getElem?_set_ne (by omega), List.getElem?_set_ne (by omega), hS, if_pos ⟨by omega, by omega⟩]
    have : B - (B - n) = n := by omega
    rw [this]; exact h.eob1
  · show ((afterShift s B n p bp).arr.set (p + (B - n) - 1) c)[B + 1]? = some 0
    rw [List.getElem?_set_ne (by omega), hS, if_pos ⟨by omega, by omega⟩]
    have : B + 1 - (B - n) = n + 1 := by omega
    rw [this, List.getElem?_set_ne (by omega)]; exact h.eob2
  · -- the unread text
    show ((((afterShift s B n p bp).arr.set (p + (B - n) - 1) c).set (p + (B - n) - 1) _).drop (p + (B - n) - 1)).take (B - (p + (B - n) - 1))
        = c :: unread s n p
    simp only [setVar_vars, show ((1 : Nat) = 0) = False by simp, if_false, if_true]
    have hset : (((afterShift s B n p bp).arr.set (p + (B - n) - 1) c).set (p + (B - n) - 1) c)
        = (afterShift s B n p bp).arr.set (p + (B - n) - 1) c := by simp
    rw [hset, drop_set_pred c (by omega) (by rw [hlenS]; omega)]
    have hk : B - (p + (B - n) - 1) = (n - p) + 1 := by omega
    rw [hk, List.take_succ_cons]
    congr 1
    -- cell by cell
    apply List.ext_getElem?
    intro i
    simp only [unread]
    by_cases hi : i < n - p
    · rw [List.getElem?_take, if_pos hi, List.getElem?_take, if_pos hi, List.getElem?_drop, List.getElem?_drop, hS,
        if_pos ⟨by omega, by omega⟩]
      congr 1
      omega
    · rw [List.getElem?_take, if_neg hi, List.getElem?_take, if_neg hi]
  · simp [setVar_vars, afterShift_vars]

/-- **C08, yyunput**: for every buffer size, fill level, scan position and character: the push-back
    overflow error exactly when there is no room even after shifting; otherwise the function returns,
    the unread text is the character followed by the unread text before, the end-of-buffer marks stand
    after the data, and after a shift the buffer's own character count is the scanner's -/
theorem unput_spec {s : State} {B n p bp : Nat} {c : Int} (h : Pre s B n p bp) (hc : s.vars 11 = c) :
    (p < 2 ∧ p + (B - n) < 2 → (unput.run s).2 = .fatal pushbackMsg) ∧
    (¬ (p < 2 ∧ p + (B - n) < 2) → ∃ s' n' p' bp', unput.run s = (s', .normal) ∧ Post s' B n' p' bp' ∧
        unread s' n' p' = c :: unread s n p ∧ (n' ≠ n → s'.vars 3 = n')) := by
  refine ⟨fun ⟨h1, h2⟩ => unput_overflow h h1 h2, fun hno => ?_⟩
  by_cases hp2 : p < 2
  · obtain ⟨s', hr, hpost, hu, h3⟩ := unput_shift h hc hp2 (by omega)
    exact ⟨s', B, _, _, hr, hpost, hu, fun _ => h3⟩
  · obtain ⟨s', hr, hpost, hu⟩ := unput_noshift h hc (by omega)
    exact ⟨s', n, _, _, hr, hpost, hu, fun hne => absurd rfl hne⟩

/-- the premises can be met — a buffer of 6 characters holding "ab", the scan position at its start
    (where a shift is needed): unput('z') leaves "zab" unread at the end of the buffer -/
def sEx : State :=
  { vars := fun y => if y = 1 then 97 else if y = 2 then 2 else if y = 4 then 6 else if y = 11 then 122 else 0,
    arr := [0, 98, 0, 0, 7, 7, 7, 7], log := [] }

example : Pre sEx 6 2 0 0 := by
  refine ⟨rfl, by decide, rfl, rfl, by decide, rfl, by decide, rfl, ?_, ?_⟩ <;> decide

example : (unput.run sEx).2 = .normal ∧ unread (unput.run sEx).1 6 3 = [122, 97, 98] ∧
    (unput.run sEx).1.vars 2 = 6 ∧ (unput.run sEx).1.vars 3 = 6 ∧ (unput.run sEx).1.arr = [97, 98, 0, 122, 97, 98, 0, 0] := by
  decide

end FlexVerif.C08Unput

/-
  Props/C03NextBufC99.lean — C03 / C10 / C13: yy_get_next_buffer() of the **c99 back end**, translated by
  `tools/fv/gen_nextbuf.py` from a scanner generated with `%option emit="c99"` (`Gen/NextBufC99.lean`;
  `yyscanner->` dropped, the current buffer written `yy_buffer_stack[yy_buffer_stack_top]` there, `yytext_r` for
  `yytext_ptr`, `yy_more_len` for YY_MORE_ADJ, `yyread()` for YY_INPUT).  It differs from the default skeleton's in
  moving the unfinished token with `memmove` (statement `move`) instead of a loop and in the spelling of one test;
  the rest — `fill` and `fin` of `C03NextBuf.lean` — is the same text.  The same four theorems and their
  corollaries hold.
-/
import FlexVerif.Gen.NextBufC99
import FlexVerif.Props.C03NextBuf
namespace FlexVerif.C03NextBufC99
open FlexVerif.Imp FlexVerif.C03NextBuf

def g2' : St := .ite (.not (.var 5))
  (.ite (.eq (.sub (.sub (.var 0) (.var 1)) (.var 9)) (.lit 1)) (.ret (.lit 1)) (.ret (.lit 2))) .skip
def mv' : St := .ite (.lt (.lit 0) (.var 12)) (.move (.var 10) (.var 11) (.mul (.var 12) (.lit 1))) .skip

/-- the c99 function: the default skeleton's pieces except the test of `yy_fill_buffer` and the move -/
theorem nextBuf99_shape :
    Gen.NextBufC99.nextBuf = .seq a1 (.seq a2 (.seq g1 (.seq g2' (.seq a3 (.seq mv' (.seq fill fin)))))) := rfl

/-- the state when memmove has moved the unfinished token -/
def moved99 (s : State) : State :=
  { setVar (setVar (setVar s 10 0) 11 (s.vars 1)) 12 (ntm s) with
    arr := (s.arr.drop (s.vars 1).toNat).take (ntm s).toNat ++ s.arr.drop (ntm s).toNat }

theorem prefix99_run (s : State) (hP : Pre s) (hfill : s.vars 5 ≠ 0) (rest : St) :
    (St.seq a1 (.seq a2 (.seq g1 (.seq g2' (.seq a3 (.seq mv' rest)))))).run s = rest.run (moved99 s) := by
  have ⟨hlen, hpos, htn, htl, hcl, hnl, _⟩ := hP
  have h1 : a1.run s = (setVar s 10 0, .normal) := by simp [a1, St.run, Ex.eval]
  have h2 : a2.run (setVar s 10 0) = (setVar (setVar s 10 0) 11 (s.vars 1), .normal) := by
    simp [a2, St.run, Ex.eval, setVar_vars]
  have hg1 : g1.run (setVar (setVar s 10 0) 11 (s.vars 1)) = (setVar (setVar s 10 0) 11 (s.vars 1), .normal) := by
    have : ¬ (s.vars 2 + 1 < s.vars 0) := by omega
    simp [g1, St.run, Ex.eval, bind, Option.bind, pure, setVar_vars, b2i, this]
  have hg2 : g2'.run (setVar (setVar s 10 0) 11 (s.vars 1)) = (setVar (setVar s 10 0) 11 (s.vars 1), .normal) := by
    simp [g2', St.run, Ex.eval, bind, Option.bind, pure, setVar_vars, b2i, hfill]
  have h3 : a3.run (setVar (setVar s 10 0) 11 (s.vars 1)) = (setVar (setVar (setVar s 10 0) 11 (s.vars 1)) 12 (ntm s), .normal) := by
    simp [a3, St.run, Ex.eval, bind, Option.bind, pure, setVar_vars, ntm]
  have hk : 0 ≤ ntm s := by unfold ntm; omega
  have hmv : mv'.run (setVar (setVar (setVar s 10 0) 11 (s.vars 1)) 12 (ntm s)) = (moved99 s, .normal) := by
    by_cases hz : 0 < ntm s
    · have hin1 : (ntm s).toNat ≤ s.arr.length := by unfold ntm at *; omega
      have hin2 : (s.vars 1).toNat + (ntm s).toNat ≤ s.arr.length := by unfold ntm at *; omega
      simp [mv', St.run, Ex.eval, bind, Option.bind, pure, setVar_vars, b2i, hz, hk, htn, hin1, hin2, moved99]
    · have h0 : ntm s = 0 := by omega
      simp [mv', St.run, Ex.eval, bind, Option.bind, pure, setVar_vars, b2i, moved99, h0]
      rfl
  rw [seq_normal h1, seq_normal h2, seq_normal hg1, seq_normal hg2, seq_normal h3, seq_normal hmv]

theorem moved99_like (s : State) (hP : Pre s) : MovedLike s (moved99 s) := by
  have ⟨hlen, hpos, htn, htl, hcl, hnl, _⟩ := hP
  have hin : (s.vars 1).toNat + (ntm s).toNat ≤ s.arr.length := by unfold ntm; omega
  have hl : ((s.arr.drop (s.vars 1).toNat).take (ntm s).toNat).length = (ntm s).toNat := by simp; omega
  refine ⟨?_, ?_, ?_, hl, ?_, rfl⟩
  · intro y a b c _; simp [moved99, setVar_vars, a, b, c]
  · simp [moved99, setVar_vars]
  · simp only [moved99]
    rw [List.take_append_of_le_length (by omega), List.take_of_length_le (by omega)]
  · simp only [moved99, List.length_append, hl, List.length_drop]; omega

theorem nextBuf99_nofill (s : State) (hP : Pre s) (h5 : s.vars 5 = 0) :
    ∃ s', Gen.NextBufC99.nextBuf.run s = (s', .returned (if s.vars 0 - s.vars 1 - s.vars 9 = 1 then 1 else 2)) ∧ s'.arr = s.arr ∧
      s'.log = s.log ∧ ∀ y, y ≠ 10 → y ≠ 11 → s'.vars y = s.vars y := by
  have ⟨hlen, hpos, htn, htl, hcl, hnl, _⟩ := hP
  have hg : ¬ (s.vars 2 + 1 < s.vars 0) := by omega
  by_cases hc : s.vars 0 - s.vars 1 - s.vars 9 = 1
  · refine ⟨setVar (setVar s 10 0) 11 (s.vars 1), ?_, rfl, rfl, ?_⟩
    · simp [nextBuf99_shape, a1, a2, g1, g2', St.run, Ex.eval, bind, Option.bind, pure, setVar_vars, b2i, h5, hg, hc]
    · intro y h0 h1; simp [setVar_vars, h0, h1]
  · refine ⟨setVar (setVar s 10 0) 11 (s.vars 1), ?_, rfl, rfl, ?_⟩
    · simp [nextBuf99_shape, a1, a2, g1, g2', St.run, Ex.eval, bind, Option.bind, pure, setVar_vars, b2i, h5, hg, hc]
    · intro y h0 h1; simp [setVar_vars, h0, h1]

theorem nextBuf99_eof_pending (s : State) (hP : Pre s) (h5 : s.vars 5 ≠ 0) (h6 : s.vars 6 = 2) :
    ∃ s', Gen.NextBufC99.nextBuf.run s = (s', .returned (retOf s 0)) ∧ Filled s s' 0 ∧ s'.vars 4 = s.vars 4 := by
  rw [nextBuf99_shape, prefix99_run s hP h5]
  exact rest_eof_pending s (moved99 s) hP (moved99_like s hP) h6

theorem nextBuf99_read (s : State) (hP : Pre s) (h5 : s.vars 5 ≠ 0) (h6 : s.vars 6 ≠ 2)
    (hcan : s.vars 7 ≠ 0 ∨ 1 ≤ s.vars 4 - ntm s - 1) :
    ∃ s' m, 1 ≤ m ∧ m ≤ s.vars 18 ∧ Gen.NextBufC99.nextBuf.run s = (s', .returned (retOf s (got s m))) ∧ Filled s s' (got s m) ∧
      Exact s s' m := by
  rw [nextBuf99_shape, prefix99_run s hP h5]
  exact rest_read s (moved99 s) hP (moved99_like s hP) h6 hcan

theorem nextBuf99_overflow (s : State) (hP : Pre s) (h5 : s.vars 5 ≠ 0) (h6 : s.vars 6 ≠ 2)
    (hours : s.vars 7 = 0) (hfull : s.vars 4 - ntm s - 1 ≤ 0) :
    ∃ s', Gen.NextBufC99.nextBuf.run s = (s', .fatal 1) ∧ s'.log = s.log := by
  rw [nextBuf99_shape, prefix99_run s hP h5]
  exact rest_overflow s (moved99 s) (moved99_like s hP) h6 hours hfull

/-- **the c99 skeleton's yy_get_next_buffer() meets the same specification** -/
theorem nextBuf99_correct : Correct Gen.NextBufC99.nextBuf :=
  ⟨nextBuf99_nofill, nextBuf99_eof_pending, nextBuf99_read, nextBuf99_overflow⟩

theorem never_out_of_bounds_c99 (s : State) (hP : Pre s) :
    (Gen.NextBufC99.nextBuf.run s).2 ≠ .oob ∧ (Gen.NextBufC99.nextBuf.run s).2 ≠ .fuel :=
  nextBuf99_correct.never_out_of_bounds s hP

theorem eof_only_when_reader_dry_c99 (s : State) (hP : Pre s) (h5 : s.vars 5 ≠ 0) (h6 : s.vars 6 ≠ 2) (v : Int)
    (hret : (Gen.NextBufC99.nextBuf.run s).2 = .returned v) (hv : v ≠ 0) : s.vars inLen ≤ 0 :=
  nextBuf99_correct.eof_only_when_reader_dry s hP h5 h6 v hret hv

example : (Gen.NextBufC99.nextBuf.run sEx).2 = .returned 0 ∧ (Gen.NextBufC99.nextBuf.run sEx).1.arr = [98, 99, 120, 0, 0, 0] := by
  decide

end FlexVerif.C03NextBufC99

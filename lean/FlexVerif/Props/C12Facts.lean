import FlexVerif.Gen.Footprint
namespace FlexVerif

/-- **A reentrant scanner has no writable file-scope state** (nothing outside the `yyscan_t`
    object can be shared or raced on) — facts from `nm` on scanners generated in this run. -/
theorem no_mutable_globals : (Gen.mutableGlobals.all fun p => p.2.isEmpty) = true := by decide

/-- **Scanners generated with different prefixes define disjoint external symbols.** -/
theorem prefixes_disjoint : Gen.prefixClashes.isEmpty = true := by decide

end FlexVerif

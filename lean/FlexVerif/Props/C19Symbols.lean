/-
  Props/C19Symbols.lean — C19, "an accepted option reaches the skeleton": theorems about the
  program `Gen.Options.defineSymbols`, the translation of readin() of src/main.c (which m4 symbols
  flex defines, under which condition on its option variables), and about `%option` word →
  check_options() → readin() end to end.  The right-hand sides below are the specification — what
  the manual says each option controls, spelled with the variable scan.l sets for it; the left-hand
  sides are the symbols the skeletons test.  A definition moved under the wrong variable, a dropped
  `else`, a symbol spelled differently on the two sides: each breaks a theorem here, for every
  setting of all the other options.
-/
import FlexVerif.Props.C19Opts
namespace FlexVerif.C19Opts
open FlexVerif.Opt FlexVerif.Gen.Options

abbrev dprog := defineSymbols

def iffC (a b : Cond) : Cond := .or (.and a b) (.and (.not a) (.not b))

/-- the m4 symbols (numbered from `symBase`) -/
def allSyms : Fld → Bool := fun f => decide (symBase ≤ f)
/-- every m4 symbol but `t` -/
def others (t : Fld) : Fld → Bool := fun f => decide (symBase ≤ f) && f != t
/-- every m4 symbol but `t` and `u` -/
def others2 (t u : Fld) : Fld → Bool := fun f => decide (symBase ≤ f) && f != t && f != u

theorem others_sub (t : Fld) : ∀ f, others t f = true → allSyms f = true := by
  intro f h; simp only [others, Bool.and_eq_true] at h; exact h.1
theorem others2_sub (t u : Fld) : ∀ f, others2 t u f = true → allSyms f = true := by
  intro f h; simp only [others2, Bool.and_eq_true] at h; exact h.1.1

/-- nothing in check_options() or readin() *reads* an m4 symbol -/
theorem readin_reads_no_symbol : dprog.condsAvoid allSyms = true := by decide +kernel
theorem check_options_reads_no_symbol : checkOptions.condsAvoid allSyms = true := by decide +kernel

/-- one row, decided on the program with the assignments to all *other* symbols left out
    (`Stmt.run_drop`: nobody reads a symbol, so that changes nothing else) -/
def rowOk (s : Stmt) (p : Fld → Bool) (Q : Cond) : Bool :=
  Q.avoids p && tautA domains domains.length (mkOr (s.drop p).errs ((s.drop p).wp Q))

theorem row_sound (s : Stmt) (p : Fld → Bool) (Q : Cond) (hc : s.condsAvoid allSyms = true)
    (hp : ∀ f, p f = true → allSyms f = true) (h : rowOk s p Q = true) :
    ∀ st, Ok st → (s.run st).err.isSome = true ∨ Q.eval (s.run st).st = true := by
  intro st hst
  simp only [rowOk, Bool.and_eq_true] at h
  obtain ⟨hq, ht⟩ := h
  have := tautA_sound _ _ _ ht st hst
  rw [mkOr_eval, Stmt.errs_sound, Stmt.wp_sound] at this
  obtain ⟨he, _, hs⟩ := s.run_drop_self p (Stmt.condsAvoid_mono hp s hc) st
  rw [he, Cond.eval_agree hs Q hq]
  cases hx : ((s.drop p).run st).err <;> simp [hx] at this ⊢
  exact this

/-- after readin(): refused on the way, or `Q` -/
theorem defs_after (p : Fld → Bool) (hp : ∀ f, p f = true → allSyms f = true) (Q : Cond)
    (h : rowOk dprog p Q = true) :
    ∀ st, Ok st → (dprog.run st).err.isSome = true ∨ Q.eval (dprog.run st).st = true :=
  row_sound dprog p Q readin_reads_no_symbol hp h

/-! ### `M4_…_X` and `M4_…_NO_X`: exactly one of them is defined -/

theorem complementary_pairs : ∀ pr ∈ complementaryPairs, ∀ st, Ok st →
    (dprog.run st).err.isSome = true ∨
      (Cond.not (iffC (.truthy pr.1) (.truthy pr.2))).eval (dprog.run st).st = true := by
  have h : complementaryPairs.all (fun pr => rowOk dprog (others2 pr.1 pr.2) (.not (iffC (.truthy pr.1) (.truthy pr.2)))) = true := by
    decide +kernel
  intro pr hpr
  exact defs_after _ (others2_sub _ _) _ (List.all_eq_true.mp h pr hpr)

/-- exactly one of the four find-action modes -/
def oneFindAction : Cond :=
  let a := Cond.truthy F.sym_M4_MODE_FULLSPD
  let b := Cond.truthy F.sym_M4_MODE_FIND_ACTION_FULLTBL
  let c := Cond.truthy F.sym_M4_MODE_FIND_ACTION_REJECT
  let d := Cond.truthy F.sym_M4_MODE_FIND_ACTION_COMPRESSED
  .or (.and a (.and (.not b) (.and (.not c) (.not d))))
  (.or (.and (.not a) (.and b (.and (.not c) (.not d))))
  (.or (.and (.not a) (.and (.not b) (.and c (.not d))))
       (.and (.not a) (.and (.not b) (.and (.not c) d)))))

def notFindAction : Fld → Bool := fun f =>
  decide (symBase ≤ f) && f != F.sym_M4_MODE_FULLSPD && f != F.sym_M4_MODE_FIND_ACTION_FULLTBL &&
    f != F.sym_M4_MODE_FIND_ACTION_REJECT && f != F.sym_M4_MODE_FIND_ACTION_COMPRESSED

theorem one_find_action_mode : ∀ st, Ok st →
    (dprog.run st).err.isSome = true ∨ oneFindAction.eval (dprog.run st).st = true :=
  defs_after notFindAction (by intro f h; simp only [notFindAction, Bool.and_eq_true] at h; exact h.1.1.1.1) _
    (by decide +kernel)

/-! ### each symbol is defined exactly when its option variable says so -/

/-- rows of a wiring table, decided -/
def wiredOk (rows : List (Fld × Cond)) : Bool :=
  rows.all fun r => rowOk dprog (others r.1) (iffC (.truthy r.1) r.2)

/-- for every row, every setting of all option variables: flex stops with an error before the
    skeleton is read, or the symbol is defined exactly when the condition holds (of the variables
    as they are at that point) -/
theorem wired_sound (rows : List (Fld × Cond)) (h : wiredOk rows = true) : ∀ r ∈ rows, ∀ st, Ok st →
    (dprog.run st).err.isSome = true ∨ (iffC (.truthy r.1) r.2).eval (dprog.run st).st = true := by
  intro r hr
  exact defs_after _ (others_sub _) _ (List.all_eq_true.mp h r hr)

/-! ### end to end: `%option word` … check_options() … readin() -/

/-- an `%option` word's effect (`O.o_<name>_on` / `_off`, scan.l's action), then check_options(), then readin() -/
def pipeline (w : Stmt) : Stmt := .seq w (.seq checkOptions defineSymbols)


def reachQ (r : Stmt × Fld × Bool × Cond) : Cond :=
  if r.2.2.1 then .truthy r.2.1 else .not (.truthy r.2.1)

/-- one row `(word, symbol, defined?, unless)`: the override condition `unless` is about the state
    *before* the word, so it enters the goal as an alternative -/
def reachOk (r : Stmt × Fld × Bool × Cond) : Bool :=
  let s := pipeline r.1
  let p := others r.2.1
  r.1.condsAvoid allSyms && (reachQ r).avoids p &&
    tautA domains domains.length (mkOr (s.drop p).errs (mkOr r.2.2.2 ((s.drop p).wp (reachQ r))))

/-- `%option w` given last: refused, or overridden as the manual says (`unless`), or the symbol is
    (not) defined -/
theorem reach_sound (rows : List (Stmt × Fld × Bool × Cond)) (h : rows.all reachOk = true) :
    ∀ r ∈ rows, ∀ st, Ok st →
    ((pipeline r.1).run st).err.isSome = true ∨ r.2.2.2.eval st = true ∨
      (reachQ r).eval ((pipeline r.1).run st).st = true := by
  intro r hr st hst
  have hr' := List.all_eq_true.mp h r hr
  simp only [reachOk, Bool.and_eq_true] at hr'
  obtain ⟨⟨hw, hq⟩, ht⟩ := hr'
  have hc : (pipeline r.1).condsAvoid allSyms = true := by
    simp only [pipeline, Stmt.condsAvoid, Bool.and_eq_true]
    exact ⟨hw, check_options_reads_no_symbol, readin_reads_no_symbol⟩
  have := tautA_sound _ _ _ ht st hst
  rw [mkOr_eval, mkOr_eval, Stmt.errs_sound, Stmt.wp_sound] at this
  obtain ⟨he, _, hs⟩ := (pipeline r.1).run_drop_self (others r.2.1) (Stmt.condsAvoid_mono (others_sub _) _ hc) st
  rw [he, Cond.eval_agree hs (reachQ r) hq]
  cases hx : (((pipeline r.1).drop (others r.2.1)).run st).err <;> simp [hx] at this ⊢
  rcases this with h1 | h2
  · exact Or.inl h1
  · exact Or.inr h2

end FlexVerif.C19Opts

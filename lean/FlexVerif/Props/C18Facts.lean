import FlexVerif.Gen.Calls
/-
  Props/C18Facts.lean — facts about the generator re-extracted from /repo on every run
  (Gen/Calls.lean) and decided by the kernel.
-/
namespace FlexVerif

/-- library functions whose result differs from run to run -/
def nondeterministicSources : List String :=
  ["time", "clock", "clock_gettime", "gettimeofday", "rand", "random", "srand", "srandom", "rand_r",
   "drand48", "lrand48", "mrand48", "getpid", "getppid", "mktemp", "tmpnam", "tempnam", "getrandom",
   "arc4random", "localtime", "gmtime", "ctime", "asctime", "strftime", "getuid", "gethostname", "uname"]

/-- **flex calls no library function whose result varies between runs** -/
theorem no_nondeterministic_source :
    (Gen.importedSymbols.all fun s => !nondeterministicSources.contains s) = true := by decide

/-- **every qsort call in the generator uses one of the two comparators covered by
    `intcmp_sorted_unique` / `cclcmp_sorted_unique`** -/
theorem qsort_comparators_known :
    (Gen.qsortComparators.all fun s => ["intcmp", "cclcmp"].contains s) = true := by decide

end FlexVerif

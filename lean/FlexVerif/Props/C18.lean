/-
  Props/C18.lean — why the generator's output cannot depend on the `qsort` implementation:
  every comparator flex hands to `qsort` orders its elements by an injective key, and the sorted
  arrangement of a multiset under such an order is unique.
-/
namespace FlexVerif

/-- `intcmp` (misc.c): plain integer order -/
def intcmpLe (a b : Int) : Prop := a ≤ b

/-- `cclcmp` (misc.c): unsigned characters, with NUL sorting last -/
def cclKey (c : Nat) : Nat := if c = 0 then 256 else c
def cclcmpLe (a b : Nat) : Prop := cclKey a ≤ cclKey b

theorem cclKey_inj {a b : Nat} (ha : a < 256) (hb : b < 256) (h : cclKey a = cclKey b) : a = b := by
  unfold cclKey at h
  split at h <;> split at h <;> omega

/-- **Any two correct sorts of the same integers agree** (so the result does not depend on how
    the C library's qsort breaks ties or permutes). -/
theorem intcmp_sorted_unique (l l1 l2 : List Int) (p1 : l1.Perm l) (p2 : l2.Perm l)
    (s1 : l1.Pairwise intcmpLe) (s2 : l2.Pairwise intcmpLe) : l1 = l2 := by
  apply List.Perm.eq_of_pairwise (le := intcmpLe) _ s1 s2 (p1.trans p2.symm)
  intro a b _ _ hab hba
  unfold intcmpLe at hab hba
  omega

/-- the same for character classes sorted with `cclcmp` -/
theorem cclcmp_sorted_unique (l l1 l2 : List Nat) (hl : ∀ c ∈ l, c < 256) (p1 : l1.Perm l) (p2 : l2.Perm l)
    (s1 : l1.Pairwise cclcmpLe) (s2 : l2.Pairwise cclcmpLe) : l1 = l2 := by
  apply List.Perm.eq_of_pairwise (le := cclcmpLe) _ s1 s2 (p1.trans p2.symm)
  intro a b ha hb hab hba
  unfold cclcmpLe at hab hba
  exact cclKey_inj (hl a (p1.subset ha)) (hl b (p2.subset hb)) (by omega)

/-- non-vacuity -/
example : [(1 : Int), 3, 3, 7].Pairwise intcmpLe := by simp [intcmpLe]

end FlexVerif

/-
  Props/C01StepGen.lean — C01 / C02: the state-walking code of **all four compressed table variants** (-Cem, -Ce, -Cm,
  -C).  The generated `yy_get_previous_state()` / `yy_try_NUL_trans()` differ between the variants in two places only:
  the body of the default-chain loop (with or without the `yy_meta` step) and the expression that maps a buffer cell
  to its column (through `yy_ec` or not).  The theorems of `C01Step.lean` are proved here once for any loop body `B`
  and any class expression `CE` that do what the decoder does in their place (`BodyOK`, `ClassOK`), and instantiated
  for the four translated variants: each computes the decoder's `stepByte` / a fold of it for *its* table flags.
-/
import FlexVerif.Props.C01Step
import FlexVerif.Gen.PrevStateCe
import FlexVerif.Gen.PrevStateCm
import FlexVerif.Gen.PrevStateC
namespace FlexVerif.C01StepGen
open FlexVerif.Imp FlexVerif.C01Step

/-- one round of the default-chain loop does what the decoder does there -/
structure BodyOK (T : Tables) (B : St) : Prop where
  withMeta : T.useMecs = true → ∀ (s : State) (d c' : Int), TablesIn s T → rd T.deflt (s.vars 0) = some d → d ≥ T.jamState + 1 →
    rd T.metaEc (s.vars 2) = some c' → B.run s = (setVar (setVar s 0 d) 2 c', .normal)
  plain : ∀ (s : State) (d : Int), TablesIn s T → rd T.deflt (s.vars 0) = some d → ¬ (T.useMecs = true ∧ d ≥ T.jamState + 1) →
    B.run s = (setVar s 0 d, .normal)

def loopOf (B : St) : St := .whileB (.add (.var 5004) (.lit 2)) stepCond B

theorem comp_code (T : Tables) (B : St) (hB : BodyOK T B) : ∀ (fuel : Nat) (s : State) (f : Nat), TablesIn s T → fuel ≤ f →
    T.compStep fuel (s.vars 0) (s.vars 2) ≠ .bad →
    ∃ s1, loop (fun s' => stepCond.eval s') (fun s' => B.run s') f s = (s1, .normal) ∧
      stepNxt.run s1 = (setVar s1 0 (valOf T (T.compStep fuel (s.vars 0) (s.vars 2))), .normal) ∧
      TablesIn s1 T ∧ (∀ y, y ≠ 0 → y ≠ 2 → s1.vars y = s.vars y) ∧ s1.arr = s.arr ∧ s1.log = s.log := by
  intro fuel
  induction fuel with
  | zero => intro s f _ _ h; simp [Tables.compStep] at h
  | succ fuel ih =>
    intro s f hT hf hnb
    obtain ⟨f', rfl⟩ : ∃ f', f = f' + 1 := ⟨f - 1, by omega⟩
    have hbase := tab_eval hT.base (.var 0) (s.vars 0) rfl
    unfold Tables.compStep at hnb ⊢
    cases hb : rd T.base (s.vars 0) with
    | none => simp [hb] at hnb
    | some b =>
      simp only [hb] at hnb ⊢
      have hsum : (Ex.add (.tab 2 (.var 0)) (.var 2)).eval s = some (b + s.vars 2) :=
        eval_add_some (hbase.trans hb) (eval_var s 2)
      have hchk := tab_eval hT.chk _ _ hsum
      cases hk : rd T.chk (b + s.vars 2) with
      | none => simp [hk] at hnb
      | some k =>
        simp only [hk] at hnb ⊢
        have hcond : stepCond.eval s = some (b2i (b2i (k == s.vars 0) == 0)) :=
          eval_not_some (eval_eq_some (hchk.trans hk) (eval_var s 0))
        by_cases hks : k = s.vars 0
        · simp only [hks, if_true] at hnb ⊢
          cases hn : rd T.nxt (b + s.vars 2) with
          | none => simp [hn] at hnb
          | some n =>
            have hc : stepCond.eval s = some 0 := by rw [hcond]; simp [hks, b2i]
            refine ⟨s, ?_, ?_, hT, fun _ _ _ => rfl, rfl, rfl⟩
            · rw [loop]; try dsimp only
              rw [hc]; rfl
            · have hnx := (tab_eval hT.nxt _ _ hsum).trans hn
              rw [stepNxt, run_assign_some hnx]
              congr 2
              by_cases hj : n = T.jamState
              · simp [hj, valOf]
              · simp [hj, valOf]
        · simp only [hks, if_false] at hnb ⊢
          have hc : stepCond.eval s = some 1 := by rw [hcond]; simp [hks, b2i]
          cases hd : rd T.deflt (s.vars 0) with
          | none => simp [hd] at hnb
          | some d =>
            simp only [hd] at hnb ⊢
            have h1 : ((1 : Int) != 0) = true := by decide
            by_cases hmeta : T.useMecs = true ∧ d ≥ T.jamState + 1
            · have hcnd : (T.useMecs && decide (d ≥ T.jamState + 1)) = true := by simp [hmeta.1, hmeta.2]
              simp only [hcnd, if_true] at hnb ⊢
              cases hme : rd T.metaEc (s.vars 2) with
              | none => simp [hme] at hnb
              | some c' =>
                simp only [hme] at hnb ⊢
                have hbody := hB.withMeta hmeta.1 s d c' hT hd hmeta.2 hme
                have hT1 : TablesIn (setVar (setVar s 0 d) 2 c') T := tablesIn_setVar (tablesIn_setVar hT 0 d (by omega)) 2 c' (by omega)
                have e0 : (setVar (setVar s 0 d) 2 c').vars 0 = d := by simp [C01Step.setVar_vars]
                have e2 : (setVar (setVar s 0 d) 2 c').vars 2 = c' := by simp [C01Step.setVar_vars]
                obtain ⟨s1, hl, hn, hT', hfr, ha, hlg⟩ := ih (setVar (setVar s 0 d) 2 c') f' hT1 (by omega) (by rw [e0, e2]; exact hnb)
                rw [e0, e2] at hn
                refine ⟨s1, ?_, hn, hT', ?_, by rw [ha]; simp, by rw [hlg]; simp⟩
                · rw [loop]; try dsimp only
                  rw [hc, hbody]; simp only [h1, if_true]; exact hl
                · intro y h0 h2; rw [hfr y h0 h2]; simp [C01Step.setVar_vars, h0, h2]
            · have hcnd : (T.useMecs && decide (d ≥ T.jamState + 1)) = false := by
                by_cases hu : T.useMecs = true
                · have : ¬ d ≥ T.jamState + 1 := fun h => hmeta ⟨hu, h⟩
                  simp [this]
                · simp [hu]
              simp only [hcnd, Bool.false_eq_true, if_false] at hnb ⊢
              have hbody := hB.plain s d hT hd hmeta
              have hT0 : TablesIn (setVar s 0 d) T := tablesIn_setVar hT 0 d (by omega)
              have e0 : (setVar s 0 d).vars 0 = d := by simp [C01Step.setVar_vars]
              have e2 : (setVar s 0 d).vars 2 = s.vars 2 := by simp [C01Step.setVar_vars]
              obtain ⟨s1, hl, hn, hT', hfr, ha, hlg⟩ := ih (setVar s 0 d) f' hT0 (by omega) (by rw [e0, e2]; exact hnb)
              rw [e0, e2] at hn
              refine ⟨s1, ?_, hn, hT', ?_, by rw [ha]; simp, by rw [hlg]; simp⟩
              · rw [loop]; try dsimp only
                rw [hc, hbody]; simp only [h1, if_true]; exact hl
              · intro y h0 h2; rw [hfr y h0 h2]; simp [C01Step.setVar_vars, h0]

theorem step_code (T : Tables) (B : St) (hB : BodyOK T B) (s : State) (hT : TablesIn s T)
    (hnb : T.compStep (T.deflt.size + 2) (s.vars 0) (s.vars 2) ≠ .bad) :
    ∃ s1, (St.seq (loopOf B) stepNxt).run s =
        (setVar s1 0 (valOf T (T.compStep (T.deflt.size + 2) (s.vars 0) (s.vars 2))), .normal) ∧
      TablesIn s1 T ∧ (∀ y, y ≠ 0 → y ≠ 2 → s1.vars y = s.vars y) ∧ s1.arr = s.arr ∧ s1.log = s.log := by
  obtain ⟨s1, hl, hn, hT1, hfr, ha, hlg⟩ := comp_code T B hB (T.deflt.size + 2) s (T.deflt.size + 2) hT (Nat.le_refl _) hnb
  refine ⟨s1, ?_, hT1, hfr, ha, hlg⟩
  have hb : (Ex.add (.var 5004) (.lit 2)).eval s = some ((T.deflt.size : Int) + 2) := by
    have := hT.deflt.len
    simp only [tabLen] at this
    exact eval_add_some (by rw [eval_var]; exact congrArg some this) (eval_lit s 2)
  have hrun : (loopOf B).run s = (s1, .normal) := by
    simp only [loopOf, St.run, hb]
    have : ((T.deflt.size : Int) + 2).toNat = T.deflt.size + 2 := by omega
    rw [this]; exact hl
  rw [run_seq_normal hrun, hn]

/-- yy_try_NUL_trans() with loop body `B` -/
def nulTransOf (B : St) : St :=
  .seq (.assign 1 (.var 5)) (.seq (.assign 2 (.var 10)) (.seq saveAcc (.seq (loopOf B) (.seq stepNxt
    (.seq (.assign 9 (.eq (.var 0) (.var 11))) (.ret (.cond (.var 9) (.lit 0) (.var 0))))))))

theorem nulTrans_spec (T : Tables) (B : St) (hB : BodyOK T B) (hk : T.kind = .compressed) (hnt : T.hasNulTrans = false)
    (s : State) (hT : TablesIn s T) (ha : rd T.accept (s.vars 0) ≠ none) (hnb : T.stepByte (s.vars 0) 0 ≠ .bad) :
    ∃ s', (nulTransOf B).run s = (s', .returned (match T.stepByte (s.vars 0) 0 with | .st n => n | _ => 0)) ∧
      s'.arr = s.arr ∧ s'.log = s.log := by
  have hsb : T.stepByte (s.vars 0) 0 = T.compStep (T.deflt.size + 2) (s.vars 0) T.nulEc := by
    simp [Tables.stepByte, hnt, Tables.stepClass, hk]
  rw [hsb] at hnb ⊢
  let s1 := setVar (setVar s 1 (s.vars 5)) 2 T.nulEc
  have h1 : (St.assign 1 (.var 5)).run s = (setVar s 1 (s.vars 5), .normal) := run_assign_some (eval_var s 5)
  have h2 : (St.assign 2 (.var 10)).run (setVar s 1 (s.vars 5)) = (s1, .normal) := by
    apply run_assign_some; rw [eval_var, C01Step.setVar_vars, if_neg (by omega), hT.nulEc]
  have hT1 : TablesIn s1 T := tablesIn_setVar (tablesIn_setVar hT 1 _ (by omega)) 2 _ (by omega)
  have e0 : s1.vars 0 = s.vars 0 := by simp [s1, C01Step.setVar_vars]
  have e2 : s1.vars 2 = T.nulEc := by simp [s1, C01Step.setVar_vars]
  obtain ⟨s2, hsa, hT2, hfr2, ha2, hl2⟩ := saveAcc_run hT1 (by rw [e0]; exact ha)
  have e0' : s2.vars 0 = s.vars 0 := by rw [hfr2 0 (by omega) (by omega), e0]
  have e2' : s2.vars 2 = T.nulEc := by rw [hfr2 2 (by omega) (by omega), e2]
  obtain ⟨s3, hst, hT3, hfr3, ha3, hl3⟩ := step_code T B hB s2 hT2 (by rw [e0', e2']; exact hnb)
  rw [e0', e2'] at hst
  rw [nulTransOf, run_seq_normal h1, run_seq_normal h2, run_seq_normal hsa]
  have hassoc : ∀ (r : St) (x : State), (St.seq (loopOf B) (.seq stepNxt r)).run x = (St.seq (.seq (loopOf B) stepNxt) r).run x := by
    intro r x; simp only [St.run]; cases (loopOf B).run x with | mk a o => cases o <;> rfl
  rw [hassoc, run_seq_normal hst]
  generalize hv : valOf T (T.compStep (T.deflt.size + 2) (s.vars 0) T.nulEc) = v
  have hjam : (setVar s3 0 v).vars 11 = T.jamState := by
    rw [C01Step.setVar_vars, if_neg (by omega)]; exact hT3.jam
  have h9 : (St.assign 9 (.eq (.var 0) (.var 11))).run (setVar s3 0 v) = (setVar (setVar s3 0 v) 9 (b2i (v == T.jamState)), .normal) := by
    apply run_assign_some
    rw [eval_eq_some (eval_var _ 0) (eval_var _ 11), hjam]; simp [C01Step.setVar_vars]
  rw [run_seq_normal h9]
  refine ⟨setVar (setVar s3 0 v) 9 (b2i (v == T.jamState)), ?_, by simp [ha3, ha2, s1], by simp [hl3, hl2, s1]⟩
  have hc : (Ex.cond (.var 9) (.lit 0) (.var 0)).eval (setVar (setVar s3 0 v) 9 (b2i (v == T.jamState))) =
      some (if v = T.jamState then 0 else v) := by
    rw [eval_cond_some (eval_var _ 9)]
    by_cases hj : v = T.jamState
    · simp [C01Step.setVar_vars, hj, b2i, Ex.eval]
    · simp [C01Step.setVar_vars, hj, b2i, Ex.eval]
  simp only [St.run, hc]
  congr 2
  cases hcs : T.compStep (T.deflt.size + 2) (s.vars 0) T.nulEc with
  | bad => exact absurd hcs hnb
  | jam => simp [hcs, valOf] at hv; simp [← hv]
  | st n =>
    have := compStep_st_ne_jam T _ _ _ _ hcs
    simp [hcs, valOf] at hv; simp [← hv, this]


/-! ### the class of a cell, and yy_get_previous_state() -/

/-- the expression that maps the cell under `yy_cp` to its column does what the decoder does: `yy_ec` or the byte itself for a
    non-NUL byte, the NUL class for a NUL -/
structure ClassOK (T : Tables) (CE : Ex) : Prop where
  nz : ∀ (s : State) (b : Int), TablesIn s T → (Ex.idx (.var 1)).eval s = some b → b ≠ 0 →
    CE.eval s = (if T.useEcs then rd T.ec b else some b)
  z : ∀ (s : State), TablesIn s T → (Ex.idx (.var 1)).eval s = some 0 → CE.eval s = some T.nulEc

def cellStep (T : Tables) (cur b : Int) : DState :=
  if b = 0 then T.compStep (T.deflt.size + 2) cur T.nulEc
  else match (if T.useEcs then rd T.ec b else some b) with
    | none => .bad
    | some c => T.compStep (T.deflt.size + 2) cur c

theorem cellStep_eq_stepByte (T : Tables) (hk : T.kind = .compressed) (hnt : T.hasNulTrans = false)
    (cur : Int) (b : UInt8) : cellStep T cur (b.toNat : Int) = T.stepByte cur b := by
  unfold cellStep Tables.stepByte
  by_cases hb : b = 0
  · subst hb; simp [hnt, Tables.stepClass, hk]
  · have : (b.toNat : Int) ≠ 0 := by
      intro h
      apply hb
      have h0 : b.toNat = 0 := by omega
      exact UInt8.toNat_inj.mp (by simpa using h0)
    simp only [this, if_false, hb, Tables.classOf, Tables.stepClass, hk]
    by_cases he : T.useEcs = true
    · simp only [he, if_true]; cases rd T.ec (b.toNat : Int) <;> rfl
    · simp only [he, Bool.false_eq_true, if_false]

def walk (T : Tables) : Int → List Int → Option Int
  | cur, [] => some cur
  | cur, b :: rest =>
    match rd T.accept cur, cellStep T cur b with
    | some _, .st n => walk T n rest
    | _, _ => none

def forBodyOf (B : St) (CE : Ex) : St :=
  .seq (.seq (.assign 2 CE) (.seq saveAcc (.seq (loopOf B) stepNxt))) (.assign 1 (.add (.var 1) (.lit 1)))
def prevStateOf (B : St) (CE : Ex) : St :=
  .seq (.assign 0 (.var 6)) (.seq (.seq (.assign 1 (.add (.var 3) (.var 4))) (.while_ forCond (forBodyOf B CE))) (.ret (.var 0)))

theorem forBody_run (T : Tables) (B : St) (CE : Ex) (hB : BodyOK T B) (hC : ClassOK T CE) (s : State) (hT : TablesIn s T)
    (cp : Nat) (b n : Int) (h1 : s.vars 1 = cp) (hb : s.arr[cp]? = some b) (ha : rd T.accept (s.vars 0) ≠ none)
    (hst : cellStep T (s.vars 0) b = .st n) :
    ∃ s', (forBodyOf B CE).run s = (s', .normal) ∧ TablesIn s' T ∧ s'.vars 0 = n ∧ s'.vars 1 = (cp : Int) + 1 ∧
      (∀ y, y ≠ 0 → y ≠ 1 → y ≠ 2 → y ≠ 7 → y ≠ 8 → s'.vars y = s.vars y) ∧ s'.arr = s.arr ∧ s'.log = s.log := by
  have hidx : (Ex.idx (.var 1)).eval s = some b :=
    eval_idx_some (eval_var s 1) (by rw [h1]; omega) (by rw [h1]; simpa using hb)
  obtain ⟨c0, hcl, hcs⟩ : ∃ c0, (St.assign 2 CE).run s = (setVar s 2 c0, .normal) ∧
      T.compStep (T.deflt.size + 2) (s.vars 0) c0 = .st n := by
    by_cases hz : b = 0
    · refine ⟨T.nulEc, ?_, by simpa [cellStep, hz] using hst⟩
      subst hz
      exact run_assign_some (hC.z s hT hidx)
    · simp only [cellStep, hz, if_false] at hst
      cases hec : (if T.useEcs then rd T.ec b else some b) with
      | none => simp [hec] at hst
      | some c =>
        refine ⟨c, ?_, by simpa [hec] using hst⟩
        exact run_assign_some ((hC.nz s b hT hidx hz).trans hec)
  have hT1 : TablesIn (setVar s 2 c0) T := tablesIn_setVar hT 2 c0 (by omega)
  have e0 : (setVar s 2 c0).vars 0 = s.vars 0 := by simp [C01Step.setVar_vars]
  obtain ⟨s2, hsa, hT2, hfr2, ha2, hl2⟩ := saveAcc_run hT1 (by rw [e0]; exact ha)
  have e0' : s2.vars 0 = s.vars 0 := by rw [hfr2 0 (by omega) (by omega), e0]
  have e2' : s2.vars 2 = c0 := by rw [hfr2 2 (by omega) (by omega)]; simp [C01Step.setVar_vars]
  obtain ⟨s3, hstp, hT3, hfr3, ha3, hl3⟩ := step_code T B hB s2 hT2 (by rw [e0', e2', hcs]; simp)
  rw [e0', e2', hcs] at hstp
  simp only [valOf] at hstp
  have hinc : (St.assign 1 (.add (.var 1) (.lit 1))).run (setVar s3 0 n) = (setVar (setVar s3 0 n) 1 ((cp : Int) + 1), .normal) := by
    apply run_assign_some
    rw [eval_add_some (eval_var _ 1) (eval_lit _ 1)]
    have : (setVar s3 0 n).vars 1 = cp := by
      rw [C01Step.setVar_vars, if_neg (by omega), hfr3 1 (by omega) (by omega), hfr2 1 (by omega) (by omega), C01Step.setVar_vars,
        if_neg (by omega), h1]
    rw [this]
  refine ⟨setVar (setVar s3 0 n) 1 ((cp : Int) + 1), ?_, tablesIn_setVar (tablesIn_setVar hT3 0 n (by omega)) 1 _ (by omega),
    by simp [C01Step.setVar_vars], by simp [C01Step.setVar_vars], ?_, by simp [ha3, ha2], by simp [hl3, hl2]⟩
  · rw [forBodyOf]
    have hinner : (St.seq (.assign 2 CE) (.seq saveAcc (.seq (loopOf B) stepNxt))).run s = (setVar s3 0 n, .normal) := by
      rw [run_seq_normal hcl, run_seq_normal hsa, hstp]
    rw [run_seq_normal hinner, hinc]
  · intro y h0 h1' h2 h7 h8
    rw [C01Step.setVar_vars, if_neg h1', C01Step.setVar_vars, if_neg h0, hfr3 y h0 h2, hfr2 y h7 h8, C01Step.setVar_vars, if_neg h2]

theorem for_loop (T : Tables) (B : St) (CE : Ex) (hB : BodyOK T B) (hC : ClassOK T CE) :
    ∀ (cells : List Int) (s : State) (cp : Nat) (fuel : Nat) (n : Int),
    TablesIn s T → s.vars 1 = cp → s.vars 5 = ((cp + cells.length : Nat) : Int) →
    (s.arr.drop cp).take cells.length = cells → cp + cells.length ≤ s.arr.length →
    walk T (s.vars 0) cells = some n → cells.length + 1 ≤ fuel →
    ∃ s', loop (fun x => forCond.eval x) (fun x => (forBodyOf B CE).run x) fuel s = (s', .normal) ∧ s'.vars 0 = n ∧
      s'.arr = s.arr ∧ s'.log = s.log := by
  intro cells
  induction cells with
  | nil =>
    intro s cp fuel n _ h1 h5 _ _ hw hf
    obtain ⟨f, rfl⟩ : ∃ f, fuel = f + 1 := ⟨fuel - 1, by omega⟩
    have hc : forCond.eval s = some 0 := by
      rw [forCond, eval_lt_some (eval_var s 1) (eval_var s 5), h1, h5]; simp [b2i]
    refine ⟨s, ?_, by simpa [walk] using hw, rfl, rfl⟩
    rw [loop]; try dsimp only
    rw [hc]; rfl
  | cons b rest ih =>
    intro s cp fuel n hT h1 h5 hcells hlen hw hf
    obtain ⟨f, rfl⟩ : ∃ f, fuel = f + 1 := ⟨fuel - 1, by omega⟩
    simp only [List.length_cons] at hcells hlen h5 hf
    have hc : forCond.eval s = some 1 := by
      rw [forCond, eval_lt_some (eval_var s 1) (eval_var s 5), h1, h5]
      have : ((cp : Int) < ((cp + (rest.length + 1) : Nat) : Int)) := by omega
      simp only [b2i, this, decide_true, if_true]
    have hcp : cp < s.arr.length := by omega
    have hd : s.arr.drop cp = s.arr[cp] :: s.arr.drop (cp + 1) := List.drop_eq_getElem_cons hcp
    rw [hd, List.take_succ_cons] at hcells
    have hb : s.arr[cp]? = some b := by
      rw [List.getElem?_eq_getElem hcp]; congr 1; exact (List.cons.inj hcells).1
    have hrest : (s.arr.drop (cp + 1)).take rest.length = rest := (List.cons.inj hcells).2
    simp only [walk] at hw
    cases hacc : rd T.accept (s.vars 0) with
    | none => simp [hacc] at hw
    | some a =>
      cases hcs : cellStep T (s.vars 0) b with
      | bad => simp [hacc, hcs] at hw
      | jam => simp [hacc, hcs] at hw
      | st n1 =>
        simp only [hacc, hcs] at hw
        obtain ⟨s1, hrun, hT1, e0, e1, hfr, ha, hl⟩ := forBody_run T B CE hB hC s hT cp b n1 h1 hb (by rw [hacc]; simp) hcs
        obtain ⟨s', hl', hn', ha', hlg'⟩ := ih s1 (cp + 1) f n hT1 (by rw [e1]; simp)
          (by rw [hfr 5 (by omega) (by omega) (by omega) (by omega) (by omega), h5]; congr 1; omega)
          (by rw [ha]; exact hrest) (by rw [ha]; omega) (by rw [e0]; exact hw) (by omega)
        refine ⟨s', ?_, hn', by rw [ha', ha], by rw [hlg', hl]⟩
        rw [loop]; try dsimp only
        rw [hc, hrun]
        have h1' : ((1 : Int) != 0) = true := by decide
        simp only [h1', if_true]
        exact hl'

theorem prevState_spec (T : Tables) (B : St) (CE : Ex) (hB : BodyOK T B) (hC : ClassOK T CE) (s : State) (hT : TablesIn s T)
    (t0 len : Nat) (n : Int) (ht : s.vars 3 + s.vars 4 = t0) (he : s.vars 5 = ((t0 + len : Nat) : Int)) (hin : t0 + len ≤ s.arr.length)
    (hw : walk T (s.vars 6) ((s.arr.drop t0).take len) = some n) :
    ∃ s', (prevStateOf B CE).run s = (s', .returned n) ∧ s'.arr = s.arr ∧ s'.log = s.log := by
  have h0 : (St.assign 0 (.var 6)).run s = (setVar s 0 (s.vars 6), .normal) := run_assign_some (eval_var s 6)
  have h1 : (St.assign 1 (.add (.var 3) (.var 4))).run (setVar s 0 (s.vars 6)) = (setVar (setVar s 0 (s.vars 6)) 1 t0, .normal) := by
    apply run_assign_some
    rw [eval_add_some (eval_var _ 3) (eval_var _ 4)]; simp [C01Step.setVar_vars, ht]
  let s1 := setVar (setVar s 0 (s.vars 6)) 1 (t0 : Int)
  have hT1 : TablesIn s1 T := tablesIn_setVar (tablesIn_setVar hT 0 _ (by omega)) 1 _ (by omega)
  have hlen : ((s.arr.drop t0).take len).length = len := by simp; omega
  obtain ⟨s', hl, hn, ha, hlg⟩ := for_loop T B CE hB hC ((s.arr.drop t0).take len) s1 t0 (s1.arr.length + 3) n hT1
    (by simp [s1, C01Step.setVar_vars]) (by simp only [s1, C01Step.setVar_vars]; rw [hlen]; simpa using he)
    (by rw [hlen]; rfl) (by rw [hlen]; exact hin) (by simpa [s1, C01Step.setVar_vars] using hw) (by rw [hlen]; simp [s1]; omega)
  have hwl : (St.seq (.assign 1 (.add (.var 3) (.var 4))) (.while_ forCond (forBodyOf B CE))).run (setVar s 0 (s.vars 6)) = (s', .normal) := by
    rw [run_seq_normal h1]; simp only [St.run]; exact hl
  rw [prevStateOf, run_seq_normal h0, run_seq_normal hwl]
  refine ⟨s', ?_, by rw [ha]; simp [s1], by rw [hlg]; simp [s1]⟩
  simp [St.run, Ex.eval, hn]

/-! ### the four variants -/

def bodyNM : St := .assign 0 (.tab 4 (.var 0))
def classE : Ex := .cond (.idx (.var 1)) (.tab 0 (.idx (.var 1))) (.var 10)
def classNE : Ex := .cond (.idx (.var 1)) (.idx (.var 1)) (.var 10)

theorem bodyNM_ok (T : Tables) (hm : T.useMecs = false) : BodyOK T bodyNM := by
  refine ⟨fun h => by rw [hm] at h; exact absurd h (by simp), fun s d hT hd _ => ?_⟩
  exact run_assign_some ((tab_eval hT.deflt (.var 0) (s.vars 0) rfl).trans hd)

theorem bodyM_ok (T : Tables) (hm : T.useMecs = true) : BodyOK T stepBody := by
  refine ⟨fun _ s d c' hT hd hge hme => ?_, fun s d hT hd hno => ?_⟩
  all_goals
    have hdef := tab_eval hT.deflt (.var 0) (s.vars 0) rfl
    have hT0 : TablesIn (setVar s 0 d) T := tablesIn_setVar hT 0 d (by omega)
    have ha0 : (St.assign 0 (.tab 4 (.var 0))).run s = (setVar s 0 d, .normal) := run_assign_some (hdef.trans hd)
    have hjam : (setVar s 0 d).vars 11 = T.jamState := by rw [C01Step.setVar_vars, if_neg (by omega)]; exact hT.jam
    have htest : (Ex.le (.add (.var 11) (.lit 1)) (.var 0)).eval (setVar s 0 d) = some (b2i (T.jamState + 1 ≤ d)) := by
      have := eval_le_some (eval_add_some (eval_var (setVar s 0 d) 11) (eval_lit _ 1)) (eval_var (setVar s 0 d) 0)
      rw [this, hjam]; simp [C01Step.setVar_vars]
  · have hmeta' : (Ex.tab 6 (.var 2)).eval (setVar s 0 d) = some c' := by
      rw [tab_eval hT0.metaEc (.var 2) (s.vars 2) (by simp [Ex.eval, C01Step.setVar_vars])]
      exact hme
    rw [stepBody, run_seq_normal ha0, run_ite_some htest]
    have : (b2i (T.jamState + 1 ≤ d) != 0) = true := by simp [b2i, hge]
    simp only [this, if_true]
    exact run_assign_some hmeta'
  · have hn' : ¬ (T.jamState + 1 ≤ d) := fun h => hno ⟨hm, h⟩
    rw [stepBody, run_seq_normal ha0, run_ite_some htest]
    have : (b2i (T.jamState + 1 ≤ d) != 0) = false := by simp [b2i, hn']
    simp only [this, Bool.false_eq_true, if_false]
    rfl

theorem classE_ok (T : Tables) (he : T.useEcs = true) : ClassOK T classE := by
  refine ⟨fun s b hT hidx hz => ?_, fun s hT hidx => ?_⟩
  · rw [classE, eval_cond_some hidx]
    have : (b != 0) = true := by simp [hz]
    simp only [this, if_true, he]
    exact tab_eval hT.ec _ _ hidx
  · rw [classE, eval_cond_some hidx]; simp [eval_var, hT.nulEc]

theorem classNE_ok (T : Tables) (he : T.useEcs = false) : ClassOK T classNE := by
  refine ⟨fun s b hT hidx hz => ?_, fun s hT hidx => ?_⟩
  · rw [classNE, eval_cond_some hidx]
    have : (b != 0) = true := by simp [hz]
    simp only [this, if_true, he, Bool.false_eq_true, if_false]
    exact hidx
  · rw [classNE, eval_cond_some hidx]; simp [eval_var, hT.nulEc]

theorem shape_Cem : Gen.PrevState.prevState = prevStateOf stepBody classE ∧ Gen.PrevState.nulTrans = nulTransOf stepBody := ⟨rfl, rfl⟩
theorem shape_Ce : Gen.PrevStateCe.prevState = prevStateOf bodyNM classE ∧ Gen.PrevStateCe.nulTrans = nulTransOf bodyNM := ⟨rfl, rfl⟩
theorem shape_Cm : Gen.PrevStateCm.prevState = prevStateOf stepBody classNE ∧ Gen.PrevStateCm.nulTrans = nulTransOf stepBody := ⟨rfl, rfl⟩
theorem shape_C : Gen.PrevStateC.prevState = prevStateOf bodyNM classNE ∧ Gen.PrevStateC.nulTrans = nulTransOf bodyNM := ⟨rfl, rfl⟩

/-- **every compressed table variant**: the translated yy_get_previous_state() of the variant that matches the tables' flags
    returns the state the decoder's steps lead to -/
theorem prevState_all (T : Tables) (s : State) (hT : TablesIn s T) (t0 len : Nat) (n : Int)
    (ht : s.vars 3 + s.vars 4 = t0) (he : s.vars 5 = ((t0 + len : Nat) : Int)) (hin : t0 + len ≤ s.arr.length)
    (hw : walk T (s.vars 6) ((s.arr.drop t0).take len) = some n) :
    let prog := match T.useEcs, T.useMecs with
      | true, true => Gen.PrevState.prevState
      | true, false => Gen.PrevStateCe.prevState
      | false, true => Gen.PrevStateCm.prevState
      | false, false => Gen.PrevStateC.prevState
    ∃ s', prog.run s = (s', .returned n) ∧ s'.arr = s.arr ∧ s'.log = s.log := by
  cases hE : T.useEcs <;> cases hM : T.useMecs <;> simp only
  · rw [shape_C.1]; exact prevState_spec T _ _ (bodyNM_ok T hM) (classNE_ok T hE) s hT t0 len n ht he hin hw
  · rw [shape_Cm.1]; exact prevState_spec T _ _ (bodyM_ok T hM) (classNE_ok T hE) s hT t0 len n ht he hin hw
  · rw [shape_Ce.1]; exact prevState_spec T _ _ (bodyNM_ok T hM) (classE_ok T hE) s hT t0 len n ht he hin hw
  · rw [shape_Cem.1]; exact prevState_spec T _ _ (bodyM_ok T hM) (classE_ok T hE) s hT t0 len n ht he hin hw

/-- and the translated yy_try_NUL_trans() of that variant returns the decoder's transition on a NUL -/
theorem nulTrans_all (T : Tables) (hk : T.kind = .compressed) (hnt : T.hasNulTrans = false) (s : State) (hT : TablesIn s T)
    (ha : rd T.accept (s.vars 0) ≠ none) (hnb : T.stepByte (s.vars 0) 0 ≠ .bad) :
    let prog := match T.useEcs, T.useMecs with
      | true, true => Gen.PrevState.nulTrans
      | true, false => Gen.PrevStateCe.nulTrans
      | false, true => Gen.PrevStateCm.nulTrans
      | false, false => Gen.PrevStateC.nulTrans
    ∃ s', prog.run s = (s', .returned (match T.stepByte (s.vars 0) 0 with | .st n => n | _ => 0)) ∧ s'.arr = s.arr ∧ s'.log = s.log := by
  cases hE : T.useEcs <;> cases hM : T.useMecs <;> simp only
  · rw [shape_C.2]; exact nulTrans_spec T _ (bodyNM_ok T hM) hk hnt s hT ha hnb
  · rw [shape_Cm.2]; exact nulTrans_spec T _ (bodyM_ok T hM) hk hnt s hT ha hnb
  · rw [shape_Ce.2]; exact nulTrans_spec T _ (bodyNM_ok T hM) hk hnt s hT ha hnb
  · rw [shape_Cem.2]; exact nulTrans_spec T _ (bodyM_ok T hM) hk hnt s hT ha hnb

end FlexVerif.C01StepGen

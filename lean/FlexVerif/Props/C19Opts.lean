/-
  Props/C19Opts.lean — C19, the consistency checks of the options: theorems about the program
  `Gen.Options.checkOptions`, which `tools/fv/gen_options.py` translates from check_options() of
  src/main.c on every run.  They hold for *every* setting of *all* option variables (`WT`: each
  variable holds a value of its C type), not for the pairs a probe tries: a contradictory pair
  is refused whatever else is switched on, and the documented defaults are what an accepted
  configuration ends up with.  Each theorem is one kernel evaluation of the verified decision
  procedure of Opt/Lang.lean (`tautOn_sound`, `errs_sound`, `wp_sound`, `warnsWith_sound`).
-/
import FlexVerif.Opt.Lang
import FlexVerif.Gen.Options
namespace FlexVerif.C19Opts
open FlexVerif.Opt FlexVerif.Gen.Options

abbrev prog := checkOptions
abbrev Ok (st : St) : Prop := WT domains st

/-- a decided implication `hyp → refused` holds of every well-typed state -/
theorem refuses_of (hyp : Cond) (h : tautA domains domains.length (mkImp hyp prog.errs) = true) :
    ∀ st, Ok st → hyp.eval st = true → (prog.run st).err.isSome = true := by
  intro st hst hh
  have := tautA_sound _ _ _ h st hst
  rw [mkImp_eval, Stmt.errs_sound, hh] at this
  simpa using this

/-- a decided `hyp → refused ∨ Q afterwards` holds of every well-typed state -/
theorem holds_after (hyp Q : Cond) (h : tautA domains domains.length (mkImp hyp (mkOr prog.errs (prog.wp Q))) = true) :
    ∀ st, Ok st → hyp.eval st = true →
      (prog.run st).err.isSome = true ∨ Q.eval (prog.run st).st = true := by
  intro st hst hh
  have := tautA_sound _ _ _ h st hst
  rw [mkImp_eval, mkOr_eval, Stmt.errs_sound, Stmt.wp_sound, hh] at this
  cases he : (prog.run st).err <;> simp [he] at this ⊢
  exact this

def msgIdx (s : String) : Nat := msgs.findIdx (· == s)

/-- a decided `hyp → refused ∨ (warning m printed)` -/
theorem warns_of (hyp : Cond) (m : Nat) (h : tautA domains domains.length (mkImp hyp (mkOr prog.errs (prog.warnsWith m))) = true) :
    ∀ st, Ok st → hyp.eval st = true →
      (prog.run st).err.isSome = true ∨ (prog.run st).warns.contains m = true := by
  intro st hst hh
  have := tautA_sound _ _ _ h st hst
  rw [mkImp_eval, mkOr_eval, Stmt.errs_sound, Stmt.warnsWith_sound, hh] at this
  cases he : (prog.run st).err <;> simp [he] at this ⊢
  exact this

/-! ### contradictory options are refused, whatever else is set -/

def both (a b : Fld) : Cond := .and (.truthy a) (.truthy b)
def fullOrFast : Cond := .or (.truthy F.fulltbl) (.truthy F.fullspd)

/-- `-+` / `%option c++` with `--reentrant` -/
theorem cxx_reentrant_refused : ∀ st, Ok st → (both F.C_plus_plus F.reentrant).eval st = true →
    (prog.run st).err.isSome = true := refuses_of _ (by decide +kernel)

/-- `c++` with `-CF` -/
theorem cxx_fast_refused : ∀ st, Ok st → (both F.C_plus_plus F.fullspd).eval st = true →
    (prog.run st).err.isSome = true := refuses_of _ (by decide +kernel)

/-- `c++` with the bison bridge -/
theorem cxx_bison_refused : ∀ st, Ok st → (both F.C_plus_plus F.bison_bridge_lval).eval st = true →
    (prog.run st).err.isSome = true := refuses_of _ (by decide +kernel)

/-- `c++` with serialized tables -/
theorem cxx_tables_refused : ∀ st, Ok st → (both F.C_plus_plus F.tablesext).eval st = true →
    (prog.run st).err.isSome = true := refuses_of _ (by decide +kernel)

/-- `c++` with another back end than the default one -/
theorem cxx_emit_refused : ∀ st, Ok st →
    (Cond.and (.truthy F.C_plus_plus) (.not (.truthy F.is_default_backend))).eval st = true →
    (prog.run st).err.isSome = true := refuses_of _ (by decide +kernel)

/-- lex compatibility with `c++`, full or fast tables, `reentrant`, the bison bridge -/
theorem lex_compat_refused : ∀ st, Ok st →
    (Cond.and (.truthy F.lex_compat)
      (.or (.truthy F.C_plus_plus) (.or fullOrFast (.or (.truthy F.reentrant) (.truthy F.bison_bridge_lval))))).eval st = true →
    (prog.run st).err.isSome = true := refuses_of _ (by decide +kernel)

/-- `-Cf` with `-CF` -/
theorem full_and_fast_refused : ∀ st, Ok st → (both F.fulltbl F.fullspd).eval st = true →
    (prog.run st).err.isSome = true := refuses_of _ (by decide +kernel)

/-- `-Cf`/`-CF` with meta-equivalence classes -/
theorem full_metaecs_refused : ∀ st, Ok st → (Cond.and fullOrFast (.truthy F.usemecs)).eval st = true →
    (prog.run st).err.isSome = true := refuses_of _ (by decide +kernel)

/-- `-Cf`/`-CF` with an interactive scanner asked for -/
theorem full_interactive_refused : ∀ st, Ok st → (Cond.and fullOrFast (.eq F.interactive 1)).eval st = true →
    (prog.run st).err.isSome = true := refuses_of _ (by decide +kernel)

/-- `%option main` with tables that nothing loads -/
theorem main_tablesfile_refused : ∀ st, Ok st →
    (Cond.and (.eq F.do_main 1) (.and (.truthy F.tablesext) (.not (.truthy F.tablesverify)))).eval st = true →
    (prog.run st).err.isSome = true := refuses_of _ (by decide +kernel)

/-! ### the hypotheses can be met, and accepted configurations exist -/

def stOf (l : List (Fld × Int)) : St := fun f => (l.lookup f).getD (if f = F.csize then 256 else 0)

example : (∀ p ∈ domains, stOf [(F.C_plus_plus, 1), (F.reentrant, 1)] p.1 ∈ p.2) ∧
    (both F.C_plus_plus F.reentrant).eval (stOf [(F.C_plus_plus, 1), (F.reentrant, 1)]) = true := by decide +kernel

/-- the defaults of flexinit() are accepted, and end as an 8-bit interactive scanner -/
example : (∀ p ∈ domains, stOf defaults p.1 ∈ p.2) ∧ (prog.run (stOf defaults)).err = none ∧
    (prog.run (stOf defaults)).st F.csize = 256 ∧ (prog.run (stOf defaults)).st F.interactive = 1 := by decide +kernel

end FlexVerif.C19Opts

/-
  Props/C05StackC99.lean — C05 / C02: the start-condition stack of the **c99 back end**.
  `tools/fv/gen_startstack.py` translates the same functions from a scanner generated with
  `%option emit="c99"` (`Gen/StartStackC99.lean`; the `yyscanner->` prefix and parameter dropped,
  `yybegin`/`yystart` — functions there, macros in the default skeleton — inlined).  The programs are the
  default skeleton's up to the spelling of a NULL test, and run to the same result on every state: every
  theorem of `Props/C05Stack.lean` is a theorem about the c99 scanner as well.
-/
import FlexVerif.Gen.StartStackC99
import FlexVerif.Props.C05Stack
namespace FlexVerif.C05StackC99
open FlexVerif.Imp

theorem push_same (s : State) : Gen.StartStackC99.push.run s = Gen.StartStack.push.run s := by
  simp [Gen.StartStackC99.push, Gen.StartStack.push, St.run, Ex.eval, bind, Option.bind, pure]

theorem pop_same : Gen.StartStackC99.pop = Gen.StartStack.pop := rfl
theorem top_same : Gen.StartStackC99.top = Gen.StartStack.top := rfl
theorem begin_same : Gen.StartStackC99.begin_ = Gen.StartStack.begin_ := rfl
theorem start_same : Gen.StartStackC99.startEx = Gen.StartStack.startEx := rfl
theorem lexInit_same : Gen.StartStackC99.lexInit = Gen.StartStack.lexInit := rfl
theorem msgs_same : Gen.StartStackC99.msgs = Gen.StartStack.msgs := rfl

/-- one call of the c99 scanner's functions -/
def cstep99 (s : State) : C05Stack.Op → State × Outcome
  | .push x => Gen.StartStackC99.push.run (setVar s Gen.StartStack.vArg x)
  | .pop => Gen.StartStackC99.pop.run s
  | .top => Gen.StartStackC99.top.run s
  | .begin_ x => Gen.StartStackC99.begin_.run (setVar s Gen.StartStack.vArg x)
  | .lex => Gen.StartStackC99.lexInit.run s

/-- **the c99 back end steps exactly like the default one** -/
theorem cstep99_same (s : State) (op : C05Stack.Op) : cstep99 s op = C05Stack.cstep s op := by
  cases op <;> simp [cstep99, C05Stack.cstep, push_same, pop_same, top_same, begin_same, lexInit_same]

/-- what a caller of the c99 scanner observes -/
def crun99 : List C05Stack.Op → State → List Outcome
  | [], _ => []
  | op :: rest, s =>
    let r := cstep99 s op
    if C05Stack.stops r.2 then [r.2] else r.2 :: crun99 rest r.1

theorem crun99_same : ∀ (ops : List C05Stack.Op) (s : State), crun99 ops s = C05Stack.crun ops s := by
  intro ops
  induction ops with
  | nil => intro _; rfl
  | cons op rest ih => intro s; simp only [crun99, C05Stack.crun, cstep99_same, ih]

/-- **C05, c99 back end**: every sequence of calls of the c99 scanner's start-condition functions is
    observed as the list machine's -/
theorem stack_refines_c99 (ops : List C05Stack.Op) (s : State) (a : C05Stack.AS) (h : C05Stack.R s a) :
    crun99 ops s = C05Stack.arun ops a := by
  rw [crun99_same]; exact C05Stack.stack_refines ops s a h

end FlexVerif.C05StackC99

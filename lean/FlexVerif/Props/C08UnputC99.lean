/-
  Props/C08UnputC99.lean — C08: `yyunput()` of the **c99 back end** (`Gen/UnputC99.lean`).  The function has no `yy_bp`
  parameter: where the default skeleton's `yyunput_r` moves `yy_bp` and copies it to `yytext_ptr` at the end, this
  one moves `yytext_r` itself (translated as the same variable 7).  The two programs are the same text up to that final
  copy; every run of one is a run of the other up to the variable `yytext_ptr`, and `unput_spec` carries over.
-/
import FlexVerif.Gen.UnputC99
import FlexVerif.Props.C08Unput
import FlexVerif.Props.C01Step
namespace FlexVerif.C08UnputC99
open FlexVerif.Imp FlexVerif.Gen.Unput FlexVerif.C08Unput

def tail99 : St :=
  .seq (.seq (.assign 6 (.add (.var 6) (.lit (-1)))) (.store (.var 6) (.var 11)))
  (.seq (.assign 1 (.idx (.var 6))) (.assign 0 (.var 6)))

theorem unput99_shape : Gen.UnputC99.unput =
    .seq pre1 (.seq pre2 (.seq (.ite needShift (.seq sh1 (.seq sh2 (.seq sh3 (.seq (.while_ copyCond copyBody) shRest)))) .skip) tail99)) := rfl

/-- the default skeleton's extra statement: `yytext_ptr = yy_bp` -/
def withText (s : State) : State := { s with vars := fun y => if y = 5 then s.vars 7 else s.vars y }

/-- two results agree up to `yytext_ptr` -/
def Rel (r r99 : State × Outcome) : Prop := r.2 = r99.2 ∧ (r.2 = .normal → r.1 = withText r99.1)

theorem state_ext {a b : State} (hv : ∀ y, a.vars y = b.vars y) (ha : a.arr = b.arr) (hl : a.log = b.log) : a = b := by
  cases a; cases b
  simp only at hv ha hl
  subst ha hl
  congr 1
  funext y; exact hv y

theorem tail_rel (s : State) : Rel (tail_.run s) (tail99.run s) := by
  unfold tail_ tail99
  cases hA : (St.seq (.assign 6 (.add (.var 6) (.lit (-1)))) (.store (.var 6) (.var 11))).run s with
  | mk s1 o =>
    cases o with
    | normal =>
      rw [C08Unput.run_seq_normal hA, C08Unput.run_seq_normal hA]
      have h5 : (St.assign 5 (.var 7)).run s1 = (setVar s1 5 (s1.vars 7), .normal) := by simp [St.run, Ex.eval]
      rw [C08Unput.run_seq_normal h5]
      -- yy_hold_char = *yy_cp
      cases hi : (Ex.idx (.var 6)).eval s1 with
      | none =>
        have hi' : (Ex.idx (.var 6)).eval (setVar s1 5 (s1.vars 7)) = none := by
          simpa [Ex.eval, C08Unput.setVar_vars, bind, Option.bind] using hi
        have hD : (St.seq (.assign 1 (.idx (.var 6))) (.assign 0 (.var 6))).run (setVar s1 5 (s1.vars 7)) = (setVar s1 5 (s1.vars 7), .oob) := by
          simp only [St.run, hi']
        have h9 : (St.seq (.assign 1 (.idx (.var 6))) (.assign 0 (.var 6))).run s1 = (s1, .oob) := by
          simp only [St.run, hi]
        rw [hD, h9]
        exact ⟨rfl, fun h => by simp at h⟩
      | some v =>
        have hi' : (Ex.idx (.var 6)).eval (setVar s1 5 (s1.vars 7)) = some v := by
          simpa [Ex.eval, C08Unput.setVar_vars, bind, Option.bind] using hi
        have hD : (St.seq (.assign 1 (.idx (.var 6))) (.assign 0 (.var 6))).run (setVar s1 5 (s1.vars 7)) =
            (setVar (setVar (setVar s1 5 (s1.vars 7)) 1 v) 0 (s1.vars 6), .normal) := by
          rw [C01Step.run_seq_normal (C01Step.run_assign_some hi')]
          exact C01Step.run_assign_some (by rw [C01Step.eval_var]; simp [C08Unput.setVar_vars])
        have h9 : (St.seq (.assign 1 (.idx (.var 6))) (.assign 0 (.var 6))).run s1 =
            (setVar (setVar s1 1 v) 0 (s1.vars 6), .normal) := by
          rw [C01Step.run_seq_normal (C01Step.run_assign_some hi)]
          exact C01Step.run_assign_some (by rw [C01Step.eval_var]; simp [C08Unput.setVar_vars])
        rw [hD, h9]
        refine ⟨rfl, fun _ => ?_⟩
        apply state_ext
        · intro y
          simp only [withText, C08Unput.setVar_vars]
          by_cases h0 : y = 0
          · simp [h0]
          · by_cases h1 : y = 1
            · simp [h1]
            · by_cases h5' : y = 5
              · simp [h5']
              · simp [h0, h1, h5']
        · rfl
        · rfl
    | fatal m => rw [C08Unput.run_seq_stop hA (by simp), C08Unput.run_seq_stop hA (by simp)]; exact ⟨rfl, fun h => by simp at h⟩
    | oob => rw [C08Unput.run_seq_stop hA (by simp), C08Unput.run_seq_stop hA (by simp)]; exact ⟨rfl, fun h => by simp at h⟩
    | returned v => rw [C08Unput.run_seq_stop hA (by simp), C08Unput.run_seq_stop hA (by simp)]; exact ⟨rfl, fun h => by simp at h⟩
    | fuel => rw [C08Unput.run_seq_stop hA (by simp), C08Unput.run_seq_stop hA (by simp)]; exact ⟨rfl, fun h => by simp at h⟩

theorem seq_rel (a t t' : St) (h : ∀ s, Rel (t.run s) (t'.run s)) (s : State) : Rel ((St.seq a t).run s) ((St.seq a t').run s) := by
  cases ha : a.run s with
  | mk s1 o =>
    cases o with
    | normal => rw [C08Unput.run_seq_normal ha, C08Unput.run_seq_normal ha]; exact h s1
    | fatal m => rw [C08Unput.run_seq_stop ha (by simp), C08Unput.run_seq_stop ha (by simp)]; exact ⟨rfl, fun h => by simp at h⟩
    | oob => rw [C08Unput.run_seq_stop ha (by simp), C08Unput.run_seq_stop ha (by simp)]; exact ⟨rfl, fun h => by simp at h⟩
    | returned v => rw [C08Unput.run_seq_stop ha (by simp), C08Unput.run_seq_stop ha (by simp)]; exact ⟨rfl, fun h => by simp at h⟩
    | fuel => rw [C08Unput.run_seq_stop ha (by simp), C08Unput.run_seq_stop ha (by simp)]; exact ⟨rfl, fun h => by simp at h⟩

/-- **the default skeleton's function and the c99 skeleton's agree up to `yytext_ptr`** -/
theorem unput_rel (s : State) : Rel (unput.run s) (Gen.UnputC99.unput.run s) := by
  rw [unput_shape, unput99_shape]
  exact seq_rel _ _ _ (fun s1 => seq_rel _ _ _ (fun s2 => seq_rel _ _ _ tail_rel s2) s1) s

/-- the state the c99 function leaves: as `Post`, the text pointer being variable 7 -/
structure Post99 (s' : State) (B n' p' bp' : Nat) : Prop where
  len : s'.arr.length = B + 2
  hn : n' ≤ B
  vn : s'.vars 2 = n'
  vb : s'.vars 4 = B
  hp : p' ≤ n'
  vp : s'.vars 0 = p'
  hbp : bp' ≤ p' + 1
  vtp : s'.vars 7 = bp'
  eob1 : (s'.arr.set p' (s'.vars 1))[n']? = some 0
  eob2 : s'.arr[n' + 1]? = some 0

/-- **C08, yyunput() of the c99 back end**: the statement of `unput_spec` -/
theorem unput99_spec {s : State} {B n p bp : Nat} {c : Int} (h : Pre s B n p bp) (hc : s.vars 11 = c) :
    (p < 2 ∧ p + (B - n) < 2 → (Gen.UnputC99.unput.run s).2 = .fatal pushbackMsg) ∧
    (¬ (p < 2 ∧ p + (B - n) < 2) → ∃ s' n' p' bp', Gen.UnputC99.unput.run s = (s', .normal) ∧ Post99 s' B n' p' bp' ∧
        unread s' n' p' = c :: unread s n p ∧ (n' ≠ n → s'.vars 3 = n')) := by
  obtain ⟨hf, hn⟩ := unput_spec h hc
  obtain ⟨ho, hs⟩ := unput_rel s
  refine ⟨fun hc' => by rw [← ho]; exact hf hc', fun hno => ?_⟩
  obtain ⟨sD, n', p', bp', hr, hP, hu, h3⟩ := hn hno
  have hon : (Gen.UnputC99.unput.run s).2 = .normal := by rw [← ho, hr]
  have hsD : sD = withText (Gen.UnputC99.unput.run s).1 := by
    have := hs (by rw [hr])
    rw [hr] at this; exact this
  refine ⟨(Gen.UnputC99.unput.run s).1, n', p', bp', ?_, ?_, ?_, ?_⟩
  · rw [← hon]
  · subst hsD
    exact ⟨hP.len, hP.hn, by simpa [withText] using hP.vn, by simpa [withText] using hP.vb, hP.hp,
      by simpa [withText] using hP.vp, hP.hbp, by simpa [withText] using hP.vtp,
      by simpa [withText] using hP.eob1, hP.eob2⟩
  · subst hsD
    simpa [unread, withText] using hu
  · intro hne
    subst hsD
    simpa [withText] using h3 hne

end FlexVerif.C08UnputC99

/-
  Props/C19SymbolsR2.lean — C19: `%option` word … check_options() … readin(), rows part 2 (see Props/C19Symbols.lean).
-/
import FlexVerif.Props.C19Symbols
namespace FlexVerif.C19Opts
open FlexVerif.Opt FlexVerif.Gen.Options

def reaches2 : List (Stmt × Fld × Bool × Cond) := [
  (O.o_interactive_on, F.sym_M4_MODE_INTERACTIVE, true, .ff),
  (O.o_batch_on, F.sym_M4_MODE_INTERACTIVE, false, .ff),
  (O.o_always_interactive_on, F.sym_M4_YY_ALWAYS_INTERACTIVE, true, .ff),
  (O.o_never_interactive_on, F.sym_M4_YY_NEVER_INTERACTIVE, true, .ff),
  (O.o_ecs_on, F.sym_M4_MODE_USEECS, true, .ff),
  (O.o_ecs_off, F.sym_M4_MODE_USEECS, false, .ff),
  (O.o_meta_ecs_on, F.sym_M4_MODE_USEMECS, true, .ff),
  (O.o_bison_bridge_on, F.sym_M4_YY_BISON_LVAL, true, .ff),
  (O.o_bison_locations_on, F.sym__M4_YY_BISON_LLOC, true, .ff),
  (O.o_bison_locations_on, F.sym_M4_YY_BISON_LVAL, true, .ff),
  (O.o_yywrap_off, F.sym_M4_MODE_YYWRAP, false, .ff),
  (O.o_input_off, F.sym_M4_MODE_NO_YYINPUT, true, .ff),
  (O.o_yyinput_off, F.sym_M4_MODE_NO_YYINPUT, true, .ff),
  (O.o_unput_off, F.sym_M4_YY_NO_YYUNPUT, true, .ff),
  (O.o_unistd_off, F.sym_M4_YY_NO_UNISTD_H, true, .ff)]

theorem options_reach_skeleton_2 : ∀ r ∈ reaches2, ∀ st, Ok st →
    ((pipeline r.1).run st).err.isSome = true ∨ r.2.2.2.eval st = true ∨
      (reachQ r).eval ((pipeline r.1).run st).st = true :=
  reach_sound reaches2 (by decide +kernel)

end FlexVerif.C19Opts

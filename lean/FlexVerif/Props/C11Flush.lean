/-
  Props/C11Flush.lean — C11 / C06 / C10: yy_flush_buffer(), yy_load_buffer_state() and yy_init_buffer() (the body of
  yyrestart() and of every "new file" at end of input), translated by `tools/fv/gen_flush.py` from a scanner flex has
  just generated (`Gen/Flush.lean`).  Proved for every buffer (of at least the two cells every buffer has):
  yy_flush_buffer(b) leaves b without buffered text (count 0, both end marks at the front, position at the front),
  at the beginning of a line and "new" — and touches neither its file nor its refill flag, so only text already
  buffered is discarded —; when b is the current buffer the scanner's own copies follow.  yy_init_buffer(b, file)
  does that, installs the file, makes b refillable iff there is a file, resets line and column only for a buffer that
  is not the current one, and restores errno.
-/
import FlexVerif.Imp.Lang
import FlexVerif.Gen.Flush
namespace FlexVerif.C11Flush
open FlexVerif.Imp FlexVerif.Gen.Flush

theorem setVar_vars (s : State) (x y : Nat) (v : Int) : (setVar s x v).vars y = if y = x then v else s.vars y := rfl
@[simp] theorem setVar_arr (s : State) (x : Nat) (v : Int) : (setVar s x v).arr = s.arr := rfl
@[simp] theorem setVar_log (s : State) (x : Nat) (v : Int) : (setVar s x v).log = s.log := rfl

theorem flush_null (s : State) (h : s.vars 0 = 0) : flush.run s = (s, .returned 0) := by
  simp [flush, St.run, Ex.eval, bind, Option.bind, pure, b2i, h]

/-- what yy_flush_buffer(b) establishes -/
structure Flushed (s s' : State) : Prop where
  nchars : s'.vars 2 = 0
  marks : s'.arr.take 2 = [0, 0]
  rest : s'.arr.drop 2 = s.arr.drop 2
  pos : s'.vars 3 = 0
  atbol : s'.vars 4 = 1
  status : s'.vars 5 = cYY_BUFFER_NEW
  file : s'.vars 6 = s.vars 6
  fill : s'.vars 7 = s.vars 7
  lineno : s'.vars 8 = s.vars 8 ∧ s'.vars 9 = s.vars 9
  log : s'.log = s.log
  cur : s.vars 1 ≠ 0 → s'.vars 11 = 0 ∧ s'.vars 12 = 0 ∧ s'.vars 13 = 0 ∧ s'.vars 14 = s.vars 6 ∧ s'.vars 15 = 0
  other : s.vars 1 = 0 → s'.vars 11 = s.vars 11 ∧ s'.vars 12 = s.vars 12 ∧ s'.vars 13 = s.vars 13 ∧ s'.vars 14 = s.vars 14 ∧
    s'.vars 15 = s.vars 15

/-- **yy_flush_buffer(b)**, b a buffer -/
theorem flush_spec (s : State) (hb : s.vars 0 ≠ 0) (hlen : 2 ≤ s.arr.length) :
    ∃ s', flush.run s = (s', .normal) ∧ Flushed s s' := by
  obtain ⟨x0, x1, rest, harr⟩ : ∃ x0 x1 rest, s.arr = x0 :: x1 :: rest := by
    match h : s.arr with
    | [] => simp [h] at hlen
    | [_] => simp [h] at hlen
    | x0 :: x1 :: rest => exact ⟨x0, x1, rest, rfl⟩
  by_cases hc : s.vars 1 = 0
  · refine ⟨_, by simp [flush, St.run, Ex.eval, bind, Option.bind, pure, b2i, hb, hc, harr, setVar_vars]; rfl, ?_⟩
    refine ⟨?_, ?_, ?_, ?_, ?_, ?_, ?_, ?_, ?_, ?_, ?_, ?_⟩ <;> simp [setVar_vars, harr, cYY_BUFFER_NEW, hc]
  · refine ⟨_, by simp [flush, St.run, Ex.eval, bind, Option.bind, pure, b2i, hb, hc, harr, setVar_vars]; rfl, ?_⟩
    refine ⟨?_, ?_, ?_, ?_, ?_, ?_, ?_, ?_, ?_, ?_, ?_, ?_⟩ <;> simp [setVar_vars, harr, cYY_BUFFER_NEW, hc]


/-- what yy_init_buffer(b, file) establishes on top of the flush -/
structure Inited (s s' : State) : Prop where
  nchars : s'.vars 2 = 0
  marks : s'.arr.take 2 = [0, 0]
  pos : s'.vars 3 = 0
  atbol : s'.vars 4 = 1
  status : s'.vars 5 = cYY_BUFFER_NEW
  file : s'.vars 6 = s.vars 16
  fill : s'.vars 7 = if s.vars 16 = 0 then 0 else 1
  lineno : if s.vars 1 = 0 then s'.vars 8 = 1 ∧ s'.vars 9 = 0 else s'.vars 8 = s.vars 8 ∧ s'.vars 9 = s.vars 9
  interactive : s'.vars 10 = if s.vars 16 = 0 then 0 else s.vars 17
  errno : s'.vars 18 = s.vars 18
  log : s'.log = s.log

/-- **yy_init_buffer(b, file)** — what yyrestart() and the "new file" at the end of input do to a buffer: no buffered text, at
    the beginning of a line, new; refillable iff there is a file; line and column reset only if b is not the current buffer;
    errno as before -/
theorem init_spec (s : State) (hb : s.vars 0 ≠ 0) (hlen : 2 ≤ s.arr.length) :
    ∃ s', init.run s = (s', .normal) ∧ Inited s s' := by
  obtain ⟨x0, x1, rest, harr⟩ : ∃ x0 x1 rest, s.arr = x0 :: x1 :: rest := by
    match h : s.arr with
    | [] => simp [h] at hlen
    | [_] => simp [h] at hlen
    | x0 :: x1 :: rest => exact ⟨x0, x1, rest, rfl⟩
  by_cases hc : s.vars 1 = 0 <;> by_cases hf : s.vars 16 = 0
  all_goals
    refine ⟨_, by simp [init, St.run, Ex.eval, bind, Option.bind, pure, b2i, hb, hc, hf, harr, setVar_vars]; rfl, ?_⟩
    refine ⟨?_, ?_, ?_, ?_, ?_, ?_, ?_, ?_, ?_, ?_, ?_⟩ <;> simp [setVar_vars, harr, cYY_BUFFER_NEW, hc, hf]

/-- **yy_create_buffer(file, size)** — C13's "buffer of yy_buf_size + 2 bytes": the character memory has `size + 2` cells, the
    two end marks stand at its front, the buffer is the scanner's own, empty, at the beginning of a line, new, reads from `file`
    (refillable iff there is one), line 1 column 0 -/
theorem create_spec (s : State) (harr : s.arr = []) (hsz : 0 ≤ s.vars 20) (hcur : s.vars 1 = 0) :
    ∃ s', create.run s = (s', .returned 1) ∧ (s'.arr.length : Int) = s'.vars 21 + 2 ∧ s'.vars 21 = s.vars 20 ∧ s'.vars 22 = 1 ∧
      s'.vars 2 = 0 ∧ s'.arr.take 2 = [0, 0] ∧ s'.vars 3 = 0 ∧ s'.vars 4 = 1 ∧ s'.vars 5 = cYY_BUFFER_NEW ∧ s'.vars 6 = s.vars 16 ∧
      s'.vars 7 = (if s.vars 16 = 0 then 0 else 1) ∧ s'.vars 8 = 1 ∧ s'.vars 9 = 0 ∧ s'.vars 18 = s.vars 18 ∧ s'.log = s.log := by
  obtain ⟨n, hn⟩ : ∃ n : Nat, s.vars 20 = n := ⟨(s.vars 20).toNat, by omega⟩
  have e : ((n : Int) + 2).toNat = n + 2 := by omega
  have hrep : List.replicate (n + 2) garbage = garbage :: garbage :: List.replicate n garbage := by
    rw [List.replicate_succ, List.replicate_succ]
  by_cases hf : s.vars 16 = 0
  all_goals
    refine ⟨_, by simp [create, St.run, Ex.eval, bind, Option.bind, pure, b2i, hcur, hf, harr, hn, e, hrep, setVar_vars]; rfl, ?_⟩
    refine ⟨?_, ?_, ?_, ?_, ?_, ?_, ?_, ?_, ?_, ?_, ?_, ?_, ?_, ?_⟩ <;> simp [setVar_vars, cYY_BUFFER_NEW, hcur, hf, hn] <;> omega

/-- **yy_delete_buffer(b)**: deleting NULL does nothing at all.  Otherwise the character memory is released exactly when it is
    the scanner's own (memory handed to `yy_scan_buffer()` stays the caller's), then the structure, each once and in that order,
    nothing else is released, the buffer's characters are not touched, and the slot of the current buffer is cleared exactly
    when `b` was the current buffer (no handle to freed memory stays current) -/
theorem delete_spec (s : State) :
    (s.vars 0 = 0 → delete.run s = (s, .returned 0)) ∧
    (s.vars 0 ≠ 0 → ∃ s', delete.run s = (s', .normal) ∧
      s'.log = s.log ++ (if s.vars 22 = 0 then [] else [((1 : Nat), (1 : Int))]) ++ [(1, 0)] ∧
      s'.vars 24 = (if s.vars 1 = 0 then s.vars 24 else 0) ∧ s'.arr = s.arr ∧
      ∀ y, y ≠ 24 → s'.vars y = s.vars y) := by
  refine ⟨fun hb => by simp [delete, St.run, Ex.eval, bind, Option.bind, pure, b2i, hb], fun hb => ?_⟩
  by_cases hc : s.vars 1 = 0 <;> by_cases ho : s.vars 22 = 0
  all_goals
    refine ⟨_, by simp [delete, St.run, Ex.eval, bind, Option.bind, pure, b2i, hb, hc, ho, setVar_vars]; rfl, ?_⟩
    refine ⟨?_, ?_, ?_, ?_⟩ <;> simp [setVar_vars, hc, ho]
    try (intro y hy; simp [hy])

/-- what yyrestart(input_file) establishes: the current buffer reads from `input_file` with no buffered text, at the beginning
    of a line, new, refillable iff there is a file; the scanner's own copies are loaded from it (`yyin` is the file, the scan
    position the front of the buffer, the held character the end mark there) and the switch is flagged -/
structure Restarted (s s' : State) : Prop where
  slot : s'.vars 24 ≠ 0
  nchars : s'.vars 2 = 0 ∧ s'.vars 11 = 0
  marks : s'.arr.take 2 = [0, 0]
  pos : s'.vars 3 = 0 ∧ s'.vars 13 = 0 ∧ s'.vars 12 = 0
  hold : s'.vars 15 = 0
  atbol : s'.vars 4 = 1
  status : s'.vars 5 = cYY_BUFFER_NEW
  file : s'.vars 6 = s.vars 25 ∧ s'.vars 14 = s.vars 25
  fill : s'.vars 7 = if s.vars 25 = 0 then 0 else 1
  errno : s'.vars 18 = s.vars 18
  switched : s'.vars 27 = 1

/-- **yyrestart(f) with a current buffer**: that buffer is re-initialised in place — nothing is allocated, its line and column
    stay — and loaded -/
theorem restart_current (s : State) (hslot : s.vars 24 ≠ 0) (hb : s.vars 0 ≠ 0) (hcur : s.vars 1 ≠ 0) (hlen : 2 ≤ s.arr.length) :
    ∃ s', restart.run s = (s', .normal) ∧ Restarted s s' ∧ s'.arr.length = s.arr.length ∧ s'.vars 24 = s.vars 24 ∧
      s'.vars 8 = s.vars 8 ∧ s'.vars 9 = s.vars 9 ∧ s'.log = s.log := by
  obtain ⟨x0, x1, rest, harr⟩ : ∃ x0 x1 rest, s.arr = x0 :: x1 :: rest := by
    match h : s.arr with
    | [] => simp [h] at hlen
    | [_] => simp [h] at hlen
    | x0 :: x1 :: rest => exact ⟨x0, x1, rest, rfl⟩
  by_cases hf : s.vars 25 = 0
  all_goals
    refine ⟨_, by simp [restart, St.run, Ex.eval, bind, Option.bind, pure, b2i, hslot, hb, hcur, hf, harr, setVar_vars]; rfl, ?_⟩
    refine ⟨⟨?_, ?_, ?_, ?_, ?_, ?_, ?_, ?_, ?_, ?_, ?_⟩, ?_, ?_, ?_, ?_, ?_⟩ <;>
      simp [setVar_vars, harr, cYY_BUFFER_NEW, hslot, hcur, hf]

/-- **yyrestart(f) without a current buffer**: the buffer stack is seen to, a buffer of `YY_BUF_SIZE` characters (+ 2) is
    created, put into the slot of the current buffer, initialised — line 1, column 0 — and loaded -/
theorem restart_fresh (s : State) (hslot : s.vars 24 = 0) (harr : s.arr = []) (hsz : 0 ≤ s.vars 26) :
    ∃ s', restart.run s = (s', .normal) ∧ Restarted s s' ∧ (s'.arr.length : Int) = s.vars 26 + 2 ∧ s'.vars 21 = s.vars 26 ∧
      s'.vars 22 = 1 ∧ s'.vars 8 = 1 ∧ s'.vars 9 = 0 ∧ s'.log = s.log ++ [(2, 0)] := by
  obtain ⟨n, hn⟩ : ∃ n : Nat, s.vars 26 = n := ⟨(s.vars 26).toNat, by omega⟩
  have e : ((n : Int) + 2).toNat = n + 2 := by omega
  have hrep : List.replicate (n + 2) garbage = garbage :: garbage :: List.replicate n garbage := by
    rw [List.replicate_succ, List.replicate_succ]
  by_cases hy : s.vars 14 = 0 <;> by_cases hf : s.vars 25 = 0
  all_goals
    refine ⟨_, by simp [restart, St.run, Ex.eval, bind, Option.bind, pure, b2i, hslot, hy, hf, harr, hn, e, hrep, setVar_vars]; rfl, ?_⟩
    refine ⟨⟨?_, ?_, ?_, ?_, ?_, ?_, ?_, ?_, ?_, ?_, ?_⟩, ?_, ?_, ?_, ?_, ?_, ?_⟩ <;>
      simp [setVar_vars, cYY_BUFFER_NEW, hslot, hy, hf, hn] <;> omega

/-- examples: a current buffer holding "ab", flushed; the same buffer re-initialised over a file that is a terminal -/
def sEx : State :=
  { vars := fun y => if y = 0 then 1 else if y = 1 then 1 else if y = 2 then 2 else if y = 3 then 1 else if y = 6 then 5
                     else if y = 7 then 1 else if y = 8 then 7 else if y = 16 then 9 else if y = 17 then 1 else if y = 18 then 4 else 0,
    arr := [97, 98, 0, 0] }
example : (flush.run sEx).2 = .normal ∧ (flush.run sEx).1.arr = [0, 0, 0, 0] ∧ (flush.run sEx).1.vars 4 = 1 ∧
    (flush.run sEx).1.vars 13 = 0 ∧ (flush.run sEx).1.vars 14 = 5 := by decide
example : (init.run sEx).2 = .normal ∧ (init.run sEx).1.vars 6 = 9 ∧ (init.run sEx).1.vars 7 = 1 ∧ (init.run sEx).1.vars 8 = 7 ∧
    (init.run sEx).1.vars 10 = 1 ∧ (init.run sEx).1.vars 18 = 4 := by decide

/-- examples: yyrestart(9) without a current buffer (YY_BUF_SIZE 4), and on the current buffer `sEx` put into the slot -/
def sFresh : State := { vars := fun y => if y = 26 then 4 else if y = 25 then 9 else if y = 8 then 7 else 0, arr := [] }
example : (restart.run sFresh).2 = .normal ∧ (restart.run sFresh).1.arr.length = 6 ∧ (restart.run sFresh).1.vars 14 = 9 ∧
    (restart.run sFresh).1.vars 8 = 1 ∧ (restart.run sFresh).1.vars 24 = 1 ∧ (restart.run sFresh).1.log = [(2, 0)] := by decide
example : (restart.run (setVar (setVar sEx 24 1) 25 3)).2 = .normal ∧ (restart.run (setVar (setVar sEx 24 1) 25 3)).1.arr = [0, 0, 0, 0] ∧
    (restart.run (setVar (setVar sEx 24 1) 25 3)).1.vars 14 = 3 ∧ (restart.run (setVar (setVar sEx 24 1) 25 3)).1.vars 8 = 7 ∧
    (restart.run (setVar (setVar sEx 24 1) 25 3)).1.log = [] := by decide

end FlexVerif.C11Flush

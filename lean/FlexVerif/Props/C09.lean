import FlexVerif.Runtime.Abs
/-
  Props/C09.lean — yylineno.  In the abstract scanner the quantity
      yylineno + (number of newlines still unread in the current buffer)
  is conserved by matching a token (with or without trailing context / yymore prefix), by
  yyless, by yyunput of any character and by yyinput — i.e. yylineno is always
  1 + (newlines of the input) − (newlines not yet consumed), where text returned by yyless or
  belonging to trailing context counts as not consumed, each yyunput of a newline subtracts one
  and each newline read by yyinput adds one.  (Non-reentrant scanner: one global counter.)
-/
namespace FlexVerif
open AState

theorem countNl_append (a b : List UInt8) : countNl (a ++ b) = countNl a + countNl b := by
  simp [countNl, List.filter_append]

theorem countNl_take_drop (n : Nat) (l : List UInt8) : countNl (l.take n) + countNl (l.drop n) = countNl l := by
  rw [← countNl_append, List.take_append_drop]

theorem countNl_cons (x : UInt8) (l : List UInt8) :
    countNl (x :: l) = (if x = 10 then 1 else 0) + countNl l := by
  unfold countNl
  by_cases h : x = 10
  · simp [h]; omega
  · simp [h]

/-- the current buffer exists -/
def AState.HasCur (s : AState) : Prop := ∃ i, s.cur = some i ∧ i < s.bufs.size

theorem curBuf_setCurBuf (s : AState) (b : ABuf) (h : s.HasCur) : (s.setCurBuf b).curBuf = b := by
  obtain ⟨i, hi, hlt⟩ := h
  simp [AState.setCurBuf, AState.curBuf, hi, hlt]

theorem ensureBuf_of_hasCur (s : AState) (h : s.HasCur) : s.ensureBuf = s := by
  obtain ⟨i, hi, _⟩ := h
  simp [AState.ensureBuf, hi]

/-- newlines accounted for: the counter plus what is still unread -/
def lnTotal (s : AState) : Int := s.lineno + (countNl s.curBuf.pending : Int)

variable (cfg : Cfg) (hl : cfg.hasLineno = true) (hr : cfg.reentrant = false)
include hl hr

theorem addLineno_lineno (s : AState) (d : Int) : (s.addLineno cfg d).lineno = s.lineno + d := by
  simp [AState.addLineno, hl, hr]

theorem addLineno_curBuf (s : AState) (d : Int) : (s.addLineno cfg d).curBuf = s.curBuf := by
  simp [AState.addLineno, hl, hr, AState.curBuf]

/-- **matching a token conserves the total**: the counter advances by exactly the newlines of
    the text handed to the action (`headLen` bytes: trailing context is not consumed) -/
theorem beginMatch_lnTotal (M : Matcher) (s : AState) (inp : List UInt8) (len rule : Nat) (p : List UInt8)
    (h : s.HasCur) (hp : s.curBuf.pending = inp)
    (hfit : (cfg.yylmax != 0 && decide (p.length + M.fitLen rule len inp ≥ cfg.yylmax)) = false) :
    lnTotal (beginMatch M cfg s inp len rule p) = lnTotal s := by
  unfold lnTotal beginMatch
  simp only [hfit, Bool.false_eq_true, if_false]
  simp only [AState.emit, AState.curBuf]
  have e1 := addLineno_lineno cfg hl hr
  have e2 := addLineno_curBuf cfg hl hr
  simp only [AState.curBuf] at e2
  rw [e1, e2]
  obtain ⟨i, hi, hlt⟩ := h
  simp only [AState.setCurBuf, hi, AState.curBuf] at hp ⊢
  simp only [Array.getD_eq_getD_getElem?, Array.getElem?_setIfInBounds, hlt, if_true] at hp ⊢
  have := countNl_take_drop (M.headLen rule len inp) inp
  simp [hp] at this ⊢
  omega


theorem lnTotal_setPending (s : AState) (h : s.HasCur) (pend : List UInt8) (atBol : Bool) :
    lnTotal (s.setCurBuf { s.curBuf with pending := pend, atBol := atBol }) =
      s.lineno + (countNl pend : Int) := by
  unfold lnTotal
  rw [curBuf_setCurBuf s _ h]
  obtain ⟨i, hi, hlt⟩ := h
  simp [AState.setCurBuf, hi]

/-- **yyless conserves the total**: the newlines of the returned text are taken back -/
theorem less_lnTotal (M : Matcher) (s : AState) (n : Nat) (h : s.HasCur) (hh : s.halted = false) :
    lnTotal (runAction M cfg s [.less n]).1 = lnTotal s := by
  simp only [runAction, hh, Bool.false_eq_true, if_false]
  unfold lnTotal
  simp only [AState.emit, AState.curBuf]
  have e1 := addLineno_lineno cfg hl hr
  have e2 := addLineno_curBuf cfg hl hr
  simp only [AState.curBuf] at e2
  rw [e1, e2]
  have := lnTotal_setPending cfg hl hr s h (List.drop (s.morePrefix + n % (s.text.length - s.morePrefix + 1)) s.text ++ s.curBuf.pending) s.curBuf.atBol
  unfold lnTotal at this
  simp only [AState.curBuf] at this
  rw [countNl_append] at this
  obtain ⟨i, hi, hlt⟩ := h
  simp only [AState.setCurBuf, hi] at this ⊢
  omega

theorem lnTotal_addLineno (s : AState) (d : Int) : lnTotal (s.addLineno cfg d) = lnTotal s + d := by
  unfold lnTotal
  rw [addLineno_lineno cfg hl hr, addLineno_curBuf cfg hl hr]
  omega

/-- **yyunput conserves the total**: pushing back a newline subtracts one -/
theorem unput_lnTotal (M : Matcher) (s : AState) (c : Nat) (hc : c < 256) (h : s.HasCur)
    (hh : s.halted = false) :
    lnTotal (runAction M cfg s [.unput c]).1 = lnTotal s := by
  simp only [runAction, hh, Bool.false_eq_true, if_false]
  have hp := lnTotal_setPending cfg hl hr s h (UInt8.ofNat c :: s.curBuf.pending) s.curBuf.atBol
  rw [countNl_cons] at hp
  have h10 : (UInt8.ofNat c = 10) ↔ c = 10 := by
    constructor
    · intro e
      have := congrArg UInt8.toNat e
      simp [UInt8.toNat_ofNat'] at this
      omega
    · rintro rfl; rfl
  show lnTotal (if (c == 10) = true then _ else _) = _
  split
  · rename_i hc10
    have hc10' : c = 10 := by simpa using hc10
    rw [lnTotal_addLineno cfg hl hr, hp]
    simp [h10.mpr hc10', lnTotal]
    omega
  · rename_i hc10
    have hc10' : ¬ c = 10 := by simpa using hc10
    have hne : ¬ (UInt8.ofNat c = 10) := fun e => hc10' (h10.mp e)
    rw [hp]
    simp [hne, lnTotal]

/-- **yyinput conserves the total**: reading a newline adds one -/
theorem input_lnTotal (s : AState) (fuel : Nat) (h : s.HasCur) (c : UInt8) (rest : List UInt8)
    (hp : s.curBuf.pending = c :: rest) :
    lnTotal (inputOp cfg s (fuel + 1)) = lnTotal s := by
  have hset := lnTotal_setPending cfg hl hr s h rest (if cfg.bolNeeded = true then c == 10 else s.curBuf.atBol)
  have htot : lnTotal s = s.lineno + (countNl (c :: rest) : Int) := by simp [lnTotal, hp]
  rw [countNl_cons] at htot
  have e : ∀ (t : AState) (l : String), lnTotal (t.emit l) = lnTotal t := fun _ _ => rfl
  simp only [inputOp]
  rw [ensureBuf_of_hasCur s h]
  simp only [hp]
  rw [e]
  split
  · rename_i h10
    have : c = 10 := by simpa using h10
    rw [lnTotal_addLineno cfg hl hr, hset, htot]
    simp [this]; omega
  · rename_i h10
    have : ¬ c = 10 := by simpa using h10
    rw [hset, htot]
    simp [this]

/-- non-vacuity: a state with a current buffer -/
example : ({ bufs := #[{ pending := [10, 97] }], cur := some 0 } : AState).HasCur := ⟨0, rfl, by decide⟩

end FlexVerif

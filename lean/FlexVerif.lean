import FlexVerif.Spec.Re
import FlexVerif.Spec.ReLemmas
import FlexVerif.Spec.Pat
import FlexVerif.Spec.Rules
import FlexVerif.Validator.SpecAuto
import FlexVerif.Validator.Bisim
import FlexVerif.Validator.Tables
import FlexVerif.Validator.Validate

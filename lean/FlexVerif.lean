import FlexVerif.Spec.Re
import FlexVerif.Spec.ReLemmas

/* allocshim.c — LD_PRELOAD allocator perturbation for the determinism check (C18).
 * Every block handed out is filled with seed-dependent garbage (calloc excepted), is preceded by
 * a seed-dependent amount of padding (so addresses differ from run to run), realloc always moves
 * and fills the grown part with garbage, freed blocks are scribbled over.
 * FV_ALLOC_SEED selects the garbage and the paddings. */
#define _GNU_SOURCE
#include <stddef.h>
#include <stdint.h>
#include <string.h>
#include <stdlib.h>
#include <dlfcn.h>

static void *(*real_malloc)(size_t);
static void (*real_free)(void *);
static uint64_t st = 0x9e3779b97f4a7c15ull;
static int inited = 0, initing = 0;
static char boot[65536]; static size_t bootpos = 0;

static uint64_t nextr(void) { st ^= st << 13; st ^= st >> 7; st ^= st << 17; return st; }
static void init(void) {
    const char *s;
    if (inited || initing) return;
    initing = 1;
    real_malloc = (void *(*)(size_t)) dlsym(RTLD_NEXT, "malloc");
    real_free = (void (*)(void *)) dlsym(RTLD_NEXT, "free");
    s = getenv("FV_ALLOC_SEED");
    if (s) st ^= (uint64_t) strtoull(s, NULL, 10) * 0x2545F4914F6CDD1Dull + 1;
    inited = 1; initing = 0;
}
#define HDR 32
typedef struct { size_t size; size_t pad; uint64_t magic; uint64_t fill; } hdr_t;
static void *alloc_(size_t n, int zero) {
    size_t pad; char *raw; hdr_t *h; size_t i; unsigned char *p;
    if (!inited) {
        init();
        if (!inited) {       /* called from dlsym during init */
            void *r = boot + bootpos; bootpos += (n + 15) & ~(size_t) 15;
            if (bootpos > sizeof boot) abort();
            memset(r, 0, n); return r;
        }
    }
    pad = (size_t) (nextr() % 16) * 16;
    raw = (char *) real_malloc(n + HDR + pad + 16);
    if (!raw) return NULL;
    h = (hdr_t *) (raw + pad);
    h->size = n; h->pad = pad; h->magic = 0xF1E2D3C4B5A69788ull;
    p = (unsigned char *) (raw + pad + HDR);
    if (zero) memset(p, 0, n);
    else { uint64_t g = nextr(); for (i = 0; i < n; i++) { p[i] = (unsigned char) (g >> ((i & 7) * 8)); if ((i & 7) == 7) g = nextr(); } }
    return p;
}
static int is_boot(void *p) { return (char *) p >= boot && (char *) p < boot + sizeof boot; }
void *malloc(size_t n) { return alloc_(n, 0); }
void *calloc(size_t a, size_t b) { return alloc_(a * b, 1); }
void free(void *p) {
    hdr_t *h;
    if (!p || is_boot(p)) return;
    h = (hdr_t *) ((char *) p - HDR);
    if (h->magic != 0xF1E2D3C4B5A69788ull) return;      /* not ours (allocated before preload?) */
    memset(p, 0xDD, h->size);
    h->magic = 0;
    real_free((char *) h - h->pad);
}
void *realloc(void *p, size_t n) {
    void *q; hdr_t *h; size_t old;
    if (!p) return alloc_(n, 0);
    if (is_boot(p)) { q = alloc_(n, 0); if (q) memcpy(q, p, n); return q; }
    h = (hdr_t *) ((char *) p - HDR);
    old = h->size;
    q = alloc_(n, 0);
    if (!q) return NULL;
    memcpy(q, p, old < n ? old : n);
    free(p);
    return q;
}
void *reallocarray(void *p, size_t a, size_t b) { return realloc(p, a * b); }

/* fvh.h — harness side of the correspondence check (included from %top of the generated .l).
 *
 * The generated rule file's actions are ACT(i); this header turns them into: log the match,
 * then interpret the script of this action execution (yyless / yymore / yyunput / yyinput /
 * REJECT / start-condition calls / buffer calls / return), logging every observable.
 *
 * Back-end selection: FV_BACKEND_NR (default, non-reentrant C), FV_BACKEND_R (reentrant C).
 */
#ifndef FVH_H
#define FVH_H
#include <stdio.h>
#include <stdlib.h>
#include <string.h>
#include <setjmp.h>
#include <errno.h>

enum { FV_OP_END = 0, FV_OP_LESS, FV_OP_MORE, FV_OP_UNPUT, FV_OP_INPUT, FV_OP_REJECT, FV_OP_BEGIN,
       FV_OP_PUSH, FV_OP_POP, FV_OP_TOP, FV_OP_SETBOL, FV_OP_RETURN, FV_OP_LEX, FV_OP_SCANBYTES,
       FV_OP_SCANSTRING, FV_OP_SCANBUFFER, FV_OP_SWITCH, FV_OP_PUSHBUF, FV_OP_POPBUF, FV_OP_FLUSH,
       FV_OP_DELETE, FV_OP_RESTART, FV_OP_CREATE, FV_OP_DESTROY, FV_OP_SETLINENO, FV_OP_GETLINENO,
       FV_OP_NEWYYIN, FV_OP_START, FV_OP_ATBOL, FV_OP_ECHO, FV_OP_TERMINATE, FV_OP_FLUSHCUR,
       FV_OP_GRAB, FV_OP_CONT, FV_OP_INCLUDE_END, FV_OP_TLOAD, FV_OP_TDESTROY, FV_OP_LESS3 };

#ifdef __cplusplus
extern "C" {
#endif
int  fv_next_op(long *arg, long *arg2);
void fv_log_match(int rule, const char *text, long leng, long lineno, int start, int atbol);
void fv_log_text(const char *tag, const char *text, long leng);
void fv_log_int(const char *tag, long v);
void fv_log_eof(int sc);
int  fv_read(void *file, char *buf, size_t max_size);
void fv_fatal(const char *msg);
int  fv_wrap_next(void);     /* -1: stop; else source id to continue with */
void *fv_alloc(size_t n);
void *fv_realloc(void *p, size_t n);
void fv_free(void *p);
extern int fv_bol_needed, fv_has_lineno, fv_default_rule, fv_cont;
extern long fv_last_leng, fv_cur_prefix; extern int fv_more_set;
#if defined(FV_BACKEND_R)
#define FV_PROTO_LAST , void *yyscanner
#elif defined(FV_BACKEND_C99)
#define FV_PROTO_LAST , void *fv_ys_
#else
#define FV_PROTO_LAST
#endif
#ifdef __cplusplus
}
#endif

extern int fv_bufsize;           /* set from the case file: YY_BUF_SIZE is a run-time value here */
#ifndef FV_BACKEND_C99           /* the c99 skeleton makes it a constant: %option bufsize is used */
#define YY_BUF_SIZE fv_bufsize
#endif
#ifdef FV_BACKEND_CXX
/* C++: input comes through the documented hook, FvLexer::LexerInput (see tools/fv/rt.py) */
extern "C" int fv_read_cxx(char *buf, size_t max_size);
#elif !defined(FV_STDIO)
#define YY_INPUT(buf,result,max_size) do { (result) = fv_read((void *) yyin, (buf), (max_size)); } while (0)
#endif
#define YY_FATAL_ERROR(msg) fv_fatal(msg)

#if defined(FV_BACKEND_R) || defined(FV_BACKEND_C99)
#define FV_A1 yyscanner
#define FV_AL , yyscanner
#define FV_LINENO_EXPR (fv_has_lineno ? (long) yyget_lineno(yyscanner) : -1L)
#else
#define FV_A1
#define FV_AL
#define FV_LINENO_EXPR (fv_has_lineno ? (long) yylineno : -1L)
#endif

/* the action-level API, spelled per back end (flex rewrites these names in action text for the
 * c99 back end, but not inside macros) */
#ifdef FV_BACKEND_C99
#define FV_TEXT yyget_text(yyscanner)
#define FV_LENG yyget_leng(yyscanner)
#define FV_LESS(n) yyless((n), yyscanner)
#define FV_UNPUT(c) yyunput((char) (c), yyscanner)
#define FV_BEGIN(s) yybegin((s), yyscanner)
#define FV_START() yystart(yyscanner)
#define FV_ATBOL() ((int) yyatbol(yyscanner))
#define FV_SETBOL(b) yysetbol((b) != 0, yyscanner)
#define FV_TERMINATE() return 0
#define FV_YYMORE() yymore(yyscanner)
#else
#define FV_TEXT yytext
#define FV_LENG yyleng
#define FV_LESS(n) yyless(n)
#define FV_UNPUT(c) yyunput(c)
#define FV_BEGIN(s) yybegin(s)
#define FV_START() yystart()
#define FV_ATBOL() yyatbol()
#define FV_SETBOL(b) yysetbol(b)
#define FV_TERMINATE() yyterminate()
#define FV_YYMORE() yymore()
#endif

#if defined(FV_USE_REJECT) && defined(FV_BACKEND_C99)
/* yyreject() has to stand in the action text itself (it is expanded by m4): the action ends in
 * `if (0) { fv_rej_<i>: yyreject(); }` */
#define FV_DO_REJECT(i) goto fv_rej_##i
#elif defined(FV_USE_REJECT)
#define FV_DO_REJECT(i) yyreject()
#else
#define FV_DO_REJECT(i) fv_fatal("harness: reject op without reject support")
#endif
#ifdef FV_USE_YYMORE
#define FV_DO_MORE FV_YYMORE()
#else
#define FV_DO_MORE fv_fatal("harness: more op without yymore support")
#endif
#ifdef FV_USE_STACK
#define FV_DO_PUSH(s) yy_push_state((s) FV_AL)
#define FV_DO_POP() yy_pop_state(FV_A1)
#define FV_DO_TOP() fv_log_int("top", yy_top_state(FV_A1))
#else
#define FV_DO_PUSH(s) fv_fatal("harness: push without stack support")
#define FV_DO_POP() fv_fatal("harness: pop without stack support")
#define FV_DO_TOP() fv_fatal("harness: top without stack support")
#endif

/* yyless() called from section-3 code (the skeleton redefines the macro after the rules): a function of
 * fvmain.c does it.  c99 has one yyless() function for both places; C++ member code only in the class. */
#if defined(FV_BACKEND_C99) || defined(FV_BACKEND_CXX)
#define FV_LESS3(n) FV_LESS(n)
#else
static void fv_less3(int n FV_PROTO_LAST);
#define FV_LESS3(n) fv_less3((n) FV_AL)
#endif

#define FV_MATCH(i) do { fv_cur_prefix = fv_more_set ? fv_last_leng : 0; fv_more_set = 0; \
    fv_last_leng = (long) FV_LENG; \
    fv_log_match((i), FV_TEXT, (long) FV_LENG, FV_LINENO_EXPR, FV_START(), \
                 fv_bol_needed ? FV_ATBOL() : -1); } while (0)

/* ops shared by actions and by section-3 code */
#define FV_COMMON_OPS(a_, b_) \
    case FV_OP_BEGIN: FV_BEGIN((int)(a_)); break; \
    case FV_OP_PUSH: FV_DO_PUSH((int)(a_)); break; \
    case FV_OP_POP: FV_DO_POP(); break; \
    case FV_OP_TOP: FV_DO_TOP(); break; \
    case FV_OP_START: fv_log_int("start", FV_START()); break; \
    case FV_OP_SETBOL: FV_SETBOL((int)(a_)); break; \
    case FV_OP_ATBOL: fv_log_int("atbol", FV_ATBOL()); break; \
    case FV_OP_GETLINENO: fv_log_int("lineno", FV_LINENO_EXPR); break;

#define FV_OPS(i) \
    for (;;) { long a_ = 0, b_ = 0; int op_ = fv_next_op(&a_, &b_); \
        if (op_ == FV_OP_END) break; \
        switch (op_) { \
        case FV_OP_LESS: { int n_ = (int) (fv_cur_prefix + a_ % ((long) FV_LENG - fv_cur_prefix + 1)); \
            FV_LESS(n_); fv_last_leng = (long) FV_LENG; fv_log_text("less", FV_TEXT, (long) FV_LENG); } break; \
        case FV_OP_LESS3: { int n_ = (int) (fv_cur_prefix + a_ % ((long) FV_LENG - fv_cur_prefix + 1)); \
            FV_LESS3(n_); fv_last_leng = (long) FV_LENG; fv_log_text("less", FV_TEXT, (long) FV_LENG); } break; \
        case FV_OP_MORE: FV_DO_MORE; fv_more_set = 1; break; \
        case FV_OP_UNPUT: FV_UNPUT((int) a_); break; \
        case FV_OP_INPUT: { int c_ = yyinput(FV_A1); fv_log_int("in", c_); } break; \
        case FV_OP_REJECT: FV_DO_REJECT(i); break; \
        case FV_OP_RETURN: return (int) a_; \
        case FV_OP_TERMINATE: FV_TERMINATE(); \
        case FV_OP_CONT: fv_cont = 1; break; \
        FV_COMMON_OPS(a_, b_) \
        default: fv_buffer_op(op_, a_, b_ FV_AL); break; \
        } }

/* c99: the ops flex has to rewrite stand in the action text (see tools/fv/rt.py); the others: */
#define FV_OPS_REST(op_, a_, b_) \
        switch (op_) { \
        case FV_OP_CONT: fv_cont = 1; break; \
        case FV_OP_PUSH: FV_DO_PUSH((int)(a_)); break; \
        case FV_OP_POP: FV_DO_POP(); break; \
        case FV_OP_TOP: FV_DO_TOP(); break; \
        case FV_OP_GETLINENO: fv_log_int("lineno", FV_LINENO_EXPR); break; \
        default: fv_buffer_op(op_, a_, b_ FV_AL); break; \
        }

#define ACT(i) { FV_MATCH(i); FV_OPS(i); }
#ifndef FV_BACKEND_C99
/* the default rule's action (ECHO) is observed like any other action */
/* it is not user code, so it takes no script */
#define yyecho() { fv_default_rule = 1; FV_MATCH(YY_NUM_RULES); }
#endif
/* (c99: yyecho is a function of the skeleton; the generated rule set ends in an explicit catch-all) */
#define ACT_EOF(k) { fv_log_eof(FV_START()); fv_cont = 0; FV_OPS(0); if (!fv_cont) FV_TERMINATE(); fv_cont = 0; }

#endif

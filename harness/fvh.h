/* fvh.h — harness side of the correspondence check (included from %top of the generated .l).
 *
 * The generated rule file's actions are ACT(i); this header turns them into: log the match,
 * then interpret the script of this action execution (yyless / yymore / yyunput / yyinput /
 * REJECT / start-condition calls / buffer calls / return), logging every observable.
 *
 * Back-end selection: FV_BACKEND_NR (default, non-reentrant C), FV_BACKEND_R (reentrant C).
 */
#ifndef FVH_H
#define FVH_H
#include <stdio.h>
#include <stdlib.h>
#include <string.h>
#include <setjmp.h>
#include <errno.h>

enum { FV_OP_END = 0, FV_OP_LESS, FV_OP_MORE, FV_OP_UNPUT, FV_OP_INPUT, FV_OP_REJECT, FV_OP_BEGIN,
       FV_OP_PUSH, FV_OP_POP, FV_OP_TOP, FV_OP_SETBOL, FV_OP_RETURN, FV_OP_LEX, FV_OP_SCANBYTES,
       FV_OP_SCANSTRING, FV_OP_SCANBUFFER, FV_OP_SWITCH, FV_OP_PUSHBUF, FV_OP_POPBUF, FV_OP_FLUSH,
       FV_OP_DELETE, FV_OP_RESTART, FV_OP_CREATE, FV_OP_DESTROY, FV_OP_SETLINENO, FV_OP_GETLINENO,
       FV_OP_NEWYYIN, FV_OP_START, FV_OP_ATBOL, FV_OP_ECHO, FV_OP_TERMINATE, FV_OP_FLUSHCUR,
       FV_OP_GRAB, FV_OP_CONT, FV_OP_INCLUDE_END, FV_OP_TLOAD, FV_OP_TDESTROY };

#ifdef __cplusplus
extern "C" {
#endif
int  fv_next_op(long *arg, long *arg2);
void fv_log_match(int rule, const char *text, long leng, long lineno, int start, int atbol);
void fv_log_text(const char *tag, const char *text, long leng);
void fv_log_int(const char *tag, long v);
void fv_log_eof(int sc);
int  fv_read(void *file, char *buf, size_t max_size);
void fv_fatal(const char *msg);
int  fv_wrap_next(void);     /* -1: stop; else source id to continue with */
void *fv_alloc(size_t n);
void *fv_realloc(void *p, size_t n);
void fv_free(void *p);
extern int fv_bol_needed, fv_has_lineno, fv_default_rule, fv_cont;
extern long fv_last_leng, fv_cur_prefix; extern int fv_more_set;
#ifdef FV_BACKEND_R
#define FV_PROTO_LAST , void *yyscanner
#else
#define FV_PROTO_LAST
#endif
#ifdef __cplusplus
}
#endif

extern int fv_bufsize;           /* set from the case file: YY_BUF_SIZE is a run-time value here */
#define YY_BUF_SIZE fv_bufsize
#ifndef FV_STDIO
#define YY_INPUT(buf,result,max_size) do { (result) = fv_read((void *) yyin, (buf), (max_size)); } while (0)
#endif
#define YY_FATAL_ERROR(msg) fv_fatal(msg)

#ifdef FV_BACKEND_R
#define FV_A1 yyscanner
#define FV_AL , yyscanner
#define FV_LINENO_EXPR (fv_has_lineno ? (long) yyget_lineno(yyscanner) : -1L)
#else
#define FV_A1
#define FV_AL
#define FV_LINENO_EXPR (fv_has_lineno ? (long) yylineno : -1L)
#endif

#ifdef FV_USE_REJECT
#define FV_DO_REJECT yyreject()
#else
#define FV_DO_REJECT fv_fatal("harness: reject op without reject support")
#endif
#ifdef FV_USE_YYMORE
#define FV_DO_MORE yymore()
#else
#define FV_DO_MORE fv_fatal("harness: more op without yymore support")
#endif
#ifdef FV_USE_STACK
#define FV_DO_PUSH(s) yy_push_state((s) FV_AL)
#define FV_DO_POP() yy_pop_state(FV_A1)
#define FV_DO_TOP() fv_log_int("top", yy_top_state(FV_A1))
#else
#define FV_DO_PUSH(s) fv_fatal("harness: push without stack support")
#define FV_DO_POP() fv_fatal("harness: pop without stack support")
#define FV_DO_TOP() fv_fatal("harness: top without stack support")
#endif

#define FV_MATCH(i) do { fv_cur_prefix = fv_more_set ? fv_last_leng : 0; fv_more_set = 0; \
    fv_last_leng = (long) yyleng; \
    fv_log_match((i), yytext, (long) yyleng, FV_LINENO_EXPR, yystart(), \
                 fv_bol_needed ? yyatbol() : -1); } while (0)

/* ops shared by actions and by section-3 code */
#define FV_COMMON_OPS(a_, b_) \
    case FV_OP_BEGIN: yybegin((int)(a_)); break; \
    case FV_OP_PUSH: FV_DO_PUSH((int)(a_)); break; \
    case FV_OP_POP: FV_DO_POP(); break; \
    case FV_OP_TOP: FV_DO_TOP(); break; \
    case FV_OP_START: fv_log_int("start", yystart()); break; \
    case FV_OP_SETBOL: yysetbol((int)(a_)); break; \
    case FV_OP_ATBOL: fv_log_int("atbol", yyatbol()); break; \
    case FV_OP_GETLINENO: fv_log_int("lineno", FV_LINENO_EXPR); break;

#define FV_OPS() \
    for (;;) { long a_ = 0, b_ = 0; int op_ = fv_next_op(&a_, &b_); \
        if (op_ == FV_OP_END) break; \
        switch (op_) { \
        case FV_OP_LESS: { int n_ = (int) (fv_cur_prefix + a_ % ((long) yyleng - fv_cur_prefix + 1)); \
            yyless(n_); fv_last_leng = (long) yyleng; fv_log_text("less", yytext, (long) yyleng); } break; \
        case FV_OP_MORE: FV_DO_MORE; fv_more_set = 1; break; \
        case FV_OP_UNPUT: yyunput((int) a_); break; \
        case FV_OP_INPUT: { int c_ = yyinput(FV_A1); fv_log_int("in", c_); } break; \
        case FV_OP_REJECT: FV_DO_REJECT; break; \
        case FV_OP_RETURN: return (int) a_; \
        case FV_OP_TERMINATE: yyterminate(); \
        case FV_OP_CONT: fv_cont = 1; break; \
        FV_COMMON_OPS(a_, b_) \
        default: fv_buffer_op(op_, a_, b_ FV_AL); break; \
        } }

#define ACT(i) { FV_MATCH(i); FV_OPS(); }
/* the default rule's action (ECHO) is observed like any other action */
/* it is not user code, so it takes no script */
#define yyecho() { fv_default_rule = 1; FV_MATCH(YY_NUM_RULES); }
#define ACT_EOF(k) { fv_log_eof(yystart()); fv_cont = 0; FV_OPS(); if (!fv_cont) yyterminate(); fv_cont = 0; }

#endif

/* fvmulti_cxx.cc — section 3 of a C++ scanner (%option c++) whose actions are `return <rule>;`.
 * Same command line, input file and output as fvmulti.c; each instance is a yyFlexLexer object
 * reading from its own std::istringstream. */
#include <cstdio>
#include <cstdlib>
#include <cstring>
#include <string>
#include <sstream>
#include <pthread.h>
#define FVM_MAX 16
static std::string fvm_in[FVM_MAX]; static int fvm_k;
static std::string fvm_out[FVM_MAX];
static std::istringstream *fvm_is[FVM_MAX]; static std::ostringstream *fvm_os[FVM_MAX];
static yyFlexLexer *fvm_sc[FVM_MAX]; static int fvm_done[FVM_MAX];
static void fvm_log(int i, int rule, const char *t, int n) {
    char b[64]; int j;
    snprintf(b, sizeof b, "%d %d ", i, rule); fvm_out[i] += b;
    for (j = 0; j < n; j++) { snprintf(b, sizeof b, "%02x", (unsigned char) t[j]); fvm_out[i] += b; }
    if (!n) fvm_out[i] += "-";
    fvm_out[i] += "\n";
}
static int fvm_step(int i) {
    int r;
    if (fvm_done[i]) return 0;
    r = fvm_sc[i]->yylex();
    if (r == 0) { fvm_done[i] = 1; fvm_log(i, 0, "", 0); return 0; }
    fvm_log(i, r, fvm_sc[i]->YYText(), fvm_sc[i]->YYLeng());
    return r;
}
static void *fvm_thread(void *arg) { int i = (int) (long) arg; while (fvm_step(i)) {} return NULL; }
static int fvm_hex(int c) { return c <= '9' ? c - '0' : (c | 32) - 'a' + 10; }
int main(int argc, char **argv) {
    FILE *f; char *line = NULL; size_t cap = 0; int i; pthread_t th[FVM_MAX];
    if (argc < 3 || !(f = fopen(argv[2], "r"))) return 4;
    if (getline(&line, &cap, f) <= 0) return 4;
    fvm_k = atoi(line);
    for (i = 0; i < fvm_k; i++) {
        ssize_t n = getline(&line, &cap, f); int j;
        for (j = 0; j + 1 < n && line[j] != '\n' && line[j] != '-'; j += 2) fvm_in[i] += (char) (fvm_hex(line[j]) * 16 + fvm_hex(line[j + 1]));
        fvm_is[i] = new std::istringstream(fvm_in[i]);
        fvm_os[i] = new std::ostringstream();          /* the default rule's ECHO */
        fvm_sc[i] = new yyFlexLexer(fvm_is[i], fvm_os[i]);
    }
    if (!strcmp(argv[1], "threads")) {
        for (i = 0; i < fvm_k; i++) pthread_create(&th[i], NULL, fvm_thread, (void *) (long) i);
        for (i = 0; i < fvm_k; i++) pthread_join(th[i], NULL);
    } else {
        char *tok;
        if (getline(&line, &cap, f) > 0)
            for (tok = strtok(line, " \n"); tok; tok = strtok(NULL, " \n")) fvm_step(atoi(tok) % fvm_k);
        for (i = 0; i < fvm_k; i++) while (fvm_step(i)) {}
    }
    for (i = 0; i < fvm_k; i++) { fwrite(fvm_out[i].data(), 1, fvm_out[i].size(), stdout); delete fvm_sc[i]; }
    return 0;
}

/* fvmulti.c — included at the end of a *reentrant* (or c99: -DFVM_C99) scanner whose actions are `return <rule>;`.
 * usage: scanner MODE file
 *   file:  line 1: K   then K lines of hex input, then a line with the schedule (instance indices)
 *   MODE = interleave : one thread, yylex calls in schedule order
 *          threads    : one thread per instance, each runs its instance to the end
 * output: one line per yylex call:  <instance> <rule> <hex text>   (threads: grouped per instance)
 */
#include <stdio.h>
#include <stdlib.h>
#include <string.h>
#include <pthread.h>
#define FVM_MAX 16
static unsigned char *fvm_in[FVM_MAX]; static int fvm_len[FVM_MAX]; static int fvm_k;
static char *fvm_out[FVM_MAX]; static size_t fvm_outlen[FVM_MAX], fvm_outcap[FVM_MAX];
static void fvm_log(int i, int rule, const char *t, int n) {
    size_t need = (size_t) n * 2 + 40; int j; char *p;
    if (fvm_outlen[i] + need > fvm_outcap[i]) { fvm_outcap[i] = (fvm_outcap[i] + need) * 2; fvm_out[i] = (char *) realloc(fvm_out[i], fvm_outcap[i]); }
    p = fvm_out[i] + fvm_outlen[i];
    p += sprintf(p, "%d %d ", i, rule);
    for (j = 0; j < n; j++) p += sprintf(p, "%02x", (unsigned char) t[j]);
    if (!n) *p++ = '-';
    *p++ = '\n'; fvm_outlen[i] = (size_t) (p - fvm_out[i]);
}
static yyscan_t fvm_keep;
static yyscan_t fvm_sc[FVM_MAX]; static yybuffer fvm_b[FVM_MAX]; static int fvm_done[FVM_MAX];
static int fvm_step(int i) {
    int r;
    if (fvm_done[i]) return 0;
    r = yylex(fvm_sc[i]);
    if (r == 0) {
        /* an instance that has reached the end of its input is destroyed at once: the others go on */
        fvm_done[i] = 1; fvm_log(i, 0, "", 0); yylex_destroy(fvm_sc[i]); fvm_sc[i] = NULL; return 0;
    }
    fvm_log(i, r, yyget_text(fvm_sc[i]), (int) yyget_leng(fvm_sc[i]));
    return r;
}
static void *fvm_thread(void *arg) { int i = (int) (long) arg; while (fvm_step(i)) {} return NULL; }
static int fvm_hex(int c) { return c <= '9' ? c - '0' : (c | 32) - 'a' + 10; }
int main(int argc, char **argv) {
    FILE *f; char *line = NULL; size_t cap = 0; int i; pthread_t th[FVM_MAX];
    if (argc < 3 || !(f = fopen(argv[2], "r"))) return 4;
    if (getline(&line, &cap, f) <= 0) return 4;
    fvm_k = atoi(line);
#ifdef FVM_TABLES
    /* %option tables-file: the tables are loaded once, before any instance scans, and freed once, at the very end */
    {
        FILE *tf = fopen(FVM_TABLES, "rb");
        if (!tf || yylex_init(&fvm_keep) || yytables_fload(tf, fvm_keep)) return 6;
        fclose(tf);
    }
#endif
    for (i = 0; i < fvm_k; i++) {
        ssize_t n = getline(&line, &cap, f); int j, m = 0;
        fvm_in[i] = (unsigned char *) malloc((size_t) n + 2);
        for (j = 0; j + 1 < n && line[j] != '\n' && line[j] != '-'; j += 2) fvm_in[i][m++] = (unsigned char) (fvm_hex(line[j]) * 16 + fvm_hex(line[j + 1]));
        fvm_len[i] = m;
        if (yylex_init(&fvm_sc[i])) return 5;
#ifdef FVM_C99
        yyset_out(fopen("/dev/null", "w"), fvm_sc[i]);      /* the default rule's ECHO */
#endif
        fvm_b[i] = yy_scan_bytes((const char *) fvm_in[i], m, fvm_sc[i]);
    }
    if (!strcmp(argv[1], "threads")) {
        for (i = 0; i < fvm_k; i++) pthread_create(&th[i], NULL, fvm_thread, (void *) (long) i);
        for (i = 0; i < fvm_k; i++) pthread_join(th[i], NULL);
    } else {
        char *tok;
        if (getline(&line, &cap, f) > 0)
            for (tok = strtok(line, " \n"); tok; tok = strtok(NULL, " \n")) fvm_step(atoi(tok) % fvm_k);
        for (i = 0; i < fvm_k; i++) while (fvm_step(i)) {}
    }
    for (i = 0; i < fvm_k; i++) { if (fvm_out[i]) fwrite(fvm_out[i], 1, fvm_outlen[i], stdout); if (fvm_sc[i]) yylex_destroy(fvm_sc[i]); }
#ifdef FVM_TABLES
    yytables_destroy(fvm_keep); yylex_destroy(fvm_keep);
#endif
    return 0;
}

#ifndef _GNU_SOURCE
#define _GNU_SOURCE 1
#endif
/* fvmain.c — included at the end of the generated scanner (section 3).
 * Reads the case file, supplies input / wrap / fatal-error / allocation hooks, runs the
 * top-level script and prints the canonical trace on stdout. */
#include <ctype.h>

#define FV_MAXSRC 64
#define FV_MAXOPS 100000
#define FV_MAXBUFS 256

typedef struct { int op; long a, b; } fv_op_t;
typedef struct { fv_op_t *ops; int n; } fv_script_t;

static unsigned char *fv_src[FV_MAXSRC]; static long fv_srclen[FV_MAXSRC];
static long *fv_sched; static int fv_nsched, fv_schedpos;
static fv_script_t fv_main_script, fv_eof_default; static int fv_depth = 0;
static char *fv_tfile[16];
static fv_script_t *fv_acts; static int fv_nacts;         /* script of the k-th action execution */
static fv_script_t *fv_eacts; static int fv_neacts, fv_eact_counter = 0;   /* scripts of <<EOF>> action executions */
static int fv_act_counter = 0;                             /* number of action executions so far */
static fv_script_t *fv_cur_script; static int fv_cur_pos;
static int *fv_wraps; static int fv_nwraps, fv_wrappos;
static FILE *fv_files[FV_MAXSRC]; static long fv_off[FV_MAXSRC];  /* one stdio stream per source */
static long fv_read_calls = 0, fv_read_bytes = 0;
static int fv_logreads = 0;                               /* 1: trace the bytes delivered so far; 2: and every read request */
static jmp_buf fv_jmp; static int fv_in_run = 0, fv_eof_seen = 0;
static long fv_max_events = 200000, fv_events = 0;
int fv_bol_needed = 0, fv_has_lineno = 0, fv_bufsize = 16384, fv_default_rule = 0, fv_cont = 0;
long fv_last_leng = 0, fv_cur_prefix = 0; int fv_more_set = 0;
static int *fv_readerr; static int fv_nreaderr;           /* read call indices that fail */
static int *fv_eintr; static int fv_neintr;               /* read call indices interrupted (EINTR) */
static int *fv_readerr1; static int fv_nreaderr1;         /* read call indices that fail once (EIO); the source is at its end afterwards */
static int fv_src_dead[FV_MAXSRC]; static long fv_dead_reads = 0;   /* reads that came after such a failure, on the same stream */
static long fv_alloc_fail_at = -1, fv_alloc_count = 0;    /* k-th allocation request fails */
static long fv_live = 0, fv_bad_free = 0, fv_faults_fired = 0;

static void fv_event(void) {
    fflush(stdout);
    if (++fv_events > fv_max_events) { printf("cap\n"); fflush(stdout); exit(0); }
}
static void fv_hex(const char *t, long n) {
    long i; for (i = 0; i < n; i++) printf("%02x", (unsigned char) t[i]);
    if (n == 0) printf("-");
}
void fv_log_match(int rule, const char *text, long leng, long lineno, int start, int atbol) {
    fv_event();
    if (fv_logreads == 1) printf("rd %ld\n", fv_read_bytes);
    printf("m %d ", rule); fv_hex(text, leng); printf(" %ld %d %d\n", lineno, start, atbol);
    /* an action execution begins: select its script (the default rule's ECHO takes none) */
    if (fv_default_rule) { fv_default_rule = 0; fv_cur_script = NULL; fv_cur_pos = 0; return; }
    if (fv_act_counter < fv_nacts) { fv_cur_script = &fv_acts[fv_act_counter]; } else fv_cur_script = NULL;
    fv_cur_pos = 0; fv_act_counter++;
}
void fv_log_eof(int sc) {
    fv_event();
    printf("eof %d\n", sc);
    if (fv_eact_counter < fv_neacts && fv_eacts[fv_eact_counter].n > 0) { fv_cur_script = &fv_eacts[fv_eact_counter]; }
    else fv_cur_script = fv_eof_default.n ? &fv_eof_default : NULL;
    fv_cur_pos = 0; fv_eact_counter++;
}
void fv_log_text(const char *tag, const char *text, long leng) {
    fv_event(); printf("%s ", tag); fv_hex(text, leng); printf("\n");
}
void fv_log_int(const char *tag, long v) { fv_event(); printf("%s %ld\n", tag, v); }
int fv_next_op(long *a, long *b) {
    if (!fv_cur_script || fv_cur_pos >= fv_cur_script->n) return FV_OP_END;
    *a = fv_cur_script->ops[fv_cur_pos].a; *b = fv_cur_script->ops[fv_cur_pos].b;
    return fv_cur_script->ops[fv_cur_pos++].op;
}
int fv_read(void *file, char *buf, size_t max_size) {
    long want, left; int k, id = -1;
    for (k = 0; k < fv_nreaderr; k++) if (fv_readerr[k] == fv_read_calls) { fv_read_calls++; fv_fatal("input in flex scanner failed"); }
    fv_read_calls++;
    if (fv_logreads >= 2) printf("rq %ld\n", (long) max_size);      /* what yy_get_next_buffer() asked for */
    for (k = 0; k < FV_MAXSRC; k++) if (fv_files[k] && (void *) fv_files[k] == file) { id = k; break; }
    if (id < 0) return 0;
    left = fv_srclen[id] - fv_off[id];
    want = fv_nsched ? fv_sched[fv_schedpos++ % fv_nsched] : (long) max_size;
    if (want < 1) want = 1;
    if (want > (long) max_size) want = (long) max_size;
    if (want > left) want = left;
    if (want > 0) memcpy(buf, fv_src[id] + fv_off[id], (size_t) want);
    fv_off[id] += want; fv_read_bytes += want;
    return (int) want;
}
void fv_fatal(const char *msg) {
    const char *cls = "other";
    if (strstr(msg, "stack underflow")) cls = "underflow";
    else if (strstr(msg, "push-back overflow")) cls = "pushback";
    else if (strstr(msg, "uses REJECT") || strstr(msg, "uses yyreject") || strstr(msg, "because scanner uses reject")) cls = "reject_overflow";
    else if (strstr(msg, "out of dynamic memory") || strstr(msg, "out of memory")) cls = "nomem";
    else if (strstr(msg, "input in flex scanner failed")) cls = "readerr";
    else if (strstr(msg, "token too large")) cls = "yylmax";
    else if (strstr(msg, "bad buffer")) cls = "badbuffer";
    else if (strstr(msg, "harness:")) cls = msg;
    else if (strstr(msg, "scanner jammed")) cls = "jammed";
    else if (strstr(msg, "start-condition stack") && strstr(msg, "memory")) cls = "nomem";
    else if (strstr(msg, "end of buffer missed")) cls = "eobmissed";
    if (!strcmp(cls, "other")) printf("fatal other:%s\n", msg); else
    printf("fatal %s\n", cls); fflush(stdout);
    if (fv_in_run) longjmp(fv_jmp, 1);
    exit(3);
}
int fv_wrap_next(void) {
    if (fv_wrappos >= fv_nwraps) return -1;
    return fv_wraps[fv_wrappos++];
}

/* ---- case file parsing ---------------------------------------------------------------- */
static int fv_hexval(int c) { return isdigit(c) ? c - '0' : (tolower(c) - 'a' + 10); }
static int fv_opcode(const char *w) {
    static const struct { const char *n; int op; } tab[] = {
        {"less", FV_OP_LESS}, {"more", FV_OP_MORE}, {"unput", FV_OP_UNPUT}, {"input", FV_OP_INPUT},
        {"reject", FV_OP_REJECT}, {"begin", FV_OP_BEGIN}, {"push", FV_OP_PUSH}, {"pop", FV_OP_POP},
        {"top", FV_OP_TOP}, {"setbol", FV_OP_SETBOL}, {"return", FV_OP_RETURN}, {"lex", FV_OP_LEX},
        {"scanbytes", FV_OP_SCANBYTES}, {"scanstring", FV_OP_SCANSTRING}, {"scanbuffer", FV_OP_SCANBUFFER},
        {"switch", FV_OP_SWITCH}, {"pushbuf", FV_OP_PUSHBUF}, {"popbuf", FV_OP_POPBUF},
        {"flush", FV_OP_FLUSH}, {"delete", FV_OP_DELETE}, {"restart", FV_OP_RESTART},
        {"create", FV_OP_CREATE}, {"destroy", FV_OP_DESTROY}, {"setlineno", FV_OP_SETLINENO},
        {"getlineno", FV_OP_GETLINENO}, {"newyyin", FV_OP_NEWYYIN}, {"start", FV_OP_START},
        {"atbol", FV_OP_ATBOL}, {"terminate", FV_OP_TERMINATE}, {"flushcur", FV_OP_FLUSHCUR},
        {"grab", FV_OP_GRAB}, {"cont", FV_OP_CONT}, {"include_end", FV_OP_INCLUDE_END},
        {"tload", FV_OP_TLOAD}, {"tdestroy", FV_OP_TDESTROY}, {"less3", FV_OP_LESS3}, {NULL, 0} };
    int i; for (i = 0; tab[i].n; i++) if (!strcmp(tab[i].n, w)) return tab[i].op;
    fprintf(stderr, "harness: unknown op %s\n", w); exit(4);
}
static void fv_parse_ops(char *s, fv_script_t *sc) {
    char *tok; int cap = 16;
    sc->ops = (fv_op_t *) malloc(sizeof(fv_op_t) * cap); sc->n = 0;
    for (tok = strtok(s, " \t\r\n"); tok; tok = strtok(NULL, " \t\r\n")) {
        char *c1 = strchr(tok, ':'); char *c2 = NULL; fv_op_t o; o.a = o.b = 0;
        if (c1) { *c1++ = 0; c2 = strchr(c1, ':'); if (c2) *c2++ = 0; o.a = atol(c1); if (c2) o.b = atol(c2); }
        o.op = fv_opcode(tok);
        if (sc->n == cap) { cap *= 2; sc->ops = (fv_op_t *) realloc(sc->ops, sizeof(fv_op_t) * cap); }
        sc->ops[sc->n++] = o;
    }
}
static void fv_load(const char *path) {
    FILE *f = fopen(path, "r"); char *line = NULL; size_t cap = 0; ssize_t n;
    if (!f) { perror(path); exit(4); }
    fv_acts = (fv_script_t *) calloc(FV_MAXOPS, sizeof(fv_script_t));
    fv_eacts = (fv_script_t *) calloc(FV_MAXOPS, sizeof(fv_script_t));
    while ((n = getline(&line, &cap, f)) > 0) {
        char *p = line;
        if (!strncmp(p, "src ", 4)) {
            int id = (int) strtol(p + 4, &p, 10); long len = 0; unsigned char *d;
            while (*p == ' ') p++;
            d = (unsigned char *) malloc(strlen(p) / 2 + 3);
            while (isxdigit((unsigned char) p[0]) && isxdigit((unsigned char) p[1])) { d[len++] = (unsigned char) (fv_hexval(p[0]) * 16 + fv_hexval(p[1])); p += 2; }
            d[len] = 0; d[len + 1] = 0;
            if (id >= 0 && id < FV_MAXSRC) { fv_src[id] = d; fv_srclen[id] = len; }
        } else if (!strncmp(p, "sched ", 6)) {
            char *tok; int c = 0; fv_sched = (long *) malloc(sizeof(long) * (strlen(p) + 1));
            for (tok = strtok(p + 6, " \t\r\n"); tok; tok = strtok(NULL, " \t\r\n")) fv_sched[c++] = atol(tok);
            fv_nsched = c;
        } else if (!strncmp(p, "main ", 5)) fv_parse_ops(p + 5, &fv_main_script);
        else if (!strncmp(p, "eofact ", 7)) fv_parse_ops(p + 7, &fv_eof_default);
        else if (!strncmp(p, "tfile ", 6)) {
            int id = (int) strtol(p + 6, &p, 10); while (*p == ' ') p++;
            if (id >= 0 && id < 16) { fv_tfile[id] = strdup(p); fv_tfile[id][strcspn(fv_tfile[id], "\r\n")] = 0; }
        }
        else if (!strncmp(p, "act ", 4)) {
            int k = (int) strtol(p + 4, &p, 10);
            if (k >= 0 && k < FV_MAXOPS) { fv_parse_ops(p, &fv_acts[k]); if (k + 1 > fv_nacts) fv_nacts = k + 1; }
        } else if (!strncmp(p, "eact ", 5)) {
            int k = (int) strtol(p + 5, &p, 10);
            if (k >= 0 && k < FV_MAXOPS) { fv_parse_ops(p, &fv_eacts[k]); if (k + 1 > fv_neacts) fv_neacts = k + 1; }
        } else if (!strncmp(p, "wrap ", 5)) {
            char *tok; int c = 0; fv_wraps = (int *) malloc(sizeof(int) * (strlen(p) + 1));
            for (tok = strtok(p + 5, " \t\r\n"); tok; tok = strtok(NULL, " \t\r\n")) fv_wraps[c++] = (tok[0] == '-') ? -1 : (tok[0] == 'p') ? -2 : (tok[0] == 's') ? -1000 - atoi(tok + 1) : atoi(tok);
            fv_nwraps = c;
        } else if (!strncmp(p, "readerr ", 8)) {
            char *tok; int c = 0; fv_readerr = (int *) malloc(sizeof(int) * (strlen(p) + 1));
            for (tok = strtok(p + 8, " \t\r\n"); tok; tok = strtok(NULL, " \t\r\n")) fv_readerr[c++] = atoi(tok);
            fv_nreaderr = c;
        } else if (!strncmp(p, "readerr1 ", 9)) {
            char *tok; int c = 0; fv_readerr1 = (int *) malloc(sizeof(int) * (strlen(p) + 1));
            for (tok = strtok(p + 9, " \t\r\n"); tok; tok = strtok(NULL, " \t\r\n")) fv_readerr1[c++] = atoi(tok);
            fv_nreaderr1 = c;
        } else if (!strncmp(p, "eintr ", 6)) {
            char *tok; int c = 0; fv_eintr = (int *) malloc(sizeof(int) * (strlen(p) + 1));
            for (tok = strtok(p + 6, " \t\r\n"); tok; tok = strtok(NULL, " \t\r\n")) fv_eintr[c++] = atoi(tok);
            fv_neintr = c;
        } else if (!strncmp(p, "allocfail ", 10)) fv_alloc_fail_at = atol(p + 10);
        else if (!strncmp(p, "bolneeded ", 10)) fv_bol_needed = atoi(p + 10);
        else if (!strncmp(p, "haslineno ", 10)) fv_has_lineno = atoi(p + 10);
        else if (!strncmp(p, "maxevents ", 10)) fv_max_events = atol(p + 10);
        else if (!strncmp(p, "bufsize ", 8)) fv_bufsize = atoi(p + 8);
        else if (!strncmp(p, "logreads ", 9)) fv_logreads = atoi(p + 9);
    }
    free(line); fclose(f);
}

/* ---- allocation ledger ------------------------------------------------------------------- */
#define FV_MAXLIVE 4096
static void *fv_liveptr[FV_MAXLIVE]; static size_t fv_livesz[FV_MAXLIVE];
static long fv_free_null = 0, fv_realloc_count = 0, fv_alloc_failed = 0;
static int fv_find(void *p) { int i; for (i = 0; i < FV_MAXLIVE; i++) if (fv_liveptr[i] == p) return i; return -1; }
void *fv_alloc(size_t n) {
    void *p; int i;
    if (fv_alloc_count++ == fv_alloc_fail_at) { fv_alloc_failed++; return NULL; }
    p = malloc(n ? n : 1);
    if (!p) return NULL;
    memset(p, 0xA5, n);                       /* fresh memory is garbage */
    i = fv_find(NULL); if (i >= 0) { fv_liveptr[i] = p; fv_livesz[i] = n; }
    fv_live++;
    return p;
}
void *fv_realloc(void *old, size_t n) {
    void *p; int i;
    fv_realloc_count++;
    if (old == NULL) return fv_alloc(n);
    if (fv_alloc_count++ == fv_alloc_fail_at) { fv_alloc_failed++; return NULL; }
    i = fv_find(old);
    if (i < 0) { fv_bad_free++; return NULL; }
    p = malloc(n ? n : 1);
    if (!p) return NULL;
    memset(p, 0xA5, n);
    memcpy(p, old, fv_livesz[i] < n ? fv_livesz[i] : n);
    free(old);                                /* always move: stale pointers into the old block show up under ASan */
    fv_liveptr[i] = p; fv_livesz[i] = n;
    return p;
}
void fv_free(void *p) {
    int i;
    if (p == NULL) { fv_free_null++; return; }
    i = fv_find(p);
    if (i < 0) { fv_bad_free++; return; }
    fv_liveptr[i] = NULL; fv_live--;
    free(p);
}

/* ---- scanner-facing part (uses the generated scanner's own API) ------------------------ */
#ifndef FV_CORE_ONLY
#if defined(FV_BACKEND_C99)
#define FV_DEF_ONLY yyscan_t yyscanner
#define FV_DEF_LAST , void *fv_ys_
#define FV_GUTS yyscan_t yyscanner = (yyscan_t) fv_ys_; (void) yyscanner;
#define FV_GUTS0
static yyscan_t fv_scanner; static int fv_scanner_alive = 1;
#define FV_TOP_A1 fv_scanner
#define FV_TOP_AL , fv_scanner
#define FV_SET_IN(f) yyset_in((f), yyscanner)
#define FV_CURBUF() yy_current_buffer(yyscanner)
#define FV_SIZE_T size_t
#elif defined(FV_BACKEND_R)
#define FV_DEF_ONLY yyscan_t yyscanner
#define FV_DEF_LAST , void *yyscanner
#define FV_GUTS struct yyguts_t *yyg = (struct yyguts_t *) yyscanner; (void) yyg;
static yyscan_t fv_scanner; static int fv_scanner_alive = 1;
#define FV_TOP_A1 fv_scanner
#define FV_TOP_AL , fv_scanner
#else
#define FV_DEF_ONLY void
#define FV_DEF_LAST
#define FV_GUTS
#define FV_TOP_A1
#define FV_TOP_AL
#endif
#ifndef FV_SET_IN
#define FV_SET_IN(f) yyin = (f)
#define FV_CURBUF() yy_current_buffer()
#define FV_SIZE_T yy_size_t
#endif

static yybuffer fv_bufs[FV_MAXBUFS]; static int fv_nbufs = 0;
static char *fv_scanbuf_mem[FV_MAXBUFS];

#ifdef FV_STDIO
/* a stdio stream over a source: delivers bytes per the read schedule, fails or is interrupted at
 * the read-call indices listed in the case file */
static ssize_t fv_cookie_read(void *cookie, char *buf, size_t size) {
    long id = (long) cookie, want, left; int k;
    long call = fv_read_calls++;
    /* a failed device stays failed: every call from the listed index on reports EIO */
    for (k = 0; k < fv_nreaderr; k++) if (fv_readerr[k] <= call) { fv_faults_fired++; errno = EIO; return -1; }
    for (k = 0; k < fv_neintr; k++) if (fv_eintr[k] == call) { fv_faults_fired++; errno = EINTR; return -1; }
    /* a failure that does not repeat: this call reports EIO, later ones find the source at its end */
    for (k = 0; k < fv_nreaderr1; k++) if (fv_readerr1[k] == call) { fv_faults_fired++; fv_src_dead[id] = 1; errno = EIO; return -1; }
    if (fv_src_dead[id]) { fv_dead_reads++; return 0; }
    left = fv_srclen[id] - fv_off[id];
    want = fv_nsched ? fv_sched[fv_schedpos++ % fv_nsched] : (long) size;
    if (want < 1) want = 1;
    if (want > (long) size) want = (long) size;
    if (want > left) want = left;
    if (want > 0) memcpy(buf, fv_src[id] + fv_off[id], (size_t) want);
    fv_off[id] += want; fv_read_bytes += want;
    return (ssize_t) want;
}
#endif
static FILE *fv_file_of(long id) {
    if (id < 0 || id >= FV_MAXSRC || !fv_src[id]) return NULL;
    if (!fv_files[id]) {
#ifdef FV_STDIO
        cookie_io_functions_t io = { fv_cookie_read, NULL, NULL, NULL };
        fv_files[id] = fopencookie((void *) id, "r", io);
        if (fv_files[id]) setvbuf(fv_files[id], NULL, _IONBF, 0);
#else
        fv_files[id] = fopen("/dev/null", "r");   /* identity only: bytes come through fv_read */
#endif
    }
    return fv_files[id];
}
static void fv_rewind(long id) {
    fv_off[id] = 0; fv_src_dead[id] = 0;
#ifdef FV_STDIO
    if (fv_files[id]) { fclose(fv_files[id]); fv_files[id] = NULL; }
#endif
}

#if defined(FV_LEDGER) && defined(FV_BACKEND_C99)
void *yyalloc(size_t n, yyscan_t yyscanner) { (void) yyscanner; return fv_alloc(n); }
void *yyrealloc(void *p, size_t n, yyscan_t yyscanner) { (void) yyscanner; return fv_realloc(p, n); }
void yyfree(void *p, yyscan_t yyscanner) { (void) yyscanner; fv_free(p); }
#elif defined(FV_LEDGER)
void *yyalloc(yy_size_t n FV_DEF_LAST) { return fv_alloc((size_t) n); }
void *yyrealloc(void *p, yy_size_t n FV_DEF_LAST) { return fv_realloc(p, (size_t) n); }
void yyfree(void *p FV_DEF_LAST) { fv_free(p); }
#endif

#ifdef FV_BACKEND_C99
/* the c99 skeleton's ECHO is a function writing to yyout: the default rule is observed through a
 * stream whose write callback logs the match like any other action (it takes no script) */
static ssize_t fv_echo_write(void *cookie, const char *buf, size_t n) {
    yyscan_t yyscanner = fv_scanner;
    (void) cookie;
    fv_default_rule = 1;
    fv_cur_prefix = fv_more_set ? fv_last_leng : 0; fv_more_set = 0; fv_last_leng = (long) n;
    fv_log_match(YY_END_OF_BUFFER - 1, buf, (long) n, FV_LINENO_EXPR, yystart(yyscanner),
                 fv_bol_needed ? (int) yyatbol(yyscanner) : -1);
    return (ssize_t) n;
}
static FILE *fv_echo_stream(void) {
    static FILE *f;
    if (!f) {
        cookie_io_functions_t io = { NULL, fv_echo_write, NULL, NULL };
        f = fopencookie(NULL, "w", io);
        if (f) setvbuf(f, NULL, _IONBF, 0);
    }
    return f;
}
/* the c99 skeleton's replaceable routines (%option noyyread noyypanic) */
#ifndef FV_STDIO
static int yyread(char *buf, size_t max_size, yyscan_t yyscanner) { return fv_read((void *) yyget_in(yyscanner), buf, max_size); }
#endif
static void yypanic(const char *msg, yyscan_t yyscanner) { (void) yyscanner; fv_fatal(msg); }
#endif

#ifndef FV_NO_YYWRAP_DEF
#ifndef FV_GUTS0
#define FV_GUTS0 FV_GUTS
#endif
static yybuffer fv_buf(long i);
int yywrap(FV_DEF_ONLY) {
    FV_GUTS0
    int s = fv_wrap_next();
    fv_log_int("wrap", s <= -1000 ? -3 : s);
    if (s <= -1000) {      /* an include done by switching: go back to a buffer that was left for it, and go on */
        yybuffer b = fv_buf(-1000 - s);
        if (b && b != FV_CURBUF()) { yy_switch_to_buffer(b FV_AL); return 0; }
        return 1;
    }
    if (s == -2) {         /* end of an included buffer: pop it and go on, if there is one below */
        if (fv_depth > 0) { yypop_buffer_state(FV_A1); fv_depth--; return 0; }
        return 1;
    }
    if (s < 0) return 1;
    fv_rewind(s);
    FV_SET_IN(fv_file_of(s));
    return 0;
}
#endif

static void fv_reg(yybuffer b) {
    if (fv_nbufs < FV_MAXBUFS) fv_bufs[fv_nbufs] = b;
    fv_log_int(b ? "buf" : "nullbuf", fv_nbufs);
    if (fv_nbufs < FV_MAXBUFS) fv_nbufs++;
}
static yybuffer fv_buf(long i) { return (i >= 0 && i < fv_nbufs) ? fv_bufs[i] : NULL; }

#if !defined(FV_BACKEND_C99) && !defined(FV_BACKEND_CXX)
static void fv_less3(int n FV_DEF_LAST) {
    FV_GUTS
    yyless(n);           /* the section-3 definition of the macro */
}
#endif

static void fv_buffer_op(int op, long a, long b FV_DEF_LAST) {
    FV_GUTS
    switch (op) {
    case FV_OP_GRAB: fv_reg(FV_CURBUF()); break;
    case FV_OP_SCANBYTES: fv_reg(yy_scan_bytes((const char *) fv_src[a], (int) fv_srclen[a] FV_AL)); break;
    case FV_OP_SCANSTRING: fv_reg(yy_scan_string((const char *) fv_src[a] FV_AL)); break;
    case FV_OP_SCANBUFFER: {
        /* b = how many of the two terminating NULs to include in the size handed over */
        char *m = (char *) malloc((size_t) fv_srclen[a] + 2);
        memcpy(m, fv_src[a], (size_t) fv_srclen[a]); m[fv_srclen[a]] = 0; m[fv_srclen[a] + 1] = 0;
        if (fv_nbufs < FV_MAXBUFS) fv_scanbuf_mem[fv_nbufs] = m;
        fv_reg(yy_scan_buffer(m, (FV_SIZE_T) (fv_srclen[a] + b) FV_AL));
        break; }
    case FV_OP_CREATE: fv_rewind(a); fv_reg(yy_create_buffer(fv_file_of(a), (int) b FV_AL)); break;
    case FV_OP_SWITCH: yy_switch_to_buffer(fv_buf(a) FV_AL); break;
    case FV_OP_PUSHBUF: yypush_buffer_state(fv_buf(a) FV_AL); fv_depth++; break;
    case FV_OP_POPBUF: yypop_buffer_state(FV_A1); if (fv_depth > 0) fv_depth--; break;
    case FV_OP_INCLUDE_END:    /* end of an included buffer: pop it and go on, or stop */
        if (fv_depth > 0) { yypop_buffer_state(FV_A1); fv_depth--; fv_cont = 1; }
        break;
    case FV_OP_FLUSH: yy_flush_buffer(fv_buf(a) FV_AL); break;
    case FV_OP_FLUSHCUR: yy_flush_buffer(FV_CURBUF() FV_AL); break;
    case FV_OP_DELETE: yy_delete_buffer(fv_buf(a) FV_AL); break;
    case FV_OP_RESTART: fv_rewind(a); yyrestart(fv_file_of(a) FV_AL); break;
    case FV_OP_NEWYYIN: fv_rewind(a); FV_SET_IN(fv_file_of(a)); break;
#ifdef FV_TABLES
    case FV_OP_TLOAD: {
        FILE *tf = (a >= 0 && a < 16 && fv_tfile[a]) ? fopen(fv_tfile[a], "rb") : NULL;
        int rc;
        if (!tf) { fv_log_int("tload", -99); break; }
        rc = yytables_fload(tf FV_AL);
        fclose(tf);
        fv_log_int("tload", rc);
        break; }
    case FV_OP_TDESTROY: fv_log_int("tdestroy", yytables_destroy(FV_A1)); break;
#endif
    case FV_OP_SETLINENO:
#if defined(FV_BACKEND_R) || defined(FV_BACKEND_C99)
        yyset_lineno((int) a, yyscanner);
#else
        yylineno = (int) a;
#endif
        break;
    default: fv_fatal("harness: op not valid here");
    }
}

static void fv_stats(void) {
    fprintf(stderr, "stats reads=%ld bytes=%ld allocs=%ld live=%ld badfree=%ld reallocs=%ld allocfailed=%ld faultsfired=%ld deadreads=%ld\n", fv_read_calls, fv_read_bytes,
            fv_alloc_count, fv_live, fv_bad_free, fv_realloc_count, fv_alloc_failed, fv_faults_fired, fv_dead_reads);
}

int main(int argc, char **argv) {
    int i;
#if defined(FV_BACKEND_C99)
    yyscan_t yyscanner;
#define FV_NEW_SCANNER() yyscanner = fv_scanner; yyset_out(fv_echo_stream(), yyscanner)
#elif defined(FV_BACKEND_R)
    yyscan_t yyscanner;
    struct yyguts_t *yyg;
#define FV_NEW_SCANNER() yyscanner = fv_scanner; yyg = (struct yyguts_t *) yyscanner
#endif
    if (argc < 2) { fprintf(stderr, "usage: scanner case\n"); return 4; }
    fv_load(argv[1]);
#ifdef FV_NEW_SCANNER
    if (yylex_init(&fv_scanner) != 0) { printf("initfail %d\n", errno); fv_stats(); return 0; }
    FV_NEW_SCANNER();
#endif
    if (fv_src[0]) FV_SET_IN(fv_file_of(0));
    fv_in_run = 1;
    if (setjmp(fv_jmp) == 0) {
        for (i = 0; i < fv_main_script.n; i++) {
            fv_op_t o = fv_main_script.ops[i];
#ifdef FV_NEW_SCANNER
            if (!fv_scanner_alive) {
                if (yylex_init(&fv_scanner) != 0) { printf("initfail %d\n", errno); fv_stats(); return 0; }
                FV_NEW_SCANNER(); fv_scanner_alive = 1;
            }
#endif
            switch (o.op) {
            case FV_OP_LEX: if (fv_eof_seen && o.a == 0) break;   /* lex:1 = call again even after end of input */
                { int r = yylex(FV_TOP_A1); fv_event(); printf("ret %d\n", r); fv_eof_seen = (r == 0); } break;
            case FV_OP_DESTROY: { int r = yylex_destroy(FV_TOP_A1); printf("destroy %d\n", r);
#ifdef FV_NEW_SCANNER
                fv_scanner_alive = 0;     /* a new scanner object is made when the script goes on */
#endif
                } break;
            case FV_OP_INPUT: { int c_ = yyinput(FV_TOP_A1); fv_log_int("in", c_); } break;
            case FV_OP_UNPUT: FV_UNPUT((int) o.a); break;
            FV_COMMON_OPS(o.a, o.b)
            default: fv_buffer_op(o.op, o.a, o.b FV_TOP_AL); fv_eof_seen = 0; break;
            }
        }
    }
    fv_in_run = 0;
    printf("end\n");
    fv_stats();
    return 0;
}
#endif /* FV_CORE_ONLY */

/* fvmain_cxx.cc — section 3 of a generated C++ scanner (%option c++): the case-file reader, logging
 * and scripts of fvmain.c, and a small main that runs `lex` / `destroy` scripts on a yyFlexLexer.
 * Buffer operations and several sources are not available here (the C API is exercised by fvmain.c). */
#define FV_CORE_ONLY 1
#include "fvmain.c"

static void fv_buffer_op(int op, long a, long b) { (void) op; (void) a; (void) b; fv_fatal("harness: op not valid here"); }
static void fv_stats(void) {
    fprintf(stderr, "stats reads=%ld bytes=%ld allocs=%ld live=%ld badfree=%ld reallocs=%ld allocfailed=%ld faultsfired=%ld\n", fv_read_calls, fv_read_bytes,
            fv_alloc_count, fv_live, fv_bad_free, fv_realloc_count, fv_alloc_failed, fv_faults_fired);
}
/* YY_INPUT of the C++ scanner: bytes of source 0, delivered per the read schedule */
int fv_read_cxx(char *buf, size_t max_size) {
    long want, left;
    fv_read_calls++;
    if (fv_logreads >= 2) printf("rq %ld\n", (long) max_size);
    left = fv_srclen[0] - fv_off[0];
    want = fv_nsched ? fv_sched[fv_schedpos++ % fv_nsched] : (long) max_size;
    if (want < 1) want = 1;
    if (want > (long) max_size) want = (long) max_size;
    if (want > left) want = left;
    if (want > 0) memcpy(buf, fv_src[0] + fv_off[0], (size_t) want);
    fv_off[0] += want; fv_read_bytes += want;
    return (int) want;
}

#ifdef FV_LEDGER
void *yyalloc(yy_size_t n) { return fv_alloc((size_t) n); }
void *yyrealloc(void *p, yy_size_t n) { return fv_realloc(p, (size_t) n); }
void yyfree(void *p) { fv_free(p); }
#endif
int yyFlexLexer::yywrap() { return 1; }      /* the base class's; FvLexer overrides it */

int main(int argc, char **argv) {
    int i;
    FvLexer *lexer;
    if (argc < 2) { fprintf(stderr, "usage: scanner case\n"); return 4; }
    fv_load(argv[1]);
    lexer = new FvLexer();
    fv_in_run = 1;
    if (setjmp(fv_jmp) == 0) {
        for (i = 0; i < fv_main_script.n; i++) {
            fv_op_t o = fv_main_script.ops[i];
            if (!lexer) lexer = new FvLexer();
            switch (o.op) {
            case FV_OP_LEX: if (fv_eof_seen && o.a == 0) break;
                { int r = lexer->yylex(); fv_event(); printf("ret %d\n", r); fv_eof_seen = (r == 0); } break;
            case FV_OP_DESTROY: delete lexer; lexer = 0; printf("destroy 0\n"); break;
            default: fv_fatal("harness: op not valid here");
            }
        }
    }
    fv_in_run = 0;
    printf("end\n");
    fv_stats();
    return 0;
}

#!/usr/bin/env python3
"""Regenerate every lean/FlexVerif/Gen/*.lean from /repo's current tree (what the checks do one by one).
Run before committing: the committed generated files must be those of the clean tree, because
MANIFEST.setup_cmd builds the library from the committed files."""
import sys, os
sys.path.insert(0, os.path.dirname(os.path.abspath(__file__)))
from fv import c19, c05, c11, c08, c03, c01, c07, c12, c16, c18, flexrun
flex, src = flexrun.build_flex()
bad = 0
for name, r in (('Options', c19.regen_options(src)), ('StartStack', c05.regen_startstack()), ('BufStack', c11.regen_bufstack()), ('ScanBuf', c11.regen_scanbuf()), ('Flush', c11.regen_flush()),
                ('Unput', c08.regen_unput()), ('YYLess', c08.regen_yyless()), ('NextBuf', c03.regen_nextbuf()), ('PrevState', c01.regen_prevstate()), ('Reject', c07.regen_reject()),
                ('M4Symbols', c19.regen_m4symbols(src)), ('Proc', c16.regen_proc(src)), ('Calls', c18.regen_calls(flex, src)),
                ('Footprint', c12.regen_footprint(flex, src, flexrun.scratch_root()))):
    err = r[1] if isinstance(r, tuple) and name not in ('M4Symbols', 'Proc', 'Calls', 'Footprint') else None
    print(name, 'ok' if not err else 'ERROR ' + str(err))
    bad |= bool(err)
sys.exit(bad)

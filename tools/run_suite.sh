#!/bin/sh
# Run the repository's test suite on a scratch copy of /repo's current working tree.
# usage: run_suite.sh   -> prints "PASS n FAIL m"
set -e
S=$(mktemp -d /var/tmp/flexsuite.XXXXXX)
trap 'rm -rf "$S"' EXIT
rsync -a --exclude .git /repo/ "$S/flex/"
cd "$S/flex"
# the configured Makefiles carry /repo as absolute build directory: retarget them to the copy
find . -name Makefile -print0 | xargs -0 sed -i "s|/repo/|$S/flex/|g; s|= /repo\$|= $S/flex|"
unset POSIXLY_CORRECT
# src/Makefile's bootstrap comparison (stage2compare) races with the main build under -j:
# build flex first, then the rest serially
{ make -C src -j8 flex && make; } >"$S/build.log" 2>&1 || { tail -30 "$S/build.log"; echo "BUILD FAILED"; exit 1; }
make -C tests clean >/dev/null 2>&1 || true
make -j16 check >"$S/check.log" 2>&1 || true
grep -E "^# (TOTAL|PASS|FAIL|XFAIL|XPASS|ERROR|SKIP)" "$S/check.log" | tr '\n' ' '
echo
grep -E "^(FAIL|ERROR):" "$S/check.log" | head -20

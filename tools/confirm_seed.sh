#!/bin/sh
# usage: confirm_seed.sh <worktree>  — confirm a sub-agent's change: suite passes with it, demo fails with it, demo passes without
W="$1"
cd "$W" || exit 2
git diff -- src > /var/tmp/confirm_$$.diff
[ -s /var/tmp/confirm_$$.diff ] || { git apply patch.diff || exit 2; }
make -C src -j8 flex >/dev/null 2>&1 || { echo "BUILD FAILED with change"; exit 1; }
bash ./demo.sh >/dev/null 2>&1; echo "demo with change: rc=$?"
make -C tests clean >/dev/null 2>&1; make -j12 check 2>&1 | grep -E "^# (TOTAL|PASS|FAIL)" | tr '\n' ' '; echo
git checkout -- src
make -C src -j8 flex >/dev/null 2>&1
bash ./demo.sh >/dev/null 2>&1; echo "demo without change: rc=$?"
git apply patch.diff
rm -f /var/tmp/confirm_$$.diff

"""C03 runtime correspondence check (see DESIGN.md)."""
import os
from . import rtprop, common, flexrun, rules, rt

THEOREMS = ['FlexVerif.validate_sound', 'FlexVerif.match_conserves', 'FlexVerif.specCands_selects',
            'FlexVerif.Buf.scan_spec', 'FlexVerif.Buf.run_tokens', 'FlexVerif.Buf.run_from_init', 'FlexVerif.Buf.delivery_independent_partial', 'FlexVerif.Buf.schedReader_OK', 'FlexVerif.bufToken_selects']


NEXTBUF_THEOREMS = ['FlexVerif.C03NextBuf.' + t for t in (
    'nextBuf_shape', 'moveFrom_get', 'moveFrom_eq', 'mv_loop', 'gr_loop', 'rdTail_run', 'fin_run', 'prefix_run', 'marks',
    'nextBuf_nofill', 'nextBuf_eof_pending', 'nextBuf_read', 'nextBuf_overflow', 'never_out_of_bounds',
    'eof_only_when_reader_dry', 'delivered_is_scanned', 'rest_read', 'rest_eof_pending', 'rest_overflow', 'nextBuf_correct')]
NEXTBUF_THEOREMS += ['FlexVerif.C03NextBufC99.' + t for t in (
    'nextBuf99_shape', 'prefix99_run', 'moved99_like', 'nextBuf99_nofill', 'nextBuf99_eof_pending', 'nextBuf99_read',
    'nextBuf99_overflow', 'nextBuf99_correct', 'never_out_of_bounds_c99', 'eof_only_when_reader_dry_c99')]
# the translated function does the refill step of the buffer machine Runtime/Buf.lean (about which run_tokens is proved)
NEXTBUF_THEOREMS += ['FlexVerif.C03Refine.' + t for t in (
    'growSize_eq', 'split_marks', 'part_eq', 'chunk_eq', 'refines_refill', 'nextBuf_refines_refill', 'nextBuf99_refines_refill',
    'retOf_cases')]


def regen_nextbuf():
    """translate yy_get_next_buffer() of a scanner flex generates now into lean/FlexVerif/Gen/NextBuf.lean"""
    import fcntl
    from . import gen_nextbuf
    flex, src = flexrun.build_flex()
    try:
        body, info = gen_nextbuf.generate(flex, flexrun.scratch_root())
        body99, info99 = gen_nextbuf.generate_c99(flex, flexrun.scratch_root())
    except gen_nextbuf.TranslateError as e:
        return None, str(e)
    info = dict(info or {}); info['c99'] = info99
    files = [(os.path.join(common.LEAN_DIR, 'FlexVerif', 'Gen', 'NextBuf.lean'), body),
             (os.path.join(common.LEAN_DIR, 'FlexVerif', 'Gen', 'NextBufC99.lean'), body99)]
    lock = open(os.path.join(common.LEAN_DIR, '.build.lock'), 'w')
    fcntl.flock(lock, fcntl.LOCK_EX)
    try:
        for path, text in files:
            old = open(path).read() if os.path.exists(path) else ''
            if old != text:
                open(path, 'w').write(text)
    finally:
        fcntl.flock(lock, fcntl.LOCK_UN)
        lock.close()
    return info, None


def known_f28(ctx, results):
    """targeted probe for known finding F28: a %array scanner applies the YYLMAX check to the text it
    has scanned (look-ahead and the end-of-buffer sentinel included), so whether a token of
    YYLMAX-1 characters is accepted depends on where the reads end."""
    flex, src = flexrun.build_flex()
    work = flexrun.scratch_root()
    rs = rules.RuleSet()
    rs.rules = [{'scs': [], 'all': False, 'bol': False, 'head': ('plus', ('chr', 97)), 'trail': None, 'dollar': False},
                {'scs': [], 'all': False, 'bol': False, 'head': ('chr', 98), 'trail': None, 'dollar': False}]
    cfg = rt.Config(array=True, yylmax=4)
    b = rt.build_scanner(flex, src, work, 'c03_f28', rs, cfg, lex_seed=1)
    if b['status'] != 'ok':
        return
    outs = {}
    for name, sched in (('whole', None), ('split', [3])):
        ct = rt.case_text(rs, b, cfg, [[97, 97, 97, 98]], ['lex', 'lex', 'lex'], sched=sched)
        cfn = os.path.join(work, 'c03_f28_%s.case' % name)
        open(cfn, 'w').write(ct)
        outs[name] = [l for l in rt.run_real(b['exe'], cfn)['out'] if l]
    kf = {f['id']: f for f in common.load_known_findings().get('findings', [])}
    if outs['whole'] != outs['split']:
        what = ('%array scanner, YYLMAX=4, input "aaab": delivered in one read the tokens are aaa, b; delivered as 3+1 bytes '
                'the scanner stops with "token too large" (the check counts the end-of-buffer sentinel): '
                + str(outs['split'][:2]))
        if kf.get('F28', {}).get('status') == 'known' and 'fatal yylmax' in outs['split'] and 'fatal yylmax' not in outs['whole']:
            ctx.known_finding(what)
        else:
            ctx.violation('YYLMAX probe: token stream depends on read sizes: ' + what, {'whole': outs['whole'], 'split': outs['split']})


def run(ctx):
    info, err = regen_nextbuf()
    if err:
        ctx.violation('translator of yy_get_next_buffer() gave up: ' + err, {'error': err}, no_input=True)
    q1, q2, q3 = {'quick': (64, 48, 32), 'thorough': (600, 400, 200)}[ctx.tier]
    plan = [('plain', q1, 8), ('ops', q2, 6), ('eof', q3, 4), ('reads', q2, 6), ('bufreq', q2, 6), ('unput', q3, 6), ('memmore', q3, 6), ('stdioint', q3, 6)]
    return rtprop.run(ctx, THEOREMS + NEXTBUF_THEOREMS, plan, 'proof',
                      'delivery independence: every case runs the real scanner under a buffer size in {1,2,3,4,5,7,8,16,33,16384} and a read schedule (1-byte, small random, larger random, unrestricted); the Lean abstract scanner has no buffer at all, so equality of traces is independence from delivery; `reads` family: with 1-byte reads every action logs how many bytes the scanner has asked for so far, and the model predicts that number from the automaton alone (batch: up to the byte that jams it; interactive: also stops at a state without outgoing transitions) - an interactive scanner that asks for more has over-read; `bufreq` family: every read request (`rq n`: its size depends on yy_buf_size, on the partial token moved to the front, on growth by doubling and on YY_READ_BUF_SIZE) must be the request of the Lean buffer machine Runtime/Buf.lean, for which run_tokens proves - for every buffer size, every cutting of the input into reads and every automaton - that the tokens are those of a scan of the whole input (scanners whose actions leave the input alone; REJECT and the NUL-sentinel detour are not in that model); yy_get_next_buffer() itself is translated from a scanner flex generates in this run (Gen/NextBuf.lean, YY_INPUT a reader outside the model that delivers at most what it is asked for) and proved, for every buffer size >= 1, fill level, token position and delivery: the unfinished token is moved to the front, the bytes delivered follow it in order, then the two end marks, inside a buffer that grew by doubling if needed; the reader is asked for at least one byte; end of file is reported only when it delivered none; no access is out of bounds and both loops end (C03NextBuf.nextBuf_read, nextBuf_eof_pending, nextBuf_nofill, nextBuf_overflow, never_out_of_bounds, eof_only_when_reader_dry, delivered_is_scanned; c99 skeleton: C03NextBufC99.nextBuf99_correct); both translations are proved to do the refill step of the buffer machine - same buffer contents, same size after the same doubling, same read request, same verdict (C03Refine.refines_refill)' + '. Kernel-checked theorems about the abstract scanner (listed under obligations) + differential '
                      'correspondence of the real generated scanner (ASan/UBSan build) with that model on generated cases.',
                      post=known_f28)

"""C03 runtime correspondence check (see DESIGN.md)."""
from . import rtprop

THEOREMS = ['FlexVerif.validate_sound', 'FlexVerif.match_conserves']


def run(ctx):
    q1, q2, q3 = {'quick': (64, 48, 32), 'thorough': (600, 400, 200)}[ctx.tier]
    plan = [('plain', q1, 8), ('ops', q2, 6), ('eof', q3, 4)]
    return rtprop.run(ctx, THEOREMS, plan, 'exploration',
                      'delivery independence: every case runs the real scanner under a buffer size in {1,2,3,4,5,7,8,16,33,16384} and a read schedule (1-byte, small random, larger random, unrestricted); the Lean abstract scanner has no buffer at all, so equality of traces is independence from delivery' + '. Kernel-checked theorems about the abstract scanner (listed under obligations) + differential '
                      'correspondence of the real generated scanner (ASan/UBSan build) with that model on generated cases.')

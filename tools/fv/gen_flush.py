"""Translator: yy_flush_buffer(), yy_load_buffer_state() and yy_init_buffer() of a scanner flex has just generated
->  lean/FlexVerif/Gen/Flush.lean.

The array is the character buffer `b->yy_ch_buf` of the buffer `b` the functions are called on; its fields and the
scanner's globals are variables.  `b == yy_current_buffer()` is the variable `b_is_current` (both spellings of the
test); inside yy_load_buffer_state(), which is only reached under that test, the current buffer *is* b
(`YY_CURRENT_BUFFER_LVALUE->` is read as `b->`).  Calls of one of the three functions from another are inlined
(`scope`).  `isatty(fileno(file)) > 0` is the variable `file_is_tty`.
"""
import os, re, subprocess
from .gen_options import tokenize, TranslateError
from . import gen_startstack as G
from . import gen_yyless as Y

BASE = 'b->yy_ch_buf'
VARS = ['b', 'b_is_current', 'b->yy_n_chars', 'b->yy_buf_pos', 'b->yyatbol', 'b->yy_buffer_status', 'b->yy_input_file',
        'b->yy_fill_buffer', 'b->yy_bs_lineno', 'b->yy_bs_column', 'b->yy_is_interactive', 'yy_n_chars', 'yytext_ptr',
        'yy_c_buf_p', 'yyin', 'yy_hold_char', 'file', 'file_is_tty', 'errno', 'oerrno']
LEAN_NAMES = ['vB', 'vIsCur', 'fNChars', 'fBufPos', 'fAtBol', 'fStatus', 'fFile', 'fFill', 'fLineno', 'fColumn', 'fInteractive',
              'vNChars', 'vTextPtr', 'vCBufP', 'vYyin', 'vHold', 'vFile', 'vTty', 'vErrno', 'vOErrno']


class P(Y.P):
    TYPES = Y.P.TYPES + ('yybuffer', 'FILE')

    def unary(self):
        if self.accept('op', '&'):
            return ('addr', self.unary())
        return super().unary()

    def stmt(self):
        if self.peek() == ('id', 'return') and self.peek(1) == ('op', ';'):
            self.i += 2
            return ('return', ('num', 0))
        return super().stmt()


class Tr(Y.Tr):
    def __init__(self, macros, consts, msgs, inl):
        super().__init__(macros, consts, msgs)
        self.inl = inl

    def var(self, name):
        if name not in VARS:
            raise TranslateError('variable %s is not part of yy_flush_buffer / yy_init_buffer' % name)
        return VARS.index(name)

    def ex(self, e):
        k = e[0]
        if k == 'addr':
            x = e[1]
            if x[0] == 'index' and x[1] == ('id', BASE):
                return self.ex(x[2])
            raise TranslateError('address of %r' % (x,))
        if k == 'index' and e[1] == ('id', BASE):
            p, i, q = self.ex(e[2])
            return p, '(.idx %s)' % i, q
        return super().ex(e)

    def assign(self, e):
        lv, op, rhs = e[1], e[2], e[3]
        if lv[0] == 'index' and lv[1] == ('id', BASE) and op == '=':
            p1, i, q1 = self.ex(lv[2]); p2, r, q2 = self.ex(rhs)
            return p1 + p2 + ['(.store %s %s)' % (i, r)] + q1 + q2
        return super().assign(e)

    def st(self, s):
        if s[0] == 'expr' and s[1][0] == 'call' and s[1][1] in self.inl:
            return '(.scope %s)' % self.inl[s[1][1]]
        return super().st(s)


PROBE = '%option noyywrap\n%%\na ;\n%%\n'


def body_of(text, name):
    m = re.search(r'\n\s*(?:static\s+)?void\s+' + re.escape(name) + r'\s*\([^)]*\)\s*\{', text)
    if not m:
        raise TranslateError('function %s not found in the generated scanner' % name)
    i = m.end() - 1
    depth, j = 0, i
    while True:
        if text[j] == '{':
            depth += 1
        elif text[j] == '}':
            depth -= 1
            if depth == 0:
                break
        j += 1
    b = re.sub(r'/\*.*?\*/', ' ', text[i:j + 1], flags=re.S)
    b = re.sub(r'\bb\s*==\s*yy_current_buffer\s*\(\s*\)', 'b_is_current', b)
    b = re.sub(r'\bb\s*!=\s*yy_current_buffer\s*\(\s*\)', '(! b_is_current)', b)
    b = re.sub(r'\bYY_CURRENT_BUFFER_LVALUE\s*->', 'b->', b)
    b = re.sub(r'\(\s*isatty\s*\(\s*fileno\s*\(\s*file\s*\)\s*\)\s*>\s*0\s*\)', 'file_is_tty', b)
    return b


def translate(text):
    consts = {'NULL': 0}
    for name in ('YY_END_OF_BUFFER_CHAR', 'YY_BUFFER_NEW'):
        mm = re.search(r'^[ \t]*#[ \t]*define[ \t]+' + name + r'[ \t]+\(?(\d+)\)?', text, re.M) or re.search(r'\b' + name + r'\s*=\s*(\d+)', text)
        if not mm:
            raise TranslateError('constant %s not found' % name)
        consts[name] = int(mm.group(1))
    msgs = []
    inl = {}
    load = Tr({}, consts, msgs, inl).st(P(tokenize(body_of(text, 'yy_load_buffer_state'))).stmt())
    inl['yy_load_buffer_state'] = load
    flush = Tr({}, consts, msgs, inl).st(P(tokenize(body_of(text, 'yy_flush_buffer'))).stmt())
    inl['yy_flush_buffer'] = flush
    init = Tr({}, consts, msgs, inl).st(P(tokenize(body_of(text, 'yy_init_buffer'))).stmt())
    return load, flush, init, consts


def generate(flex, workdir):
    lf = os.path.join(workdir, 'flush_probe.l')
    cf = os.path.join(workdir, 'flush_probe.c')
    open(lf, 'w').write(PROBE)
    p = subprocess.run([flex, '-L', '-o', cf, lf], stdout=subprocess.PIPE, stderr=subprocess.PIPE, text=True)
    if p.returncode != 0:
        raise TranslateError('flex failed on the probe: ' + p.stderr[-200:])
    text = open(cf, errors='replace').read()
    load, flush, init, consts = translate(text)
    L = ["-- GENERATED by tools/fv/gen_flush.py from a scanner flex (built from /repo's current tree) has just generated.  Do not edit.",
         'import FlexVerif.Imp.Lang',
         'namespace FlexVerif.Gen.Flush',
         'open FlexVerif.Imp',
         '/-- variables: ' + ', '.join('%d = %s' % (i, n) for i, n in enumerate(VARS)) + '; the array: the character buffer of b -/']
    L += ['def %s : Nat := %d' % (n, i) for i, n in enumerate(LEAN_NAMES)]
    L += ['def cYY_BUFFER_NEW : Int := %d' % consts['YY_BUFFER_NEW'],
          '/-- yy_load_buffer_state(), the current buffer being b -/', 'def load : St :=\n  ' + load,
          '/-- yy_flush_buffer(b) -/', 'def flush : St :=\n  ' + flush,
          '/-- yy_init_buffer(b, file) -/', 'def init : St :=\n  ' + init,
          'end FlexVerif.Gen.Flush']
    for f in (lf, cf):
        try:
            os.unlink(f)
        except OSError:
            pass
    return '\n'.join(L) + '\n', {}


if __name__ == '__main__':
    import sys
    t, info = generate(sys.argv[1], sys.argv[2])
    sys.stdout.write(t)

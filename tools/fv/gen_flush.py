"""Translator: yy_flush_buffer(), yy_load_buffer_state(), yy_init_buffer() and yy_create_buffer() of a scanner flex has just generated
->  lean/FlexVerif/Gen/Flush.lean.

The array is the character buffer `b->yy_ch_buf` of the buffer `b` the functions are called on; its fields and the
scanner's globals are variables.  `b == yy_current_buffer()` is the variable `b_is_current` (both spellings of the
test); inside yy_load_buffer_state(), which is only reached under that test, the current buffer *is* b
(`YY_CURRENT_BUFFER_LVALUE->` is read as `b->`).  Calls of one of the three functions from another are inlined
(`scope`).  `isatty(fileno(file)) > 0` is the variable `file_is_tty`.  In yy_create_buffer() the structure's allocation succeeding is
`b = 1`; `b->yy_ch_buf = yyalloc(n)` makes the array n cells of garbage (`growTo`).
"""
import os, re, subprocess
from .gen_options import tokenize, TranslateError
from . import gen_startstack as G
from . import gen_yyless as Y

BASE = 'b->yy_ch_buf'
VARS = ['b', 'b_is_current', 'b->yy_n_chars', 'b->yy_buf_pos', 'b->yyatbol', 'b->yy_buffer_status', 'b->yy_input_file',
        'b->yy_fill_buffer', 'b->yy_bs_lineno', 'b->yy_bs_column', 'b->yy_is_interactive', 'yy_n_chars', 'yytext_ptr',
        'yy_c_buf_p', 'yyin', 'yy_hold_char', 'file', 'file_is_tty', 'errno', 'oerrno', 'size', 'b->yy_buf_size',
        'b->yy_is_our_buffer', 'b->yy_ch_buf', 'current_slot', 'input_file', 'YY_BUF_SIZE',
        'yy_did_buffer_switch_on_eof']
LEAN_NAMES = ['vB', 'vIsCur', 'fNChars', 'fBufPos', 'fAtBol', 'fStatus', 'fFile', 'fFill', 'fLineno', 'fColumn', 'fInteractive',
              'vNChars', 'vTextPtr', 'vCBufP', 'vYyin', 'vHold', 'vFile', 'vTty', 'vErrno', 'vOErrno', 'vSize', 'fBufSize',
              'fOurs', 'fChBuf', 'vCurrentSlot', 'vInputFile', 'vBufSizeConst', 'vDidSwitch']


class P(Y.P):
    TYPES = Y.P.TYPES + ('yybuffer', 'FILE')

    def unary(self):
        if self.accept('op', '&'):
            return ('addr', self.unary())
        return super().unary()

    def stmt(self):
        if self.peek() == ('id', 'return') and self.peek(1) == ('op', ';'):
            self.i += 2
            return ('return', ('num', 0))
        return super().stmt()


class Tr(Y.Tr):
    def __init__(self, macros, consts, msgs, inl):
        super().__init__(macros, consts, msgs)
        self.inl = inl

    def var(self, name):
        if name not in VARS:
            raise TranslateError('variable %s is not part of yy_flush_buffer / yy_init_buffer' % name)
        return VARS.index(name)

    def ex0(self, e):
        k = e[0]
        if k == 'addr':
            x = e[1]
            if x[0] == 'index' and x[1] == ('id', BASE):
                return self.ex(x[2])
            raise TranslateError('address of %r' % (x,))
        if k == 'index' and e[1] == ('id', BASE):
            p, i, q = self.ex(e[2])
            return p, '(.idx %s)' % i, q
        return super().ex(e)

    def ex(self, e):
        k = e[0]
        if k == 'bin' and e[1] in ('==', '!=') and ('id', BASE) in (e[2], e[3]):
            other = e[3] if e[2] == ('id', BASE) else e[2]
            if other not in (('id', 'NULL'), ('num', 0)):
                raise TranslateError('the character buffer pointer compared with something else than NULL')
            t = '(.eq (.var %d) (.lit 0))' % VARS.index(BASE)
            return [], (t if e[1] == '==' else '(.not %s)' % t), []
        return self.ex0(e)

    def assign(self, e):
        lv, op, rhs = e[1], e[2], e[3]
        if lv == ('id', BASE) and op == '=' and rhs[0] == 'call' and rhs[1] == 'yyalloc':
            p, n, q = self.ex(rhs[2][0])
            if p or q:
                raise TranslateError('side effect in an allocation size')
            return ['(.growTo %s)' % n, '(.assign %d (.lit 1))' % VARS.index(BASE)]
        if lv == ('id', 'current_slot') and op == '=' and rhs[0] == 'call' and rhs[1] == 'yy_create_buffer':
            # the new buffer is `b`; it is not the current one until it stands in the slot
            if 'yy_create_buffer' not in self.inl or len(rhs[2]) != 2:
                raise TranslateError('yy_create_buffer() not translated / called with other than two arguments')
            p1, f, q1 = self.ex(rhs[2][0]); p2, n, q2 = self.ex(rhs[2][1])
            if p1 or q1 or p2 or q2:
                raise TranslateError('side effect in an argument')
            return ['(.assign %d %s)' % (VARS.index('file'), f), '(.assign %d %s)' % (VARS.index('size'), n),
                    '(.assign %d (.lit 0))' % VARS.index('b_is_current'), '(.scope %s)' % self.inl['yy_create_buffer'],
                    '(.assign %d (.var %d))' % (VARS.index('current_slot'), VARS.index('b')),
                    '(.assign %d (.lit 1))' % VARS.index('b_is_current')]
        if lv[0] == 'index' and lv[1] == ('id', BASE) and op == '=':
            p1, i, q1 = self.ex(lv[2]); p2, r, q2 = self.ex(rhs)
            return p1 + p2 + ['(.store %s %s)' % (i, r)] + q1 + q2
        return super().assign(e)

    def st(self, s):
        if s[0] == 'expr' and s[1][0] == 'call' and s[1][1] == 'yyfree':
            # a logged call: 1 = the character memory of b, 0 = the structure b itself
            a = s[1][2]
            if len(a) == 1 and a[0] == ('id', BASE):
                return '(.call 1 (.lit 1))'
            if len(a) == 1 and a[0] == ('id', 'b'):
                return '(.call 1 (.lit 0))'
            raise TranslateError('yyfree() of something else than b or its character memory')
        if s[0] == 'expr' and s[1][0] == 'call' and s[1][1] == 'yyensure_buffer_stack':
            return '(.call 2 (.lit 0))'
        if s[0] == 'expr' and s[1][0] == 'call' and s[1][1] == 'yy_init_buffer' and 'yy_init_buffer' in self.inl \
                and len(s[1][2]) == 2 and s[1][2][0] == ('id', 'current_slot'):
            # yy_init_buffer(<the current buffer>, f): b is the current buffer here
            p, f, q = self.ex(s[1][2][1])
            if p or q:
                raise TranslateError('side effect in an argument')
            return '(.seq (.assign %d %s) (.scope %s))' % (VARS.index('file'), f, self.inl['yy_init_buffer'])
        if s[0] == 'expr' and s[1][0] == 'call' and s[1][1] in self.inl:
            return '(.scope %s)' % self.inl[s[1][1]]
        return super().st(s)


PROBE = '%option noyywrap\n%%\na ;\n%%\n'


def body_of(text, name):
    m = re.search(r'\n\s*(?:static\s+)?void\s+' + re.escape(name) + r'\s*\([^)]*\)\s*\{', text)
    if not m:
        raise TranslateError('function %s not found in the generated scanner' % name)
    i = m.end() - 1
    depth, j = 0, i
    while True:
        if text[j] == '{':
            depth += 1
        elif text[j] == '}':
            depth -= 1
            if depth == 0:
                break
        j += 1
    b = re.sub(r'/\*.*?\*/', ' ', text[i:j + 1], flags=re.S)
    b = re.sub(r'\bb\s*==\s*yy_current_buffer\s*\(\s*\)', 'b_is_current', b)
    b = re.sub(r'\bb\s*!=\s*yy_current_buffer\s*\(\s*\)', '(! b_is_current)', b)
    b = re.sub(r'\bYY_CURRENT_BUFFER_LVALUE\s*->', 'b->', b)
    b = re.sub(r'\byy_current_buffer\s*\(\s*\)\s*==\s*NULL\b', '(current_slot == 0)', b)
    b = re.sub(r'\bYY_CURRENT_BUFFER_LVALUE\b', 'current_slot', b)
    b = re.sub(r'\byy_buffer_stack\s*\[\s*yy_buffer_stack_top\s*\]', 'current_slot', b)
    b = re.sub(r'\(\s*void\s*\*\s*\)', ' ', b)
    b = re.sub(r'\(\s*yybuffer\s*\)\s*0\b', '0', b)
    b = re.sub(r'\(\s*isatty\s*\(\s*fileno\s*\(\s*file\s*\)\s*\)\s*>\s*0\s*\)', 'file_is_tty', b)
    return b


def translate(text):
    consts = {'NULL': 0}
    for name in ('YY_END_OF_BUFFER_CHAR', 'YY_BUFFER_NEW'):
        mm = re.search(r'^[ \t]*#[ \t]*define[ \t]+' + name + r'[ \t]+\(?(\d+)\)?', text, re.M) or re.search(r'\b' + name + r'\s*=\s*(\d+)', text)
        if not mm:
            raise TranslateError('constant %s not found' % name)
        consts[name] = int(mm.group(1))
    msgs = []
    inl = {}
    load = Tr({}, consts, msgs, inl).st(P(tokenize(body_of(text, 'yy_load_buffer_state'))).stmt())
    inl['yy_load_buffer_state'] = load
    flush = Tr({}, consts, msgs, inl).st(P(tokenize(body_of(text, 'yy_flush_buffer'))).stmt())
    inl['yy_flush_buffer'] = flush
    init = Tr({}, consts, msgs, inl).st(P(tokenize(body_of(text, 'yy_init_buffer'))).stmt())
    inl['yy_init_buffer'] = init
    translate.delete = Tr({}, consts, msgs, inl).st(P(tokenize(body_of(text, 'yy_delete_buffer'))).stmt())
    create = None
    m = re.search(r'\n\s*yybuffer\s+yy_create_buffer\s*\([^)]*\)\s*\{', text)
    if not m:
        raise TranslateError('function yy_create_buffer not found in the generated scanner')
    if m:
        i = m.end() - 1
        depth, j = 0, i
        while True:
            if text[j] == '{':
                depth += 1
            elif text[j] == '}':
                depth -= 1
                if depth == 0:
                    break
            j += 1
        cb = re.sub(r'/\*.*?\*/', ' ', text[i:j + 1], flags=re.S)
        cb, n = re.subn(r'\(\s*yybuffer\s*\)\s*yyalloc\s*\(\s*sizeof\s*\(\s*struct\s+yy_buffer_state\s*\)\s*(?:,\s*yyscanner\s*)?\)', ' FV_NEW_BUFFER ', cb)
        if n != 1:
            raise TranslateError('the allocation of the buffer structure was not found in yy_create_buffer')
        if n == 1:
            consts2 = dict(consts, FV_NEW_BUFFER=1)
            create = Tr({}, consts2, msgs, inl).st(P(tokenize(cb)).stmt())
    translate.create = create
    translate.restart = None
    if create:
        inl['yy_create_buffer'] = create
        translate.restart = Tr({}, consts, msgs, inl).st(P(tokenize(body_of(text, 'yyrestart'))).stmt())
    translate.msgs = msgs
    return load, flush, init, consts


def emit(ns, load, flush, init, consts, origin):
    L = ['-- GENERATED by tools/fv/gen_flush.py from %s.  Do not edit.' % origin,
         'import FlexVerif.Imp.Lang',
         'namespace FlexVerif.Gen.' + ns,
         'open FlexVerif.Imp',
         '/-- variables: ' + ', '.join('%d = %s' % (i, n) for i, n in enumerate(VARS)) + '; the array: the character buffer of b -/']
    L += ['def %s : Nat := %d' % (n, i) for i, n in enumerate(LEAN_NAMES)]
    L += ['def cYY_BUFFER_NEW : Int := %d' % consts['YY_BUFFER_NEW'],
          '/-- yy_load_buffer_state(), the current buffer being b -/', 'def load : St :=\n  ' + load,
          '/-- yy_flush_buffer(b) -/', 'def flush : St :=\n  ' + flush,
          '/-- yy_init_buffer(b, file) -/', 'def init : St :=\n  ' + init]
    if getattr(translate, 'create', None):
        L += ['/-- yy_create_buffer(file, size); the array is the memory it allocates for the characters -/',
              'def create : St :=\n  ' + translate.create]
    L += ['/-- yy_delete_buffer(b); yyfree() is a logged call: (1, 1) the character memory of b, (1, 0) the structure -/',
          'def delete : St :=\n  ' + translate.delete]
    if getattr(translate, 'restart', None):
        L += ['/-- yyrestart(input_file): `b` is the current buffer - the one in the slot, or, when the slot is empty, the one',
              '    yy_create_buffer() makes; yyensure_buffer_stack() is a logged call (2, 0) -/',
              'def restart : St :=\n  ' + translate.restart]
    L += ['end FlexVerif.Gen.' + ns]
    return '\n'.join(L) + '\n'


PROBE_C99 = '%option emit="c99" noyywrap\n%%\na ;\n%%\n'


def generate_c99(flex, workdir):
    lf = os.path.join(workdir, 'flush_probe99.l')
    cf = os.path.join(workdir, 'flush_probe99.c')
    open(lf, 'w').write(PROBE_C99)
    p = subprocess.run([flex, '-L', '-o', cf, lf], stdout=subprocess.PIPE, stderr=subprocess.PIPE, text=True)
    if p.returncode != 0:
        raise TranslateError('flex failed on the c99 probe: ' + p.stderr[-200:])
    text = G.normalise_c99(open(cf, errors='replace').read())
    # other names of the same things in the c99 skeleton
    for a, b in ((r'\byy_buffer_stack\s*\[\s*yy_buffer_stack_top\s*\]\s*->', 'b->'), (r'\byyatbol_flag\b', 'yyatbol'),
                 (r'\bbs_yylineno\b', 'yy_bs_lineno'), (r'\bbs_yycolumn\b', 'yy_bs_column'), (r'\byytext_r\b', 'yytext_ptr'),
                 (r'\byyin_r\b', 'yyin'), (r'\btrue\b', '1'), (r'\bfalse\b', '0')):
        text = re.sub(a, b, text)
    load, flush, init, consts = translate(text)
    for f in (lf, cf):
        try:
            os.unlink(f)
        except OSError:
            pass
    return emit('FlushC99', load, flush, init, consts, 'a c99 scanner (%option emit="c99") flex has just generated'), {}


def generate(flex, workdir):
    lf = os.path.join(workdir, 'flush_probe.l')
    cf = os.path.join(workdir, 'flush_probe.c')
    open(lf, 'w').write(PROBE)
    p = subprocess.run([flex, '-L', '-o', cf, lf], stdout=subprocess.PIPE, stderr=subprocess.PIPE, text=True)
    if p.returncode != 0:
        raise TranslateError('flex failed on the probe: ' + p.stderr[-200:])
    text = open(cf, errors='replace').read()
    load, flush, init, consts = translate(text)
    for f in (lf, cf):
        try:
            os.unlink(f)
        except OSError:
            pass
    return emit('Flush', load, flush, init, consts, "a scanner flex (built from /repo's current tree) has just generated"), {}


if __name__ == '__main__':
    import sys
    t, info = generate(sys.argv[1], sys.argv[2])
    sys.stdout.write(t)

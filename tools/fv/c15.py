"""C15 — serialized tables: format (Lean codec vs flex's writer), loader behaviour (real
yytables_fload vs the Lean model) on good, concatenated, truncated and corrupted files, and
behavioural equality of serialized-table scanners with the specification."""
import os, random, itertools, subprocess
from multiprocessing import Pool
from . import common, flexrun, rules, rt, rtgen, rtcheck, tv

THEOREMS = ['FlexVerif.Ser.decSet_encSet', 'FlexVerif.Ser.decTbl_encTbl', 'FlexVerif.Ser.encSet_length_mod8',
            'FlexVerif.Ser.hsizeOf_mod8', 'FlexVerif.Ser.encTbl_length_mod8', 'FlexVerif.Ser.truncation_fails',
            'FlexVerif.Ser.bad_magic_fails', 'FlexVerif.Ser.findSet_concat', 'FlexVerif.Ser.rd_be']

TOPTS = [['-Cem'], ['-Ce'], ['-Cm'], ['-C'], ['-Cf'], ['-CF'], ['-Cfe'], ['-CFe'], ['-Ca'], ['-Cae'], ['-CaF'], ['-Caf']]


def _norm(A):
    out = {}
    for k, v in A.items():
        if k == 'yy_start_state_list':
            out[k] = list(v)
        elif v and isinstance(v[0], list):
            out[k] = [list(r) for r in v]
        else:
            out[k] = list(v)
    return out


def _format_job(job):
    (flex, work, idx, seed) = job
    rng = random.Random(seed)
    rs = rules.gen_ruleset(rng, p_trail=0.2)
    topt = rng.choice(TOPTS)
    lex = rs.to_lex(random.Random(seed ^ 5), extra_options=(['reject'] if rng.random() < 0.15 and 'f' not in ''.join(topt).lower().replace('-c', '') else []))
    lf = os.path.join(work, 'c15f_%d.l' % idx)
    open(lf, 'w', encoding='latin1').write(lex)
    opts = topt + ['-8' if rs.csize == 256 else '-7']
    res = {'idx': idx, 'opts': opts, 'lex': lex, 'problems': []}
    c1 = lf + '.in.c'
    c2 = lf + '.ser.c'
    tf = lf + '.tables'
    rc1, _, se1 = flexrun.run_flex(flex, lf, c1, opts, timeout=10)
    rc2, _, se2 = flexrun.run_flex(flex, lf, c2, opts + ['--tables-file=' + tf], timeout=10)
    if rc1 != 0 or rc2 != 0:
        res['status'] = 'flexfail' if (rc1 != 0 and rc2 != 0) else 'asymmetric'
        if res['status'] == 'asymmetric':
            res['problems'].append('flex accepts the rule set with in-code tables and refuses it with --tables-file (or vice versa): %r / %r' % (se1[-200:], se2[-200:]))
        _rm(lf, c1, c2, tf)
        return res
    import tables_extract
    tin = tables_extract.extract(open(c1, encoding='latin1').read())
    sets = flexrun.parse_tables_file(tf)
    res['bytes'] = os.path.getsize(tf)
    if len(sets) != 1 or sets[0].get('undecodable'):
        res['problems'].append('the Lean decoder cannot read the file flex wrote')
    else:
        s0 = sets[0]
        if s0.get('reencode') != 'identical':
            res['problems'].append('Lean encoding of the decoded tables is not byte-identical to the file flex wrote')
        if int(s0.get('bytes', 0)) % 8 != 0:
            res['problems'].append('set size %s is not a multiple of 8' % s0.get('bytes'))
        A = _norm(flexrun.arrays_of_set(s0))
        B = _norm({k: v for k, v in tin['arrays'].items()})
        res['ntables'] = len(s0['tables'])
        for k in sorted(set(A) | set(B)):
            if k not in A:
                res['problems'].append('table %s is in the generated code but not in the tables file' % k)
            elif k not in B:
                res['problems'].append('table %s is in the tables file but not in the generated code' % k)
            elif A[k] != B[k]:
                n = min(len(A[k]), len(B[k]))
                j = next((i for i in range(n) if A[k][i] != B[k][i]), n)
                res['problems'].append('table %s differs between file and generated code at index %d (lengths %d/%d)' % (k, j, len(A[k]), len(B[k])))
    res['status'] = 'ok'
    _rm(lf, c1, c2, tf)
    return res


def _rm(*fs):
    for f in fs:
        try:
            os.unlink(f)
        except OSError:
            pass


def _loader_job(job):
    (flex, src, work, idx, seed, ntrunc) = job
    rng = random.Random(seed)
    res = {'idx': idx, 'problems': [], 'runs': 0, 'trunc': 0, 'orders': 0, 'builds': []}
    scanners = []
    for j, pref in enumerate(['aa', 'bb', 'cc']):
        rs = rules.gen_ruleset(rng, p_trail=0.0)
        cfg = rt.Config(tables='file', topt=rng.choice(TOPTS), ledger=True, backend=rng.choice(['nr', 'r']),
                        prefix=pref, reject=False)
        b = rt.build_scanner(flex, src, work, 'c15l_%d_%s' % (idx, pref), rs, cfg, lex_seed=seed ^ j)
        res['builds'].append(b['status'])
        if b['status'] != 'ok':
            res['problems'].append('scanner with --tables-file does not build (%s): %s' % (
                cfg.key(), (b.get('cc_output') or b.get('flex_stderr') or '')[-400:])) if b['status'] == 'ccfail' else None
            continue
        scanners.append((rs, cfg, b))
    if len(scanners) < 2:
        for _, _, b in scanners:
            rtcheck._rm(b); _rm(b['tables_path'])
        return res
    blobs = [open(b['tables_path'], 'rb').read() for _, _, b in scanners]

    def run(sc, path, main):
        rs, cfg, b = sc
        inp = run.inputs[id(b)]
        ct = rt.case_text(rs, b, cfg, [inp], main, sched=[3, 5], bufsize=64, tfiles=[path])
        cfn = os.path.join(work, 'c15l_%d.case' % idx)
        open(cfn, 'w').write(ct)
        res['runs'] += 1
        r = rt.run_real(b['exe'], cfn)
        m = rt.run_model(cfn)
        return r, m
    run.inputs = {id(b): rtgen.gen_input(rng, rs) for rs, _, b in scanners}
    main_ok = ['tload:0', 'lex', 'tdestroy', 'destroy']
    # (1)+(2): every concatenation order, every scanner finds its own set by name
    cat = os.path.join(work, 'c15l_%d.cat' % idx)
    for order in itertools.permutations(range(len(scanners))):
        open(cat, 'wb').write(b''.join(blobs[i] for i in order))
        res['orders'] += 1
        for i, sc in enumerate(scanners):
            r, m = run(sc, cat, main_ok)
            core = [l for l in r['out'] if l and not l.startswith('tload') and not l.startswith('tdestroy')]
            if r['rc'] != 0:
                res['problems'].append('loading set %d from concatenation %s crashed (rc=%s): %s' % (i, order, r['rc'], r['err'][:300]))
            elif 'tload 0' not in r['out']:
                res['problems'].append('set %d not found by name in concatenation order %s: %s' % (i, order, r['out'][:3]))
            elif rt.first_diff(core, m['out']) is not None:
                res['problems'].append('scanner with tables loaded from concatenation %s behaves differently from the model: %s' % (order, rt.first_diff(core, m['out'])))
            elif r['stats'].get('live', 0) != 0 or r['stats'].get('badfree', 0) != 0:
                res['problems'].append('after yytables_destroy + yylex_destroy: live=%s badfree=%s' % (r['stats'].get('live'), r['stats'].get('badfree')))
    # (3) truncation of a single-set file at many points
    sc = scanners[0]
    blob = blobs[0]
    n = len(blob)
    ks = sorted(set(list(range(0, min(n, 80))) + list(range(max(0, n - 40), n)) +
                    [rng.randrange(n) for _ in range(ntrunc)]))
    tr = os.path.join(work, 'c15l_%d.trunc' % idx)
    for k in ks:
        open(tr, 'wb').write(blob[:k])
        res['trunc'] += 1
        r, _ = run(sc, tr, ['tload:0', 'tdestroy', 'destroy'])      # (whatever was loaded is released again)
        rc_m, out_m, _ = flexrun.run_driver(['tbl-load', tr, sc[1].prefix + 'tables'])
        model_fail = 'load fail' in out_m
        loaded = 'tload 0' in r['out']
        if r['rc'] != 0:
            res['problems'].append('loading a file truncated at byte %d/%d crashed (rc=%s): %s' % (k, n, r['rc'], r['err'][:300]))
        elif loaded:
            res['problems'].append('a file truncated at byte %d of %d was loaded successfully' % (k, n))
        elif not model_fail:
            res['problems'].append('model loads a file truncated at %d/%d' % (k, n))
        elif r['stats'].get('badfree', 0) != 0 or r['stats'].get('live', 0) != 0:
            res['problems'].append('loading a file truncated at byte %d/%d fails as it should, but frees memory that is not live or leaks '
                                   '(badfree=%s live=%s)' % (k, n, r['stats'].get('badfree'), r['stats'].get('live')))
    # (4) wrong magic
    bad = bytearray(blob); bad[rng.randrange(4)] ^= 1 << rng.randrange(8)
    open(tr, 'wb').write(bytes(bad))
    r, _ = run(sc, tr, ['tload:0'])
    if r['rc'] != 0 or 'tload 0' in r['out']:
        res['problems'].append('file with a wrong magic number: rc=%s out=%s' % (r['rc'], r['out'][:3]))
    for _, _, b in scanners:
        rtcheck._rm(b); _rm(b['tables_path'])
    _rm(cat, tr, os.path.join(work, 'c15l_%d.case' % idx))
    return res


def _verify_job(job):
    (flex, src, work, idx, seed) = job
    rng = random.Random(seed)
    res = {'idx': idx, 'problems': [], 'runs': 0}
    built = []
    for j in range(2):
        rs = rules.gen_ruleset(rng, p_trail=0.0)
        cfg = rt.Config(tables='verify', topt=TOPTS[(idx + 0) % len(TOPTS)], ledger=False, backend='nr')
        b = rt.build_scanner(flex, src, work, 'c15v_%d_%d' % (idx, j), rs, cfg, lex_seed=seed ^ j)
        if b['status'] == 'ok':
            built.append((rs, cfg, b))
        elif b['status'] == 'ccfail':
            res['problems'].append('--tables-verify scanner does not compile: %s' % b.get('cc_output', '')[-300:])
    if len(built) == 2:
        cfn = os.path.join(work, 'c15v_%d.case' % idx)
        for i in range(2):
            for jf in range(2):
                rs, cfg, b = built[i]
                other = built[jf][2]['tables_path']
                same = open(other, 'rb').read() == open(b['tables_path'], 'rb').read()
                ct = rt.case_text(rs, b, cfg, [[97]], ['tload:0'], tfiles=[other])
                open(cfn, 'w').write(ct)
                r = rt.run_real(b['exe'], cfn)
                res['runs'] += 1
                ok = 'tload 0' in r['out']
                if r['rc'] != 0:
                    res['problems'].append('tables-verify run crashed rc=%s %s' % (r['rc'], r['err'][:200]))
                elif ok != same:
                    res['problems'].append('--tables-verify reported %s for a file that %s the in-code tables' % (
                        'success' if ok else 'failure', 'equals' if same else 'differs from'))
        _rm(cfn)
    for _, _, b in built:
        rtcheck._rm(b); _rm(b['tables_path'])
    return res


def run(ctx):
    flex, src = flexrun.build_flex()
    work = flexrun.scratch_root()
    discharged = common.proof_audit(ctx, THEOREMS)
    for b in getattr(ctx, 'proof_broken', []):
        ctx.violation('proof obligation broken: ' + b, {'broken': b}, no_input=True)
    nf, nl, nv, ntr = {'quick': (96, 12, 12, 60), 'thorough': (1500, 120, 96, 600)}[ctx.tier]
    rng = ctx.rng('c15')
    with Pool(16) as pool:
        fres = pool.map(_format_job, [(flex, work, i, rng.getrandbits(48)) for i in range(nf)], chunksize=2)
        lres = pool.map(_loader_job, [(flex, src, work, i, rng.getrandbits(48), ntr) for i in range(nl)], chunksize=1)
        vres = pool.map(_verify_job, [(flex, src, work, i, rng.getrandbits(48)) for i in range(nv)], chunksize=1)
    nprob = 0
    st = {}
    samples = []
    for r in fres:
        st[r['status']] = st.get(r['status'], 0) + 1
        if r['status'] == 'ok' and len(samples) < 2 and not r['problems']:
            samples.append({'opts': r['opts'], 'file_bytes': r.get('bytes'), 'tables': r.get('ntables'), 'lex': r['lex'][:400]})
        for p in r['problems']:
            nprob += 1
            if nprob <= 8:
                ctx.violation(p, {'lex': r['lex'], 'opts': r['opts']})
    runs = trunc = orders = 0
    for r in lres:
        runs += r['runs']; trunc += r['trunc']; orders += r['orders']
        for p in r['problems']:
            if p is None:
                continue
            nprob += 1
            if nprob <= 12:
                ctx.violation(p, {'stage': 'loader', 'scenario_seed_index': r['idx']})
    vruns = 0
    for r in vres:
        vruns += r['runs']
        for p in r['problems']:
            nprob += 1
            if nprob <= 14:
                ctx.violation(p, {'stage': 'verify', 'scenario_seed_index': r['idx']})
    cov = {
        'obligations': len(THEOREMS), 'discharged': discharged,
        'checker_cmd': 'lake build FlexVerif fvdriver; #print axioms via tools/fv/common.py',
        'trusted_base': common.TRUSTED_BASE,
        'evaluations': st.get('ok', 0) + runs + vruns, 'distinct_nontrivial': st.get('ok', 0) + trunc + orders,
        'format_files_checked': st, 'loader_runs': runs, 'truncation_points': trunc,
        'concatenation_orders': orders, 'verify_runs': vruns,
        'samples': samples or [{'note': 'none'}],
        'explanation': 'kernel-checked codec theorems (round trip with trailing data, 64-bit alignment of header/'
                       'tables/sets, failure of every truncation and of a wrong magic number, look-up by name in any '
                       'concatenation); correspondence: the Lean decoder reads the files flex writes, re-encodes them '
                       'byte-identically and yields exactly the in-code tables; the real yytables_fload agrees with '
                       'the model on good, concatenated (all orders), truncated and corrupted files under ASan',
    }
    return common.finish(ctx, 'proof', cov, ['the loader\'s element widening and PTRANS fix-up are exercised (trace equality), not modelled'])

"""Families of runtime correspondence cases shared by the runtime property checks."""
import os, random, time, json
from multiprocessing import Pool
from . import flexrun, rules, rt, rtgen, tv

TOPTS = [['-Cem'], ['-Ce'], ['-Cm'], ['-C'], ['-Cf'], ['-CF'], ['-Cfe'], ['-CFe'], ['-Cae'], ['-CaF']]


def _one_scanner(job):
    (flex, src, work, tag, idx, seed, fam, ncases) = job
    rng = random.Random(seed)
    if fam == 'matrix':
        rs, cfg, casegen = fam_matrix(rng, idx)
    else:
        rs, cfg, casegen = FAMILIES[fam](rng)
    force = os.environ.get('FV_FORCE_BACKEND')
    if force:
        cfg.backend = force
    if cfg.backend == 'cxx':
        cfg.tables = None
        cfg.prefix = None
        cfg.stdio = False
    if cfg.backend == 'c99':
        cfg.tables = None
        cfg.prefix = None
        if cfg.bufsize is None:
            small = getattr(casegen, 'small', True) and not cfg.reject
            cfg.bufsize = rng.choice(rtgen.BUFSIZES) if small else 16384
    name = '%s_%d' % (tag, idx)
    b = rt.build_scanner(flex, src, work, name, rs, cfg, lex_seed=seed ^ 0x77)
    res = {'idx': idx, 'seed': seed, 'fam': fam, 'cfg': cfg.key(), 'build': b['status'], 'cases': [],
           'lex': b['lex'], 'opts': b['opts'], 'features': tv.features(rs)}
    if b['status'] != 'ok':
        res['detail'] = (b.get('flex_stderr') or '') + (b.get('cc_output') or '')
        _rm(b)
        return res
    if 'dangerous trailing context' in b.get('flex_stderr', ''):
        # the property excludes these rule sets (documented limitation, flex warns)
        res['build'] = 'dangerous_tc'
        _rm(b)
        return res
    cfg.reject_machinery = bool(b['flags'].get('reject'))
    if cfg.backend == 'c99' and cfg.reject_machinery and cfg.bufsize != 16384 and not getattr(cfg, 'small_reject_ok', False):
        # YY_BUF_SIZE is a generation-time constant there: build again with a buffer the tokens fit in
        _rm(b)
        cfg.bufsize = 16384
        b = rt.build_scanner(flex, src, work, name, rs, cfg, lex_seed=seed ^ 0x77)
        res['build'] = b['status']; res['lex'] = b['lex']; res['opts'] = b['opts']; res['cfg'] = cfg.key()
        if b['status'] != 'ok':
            res['detail'] = (b.get('flex_stderr') or '') + (b.get('cc_output') or '')
            _rm(b)
            return res
    for k in range(ncases):
        c = casegen(rng, rs, cfg)
        if cfg.backend == 'c99':
            c['bufsize'] = cfg.bufsize      # a generation-time constant there
        if cfg.reject_machinery and not getattr(cfg, 'small_reject_ok', False):
            c['bufsize'] = 16384     # REJECT scanners cannot grow their buffer: tokens must fit
        if cfg.tables:
            c['main'] = ['tload:0'] + list(c['main'])
            if c['main'][-1] == 'destroy':
                c['main'] = c['main'][:-1] + ['tdestroy', 'destroy']
            c['tfiles'] = [b['tables_path']]
        ct = rt.case_text(rs, b, cfg, **c)
        cfn = os.path.join(work, '%s_%d.case' % (name, k))
        open(cfn, 'w').write(ct)
        real = rt.run_real(b['exe'], cfn)
        mod = rt.run_model(cfn)
        spec = rt.run_model(cfn, spec=True)
        rout = [l for l in real['out'] if not (l.startswith('tload 0') or l.startswith('tdestroy 0'))] if cfg.tables else real['out']
        d_buf = None
        if c.get('logreads') == 2:
            # buffer level: sizes of the read requests and the tokens, predicted by Runtime/Buf.lean
            if not cfg.reject_machinery:
                bm = rt.run_bufmodel(cfn)
                d_buf = rt.first_diff(rt.buf_view(rout), bm['out'])
                if d_buf is not None:
                    d_buf = (d_buf[0], '[read requests and tokens, vs Runtime/Buf.lean] ' + str(d_buf[1]), d_buf[2])
            rout = [l for l in rout if not l.startswith('rq ')]
        # the Lean matchers are orders of magnitude slower than the scanner: running out of time on a long input with
        # quadratic rescanning says nothing about flex.  Such a case is counted (model_timeouts), still decided by the
        # sanitizers, the ledger and whichever matcher did finish, and never reported as a difference.
        mod_to = mod['rc'] == -999 and mod.get('err') == 'timeout'
        spec_to = spec['rc'] == -999 and spec.get('err') == 'timeout'
        d_model = None if mod_to else rt.first_diff(rout, mod['out'])
        if d_model is None and d_buf is not None:
            d_model = d_buf
        d_spec = None if spec_to else rt.first_diff(rout, spec['out'])
        st = real.get('stats', {})
        ledger = None
        if cfg.ledger and real['rc'] == 0:
            if st.get('badfree', 0) != 0:
                ledger = 'a pointer that did not come from yyalloc/yyrealloc was freed or reallocated (%d times)' % st['badfree']
            elif c['main'] and c['main'][-1] == 'destroy' and not any(l.startswith('fatal') for l in real['out']) \
                    and st.get('live', 0) != 0:
                ledger = '%d allocation(s) still live after the buffers were deleted and yylex_destroy() was called' % st['live']
        cr_ledger = ledger
        cr = {'k': k, 'rc': real['rc'], 'events': len(real['out']), 'd_model': d_model, 'd_spec': d_spec,
              'bufsize': c.get('bufsize'), 'sched': c.get('sched'), 'nacts': len(c.get('acts') or {}),
              'inlen': [len(s) for s in c['srcs']], 'ledger': cr_ledger, 'stats': st}
        if mod_to or spec_to:
            cr['model_timeout'] = int(mod_to) + int(spec_to)
        bad = real['rc'] != 0 or d_model is not None or d_spec is not None or (mod['rc'] != 0 and not mod_to) or ledger is not None
        if bad:
            cr['case'] = ct
            cr['real_tail'] = real['out'][-12:]
            cr['real_err'] = real['err']
            cr['model_err'] = mod['err']
        elif k == 0:
            cr['sample_trace'] = real['out'][:12]
            cr['sample_case'] = [l for l in ct.split('\n') if l.split(' ')[0] in ('src', 'sched', 'bufsize', 'main', 'act', 'wrap')][:12]
        res['cases'].append(cr)
        os.unlink(cfn)
    _rm(b)
    return res


def _rm(b):
    for k in ('lfile', 'cfile', 'exe', 'tables_path'):
        try:
            if b.get(k):
                os.unlink(b[k])
        except OSError:
            pass


def run_families(ctx, tag, plan):
    """plan: list of (family, n_scanners, n_cases).  Returns list of results."""
    flex, src = flexrun.build_flex()
    work = flexrun.scratch_root()
    rng = ctx.rng('rt-' + tag)
    jobs = []
    i = 0
    for fam, ns, nc in plan:
        for _ in range(ns):
            jobs.append((flex, src, work, tag, i, rng.getrandbits(48), fam, nc))
            i += 1
    with Pool(16) as pool:
        return pool.map(_one_scanner, jobs, chunksize=1)


# ------------------------------------------------------------------ families
def _basic_case(rng, rs, cfg, **kw):
    inp = rtgen.gen_input(rng, rs)
    return dict(srcs=[inp], main=['lex'], sched=rtgen.gen_sched(rng), bufsize=rng.choice(rtgen.BUFSIZES))


def fam_plain(rng):
    # (a quarter of the rule sets are 7-bit: NUL then lives in slot 128 of the generator's class tables)
    rs = rules.gen_ruleset(rng, p_trail=0.0, csize=rng.choice([256, 256, 256, 128]))
    cfg = rt.Config(topt=rng.choice(TOPTS), interactive=rng.choice([None, True, False]))
    return rs, cfg, _basic_case


def _ops_case(kinds=None, small=True, nsrc=1, wrap=False):
    def gen(rng, rs, cfg):
        srcs = [rtgen.gen_input(rng, rs) for _ in range(nsrc)]
        bufsize = rng.choice(rtgen.BUFSIZES) if small else 16384
        acts, nret = rtgen.gen_acts(rng, rs, cfg, kinds=kinds, small_buffers=small)
        wraps = None
        if wrap and nsrc > 1:
            wraps = [rng.randrange(1, nsrc) for _ in range(rng.randrange(0, 3))] + [None]
        eacts = {}
        if cfg.eof_scs:
            nsc = len(rs.scs)
            for j in range(6):
                x = rng.random()
                if x < 0.3:
                    eacts[j] = ['begin:%d' % rng.randrange(nsc), 'start']
                elif x < 0.45:
                    eacts[j] = ['return:%d' % rng.randrange(1, 90)]; nret += 1
                elif x < 0.55 and cfg.stack:
                    eacts[j] = ['push:%d' % rng.randrange(nsc)]
                elif x < 0.65:
                    eacts[j] = ['input']
                elif x < 0.8 and j < 3 and cfg.backend != 'c99':     # (c99: the buffer size is fixed when the scanner is built)
                    # push text back at the end of the input and go on scanning (the buffer is in its "new" state there);
                    # room for it is needed, so no tiny buffers in this case
                    eacts[j] = ['unput:%d' % rng.choice([97, 98, 10, 48])] * rng.choice([1, 2, 3]) + ['cont']
                    bufsize = 16384
        return dict(srcs=srcs, main=['lex'] * (nret + 2) + ['destroy'], acts=acts, wraps=wraps, eacts=eacts,
                    sched=rtgen.gen_sched(rng), bufsize=bufsize)
    gen.small = small
    return gen


def _backend(rng, cxx=False):
    # cxx: the C++ class (harness/fvmain_cxx.cc) runs `lex`/`destroy` scripts on one source only
    return rng.choice(['nr', 'nr', 'r', 'r', 'c99'] + (['cxx'] if cxx else []))


def _compressed(rng):
    return rng.choice([['-Cem'], ['-Ce'], ['-Cm'], ['-C'], ['-Cae']])


def fam_ops(rng):
    rs = rules.gen_ruleset(rng, p_trail=0.0, csize=rng.choice([256, 256, 256, 128]))
    cfg = rt.Config(ledger=rng.random() < 0.5, backend=_backend(rng, cxx=True), topt=rng.choice(TOPTS), interactive=rng.choice([None, False]),
                    yymore=rng.random() < 0.5, stack=rng.random() < 0.6, array=rng.random() < 0.4,
                    yylmax=rng.choice([None, 3, 5, 8, 13, 40]))
    return rs, cfg, _ops_case()


def fam_reads(rng):
    """what the scanner asks its input routine for: one source, 1-byte reads, every action logs the
    number of bytes delivered so far (C03: an interactive scanner does not read past the first point
    at which no longer match is possible; a batch scanner reads exactly one byte further)"""
    rs = rules.gen_ruleset(rng, p_trail=rng.choice([0.0, 0.2]))
    inter = rng.choice([True, True, False, None])
    cfg = rt.Config(backend=_backend(rng, cxx=True), topt=_compressed(rng) if inter is not False else rng.choice(TOPTS), interactive=inter,
                    yymore=rng.random() < 0.3, array=rng.random() < 0.2)
    inner = _ops_case(kinds=['less', 'input', 'begin', 'return'] + (['more'] if cfg.yymore else []))

    def gen(rng, rs, cfg):
        c = inner(rng, rs, cfg)
        c['sched'] = [1]
        c['logreads'] = True
        return c
    return rs, cfg, gen


def fam_bufreq(rng):
    """the buffer level: every read request the scanner makes (its size depends on the buffer size, on
    the length of the partial token moved to the front, on growth by doubling and on YY_READ_BUF_SIZE)
    is logged and must be the request the Lean buffer machine (Runtime/Buf.lean) makes, token by token"""
    rs = rules.gen_ruleset(rng, p_trail=0.0)
    inter = rng.choice([True, False, None])
    cfg = rt.Config(backend=_backend(rng, cxx=True), topt=_compressed(rng) if inter is not False else rng.choice(TOPTS),
                    interactive=inter, yymore=rng.random() < 0.6)      # (%pointer: the model has no yytext copy)

    scripted = _ops_case(kinds=['less', 'more', 'more', 'return'] if cfg.yymore else ['less', 'return'])

    def gen(rng, rs, cfg):
        if rng.random() < 0.5:
            # yyless()/yymore() scripts: the carried prefix moves with the partial token at a refill
            c = scripted(rng, rs, cfg)
        else:
            c = _basic_case(rng, rs, cfg)
        if rng.random() < 0.3:
            rep = rng.choice([3, 20, 200])
            c['srcs'] = [c['srcs'][0] * rep]      # long inputs: growth, YY_READ_BUF_SIZE cap
            c['bufsize'] = rng.choice([1, 2, 7, 64, 8192, 16384, 20000])
            if rep == 200:
                # rules that look far ahead make scanning quadratic, and every NUL inside such a
                # look-ahead costs a yy_get_previous_state() over the text so far (cubic): the long
                # inputs come in large reads and without NULs
                c['sched'] = rng.choice([[], [4096], [8192, 100], [9000]])
                c['srcs'] = [[b if b != 0 else 1 for b in c['srcs'][0]]]
        c['logreads'] = 2
        return c
    return rs, cfg, gen


def fam_deepstack(rng):
    """start-condition stacks deep enough to be grown (YY_START_STACK_INCR = 25) once or several times"""
    rs = rules.gen_ruleset(rng, p_trail=0.0)
    cfg = rt.Config(ledger=rng.random() < 0.7, backend=_backend(rng), topt=rng.choice(TOPTS), interactive=rng.choice([None, False]),
                    stack=True)
    inner = _ops_case(kinds=['push', 'push', 'pop', 'top', 'begin', 'return'])

    def gen(rng, rs, cfg):
        c = inner(rng, rs, cfg)
        nsc = len(rs.scs)
        n1 = rng.choice([3, 24, 25, 26, 30, 51, 80])
        pre = []
        for _ in range(n1):
            pre += ['push:%d' % rng.randrange(nsc), 'top']      # yy_top_state() only where the stack is known to be non-empty
        n2 = rng.choice([0, n1 // 2, n1, n1 + 1])
        post = ['pop', 'start'] * n2
        main = [m for m in c['main'] if m != 'destroy']
        if rng.random() < 0.3:
            # one push before the very first call of yylex (yy_start is not initialised yet), undone by an
            # early action: scanning goes on in the start condition that was saved then
            pre, post = ['push:%d' % rng.randrange(nsc)], []
            k = rng.choice([0, 1, 2])
            c['acts'][k] = ['pop', 'start'] + c['acts'].get(k, [])
        c['main'] = pre + main + post + ['destroy']
        return c
    return rs, cfg, gen


def fam_arraymore(rng):
    """%array scanners whose actions call yymore(): the copy into yytext[] at yy_more_offset happens in
    YY_DO_BEFORE_ACTION, which runs again after a back-up (full/fast tables), in trailing-context
    epilogues and after REJECT"""
    rs = rules.gen_ruleset(rng, p_trail=rng.choice([0.0, 0.3]))
    rej = rng.random() < 0.25
    cfg = rt.Config(ledger=rng.random() < 0.3, backend=_backend(rng), topt=_compressed(rng) if rej else rng.choice(TOPTS),
                    interactive=rng.choice([None, False]), yymore=True, array=True, reject=rej,
                    yylmax=rng.choice([None, None, 3, 5, 8, 13]))      # small YYLMAX: tokens right at the limit
    return rs, cfg, _ops_case(kinds=['more', 'more', 'input', 'return'] + (['reject'] if rej else []), small=not rej)


def fam_unput(rng):
    rs = rules.gen_ruleset(rng, p_trail=0.0)
    cfg = rt.Config(ledger=rng.random() < 0.5, backend=_backend(rng, cxx=True), topt=rng.choice(TOPTS), interactive=rng.choice([None, False]),
                    array=rng.random() < 0.3, lineno=rng.random() < 0.5)
    return rs, cfg, _ops_case(kinds=['unput', 'input', 'less', 'return'], small=False)


def fam_reject(rng):
    rs = rules.gen_ruleset(rng, p_trail=rng.choice([0.0, 0.0, 0.3]))
    cfg = rt.Config(ledger=rng.random() < 0.5, backend=_backend(rng, cxx=True), topt=_compressed(rng), interactive=rng.choice([None, False]),
                    reject=True, lineno=rng.random() < 0.4, array=rng.random() < 0.3, yymore=rng.random() < 0.4)
    return rs, cfg, _ops_case(kinds=['reject', 'reject', 'begin', 'return'] + (['more'] if cfg.yymore else []), small=False)


def fam_lineno(rng):
    rs = rules.gen_ruleset(rng, p_trail=0.2, p_chain=rng.choice([0.0, 0.2]))
    if rng.random() < 0.5:
        # a head of fixed length before a trailing context of variable length that matches newlines: the newlines of the
        # trailing context are counted when the rule matches and have to be taken back before its action runs
        a, b, c = rng.choice([97, 98, 48]), rng.choice([97, 98, 99]), rng.choice([99, 97, 65])
        head = rng.choice([('chr', a), ('str', [a, b])])
        trail = rng.choice([('cat', ('plus', ('chr', 10)), ('chr', c)), ('plus', ('chr', 10)),
                            ('cat', ('star', ('chr', 10)), ('chr', c)), ('cat', ('plus', ('alt', ('chr', 10), ('chr', 32))), ('chr', c))])
        rs.rules.insert(rng.randrange(len(rs.rules) + 1),
                        {'scs': [], 'all': False, 'bol': False, 'head': head, 'trail': trail, 'dollar': False})
    cfg = rt.Config(ledger=rng.random() < 0.5, backend=_backend(rng, cxx=True), topt=rng.choice(TOPTS), interactive=rng.choice([None, False]),
                    lineno=True, yymore=rng.random() < 0.5, array=rng.random() < 0.4)
    inner = _ops_case(kinds=['less', 'input', 'more', 'return'] if cfg.yymore else ['less', 'input', 'return'])

    def gen(rng, rs, cfg):
        c = inner(rng, rs, cfg)
        if rng.random() < 0.5:
            # lines of one or two characters: whatever is given back or read ahead contains newlines
            c['srcs'] = [[10 if rng.random() < 0.3 else b for b in w] for w in c['srcs']]
            for k in range(0, 80, 2):
                if k not in c['acts'] and rng.random() < 0.5 and not (cfg.array and cfg.yymore):   # (F08)
                    c['acts'][k] = ['%s:%d' % (rng.choice(['less', 'less3']), rng.randrange(0, 4))]
        return c
    gen.small = inner.small
    return rs, cfg, gen


def fam_morenl(rng):
    """yymore() over newlines with %option yylineno, mostly %array: a rule or two that match newlines are always present, the
    input has a newline every third character, a third of the actions are yymore() - the newlines of the kept prefix are
    counted once, when it was matched, not again with the next match (C09)"""
    rs = rules.gen_ruleset(rng, p_trail=0.0, nrules=rng.choice([1, 2, 3, 4]))
    a = rng.choice([97, 98, 48])
    for head in rng.sample([('chr', 10), ('plus', ('cls', ('br', False, [('c', a), ('c', 10)]))), ('cat', ('chr', a), ('chr', 10)),
                            ('plus', ('chr', 10))], rng.choice([1, 2])):
        rs.rules.insert(rng.randrange(len(rs.rules) + 1),
                        {'scs': [], 'all': False, 'bol': False, 'head': head, 'trail': None, 'dollar': False})
    cfg = rt.Config(backend=_backend(rng), topt=rng.choice(TOPTS), interactive=rng.choice([None, False]),
                    lineno=True, yymore=True, array=rng.random() < 0.7)
    inner = _ops_case(kinds=['more', 'more', 'return'])

    def gen(rng, rs, cfg):
        c = inner(rng, rs, cfg)
        c['srcs'] = [[10 if rng.random() < 0.35 else b for b in w] for w in c['srcs']]
        return c
    gen.small = inner.small
    return rs, cfg, gen


def fam_sevennul(rng):
    """7-bit scanners (csize 128) whose rules write NUL inside bracket classes - alone, in a range from \\0 up, next to
    letters, negated -, equivalence classes on more often than not, NULs all over the input: NUL's slot in the generator's
    character tables is 128 there, not 256 (C04)"""
    rs = rules.gen_ruleset(rng, p_trail=0.0, csize=128, nrules=rng.choice([1, 2, 3, 4]))
    a, b = rng.choice([97, 98, 48]), rng.choice([99, 65, 10])
    shapes = [('cls', ('br', False, [('c', 0)])), ('cls', ('br', False, [('c', 0), ('c', a)])), ('cls', ('br', False, [('r', 0, 3)])),
              ('cls', ('br', True, [('c', 0), ('c', b)])), ('cls', ('br', False, [('c', a), ('c', 0), ('c', b)]))]
    for cls in rng.sample(shapes, rng.choice([1, 2])):
        head = rng.choice([cls, ('plus', cls), ('cat', ('chr', a), cls), ('cat', cls, ('chr', b))])
        rs.rules.insert(rng.randrange(len(rs.rules) + 1),
                        {'scs': [], 'all': False, 'bol': False, 'head': head, 'trail': None, 'dollar': False})
    cfg = rt.Config(backend=_backend(rng, cxx=True), topt=rng.choice([['-Cem'], ['-Ce'], ['-Cfe'], ['-CFe'], ['-Cae'], ['-Cm'], ['-Cf']]),
                    interactive=rng.choice([None, False]))

    def gen(rng, rs, cfg):
        c = _basic_case(rng, rs, cfg)
        c['srcs'] = [[0 if rng.random() < 0.3 else x for x in w] + [0, a, 0, b, 0] for w in c['srcs']]
        return c
    return rs, cfg, gen


def fam_scbol(rng):
    """start conditions and ^: two to four conditions, exclusive and inclusive ones in either order of declaration, half the
    rules anchored, most of them without a start condition; actions switch condition all the time and the input has a
    newline every other character - an unscoped ^ rule is active in every inclusive condition, wherever it was declared (C05)"""
    rs = rules.gen_ruleset(rng, p_trail=0.0, p_sc=0.0, p_bol=0.5)
    n = rng.choice([1, 2, 3])
    excl = [rng.random() < 0.5 for _ in range(n)]
    if n >= 2 and rng.random() < 0.6:
        excl[0], excl[1] = True, False           # an inclusive condition declared after an exclusive one
    for k in range(n):
        rs.scs.append(('SC%d' % (k + 1), excl[k]))
    for r in rs.rules:
        x = rng.random()
        if x < 0.25:
            r['scs'] = sorted(rng.sample(range(len(rs.scs)), rng.randrange(1, len(rs.scs) + 1)))
        elif x < 0.32:
            r['all'] = True
    cfg = rt.Config(backend=_backend(rng, cxx=True), topt=rng.choice(TOPTS), interactive=rng.choice([None, False]), stack=rng.random() < 0.4)
    inner = _ops_case(kinds=['begin', 'begin', 'return'] + (['push', 'pop'] if cfg.stack else []))

    def gen(rng, rs, cfg):
        c = inner(rng, rs, cfg)
        c['srcs'] = [[10 if rng.random() < 0.4 else b for b in w] for w in c['srcs']]
        nsc = len(rs.scs)
        for k in range(0, 80):
            if k not in c['acts'] and rng.random() < 0.5:
                c['acts'][k] = ['begin:%d' % rng.randrange(nsc)]
        return c
    gen.small = inner.small
    return rs, cfg, gen


def fam_stdioint(rng):
    """the built-in input routine on a stream that is treated as a terminal (%option always-interactive): it reads with getc()
    up to the next newline.  Inputs are rich in the bytes a careless reader confuses with EOF or a terminator (0xFF, NUL,
    newline); the tokens must be those of the same bytes delivered any other way (C03, C04)"""
    rs = rules.gen_ruleset(rng, p_trail=0.0)
    cfg = rt.Config(backend=rng.choice(['nr', 'nr', 'r', 'c99']), topt=rng.choice(TOPTS), interactive=rng.choice([None, True]), stdio=True,
                    array=rng.random() < 0.3)
    cfg.always_interactive = True

    def gen(rng, rs, cfg):
        c = _basic_case(rng, rs, cfg)
        c['srcs'] = [[(255 if rng.random() < 0.12 else 10 if rng.random() < 0.08 else b) for b in w] for w in c['srcs']]
        return c
    gen.small = getattr(_basic_case, 'small', True)
    return rs, cfg, gen


def fam_switchwrap(rng):
    """an include done by *switching*: an action leaves the current buffer for an in-memory one (yy_scan_bytes /
    yy_scan_string), and when that ends yywrap() switches back to the buffer that was left and returns 0 - scanning must
    resume there exactly where it stopped (C11; half the scanners use REJECT, whose state buffer yy_switch_to_buffer sizes)"""
    rs = rules.gen_ruleset(rng, p_trail=0.0, p_bol=0.3)
    cfg = rt.Config(backend=_backend(rng), topt=rng.choice(TOPTS), interactive=rng.choice([None, False]),
                    lineno=rng.random() < 0.4, reject=rng.random() < 0.5)
    if cfg.reject:
        cfg.topt = _compressed(rng)

    def gen(rng, rs, cfg):
        srcs = [rtgen.gen_input(rng, rs, maxlen=40) for _ in range(3)]
        srcs[2] = [c for c in srcs[2] if c != 0]
        acts = {}
        for k in range(60):
            x = rng.random()
            if x < 0.2:
                acts[k] = ['return:%d' % rng.randrange(1, 90)]
            elif x < 0.27:
                acts[k] = ['less:%d' % rng.randrange(0, 3)]
            elif x < 0.4 and cfg.reject:
                acts[k] = ['reject']
        k0 = rng.randrange(0, 5)
        acts[k0] = ['grab', rng.choice(['scanbytes:1', 'scanstring:2'])]
        return dict(srcs=srcs, main=['lex'] * 14 + ['destroy'], acts=acts, wraps=['s0', None], sched=rtgen.gen_sched(rng),
                    bufsize=16384 if cfg.reject else rng.choice(rtgen.BUFSIZES))
    gen.small = True
    return rs, cfg, gen


def fam_memmore(rng):
    """yymore() on in-memory buffers (yy_scan_bytes / yy_scan_string before the first yylex): such a buffer is never
    refilled, and whether the end of it is "end of input" or "match the pending text first" depends on the prefix kept
    by yymore() (C08, C10)"""
    rs = rules.gen_ruleset(rng, p_trail=0.0)
    cfg = rt.Config(backend=_backend(rng), topt=rng.choice(TOPTS), interactive=rng.choice([None, False]),
                    yymore=True, array=rng.random() < 0.3)
    inner = _ops_case(kinds=['more', 'more', 'less', 'return'])

    def gen(rng, rs, cfg):
        c = inner(rng, rs, cfg)
        c['srcs'] = [c['srcs'][0], [b for b in c['srcs'][0] if b != 0]]
        c['main'] = [rng.choice(['scanbytes:0', 'scanstring:1'])] + c['main']
        # the last tokens of the input call yymore() more often than not
        for k in range(0, 60):
            if k not in c['acts'] and rng.random() < 0.35:
                c['acts'][k] = ['more']
        return c
    gen.small = inner.small
    return rs, cfg, gen


def fam_inputbol(rng):
    """yyinput() and the beginning-of-line flag: many ^ rules, lines of one or two characters, actions that read one to
    three characters with yyinput() (so: a newline and then something else, or the other way round) and log yyatbol();
    the next token starts at the beginning of a line exactly when the last character read was a newline (C06, C08)"""
    rs = rules.gen_ruleset(rng, p_trail=0.1, p_bol=0.6)
    cfg = rt.Config(ledger=rng.random() < 0.3, backend=_backend(rng, cxx=True), topt=rng.choice(TOPTS), interactive=rng.choice([None, False]),
                    lineno=rng.random() < 0.4)
    inner = _ops_case(kinds=['input', 'return'])

    def gen(rng, rs, cfg):
        c = inner(rng, rs, cfg)
        c['srcs'] = [[10 if rng.random() < 0.3 else b for b in w] for w in c['srcs']]
        for k in range(0, 80):
            if rng.random() < 0.4:
                c['acts'][k] = ['input'] * rng.choice([1, 2, 2, 3]) + (['atbol'] if rng.random() < 0.5 else [])
        return c
    gen.small = inner.small
    return rs, cfg, gen


def fam_trail(rng):
    rs = rules.gen_ruleset(rng, p_trail=0.6, p_bol=0.3, p_chain=rng.choice([0.0, 0.25, 0.4]))
    cfg = rt.Config(ledger=rng.random() < 0.5, backend=_backend(rng, cxx=True), topt=rng.choice(TOPTS), interactive=rng.choice([None, False]))
    return rs, cfg, _ops_case(kinds=['less', 'return'])


def _wrapbol_case(rng, rs, cfg):
    """the current buffer re-initialised over a new source — by yywrap() returning 0 (YY_NEW_FILE),
    by yyrestart() between two calls of yylex or inside an action: the scanner is at the start of
    an input buffer again, whatever the last token of the old source ended in (C06)"""
    nsrc = 5
    srcs = []
    for i in range(nsrc):
        w = rtgen.gen_input(rng, rs, maxlen=24)
        if rng.random() < 0.6:
            while w and w[-1] == 10:
                w = w[:-1]                       # ends in the middle of a line
        srcs.append(w)
    wraps = [rng.randrange(1, nsrc) for _ in range(rng.randrange(1, 4))] + [None]
    acts = {}
    main = ['lex']
    for k in range(120):
        x = rng.random()
        if x < 0.22:
            acts[k] = ['return:%d' % rng.randrange(1, 90)]
            main += ['restart:%d' % rng.randrange(1, nsrc), 'lex'] if rng.random() < 0.3 else ['lex']
        elif x < 0.27:
            acts[k] = ['restart:%d' % rng.randrange(1, nsrc)]
        elif x < 0.33:
            acts[k] = ['%s:%d' % (rng.choice(['less', 'less', 'less3']), rng.randrange(0, 4))]
        elif x < 0.38:
            acts[k] = ['atbol']
    main = main[:14] + ['lex', 'lex', 'destroy']
    if rng.random() < 0.35:
        # the first source is the caller's memory, scanned in place (yy_scan_buffer); the sources that
        # follow are read *into that memory*, which cannot grow: it is made larger than any token
        while len(srcs[0]) < 64:
            srcs[0] = srcs[0] + (srcs[0] or [97]) + [10]
        main = ['scanbuffer:0:2'] + main
    return dict(srcs=srcs, main=main, acts=acts, wraps=wraps, sched=rtgen.gen_sched(rng),
                bufsize=rng.choice(rtgen.BUFSIZES))


def fam_wrapbol(rng):
    rs = rules.gen_ruleset(rng, p_trail=0.15, p_bol=0.6, p_sc=0.3)
    cfg = rt.Config(ledger=rng.random() < 0.3, backend=_backend(rng), topt=rng.choice(TOPTS), interactive=rng.choice([None, False]))
    return rs, cfg, _wrapbol_case


def fam_eof(rng):
    rs = rules.gen_ruleset(rng, p_trail=0.0, p_sc=0.8)
    eof = [i for i in range(len(rs.scs)) if rng.random() < 0.6]
    cfg = rt.Config(ledger=rng.random() < 0.5, backend=_backend(rng), topt=rng.choice(TOPTS), interactive=rng.choice([None, False]),
                    eof_scs=eof, stack=True)
    if rng.random() < 0.35:
        # some start conditions have their own <<EOF>> rule, an unqualified one covers all the others
        cfg.eof_own = eof
        cfg.eof_scs = list(range(len(rs.scs)))
    return rs, cfg, _ops_case(kinds=['begin', 'push', 'pop', 'input', 'return'], nsrc=3, wrap=True)


def _buffers_case(rng, rs, cfg):
    """histories of buffer operations between yylex calls and inside actions (C11)"""
    nsrc = 9
    srcs = [rtgen.gen_input(rng, rs, maxlen=30) for _ in range(nsrc)]
    file_pool = list(range(4, nsrc))                  # each used for at most one yy_create_buffer
    srcs[3] = [c for c in srcs[3] if c != 0]          # usable with yy_scan_string
    main = ['lex', 'grab']                            # registry 0 = the initial buffer
    reg = [{'kind': 'file', 'alive': True}]
    cur = 0
    stack = []                                        # registry ids below the current one
    acts = {}
    nlex = 1
    for step in range(rng.randrange(3, 12)):
        live = [i for i, b in enumerate(reg) if b['alive']]
        choices = ['scanbytes', 'scanstring', 'scanbuffer', 'create_switch', 'create_push']
        if cur is not None:
            choices += ['lex', 'lex']
        if len([i for i in live if i != cur and i not in stack]) > 0:
            choices += ['switch', 'switch', 'delete', 'pushbuf']
        if cur is not None and stack:
            choices += ['popbuf', 'popbuf']
        if any(reg[i]['kind'] == 'mem' for i in live):
            choices.append('flush')
        if rng.random() < 0.08:
            choices = ['scanbuffer_bad']
        op = rng.choice(choices)
        free = [i for i in live if i != cur and i not in stack]
        if op == 'lex':
            main.append('lex'); nlex += 1
        elif op in ('scanbytes', 'scanstring', 'scanbuffer'):
            src = 3 if op == 'scanstring' else rng.randrange(1, 4)
            main.append('%s:%d%s' % (op, src, ':2' if op == 'scanbuffer' else ''))
            reg.append({'kind': 'mem', 'alive': True}); cur = len(reg) - 1
            main.append('lex'); nlex += 1
        elif op == 'scanbuffer_bad':
            src, nuls = rng.randrange(1, 4), rng.choice([0, 1])
            main.append('scanbuffer:%d:%d' % (src, nuls))
            given = (list(srcs[src]) + [0, 0])[:len(srcs[src]) + nuls]
            if len(given) >= 2 and given[-2:] == [0, 0]:
                # the data itself ends in NULs: yy_scan_buffer accepts it
                reg.append({'kind': 'mem', 'alive': True}); cur = len(reg) - 1
            else:
                reg.append({'kind': 'null', 'alive': False})
        elif op in ('create_switch', 'create_push'):
            if not file_pool:
                continue
            src = file_pool.pop()
            main.append('create:%d:%d' % (src, 16384 if getattr(cfg, 'reject_machinery', cfg.reject) else rng.choice([1, 2, 3, 8, 16384])))
            reg.append({'kind': 'file', 'alive': True})
            idx = len(reg) - 1
            if op == 'create_switch':
                main.append('switch:%d' % idx)
            else:
                main.append('pushbuf:%d' % idx)
                if cur is not None:
                    stack.append(cur)
            cur = idx
            main.append('lex'); nlex += 1
        elif op == 'switch':
            idx = rng.choice(free)
            main.append('switch:%d' % idx); cur = idx
            main.append('lex'); nlex += 1
        elif op == 'pushbuf':
            idx = rng.choice(free)
            main.append('pushbuf:%d' % idx)
            if cur is not None:
                stack.append(cur)
            cur = idx
            main.append('lex'); nlex += 1
        elif op == 'popbuf':
            main.append('popbuf')
            reg[cur]['alive'] = False
            cur = stack.pop()
            main.append('lex'); nlex += 1
        elif op == 'delete':
            idx = rng.choice(free)
            main.append('delete:%d' % idx); reg[idx]['alive'] = False
        elif op == 'flush':
            idx = rng.choice([i for i in live if reg[i]['kind'] == 'mem'])
            main.append('flush:%d' % idx)
    main += ['lex'] * 2
    # the user deletes their own non-current buffers, destroys the scanner, uses it again, destroys it
    for i, b in enumerate(reg):
        if b['alive'] and i != cur and i not in stack:
            main.append('delete:%d' % i)
    main += ['destroy', 'newyyin:0', 'lex', 'lex', 'destroy']
    # actions return now and then so that the top-level script gets its turns
    for k in range(120):
        x = rng.random()
        if x < 0.25:
            acts[k] = ['return:%d' % rng.randrange(1, 90)]
        elif x < 0.32:
            acts[k] = ['%s:%d' % (rng.choice(['less', 'less', 'less3']), rng.randrange(0, 5))]
        elif x < 0.38:
            acts[k] = ['input']
    return dict(srcs=srcs, main=main, acts=acts, wraps=None, sched=rtgen.gen_sched(rng),
                bufsize=rng.choice(rtgen.BUFSIZES))


def _include_case(rng, rs, cfg):
    """buffer switching from inside actions: nested includes by yy_scan_bytes + push, or by
    yy_create_buffer + yypush_buffer_state; every <<EOF>> action pops and continues."""
    nsrc = 9
    srcs = [rtgen.gen_input(rng, rs, maxlen=30) for _ in range(nsrc)]
    pool = list(range(1, nsrc))
    rng.shuffle(pool)
    acts = {}
    nreg = 0
    for k in range(100):
        x = rng.random()
        if x < 0.12 and pool:
            src = pool.pop()
            mark = rng.random() < 0.3       # text pushed back onto the fresh buffer (an "entering file" marker): needs room
            acts[k] = ['create:%d:%d' % (src, 16384 if mark or getattr(cfg, 'reject_machinery', cfg.reject) else rng.choice([1, 2, 3, 8, 16384])), 'pushbuf:%d' % nreg]
            if mark:
                acts[k] += ['unput:%d' % rng.choice([97, 98, 48])] * rng.choice([1, 2])
            nreg += 1
        elif x < 0.2:
            acts[k] = ['return:%d' % rng.randrange(1, 90)]
        elif x < 0.26:
            acts[k] = ['%s:%d' % (rng.choice(['less', 'less', 'less3']), rng.randrange(0, 4))]
        elif x < 0.3:
            acts[k] = ['input']
        elif x < 0.33 and cfg.lineno:
            acts[k] = ['getlineno']
    if rng.random() < 0.5:
        # includes ended by yywrap(): it pops the buffer stack and returns 0
        return dict(srcs=srcs, main=['lex'] * 12, acts=acts, wraps=['p'] * 40, sched=rtgen.gen_sched(rng),
                    bufsize=rng.choice(rtgen.BUFSIZES))
    return dict(srcs=srcs, main=['lex'] * 12, acts=acts, wraps=None, sched=rtgen.gen_sched(rng),
                bufsize=rng.choice(rtgen.BUFSIZES), eofact=['include_end'])


def fam_include(rng):
    rs = rules.gen_ruleset(rng, p_trail=0.0, p_bol=0.3, p_sc=0.3)
    cfg = rt.Config(backend=_backend(rng), topt=rng.choice(TOPTS), interactive=rng.choice([None, False]),
                    lineno=rng.random() < 0.5, eof_scs=list(range(len(rs.scs))))
    return rs, cfg, _include_case


def fam_buffers(rng):
    rs = rules.gen_ruleset(rng, p_trail=0.0, p_bol=0.3)
    cfg = rt.Config(backend=_backend(rng), topt=rng.choice(TOPTS), interactive=rng.choice([None, False]),
                    lineno=rng.random() < 0.5, ledger=rng.random() < 0.7, stack=rng.random() < 0.3,
                    reject=rng.random() < 0.2)
    if cfg.reject:
        cfg.topt = _compressed(rng)
    return rs, cfg, _buffers_case


MATRIX_TOPTS = [['-Cem'], ['-Ce'], ['-Cm'], ['-C'], ['-Cf'], ['-CF'], ['-Cfe'], ['-CFe'], ['-Cae'], ['-Caf'],
                ['-CaF'], ['-Cam'], ['-Caem']]
MATRIX = [(t, bits, inter, arr, be, tab)
          for t in range(len(MATRIX_TOPTS)) for bits in (8, 7) for inter in (None, True, False)
          for arr in (False, True) for be in ('nr', 'r', 'c99', 'cxx') for tab in (None, 'file')
          if not (be in ('c99', 'cxx') and tab)]       # serialized tables are only exercised through the C API of the default skeleton


def fam_matrix(rng, idx):
    """C02: configuration number idx of the full option matrix, on a generated probe"""
    # a stride co-prime with the matrix size visits the configurations in a well-mixed order
    t, bits, inter, arr, be, tab = MATRIX[(idx * 251) % len(MATRIX)]
    # trailing context (fixed and variable) in a third of the probes; variable trailing context needs compressed tables
    full = any('f' in o or 'F' in o for o in MATRIX_TOPTS[t])
    rs = rules.gen_ruleset(rng, p_trail=rng.choice([0.0, 0.0, 0.35]), allow_var_trail=not full,
                           csize=128 if bits == 7 else 256, p_bol=0.3)
    cfg = rt.Config(backend=be, topt=MATRIX_TOPTS[t], interactive=inter, array=arr, tables=tab,
                    yymore=rng.random() < 0.5, stack=rng.random() < 0.5, ledger=rng.random() < 0.5,
                    lineno=rng.random() < 0.3)
    return rs, cfg, _ops_case()


def fam_sertrail(rng):
    """serialized tables (loaded at run time, or verified against the in-code ones) for rule sets with fixed and
    variable trailing context and REJECT: the flag bits of yy_acclist travel through the file too"""
    rs = rules.gen_ruleset(rng, p_trail=0.6, p_bol=0.2, p_chain=rng.choice([0.0, 0.2]))
    rej = rng.random() < 0.3
    cfg = rt.Config(backend=rng.choice(['nr', 'r']), topt=_compressed(rng), interactive=rng.choice([None, False]),
                    tables=rng.choice(['file', 'file', 'verify']), reject=rej, ledger=rng.random() < 0.5)
    return rs, cfg, _ops_case(kinds=['less', 'return'] + (['reject'] if rej else []), small=not rej)


def fam_nultail(rng):
    """NUL in the last equivalence class together with the bytes from 0x80 up, mostly with a power-of-two number of
    classes and full tables: the tables' last column is the one the generator may decide to do without"""
    rs = rules.gen_nultail_ruleset(rng)
    cfg = rt.Config(backend=_backend(rng, cxx=True), topt=rng.choice([['-Cfe'], ['-Cfe'], ['-Cfe'], ['-CFe'], ['-Cfae'], ['-Cem'], ['-Ce']]),
                    interactive=rng.choice([None, False]))

    def gen(rng, rs, cfg):
        n = rng.choice([5, 20, 60])
        alphabet = [c for r in rs.rules if r['head'][0] == 'chr' for c in [r['head'][1]]] or [97]
        inp = []
        for _ in range(n):
            x = rng.random()
            if x < 0.35:
                inp.append(rng.randrange(128, 256))
            elif x < 0.45:
                inp.append(0)
            elif x < 0.8:
                inp.append(rng.choice(alphabet))
            else:
                inp.append(rng.randrange(1, 128))
        return dict(srcs=[inp], main=['lex'], sched=rtgen.gen_sched(rng), bufsize=rng.choice(rtgen.BUFSIZES))
    return rs, cfg, gen


FAMILIES = {'nultail': fam_nultail, 'sevennul': fam_sevennul, 'morenl': fam_morenl, 'scbol': fam_scbol, 'stdioint': fam_stdioint, 'switchwrap': fam_switchwrap, 'memmore': fam_memmore, 'inputbol': fam_inputbol, 'sertrail': fam_sertrail, 'buffers': fam_buffers, 'include': fam_include, 'plain': fam_plain, 'ops': fam_ops, 'unput': fam_unput, 'reject': fam_reject,
            'lineno': fam_lineno, 'trail': fam_trail, 'eof': fam_eof, 'deepstack': fam_deepstack, 'reads': fam_reads, 'bufreq': fam_bufreq, 'arraymore': fam_arraymore, 'wrapbol': fam_wrapbol}

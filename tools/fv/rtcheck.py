"""Families of runtime correspondence cases shared by the runtime property checks."""
import os, random, time, json
from multiprocessing import Pool
from . import flexrun, rules, rt, rtgen, tv

TOPTS = [['-Cem'], ['-Ce'], ['-Cm'], ['-C'], ['-Cf'], ['-CF'], ['-Cfe'], ['-CFe'], ['-Cae'], ['-CaF']]


def _one_scanner(job):
    (flex, src, work, tag, idx, seed, fam, ncases) = job
    rng = random.Random(seed)
    rs, cfg, casegen = FAMILIES[fam](rng)
    name = '%s_%d' % (tag, idx)
    b = rt.build_scanner(flex, src, work, name, rs, cfg, lex_seed=seed ^ 0x77)
    res = {'idx': idx, 'seed': seed, 'fam': fam, 'cfg': cfg.key(), 'build': b['status'], 'cases': [],
           'lex': b['lex'], 'opts': b['opts'], 'features': tv.features(rs)}
    if b['status'] != 'ok':
        res['detail'] = (b.get('flex_stderr') or '') + (b.get('cc_output') or '')
        _rm(b)
        return res
    if 'dangerous trailing context' in b.get('flex_stderr', ''):
        # the property excludes these rule sets (documented limitation, flex warns)
        res['build'] = 'dangerous_tc'
        _rm(b)
        return res
    cfg.reject_machinery = bool(b['flags'].get('reject'))
    for k in range(ncases):
        c = casegen(rng, rs, cfg)
        if cfg.reject_machinery and not getattr(cfg, 'small_reject_ok', False):
            c['bufsize'] = 16384     # REJECT scanners cannot grow their buffer: tokens must fit
        ct = rt.case_text(rs, b, cfg, **c)
        cfn = os.path.join(work, '%s_%d.case' % (name, k))
        open(cfn, 'w').write(ct)
        real = rt.run_real(b['exe'], cfn)
        mod = rt.run_model(cfn)
        spec = rt.run_model(cfn, spec=True)
        d_model = rt.first_diff(real['out'], mod['out'])
        d_spec = rt.first_diff(real['out'], spec['out'])
        cr = {'k': k, 'rc': real['rc'], 'events': len(real['out']), 'd_model': d_model, 'd_spec': d_spec,
              'bufsize': c.get('bufsize'), 'sched': c.get('sched'), 'nacts': len(c.get('acts') or {}),
              'inlen': [len(s) for s in c['srcs']]}
        bad = real['rc'] != 0 or d_model is not None or d_spec is not None or mod['rc'] != 0
        if bad:
            cr['case'] = ct
            cr['real_tail'] = real['out'][-12:]
            cr['real_err'] = real['err']
            cr['model_err'] = mod['err']
        elif k == 0:
            cr['sample_trace'] = real['out'][:12]
            cr['sample_case'] = [l for l in ct.split('\n') if l.split(' ')[0] in ('src', 'sched', 'bufsize', 'main', 'act', 'wrap')][:12]
        res['cases'].append(cr)
        os.unlink(cfn)
    _rm(b)
    return res


def _rm(b):
    for k in ('lfile', 'cfile', 'exe'):
        try:
            os.unlink(b[k])
        except OSError:
            pass


def run_families(ctx, tag, plan):
    """plan: list of (family, n_scanners, n_cases).  Returns list of results."""
    flex, src = flexrun.build_flex()
    work = flexrun.scratch_root()
    rng = ctx.rng('rt-' + tag)
    jobs = []
    i = 0
    for fam, ns, nc in plan:
        for _ in range(ns):
            jobs.append((flex, src, work, tag, i, rng.getrandbits(48), fam, nc))
            i += 1
    with Pool(16) as pool:
        return pool.map(_one_scanner, jobs, chunksize=1)


# ------------------------------------------------------------------ families
def _basic_case(rng, rs, cfg, **kw):
    inp = rtgen.gen_input(rng, rs)
    return dict(srcs=[inp], main=['lex'], sched=rtgen.gen_sched(rng), bufsize=rng.choice(rtgen.BUFSIZES))


def fam_plain(rng):
    rs = rules.gen_ruleset(rng, p_trail=0.0)
    cfg = rt.Config(topt=rng.choice(TOPTS), interactive=rng.choice([None, True, False]))
    return rs, cfg, _basic_case


def _ops_case(kinds=None, small=True, nsrc=1, wrap=False):
    def gen(rng, rs, cfg):
        srcs = [rtgen.gen_input(rng, rs) for _ in range(nsrc)]
        bufsize = rng.choice(rtgen.BUFSIZES) if small else 16384
        acts, nret = rtgen.gen_acts(rng, rs, cfg, kinds=kinds, small_buffers=small)
        wraps = None
        if wrap and nsrc > 1:
            wraps = [rng.randrange(1, nsrc) for _ in range(rng.randrange(0, 3))] + [None]
        return dict(srcs=srcs, main=['lex'] * (nret + 2), acts=acts, wraps=wraps,
                    sched=rtgen.gen_sched(rng), bufsize=bufsize)
    return gen


def _backend(rng):
    return rng.choice(['nr', 'nr', 'r'])


def _compressed(rng):
    return rng.choice([['-Cem'], ['-Ce'], ['-Cm'], ['-C'], ['-Cae']])


def fam_ops(rng):
    rs = rules.gen_ruleset(rng, p_trail=0.0)
    cfg = rt.Config(backend=_backend(rng), topt=rng.choice(TOPTS), interactive=rng.choice([None, False]),
                    yymore=rng.random() < 0.5, stack=rng.random() < 0.6, array=rng.random() < 0.3)
    return rs, cfg, _ops_case()


def fam_unput(rng):
    rs = rules.gen_ruleset(rng, p_trail=0.0)
    cfg = rt.Config(backend=_backend(rng), topt=rng.choice(TOPTS), interactive=rng.choice([None, False]),
                    array=rng.random() < 0.3, lineno=rng.random() < 0.5)
    return rs, cfg, _ops_case(kinds=['unput', 'input', 'less', 'return'], small=False)


def fam_reject(rng):
    rs = rules.gen_ruleset(rng, p_trail=0.0)
    cfg = rt.Config(backend=_backend(rng), topt=_compressed(rng), interactive=rng.choice([None, False]),
                    reject=True, lineno=rng.random() < 0.4, array=rng.random() < 0.3)
    return rs, cfg, _ops_case(kinds=['reject', 'reject', 'begin', 'return'], small=False)


def fam_lineno(rng):
    rs = rules.gen_ruleset(rng, p_trail=0.2)
    cfg = rt.Config(backend=_backend(rng), topt=rng.choice(TOPTS), interactive=rng.choice([None, False]),
                    lineno=True, yymore=rng.random() < 0.4)
    return rs, cfg, _ops_case(kinds=['less', 'input', 'more', 'return'] if cfg.yymore else ['less', 'input', 'return'])


def fam_trail(rng):
    rs = rules.gen_ruleset(rng, p_trail=0.6, p_bol=0.3)
    cfg = rt.Config(backend=_backend(rng), topt=rng.choice(TOPTS), interactive=rng.choice([None, False]))
    return rs, cfg, _ops_case(kinds=['less', 'return'])


def fam_eof(rng):
    rs = rules.gen_ruleset(rng, p_trail=0.0, p_sc=0.8)
    eof = [i for i in range(len(rs.scs)) if rng.random() < 0.6]
    cfg = rt.Config(backend=_backend(rng), topt=rng.choice(TOPTS), interactive=rng.choice([None, False]),
                    eof_scs=eof, stack=True)
    return rs, cfg, _ops_case(kinds=['begin', 'push', 'pop', 'input', 'return'], nsrc=3, wrap=True)


FAMILIES = {'plain': fam_plain, 'ops': fam_ops, 'unput': fam_unput, 'reject': fam_reject,
            'lineno': fam_lineno, 'trail': fam_trail, 'eof': fam_eof}

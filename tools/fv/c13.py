"""C13 runtime correspondence check (see DESIGN.md)."""
from . import rtprop

THEOREMS = ['FlexVerif.validate_sound', 'FlexVerif.Buf.run_from_init', 'FlexVerif.Buf.refill_spec']
# functions translated from the generated scanner in this run: no access outside the array is part of what is proved
TRANSLATED = ['FlexVerif.C03NextBuf.never_out_of_bounds', 'FlexVerif.C03NextBufC99.never_out_of_bounds_c99', 'FlexVerif.C05Stack.never_out_of_bounds', 'FlexVerif.C11Stack.stack_refines',
              'FlexVerif.C08Unput.unput_spec', 'FlexVerif.C11Flush.create_spec', 'FlexVerif.C11FlushC99.create99_spec', 'FlexVerif.C11Flush.delete_spec', 'FlexVerif.C11FlushC99.delete99_spec']


def reject_overflow_probe(ctx, results):
    """a scanner with the REJECT machinery (here: a rule with variable head and variable trailing context, no REJECT
    in any action) keeps one automaton state per buffered character in yy_state_buf, which is sized with the
    buffer and never grown: a token longer than the buffer must end in the documented fatal error, not in a
    larger yy_ch_buf next to the old yy_state_buf"""
    import os
    from . import flexrun, rules, rt
    flex, src = flexrun.build_flex()
    work = flexrun.scratch_root()
    rs = rules.RuleSet()
    low = ('cls', ('br', False, [('r', 97, 122)]))
    dig = ('cls', ('br', False, [('r', 48, 57)]))
    rs.rules = [{'scs': [], 'all': False, 'bol': False, 'head': ('plus', low), 'trail': ('cat', ('plus', dig), ('chr', 120)), 'dollar': False},
                {'scs': [], 'all': False, 'bol': False, 'head': ('plus', dig), 'trail': None, 'dollar': False}]
    for backend in ('nr', 'r', 'c99'):
        for bufsize in (16, 64):
            cfg = rt.Config(backend=backend, topt=['-Cem'], interactive=False, bufsize=bufsize if backend == 'c99' else None)
            b = rt.build_scanner(flex, src, work, 'c13_ro_%s_%d' % (backend, bufsize), rs, cfg, lex_seed=3)
            if b['status'] != 'ok':
                ctx.violation('REJECT-overflow probe does not build (%s): %s' % (backend, (b.get('cc_output') or b.get('flex_stderr') or '')[-300:]), {'backend': backend})
                continue
            inp = [97 + i % 26 for i in range(40 * bufsize)] + [49, 50, 120, 10]
            ct = rt.case_text(rs, b, cfg, [inp], ['lex', 'lex', 'destroy'], sched=[7], bufsize=bufsize)
            cfn = os.path.join(work, 'c13_ro.case')
            open(cfn, 'w').write(ct)
            r = rt.run_real(b['exe'], cfn)
            out = [l for l in r['out'] if l]
            if r['rc'] != 0:
                ctx.violation('a token longer than the buffer in a scanner with variable trailing context (%s, buffer %d): crash / sanitizer report '
                              '(rc=%s): %s' % (backend, bufsize, r['rc'], r['err'][:300]), {'backend': backend, 'bufsize': bufsize, 'lex': b['lex']})
            elif 'fatal reject_overflow' not in out:
                ctx.violation('a token longer than the buffer in a scanner with variable trailing context (%s, buffer %d) does not end in the '
                              '"can\'t enlarge buffer because scanner uses yyreject()" error: %s' % (backend, bufsize, out[:3]),
                              {'backend': backend, 'bufsize': bufsize, 'lex': b['lex']})
            from . import rtcheck
            rtcheck._rm(b)


def run(ctx):
    from . import c03, c05, c08, c11
    for what, regen in (('yy_get_next_buffer()', c03.regen_nextbuf), ('the start-condition stack', c05.regen_startstack),
                        ('the buffer stack', c11.regen_bufstack), ('yyunput_r()', c08.regen_unput),
                        ('yy_create_buffer() / yy_delete_buffer()', c11.regen_flush)):
        info, err = regen()
        if err:
            ctx.violation('translator of %s gave up: %s' % (what, err), {'error': err}, no_input=True)
    q1, q2, q3 = {'quick': (64, 48, 32), 'thorough': (600, 400, 200)}[ctx.tier]
    plan = [('buffers', q1, 6), ('include', q2, 6), ('ops', q2, 6), ('unput', q3, 6), ('reject', q3, 6), ('eof', q3, 6), ('lineno', q3, 4), ('deepstack', q3, 4), ('bufreq', q3, 6), ('arraymore', q3, 6), ('nultail', q3, 4)]
    return rtprop.run(ctx, THEOREMS + TRANSLATED, plan, 'exploration',
                      "memory safety and release: every runtime case runs on a scanner built with -fsanitize=address,undefined -fno-sanitize-recover (any report is a violation); with the ledger allocator (noyyalloc/noyyrealloc/noyyfree; realloc always moves and poisons) every pointer freed/reallocated must come from the ledger and, after the user's buffers are deleted and yylex_destroy() called, nothing may stay live; a destroyed scanner is reused and destroyed again; emitted tables are bounds-checked for all inputs by the validator's decoders (DState.bad); Buf.run_from_init / refill_spec: in the buffer machine the buffer never holds more than yy_buf_size characters (Inv.fits), and that machine's read requests are compared with the real scanner's (bufreq family); for five pieces of the run time translated from a scanner flex generates in this run - yy_get_next_buffer(), yyunput_r(), the start-condition stack, the buffer stack functions and yy_create_buffer() - absence of any access outside the array is proved for all sizes, positions and call sequences (C03NextBuf.never_out_of_bounds, C08Unput.unput_spec, C05Stack.never_out_of_bounds, C11Stack.stack_refines), and the character memory of a new buffer is proved to have exactly yy_buf_size + 2 cells (C11Flush.create_spec), and yy_delete_buffer() to release the character memory exactly when it is the scanner's own, then the structure, each once (C11Flush.delete_spec)" + '. Kernel-checked theorems about the abstract scanner (listed under obligations) + differential '
                      'correspondence of the real generated scanner (ASan/UBSan build) with that model on generated cases.',
                      post=reject_overflow_probe)

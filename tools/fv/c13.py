"""C13 runtime correspondence check (see DESIGN.md)."""
from . import rtprop

THEOREMS = ['FlexVerif.validate_sound', 'FlexVerif.Buf.run_from_init', 'FlexVerif.Buf.refill_spec']


def run(ctx):
    q1, q2, q3 = {'quick': (64, 48, 32), 'thorough': (600, 400, 200)}[ctx.tier]
    plan = [('buffers', q1, 6), ('include', q2, 6), ('ops', q2, 6), ('unput', q3, 6), ('reject', q3, 6), ('eof', q3, 6), ('lineno', q3, 4), ('deepstack', q3, 4), ('bufreq', q3, 6), ('arraymore', q3, 6)]
    return rtprop.run(ctx, THEOREMS, plan, 'exploration',
                      "memory safety and release: every runtime case runs on a scanner built with -fsanitize=address,undefined -fno-sanitize-recover (any report is a violation); with the ledger allocator (noyyalloc/noyyrealloc/noyyfree; realloc always moves and poisons) every pointer freed/reallocated must come from the ledger and, after the user's buffers are deleted and yylex_destroy() called, nothing may stay live; a destroyed scanner is reused and destroyed again; emitted tables are bounds-checked for all inputs by the validator's decoders (DState.bad); Buf.run_from_init / refill_spec: in the buffer machine the buffer never holds more than yy_buf_size characters (Inv.fits), and that machine's read requests are compared with the real scanner's (bufreq family)" + '. Kernel-checked theorems about the abstract scanner (listed under obligations) + differential '
                      'correspondence of the real generated scanner (ASan/UBSan build) with that model on generated cases.')

"""Rule sets: generation, printing as a flex input file, and as case-file lines."""
import random
from . import patgen


class RuleSet:
    def __init__(self):
        self.csize = 256
        self.caseins = False
        self.posix_prec = False
        self.scs = [('INITIAL', False)]      # (name, exclusive)
        self.rules = []                      # dicts: scs(list idx)|all(bool), bol, head, trail (None|pat), dollar(bool), chain(bool)
        self.options = []                    # extra %option words
        self.nodefault = False

    # -- spec side ----------------------------------------------------------
    def case_lines(self, var_rules=()):
        out = ['csize %d' % self.csize, 'nsc %d' % len(self.scs),
               'excl ' + ' '.join('1' if e else '0' for _, e in self.scs),
               'caseins %d' % (1 if self.caseins else 0)]
        for i, r in enumerate(self.rules):
            scs = ','.join(str(s) for s in r['scs']) if r['scs'] else '-'
            out.append('rule scs=%s all=%d bol=%d var=%d' % (
                scs, 1 if r['all'] else 0, 1 if r['bol'] else 0, 1 if (i + 1) in var_rules else 0))
            out.append('head ' + patgen.sx(r['head']))
            if r.get('dollar'):
                out.append('trail (chr 10)')
            elif r.get('trail') is not None:
                out.append('trail ' + patgen.sx(r['trail']))
        # the default rule: <*>(.|\n)
        out.append('rule scs=- all=1 bol=0 var=0')
        out.append('head (cls (br 0 (r 0 %d)))' % (self.csize - 1))
        return out

    # -- flex side ----------------------------------------------------------
    def to_lex(self, rng, action=lambda i: ';', prologue='', epilogue='', use_scopes=True,
               vary=True, extra_options=(), pct_actions=True):
        self._pct_actions = pct_actions      # (False for the c99 back end: known finding F67)
        pr = patgen.Printer(rng, posix_prec=self.posix_prec, vary=vary)
        lines2 = []
        self._rule_pos = {}
        # group consecutive rules with the same start-condition list into a scope, sometimes
        i = 0
        n = len(self.rules)
        while i < n:
            r = self.rules[i]
            pre = self._scprefix(r)
            j = i + 1
            # (nor may a scope open right after a '|' action: flex reads `<SC>{` as the next rule there)
            if use_scopes and pre and rng.random() < 0.3 and not (i > 0 and self.rules[i - 1].get('chain')):
                while j < n and self._scprefix(self.rules[j]) == pre and rng.random() < 0.7:
                    j += 1
                while j > i + 1 and self.rules[j - 1].get('chain'):
                    j -= 1          # a scope cannot end in a '|' action (flex: "unrecognized rule")
                if self.rules[j - 1].get('chain'):
                    lines2.append(self._rule_line(pr, r, pre, action(i + 1)))
                    self._rule_pos[len(lines2) - 1] = i + 1
                    i = i + 1
                    continue
                lines2.append(pre + '{')
                for k in range(i, j):
                    lines2.append(self._rule_line(pr, self.rules[k], '', action(k + 1)))
                    self._rule_pos[len(lines2) - 1] = k + 1
                lines2.append('}')
            else:
                lines2.append(self._rule_line(pr, r, pre, action(i + 1)))
                self._rule_pos[len(lines2) - 1] = i + 1
            i = j
        s1 = []
        opts = list(self.options) + list(extra_options)
        if self.caseins:
            opts.append('caseless')
        if self.nodefault:
            opts.append('nodefault')
        for o in opts:
            s1.append('%option ' + o)
        if prologue:
            s1.append(prologue)
        for name, body in pr.defs.items():
            s1.append('%s %s' % (name, body))
        for name, ex in self.scs[1:]:
            s1.append('%s %s' % ('%x' if ex else '%s', name))
        text = '\n'.join(s1) + '\n%%\n' + '\n'.join(lines2) + '\n%%\n' + epilogue
        # line number (1-based) of each rule in the file just printed
        base = ('\n'.join(s1) + '\n%%\n').count('\n')
        self.rule_lines = {}
        self.rule_last_lines = {}
        ln = base
        for pos, l in enumerate(lines2):
            ln += 1
            if pos in self._rule_pos:
                self.rule_lines[self._rule_pos[pos]] = ln
                # a pattern with a (?x: group may run over several lines; flex names the last one
                self.rule_last_lines[self._rule_pos[pos]] = ln + l.count('\n')
            ln += l.count('\n')
        return text

    def expected_var_rules(self):
        """rule numbers flex may treat as *variable* trailing context rules: head and trailing part both
        of variable length in flex's syntactic sense (any of | * + ? {} in it, parse.y `varlength`), or
        any trailing context (r/s, r$) right after a '|' action"""
        def synvar(p):
            k = p[0]
            if k in ('alt', 'star', 'plus', 'opt', 'rep'):
                return True
            if k == 'cat':
                return synvar(p[1]) or synvar(p[2])
            if k == 'grp':
                return synvar(p[5])
            if k == 'ref':
                return synvar(p[2])
            return False
        out = set()
        for i, r in enumerate(self.rules):
            has_trail = r.get('trail') is not None or r.get('dollar')
            if not has_trail:
                continue
            after_chain = i > 0 and self.rules[i - 1].get('chain')
            if after_chain or (r.get('trail') is not None and synvar(r['head']) and synvar(r['trail'])):
                out.add(i + 1)
        return out

    def _scprefix(self, r):
        if r['all']:
            return '<*>'
        if r['scs']:
            return '<' + ','.join(self.scs[s][0] for s in r['scs']) + '>'
        return ''

    def _rule_line(self, pr, r, pre, act):
        if r.get('chain'):
            act = '|'
        elif pr.vary and getattr(self, '_pct_actions', True) and '\n' not in act and '%}' not in act and pr.rng.random() < 0.12:
            act = '%{ ' + act + ' %}'          # the other spelling of an action
        s = pre + ('^' if r['bol'] else '') + pr.pr(r['head'], 0)
        if r.get('dollar'):
            s += '$'
        elif r.get('trail') is not None:
            s += '/' + pr.pr(r['trail'], 0)
        return s + '\t' + act


def gen_ruleset(rng, nrules=None, depth=None, csize=256, p_sc=0.4, p_bol=0.15, p_trail=0.15,
                p_caseins=0.15, allow_nul=True, allow_nullable=False, union_negated=True,
                allow_var_trail=True, maxrep=4, p_chain=0.0, p_posix=0.08):
    rs = RuleSet()
    rs.csize = csize
    rs.caseins = rng.random() < p_caseins
    if rng.random() < p_posix:
        # %option posix-compat: `ab{2}` is `(ab){2}`; the (?...) groups are not available
        rs.posix_prec = True
        rs.options = list(rs.options) + ['posix-compat']
    if rng.random() < p_sc:
        for k in range(rng.choice([1, 1, 2, 3])):
            rs.scs.append(('SC%d' % (k + 1), rng.random() < 0.5))
    # a third of the 8-bit rule sets spell only ASCII characters in their patterns (bytes >= 0x80 then
    # reach the scanner through `.`, negated classes and the default rule only): flex has no reason
    # to refuse those if it picks a 7-bit scanner by mistake
    gsize = 128 if csize == 256 and rng.random() < 0.33 else csize
    rs.ascii_patterns = gsize != csize
    g = patgen.Gen(rng, csize=gsize, allow_nul=allow_nul, caseins=rs.caseins,
                   union_negated=union_negated, maxrep=maxrep, allow_flags=not rs.posix_prec)
    if nrules is None:
        nrules = rng.choice([1, 2, 3, 4, 5, 6, 8, 10])
    for _ in range(nrules):
        d = depth if depth is not None else rng.choice([0, 1, 2, 2, 3, 3, 4])
        for _try in range(20):
            head = g.pat(d)
            if allow_nullable or not patgen.nullable(head):
                break
        else:
            head = ('chr', g.ch())
        r = {'scs': [], 'all': False, 'bol': rng.random() < p_bol, 'head': head, 'trail': None,
             'dollar': False}
        if len(rs.scs) > 1:
            x = rng.random()
            if x < 0.15:
                r['all'] = True
            elif x < 0.6:
                k = rng.randrange(1, len(rs.scs) + 1)
                r['scs'] = sorted(rng.sample(range(len(rs.scs)), k))
        if rng.random() < p_trail:
            if rng.random() < 0.3:
                r['dollar'] = True
            else:
                for _try in range(20):
                    t = g.pat(rng.choice([0, 1, 2]))
                    if not patgen.nullable(t):
                        break
                else:
                    t = ('chr', g.ch())
                r['trail'] = t
        rs.rules.append(r)
    # '|' actions: the rule shares the action of the next rule (never on the last rule)
    for i in range(len(rs.rules) - 1):
        if rng.random() < p_chain:
            rs.rules[i]['chain'] = True
    return rs


def gen_nultail_ruleset(rng):
    """rule sets in which NUL shares the *highest-numbered* equivalence class with other bytes: every byte below 0x80
    that the patterns tell apart has its own one-character rule, and one rule takes `[^\\x01-\\x7f]` (the bytes from
    0x80 up - and NUL) as a block, nothing else mentions NUL or a byte >= 0x80.  With k letters there are k + 2
    classes (the letters, the other bytes below 0x80, the block): a power of two for k = 2, 6, 14 - where flex
    decides about a separate NUL-transition table for full tables - and not for the other k."""
    rs = RuleSet()
    rs.csize = 256
    k = rng.choice([2, 2, 6, 6, 14, 0, 1, 3, 5])
    letters = rng.sample(range(97, 123), k)
    block = ('cls', ('br', True, [('r', 1, 127)]))
    heads = [('chr', c) for c in letters]
    heads.append(rng.choice([('plus', block), block, ('cat', block, block)]))

    def small(depth):
        x = rng.random()
        if depth == 0 or x < 0.35:
            return ('chr', rng.choice(letters)) if letters and rng.random() < 0.7 else block
        if x < 0.6:
            return ('cat', small(depth - 1), small(depth - 1))
        if x < 0.8:
            return ('alt', small(depth - 1), small(depth - 1))
        return ('plus', small(depth - 1))
    for _ in range(rng.choice([0, 1, 2, 3])):
        heads.append(('cat', small(2), small(1)))
    rng.shuffle(heads)
    for h in heads:
        rs.rules.append({'scs': [], 'all': False, 'bol': False, 'head': h, 'trail': None, 'dollar': False})
    rs.nultail_letters = k
    return rs

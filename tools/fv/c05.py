"""C05 runtime correspondence check (see DESIGN.md)."""
from . import rtprop

THEOREMS = ['FlexVerif.bufferOp_start', 'FlexVerif.doWrap_start', 'FlexVerif.inputOp_start', 'FlexVerif.commonOp_start_frame', 'FlexVerif.runAction_start', 'FlexVerif.runAlternatives_start', 'FlexVerif.lexCall_start', 'FlexVerif.runMain_start', 'FlexVerif.SafeScr_of_safeScrB', 'FlexVerif.push_pop', 'FlexVerif.pop_underflow', 'FlexVerif.stack_lifo', 'FlexVerif.validate_sound']


def run(ctx):
    q1, q2, q3 = {'quick': (64, 48, 32), 'thorough': (600, 400, 200)}[ctx.tier]
    plan = [('eof', q1, 6), ('ops', q2, 6), ('deepstack', q3, 4)]
    return rtprop.run(ctx, THEOREMS, plan, 'proof',
                      'start conditions: begin/push/pop/top scripts (underflow included) inside actions, with yywrap chains and EOF rules; yystart() and yy_top_state() are logged and compared' + '. Kernel-checked theorems about the abstract scanner (listed under obligations) + differential '
                      'correspondence of the real generated scanner (ASan/UBSan build) with that model on generated cases.')

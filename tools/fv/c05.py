"""C05 runtime correspondence check (see DESIGN.md)."""
from . import rtprop

THEOREMS = ['FlexVerif.bufferOp_start', 'FlexVerif.doWrap_start', 'FlexVerif.inputOp_start', 'FlexVerif.commonOp_start_frame', 'FlexVerif.runAction_start', 'FlexVerif.runAlternatives_start', 'FlexVerif.lexCall_start', 'FlexVerif.runMain_start', 'FlexVerif.SafeScr_of_safeScrB', 'FlexVerif.push_pop', 'FlexVerif.pop_underflow', 'FlexVerif.stack_lifo', 'FlexVerif.validate_sound']


STACK_THEOREMS = ['FlexVerif.C05Stack.' + t for t in ('push_refines', 'pop_refines', 'pop_empty', 'top_refines', 'begin_refines',
                                                      'lexInit_refines', 'stack_refines', 'never_out_of_bounds', 'start_state_encoding')]

STACK_THEOREMS += ['FlexVerif.C05StackC99.' + t for t in ('push_same', 'cstep99_same', 'stack_refines_c99')]


def regen_startstack():
    """translate yy_push_state / yy_pop_state / yy_top_state / yybegin / yystart / the initialisation of yy_start from a scanner
    flex generates now into lean/FlexVerif/Gen/StartStack.lean"""
    import os, fcntl
    from . import flexrun, gen_startstack, common
    flex, src = flexrun.build_flex()
    try:
        body, info = gen_startstack.generate(flex, flexrun.scratch_root())
        body99, info99 = gen_startstack.generate_c99(flex, flexrun.scratch_root())
    except gen_startstack.TranslateError as e:
        return None, str(e)
    info = dict(info or {}); info['c99'] = info99
    files = [(os.path.join(common.LEAN_DIR, 'FlexVerif', 'Gen', 'StartStack.lean'), body),
             (os.path.join(common.LEAN_DIR, 'FlexVerif', 'Gen', 'StartStackC99.lean'), body99)]
    lock = open(os.path.join(common.LEAN_DIR, '.build.lock'), 'w')
    fcntl.flock(lock, fcntl.LOCK_EX)
    try:
        for path, text in files:
            old = open(path).read() if os.path.exists(path) else ''
            if old != text:
                open(path, 'w').write(text)
    finally:
        fcntl.flock(lock, fcntl.LOCK_UN)
        lock.close()
    return info, None


def run(ctx):
    info, err = regen_startstack()
    if err:
        ctx.violation('translator of the start-condition stack functions gave up: ' + err, {'error': err}, no_input=True)
    q1, q2, q3 = {'quick': (64, 48, 32), 'thorough': (600, 400, 200)}[ctx.tier]
    plan = [('eof', q1, 6), ('ops', q2, 6), ('deepstack', q3, 4), ('scbol', q2, 6)]
    return rtprop.run(ctx, THEOREMS + STACK_THEOREMS, plan, 'proof',
                      'start conditions: begin/push/pop/top scripts (underflow included) inside actions, with yywrap chains and EOF rules; yystart() and yy_top_state() are logged and compared; the stack functions themselves (yy_push_state, yy_pop_state, yy_top_state, yybegin, yystart, the initialisation of yy_start) are translated from a scanner flex generates in this run into Gen/StartStack.lean and proved to be a LIFO stack for every sequence of calls, never indexing outside the array, with yy_start = 1 + 2*condition once yylex has run (C05Stack.stack_refines, never_out_of_bounds, start_state_encoding)' + '. Kernel-checked theorems about the abstract scanner (listed under obligations) + differential '
                      'correspondence of the real generated scanner (ASan/UBSan build) with that model on generated cases.')

"""Translator: the two definitions of the yyless(n) macro of a scanner flex has just generated (the one
actions use, with YY_DO_BEFORE_ACTION, and the one "redefined so it works in section 3 code"), with
YY_LESS_LINENO as generated for %option yylineno  ->  lean/FlexVerif/Gen/YYLess.lean.

The array is the character buffer; `yytext`, `yy_cp`, `yy_bp`, `yy_c_buf_p` are offsets into it.
Macros are expanded textually (they are object- or function-like macros without recursion); the result
is parsed as C: `do { ... } while (0)` is a block, `for (i; c; s) b` is `i; while (c) { b; s; }`.
"""
import os, re, subprocess
from .gen_options import tokenize, TranslateError
from . import gen_startstack as G

VARS = ['yy_c_buf_p', 'yy_hold_char', 'yytext', 'yyleng', 'yylineno', 'yy_cp', 'yy_bp', 'yyless_macro_arg', 'yyl', 'n']


class P(G.P):
    TYPES = G.P.TYPES + ('char',)

    def unary(self):
        if self.accept('op', '*'):
            return ('deref', self.unary())
        return super().unary()

    def primary(self):
        x = self.peek()
        if x[0] == 'str' and x[1].startswith("'"):
            self.next()
            v = eval(x[1])
            return ('num', ord(v))
        return super().primary()

    def stmt(self):
        x = self.peek()
        if x == ('id', 'do'):
            self.next()
            body = self.stmt()
            self.expect('id', 'while'); self.expect('op', '(')
            c = self.expr(); self.expect('op', ')')
            self.accept('op', ';')
            if c != ('num', 0):
                raise TranslateError('do ... while with a condition other than 0')
            return body
        if x == ('id', 'for'):
            self.next(); self.expect('op', '(')
            init = self.expr(); self.expect('op', ';')
            cond = self.expr(); self.expect('op', ';')
            step = self.expr(); self.expect('op', ')')
            body = self.stmt()
            return ('block', [('expr', init), ('while', cond, ('block', [body, ('expr', step)]))])
        if x == ('op', ';'):
            self.next()
            return ('block', [])
        if x[0] == 'id' and x[1] in self.TYPES:
            j = 1
            while self.peek(j) == ('op', '*'):
                j += 1
            if self.peek(j)[0] == 'id' and self.peek(j + 1) == ('op', ';'):
                self.i += j + 2
                return ('block', [])
            if self.peek(j)[0] == 'id' and self.peek(j + 1) == ('op', '='):
                self.i += j
                e = self.expr(); self.expect('op', ';')
                return ('expr', e)
        return super().stmt()


class Tr(G.Tr):
    def var(self, name):
        if name not in VARS:
            raise TranslateError('variable %s is not part of yyless' % name)
        return VARS.index(name)

    def ex(self, e):
        k = e[0]
        if k == 'deref':
            p, a, q = self.ex(e[1])
            return p, '(.idx %s)' % a, q
        if k == 'index':
            # p[i] is *(p + i)
            p1, a, q1 = self.ex(e[1]); p2, i, q2 = self.ex(e[2])
            return p1 + p2, '(.idx (.add %s %s))' % (a, i), q1 + q2
        return super().ex(e)

    def assign(self, e):
        lv, op, rhs = e[1], e[2], e[3]
        if rhs[0] == 'assign':
            inner = self.assign(rhs)
            return inner + self.assign(('assign', lv, op, rhs[1]))
        if lv[0] == 'deref' and op == '=':
            p1, a, q1 = self.ex(lv[1]); p2, r, q2 = self.ex(rhs)
            return p1 + p2 + ['(.store %s %s)' % (a, r)] + q1 + q2
        if lv[0] == 'index' and op == '=':
            p0, b, q0 = self.ex(lv[1]); p1, i, q1 = self.ex(lv[2]); p2, r, q2 = self.ex(rhs)
            return p0 + p1 + p2 + ['(.store (.add %s %s) %s)' % (b, i, r)] + q0 + q1 + q2
        return super().assign(e)

    def st(self, s):
        if s[0] == 'while':
            p, c, q = self.ex(s[1])
            if p or q:
                raise TranslateError('side effect in a loop condition')
            return '(.while_ %s %s)' % (c, self.st(s[2]))
        return super().st(s)


PROBE = '%option noyywrap yylineno\n%%\na yyless(0);\n%%\n'


def macro(text, name, start=0):
    """(params or None, body, end position) of the first #define of `name` at or after `start`"""
    m = re.compile(r'^[ \t]*#[ \t]*define[ \t]+' + re.escape(name) + r'(\(([^)]*)\))?[ \t]*((?:.*\\\n)*.*)$', re.M).search(text, start)
    if not m:
        raise TranslateError('macro %s not found' % name)
    params = [x.strip() for x in m.group(2).split(',')] if m.group(1) else None
    body = re.sub(r'\\\s*\n', ' ', m.group(3))
    body = re.sub(r'/\*.*?\*/', ' ', body)
    return params, body, m.end()


LIT = re.compile(r"""('(?:[^'\\]|\\.)*'|"(?:[^"\\]|\\.)*")""")


def outside_literals(text, f):
    """apply f to the parts of `text` that are not inside a character or string literal"""
    parts = LIT.split(text)
    return ''.join(p if i % 2 else f(p) for i, p in enumerate(parts))


def expand(body, macros):
    """textual expansion of the listed macros inside `body`"""
    for _ in range(10):
        changed = False
        for name, (params, mb) in macros.items():
            if params is None:
                nb = outside_literals(body, lambda t: re.sub(r'\b' + re.escape(name) + r'\b', lambda m: ' ' + mb + ' ', t))
            else:
                def rep(m):
                    args = [a.strip() for a in m.group(1).split(',')]
                    r = mb
                    for p, a in zip(params, args):
                        r = outside_literals(r, lambda t: re.sub(r'\b' + re.escape(p) + r'\b', lambda mm: '(' + a + ')', t))
                    return ' ' + r + ' '
                nb = outside_literals(body, lambda t: re.sub(r'\b' + re.escape(name) + r'\s*\(([^()]*)\)', rep, t))
            if nb != body:
                body, changed = nb, True
        if not changed:
            return body
    raise TranslateError('macro expansion does not end')


def generate(flex, workdir):
    lf = os.path.join(workdir, 'yyless_probe.l')
    cf = os.path.join(workdir, 'yyless_probe.c')
    open(lf, 'w').write(PROBE)
    p = subprocess.run([flex, '-L', '-o', cf, lf], stdout=subprocess.PIPE, stderr=subprocess.PIPE, text=True)
    if p.returncode != 0:
        raise TranslateError('flex failed on the probe: ' + p.stderr[-200:])
    text = open(cf, errors='replace').read()
    aux = {}
    for name in ('YY_LESS_LINENO', 'YY_DO_BEFORE_ACTION', 'YY_MORE_ADJ', 'YY_RESTORE_YY_MORE_OFFSET', 'yytext_ptr'):
        params, body, _ = macro(text, name)
        aux[name] = (params, body)
    p1, b1, end1 = macro(text, 'yyless')
    p2, b2, _ = macro(text, 'yyless', end1)
    if p1 != ['n'] or p2 != ['n']:
        raise TranslateError('yyless is not a macro of one parameter n')
    msgs = []
    progs = []
    for body in (b1, b2):
        c = expand(body, aux)
        tr = Tr({}, {}, msgs)
        progs.append(tr.st(P(tokenize(c)).stmt()))
    L = ['-- GENERATED by tools/fv/gen_yyless.py from a scanner flex (built from /repo\'s current tree) has just generated',
         '-- (%option yylineno, %pointer).  Do not edit.',
         'import FlexVerif.Imp.Lang',
         'namespace FlexVerif.Gen.YYLess',
         'open FlexVerif.Imp',
         '/-- variables: ' + ', '.join('%d = %s' % (i, n) for i, n in enumerate(VARS)) + '; the array: the character buffer -/',
         'def vCBufP : Nat := 0', 'def vHold : Nat := 1', 'def vText : Nat := 2', 'def vLeng : Nat := 3', 'def vLineno : Nat := 4',
         'def vCp : Nat := 5', 'def vBp : Nat := 6', 'def vArgCopy : Nat := 7', 'def vI : Nat := 8', 'def vN : Nat := 9',
         '/-- yyless(n) as actions see it -/', 'def lessAction : St :=\n  ' + progs[0],
         '/-- yyless(n) as redefined for section-3 code -/', 'def lessSection3 : St :=\n  ' + progs[1],
         'end FlexVerif.Gen.YYLess']
    for f in (lf, cf):
        try:
            os.unlink(f)
        except OSError:
            pass
    return '\n'.join(L) + '\n', {}


if __name__ == '__main__':
    import sys
    t, info = generate(sys.argv[1], sys.argv[2])
    sys.stdout.write(t)

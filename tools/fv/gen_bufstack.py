"""Translator: the buffer stack of a scanner flex has just generated (yyensure_buffer_stack,
yypush_buffer_state, yypop_buffer_state, yy_switch_to_buffer, the macros yy_current_buffer() and
YY_CURRENT_BUFFER_LVALUE)  ->  lean/FlexVerif/Gen/BufStack.lean  (programs of Imp/Lang.lean).

The array is `yy_buffer_stack`; its elements are buffer handles (an integer each, 0 = NULL).  Statements
about the *contents* of a buffer (saving yy_c_buf_p / yy_n_chars into the old buffer,
yy_load_buffer_state(), yy_did_buffer_switch_on_eof) are left out — they neither read nor write the
stack variables, which the translator checks — and `yy_delete_buffer(b)` is kept as a logged call.
"""
import os, re, subprocess
from .gen_options import tokenize, TranslateError
from . import gen_startstack as G

VARS = ['yy_buffer_stack', 'yy_buffer_stack_top', 'yy_buffer_stack_max', 'num_to_alloc', 'grow_size', 'new_buffer']
ARRAY = 'yy_buffer_stack'
PTR = 8
LEAN_NAME = {'yyensure_buffer_stack': 'ensure'}
OUTSIDE_CALLS = {'yy_load_buffer_state'}          # touch the contents of buffers only
LOGGED_CALLS = {'yy_delete_buffer': 0}


class P(G.P):
    TYPES = G.P.TYPES + ('struct', 'yybuffer')

    def unary(self):
        # sizeof(T*) and casts to struct pointers
        if self.peek() == ('id', 'sizeof'):
            j = 1
            depth = 0
            ptr = False
            while True:
                t = self.peek(j)
                if t == ('op', '('):
                    depth += 1
                elif t == ('op', ')'):
                    depth -= 1
                    if depth == 0:
                        break
                elif t == ('op', '*'):
                    ptr = True
                elif t[0] == 'eof':
                    raise TranslateError('sizeof')
                j += 1
            inner = [self.peek(k) for k in range(2, j)]
            self.i += j + 1
            if ptr:
                return ('num', PTR)
            if inner == [('id', 'int')]:
                return ('num', 4)
            raise TranslateError('sizeof of %r' % (inner,))
        if self.peek() == ('op', '(') and self.peek(1) == ('id', 'struct'):
            j = 2
            while self.peek(j) != ('op', ')'):
                if self.peek(j)[0] == 'eof':
                    raise TranslateError('cast')
                j += 1
            self.i += j + 1
            return self.unary()
        return super().unary()

    def stmt(self):
        x = self.peek()
        if x == ('id', 'return') and self.peek(1) == ('op', ';'):
            self.i += 2
            return ('return', None)
        if x[0] == 'id' and x[1] in self.TYPES and self.peek(1)[0] == 'id' and self.peek(2) == ('op', '='):
            self.i += 1                     # a declaration with an initialiser: the assignment
            e = self.expr(); self.expect('op', ';')
            return ('expr', e)
        if x == ('op', '{') or (x[0] == 'id' and x[1] in ('if', 'return')):
            return super().stmt()
        if x[0] == 'id' and x[1] in self.TYPES and self.peek(1)[0] == 'id' and self.peek(2) == ('op', ';'):
            return super().stmt()
        # an expression statement; what cannot be parsed as one is kept as tokens
        start = self.i
        try:
            e = self.expr(); self.expect('op', ';')
            return ('expr', e)
        except TranslateError:
            self.i = start
            depth = 0
            while True:
                y = self.next()
                if y[0] == 'eof':
                    raise TranslateError('unterminated statement')
                if y[0] == 'op' and y[1] in '([{':
                    depth += 1
                elif y[0] == 'op' and y[1] in ')]}':
                    depth -= 1
                elif y == ('op', ';') and depth == 0:
                    break
            return ('opaque', self.t[start:self.i])


def mentions(e, names):
    if isinstance(e, tuple):
        if len(e) == 2 and e[0] == 'id':
            base = re.split(r'->|\.', e[1])[0]
            return base in names or e[1] in names
        return any(mentions(x, names) for x in e)
    if isinstance(e, list):
        return any(mentions(x, names) for x in e)
    return False


class Tr(G.Tr):
    def __init__(self, macros, consts, msgs, funcs):
        super().__init__(macros, consts, msgs)
        self.funcs = funcs          # name -> parsed body, for inlining
        self.left_out = []

    def var(self, name):
        if name not in VARS:
            raise TranslateError('variable %s is not part of the buffer stack' % name)
        return VARS.index(name)

    def ex(self, e):
        if e[0] == 'id' and e[1] in self.macros and self.macros[e[1]][0] is None:
            return self.ex(self.macros[e[1]][1])
        if e[0] == 'id' and e[1] == 'NULL':
            return [], '(.lit 0)', []
        if e[0] == 'index':
            if e[1] != ('id', ARRAY):
                raise TranslateError('indexing something else than %s' % ARRAY)
            p, i, q = self.ex(e[2])
            return p, '(.idx %s)' % i, q
        if e[0] == 'cond':
            p0, c, q0 = self.ex(e[1]); p1, a, q1 = self.ex(e[2]); p2, b, q2 = self.ex(e[3])
            return p0, '(.cond %s %s %s)' % (c, a, b), q0
        return super().ex(e)

    def assign(self, e):
        lv, op, rhs = e[1], e[2], e[3]
        if lv[0] == 'id' and lv[1] in self.macros and self.macros[lv[1]][0] is None:
            lv = self.macros[lv[1]][1]
        if rhs[0] == 'call' and rhs[1] in ('yyalloc', 'yyrealloc'):
            if lv != ('id', ARRAY) or op != '=':
                raise TranslateError('allocation assigned to something else than %s' % ARRAY)
            p, n, q = self.ex(rhs[2][-1])
            return ['(.growTo (.div %s (.lit %d)))' % (n, PTR), '(.assign %d (.lit 1))' % self.var(ARRAY)]
        if lv[0] == 'index' and lv[1] == ('id', ARRAY) and op == '=':
            p1, i, q1 = self.ex(lv[2]); p2, r, q2 = self.ex(rhs)
            return p1 + p2 + ['(.store %s %s)' % (i, r)] + q1 + q2
        return super().assign(('assign', lv, op, rhs))

    def st(self, s):
        k = s[0]
        if k == 'opaque':
            toks = s[1]
            for i, t in enumerate(toks):
                if t[0] == 'id' and re.split(r'->|\.', t[1])[0] in VARS and t[1] in VARS and i + 1 < len(toks) and \
                        toks[i + 1][0] == 'op' and toks[i + 1][1] in ('=', '+=', '-=', '++', '--'):
                    raise TranslateError('a statement that was left out assigns to %s' % t[1])
                if t[0] == 'id' and t[1] in ('YY_FATAL_ERROR',):
                    raise TranslateError('a statement that was left out calls YY_FATAL_ERROR')
            self.left_out.append(' '.join(str(t[1]) for t in toks)[:80])
            return '.skip'
        if k == 'return' and s[1] is None:
            return '(.ret (.lit 0))'
        if k == 'expr':
            e = s[1]
            if e[0] == 'call':
                f = e[1]
                if f in self.funcs:
                    self.st(self.funcs[f])          # (it must translate)
                    return '(.scope %s)' % LEAN_NAME[f]      # the callee's program, by name
                if f in OUTSIDE_CALLS:
                    self.left_out.append(f + '()')
                    return '.skip'
                if f in LOGGED_CALLS:
                    p, a, q = self.ex(e[2][0])
                    return G.seq(p + ['(.call %d %s)' % (LOGGED_CALLS[f], a)] + q)
                if f == 'memset':
                    base, val, size = e[2]
                    if val != ('num', 0):
                        raise TranslateError('memset with a value other than 0')
                    if base == ('id', ARRAY):
                        off = '(.lit 0)'
                    elif base[0] == 'bin' and base[1] == '+' and base[2] == ('id', ARRAY):
                        _, off, _ = self.ex(base[3])
                    else:
                        raise TranslateError('memset of something else than the buffer stack')
                    _, n, _ = self.ex(size)
                    return '(.zero %s (.div %s (.lit %d)))' % (off, n, PTR)
            if e[0] == 'assign':
                lv = e[1]
                if lv[0] == 'id' and lv[1] not in VARS and not (lv[1] in self.macros and self.macros[lv[1]][0] is None):
                    # an assignment to something outside the model (a field of a buffer, yy_did_buffer_switch_on_eof)
                    if mentions(e[3], set()) is False and False:
                        pass
                    self.left_out.append(lv[1] + ' = ...')
                    return '.skip'
        return super().st(s)


PROBE = '%option noyywrap\n%%\na ;\n%%\n'


def body_of(text, name):
    m = re.search(r'\n\s*(?:static )?(?:void|int) ' + re.escape(name) + r'\s*\([^)]*\)\s*\{', text)
    if not m:
        raise TranslateError('function %s not found in the generated scanner' % name)
    i = m.end() - 1
    depth = 0
    j = i
    while True:
        if text[j] == '{':
            depth += 1
        elif text[j] == '}':
            depth -= 1
            if depth == 0:
                break
        j += 1
    return text[i:j + 1]


def generate(flex, workdir):
    lf = os.path.join(workdir, 'bufstack_probe.l')
    cf = os.path.join(workdir, 'bufstack_probe.c')
    open(lf, 'w').write(PROBE)
    p = subprocess.run([flex, '-L', '-o', cf, lf], stdout=subprocess.PIPE, stderr=subprocess.PIPE, text=True)
    if p.returncode != 0:
        raise TranslateError('flex failed on the probe: ' + p.stderr[-200:])
    text = open(cf, errors='replace').read()
    macros = {}
    m = re.search(r'^#define yy_current_buffer\(\)[ \t]+((?:.*\\\n)*.*)$', text, re.M)
    if not m:
        raise TranslateError('macro yy_current_buffer() not found')
    macros['yy_current_buffer'] = ([], P(tokenize(re.sub(r'\\\s*\n', ' ', m.group(1)))).expr())
    m = re.search(r'^#define YY_CURRENT_BUFFER_LVALUE\s+(.*)$', text, re.M)
    if not m:
        raise TranslateError('macro YY_CURRENT_BUFFER_LVALUE not found')
    macros['YY_CURRENT_BUFFER_LVALUE'] = (None, P(tokenize(m.group(1))).expr())
    msgs = []
    funcs = {}
    funcs['yyensure_buffer_stack'] = P(tokenize(body_of(text, 'yyensure_buffer_stack'))).stmt()
    tr = Tr(macros, {}, msgs, funcs)
    progs = {}
    for fn in ('yyensure_buffer_stack', 'yypush_buffer_state', 'yypop_buffer_state', 'yy_switch_to_buffer'):
        progs[fn] = tr.st(P(tokenize(body_of(text, fn))).stmt())
    _, cur, _ = tr.ex(('call', 'yy_current_buffer', []))
    q = lambda s: '"' + s.replace('\\', '\\\\').replace('"', '\\"') + '"'
    L = ['-- GENERATED by tools/fv/gen_bufstack.py from a scanner flex (built from /repo\'s current tree) has just generated.',
         '-- Do not edit.',
         'import FlexVerif.Imp.Lang',
         'namespace FlexVerif.Gen.BufStack',
         'open FlexVerif.Imp',
         '/-- variables: ' + ', '.join('%d = %s' % (i, n) for i, n in enumerate(VARS)) + ' (yy_buffer_stack: 0 = NULL); the array: yy_buffer_stack[] -/',
         'def vStack : Nat := 0', 'def vTop : Nat := 1', 'def vMax : Nat := 2', 'def vNumToAlloc : Nat := 3', 'def vGrow : Nat := 4', 'def vArg : Nat := 5',
         'def msgs : List String := [%s]' % ', '.join(q(m) for m in msgs),
         '/-- logged calls: 0 = yy_delete_buffer(b) -/',
         'def fDelete : Nat := 0',
         '/-- yyensure_buffer_stack() -/', 'def ensure : St :=\n  ' + progs['yyensure_buffer_stack'],
         '/-- yypush_buffer_state(new_buffer) -/', 'def push : St :=\n  ' + progs['yypush_buffer_state'],
         '/-- yypop_buffer_state() -/', 'def pop : St :=\n  ' + progs['yypop_buffer_state'],
         '/-- yy_switch_to_buffer(new_buffer) -/', 'def switch_ : St :=\n  ' + progs['yy_switch_to_buffer'],
         '/-- yy_current_buffer() -/', 'def currentEx : Ex :=\n  ' + cur,
         'end FlexVerif.Gen.BufStack']
    for f in (lf, cf):
        try:
            os.unlink(f)
        except OSError:
            pass
    return '\n'.join(L) + '\n', {'messages': msgs, 'left_out': sorted(set(tr.left_out))}


PROBE_C99 = '%option emit="c99" noyywrap\n%%\na ;\n%%\n'


def generate_c99(flex, workdir):
    lf = os.path.join(workdir, 'bufstack_probe99.l')
    cf = os.path.join(workdir, 'bufstack_probe99.c')
    open(lf, 'w').write(PROBE_C99)
    p = subprocess.run([flex, '-L', '-o', cf, lf], stdout=subprocess.PIPE, stderr=subprocess.PIPE, text=True)
    if p.returncode != 0:
        raise TranslateError('flex failed on the c99 probe: ' + p.stderr[-200:])
    text = G.normalise_c99(open(cf, errors='replace').read())
    text = re.sub(r'\\\s*\n', ' ', text)
    macros = {'yy_current_buffer': ([], G.function_as_macro(text, 'yy_current_buffer')[1])}
    # the default skeleton spells the top slot YY_CURRENT_BUFFER_LVALUE; the c99 one writes it out
    msgs = []
    funcs = {'yyensure_buffer_stack': P(tokenize(body_of(text, 'yyensure_buffer_stack'))).stmt()}
    tr = Tr(macros, {'true': 1, 'false': 0}, msgs, funcs)
    progs = {}
    for fn in ('yyensure_buffer_stack', 'yypush_buffer_state', 'yypop_buffer_state', 'yy_switch_to_buffer'):
        progs[fn] = tr.st(P(tokenize(body_of(text, fn))).stmt())
    _, cur, _ = tr.ex(('call', 'yy_current_buffer', []))
    q = lambda s: '"' + s.replace('\\', '\\\\').replace('"', '\\"') + '"'
    L = ['-- GENERATED by tools/fv/gen_bufstack.py from a c99 scanner (%option emit="c99") flex has just generated.  Do not edit.',
         'import FlexVerif.Imp.Lang',
         'namespace FlexVerif.Gen.BufStackC99',
         'open FlexVerif.Imp',
         'def msgs : List String := [%s]' % ', '.join(q(m) for m in msgs),
         'def ensure : St :=\n  ' + progs['yyensure_buffer_stack'],
         'def push : St :=\n  ' + progs['yypush_buffer_state'],
         'def pop : St :=\n  ' + progs['yypop_buffer_state'],
         'def switch_ : St :=\n  ' + progs['yy_switch_to_buffer'],
         'def currentEx : Ex :=\n  ' + cur,
         'end FlexVerif.Gen.BufStackC99']
    for f in (lf, cf):
        try:
            os.unlink(f)
        except OSError:
            pass
    return '\n'.join(L) + '\n', {'messages': msgs, 'left_out': sorted(set(tr.left_out))}


if __name__ == '__main__':
    import sys
    t, info = generate(sys.argv[1], sys.argv[2])
    sys.stdout.write(t)
    sys.stderr.write(repr(info) + '\n')

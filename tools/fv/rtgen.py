"""Generation of runtime cases: inputs, read schedules, buffer sizes, action scripts."""
import random


def gen_input(rng, rs, maxlen=60, nul=True, high=True):
    alpha = [97, 98, 99, 10, 65, 48]
    if nul:
        alpha += [0, 0]
    if high and rs.csize == 256:
        alpha += [0x80, 0xff]
    # characters mentioned in the rules make matches likely
    seen = set()

    def walk(p):
        if p[0] == 'chr':
            seen.add(p[1])
        elif p[0] == 'str':
            seen.update(p[1])
        elif p[0] in ('cat', 'alt'):
            walk(p[1]); walk(p[2])
        elif p[0] in ('star', 'plus', 'opt', 'rep'):
            walk(p[1])
        elif p[0] == 'grp':
            walk(p[5])
        elif p[0] == 'ref':
            walk(p[2])
    for r in rs.rules:
        walk(r['head'])
        if r.get('trail') is not None:
            walk(r['trail'])
    alpha += [c for c in seen if c < rs.csize and (nul or c != 0)]
    n = rng.choice([0, 1, 2, 5, 10, 20, 40, maxlen])
    out = []

    def sample(p, depth=0):
        """a string that probably matches `p` (classes are approximated by the alphabet)"""
        k = p[0]
        if k == 'chr':
            return [p[1]]
        if k == 'str':
            return list(p[1])
        if k == 'cat':
            return sample(p[1], depth) + sample(p[2], depth)
        if k == 'alt':
            return sample(rng.choice([p[1], p[2]]), depth)
        if k == 'star':
            return sum((sample(p[1], depth + 1) for _ in range(rng.choice([0, 1, 2]))), [])
        if k == 'plus':
            return sum((sample(p[1], depth + 1) for _ in range(rng.choice([1, 2, 3]))), [])
        if k == 'opt':
            return sample(p[1], depth) if rng.random() < 0.5 else []
        if k == 'rep':
            lo = p[2] if len(p) > 2 and isinstance(p[2], int) else 1
            return sum((sample(p[1], depth + 1) for _ in range(min(lo + rng.choice([0, 1]), 4))), [])
        if k == 'grp':
            return sample(p[5], depth)
        if k == 'ref':
            return sample(p[2], depth)
        return [rng.choice(alpha)]
    while len(out) < n:
        if rng.random() < 0.25 and rs.rules:
            # most of a string some rule matches, then something else: the scanner has to back up
            w = sample(rng.choice(rs.rules)['head'])[:12]
            if len(w) > 1 and rng.random() < 0.6:
                w = w[:rng.randrange(1, len(w))]
            out += w
        elif rng.random() < 0.2 and out:
            # repeat a chunk: long runs make long tokens
            k = rng.randrange(1, 6)
            out += out[-k:] * rng.randrange(1, 4)
        else:
            out.append(rng.choice(alpha))
    out = out[:max(n, 0)]
    if rs.csize == 128:
        out = [c & 0x7f for c in out]
    return out


def gen_sched(rng):
    k = rng.random()
    if k < 0.25:
        return [1]
    if k < 0.5:
        return [rng.randrange(1, 4) for _ in range(rng.randrange(1, 6))]
    if k < 0.75:
        return [rng.randrange(1, 12) for _ in range(rng.randrange(1, 8))]
    return []     # whatever the scanner asks for


BUFSIZES = [1, 2, 3, 4, 5, 7, 8, 16, 33, 16384]


def gen_acts(rng, rs, cfg, nacts=80, p_act=0.35, kinds=None, small_buffers=True):
    """scripts for the first `nacts` action executions.  `kinds`: allowed op kinds."""
    nsc = len(rs.scs)
    if kinds is None:
        kinds = ['less', 'input', 'begin', 'return']
        if cfg.yymore:
            kinds.append('more')
            if cfg.array:
                kinds.remove('less')     # known finding F08: %array yyless after yymore
        if cfg.stack:
            kinds += ['push', 'pop', 'top']
        if cfg.reject:
            kinds.append('reject')
        if not small_buffers:
            kinds.append('unput')
    if cfg.yymore and cfg.array and 'more' in kinds and 'less' in kinds:
        kinds = [k for k in kinds if k != 'less']     # known finding F08 (probed separately by C08)
    acts = {}
    depth = 0
    nret = 0
    for k in range(nacts):
        if rng.random() > p_act:
            continue
        ops = []
        kind = rng.choice(kinds)
        if kind == 'reject':
            # side-effect free prefix, then reject
            if nsc > 1 and rng.random() < 0.3:
                ops.append('begin:%d' % rng.randrange(nsc))
            ops.append('reject')
        elif kind == 'less':
            # (less3: the same, done by section-3 code — the skeleton defines yyless() a second time for it)
            ops.append('%s:%d' % ('less3' if rng.random() < 0.3 else 'less', rng.randrange(0, 8)))
            if cfg.yymore and not cfg.array and rng.random() < 0.2:
                ops.append('more')
        elif kind == 'more':
            ops.append('more')
        elif kind == 'input':
            for _ in range(rng.choice([1, 1, 2, 3])):
                ops.append('input')
        elif kind == 'unput':
            for _ in range(rng.choice([1, 1, 2, 3])):
                ops.append('unput:%d' % rng.choice([97, 98, 10, 0, 65, 0xff if rs.csize == 256 else 99]))
            if rng.random() < 0.3:
                ops.append('input')
        elif kind == 'begin':
            ops.append('begin:%d' % rng.randrange(nsc))
            ops.append('start')
        elif kind == 'push':
            ops.append('push:%d' % rng.randrange(nsc))
            depth += 1
        elif kind == 'pop':
            if depth > 0 or rng.random() < 0.1:
                ops.append('pop')
                depth = max(0, depth - 1)
            ops.append('start')
        elif kind == 'top':
            ops.append('top')        # (on an empty stack yy_top_state() returns the current start condition)
        elif kind == 'return':
            ops.append('return:%d' % rng.randrange(1, 100))
            nret += 1
        if ops:
            acts[k] = ops
    return acts, nret

"""C10 runtime correspondence check (see DESIGN.md)."""
from . import rtprop

THEOREMS = ['FlexVerif.doWrap_start', 'FlexVerif.inputOp_start']
TRANSLATED = ['FlexVerif.C03NextBuf.' + t for t in ('eof_only_when_reader_dry', 'nextBuf_eof_pending', 'nextBuf_nofill', 'nextBuf_read')] + ['FlexVerif.C03NextBufC99.eof_only_when_reader_dry_c99', 'FlexVerif.C11Flush.init_spec', 'FlexVerif.C11Flush.restart_current', 'FlexVerif.C11FlushC99.restart99_current']


def run(ctx):
    from . import c03, c11
    info9, err9 = c11.regen_flush()
    if err9:
        ctx.violation('translator of yy_flush_buffer() / yy_init_buffer() gave up: ' + err9, {'error': err9}, no_input=True)
    info, err = c03.regen_nextbuf()
    if err:
        ctx.violation('translator of yy_get_next_buffer() gave up: ' + err, {'error': err}, no_input=True)
    q1, q2, q3 = {'quick': (64, 48, 32), 'thorough': (600, 400, 200)}[ctx.tier]
    plan = [('eof', q1, 8), ('include', q3, 6), ('wrapbol', q3, 6), ('memmore', q3, 6), ('switchwrap', q3, 6)]
    return rtprop.run(ctx, THEOREMS + TRANSLATED, plan, 'exploration',
                      'end of input: up to three sources chained by yywrap, <<EOF>> actions per start condition, yyinput at end of input, repeated yylex calls; nested buffers ended by <<EOF>> actions or by a yywrap() that pops the buffer and returns 0; about yy_get_next_buffer() as translated from a scanner flex generates in this run it is proved that end of file is reported only when the reader, asked for at least one byte, delivered none (eof_only_when_reader_dry), that pending text is matched first (EOB_ACT_LAST_MATCH exactly when more than the yymore() prefix is pending, the buffer then marked EOF_PENDING and the reader not asked again: nextBuf_read, nextBuf_eof_pending) and that a buffer without refill (yy_scan_*) is left untouched (nextBuf_nofill)' + '. Kernel-checked theorems about the abstract scanner (listed under obligations) + differential '
                      'correspondence of the real generated scanner (ASan/UBSan build) with that model on generated cases.')

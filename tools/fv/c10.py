"""C10 runtime correspondence check (see DESIGN.md)."""
from . import rtprop

THEOREMS = ['FlexVerif.doWrap_start', 'FlexVerif.inputOp_start']


def run(ctx):
    q1, q2, q3 = {'quick': (64, 48, 32), 'thorough': (600, 400, 200)}[ctx.tier]
    plan = [('eof', q1, 8), ('include', q3, 6), ('wrapbol', q3, 6)]
    return rtprop.run(ctx, THEOREMS, plan, 'exploration',
                      'end of input: up to three sources chained by yywrap, <<EOF>> actions per start condition, yyinput at end of input, repeated yylex calls; nested buffers ended by <<EOF>> actions or by a yywrap() that pops the buffer and returns 0' + '. Kernel-checked theorems about the abstract scanner (listed under obligations) + differential '
                      'correspondence of the real generated scanner (ASan/UBSan build) with that model on generated cases.')

"""Translator: the start-condition stack of a scanner flex has just generated
(yy_push_state, yy_pop_state, yy_top_state, the macros yybegin/yystart, the first-call initialisation
of yy_start in yylex)  ->  lean/FlexVerif/Gen/StartStack.lean  (programs of Imp/Lang.lean).

C subset: integer variables, one int array, + - * / comparisons ! && || ?:, ++/--, = += -=, if/else,
return, YY_FATAL_ERROR, and `p = (T *) yyalloc(n)` / `p = (T *) yyrealloc(p, n)` read as "the array has
n / sizeof(int) elements now, old contents kept" (allocation failure is the business of C14).
Anything else makes the translator give up (TranslateError), which the check reports.
"""
import os, re, subprocess
from .gen_options import tokenize, TranslateError

VARS = ['yy_start', 'yy_start_stack_ptr', 'yy_start_stack_depth', 'yy_start_stack', 'new_size', '_new_state']
ARRAY = 'yy_start_stack'
SIZEOF_INT = 4


class P:
    def __init__(self, toks):
        self.t, self.i = toks, 0

    def peek(self, k=0):
        return self.t[self.i + k] if self.i + k < len(self.t) else ('eof', None)

    def next(self):
        x = self.peek(); self.i += 1; return x

    def accept(self, kind, val=None):
        x = self.peek()
        if x[0] == kind and (val is None or x[1] == val):
            self.i += 1
            return True
        return False

    def expect(self, kind, val=None):
        if not self.accept(kind, val):
            raise TranslateError('expected %s %s, got %r' % (kind, val, self.peek()))

    # ---- expressions (C precedence)
    def expr(self):
        a = self.ternary()
        for op in ('=', '+=', '-='):
            if self.peek() == ('op', op):
                self.next()
                return ('assign', a, op, self.expr())
        return a

    def ternary(self):
        c = self.binary(0)
        if self.accept('op', '?'):
            a = self.expr(); self.expect('op', ':'); b = self.ternary()
            return ('cond', c, a, b)
        return c

    LEVELS = [['||'], ['&&'], ['==', '!='], ['<', '>', '<=', '>='], ['+', '-'], ['*', '/']]

    def binary(self, lvl):
        if lvl == len(self.LEVELS):
            return self.unary()
        a = self.binary(lvl + 1)
        while self.peek()[0] == 'op' and self.peek()[1] in self.LEVELS[lvl]:
            op = self.next()[1]
            a = ('bin', op, a, self.binary(lvl + 1))
        return a

    TYPES = ('int', 'void', 'yy_size_t', 'size_t', 'char', 'unsigned')

    def unary(self):
        if self.accept('op', '!'):
            return ('not', self.unary())
        if self.accept('op', '-'):
            return ('bin', '-', ('num', 0), self.unary())
        if self.accept('op', '++'):
            return ('preinc', self.unary(), 1)
        if self.accept('op', '--'):
            return ('preinc', self.unary(), -1)
        if self.peek() == ('id', 'sizeof'):
            self.next(); self.expect('op', '(')
            ty = self.next()
            while self.accept('op', '*'):
                pass
            self.expect('op', ')')
            if ty != ('id', 'int'):
                raise TranslateError('sizeof of something else than int')
            return ('num', SIZEOF_INT)
        if self.peek() == ('op', '(') and self.peek(1)[0] == 'id' and self.peek(1)[1] in self.TYPES:
            # a cast
            j = 2
            while self.peek(j) == ('op', '*'):
                j += 1
            if self.peek(j) == ('op', ')'):
                self.i += j + 1
                return self.unary()
        return self.postfix()

    def postfix(self):
        a = self.primary()
        while True:
            if self.accept('op', '['):
                i = self.expr(); self.expect('op', ']')
                a = ('index', a, i)
            elif self.accept('op', '++'):
                a = ('postinc', a, 1)
            elif self.accept('op', '--'):
                a = ('postinc', a, -1)
            else:
                return a

    def primary(self):
        x = self.next()
        if x == ('op', '('):
            e = self.expr(); self.expect('op', ')')
            return e
        if x[0] == 'num':
            return ('num', x[1])
        if x[0] == 'str':
            return ('str', x[1])
        if x[0] == 'id':
            if self.accept('op', '('):
                args = []
                if not self.accept('op', ')'):
                    while True:
                        args.append(self.expr())
                        if self.accept('op', ')'):
                            break
                        self.expect('op', ',')
                return ('call', x[1], args)
            return ('id', x[1])
        raise TranslateError('unexpected token %r' % (x,))

    # ---- statements
    def stmt(self):
        x = self.peek()
        if x == ('op', '{'):
            self.next()
            out = []
            while not self.accept('op', '}'):
                out.append(self.stmt())
            return ('block', out)
        if x == ('id', 'if'):
            self.next(); self.expect('op', '(')
            c = self.expr(); self.expect('op', ')')
            t = self.stmt()
            e = self.stmt() if self.accept('id', 'else') else None
            return ('if', c, t, e)
        if x == ('id', 'return'):
            self.next()
            e = self.expr(); self.expect('op', ';')
            return ('return', e)
        if x[0] == 'id' and x[1] in self.TYPES and self.peek(1)[0] == 'id' and self.peek(2) == ('op', ';'):
            self.i += 3                       # a declaration without initialiser
            return ('block', [])
        e = self.expr(); self.expect('op', ';')
        return ('expr', e)


class Tr:
    def __init__(self, macros, consts, msgs):
        self.macros, self.consts, self.msgs = macros, consts, msgs

    def var(self, name):
        if name not in VARS:
            raise TranslateError('variable %s is not part of the start-condition stack' % name)
        return VARS.index(name)

    def subst(self, e, env):
        if isinstance(e, tuple):
            if e[0] == 'id' and e[1] in env:
                return env[e[1]]
            return tuple(self.subst(x, env) for x in e)
        if isinstance(e, list):
            return [self.subst(x, env) for x in e]
        return e

    def ex(self, e):
        """-> (pre statements, Lean Ex, post statements)"""
        k = e[0]
        if k == 'num':
            return [], '(.lit %s)' % li(e[1]), []
        if k == 'id':
            if e[1] in self.consts:
                return [], '(.lit %s)' % li(self.consts[e[1]]), []
            return [], '(.var %d)' % self.var(e[1]), []
        if k == 'bin':
            op = e[1]
            p1, a, q1 = self.ex(e[2]); p2, b, q2 = self.ex(e[3])
            m = {'+': 'add', '-': 'sub', '*': 'mul', '/': 'div', '<': 'lt', '<=': 'le', '==': 'eq', '&&': 'and', '||': 'or'}
            if op in m:
                t = '(.%s %s %s)' % (m[op], a, b)
            elif op == '>':
                t = '(.lt %s %s)' % (b, a)
            elif op == '>=':
                t = '(.le %s %s)' % (b, a)
            elif op == '!=':
                t = '(.not (.eq %s %s))' % (a, b)
            else:
                raise TranslateError('operator ' + op)
            return p1 + p2, t, q1 + q2
        if k == 'not':
            p, a, q = self.ex(e[1])
            return p, '(.not %s)' % a, q
        if k == 'cond':
            p0, c, q0 = self.ex(e[1]); p1, a, q1 = self.ex(e[2]); p2, b, q2 = self.ex(e[3])
            if p1 or q1 or p2 or q2:
                raise TranslateError('side effect inside ?:')
            return p0, '(.cond %s %s %s)' % (c, a, b), q0
        if k == 'index':
            if e[1] != ('id', ARRAY):
                raise TranslateError('indexing something else than %s' % ARRAY)
            p, i, q = self.ex(e[2])
            return p, '(.idx %s)' % i, q
        if k == 'postinc':
            if e[1][0] != 'id':
                raise TranslateError('++ on a non-variable')
            v = self.var(e[1][1])
            return [], '(.var %d)' % v, ['(.assign %d (.add (.var %d) (.lit %s)))' % (v, v, li(e[2]))]
        if k == 'preinc':
            if e[1][0] != 'id':
                raise TranslateError('++ on a non-variable')
            v = self.var(e[1][1])
            return ['(.assign %d (.add (.var %d) (.lit %s)))' % (v, v, li(e[2]))], '(.var %d)' % v, []
        if k == 'call':
            if e[1] in self.macros:
                params, body = self.macros[e[1]]
                if len(params) != len(e[2]):
                    raise TranslateError('macro %s: wrong number of arguments' % e[1])
                return self.ex(self.subst(body, dict(zip(params, e[2]))))
            raise TranslateError('call of %s inside an expression' % e[1])
        if k == 'assign':
            st = self.assign(e)
            raise TranslateError('assignment used as a value')
        raise TranslateError('expression %r' % (e,))

    def assign(self, e):
        """an assignment expression used as a statement -> [St]"""
        lv, op, rhs = e[1], e[2], e[3]
        if rhs[0] == 'call' and rhs[1] in ('yyalloc', 'yyrealloc'):
            if lv != ('id', ARRAY) or op != '=':
                raise TranslateError('allocation assigned to something else than %s' % ARRAY)
            p, n, q = self.ex(rhs[2][-1])
            if p or q:
                raise TranslateError('side effect in an allocation size')
            return ['(.growTo (.div %s (.lit %d)))' % (n, SIZEOF_INT), '(.assign %d (.lit 1))' % self.var(ARRAY)]
        p2, r, q2 = self.ex(rhs)
        if lv[0] == 'id':
            v = self.var(lv[1])
            if op == '=':
                t = '(.assign %d %s)' % (v, r)
            else:
                t = '(.assign %d (.%s (.var %d) %s))' % (v, 'add' if op == '+=' else 'sub', v, r)
            return p2 + [t] + q2
        if lv[0] == 'index' and lv[1] == ('id', ARRAY) and op == '=':
            p1, i, q1 = self.ex(lv[2])
            return p1 + p2 + ['(.store %s %s)' % (i, r)] + q1 + q2
        raise TranslateError('assignment to %r' % (lv,))

    def st(self, s):
        k = s[0]
        if k == 'block':
            return seq([self.st(x) for x in s[1]])
        if k == 'if':
            p, c, q = self.ex(s[1])
            if q:
                raise TranslateError('post-increment in a condition')
            t = self.st(s[2]); e = self.st(s[3]) if s[3] else '.skip'
            return seq(p + ['(.ite %s %s %s)' % (c, t, e)])
        if k == 'return':
            p, e, q = self.ex(s[1])
            if q:
                raise TranslateError('post-increment in a return')
            return seq(p + ['(.ret %s)' % e])
        if k == 'expr':
            e = s[1]
            if e[0] == 'call' and e[1] in self.macros:
                params, body = self.macros[e[1]]
                return self.st(('expr', self.subst(body, dict(zip(params, e[2])))))
            if e[0] == 'call' and e[1] == 'YY_FATAL_ERROR':
                msg = eval(e[2][0][1]) if e[2] and e[2][0][0] == 'str' else '?'
                if msg not in self.msgs:
                    self.msgs.append(msg)
                return '(.fatal %d)' % self.msgs.index(msg)
            if e[0] == 'assign':
                return seq(self.assign(e))
            if e[0] in ('postinc', 'preinc'):
                p, _, q = self.ex(e)
                return seq(p + q)
            raise TranslateError('statement %r' % (e,))
        raise TranslateError('statement kind %s' % k)


def seq(parts):
    parts = [p for p in parts if p != '.skip']
    if not parts:
        return '.skip'
    t = parts[-1]
    for p in reversed(parts[:-1]):
        t = '(.seq %s %s)' % (p, t)
    return t


def li(k):
    return '(%d)' % k if k < 0 else str(k)


def body_of(text, name):
    m = re.search(r'\n\s*static (?:void|int) ' + re.escape(name) + r'\s*\([^)]*\)\s*\{', text)
    if not m:
        raise TranslateError('function %s not found in the generated scanner' % name)
    i = m.end() - 1
    depth = 0
    j = i
    while True:
        if text[j] == '{':
            depth += 1
        elif text[j] == '}':
            depth -= 1
            if depth == 0:
                break
        j += 1
    return text[i:j + 1]


PROBE = '%option stack noyywrap\n%x A\n%%\na yy_push_state(A);\n<A>b yy_pop_state(); (void) yy_top_state();\n%%\n'


def generate(flex, workdir):
    lf = os.path.join(workdir, 'startstack_probe.l')
    cf = os.path.join(workdir, 'startstack_probe.c')
    open(lf, 'w').write(PROBE)
    p = subprocess.run([flex, '-L', '-o', cf, lf], stdout=subprocess.PIPE, stderr=subprocess.PIPE, text=True)
    if p.returncode != 0:
        raise TranslateError('flex failed on the probe: ' + p.stderr[-200:])
    text = open(cf, errors='replace').read()
    macros, consts = {}, {}
    for name in ('yybegin', 'yystart'):
        m = re.search(r'^#define ' + name + r'\(([^)]*)\)\s+(.*)$', text, re.M)
        if not m:
            raise TranslateError('macro %s not found' % name)
        params = [x.strip() for x in m.group(1).split(',') if x.strip()]
        macros[name] = (params, P(tokenize(m.group(2))).expr())
    m = re.search(r'^#define YY_START_STACK_INCR\s+(\d+)', text, re.M)
    if not m:
        raise TranslateError('YY_START_STACK_INCR not found')
    consts['YY_START_STACK_INCR'] = int(m.group(1))
    msgs = []
    tr = Tr(macros, consts, msgs)
    progs = {}
    for fn in ('yy_push_state', 'yy_pop_state', 'yy_top_state'):
        progs[fn] = tr.st(P(tokenize(body_of(text, fn))).stmt())
    # the first-call initialisation in yylex: if ( ! (yy_start) ) { (yy_start) = 1; }
    m = re.search(r'if \( ! \(yy_start\) \) \{\s*\(yy_start\) = (\d+);', text)
    if not m:
        raise TranslateError('initialisation of yy_start in yylex not found')
    progs['lex_init'] = tr.st(P(tokenize('if ( ! (yy_start) ) { (yy_start) = %s; }' % m.group(1))).stmt())
    progs['yybegin'] = tr.st(('expr', ('call', 'yybegin', [('id', '_new_state')])))
    pe, ye, qe = tr.ex(('call', 'yystart', []))
    q = lambda s: '"' + s.replace('\\', '\\\\').replace('"', '\\"') + '"'
    L = ['-- GENERATED by tools/fv/gen_startstack.py from a scanner flex (built from /repo\'s current tree) has just generated.',
         '-- Do not edit.',
         'import FlexVerif.Imp.Lang',
         'namespace FlexVerif.Gen.StartStack',
         'open FlexVerif.Imp',
         '/-- variables: ' + ', '.join('%d = %s' % (i, n) for i, n in enumerate(VARS)) + ' (yy_start_stack: 0 = NULL) -/',
         'def vStart : Nat := 0', 'def vPtr : Nat := 1', 'def vDepth : Nat := 2', 'def vStack : Nat := 3', 'def vNewSize : Nat := 4', 'def vArg : Nat := 5',
         'def msgs : List String := [%s]' % ', '.join(q(m) for m in msgs),
         'def stackIncr : Int := %d' % consts['YY_START_STACK_INCR'],
         '/-- yy_push_state(_new_state) -/', 'def push : St :=\n  ' + progs['yy_push_state'],
         '/-- yy_pop_state() -/', 'def pop : St :=\n  ' + progs['yy_pop_state'],
         '/-- yy_top_state() -/', 'def top : St :=\n  ' + progs['yy_top_state'],
         '/-- yybegin(_new_state) -/', 'def begin_ : St :=\n  ' + progs['yybegin'],
         '/-- yystart() -/', 'def startEx : Ex :=\n  ' + ye,
         '/-- yylex(), first call: yy_start gets its initial value -/', 'def lexInit : St :=\n  ' + progs['lex_init'],
         'end FlexVerif.Gen.StartStack']
    for f in (lf, cf):
        try:
            os.unlink(f)
        except OSError:
            pass
    return '\n'.join(L) + '\n', {'messages': msgs, 'incr': consts['YY_START_STACK_INCR']}


PROBE_C99 = ('%option emit="c99" stack noyywrap\n%x A\n%%\na yy_push_state(A, yyscanner);\n'
             '<A>b yy_pop_state(yyscanner); (void) yy_top_state(yyscanner);\n%%\n')


def normalise_c99(text):
    """the c99 skeleton keeps the scanner state in *yyscanner and passes it around: drop that parameter and
    the `yyscanner->` prefix, spell yypanic as YY_FATAL_ERROR — what is left has the shape of the default skeleton"""
    text = re.sub(r'\byyscanner\s*->\s*', '', text)
    text = re.sub(r',\s*yyscanner\s*\)', ')', text)
    text = re.sub(r'\(\s*yyscanner\s*\)', '()', text)
    text = re.sub(r'\byypanic\s*\(', 'YY_FATAL_ERROR(', text)
    return text


def function_as_macro(text, name):
    """a one-statement function `T name(params) { [return] e; }` as a macro (params, expression)"""
    m = re.search(r'\n[^\n;{}()]*\b' + re.escape(name) + r'\s*\(([^)]*)\)\s*\{([^{}]*)\}', text)
    if not m:
        raise TranslateError('function %s not found' % name)
    params = []
    for prm in m.group(1).split(','):
        w = prm.strip().split()
        if w and w[-1] not in ('void', 'yyscanner') and not prm.strip().startswith('yyscan_t'):
            params.append(w[-1].lstrip('*'))
    body = m.group(2).strip()
    body = re.sub(r'^return\b', '', body).strip().rstrip(';')
    return params, P(tokenize(body)).expr()


def generate_c99(flex, workdir):
    lf = os.path.join(workdir, 'startstack_probe99.l')
    cf = os.path.join(workdir, 'startstack_probe99.c')
    open(lf, 'w').write(PROBE_C99)
    p = subprocess.run([flex, '-L', '-o', cf, lf], stdout=subprocess.PIPE, stderr=subprocess.PIPE, text=True)
    if p.returncode != 0:
        raise TranslateError('flex failed on the c99 probe: ' + p.stderr[-200:])
    text = normalise_c99(open(cf, errors='replace').read())
    macros = {'yybegin': function_as_macro(text, 'yybegin'), 'yystart': function_as_macro(text, 'yystart')}
    consts = {}
    m = re.search(r'^#define YY_START_STACK_INCR\s+(\d+)', text, re.M) or re.search(r'YY_START_STACK_INCR\s*=\s*(\d+)', text)
    if not m:
        raise TranslateError('YY_START_STACK_INCR not found (c99)')
    consts['YY_START_STACK_INCR'] = int(m.group(1))
    consts['NULL'] = 0
    msgs = []
    tr = Tr(macros, consts, msgs)
    progs = {}
    for fn in ('yy_push_state', 'yy_pop_state', 'yy_top_state'):
        progs[fn] = tr.st(P(tokenize(body_of(text, fn))).stmt())
    m = re.search(r'if \( *yy_start *== *0 *\) *\{\s*yy_start = (\d+);', text) or re.search(r'if \( ! \(?yy_start\)? \) \{\s*\(?yy_start\)? = (\d+);', text)
    if not m:
        raise TranslateError('initialisation of yy_start in yylex not found (c99)')
    progs['lex_init'] = tr.st(P(tokenize('if ( ! (yy_start) ) { (yy_start) = %s; }' % m.group(1))).stmt())
    progs['yybegin'] = tr.st(('expr', ('call', 'yybegin', [('id', '_new_state')])))
    pe, ye, qe = tr.ex(('call', 'yystart', []))
    q = lambda s: '"' + s.replace('\\', '\\\\').replace('"', '\\"') + '"'
    L = ['-- GENERATED by tools/fv/gen_startstack.py from a c99 scanner (%option emit="c99") flex has just generated.  Do not edit.',
         'import FlexVerif.Imp.Lang',
         'namespace FlexVerif.Gen.StartStackC99',
         'open FlexVerif.Imp',
         'def msgs : List String := [%s]' % ', '.join(q(m) for m in msgs),
         'def push : St :=\n  ' + progs['yy_push_state'],
         'def pop : St :=\n  ' + progs['yy_pop_state'],
         'def top : St :=\n  ' + progs['yy_top_state'],
         'def begin_ : St :=\n  ' + progs['yybegin'],
         'def startEx : Ex :=\n  ' + ye,
         'def lexInit : St :=\n  ' + progs['lex_init'],
         'end FlexVerif.Gen.StartStackC99']
    for f in (lf, cf):
        try:
            os.unlink(f)
        except OSError:
            pass
    return '\n'.join(L) + '\n', {'messages': msgs}


if __name__ == '__main__':
    import sys
    t, info = generate(sys.argv[1], sys.argv[2])
    sys.stdout.write(t)

"""C01 — longest match / first rule / pattern language: verified validator on generated rule sets."""
import os, sys, json, random, time
from multiprocessing import Pool
from . import common, rules, flexrun, tv, patgen, rtprop

THEOREMS = [
    'FlexVerif.Re.pderiv_correct', 'FlexVerif.Re.nullable_iff', 'FlexVerif.Re.rep_matches',
    'FlexVerif.Re.plus_matches', 'FlexVerif.Re.opt_matches',
    'FlexVerif.RuleSet.specAuto_tags', 'FlexVerif.RuleSet.specAuto_first',
    'FlexVerif.closed_sound', 'FlexVerif.validate_sound', 'FlexVerif.validate_first_rule',
    'FlexVerif.specCands_selects', 'FlexVerif.specCands_nil', 'FlexVerif.specCands_ne_nil',
    'FlexVerif.tableCands_selects', 'FlexVerif.absTok_eq_tableCands_head', 'FlexVerif.bufToken_selects',
]


# the code that walks the tables, translated from a generated scanner (compressed tables, -Cem), does what the decoders do
STEP_THEOREMS = ['FlexVerif.C01Step.' + t for t in ('tab_eval', 'comp_code', 'compStep_st_ne_jam', 'step_code', 'saveAcc_run', 'nulTrans_shape',
                                                  'prevState_shape', 'nulTrans_spec', 'cellStep_eq_stepByte', 'forBody_run', 'for_loop',
                                                  'prevState_spec')]
THEOREMS += STEP_THEOREMS
GEN_THEOREMS = ['FlexVerif.C01StepGen.' + t for t in ('comp_code', 'step_code', 'nulTrans_spec', 'cellStep_eq_stepByte', 'forBody_run', 'for_loop',
                                                   'prevState_spec', 'bodyNM_ok', 'bodyM_ok', 'classE_ok', 'classNE_ok', 'shape_Cem', 'shape_Ce',
                                                   'shape_Cm', 'shape_C', 'prevState_all', 'nulTrans_all')]
THEOREMS += GEN_THEOREMS
THEOREMS += ['FlexVerif.C01StepBuf.walk_prevFrom', 'FlexVerif.C01StepBuf.nulTrans_tableDFA']
THEOREMS += ['FlexVerif.C01StepC99.' + t for t in ('prevState_same', 'nulTrans_same', 'prevState_spec_c99', 'nulTrans_spec_c99')]


def regen_prevstate():
    """translate yy_get_previous_state() / yy_try_NUL_trans() of a scanner flex generates now into lean/FlexVerif/Gen/PrevState.lean"""
    import fcntl
    from . import gen_prevstate
    flex, src = flexrun.build_flex()
    try:
        body, info = gen_prevstate.generate(flex, flexrun.scratch_root())
        body99, info99 = gen_prevstate.generate_c99(flex, flexrun.scratch_root())
        variants = [(ns, gen_prevstate.generate_variant(flex, flexrun.scratch_root(), opt, ns)[0]) for opt, ns in gen_prevstate.VARIANTS]
    except gen_prevstate.TranslateError as e:
        return None, str(e)
    files = [(os.path.join(common.LEAN_DIR, 'FlexVerif', 'Gen', 'PrevState.lean'), body),
             (os.path.join(common.LEAN_DIR, 'FlexVerif', 'Gen', 'PrevStateC99.lean'), body99)] + \
        [(os.path.join(common.LEAN_DIR, 'FlexVerif', 'Gen', ns + '.lean'), text) for ns, text in variants]
    lock = open(os.path.join(common.LEAN_DIR, '.build.lock'), 'w')
    fcntl.flock(lock, fcntl.LOCK_EX)
    try:
        for path, text in files:
            old = open(path).read() if os.path.exists(path) else ''
            if old != text:
                open(path, 'w').write(text)
    finally:
        fcntl.flock(lock, fcntl.LOCK_UN)
        lock.close()
    return info, None


def _work(job):
    (flex, workdir, idx, seed, kind, budget, dtimeout) = job
    rng = random.Random(seed)
    if kind == 'small':
        rs = rules.gen_ruleset(rng)
    elif kind == 'deep':
        rs = rules.gen_ruleset(rng, nrules=rng.choice([2, 3, 4]), depth=rng.choice([4, 5]), maxrep=6)
    elif kind == 'many':
        rs = rules.gen_ruleset(rng, nrules=rng.choice([15, 25, 40]), depth=rng.choice([1, 2]))
    elif kind == 'seven':
        rs = rules.gen_ruleset(rng, csize=128)
    elif kind == 'nultail':
        rs = rules.gen_nultail_ruleset(rng)
    else:
        rs = rules.gen_ruleset(rng)
    topt = rng.choice(tv.TABLE_OPTS) if kind != 'default' else []
    if kind == 'nultail' and rng.random() < 0.7:
        topt = rng.choice([['-Cfe'], ['-Cfe'], ['-CFe'], ['-Cfae']])
    r = tv.validate_one(flex, workdir, 'c01_%d' % idx, rs, topt, seed ^ 0x5a5a, budget=budget,
                        driver_timeout=dtimeout)
    r['features'] = tv.features(rs)
    if r.get('crlf'):
        r['features']['crlf_rule_file'] = 1
    if r.get('x_groups'):
        r['features']['x_flag_groups_printed'] = r['x_groups']
    r['kind'] = kind
    r['seed'] = seed
    return r


def run(ctx):
    flex, src = flexrun.build_flex()
    work = flexrun.scratch_root()
    info, err = regen_prevstate()
    if err:
        ctx.violation('translator of yy_get_previous_state() / yy_try_NUL_trans() gave up: ' + err, {'error': err}, no_input=True)
    discharged = common.proof_audit(ctx, THEOREMS)
    n = {'quick': 160, 'thorough': 3000}[ctx.tier]
    rng = ctx.rng('cases')
    kinds = ['small'] * 6 + ['deep'] * 2 + ['many'] + ['seven'] + ['nultail']
    budget, dtimeout = {'quick': (1200, 20), 'thorough': (30000, 400)}[ctx.tier]
    jobs = [(flex, work, i, rng.getrandbits(48), kinds[i % len(kinds)], budget, dtimeout) for i in range(n)]
    t0 = time.time()
    with Pool(16) as pool:
        results = pool.map(_work, jobs, chunksize=1)
    stats = {}
    feat = {}
    samples = []
    pairs = 0
    for r in results:
        stats[r['status']] = stats.get(r['status'], 0) + 1
        for k, v in r.get('features', {}).items():
            feat[k] = feat.get(k, 0) + v
        if r['status'] == 'ok':
            pairs += int(r.get('pairs', 0))
            if len(samples) < 3:
                samples.append({'lex': r['lex'], 'opts': r['opts'], 'verdict': r['verdict']})
        elif r['status'] == 'cex':
            ctx.violation('emitted automaton differs from the specification on input %s: %s' % (
                r.get('word'), r['verdict']),
                {'lex': r['lex'], 'opts': r['opts'], 'word_hex': r.get('word'), 'verdict': r['verdict'],
                 'seed': r['seed'], 'kind': r['kind']})
        elif r['status'] == 'flexfail':
            lines = [l for l in (r.get('flex_stderr') or '').strip().split('\n') if l.strip() and 'warning' not in l]
            msg = lines[-1] if lines else ''
            if not any(k in msg for k in rtprop.EXPECTED_REFUSALS):
                ctx.violation('flex refused a rule set the specification accepts: %s' % msg[-200:],
                              {'lex': r['lex'], 'opts': r['opts'], 'flex_stderr': r.get('flex_stderr'), 'seed': r['seed'], 'kind': r['kind']})
        elif r['status'] in ('error', 'notclosed'):
            ctx.violation('validator could not decide: %s' % (r.get('detail') or r.get('verdict')),
                          {'lex': r['lex'], 'opts': r['opts']}, no_input=True)
    for b in getattr(ctx, 'proof_broken', []):
        ctx.violation('proof obligation broken: ' + b, {'broken': b}, no_input=True)
    if any('C01Step' in b or 'PrevState' in b for b in getattr(ctx, 'proof_broken', [])):
        # the code that walks the tables no longer does what the decoders do: the tables themselves may be fine, so the
        # validator above cannot show an input - run generated scanners against the specification to find one
        rtprop.explore(ctx, [('plain', 64, 8), ('eof', 32, 6)])
    validated = stats.get('ok', 0)
    cov = {
        'programs': validated,
        'disagreements_checked': validated + stats.get('cex', 0),
        'samples': samples or [{'note': 'no accepted case'}],
        'obligations': len(THEOREMS), 'discharged': discharged,
        'checker_cmd': 'lake build FlexVerif fvdriver && #print axioms (tools/fv/common.py)',
        'trusted_base': common.TRUSTED_BASE,
        'status_counts': stats, 'feature_counts': feat, 'product_pairs_checked': pairs,
        'unexplored_exhausted': stats.get('exhausted', 0),
        'explanation': 'each program: flex run on a generated rule set, emitted tables decoded and '
                       'proved-sound bisimulation check against the derivative automaton of the documented '
                       'pattern semantics, from all 2*nsc start states, all byte strings; the state-walking code itself (yy_get_previous_state, '
                       'yy_try_NUL_trans with the default-chain loop over yy_base/yy_chk/yy_def/yy_nxt/yy_meta) is translated from a scanner '
                       'generated in this run with -Cem and proved to compute the decoders\' step, every table read inside its bounds '
                       '(C01Step.nulTrans_spec, prevState_spec)',
    }
    return common.finish(ctx, 'translation_validation', cov,
                         ['rule files are printed from abstract syntax by tools/fv/patgen.py; the Lean side '
                          'gives the abstract syntax its documented meaning (Spec/Pat.lean)'])

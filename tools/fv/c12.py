"""C12 — scanner instances are isolated from each other and safe to run in parallel."""
import os, random, re, subprocess, shutil
from multiprocessing import Pool
from . import common, flexrun, rules, rtgen

THEOREMS = ['FlexVerif.interleave_independent', 'FlexVerif.no_mutable_globals', 'FlexVerif.prefixes_disjoint']
HARNESS = os.path.join(common.VERIF, 'harness')


def build(flex, src, work, name, rs, seed, extra_opts=(), sanitize='address,undefined', topt=('-Cem',), backend='r'):
    be_opts = {'r': ['reentrant'], 'c99': ['emit="c99"'], 'cxx': ['c++']}[backend]
    if backend == 'cxx':
        extra_opts = [o for o in extra_opts if o != 'array']
    lex = rs.to_lex(random.Random(seed), action=lambda i: 'return %d;' % i,
                    epilogue='#include "fvmulti_cxx.cc"\n' if backend == 'cxx' else '#include "fvmulti.c"\n',
                    extra_options=be_opts + ['noyywrap'] + list(extra_opts))
    # the default rule's ECHO would write the unmatched bytes to stdout
    tables = [o for o in extra_opts if o.startswith('tables-file=')]
    if backend == 'r':
        lex = '%top{\n#define yyecho() do {} while (0)\n' + ('#define FVM_TABLES %s\n' % tables[0].split('=', 1)[1] if tables else '') + '}\n' + lex
    elif backend == 'c99':
        lex = '%top{\n#define FVM_C99 1\n}\n' + lex
    lf = os.path.join(work, name + '.l'); cf = os.path.join(work, name + ('.cc' if backend == 'cxx' else '.c')); exe = os.path.join(work, name + '.exe')
    open(lf, 'w', encoding='latin1').write(lex)
    rc, so, se = flexrun.run_flex(flex, lf, cf, list(topt) + ['-8' if rs.csize == 256 else '-7'], timeout=10)
    if rc != 0:
        return None, lex, se
    cmd = ['g++' if backend == 'cxx' else 'gcc', '-w', '-O1', '-g', '-fsanitize=' + sanitize, '-fno-sanitize-recover=all', '-I', HARNESS, '-I', src, cf, '-o', exe, '-lpthread']
    p = subprocess.run(cmd, stdout=subprocess.PIPE, stderr=subprocess.STDOUT, text=True)
    if p.returncode != 0:
        return None, lex, p.stdout
    return exe, lex, ''


def run_multi(exe, mode, inputs, sched, work, tag):
    fn = os.path.join(work, tag + '.in')
    with open(fn, 'w') as f:
        f.write('%d\n' % len(inputs))
        for i in inputs:
            f.write((bytes(i).hex() or '-') + '\n')
        f.write(' '.join(map(str, sched)) + '\n')
    env = dict(os.environ, ASAN_OPTIONS='detect_leaks=0:exitcode=66', TSAN_OPTIONS='exitcode=68:halt_on_error=1', UBSAN_OPTIONS='halt_on_error=1:exitcode=67')
    try:
        p = subprocess.run([exe, mode, fn], stdout=subprocess.PIPE, stderr=subprocess.PIPE, timeout=60, env=env)
    except subprocess.TimeoutExpired:
        return -999, [], 'timeout'
    os.unlink(fn)
    return p.returncode, p.stdout.decode('latin1').split('\n'), p.stderr.decode('latin1')[-1500:]


def per_instance(lines, k):
    out = [[] for _ in range(k)]
    for l in lines:
        w = l.split(' ')
        if len(w) == 3:
            out[int(w[0])].append((w[1], w[2]))
    return out


def _job(job):
    (flex, src, work, idx, seed) = job
    rng = random.Random(seed)
    rs = rules.gen_ruleset(rng, p_trail=0.1, p_bol=0.3)
    topt = rng.choice([['-Cem'], ['-Cf'], ['-CF'], ['-C'], ['-Ce']])
    opts = rng.choice([[], ['yylineno'], ['array'], ['stack']])
    backend = rng.choice(['r', 'r', 'c99', 'cxx'])
    if backend == 'r' and rng.random() < 0.4:
        # serialized tables: loaded once into file-scope pointers all instances share, freed once at the very end -
        # an instance that ends (and is destroyed) must not take them away from the others
        opts = opts + ['tables-file="%s"' % os.path.join(work, 'c12_%d.tables' % idx)]
    res = {'idx': idx, 'problems': [], 'runs': 0, 'topt': topt, 'opts': opts, 'backend': backend}
    exe, lex, err = build(flex, src, work, 'c12_%d' % idx, rs, seed, opts, topt=topt, backend=backend)
    res['lex'] = lex
    if not exe:
        res['status'] = 'nobuild'
        res['detail'] = err[-300:]
        return res
    texe, _, terr = build(flex, src, work, 'c12t_%d' % idx, rs, seed, opts, sanitize='thread', topt=topt, backend=backend)
    k = rng.randrange(2, 7)
    inputs = [rtgen.gen_input(rng, rs, maxlen=40) for _ in range(k)]
    # solo reference traces
    solo = []
    for i in range(k):
        rc, out, se = run_multi(exe, 'interleave', [inputs[i]], [], work, 'c12_%d_s' % idx)
        res['runs'] += 1
        solo.append(per_instance(out, 1)[0])
        if rc != 0:
            res['problems'].append('solo run failed rc=%s %s' % (rc, se[-200:]))
    for trial in range(3):
        sched = [rng.randrange(k) for _ in range(rng.randrange(10, 120))]
        rc, out, se = run_multi(exe, 'interleave', inputs, sched, work, 'c12_%d_i' % idx)
        res['runs'] += 1
        got = per_instance(out, k)
        if rc != 0:
            res['problems'].append('interleaved run crashed (rc=%s): %s' % (rc, se[-300:]))
        else:
            for i in range(k):
                if got[i] != solo[i]:
                    j = next((x for x in range(min(len(got[i]), len(solo[i]))) if got[i][x] != solo[i][x]), min(len(got[i]), len(solo[i])))
                    res['problems'].append('instance %d of %d, interleaved on one thread, yields token %d = %s instead of %s (schedule %s...)' % (
                        i, k, j, got[i][j] if j < len(got[i]) else None, solo[i][j] if j < len(solo[i]) else None, sched[:20]))
                    break
    if texe:
        for trial in range(2):
            rc, out, se = run_multi(texe, 'threads', inputs, [], work, 'c12_%d_t' % idx)
            res['runs'] += 1
            got = per_instance(out, k)
            if rc != 0:
                res['problems'].append('threaded run: ThreadSanitizer report or crash (rc=%s): %s' % (rc, se[-600:]))
            else:
                for i in range(k):
                    if got[i] != solo[i]:
                        res['problems'].append('instance %d run on its own thread yields a different token stream than alone' % i)
                        break
    res['status'] = 'ok'
    for f in ('c12_%d' % idx, 'c12t_%d' % idx):
        for ext in ('.l', '.c', '.cc', '.exe', '.tables'):
            try:
                os.unlink(os.path.join(work, f + ext))
            except OSError:
                pass
    return res


def regen_footprint(flex, src, work):
    """compile reentrant scanners, list writable file-scope objects; two prefixes: common externals"""
    facts = []
    spec = '%%option reentrant noyywrap%s\n%%%%\na+ return 1;\n.|\\n ;\n%%%%\n'
    objs = {}
    for name, extra, fopts in [('reentrant', '', []), ('reentrant-array-stack-lineno', ' array stack yylineno yymore reject', []),
                               ('reentrant-full', '', ['-Cf']), ('reentrant-fast', '', ['-CF']),
                               ('reentrant-bison', ' bison-bridge', []),
                               ('c99', ' emit="c99"', []), ('c99-array-stack-lineno', ' emit="c99" array stack yylineno yymore reject', []),
                               ('c99-full', ' emit="c99"', ['-Cf'])]:
        lf = os.path.join(work, 'fp_%s.l' % name)
        pro = '%{\ntypedef int YYSTYPE;\n%}\n' if 'bison' in name else ''
        open(lf, 'w').write(pro + (spec % extra).replace('reentrant noyywrap emit=', 'noyywrap emit='))
        cf = lf[:-2] + '.c'
        rc, so, se = flexrun.run_flex(flex, lf, cf, fopts)
        if rc != 0:
            facts.append((name, ['<flex failed>']))
            continue
        p = subprocess.run(['gcc', '-w', '-c', '-I', src, cf, '-o', cf + '.o'], stdout=subprocess.PIPE, stderr=subprocess.STDOUT, text=True)
        if p.returncode != 0:
            facts.append((name, ['<does not compile>']))
            continue
        # objects in writable sections (.data, .bss, common); .data.rel.ro holds relocated *read-only* data
        od = subprocess.run(['objdump', '-t', cf + '.o'], stdout=subprocess.PIPE, text=True).stdout
        muts = set()
        for l in od.split('\n'):
            w = l.split()
            if len(w) >= 5 and ' O ' in l:
                sec, sym = w[-3], w[-1]
                if sec in ('.data', '.bss', '*COM*', '.tbss', '.tdata') or (sec.startswith('.data.') and not sec.startswith('.data.rel.ro')) or sec.startswith('.bss.'):
                    muts.add(sym)
        # an object in a writable section that the code never assigns to (nor takes the address of) is not state
        ctext = open(cf, errors='replace').read()
        written = set()
        for osym in muts:
            sym = re.sub(r'\.\d+$', '', osym)        # function-scope statics are emitted as name.N
            decl = re.search(r'^[^\n;]*\b%s\s*\[[^\n]*=\s*\{' % re.escape(sym), ctext, re.M)
            body = ctext.replace(decl.group(0), '') if decl else ctext
            if re.search(r'(?<![\w.>])%s\s*(\[[^\]]*\]\s*)*(=(?!=)|\+\+|--|[-+*/|&^]=)' % re.escape(sym), body) or \
               re.search(r'&\s*%s\b(?!\s*\[)' % re.escape(sym), body):
                written.add(sym)
        facts.append((name, sorted(written)))
        ctx_unwritten = sorted(muts - written)
    clashes = []
    ext = {}
    for pref in ('aa', 'bb'):
        lf = os.path.join(work, 'fp_p%s.l' % pref)
        open(lf, 'w').write('%%option noyywrap prefix="%s"\n%%%%\na+ return 1;\n.|\\n ;\n%%%%\n' % pref)
        cf = lf[:-2] + '.c'
        rc, so, se = flexrun.run_flex(flex, lf, cf, [])
        pc = subprocess.run(['gcc', '-w', '-c', '-I', src, cf, '-o', cf + '.o'], stdout=subprocess.PIPE, stderr=subprocess.STDOUT, text=True)
        if rc != 0 or pc.returncode != 0:
            clashes.append('<scanner with prefix %s does not build>' % pref)
        nm = subprocess.run(['nm', cf + '.o'], stdout=subprocess.PIPE, text=True).stdout
        ext[pref] = {l.split()[-1] for l in nm.split('\n') if len(l.split()) >= 2 and l.split()[-2] in 'TDBRCG'}
        objs[pref] = cf + '.o'
    clashes += sorted(ext['aa'] & ext['bb'])
    # non-reentrant scanners with more of their optional state (%array: yytext / yytext_ptr; REJECT: the
    # state buffer; stack; yylineno; yymore)
    for optset in (['array'], ['array', 'yylineno', 'stack', 'reject', 'yymore'], ['yylineno', 'stack', 'reject', 'yymore', 'debug']):
        e2 = {}
        for pref in ('ee', 'ff'):
            lf = os.path.join(work, 'fp_p%s.l' % pref)
            open(lf, 'w').write('%%option noyywrap prefix="%s" %s\n%%%%\na+ return 1;\n.|\\n ;\n%%%%\n' % (pref, ' '.join(optset)))
            cf = lf[:-2] + '.c'
            rc, so, se = flexrun.run_flex(flex, lf, cf, [])
            pc = subprocess.run(['gcc', '-w', '-c', '-I', src, cf, '-o', cf + '.o'], stdout=subprocess.PIPE, stderr=subprocess.STDOUT, text=True)
            if rc != 0 or pc.returncode != 0:
                clashes.append('%s:<scanner with prefix %s does not build>' % ('+'.join(optset), pref))
                e2[pref] = set()
                continue
            nm = subprocess.run(['nm', cf + '.o'], stdout=subprocess.PIPE, text=True).stdout
            e2[pref] = {l.split()[-1] for l in nm.split('\n') if len(l.split()) >= 2 and l.split()[-2] in 'TDBRCG'}
        clashes += ['%s:%s' % ('+'.join(optset), x) for x in sorted(e2['ee'] & e2['ff'])]
    # the same for two c99 scanners
    for pref in ('cc', 'dd'):
        lf = os.path.join(work, 'fp_p%s.l' % pref)
        open(lf, 'w').write('%%option noyywrap emit="c99" prefix="%s"\n%%%%\na+ return 1;\n.|\\n ;\n%%%%\n' % pref)
        cf = lf[:-2] + '.c'
        rc, so, se = flexrun.run_flex(flex, lf, cf, [])
        pc = subprocess.run(['gcc', '-w', '-c', '-I', src, cf, '-o', cf + '.o'], stdout=subprocess.PIPE, stderr=subprocess.STDOUT, text=True)
        if rc != 0 or pc.returncode != 0:
            clashes.append('c99:<scanner with prefix %s does not build>' % pref)
            ext[pref] = set()
            continue
        nm = subprocess.run(['nm', cf + '.o'], stdout=subprocess.PIPE, text=True).stdout
        ext[pref] = {l.split()[-1] for l in nm.split('\n') if len(l.split()) >= 2 and l.split()[-2] in 'TDBRCG'}
    clashes += ['c99:' + x for x in sorted(ext['cc'] & ext['dd'])]
    # and they must link into one program
    mainc = os.path.join(work, 'fp_main.c')
    open(mainc, 'w').write('int aalex(void); int bblex(void); int main(void) { return 0 * (aalex() + bblex()); }\n')
    p = subprocess.run(['gcc', '-w', mainc, objs['aa'], objs['bb'], '-o', os.path.join(work, 'fp_two')], stdout=subprocess.PIPE, stderr=subprocess.STDOUT, text=True)
    linked = p.returncode == 0
    q = lambda s: '"' + s + '"'
    body = ('-- GENERATED by tools/fv/c12.py from scanners generated with /repo\'s current tree.\n'
            'namespace FlexVerif.Gen\n'
            '/-- per configuration: writable file-scope objects (data/bss symbols) of the compiled scanner -/\n'
            'def mutableGlobals : List (String × List String) := [%s]\n'
            '/-- per pair of prefixes: externally visible symbols defined by both objects -/\n'
            'def prefixClashes : List String := [%s]\n'
            'end FlexVerif.Gen\n') % (', '.join('(%s, [%s])' % (q(n), ', '.join(q(x) for x in m)) for n, m in facts), ', '.join(q(c) for c in clashes))
    path = os.path.join(common.LEAN_DIR, 'FlexVerif', 'Gen', 'Footprint.lean')
    import fcntl
    lock = open(os.path.join(common.LEAN_DIR, '.build.lock'), 'w')
    fcntl.flock(lock, fcntl.LOCK_EX)
    try:
        old = open(path).read() if os.path.exists(path) else ''
        if old != body:
            open(path, 'w').write(body)
    finally:
        fcntl.flock(lock, fcntl.LOCK_UN)
        lock.close()
    return facts, clashes, linked, p.stdout[-300:]


def run(ctx):
    flex, src = flexrun.build_flex()
    work = flexrun.scratch_root()
    facts, clashes, linked, linkout = regen_footprint(flex, src, work)
    discharged = common.proof_audit(ctx, THEOREMS)
    broken = getattr(ctx, 'proof_broken', [])
    n = {'quick': 32, 'thorough': 400}[ctx.tier]
    rng = ctx.rng('c12')
    with Pool(16) as pool:
        results = pool.map(_job, [(flex, src, work, i, rng.getrandbits(48)) for i in range(n)], chunksize=1)
    nprob = 0
    runs = 0
    st = {}
    samples = []
    for r in results:
        st[r.get('status')] = st.get(r.get('status'), 0) + 1
        runs += r['runs']
        if r.get('status') == 'ok' and len(samples) < 2:
            samples.append({'lex': r['lex'][:300], 'table_opts': r['topt'], 'options': r['opts']})
        for p in r['problems']:
            nprob += 1
            if nprob <= 8:
                ctx.violation(p, {'lex': r['lex'], 'topt': r['topt'], 'opts': r['opts']})
    # scanners with different prefixes sharing one file of serialized tables (each finds its own set by name):
    # the loader of one must not depend on what the sets of the others look like
    from . import c15
    nshared = {'quick': 6, 'thorough': 60}[ctx.tier]
    with Pool(16) as pool:
        shared = pool.map(c15._loader_job, [(flex, src, work, 900 + i, rng.getrandbits(48), 0) for i in range(nshared)], chunksize=1)
    shared_runs = sum(r['runs'] for r in shared)
    for r in shared:
        for p in r['problems']:
            if 'concatenation' in p:
                nprob += 1
                if nprob <= 8:
                    ctx.violation('scanners with prefixes aa/bb/cc sharing one tables file: ' + p, {'job': r['idx']})
    if not linked:
        nprob += 1
        ctx.violation('two scanners with different prefixes cannot be linked into one program: ' + linkout, {'output': linkout})
    for b in broken:
        ctx.violation('proof obligation broken: %s (writable globals: %s; common externals of two prefixes: %s)' % (
            b, [f for f in facts if f[1]], clashes), {'broken': b, 'facts': facts, 'clashes': clashes}, no_input=(nprob == 0 and not clashes and not [f for f in facts if f[1]]))
    cov = {
        'explanation': 'kernel-checked: any interleaving of steps of machines with disjoint state gives each its solo result '
                       '(interleave_independent); decided on facts regenerated by nm from scanners generated in this run: a '
                       'reentrant or c99 scanner has no writable file-scope object in 8 configurations, two prefixes share no external '
                       'symbol (default skeleton: and link; c99: symbol sets); correspondence: 2-6 instances of generated reentrant C '
                       'scanners, c99 scanners and C++ lexer objects (the back end is drawn per scanner) stepped under random '
                       'schedules on one thread (ASan+UBSan) and run on separate threads under ThreadSanitizer must yield their '
                       'solo token streams; three scanners with different prefixes load their tables from one concatenated file in every order. Data races under the C memory model outside the explored executions are not excluded; '
                       'a C++ scanner with -CF is refused by flex (status nobuild).',
        'evaluations': runs + shared_runs, 'distinct_nontrivial': st.get('ok', 0) * 5, 'shared_tables_file_runs': shared_runs,
        'obligations': len(THEOREMS), 'discharged': discharged, 'status_counts': st,
        'footprint_facts': facts, 'prefix_clashes': clashes, 'samples': samples or [{'note': 'none'}],
    }
    return common.finish(ctx, 'other', cov)

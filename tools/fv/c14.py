"""C14 — allocation and read failures: fault enumeration on the real generated scanner.

For each scenario (scanner + case) the fault-free run gives the number of allocation requests N
and of read calls R.  Then every single allocation k < N is failed in turn, and every read call
r < R is made to fail (EIO) or to be interrupted (EINTR) in turn."""
import os, random
from multiprocessing import Pool
from . import common, flexrun, rules, rt, rtgen, rtcheck

THEOREMS = ['FlexVerif.doWrap_start']


def _trace_core(out):
    return [l for l in out if l and not l.startswith('stats')]


def _scenario(job):
    (flex, src, work, idx, seed, fam, cap) = job
    rng = random.Random(seed)
    rs, cfg, casegen = rtcheck.FAMILIES[fam](rng)
    if cfg.backend == 'cxx':
        cfg.backend = 'nr'     # the faults are injected through the C API's input and allocation hooks
    cfg.stdio = True
    cfg.yylmax = None      # known finding F28 makes "token too large" depend on where reads end (EINTR moves them)
    cfg.ledger = True
    cfg.sanitize = True
    name = 'c14_%d' % idx
    b = rt.build_scanner(flex, src, work, name, rs, cfg, lex_seed=seed ^ 0x33)
    res = {'idx': idx, 'fam': fam, 'cfg': cfg.key(), 'build': b['status'], 'lex': b['lex'], 'runs': 0,
           'faults': {'alloc': 0, 'readerr': 0, 'eintr': 0}, 'fired': {'alloc': 0, 'readerr': 0, 'eintr': 0},
           'problems': []}
    if b['status'] != 'ok':
        rtcheck._rm(b)
        return res
    if 'dangerous trailing context' in b.get('flex_stderr', ''):
        res['build'] = 'dangerous_tc'
        rtcheck._rm(b)
        return res
    cfg.reject_machinery = bool(b['flags'].get('reject'))
    c = casegen(rng, rs, cfg)
    if cfg.reject_machinery:
        c['bufsize'] = 16384
    cfn = os.path.join(work, name + '.case')

    def run(**kw):
        open(cfn, 'w').write(rt.case_text(rs, b, cfg, **dict(c, **kw)))
        res['runs'] += 1
        return rt.run_real(b['exe'], cfn)
    base = run()
    T0 = _trace_core(base['out'])
    res['sample'] = {'case': [l for l in rt.case_text(rs, b, cfg, **c).split('\n')
                              if l.split(' ')[0] in ('src', 'sched', 'bufsize', 'main', 'act', 'wrap')][:10],
                     'trace': T0[:8], 'allocs': base['stats'].get('allocs'), 'reads': base['stats'].get('reads')}
    if base['rc'] != 0:
        res['problems'].append({'kind': 'baseline', 'what': 'fault-free run failed rc=%s' % base['rc'],
                                'err': base['err'], 'case': open(cfn).read()})
        rtcheck._rm(b)
        return res
    N = base['stats'].get('allocs', 0)
    R = base['stats'].get('reads', 0)
    res['N'] = N
    res['R'] = R
    ks = list(range(N)) if N <= cap else sorted(rng.sample(range(N), cap))
    for k in ks:
        r = run(allocfail=k)
        res['faults']['alloc'] += 1
        T = _trace_core(r['out'])
        fired = r['stats'].get('allocfailed', 0)
        res['fired']['alloc'] += 1 if fired else 0
        prob = None
        if r['rc'] != 0:
            prob = 'scanner crashed / sanitizer report (rc=%s) after allocation %d failed' % (r['rc'], k)
        elif fired:
            stop = [i for i, l in enumerate(T) if l.startswith('fatal ') or l.startswith('initfail')]
            if not stop:
                prob = 'allocation %d failed but the scanner carried on without reporting it' % k
            elif T[:stop[0]] != T0[:stop[0]]:
                prob = 'trace before the reported failure of allocation %d differs from the fault-free trace' % k
            elif T[stop[0]].startswith('initfail') and T[stop[0]].split()[1] != '12':
                prob = 'yylex_init failed with errno %s, not ENOMEM' % T[stop[0]].split()[1]
        elif T != T0:
            prob = 'no allocation failed yet the trace differs'
        if prob:
            res['problems'].append({'kind': 'alloc', 'k': k, 'what': prob, 'err': r['err'], 'tail': T[-6:],
                                    'case': open(cfn).read()})
    rs_ = list(range(R)) if R <= cap else sorted(rng.sample(range(R), cap))
    for rr in rs_:
        r = run(readerr=[rr])
        res['faults']['readerr'] += 1
        T = _trace_core(r['out'])
        prob = None
        if r['rc'] != 0:
            prob = 'scanner crashed / sanitizer report (rc=%s) after read %d failed' % (r['rc'], rr)
        else:
            stop = [i for i, l in enumerate(T) if l.startswith('fatal readerr')]
            fired_n = r['stats'].get('faultsfired', 0)
            if not stop:
                # a short fread hides the failure until the next read; if the script never reads
                # again there is nothing to report
                if fired_n >= 2:
                    prob = 'read call %d failed (EIO, and every later call too) but the scanner did not report it' % rr
            else:
                res['fired']['readerr'] += 1
                if T[:stop[0]] != T0[:stop[0]]:
                    prob = 'trace before the reported read failure %d differs from the fault-free trace' % rr
        if prob:
            res['problems'].append({'kind': 'readerr', 'k': rr, 'what': prob, 'err': r['err'], 'tail': T[-6:],
                                    'case': open(cfn).read()})
        if cfg.stdio:
            # the failure does not repeat: this read reports EIO, the next ones find the input at its end.  An fread() that
            # had delivered bytes before the failing read returns them; the failure must still be reported when the scanner
            # asks for more, not turned into a clean end of file
            r = run(readerr1=[rr])
            res['faults']['readerr'] += 1
            T = _trace_core(r['out'])
            if r['rc'] != 0:
                res['problems'].append({'kind': 'readerr1', 'k': rr, 'what': 'scanner crashed / sanitizer report (rc=%s) after read %d failed once' % (r['rc'], rr),
                                        'err': r['err'], 'tail': T[-6:], 'case': open(cfn).read()})
            elif not any(l.startswith('fatal readerr') for l in T):
                if r['stats'].get('deadreads', 0) >= 1:
                    res['problems'].append({'kind': 'readerr1', 'k': rr,
                                            'what': 'read call %d failed once (EIO), the calls after it found the input at its end: the scanner read on from the same stream and did not report the failure' % rr,
                                            'err': r['err'], 'tail': T[-6:], 'case': open(cfn).read()})
            else:
                res['fired']['readerr'] += 1
        r = run(eintr=[rr])
        res['faults']['eintr'] += 1
        T = _trace_core(r['out'])
        res['fired']['eintr'] += 1
        if r['rc'] != 0 or T != T0:
            d = rt.first_diff(T, T0)
            res['problems'].append({'kind': 'eintr', 'k': rr,
                                    'what': 'read call %d interrupted (EINTR): trace differs from the uninterrupted one at %s (rc=%s)' % (rr, d, r['rc']),
                                    'err': r['err'], 'tail': T[-6:], 'case': open(cfn).read()})
    try:
        os.unlink(cfn)
    except OSError:
        pass
    rtcheck._rm(b)
    return res


EINVAL_MAIN = '''
#include <errno.h>
int main(void) {
    int bad = 0, r;
    errno = 0; r = yylex_init(NULL);
    if (r == 0 || errno != EINVAL) { printf("yylex_init(NULL): r=%d errno=%d\\n", r, errno); bad = 1; }
    errno = 0; r = yylex_init_extra(0, NULL);
    if (r == 0 || errno != EINVAL) { printf("yylex_init_extra(x, NULL): r=%d errno=%d\\n", r, errno); bad = 1; }
    return bad;
}
'''


def einval_probe(ctx, flex, src, work):
    """yylex_init / yylex_init_extra with a null result pointer: non-zero, errno EINVAL (documented)"""
    n = 0
    for name, opt in (('reentrant', 'reentrant'), ('c99', 'emit="c99" extra-type="void *"')):
        lf = os.path.join(work, 'c14_einval_%s.l' % name)
        cf = lf[:-2] + '.c'
        exe = lf[:-2] + '.exe'
        open(lf, 'w').write('%%option noyywrap %s\n%%%%\na ;\n%%%%\n%s' % (opt, EINVAL_MAIN))
        rc, so, se = flexrun.run_flex(flex, lf, cf, [])
        import subprocess
        p = subprocess.run(['gcc', '-w', '-I', src, cf, '-o', exe], stdout=subprocess.PIPE, stderr=subprocess.STDOUT, text=True) if rc == 0 else None
        if rc != 0 or p.returncode != 0:
            ctx.violation('EINVAL probe (%s): scanner does not build: %s' % (name, (se if rc else p.stdout)[-200:]), {'back end': name})
            continue
        q = subprocess.run([exe], stdout=subprocess.PIPE, text=True, timeout=20)
        n += 1
        if q.returncode != 0:
            ctx.violation('%s scanner: %s (documented: non-zero with errno EINVAL)' % (name, q.stdout.strip()[:200]),
                          {'back end': name, 'main': EINVAL_MAIN})
    return n


def run(ctx):
    flex, src = flexrun.build_flex()
    work = flexrun.scratch_root()
    einval_probe(ctx, flex, src, work)
    discharged = common.proof_audit(ctx, THEOREMS)
    for b in getattr(ctx, 'proof_broken', []):
        ctx.violation('proof obligation broken: ' + b, {'broken': b}, no_input=True)
    nscen, cap = {'quick': (32, 24), 'thorough': (300, 200)}[ctx.tier]
    rng = ctx.rng('c14')
    fams = ['ops', 'buffers', 'include', 'eof', 'plain', 'reject', 'deepstack', 'ops']
    jobs = [(flex, src, work, i, rng.getrandbits(48), fams[i % len(fams)], cap) for i in range(nscen)]
    with Pool(16) as pool:
        results = pool.map(_scenario, jobs, chunksize=1)
    tot = {'alloc': 0, 'readerr': 0, 'eintr': 0}
    fired = {'alloc': 0, 'readerr': 0, 'eintr': 0}
    runs = 0
    samples = []
    builds = {}
    nprob = 0
    for r in results:
        builds[r['build']] = builds.get(r['build'], 0) + 1
        runs += r['runs']
        for k in tot:
            tot[k] += r['faults'][k]
            fired[k] += r['fired'][k]
        if 'sample' in r and len(samples) < 3:
            samples.append(dict(r['sample'], cfg=r['cfg'], family=r['fam']))
        for p in r['problems']:
            nprob += 1
            if nprob <= 10:
                ctx.violation('%s (%s)' % (p['what'], r['cfg']),
                              {'cfg': r['cfg'], 'family': r['fam'], 'lex': r['lex'], 'case': p.get('case'),
                               'fault': {p['kind']: p.get('k')}, 'tail': p.get('tail'), 'stderr': p.get('err')})
    # the loader of serialized tables: a short read at every offset of the first 80 bytes and of the tail of the file
    # must end in a clean failure - nothing freed twice, nothing left allocated (ledger allocator)
    from . import c15
    nload = {'quick': 4, 'thorough': 40}[ctx.tier]
    with Pool(16) as pool:
        loads = pool.map(c15._loader_job, [(flex, src, work, 700 + i, rng.getrandbits(48), 6) for i in range(nload)], chunksize=1)
    load_trunc = sum(r['trunc'] for r in loads)
    for r in loads:
        for p in r['problems']:
            if 'truncated' in p:
                nprob += 1
                if nprob <= 10:
                    ctx.violation('tables loader under a short read: ' + p, {'job': r['idx']})
    runs += sum(r['runs'] for r in loads)
    nfaults = sum(tot.values()) + load_trunc
    cov = {
        'evaluations': runs, 'distinct_nontrivial': nfaults,
        'rule': 'one evaluation = one run of a real generated scanner (stdio input through a fopencookie stream, '
                'ledger allocator, ASan+UBSan) with a single injected fault; distinct+non-trivial = distinct '
                '(scenario, fault kind, fault index) triples; per scenario every allocation index below the '
                'fault-free count and every read-call index (EIO and EINTR) is tried, capped at %d each' % cap,
        'samples': samples or [{'note': 'no scenario'}],
        'fault_points': tot, 'faults_fired': fired, 'scenarios': builds, 'tables_loader_short_reads': load_trunc,
        'obligations': len(THEOREMS), 'discharged': discharged,
        'explanation': 'fault enumeration on the real code; oracle: sanitizer-clean, failure reported through '
                       'YY_FATAL_ERROR ("out of dynamic memory"/"input in flex scanner failed") or yylex_init '
                       'returning ENOMEM, trace up to the report equal to the fault-free trace, EINTR transparent',
    }
    return common.finish(ctx, 'fault_enumeration', cov,
                         ['fault injection through documented hooks only: %option noyyalloc/noyyrealloc/noyyfree and a '
                          'fopencookie FILE as yyin'])

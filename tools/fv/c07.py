"""C07 runtime correspondence check (see DESIGN.md)."""
import os, subprocess
from . import rtprop, flexrun

THEOREMS = ['FlexVerif.validate_sound', 'FlexVerif.specCands_selects']
# the REJECT machinery itself, translated from a scanner generated in this run
THEOREMS += ['FlexVerif.C07Reject.' + t for t in ('findAction_shape', 'reject_shape', 'here_cons', 'remaining_break', 'find_loop', 'findRule_run',
                                                  'findAction_spec', 'reject_spec', 'accept_cases', 'here_eq_offers', 'remaining_all',
                                                  'wf_of_accept', 'first_offer')]


def regen_reject():
    """translate the code at yy_find_action / find_rule and the macro yyreject() of a scanner flex generates now into
    lean/FlexVerif/Gen/Reject.lean"""
    import fcntl
    from . import gen_reject, common
    flex, src = flexrun.build_flex()
    try:
        body, info = gen_reject.generate(flex, flexrun.scratch_root())
    except gen_reject.TranslateError as e:
        return None, str(e)
    path = os.path.join(common.LEAN_DIR, 'FlexVerif', 'Gen', 'Reject.lean')
    lock = open(os.path.join(common.LEAN_DIR, '.build.lock'), 'w')
    fcntl.flock(lock, fcntl.LOCK_EX)
    try:
        old = open(path).read() if os.path.exists(path) else ''
        if old != body:
            open(path, 'w').write(body)
    finally:
        fcntl.flock(lock, fcntl.LOCK_UN)
        lock.close()
    return info, None

SPEC = ('%%option noyywrap\n%%%%\n'
        'a+\t{ printf("1:%%s\\n", yytext); %s; }\n'
        'a\t{ printf("2:%%s\\n", yytext); %s; }\n'
        '.|\\n\t;\n%%%%\nint main(void) { yylex(); return 0; }\n')


def detection_probe(ctx, results):
    """use of REJECT / yyreject() in an action is detected without %option reject: the scanner is
    built with the REJECT machinery, and the combination with -Cf/-CF is refused at generation time"""
    flex, src = flexrun.build_flex()
    work = flexrun.scratch_root()
    for name, call in (('REJECT', 'REJECT'), ('yyreject()', 'yyreject()'), ('yyreject ( )', 'yyreject ( )')):
        lf = os.path.join(work, 'c07_det.l'); cf = os.path.join(work, 'c07_det.c'); exe = os.path.join(work, 'c07_det.exe')
        open(lf, 'w').write(SPEC % (call, ''))
        rc, so, se = flexrun.run_flex(flex, lf, cf, [], timeout=20)
        if rc != 0:
            ctx.violation('flex refuses a rule set whose action uses %s: %s' % (name, se[-200:]), {'spec': SPEC % (call, '')})
            continue
        p = subprocess.run(['gcc', '-w', cf, '-o', exe], stdout=subprocess.PIPE, stderr=subprocess.STDOUT, text=True)
        if p.returncode != 0:
            ctx.violation('use of %s in an action is not detected: flex emits a scanner that does not compile (%s)' % (
                name, [l for l in p.stdout.split('\n') if 'error' in l][:1]), {'spec': SPEC % (call, ''), 'cc': p.stdout[-600:]})
            continue
        out = subprocess.run([exe], input=b'aa', stdout=subprocess.PIPE, timeout=20).stdout.decode().split('\n')
        want = ['1:aa', '1:a', '2:a']     # rule 1 rejects both its matches, then rule 2 takes "a"
        if out[:3] != want:
            ctx.violation('%s: alternatives visited %s, expected %s' % (name, out[:4], want), {'spec': SPEC % (call, '')})
        for topt in ('-Cf', '-CF'):
            rc, so, se = flexrun.run_flex(flex, lf, cf, [topt], timeout=20)
            if rc == 0 or not se.strip():
                ctx.violation('%s with %s is not refused at generation time (rc=%d, stderr %r)' % (name, topt, rc, se.strip()[-100:]),
                              {'spec': SPEC % (call, ''), 'opts': [topt]})


def run(ctx):
    info, err = regen_reject()
    if err:
        ctx.violation('translator of the REJECT machinery gave up: ' + err, {'error': err}, no_input=True)
    q1, q2, q3 = {'quick': (64, 48, 32), 'thorough': (600, 400, 200)}[ctx.tier]
    plan = [('reject', q1, 8)]
    return rtprop.run(ctx, THEOREMS, plan, 'proof',
                      "the REJECT machinery (the code from yy_find_action to YY_DO_BEFORE_ACTION with the find_rule loop, and the macro yyreject()) is translated from a scanner flex generates in this run (Gen/Reject.lean) and proved, for every state stack and all tables whose entries are in range, to offer the alternatives in this order: for the longest prefix the rules of its state's yy_acclist slice in table order, then the same for each shorter prefix, with yy_cp/yy_full_match the end of that prefix and no read out of bounds (C07Reject.findAction_spec, reject_spec, remaining_all, first_offer); the slices are the decoder's rule lists, which the validator proves equal to the specification's. REJECT: actions reject (optionally after yybegin) and the sequence of (rule, text) alternatives visited must be the specification's (length descending, rule ascending) order; probe: REJECT / yyreject() are detected without %option reject and refused with -Cf/-CF" + '. Kernel-checked theorems about the abstract scanner (listed under obligations) + differential '
                      'correspondence of the real generated scanner (ASan/UBSan build) with that model on generated cases.',
                      post=detection_probe)

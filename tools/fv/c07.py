"""C07 runtime correspondence check (see DESIGN.md)."""
from . import rtprop

THEOREMS = ['FlexVerif.validate_sound']


def run(ctx):
    q1, q2, q3 = {'quick': (64, 48, 32), 'thorough': (600, 400, 200)}[ctx.tier]
    plan = [('reject', q1, 8)]
    return rtprop.run(ctx, THEOREMS, plan, 'exploration',
                      "REJECT: actions reject (optionally after yybegin) and the sequence of (rule, text) alternatives visited must be the specification's (length descending, rule ascending) order" + '. Kernel-checked theorems about the abstract scanner (listed under obligations) + differential '
                      'correspondence of the real generated scanner (ASan/UBSan build) with that model on generated cases.')

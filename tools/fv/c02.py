"""C02 — independence of table representation, API flavour, back end: systematic option matrix."""
from . import rtprop, rtcheck

THEOREMS = ['FlexVerif.validate_sound', 'FlexVerif.validate_first_rule', 'FlexVerif.Ser.decSet_encSet']
# the state-walking code of the four compressed table variants and of both skeletons computes the same decoders' step
THEOREMS += ['FlexVerif.C01StepGen.prevState_all', 'FlexVerif.C01StepGen.nulTrans_all', 'FlexVerif.C01StepC99.prevState_same',
             'FlexVerif.C01StepC99.nulTrans_same']


def post(ctx, results):
    # a refusal must come with a diagnostic; the refusals seen are listed in the evidence
    refusals = {}
    for r in results:
        if r['build'] == 'flexfail':
            msg = (r.get('detail') or '').strip().split('\n')[-1][-120:]
            refusals[msg] = refusals.get(msg, 0) + 1
    ctx.refusals = refusals


def run(ctx):
    from . import c01
    info, err = c01.regen_prevstate()
    if err:
        ctx.violation('translator of yy_get_previous_state() / yy_try_NUL_trans() gave up: ' + err, {'error': err}, no_input=True)
    n = {'quick': 240, 'thorough': 2 * len(rtcheck.MATRIX)}[ctx.tier]
    plan = [('matrix', n, 4), ('sertrail', {'quick': 32, 'thorough': 300}[ctx.tier], 4)]
    return rtprop.run(ctx, THEOREMS, plan, 'exploration',
                      'configuration matrix: 13 table option sets x {7,8} bit x {default,-I,-B} x {%%pointer,%%array} x '
                      '{non-reentrant C, reentrant C, c99 back end, C++ class} x {in-code, serialized tables (default skeleton only)} = %d configurations, visited in a '
                      'stride order (all of them twice in the thorough tier); every configuration that flex accepts must '
                      'compile and produce, on generated probes and scripts, exactly the trace of the one specification; '
                      'refusals must carry a diagnostic. The c99 scanners run the whole action script interpreter as literal action text, so that flex\'s rewriting of yytext/yyless()/yymore()/... is what is exercised; C++ scanners are a subclass given with yyclass whose LexerInput/LexerError are the harness (%%array there is overridden with a warning, as documented).' % len(rtcheck.MATRIX),
                      post=post)

"""Translator: yy_get_next_buffer() of a scanner flex has just generated  ->  lean/FlexVerif/Gen/NextBuf.lean
(a program of Imp/Lang.lean).

The array is the character buffer `YY_CURRENT_BUFFER_LVALUE->yy_ch_buf`; every `char *` of the function
(yy_c_buf_p, yytext_ptr, dest, source) is an offset into it: `buf->yy_ch_buf` is 0 in pointer arithmetic and
a flag (0 = NULL) where it is tested or assigned; `buf->yy_ch_buf = yyrealloc(buf->yy_ch_buf, n)` is "the
array has n elements now, old contents kept" followed by flag = 1 (allocation failure is the business of
C14).  `YY_INPUT(&buf[d], result, max)` is the `read` statement: a reader outside the model puts at most
`max` bytes there (that is its contract in the manual; the default definition with getc()/fread() is
compared with the model by the differential harness of C03).  `yyrestart(yyin)` is a logged call.
`YY_MORE_ADJ` and `YY_READ_BUF_SIZE` (BUFSIZ) are left as variables: the theorem holds whatever they expand to.
"""
import os, re, subprocess
from .gen_options import tokenize, TranslateError
from . import gen_startstack as G
from . import gen_yyless as Y

B = 'YY_CURRENT_BUFFER_LVALUE'
BASE = B + '->yy_ch_buf'
VARS = ['yy_c_buf_p', 'yytext_ptr', 'yy_n_chars', B + '->yy_n_chars', B + '->yy_buf_size', B + '->yy_fill_buffer',
        B + '->yy_buffer_status', B + '->yy_is_our_buffer', BASE, 'YY_MORE_ADJ', 'dest', 'source', 'number_to_move', 'i',
        'ret_val', 'num_to_read', 'yy_c_buf_p_offset', 'new_size', 'YY_READ_BUF_SIZE']
LEAN_NAMES = ['vCBufP', 'vTextPtr', 'vNChars', 'vBufNChars', 'vBufSize', 'vFill', 'vStatus', 'vOurs', 'vChBuf', 'vMoreAdj',
              'vDest', 'vSource', 'vNumToMove', 'vI', 'vRet', 'vNumToRead', 'vOffset', 'vNewSize', 'vReadBufSize']
CALLS = ['yyrestart']


def merge_ops(toks):
    out = []
    for t in toks:
        if out and t == ('op', '>') and out[-1] == ('op', '>'):
            out[-1] = ('op', '>>')
        elif out and t == ('op', '=') and out[-1] == ('op', '*'):
            out[-1] = ('op', '*=')
        else:
            out.append(t)
    return out


class P(Y.P):
    TYPES = Y.P.TYPES + ('yy_size_t',)
    LEVELS = [['||'], ['&&'], ['==', '!='], ['<', '>', '<=', '>='], ['>>'], ['+', '-'], ['*', '/']]

    def expr(self):
        a = self.ternary()
        for op in ('=', '+=', '-=', '*='):
            if self.peek() == ('op', op):
                self.next()
                r = self.expr()
                if op == '*=':
                    return ('assign', a, '=', ('bin', '*', a, r))
                return ('assign', a, op, r)
        return a

    def unary(self):
        if self.accept('op', '&'):
            return ('addr', self.unary())
        if self.peek() == ('id', 'sizeof') and self.peek(1) == ('op', '(') and self.peek(2) == ('op', '*') and \
                self.peek(3)[0] == 'id' and self.peek(4) == ('op', ')'):
            # sizeof(*p) with p a char pointer
            if self.peek(3)[1] not in ('source', 'dest'):
                raise TranslateError('sizeof(*%s)' % self.peek(3)[1])
            self.i += 5
            return ('num', 1)
        return super().unary()

    def stmt(self):
        x = self.peek()
        if x == ('id', 'while'):
            self.next(); self.expect('op', '(')
            c = self.expr(); self.expect('op', ')')
            return ('while', c, self.stmt())
        if x[0] == 'id' and x[1] in self.TYPES:
            # T [*] a, b, c ;   (no initialisers)
            j = 1
            ok = False
            while True:
                while self.peek(j) == ('op', '*'):
                    j += 1
                if self.peek(j)[0] != 'id':
                    break
                j += 1
                if self.peek(j) == ('op', ','):
                    j += 1
                    continue
                ok = self.peek(j) == ('op', ';')
                break
            if ok:
                self.i += j + 1
                return ('block', [])
        return super().stmt()


class Tr(Y.Tr):
    def var(self, name):
        if name not in VARS:
            raise TranslateError('variable %s is not part of yy_get_next_buffer' % name)
        return VARS.index(name)

    def ex(self, e):
        k = e[0]
        if k == 'id' and e[1] == BASE:
            return [], '(.lit 0)', []
        if k == 'not' and e[1] == ('id', BASE):
            return [], '(.eq (.var %d) (.lit 0))' % VARS.index(BASE), []
        if k == 'bin' and e[1] in ('==', '!=') and ('id', BASE) in (e[2], e[3]):
            # the pointer compared with NULL: the flag, not the offset
            other = e[3] if e[2] == ('id', BASE) else e[2]
            if other not in (('id', 'NULL'), ('num', 0)):
                raise TranslateError('the character buffer pointer compared with something else than NULL')
            t = '(.eq (.var %d) (.lit 0))' % VARS.index(BASE)
            return [], (t if e[1] == '==' else '(.not %s)' % t), []
        if k == 'addr':
            x = e[1]
            if x[0] == 'index' and x[1] == ('id', BASE):
                return self.ex(x[2])
            raise TranslateError('address of %r' % (x,))
        if k == 'bin' and e[1] == '>>':
            if e[3][0] != 'num':
                raise TranslateError('shift by a non-constant')
            p, a, q = self.ex(e[2])
            return p, '(.div %s (.lit %d))' % (a, 2 ** e[3][1]), q
        if k == 'index' and e[1] == ('id', BASE):
            p, i, q = self.ex(e[2])
            return p, '(.idx %s)' % i, q
        if k == 'deref' and e[1][0] == 'postinc' and e[1][1][0] == 'id':
            # *(p++)
            v = self.var(e[1][1][1])
            return [], '(.idx (.var %d))' % v, ['(.assign %d (.add (.var %d) (.lit %s)))' % (v, v, G.li(e[1][2]))]
        return super().ex(e)

    def assign(self, e):
        lv, op, rhs = e[1], e[2], e[3]
        if lv == ('id', BASE) and op == '=':
            if rhs[0] == 'call' and rhs[1] == 'yyrealloc':
                if rhs[2][0] != ('id', BASE):
                    raise TranslateError('yyrealloc of something else than the character buffer')
                p, n, q = self.ex(rhs[2][1])
                if p or q:
                    raise TranslateError('side effect in an allocation size')
                return ['(.growTo %s)' % n, '(.assign %d (.lit 1))' % VARS.index(BASE)]
            if rhs in (('id', 'NULL'), ('num', 0)):
                return ['(.assign %d (.lit 0))' % VARS.index(BASE)]
            raise TranslateError('assignment to the character buffer pointer: %r' % (rhs,))
        if lv[0] == 'index' and lv[1] == ('id', BASE) and op == '=':
            p1, i, q1 = self.ex(lv[2]); p2, r, q2 = self.ex(rhs)
            return p1 + p2 + ['(.store %s %s)' % (i, r)] + q1 + q2
        if lv[0] == 'deref' and lv[1][0] == 'postinc' and op == '=':
            # *(d++) = v: the value first, then the store, then the increments
            v = self.var(lv[1][1][1])
            p2, r, q2 = self.ex(rhs)
            return p2 + ['(.store (.var %d) %s)' % (v, r), '(.assign %d (.add (.var %d) (.lit %s)))' % (v, v, G.li(lv[1][2]))] + q2
        return super().assign(e)

    def st(self, s):
        if s[0] == 'expr' and s[1][0] == 'assign' and s[1][3][0] == 'call' and s[1][3][1] == 'yyread':
            # result = yyread(&buf[d], max): the c99 skeleton's spelling of YY_INPUT
            lv, args = s[1][1], s[1][3][2]
            if lv[0] != 'id' or s[1][2] != '=' or len(args) != 2:
                raise TranslateError('yyread with unexpected arguments')
            p1, d, q1 = self.ex(args[0]); p2, m, q2 = self.ex(args[1])
            if p1 or q1 or p2 or q2:
                raise TranslateError('side effect in an argument of yyread')
            return '(.read %s %s %d)' % (d, m, self.var(lv[1]))
        if s[0] == 'expr' and s[1][0] == 'call':
            name, args = s[1][1], s[1][2]
            if name == 'memmove':
                if len(args) != 3:
                    raise TranslateError('memmove with unexpected arguments')
                ps = [self.ex(a) for a in args]
                if any(p or q for p, _, q in ps):
                    raise TranslateError('side effect in an argument of memmove')
                return '(.move %s %s %s)' % (ps[0][1], ps[1][1], ps[2][1])
            if name == 'YY_INPUT':
                if len(args) != 3 or args[1][0] != 'id':
                    raise TranslateError('YY_INPUT with unexpected arguments')
                p1, d, q1 = self.ex(args[0]); p2, m, q2 = self.ex(args[2])
                if p1 or q1 or p2 or q2:
                    raise TranslateError('side effect in an argument of YY_INPUT')
                return '(.read %s %s %d)' % (d, m, self.var(args[1][1]))
            if name in CALLS:
                return '(.call %d (.lit 0))' % CALLS.index(name)
        return super().st(s)


PROBE = '%option noyywrap\n%%\na yymore();\nb ;\n%%\n'


def constants(text):
    consts = {'NULL': 0}
    for name in ('EOB_ACT_CONTINUE_SCAN', 'EOB_ACT_END_OF_FILE', 'EOB_ACT_LAST_MATCH', 'YY_BUFFER_NEW', 'YY_BUFFER_NORMAL',
                 'YY_BUFFER_EOF_PENDING', 'YY_END_OF_BUFFER_CHAR'):
        m = re.search(r'^[ \t]*#[ \t]*define[ \t]+' + name + r'[ \t]+\(?(\d+)\)?[ \t]*(?:/\*.*)?$', text, re.M) or \
            re.search(r'\b' + name + r'\s*=\s*(\d+)', text)
        if not m:
            raise TranslateError('constant %s not found in the generated scanner' % name)
        consts[name] = int(m.group(1))
    return consts


def translate(text, fname='yy_get_next_buffer'):
    body = G.body_of(text, fname)
    body = re.sub(r'/\*.*?\*/', ' ', body, flags=re.S)
    # `yybuffer b = YY_CURRENT_BUFFER_LVALUE;` : b is another name of the current buffer
    body, n = re.subn(r'\byybuffer\s+b\s*=\s*' + B + r'\s*;', ' ', body)
    body = re.sub(r'\bb\s*->', B + '->', body)
    consts = constants(text)
    msgs = []
    tr = Tr({}, consts, msgs)
    prog = tr.st(P(merge_ops(tokenize(body))).stmt())
    return prog, msgs, consts


def lean_file(ns, prog, msgs, consts, origin):
    q = lambda s: '"' + s.replace('\\', '\\\\').replace('"', '\\"') + '"'
    L = ['-- GENERATED by tools/fv/gen_nextbuf.py from %s.  Do not edit.' % origin,
         'import FlexVerif.Imp.Lang',
         'namespace FlexVerif.Gen.' + ns,
         'open FlexVerif.Imp',
         '/-- variables: ' + ', '.join('%d = %s' % (i, n) for i, n in enumerate(VARS)) + '; the array: the character buffer yy_ch_buf -/']
    L += ['def %s : Nat := %d' % (n, i) for i, n in enumerate(LEAN_NAMES)]
    L += ['def msgs : List String := [%s]' % ', '.join(q(m) for m in msgs),
          'def fRestart : Nat := 0']
    L += ['def c%s : Int := %d' % (k, consts[k]) for k in ('EOB_ACT_CONTINUE_SCAN', 'EOB_ACT_END_OF_FILE', 'EOB_ACT_LAST_MATCH',
                                                           'YY_BUFFER_NEW', 'YY_BUFFER_NORMAL', 'YY_BUFFER_EOF_PENDING',
                                                           'YY_END_OF_BUFFER_CHAR')]
    L += ['/-- yy_get_next_buffer() -/', 'def nextBuf : St :=\n  ' + prog, 'end FlexVerif.Gen.' + ns]
    return '\n'.join(L) + '\n'


def generate(flex, workdir):
    lf = os.path.join(workdir, 'nextbuf_probe.l')
    cf = os.path.join(workdir, 'nextbuf_probe.c')
    open(lf, 'w').write(PROBE)
    p = subprocess.run([flex, '-L', '-o', cf, lf], stdout=subprocess.PIPE, stderr=subprocess.PIPE, text=True)
    if p.returncode != 0:
        raise TranslateError('flex failed on the probe: ' + p.stderr[-200:])
    text = open(cf, errors='replace').read()
    prog, msgs, consts = translate(text)
    for f in (lf, cf):
        try:
            os.unlink(f)
        except OSError:
            pass
    return lean_file('NextBuf', prog, msgs, consts, "a scanner flex (built from /repo's current tree) has just generated"), \
        {'messages': msgs, 'consts': consts}


PROBE_C99 = '%option emit="c99" noyywrap\n%%\na yymore();\nb ;\n%%\n'


def generate_c99(flex, workdir):
    lf = os.path.join(workdir, 'nextbuf_probe99.l')
    cf = os.path.join(workdir, 'nextbuf_probe99.c')
    open(lf, 'w').write(PROBE_C99)
    p = subprocess.run([flex, '-L', '-o', cf, lf], stdout=subprocess.PIPE, stderr=subprocess.PIPE, text=True)
    if p.returncode != 0:
        raise TranslateError('flex failed on the c99 probe: ' + p.stderr[-200:])
    text = G.normalise_c99(open(cf, errors='replace').read())
    # the current buffer is written out where the default skeleton has a macro; other names of the same things
    text = re.sub(r'\byy_buffer_stack\s*\[\s*yy_buffer_stack_top\s*\]', B, text)
    text = re.sub(r'\byytext_r\b', 'yytext_ptr', text)
    text = re.sub(r'\byy_more_len\b', 'YY_MORE_ADJ', text)
    text = re.sub(r'\byyin_r\b', 'yyin', text)
    prog, msgs, consts = translate(text)
    for f in (lf, cf):
        try:
            os.unlink(f)
        except OSError:
            pass
    return lean_file('NextBufC99', prog, msgs, consts, 'a c99 scanner (%option emit="c99") flex has just generated'), \
        {'messages': msgs, 'consts': consts}


if __name__ == '__main__':
    import sys
    t, info = generate(sys.argv[1], sys.argv[2])
    sys.stdout.write(t)

"""Translation validation of one (rule set, option set): flex -> tables -> Lean validator."""
import re, os, time, random, hashlib, subprocess
from . import rules, flexrun, patgen

TABLE_OPTS = [['-Cem'], ['-Ce'], ['-Cm'], ['-C'], ['-Cf'], ['-CF'], ['-Cfe'], ['-CFe'],
              ['-Cae'], ['-Caf'], ['-CaF'], ['-Cam'], ['-Caem'], []]


def default_csize(topt):
    """the manual (-7/-8): a scanner is 8-bit unless full or fast tables are asked for *without*
    equivalence classes"""
    for x in topt:
        if x.startswith('-C') and ('f' in x[2:] or 'F' in x[2:]) and 'e' not in x[2:]:
            return 128
    return 256


def opts_for(rs, topt, seed=None):
    """-7/-8 spelled out, or — for half of the seeds, where the documented default is the wanted
    size — left to flex"""
    o = list(topt)
    if seed is not None and default_csize(topt) == rs.csize and random.Random(seed * 2654435761 % 2**32).random() < 0.5:
        return o
    o.append('-8' if rs.csize == 256 else '-7')
    return o


def validate_one(flex, workdir, name, rs, topt, lex_seed, budget=200000, keep=False, extra_opts=(),
                 flex_timeout=8, driver_timeout=60):
    """returns dict: status in {ok, cex, flexfail, exhausted, notclosed, error}, details"""
    rng = random.Random(lex_seed)
    text = rs.to_lex(rng)
    lf = os.path.join(workdir, name + '.l')
    cf = lf + '.c'
    crlf = random.Random(lex_seed ^ 0xc41f).random() < 0.12
    if crlf:
        # a rule file written on a system with CR-LF line ends: flex reads `\r?\n` as a newline everywhere
        text = text.replace('\n', '\r\n')
    open(lf, 'w', encoding='latin1', newline='').write(text)
    opts = opts_for(rs, topt, lex_seed) + list(extra_opts)
    t0 = time.time()
    rc, so, se = flexrun.run_flex(flex, lf, cf, opts, timeout=flex_timeout)
    res = {'name': name, 'opts': opts, 'lex': text, 'flex_rc': rc, 'flex_stderr': se[-2000:],
           'x_groups': len(re.findall(r'\(\?[is]*x[is]*(?:-[is]+)?:', text)), 'crlf': crlf}
    if rc != 0:
        # -999: flex still running after flex_timeout seconds (DFA blow-up); counted, not judged
        res['status'] = 'slow' if rc == -999 else 'flexfail'
        _cleanup(keep, lf, cf)
        return res
    ctext = open(cf, encoding='latin1').read()
    tl, t, flags = flexrun.table_lines(ctext)
    var = flexrun.var_rules_of(t)
    extra = set(var) - rs.expected_var_rules()
    if extra:
        # flex back-tracks to the end of the head at run time for a rule whose head (or trailing part) has a fixed length
        res['status'] = 'error'
        res['detail'] = ('flex treats rule(s) %s as variable trailing context rules, but head or trailing part have a fixed length '
                         '(no | * + ? {} in them) and no \'|\' action precedes' % sorted(extra))
        _cleanup(keep, lf, cf)
        return res
    casef = lf + '.case'
    open(casef, 'w').write('\n'.join(rs.case_lines(var) + tl) + '\n')
    res['flags'] = flags
    res['t_flex'] = time.time() - t0
    t1 = time.time()
    try:
        drc, out, err = flexrun.run_driver(['validate', casef, str(budget)], timeout=driver_timeout)
    except subprocess.TimeoutExpired:
        res['status'] = 'exhausted'
        res['detail'] = 'validator time budget'
        _cleanup(keep, lf, cf, casef)
        return res
    except Exception as e:
        res['status'] = 'error'
        res['detail'] = 'driver: %r' % (e,)
        _cleanup(keep, lf, cf, casef)
        return res
    res['t_validate'] = time.time() - t1
    line = [l for l in out.split('\n') if l.startswith('verdict')]
    if not line:
        res['status'] = 'error'
        res['detail'] = (out + err)[-1000:]
    else:
        w = line[-1].split()
        res['status'] = w[1]
        res['verdict'] = line[-1]
        for kv in w[2:]:
            if '=' in kv:
                k, v = kv.split('=', 1)
                res[k] = v
    res['nstates'] = len(t['arrays'].get('yy_accept', [])) or len(t['arrays'].get('yy_transition_v', []))
    if not keep:
        _cleanup(False, lf, cf, casef)
    else:
        res['files'] = [lf, cf, casef]
    return res


def _cleanup(keep, *files):
    if keep:
        return
    for f in files:
        try:
            os.unlink(f)
        except OSError:
            pass


def features(rs):
    """feature counts of a rule set (for the evidence distribution)"""
    f = {}

    def bump(k, n=1):
        f[k] = f.get(k, 0) + n

    def walk_cls(e):
        if e[0] == 'br':
            if e[1]:
                bump('negated_class')
            for it in e[2]:
                if it[0] == 'p':
                    bump('posix_neg' if it[2] else 'posix')
                elif it[0] == 'r':
                    bump('range')
                if it[0] == 'c' and it[1] == 0 or it[0] == 'r' and it[1] == 0:
                    bump('nul_in_pattern')
                if it[0] == 'c' and it[1] >= 128 or it[0] == 'r' and it[2] >= 128:
                    bump('high_byte_in_pattern')
        else:
            bump('class_' + e[0])
            if e[2][1] or (e[1][0] == 'br' and e[1][1]):
                bump('classop_negated_operand')
            walk_cls(e[1])
            walk_cls(e[2])

    def walk(p):
        k = p[0]
        bump(k)
        if k == 'chr':
            if p[1] == 0:
                bump('nul_in_pattern')
            if p[1] >= 128:
                bump('high_byte_in_pattern')
        elif k == 'cls':
            walk_cls(p[1])
        elif k in ('cat', 'alt'):
            walk(p[1]); walk(p[2])
        elif k in ('star', 'plus', 'opt', 'rep'):
            walk(p[1])
        elif k == 'grp':
            if p[1]: bump('flag_i')
            if p[3]: bump('flag_s')
            if p[2] or p[4]: bump('flag_clear')
            walk(p[5])
        elif k == 'ref':
            walk(p[2])
    for r in rs.rules:
        walk(r['head'])
        if r.get('trail') is not None:
            bump('trailing_context'); walk(r['trail'])
        if r.get('dollar'):
            bump('dollar')
        if r['bol']:
            bump('bol')
        if r['all']:
            bump('sc_star')
        if r['scs']:
            bump('sc_list')
    if rs.caseins:
        bump('caseless_option')
    if len(rs.scs) > 1:
        bump('start_conditions', len(rs.scs) - 1)
        if any(e for _, e in rs.scs):
            bump('exclusive_sc')
    bump('rules', len(rs.rules))
    if getattr(rs, 'posix_prec', False):
        bump('posix_compat_precedence')
    return f

"""Common body of the runtime-correspondence property checks."""
import json, hashlib
from . import common, rtcheck


EXPECTED_REFUSALS = ('variable trailing context rules cannot be used with -f or -F', "Can't use -+ with -CF option",
                     '%option yylineno cannot be used with REJECT', '-Cf/-CF and -I are incompatible',
                     'REJECT cannot be used with -f or -F', '-Cf/-CF are incompatible with lex-compatibility mode')


def run(ctx, theorems, plan, level, explanation, extra_cov=None, assumptions=(), post=None):
    discharged = common.proof_audit(ctx, theorems)
    for b in getattr(ctx, 'proof_broken', []):
        ctx.violation('proof obligation broken: ' + b, {'broken': b}, no_input=True)
    st = explore(ctx, plan, post)
    cov = {
        'evaluations': st['ncases'], 'distinct_nontrivial': len(st['distinct']),
        'rule': 'one evaluation = one (generated scanner, input, read schedule, buffer size, script) case run on '
                'the real scanner (ASan+UBSan build) and on the Lean abstract scanner with table matcher and '
                'with specification matcher; distinct+non-trivial = distinct (scanner seed, case) with >= 4 trace events',
        'samples': st['samples'] or [{'note': 'no passing case'}],
        'obligations': len(theorems), 'discharged': discharged,
        'checker_cmd': 'lake build FlexVerif fvdriver; #print axioms via tools/fv/common.py',
        'trusted_base': common.TRUSTED_BASE,
        'traces_validated_against_impl': st['ncases'] - st['nviol'] - st['model_timeouts'], 'trace_events': st['events'],
        'cases_where_a_lean_matcher_ran_out_of_time': st['model_timeouts'],
        'build_status_counts': st['stats'], 'family_counts': st['fam_stats'], 'feature_counts': st['feat'],
        'explanation': explanation,
    }
    if extra_cov:
        cov.update(extra_cov)
    return common.finish(ctx, level, cov, list(assumptions))


def explore(ctx, plan, post=None):
    """run the families of `plan` on the real scanner and the model; every difference is recorded as a violation with
    its input.  Also used by checks whose own exploration cannot exhibit a failing input for a broken obligation."""
    results = rtcheck.run_families(ctx, ctx.prop.lower(), plan)
    stats = {}
    fam_stats = {}
    feat = {}
    samples = []
    ncases = 0
    distinct = set()
    events = 0
    nviol = 0
    ntimeouts = 0
    for r in results:
        stats[r['build']] = stats.get(r['build'], 0) + 1
        fs = fam_stats.setdefault(r['fam'], {'scanners': 0, 'cases': 0, 'diffs': 0})
        fs['scanners'] += 1
        for k, v in r.get('features', {}).items():
            feat[k] = feat.get(k, 0) + v
        if r['build'] == 'ccfail':
            ctx.violation('generated scanner does not compile (%s): %s' % (r['cfg'], r.get('detail', '')[-600:]),
                          {'lex': r['lex'], 'opts': r['opts'], 'cfg': r['cfg'], 'compiler_output': r.get('detail')})
            continue
        if r['build'] == 'flexfail' and not (r.get('detail') or '').strip():
            ctx.violation('flex refused a rule set without any diagnostic (%s)' % r['cfg'],
                          {'lex': r['lex'], 'opts': r['opts'], 'cfg': r['cfg']})
            continue
        if r['build'] == 'flexfail':
            # a refusal has to be one the options explain; anything else means flex and the model of
            # the generator disagree about which rule sets are acceptable
            lines = [l for l in (r.get('detail') or '').strip().split('\n') if l.strip() and 'warning' not in l]
            msg = lines[-1] if lines else ''
            if not any(k in msg for k in EXPECTED_REFUSALS):
                ctx.violation('flex refused a rule set the specification accepts (%s): %s' % (r['cfg'], msg[-200:]),
                              {'lex': r['lex'], 'opts': r['opts'], 'cfg': r['cfg'], 'flex_stderr': r.get('detail')})
            continue
        for c in r['cases']:
            ncases += 1
            fs['cases'] += 1
            events += c['events']
            if c.get('model_timeout'):
                fs['model_timeouts'] = fs.get('model_timeouts', 0) + 1
                ntimeouts += 1
            bad = c['rc'] != 0 or c['d_model'] is not None or c['d_spec'] is not None or c.get('ledger')
            if not bad:
                if c['events'] >= 4:
                    distinct.add((r['seed'], c['k']))
                if 'sample_trace' in c and len(samples) < 4:
                    samples.append({'family': r['fam'], 'cfg': r['cfg'], 'case': c['sample_case'],
                                    'trace': c['sample_trace']})
                continue
            fs['diffs'] += 1
            nviol += 1
            if nviol > 12:
                continue
            if c['rc'] in (66, 67) or (c['rc'] not in (0,) and c['rc'] != -999):
                what = 'generated scanner crashed / sanitizer report (rc=%s): %s' % (c['rc'], (c.get('real_err') or '')[:300])
            elif c['rc'] == -999:
                what = 'generated scanner did not terminate within the time limit'
            elif c.get('ledger'):
                what = 'allocation ledger: %s (%s)' % (c['ledger'], r['cfg'])
            else:
                d = c['d_spec'] or c['d_model']
                what = 'real trace differs from the specification at event %s: real=%r spec=%r (%s)' % (
                    d[0], d[1], d[2], r['cfg'])
            ctx.violation(what, {'family': r['fam'], 'cfg': r['cfg'], 'lex': r['lex'], 'opts': r['opts'],
                                 'case': c.get('case'), 'real_tail': c.get('real_tail'),
                                 'real_stderr': c.get('real_err'), 'd_model': c['d_model'], 'd_spec': c['d_spec']})
    if post:
        post(ctx, results)
    return {'ncases': ncases, 'distinct': distinct, 'samples': samples, 'nviol': nviol, 'events': events, 'stats': stats,
            'fam_stats': fam_stats, 'feat': feat, 'model_timeouts': ntimeouts}

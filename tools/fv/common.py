"""Shared machinery of the per-property checks: argument handling, Lean build + audit,
known-findings protocol, VIOLATION / evidence output."""
import os, sys, json, time, re, subprocess, fcntl, hashlib, random, traceback

VERIF = os.path.dirname(os.path.dirname(os.path.dirname(os.path.abspath(__file__))))
LEAN_DIR = os.path.join(VERIF, 'lean')
EVIDENCE_DIR = os.path.join(VERIF, 'evidence')
REPLAY_DIR = os.path.join(VERIF, 'replays')
ALLOWED_AXIOMS = {'propext', 'Classical.choice', 'Quot.sound'}
FORBIDDEN = re.compile(r'\b(sorry|admit|native_decide|bv_decide|implemented_by|unsafe)\b|^\s*axiom\s|maxHeartbeats\s+0')

TRUSTED_BASE = [
    'Lean 4.33.0 kernel (theorems) and compiler/runtime (fvdriver execution)',
    'axioms: propext, Classical.choice, Quot.sound only (audited by #print axioms on every run)',
    'python harness + tables_extract.py (reads the generated scanner text)',
    'gcc/g++, GNU m4, glibc',
]


class Ctx:
    def __init__(self, prop, tier, seed):
        self.prop = prop
        self.tier = tier
        self.seed = seed
        self.t0 = time.time()
        self.violations = []       # dicts: what, replay (path or None), no_input (bool)
        self.known = []
        self.coverage = {}
        self.assumptions = []
        self.notes = []
        # replays of earlier runs of this property are stale
        import glob
        for f in glob.glob(os.path.join(REPLAY_DIR, prop + '-*.json')):
            try:
                os.unlink(f)
            except OSError:
                pass

    def rng(self, salt=''):
        h = hashlib.sha256(('%s/%s/%s' % (self.prop, self.seed, salt)).encode()).digest()
        return random.Random(int.from_bytes(h[:8], 'big'))

    def violation(self, what, replay_obj=None, no_input=False, name=None):
        os.makedirs(REPLAY_DIR, exist_ok=True)
        body = json.dumps({'property': self.prop, 'what': what, 'seed': self.seed, 'tier': self.tier,
                           'replay': replay_obj}, indent=1, default=str)
        hid = hashlib.sha256(body.encode()).hexdigest()[:12]
        path = os.path.join(REPLAY_DIR, '%s-%s.json' % (self.prop, name or hid))
        open(path, 'w').write(body)
        self.violations.append({'what': what, 'replay': path, 'no_input': no_input})

    def known_finding(self, what):
        if what not in self.known:
            self.known.append(what)


def load_known_findings():
    p = os.path.join(VERIF, 'known_findings.json')
    if os.path.exists(p):
        return json.load(open(p))
    return {'findings': []}


def lean_build(targets=('FlexVerif', 'fvdriver')):
    """incremental lake build under a lock; returns (ok, output)"""
    lock = open(os.path.join(LEAN_DIR, '.build.lock'), 'w')
    fcntl.flock(lock, fcntl.LOCK_EX)
    try:
        p = subprocess.run(['lake', 'build'] + list(targets), cwd=LEAN_DIR, stdout=subprocess.PIPE,
                           stderr=subprocess.STDOUT, text=True)
        return p.returncode == 0, p.stdout
    finally:
        fcntl.flock(lock, fcntl.LOCK_UN)
        lock.close()


def lean_failed_decls(output):
    """names of files / declarations lake reported errors for"""
    out = set()
    for pos in set(re.findall(r'error: (\S+\.lean:\d+:\d+)', output)):
        fn, ln, _ = pos.rsplit(':', 2)
        name = None
        try:
            lines = open(os.path.join(LEAN_DIR, fn)).read().split('\n')
            decl = re.compile(r'\s*(?:@\[[^\]]*\]\s*)?(?:private\s+)?(?:theorem|lemma|def|example|instance|abbrev)\s+(\S+)')
            # an error reported at the doc comment of a declaration belongs to the declaration that follows
            j = min(int(ln), len(lines)) - 1
            if lines[j].lstrip().startswith('/--'):
                while j < len(lines) and not decl.match(lines[j]):
                    j += 1
                if j < len(lines):
                    name = decl.match(lines[j]).group(1)
            for i in ([] if name else range(min(int(ln), len(lines)) - 1, -1, -1)):
                m = re.match(r'\s*(?:@\[[^\]]*\]\s*)?(?:private\s+)?(?:theorem|lemma|def|example|instance|abbrev)\s+(\S+)', lines[i])
                if m:
                    name = m.group(1)
                    break
        except OSError:
            pass
        if name == ':':
            name = 'an example'
        out.add('%s (%s)' % (pos, name) if name else pos)
    return sorted(out)


def audit_sources():
    """grep the Lean sources for forbidden constructs (outside comments)"""
    hits = []
    for root, _, files in os.walk(os.path.join(LEAN_DIR, 'FlexVerif')):
        for f in files:
            if not f.endswith('.lean'):
                continue
            path = os.path.join(root, f)
            text = open(path).read()
            text = re.sub(r'/-.*?-/', lambda m: '\n' * m.group(0).count('\n'), text, flags=re.S)
            for ln, line in enumerate(text.split('\n'), 1):
                line = line.split('--')[0]
                if FORBIDDEN.search(line):
                    hits.append('%s:%d: %s' % (os.path.relpath(path, VERIF), ln, line.strip()))
    return hits


def audit_axioms(theorems, imports=('FlexVerif',)):
    """#print axioms for each theorem; returns (dict name -> axioms list, missing list)"""
    if not theorems:
        return {}, []
    src = '\n'.join('import %s' % i for i in imports) + '\n' + '\n'.join('#print axioms %s' % t for t in theorems) + '\n'
    tmp = os.path.join(LEAN_DIR, '.audit_%d.lean' % os.getpid())
    open(tmp, 'w').write(src)
    try:
        p = subprocess.run(['lake', 'env', 'lean', tmp], cwd=LEAN_DIR, stdout=subprocess.PIPE,
                           stderr=subprocess.STDOUT, text=True)
    finally:
        os.unlink(tmp)
    out = p.stdout
    res = {}
    for t in theorems:
        short = t
        m = re.search(r"'" + re.escape(short) + r"' depends on axioms: \[([^\]]*)\]", out, re.S)
        if m:
            res[t] = [a.strip() for a in m.group(1).replace('\n', ' ').split(',') if a.strip()]
        elif re.search(r"'" + re.escape(short) + r"' does not depend on any axioms", out):
            res[t] = []
    missing = [t for t in theorems if t not in res]
    return res, missing


def modules_of(theorems):
    """the Lean modules that declare the given theorems (looked up in the sources)"""
    mods = set()
    srcs = []
    for root, _, files in os.walk(os.path.join(LEAN_DIR, 'FlexVerif')):
        for f in files:
            if f.endswith('.lean'):
                path = os.path.join(root, f)
                srcs.append((path, open(path).read()))
    for t in theorems:
        last = t.split('.')[-1]
        pat = re.compile(r'^\s*(?:@\[[^\]]*\]\s*)?(?:theorem|lemma|def)\s+(?:[\w.]+\.)?%s\b' % re.escape(last), re.M)
        for path, text in srcs:
            if pat.search(text):
                rel = os.path.relpath(path, LEAN_DIR)[:-5]
                mods.add(rel.replace(os.sep, '.'))
    return sorted(mods)


def proof_audit(ctx, theorems):
    """build + audit; records violations (no failing input) when an obligation is broken.
    Returns the number of obligations discharged.  Only the modules that declare this check's
    theorems (and what they import) and the driver are built: an obligation of another property
    that no longer checks is that property's business."""
    mods = modules_of(theorems)
    ok, out = lean_build(tuple(mods) + ('fvdriver',))
    if not ok:
        ctx.build_output = out
        ctx.proof_broken = lean_failed_decls(out) or ['lake build failed']
        return 0
    ctx.proof_broken = []
    hits = audit_sources()
    if hits:
        ctx.proof_broken += ['forbidden construct: ' + h for h in hits]
    ax, missing = audit_axioms(theorems, imports=tuple(mods) or ('FlexVerif',))
    for t in missing:
        ctx.proof_broken.append('theorem not found: ' + t)
    good = 0
    for t, axs in ax.items():
        bad = [a for a in axs if a not in ALLOWED_AXIOMS]
        if bad:
            ctx.proof_broken.append('theorem %s depends on %s' % (t, bad))
        else:
            good += 1
    ctx.axioms = ax
    return good


def finish(ctx, level, coverage, assumptions=()):
    os.makedirs(EVIDENCE_DIR, exist_ok=True)
    wall = time.time() - ctx.t0
    ev = {
        'property_id': ctx.prop,
        'tier': ctx.tier,
        'seed': ctx.seed,
        'level': level,
        'coverage': coverage,
        'assumptions': list(assumptions) + ctx.assumptions,
        'wall_s': round(wall, 2),
        'violations': len(ctx.violations),
        'known_findings_seen': ctx.known,
    }
    open(os.path.join(EVIDENCE_DIR, ctx.prop + '.json'), 'w').write(json.dumps(ev, indent=1, default=str) + '\n')
    for k in ctx.known:
        print('KNOWN-FINDING: property=%s %s' % (ctx.prop, k))
    for v in ctx.violations:
        print('VIOLATION property=%s replay=%s%s' % (ctx.prop, v['replay'], ' no-failing-input-found' if v['no_input'] else ''))
        print('  ' + v['what'][:500])
    print('%s %s tier=%s seed=%d wall=%.1fs violations=%d' % (
        'FAIL' if ctx.violations else 'PASS', ctx.prop, ctx.tier, ctx.seed, wall, len(ctx.violations)))
    sys.stdout.flush()
    return 1 if ctx.violations else 0


def parse_args(argv):
    import argparse
    ap = argparse.ArgumentParser()
    ap.add_argument('prop')
    ap.add_argument('--tier', default=os.environ.get('VERIF_TIER', 'quick'))
    ap.add_argument('--seed', type=int, default=int(os.environ.get('VERIF_SEED', '1')))
    ap.add_argument('--replay', default=None)
    a = ap.parse_args(argv)
    if a.tier not in ('quick', 'thorough'):
        a.tier = 'quick'
    return a

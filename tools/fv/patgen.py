"""Generation of rule sets (abstract syntax) and printing to flex's surface syntax and to the
s-expression form the Lean driver reads.

Pattern AST (tuples):
  ('chr', c) ('dot',) ('cls', clsexpr) ('str', [c..]) ('cat', a, b) ('alt', a, b)
  ('star', a) ('plus', a) ('opt', a) ('rep', a, lo, hi|None) ('grp', si, ci, ss, cs, a)
  ('ref', name, a)   -- {name} reference to a definition whose body is a  (semantically a group)
clsexpr: ('br', neg, [item..]) | ('diff', e, br) | ('union', e, br)
item: ('c', ch) | ('r', lo, hi) | ('p', name, neg)
"""
import random

POSIX = ['alnum', 'alpha', 'blank', 'cntrl', 'digit', 'graph', 'lower', 'print', 'punct',
         'space', 'upper', 'xdigit']

SAFE_LIT = set(b"abcdefghijklmnopqrstuvwxyzABCDEFGHIJKLMNOPQRSTUVWXYZ0123456789_,:;=!@~&'")
SIMPLE_ESC = {7: 'a', 8: 'b', 12: 'f', 10: 'n', 13: 'r', 9: 't', 11: 'v'}


# ---------------------------------------------------------------- s-expressions
def sx_item(it):
    if it[0] == 'c':
        return '(c %d)' % it[1]
    if it[0] == 'r':
        return '(r %d %d)' % (it[1], it[2])
    return '(p %s %d)' % (it[1], 1 if it[2] else 0)


def sx_br(b):
    return '(br %d %s)' % (1 if b[1] else 0, ' '.join(sx_item(i) for i in b[2]))


def sx_cls(e):
    if e[0] == 'br':
        return sx_br(e)
    return '(%s %s %s)' % (e[0], sx_cls(e[1]), sx_br(e[2]))


def sx(p):
    k = p[0]
    if k == 'chr':
        return '(chr %d)' % p[1]
    if k == 'dot':
        return 'dot'
    if k == 'cls':
        return '(cls %s)' % sx_cls(p[1])
    if k == 'str':
        return '(str %s)' % ' '.join(str(c) for c in p[1])
    if k in ('cat', 'alt'):
        return '(%s %s %s)' % (k, sx(p[1]), sx(p[2]))
    if k in ('star', 'plus', 'opt'):
        return '(%s %s)' % (k, sx(p[1]))
    if k == 'rep':
        return '(rep %s %d %s)' % (sx(p[1]), p[2], 'inf' if p[3] is None else str(p[3]))
    if k == 'grp':
        return '(grp %d %d %d %d %s)' % (p[1], p[2], p[3], p[4], sx(p[5]))
    if k == 'ref':
        return '(grp 0 0 0 0 %s)' % sx(p[2])
    raise ValueError(k)


# ---------------------------------------------------------------- flex surface syntax
class Printer:
    """Prints patterns; every random choice of surface form comes from `rng`."""

    def __init__(self, rng, posix_prec=False, vary=True):
        self.rng = rng
        self.posix_prec = posix_prec
        self.vary = vary
        self.defs = {}        # name -> printed body
        self.x = 0            # depth of (?x: groups being printed: white space and comments are free there

    def fill(self):
        """inside a (?x: group: white space or a comment, which flex must ignore"""
        if self.x > 0 and self.rng.random() < 0.45:
            f = self.rng.choice([' ', '  ', '\t', ' /* c */ ', '/**/', ' ', '\n  '])
            # (a definition ends with its line: no newline filler inside one)
            return ' ' if getattr(self, 'in_def', 0) and '\n' in f else f
        return ''

    def esc_char(self, c, in_class=False, in_str=False):
        r = self.rng
        if c in SAFE_LIT and not (in_class and c == ord('-')):
            if not self.vary or r.random() < 0.8:
                return chr(c)
        forms = ['hex', 'oct']
        if c in SIMPLE_ESC:
            forms += ['simple', 'simple']
        if 33 <= c <= 126 and not chr(c).isalnum():
            forms += ['bs', 'bs']
        f = r.choice(forms) if self.vary else forms[0]
        if f == 'hex':
            return '\\x%02x' % c
        if f == 'oct':
            return '\\%03o' % c
        if f == 'simple':
            return '\\' + SIMPLE_ESC[c]
        return '\\' + chr(c)

    def p_item(self, it):
        if it[0] == 'c':
            return self.esc_char(it[1], in_class=True)
        if it[0] == 'r':
            return self.esc_char(it[1], in_class=True) + '-' + self.esc_char(it[2], in_class=True)
        return '[:%s%s:]' % ('^' if it[2] else '', it[1])

    def p_br(self, b):
        return '[' + ('^' if b[1] else '') + ''.join(self.p_item(i) for i in b[2]) + ']'

    def p_cls(self, e):
        if e[0] == 'br':
            return self.p_br(e)
        op = '{-}' if e[0] == 'diff' else '{+}'
        return self.p_cls(e[1]) + op + self.p_br(e[2])

    # precedence levels: 0 alt, 1 cat, 2 postfix operand (atom)
    def pr(self, p, lvl=0):
        k = p[0]
        r = self.rng
        if k == 'chr':
            c = p[1]
            if self.vary and r.random() < 0.1:
                return '"' + self.esc_char(c, in_str=True) + '"' if c not in (34, 92) else self.esc_char(c)
            if self.vary and r.random() < 0.06 and c != 10:
                return '[' + self.esc_char(c, in_class=True) + ']' if not _has_case(c) else self.esc_char(c)
            return self.esc_char(c)
        if k == 'dot':
            return '.'
        if k == 'cls':
            return self.p_cls(p[1])
        if k == 'str':
            body = ''
            for c in p[1]:
                if c in (34, 92):
                    body += '\\' + chr(c)
                elif 32 <= c <= 126 and (not self.vary or r.random() < 0.85):
                    body += chr(c)
                else:
                    body += '\\x%02x' % c if r.random() < 0.5 else '\\%03o' % c
            return '"' + body + '"'
        if k == 'alt':
            s = self.pr(p[1], 0) + self.fill() + '|' + self.fill() + self.pr(p[2], 1)
            return '(' + self.fill() + s + self.fill() + ')' if lvl > 0 else s
        if k == 'cat':
            s = self.pr(p[1], 1) + self.fill() + self.pr(p[2], 1)
            # right operand at level 1 is fine: cat is associative
            return '(' + s + ')' if lvl > 1 else s
        if k in ('star', 'plus', 'opt'):
            op = {'star': '*', 'plus': '+', 'opt': '?'}[k]
            return self.pr_operand(p[1]) + op
        if k == 'rep':
            lo, hi = p[2], p[3]
            if hi is None:
                q = '{%d,}' % lo
            elif hi == lo and (not self.vary or r.random() < 0.7):
                q = '{%d}' % lo
            else:
                q = '{%d,%d}' % (lo, hi)
            if self.posix_prec:
                # POSIX precedence: {} applies to the whole series (concatenation) to its left, so
                # `ab{2}` is `(ab){2}` and `x(ab){2}` is `(x(ab)){2}`: the repetition is printed as a
                # series of its own — bare where it is a whole alternative, in parentheses elsewhere
                inner = self.pr(p[1], 1) + q
                return inner if lvl == 0 else '(' + inner + ')'
            return self.pr_operand(p[1]) + q
        if k == 'grp':
            si, ci, ss, cs, a = p[1:]
            xflag = self.vary and not self.posix_prec and r.random() < 0.2       # surface syntax only: the pattern is the same
            if not (si or ci or ss or cs or xflag):
                return '(' + self.fill() + self.pr(a, 0) + self.fill() + ')'
            on = ('i' if si else '') + ('s' if ss else '') + ('x' if xflag else '')
            off = ('i' if ci else '') + ('s' if cs else '')
            if xflag:
                self.x += 1
            body = self.fill() + self.pr(a, 0) + self.fill()
            if xflag:
                self.x -= 1
            return '(?' + on + ('-' + off if off else '') + ':' + body + ')'
        if k == 'ref':
            name, a = p[1], p[2]
            if name not in self.defs:
                x, self.x = self.x, 0
                self.in_def = getattr(self, 'in_def', 0) + 1
                self.defs[name] = self.pr(a, 0)
                self.in_def -= 1
                self.x = x
            return '{' + name + '}'
        raise ValueError(k)

    def pr_operand(self, p):
        """operand of a postfix operator"""
        k = p[0]
        if k in ('chr', 'dot', 'cls', 'grp', 'ref'):
            s = self.pr(p, 2)
            # a quoted single char or plain char is a singleton; fine
            return s
        if k == 'str' and len(p[1]) == 1:
            return self.pr(p, 2)
        return '(' + self.pr(p, 0) + ')'


def _has_case(c):
    return 65 <= c <= 90 or 97 <= c <= 122


def _ends_rep(p):
    return p[0] == 'rep'


# ---------------------------------------------------------------- random generation
class Gen:
    def __init__(self, rng, csize=256, alphabet=None, allow_nul=True, caseins=False,
                 allow_classops=True, union_negated=True, maxrep=4, allow_flags=True):
        self.rng = rng
        self.allow_flags = allow_flags      # False: no (?i:) / (?s:) groups (not available with posix-compat)
        self.csize = csize
        self.caseins = caseins
        self.allow_classops = allow_classops
        self.union_negated = union_negated
        self.maxrep = maxrep
        # a small working alphabet keeps rules overlapping (interesting competition)
        if alphabet is None:
            alphabet = [97, 98, 99, 10, 65, 48]
            if allow_nul:
                alphabet.append(0)
            if csize == 256:
                alphabet += [0x80, 0xff]
        self.alphabet = alphabet
        self.ndefs = 0

    def ch(self):
        r = self.rng
        if r.random() < 0.85:
            return r.choice(self.alphabet)
        return r.randrange(self.csize)

    def item(self, in_ci):
        r = self.rng
        x = r.random()
        if x < 0.55:
            return ('c', self.ch())
        if x < 0.8:
            if in_ci:
                # keep to ranges flex does not call ambiguous: same-case letters or digits
                lo = r.choice([97, 65, 48])
                span = 25 if lo != 48 else 9
                a = lo + r.randrange(span)
                b = a + r.randrange(lo + span - a + 1)
                return ('r', a, b)
            a = self.ch()
            b = self.ch()
            if a > b:
                a, b = b, a
            if r.random() < 0.5:
                b = min(self.csize - 1, a + r.randrange(6))
            return ('r', a, b)
        name = r.choice(POSIX)
        neg = r.random() < 0.3
        if in_ci and neg and name in ('lower', 'upper'):
            neg = False
        return ('p', name, neg)

    def bracket(self, in_ci, allow_neg=True):
        r = self.rng
        n = r.choice([1, 1, 2, 2, 3, 4])
        return ('br', allow_neg and r.random() < 0.3, [self.item(in_ci) for _ in range(n)])

    def clsexpr(self, in_ci):
        r = self.rng
        e = self.bracket(in_ci)
        if self.allow_classops:
            while r.random() < 0.2:
                if r.random() < 0.5 or (not self.union_negated and e[0] == 'br' and e[1]):
                    e = ('diff', e, self.bracket(in_ci))
                else:
                    e = ('union', e, self.bracket(in_ci, allow_neg=self.union_negated))
        return e

    def pat(self, depth, in_ci=None):
        r = self.rng
        if in_ci is None:
            in_ci = self.caseins
        if depth <= 0:
            x = r.random()
            if x < 0.5:
                return ('chr', self.ch())
            if x < 0.6:
                return ('dot',)
            if x < 0.85:
                return ('cls', self.clsexpr(in_ci))
            return ('str', [self.ch() for _ in range(r.choice([1, 2, 2, 3]))])
        x = r.random()
        if x < 0.30:
            return ('cat', self.pat(depth - 1, in_ci), self.pat(depth - 1, in_ci))
        if x < 0.42:
            return ('alt', self.pat(depth - 1, in_ci), self.pat(depth - 1, in_ci))
        if x < 0.50:
            return ('star', self.pat(depth - 1, in_ci))
        if x < 0.58:
            return ('plus', self.pat(depth - 1, in_ci))
        if x < 0.64:
            return ('opt', self.pat(depth - 1, in_ci))
        if x < 0.72:
            lo = r.randrange(0, self.maxrep)
            hi = r.choice([None, lo, lo + r.randrange(1, 3)])
            if lo == 0 and (hi is None or hi == 0):
                lo = 1          # flex refuses {0} and {0,} ("iteration value must be positive")
                if hi == 0:
                    hi = 1
            return ('rep', self.pat(depth - 1, in_ci), lo, hi)
        if x < 0.80:
            si = r.random() < 0.3
            ci = (not si) and r.random() < 0.15
            ss = r.random() < 0.3
            cs = (not ss) and r.random() < 0.1
            if not self.allow_flags:
                si = ci = ss = cs = False
            new_ci = (in_ci or si) and not ci
            return ('grp', int(si), int(ci), int(ss), int(cs), self.pat(depth - 1, new_ci))
        if x < 0.84 and in_ci == self.caseins:
            self.ndefs += 1
            return ('ref', 'D%d' % self.ndefs, self.pat(depth - 1, in_ci))
        return self.pat(depth - 1, in_ci)


def nullable(p):
    k = p[0]
    if k in ('chr', 'dot', 'cls'):
        return False
    if k == 'str':
        return len(p[1]) == 0
    if k == 'cat':
        return nullable(p[1]) and nullable(p[2])
    if k == 'alt':
        return nullable(p[1]) or nullable(p[2])
    if k in ('star', 'opt'):
        return True
    if k == 'plus':
        return nullable(p[1])
    if k == 'rep':
        return p[2] == 0 or nullable(p[1])
    if k == 'grp':
        return nullable(p[5])
    if k == 'ref':
        return nullable(p[2])
    raise ValueError(k)

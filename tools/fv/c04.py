"""C04 runtime correspondence check (see DESIGN.md)."""
from . import rtprop

THEOREMS = ['FlexVerif.validate_sound', 'FlexVerif.Re.pderiv_correct']


def run(ctx):
    q1, q2, q3 = {'quick': (64, 48, 32), 'thorough': (600, 400, 200)}[ctx.tier]
    plan = [('plain', q1, 8), ('ops', q2, 6), ('unput', q3, 4), ('trail', q2, 6), ('reject', q3, 4), ('stdioint', q3, 6), ('sevennul', q3, 4)]
    return rtprop.run(ctx, THEOREMS, plan, 'exploration',
                      'NUL and 8-bit bytes: generated inputs carry NUL (weight 2/11), 0x80 and 0xff; patterns mention them; all table modes, interactive and batch, with trailing context (fixed and variable) and REJECT; traces must equal the byte-agnostic abstract scanner' + '. Kernel-checked theorems about the abstract scanner (listed under obligations) + differential '
                      'correspondence of the real generated scanner (ASan/UBSan build) with that model on generated cases.')

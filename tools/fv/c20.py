"""C20 — user code verbatim through m4, #line accuracy."""
import os, random, re, subprocess
from multiprocessing import Pool
from . import common, flexrun

THEOREMS = ['FlexVerif.M4.unq_escA', 'FlexVerif.M4.unq_escB', 'FlexVerif.M4.unq_QS_A', 'FlexVerif.M4.unq_QE_A',
            'FlexVerif.M4.unq_QS_B', 'FlexVerif.M4.unq_QE_B']

TOKENS = ['[[', ']]', ']]]', '[[[', '[', ']', '][', '[]', 'm4_define', 'm4_dnl', 'm4_include(x)', 'M4_YY_NOOP',
          'm4_ifdef([[X]],[[Y]])', '$1', '$@', '`', "'", '#', 'yytext', 'YY_G(x)', 'M4_MODE_PREFIX', '%%', '%}', '%{',
          'yy_', 'dnl', 'define', ',', '(', ')', 'a', ' ', 'yy[[]]', ']]m4_errprint(x)[[', 'M4_HOOK_REJECT',
          'yylineno', 'yyleng-1', 'YY_FATAL_ERROR']


def gen_payload(rng, maxtok=8, avoid=()):
    for _ in range(50):
        s = ''.join(rng.choice(TOKENS) for _ in range(rng.randrange(1, maxtok)))
        if not any(a in s for a in avoid):
            return s
    return 'x[[y]]z'


def _m4_job(job):
    (idx, seed, n) = job
    rng = random.Random(seed)
    out = {'runs': 0, 'problems': [], 'samples': []}
    for k in range(n):
        scheme = rng.choice('AB')
        code = gen_payload(rng, 10)
        if rng.random() < 0.3:
            code = ''.join(rng.choice('[]') for _ in range(rng.randrange(1, 12)))
        hexc = code.encode('latin1').hex()
        rc, dout, derr = flexrun.run_driver(['m4esc', scheme] + ([hexc] if hexc else []))
        lines = dout.split('\n')
        esc = bytes.fromhex(lines[0]) if lines[0] else b''
        unq = bytes.fromhex(lines[1]) if len(lines) > 1 and lines[1] else b''
        src = (b"m4_changecom`'m4_dnl\nm4_changequote`'m4_dnl\nm4_changequote([[,]])m4_dnl\n"
               b"m4_define([[M4_YY_NOOP]])m4_dnl\n[[" + esc + b"]]")
        p = subprocess.run(['m4', '-P'], input=src, stdout=subprocess.PIPE, stderr=subprocess.PIPE)
        out['runs'] += 1
        real = p.stdout
        if unq != code.encode('latin1'):
            out['problems'].append({'what': 'Lean model: unq(esc%s(code)) != code' % scheme, 'code': code})
        if real != code.encode('latin1') or p.returncode != 0:
            out['problems'].append({'what': 'GNU m4 -P on scheme %s escape of %r gives %r (rc=%d %s)' % (
                scheme, code, real[:80], p.returncode, p.stderr[:100]), 'code': code, 'scheme': scheme})
        elif len(out['samples']) < 2:
            out['samples'].append({'scheme': scheme, 'code': code, 'escaped': esc.decode('latin1')})
    return out


REGIONS = ['top', 'sect1_block', 'sect1_indent', 'sect2_block', 'action_brace', 'action_line', 'action_string',
           'action_comment', 'action_apos_comment', 'action_char', 'sect3', 'sect3_comment', 'sect2_mid_block', 'action_pctbrace']


def build_spec(rng):
    """a .l file with marked payloads in every kind of user-code region.
    Returns (text, [(region, marker_id, payload)])"""
    marks = []
    mid = [0]

    def mark(region, payload, kind):
        mid[0] += 1
        k = mid[0]
        marks.append((region, k, payload))
        if kind == 'string':
            return 'static const char *fv_s%d = "FVB%d:%s:FVE%d";' % (k, k, payload, k)
        if kind == 'comment':
            return '/* FVB%d:%s:FVE%d */' % (k, payload, k)
        if kind == 'stmt':
            return 'fv_use("FVB%d:%s:FVE%d");' % (k, payload, k)
        if kind == 'aposcomment':       # an unmatched apostrophe before the payload, in a // comment
            return "// don't FVB%d:%s:FVE%d" % (k, payload, k)
        if kind == 'charconst':         # a (multi-character) character constant
            return "(void) 'FVB%d:%s:FVE%d';" % (k, payload, k)
    bad_str = ['"', '\\', '\n', '%}', '%{', '%%', "'"]
    bad_cmt = ['*/', '\n', '%}', '%{', '%%', '/*']
    P = lambda avoid: gen_payload(rng, 7, avoid)
    L = []
    blank = lambda: [''] * rng.choice([0, 0, 1, 2])
    if rng.random() < 0.25:
        # the closing brace of the %top block at the end of a line of code (F72), and a second %top block right after it
        L += ['%top{', mark('top', P(bad_str), 'string'), mark('top', P(bad_cmt), 'comment') + ' }', '%top{', 'static int fv_top2;', '}'] + blank()
    else:
        L += ['%top{', mark('top', P(bad_str), 'string'), mark('top', P(bad_cmt), 'comment'), '}'] + blank()
    feats = set(f for f in ('longline', 'strcont', 'indent_then_block', 'cmtcont', 'indent_gap', 'mid_block', 'blank_runs',
                            'pipe_then_pctbrace', 'less_multiline', 'bs_bracket', 'apos_line', 'less_brackets', 'lexopt') if rng.random() < 0.3)
    if 'lexopt' in feats:
        # old-style lex table-size declarations: ignored, but they are lines of the input
        L += rng.sample(['%e 1019', '%p 2807', '%n 371', '%k 284 /* packed classes */', '%a 1213', '%o 1117'], rng.choice([1, 2, 4]))
    if 'indent_then_block' in feats:
        L += ['    static int fv_indented_first;']
    L += ['%{', '#include <stdio.h>', 'static void fv_use(const char *s) { (void) s; }',
          mark('sect1_block', P(bad_str), 'string'), mark('sect1_block', P(bad_cmt), 'comment'), '%}'] + blank()
    L += ['    ' + mark('sect1_indent', P(bad_str), 'string')] + blank()
    if 'indent_gap' in feats:
        # indented code lines separated by lines flex skips: each group needs its own #line
        L += ['    ' + mark('sect1_indent', P(bad_str), 'string'), '', '    ' + mark('sect1_indent', P(bad_str), 'string'),
              'DG2 [0-7]', '    ' + mark('sect1_indent', P(bad_str), 'string'), '%option nodefault', '%option default',
              '    ' + mark('sect1_indent', P(bad_str), 'string')]
    if 'blank_runs' in feats:
        # runs of blank lines inside user code are part of it
        L += ['%{', mark('sect1_block', P(bad_cmt), 'comment')] + [''] * rng.choice([2, 3, 4]) + [mark('sect1_block', P(bad_cmt), 'comment'), '%}']
    L += ['%option noyywrap noinput nounput', 'DIG [0-9]', '%x SC'] + blank()
    L += ['%%'] + blank()
    L += ['%{', mark('sect2_block', P(bad_cmt), 'comment'), '%}'] + blank()
    if 'longline' in feats:
        L += ['%{', '/* ' + 'x' * rng.choice([4094, 4096, 5000, 9000]) + ' */', '%}']
    if 'strcont' in feats:
        L += ['z1\t{ fv_use("ab\\', 'cd"); }'] + blank()
    if 'cmtcont' in feats:
        L += ['z2\t{ /* a comment', '   over two lines */ fv_use("z2"); }'] + blank()
    if 'less_multiline' in feats:
        L += ['z3\t{ yyless(', '\t\t1', '\t); }'] + blank()
    if 'less_brackets' in feats:
        # nested indexing in the argument of yyless(): the call is emitted outside the m4 quotes (F71)
        L += ['z9\t{ static int fv_ix[2], fv_jx[1]; yyless(fv_ix[fv_jx[0]]); }'] + blank()
    if 'bs_bracket' in feats:
        # a backslash right before [[ or ]] inside a string / character constant of an action (F70)
        q = P(bad_str + ['{', '}'])
        L += ['z6\t' + mark('action_string', rng.choice(['\\]]', '\\[[', 'a\\]]b', '\\]\\]]']) + q, 'stmt')] + blank()
    if 'apos_line' in feats:
        # a one-line action that ends in a // comment with an apostrophe: the rule still needs its break (F69)
        L += ['z7\tfv_use("z7"); // don\'t', 'z8\tfv_use("z8");'] + blank()
    L += ['a+\t{ ' + mark('action_brace', P(bad_str + ['{', '}']), 'stmt') + ' }'] + blank()
    if 'mid_block' in feats:
        # a %{ %} block between two rules: copied to the output (its place there is the user's business)
        L += ['%{', mark('sect2_mid_block', P(bad_cmt + ['REJECT']), 'comment'), '%}'] + blank()
    if 'pipe_then_pctbrace' in feats:
        L += ['z4\t|', 'z5\t%{ ' + mark('action_pctbrace', P(bad_str + ['{', '}', 'REJECT']), 'stmt') + ' %}'] + blank()
    L += ['b\t{', '\t' + mark('action_brace', P(bad_str + ['{', '}']), 'stmt'),
          '\t' + mark('action_comment', P(bad_cmt), 'comment'),
          '\t' + mark('action_apos_comment', P(['\n', '%}', '%{', '%%', '\\']), 'aposcomment'),
          '\t' + mark('action_char', P(bad_str + ['{', '}']), 'charconst'), '\t}'] + blank()
    L += ['c\t|', 'd\t' + mark('action_line', P(bad_str + ['{', '}']), 'stmt')] + blank()
    L += ['<SC>e{DIG}\t' + mark('action_string', P(bad_str + ['{', '}']), 'stmt') + " if (yytext[0] == '[' || yytext[0] == ']') {}"] + blank()
    L += ['.|\\n\t;'] + blank()
    L += ['%%'] + blank()
    L += [mark('sect3', P(bad_str), 'string'), mark('sect3_comment', P(bad_cmt), 'comment'),
          'int main(void) { while (yylex()) {} return 0; }']
    return '\n'.join(L) + '\n', marks, sorted(feats)


def _e2e_job(job):
    (flex, work, idx, seed) = job
    rng = random.Random(seed)
    text, marks, feats = build_spec(rng)
    lf = os.path.join(work, 'c20_%d.l' % idx)
    cf = os.path.join(work, 'c20_%d.c' % idx)
    open(lf, 'w', encoding='latin1').write(text)
    res = {'idx': idx, 'lex': text, 'problems': [], 'marks': len(marks), 'linedirs': 0, 'feats': feats}
    noline = rng.random() < 0.3
    noline_opt = noline and rng.random() < 0.5       # the %option spelling
    if noline_opt:
        text = '%option noline\n' + text
        marks_shift = 1
        open(lf, 'w', encoding='latin1').write(text)
    opts = (['-L'] if noline and not noline_opt else []) + rng.choice([[], ['-Cf']])
    hf = None
    if rng.random() < 0.4:
        # a header as well: the %top code is copied into it too
        hf = os.path.join(work, 'c20_%d.h' % idx)
        opts = opts + ['--header-file=' + hf]
        res['feats'] = res['feats'] + ['header']
    res['known'] = []
    rc, so, se = flexrun.run_flex(flex, lf, cf, opts, timeout=10)
    if rc != 0:
        res['status'] = 'flexfail'
        res['problems'].append('flex refuses a specification whose user code is valid C: %s' % se[-300:])
        return res
    out = open(cf, encoding='latin1').read()
    # (1) every marked payload arrives byte for byte
    for region, k, payload in marks:
        m = re.search(r'FVB%d:(.*?):FVE%d' % (k, k), out, re.S)
        if not m:
            res['problems'].append('user code of region %s (marker %d) is missing from the generated scanner' % (region, k))
        elif m.group(1) != payload:
            res['problems'].append('user code of region %s altered: wrote %r, scanner has %r' % (region, payload, m.group(1)))
    mm = re.search(r'[^\n]([ \t]*#line \d+ "[^"\n]*")', out)
    if mm:
        res['problems'].append('a #line directive stands in the middle of an output line: %r' % out[max(0, mm.start() - 30):mm.end()][-90:])
    if 'less_brackets' in feats and 'yyless(fv_ix[fv_jx[0]]);' not in out:
        res['problems'].append('the action `yyless(fv_ix[fv_jx[0]]);` does not arrive verbatim in the generated scanner')
    if 'apos_line' in feats:
        m7 = re.search(r'fv_use\("z7"\);(.*?)fv_use\("z8"\);', out, re.S)
        if not m7:
            res['problems'].append('the actions of the rules z7/z8 are missing from the generated scanner')
        elif 'break;' not in m7.group(1):
            res['problems'].append("the action `fv_use(\"z7\"); // don't` is not followed by a break: it falls through into the next rule's action")
    if hf:
        try:
            hout = open(hf, encoding='latin1').read()
        except OSError:
            hout = None
            res['problems'].append('--header-file given, flex exits 0, but no header was written')
        if hout is not None:
            for region, k, payload in marks:
                if region != 'top':
                    continue
                m = re.search(r'FVB%d:(.*?):FVE%d' % (k, k), hout, re.S)
                if not m:
                    res['problems'].append('%%top code (marker %d) is missing from the generated header' % k)
                elif m.group(1) != payload:
                    res['problems'].append('%%top code altered in the generated header: wrote %r, header has %r' % (payload, m.group(1)))
            p = subprocess.run(['gcc', '-w', '-fsyntax-only', '-x', 'c', hf], stdout=subprocess.PIPE, stderr=subprocess.STDOUT, text=True)
            if p.returncode != 0:
                res['problems'].append('generated header does not compile on its own: %s' % p.stdout[-300:])
            try:
                os.unlink(hf)
            except OSError:
                pass
    # (2) it compiles
    p = subprocess.run(['gcc', '-w', '-fsyntax-only', cf], stdout=subprocess.PIPE, stderr=subprocess.STDOUT, text=True)
    if p.returncode != 0:
        res['problems'].append('generated scanner does not compile: %s' % p.stdout[-300:])
    # (3) #line directives
    olines = out.split('\n')
    llines = text.split('\n')
    for i, l in enumerate(olines):
        m = re.match(r'#line (\d+) "(.*)"', l)
        if not m:
            continue
        res['linedirs'] += 1
        n, fn = int(m.group(1)), m.group(2)
        if noline:
            if noline_opt and n == 1 and os.path.basename(fn) == os.path.basename(lf) and not res['known']:
                res['known'].append('F20')
                continue
            res['problems'].append('%s given but the scanner contains %s' % ('%option noline' if noline_opt else '-L', l))
            continue
        if os.path.basename(fn) == os.path.basename(cf):
            if n != i + 2:
                res['problems'].append('#line %d "%s" stands at output line %d: the next line is line %d' % (n, fn, i + 1, i + 2))
        elif os.path.basename(fn) == os.path.basename(lf):
            nxt = olines[i + 1] if i + 1 < len(olines) else ''
            src_line = llines[n - 1] if 0 < n <= len(llines) else None
            if src_line is None:
                res['problems'].append('#line %d "%s": the input file has only %d lines' % (n, fn, len(llines)))
            elif re.match(r'\s*case \d+:', nxt):
                # a '|' action: nothing of the user's follows; the directive must name the rule's own line
                if not src_line.rstrip().endswith('|'):
                    res['problems'].append('#line %d "%s" stands for a \'|\' action, but input line %d is %r' % (n, fn, n, src_line[:60]))
            elif nxt.strip() == 'yyecho();':
                pass        # the default rule's action is attributed to the line of the closing %%
            elif nxt.strip() and not nxt.startswith('#line') and len(nxt) < 4000 and nxt.strip() not in src_line:
                res['problems'].append('#line %d "%s" precedes %r, but input line %d is %r' % (n, fn, nxt.strip()[:60], n, src_line[:60]))
            if nxt.strip() and 'FVB' in nxt:
                src = llines[n - 1] if 0 < n <= len(llines) else ''
                mk = re.search(r'FVB\d+:', nxt).group(0)
                if mk not in src:
                    res['problems'].append('#line %d "%s" precedes %r, which is on input line %d' % (
                        n, fn, nxt.strip()[:60], next((j + 1 for j, s in enumerate(llines) if mk in s), -1)))
    # (4) attribution: every marked line of user code is attributed to its own input line (a missing
    #     directive is as wrong as a wrong one), and generated code is not attributed to the input file
    if not noline:
        where = {}
        for j, sl in enumerate(llines):
            for mk in re.findall(r'FVB\d+:', sl):
                where[mk] = j + 1
        cur_file, cur_line = None, None
        for i, l in enumerate(olines):
            m = re.match(r'#line (\d+) "(.*)"', l)
            if m:
                cur_file, cur_line = os.path.basename(m.group(2)), int(m.group(1))
                continue
            for mk in re.findall(r'FVB\d+:', l):
                if cur_file != os.path.basename(lf) or cur_line != where.get(mk):
                    res['problems'].append('user code %s of input line %s stands at output line %d, which is attributed to %s line %s '
                                           '(no or wrong #line before it)' % (mk, where.get(mk), i + 1, cur_file, cur_line))
            if re.match(r'#define FLEX_SCANNER\b|#define YY_FLEX_MAJOR_VERSION\b', l) and cur_file == os.path.basename(lf):
                res['problems'].append('generated code (%r, output line %d) is attributed to the input file, line %s: no #line back to the '
                                       'output file after user code' % (l[:40], i + 1, cur_line))
            if cur_line is not None:
                cur_line += 1
    # (5) blank lines inside user code (a %{ %} block) survive
    for j in range(len(llines) - 1):
        if 'FVB' in llines[j] and llines[j + 1] == '' and llines[j].startswith('/* FVB') and j > 0 and llines[j - 1] == '%{':
            k = j + 1
            while k < len(llines) and llines[k] == '':
                k += 1
            if k < len(llines) and 'FVB' in llines[k] and k - j - 1 >= 2:
                a = re.search(r'FVB\d+:', llines[j]).group(0)
                b = re.search(r'FVB\d+:', llines[k]).group(0)
                ia = next((i for i, l in enumerate(olines) if a in l), None)
                ib = next((i for i, l in enumerate(olines) if b in l), None)
                if ia is not None and ib is not None:
                    got = sum(1 for l in olines[ia + 1:ib] if l.strip() == '')
                    if got != k - j - 1:
                        res['problems'].append('%d blank lines between two lines of user code, %d in the scanner%s' % (
                            k - j - 1, got, ' (-L / noline)' if noline else ''))
    # (6) the action of every rule starts with YY_RULE_SETUP
    for region, k, payload in marks:
        if not region.startswith('action'):
            continue
        i = next((i for i, l in enumerate(olines) if 'FVB%d:' % k in l), None)
        if i is None:
            continue
        j = i
        while j > 0 and not re.match(r'\s*case \d+:', olines[j]):
            j -= 1
        if not any('YY_RULE_SETUP' in l for l in olines[j:i + 1]):
            res['problems'].append('the action of region %s (marker %d) runs without YY_RULE_SETUP (case label at output line %d)' % (region, k, j + 1))
    res['status'] = 'ok'
    for f in (lf, cf):
        try:
            os.unlink(f)
        except OSError:
            pass
    return res


def run(ctx):
    flex, src = flexrun.build_flex()
    work = flexrun.scratch_root()
    discharged = common.proof_audit(ctx, THEOREMS)
    for b in getattr(ctx, 'proof_broken', []):
        ctx.violation('proof obligation broken: ' + b, {'broken': b}, no_input=True)
    nm4, ne2e = {'quick': (32, 96), 'thorough': (400, 1500)}[ctx.tier]
    rng = ctx.rng('c20')
    with Pool(16) as pool:
        m4res = pool.map(_m4_job, [(i, rng.getrandbits(48), 12) for i in range(nm4)], chunksize=1)
        eres = pool.map(_e2e_job, [(flex, work, i, rng.getrandbits(48)) for i in range(ne2e)], chunksize=2)
    nprob = 0
    runs = sum(r['runs'] for r in m4res)
    samples = []
    for r in m4res:
        samples += r['samples'][:1]
        for p in r['problems']:
            nprob += 1
            if nprob <= 6:
                ctx.violation(p['what'], p)
    st = {}
    marks = dirs = 0
    kf = {f['id']: f for f in common.load_known_findings().get('findings', [])}
    if any('F20' in r.get('known', []) for r in eres):
        what = '%option noline leaves the initial #line 1 "<input file>" directive in the scanner (-L does not)'
        if kf.get('F20', {}).get('status') == 'known':
            print('KNOWN-FINDING: property=C20 ' + what)
        else:
            ctx.violation(what, {'finding': 'F20'})
    for r in eres:
        st[r.get('status', '?')] = st.get(r.get('status', '?'), 0) + 1
        marks += r['marks']; dirs += r['linedirs']
        for p in r['problems']:
            nprob += 1
            if nprob <= 12:
                ctx.violation(p, {'lex': r['lex']})
    cov = {
        'obligations': len(THEOREMS), 'discharged': discharged,
        'checker_cmd': 'lake build FlexVerif fvdriver; #print axioms via tools/fv/common.py',
        'trusted_base': common.TRUSTED_BASE + ['GNU m4 1.4.x as the reference for M4/Quote.lean (compared on every run)'],
        'evaluations': runs + len(eres), 'distinct_nontrivial': runs + st.get('ok', 0),
        'm4_runs': runs, 'specifications': st, 'marked_regions_checked': marks, 'line_directives_checked': dirs,
        'samples': samples[:3] or [{'note': 'none'}],
        'explanation': 'kernel-checked: for every byte string, m4 applied to flex\'s escape of it inside [[ ]] yields the '
                       'string itself, for both escape schemes (unq_escA, unq_escB); correspondence: real m4 -P agrees '
                       'with the model on adversarial strings; end to end: specifications with marked adversarial '
                       'payloads in %top, %{ %}, indented code, section-2 blocks, brace/line/| actions, strings, '
                       'comments and section 3 - payload bytes extracted from the generated scanner must be identical, '
                       'the scanner must compile, every #line must name its own line+1 or the input line of the code '
                       'that follows, -L must remove them all. Source line tracking is explored, not proved.',
    }
    return common.finish(ctx, 'proof', cov)

"""Building flex from /repo's current tree into a scratch directory, running it, and turning
its output into case-file lines for the Lean driver."""
import os, re, subprocess, shutil, tempfile, atexit, sys, json, hashlib, time

REPO = os.environ.get('FLEX_REPO', '/repo')
VERIF = os.path.dirname(os.path.dirname(os.path.dirname(os.path.abspath(__file__))))
sys.path.insert(0, os.path.join(VERIF, 'tools'))
import tables_extract

_scratch = None


def scratch_root():
    global _scratch
    if _scratch is None:
        base = os.environ.get('FLEXVERIF_SCRATCH_BASE', '/var/tmp')
        _scratch = tempfile.mkdtemp(prefix='flexverif.', dir=base)
        atexit.register(lambda: shutil.rmtree(_scratch, ignore_errors=True))
    return _scratch


GENERATED = ['*.o', '*.lo', 'flex', 'stage1flex', 'stage1scan.c', 'stage2scan.c', 'cpp-flex.h', 'c99-flex.h',
             'go-flex.h', 'parse.c', 'parse.h', 'scan.c', 'libfl.la', '.libs']


def build_flex(cflags=None, tag='flex'):
    """Copy /repo to scratch and rebuild src/flex from the sources as they are now.
    Returns (path to flex binary, source dir)."""
    root = os.path.join(scratch_root(), tag)
    if os.path.exists(os.path.join(root, 'src', 'flex.built')):
        return os.path.join(root, 'src', 'flex'), os.path.join(root, 'src')
    os.makedirs(root, exist_ok=True)
    subprocess.run(['rsync', '-a', '--delete', '--exclude', '.git', '--exclude', 'tests', '--exclude', 'po',
                    '--exclude', 'doc', '--exclude', 'examples', REPO + '/', root + '/'], check=True)
    src = os.path.join(root, 'src')
    import glob
    # the configured Makefiles carry /repo as absolute build directory (used to locate stage1flex):
    # point them at the scratch copy so that nothing stale from /repo's own build products is used
    for mk in [os.path.join(root, 'Makefile'), os.path.join(src, 'Makefile')]:
        if os.path.exists(mk):
            t = open(mk, errors='replace').read().replace(REPO.rstrip('/') + '/', root + '/').replace(
                '= ' + REPO.rstrip('/') + '\n', '= ' + root + '\n')
            open(mk, 'w').write(t)
    for pat in GENERATED:
        for f in glob.glob(os.path.join(src, pat)):
            if os.path.isdir(f):
                shutil.rmtree(f, ignore_errors=True)
            else:
                os.unlink(f)
    cmd = ['make', '-C', src, '-j16', 'flex']
    if cflags:
        cmd.append('CFLAGS=' + cflags)
    env = dict(os.environ)
    env.pop('POSIXLY_CORRECT', None)
    env['LC_ALL'] = 'C'
    p = subprocess.run(cmd, stdout=subprocess.PIPE, stderr=subprocess.STDOUT, env=env, text=True)
    if p.returncode != 0 or not os.path.exists(os.path.join(src, 'flex')):
        raise BuildError(p.stdout[-4000:])
    open(os.path.join(src, 'flex.built'), 'w').write('ok')
    return os.path.join(src, 'flex'), src


class BuildError(Exception):
    pass


def run_flex(flex, lfile, outc, opts=(), cwd=None, timeout=120, extra_env=None, preexec=None):
    env = dict(os.environ)
    env.pop('POSIXLY_CORRECT', None)
    env['LC_ALL'] = 'C'
    if extra_env:
        env.update(extra_env)
    cmd = [flex] + list(opts) + ['-o', outc, lfile]
    return run_group(cmd, env=env, cwd=cwd, timeout=timeout, preexec=preexec)


def run_group(cmd, env=None, cwd=None, timeout=120, stdin_data=None, preexec=None):
    """run a command in its own process group; on timeout kill the whole group (flex forks its
    filter chain, so killing only the first process would leave the others holding the pipes)"""
    import signal
    p = subprocess.Popen(cmd, stdin=subprocess.PIPE if stdin_data is not None else subprocess.DEVNULL,
                         stdout=subprocess.PIPE, stderr=subprocess.PIPE, env=env, cwd=cwd,
                         start_new_session=True, preexec_fn=preexec)
    try:
        so, se = p.communicate(stdin_data, timeout=timeout)
        return p.returncode, so.decode('latin1'), se.decode('latin1')
    except subprocess.TimeoutExpired:
        try:
            os.killpg(p.pid, signal.SIGKILL)
        except OSError:
            pass
        try:
            p.communicate(timeout=5)
        except Exception:
            pass
        return -999, '', 'timeout'


ARR_NAMES = ['accept', 'acclist', 'ec', 'meta', 'base', 'def', 'nxt', 'chk', 'NUL_trans',
             'transition_v', 'transition_n', 'start_state_list', 'rule_can_match_eol']


def table_lines(ctext):
    """case-file lines describing the emitted automaton; also returns the dict"""
    t = tables_extract.extract(ctext)
    A = t['arrays']
    C = t['consts']
    kind = 'compressed'
    if 'yy_transition_v' in A:
        kind = 'fast'
    elif 'yy_nxt' in A and A['yy_nxt'] and isinstance(A['yy_nxt'][0], list):
        kind = 'full'
    flags = dict(kind=kind, ecs=int('yy_ec' in A), mecs=int('yy_meta' in A),
                 reject=int('yy_acclist' in A))
    out = ['tbl ' + ' '.join('%s=%s' % kv for kv in flags.items())]
    for k in ('YY_NUM_RULES', 'YY_JAMBASE', 'YY_JAMSTATE', 'YY_NUL_EC', 'YY_END_OF_BUFFER'):
        if k in C:
            out.append('const %s %d' % (k, C[k]))
    for n in ARR_NAMES:
        key = 'yy_' + n
        if key not in A:
            continue
        v = A[key]
        if n == 'nxt' and kind == 'full':
            for row in v:
                out.append('row ' + ' '.join(map(str, row)))
        else:
            out.append('arr %s %s' % (n, ' '.join(map(str, v))))
    return out, t, flags


TBL_IDS = {1: 'accept', 2: 'base', 3: 'chk', 4: 'def', 5: 'ec', 6: 'meta', 7: 'NUL_trans', 8: 'nxt',
           9: 'rule_can_match_eol', 10: 'start_state_list', 11: 'transition', 12: 'acclist'}


def parse_tables_file(path):
    """decode a serialized-tables file with the Lean codec (fvdriver tbl-dump).
    Returns list of sets: dict(name, version, bytes, reencode, tables=[dict(id, flags, hilen, lolen, data)])"""
    rc, out, err = run_driver(['tbl-dump', path], timeout=120)
    sets = []
    for line in out.split('\n'):
        w = line.split(' ')
        if w[0] == 'set':
            d = {'tables': []}
            for kv in w[2:]:
                if '=' in kv:
                    k, v = kv.split('=', 1)
                    d['n_tables' if k == 'tables' else k] = v
            d['undecodable'] = 'undecodable' in line
            sets.append(d)
        elif w[0] == 'tbl' and sets:
            i = w.index(':')
            sets[-1]['tables'].append({'id': int(w[1]), 'flags': int(w[2]), 'hilen': int(w[3]), 'lolen': int(w[4]),
                                       'data': [int(x) for x in w[i + 1:] if x != '']})
    return sets


def arrays_of_set(tset):
    """arrays in the naming of tables_extract (yy_xxx) from a decoded set"""
    A = {}
    for t in tset['tables']:
        name = TBL_IDS.get(t['id'], 'id%d' % t['id'])
        if name == 'transition':
            A['yy_transition_v'] = t['data'][0::2]
            A['yy_transition_n'] = t['data'][1::2]
        elif name == 'nxt' and t['hilen'] > 0:
            n = t['lolen']
            A['yy_nxt'] = [t['data'][i * n:(i + 1) * n] for i in range(t['hilen'])]
        else:
            A['yy_' + name] = t['data']
    return A


def table_lines_from_arrays(A, C):
    kind = 'compressed'
    if 'yy_transition_v' in A:
        kind = 'fast'
    elif 'yy_nxt' in A and A['yy_nxt'] and isinstance(A['yy_nxt'][0], list):
        kind = 'full'
    flags = dict(kind=kind, ecs=int('yy_ec' in A), mecs=int('yy_meta' in A), reject=int('yy_acclist' in A))
    out = ['tbl ' + ' '.join('%s=%s' % kv for kv in flags.items())]
    for k in ('YY_NUM_RULES', 'YY_JAMBASE', 'YY_JAMSTATE', 'YY_NUL_EC', 'YY_END_OF_BUFFER'):
        if k in C:
            out.append('const %s %d' % (k, C[k]))
    for n in ARR_NAMES:
        key = 'yy_' + n
        if key not in A:
            continue
        v = A[key]
        if n == 'nxt' and kind == 'full':
            for row in v:
                out.append('row ' + ' '.join(map(str, row)))
        else:
            out.append('arr %s %s' % (n, ' '.join(map(str, v))))
    return out, flags


def var_rules_of(t):
    """rule numbers flex treats as variable-trailing-context rules (flagged in yy_acclist)"""
    acc = t['arrays'].get('yy_acclist', [])
    return sorted({a & 0x1fff for a in acc if (a & 0x6000)})


_driver = None


def driver_path():
    global _driver
    if _driver is None:
        _driver = os.path.join(VERIF, 'lean', '.lake', 'build', 'bin', 'fvdriver')
    return _driver


def run_driver(args, timeout=600, input_text=None):
    # another check may be relinking the driver at this moment (regenerated facts changed): wait for it
    for attempt in range(120):
        try:
            p = subprocess.run([driver_path()] + list(args), stdout=subprocess.PIPE, stderr=subprocess.PIPE,
                               timeout=timeout, input=input_text, text=True)
            return p.returncode, p.stdout, p.stderr
        except (FileNotFoundError, PermissionError, OSError) as e:
            if isinstance(e, subprocess.TimeoutExpired) or attempt == 119:
                raise
            time.sleep(1)

"""C17 — 'rule cannot be matched' and default-rule warnings are exact."""
import os, random, re, copy, hashlib
from multiprocessing import Pool
from . import common, flexrun, rules, patgen, tv

THEOREMS = ['FlexVerif.useful_exact', 'FlexVerif.cert_complete', 'FlexVerif.cert_sound',
            'FlexVerif.RuleSet.specAuto_first', 'FlexVerif.Re.pderiv_correct']


def shadowing_ruleset(rng):
    rs = rules.gen_ruleset(rng, nrules=rng.choice([2, 3, 4, 5, 6]), p_trail=rng.choice([0.0, 0.3, 0.3]), p_bol=0.25,
                           depth=rng.choice([0, 1, 2, 2]))
    extra = []
    for _ in range(rng.choice([1, 2, 3])):
        k = rng.random()
        base = rng.choice(rs.rules)
        if k < 0.35:
            r = copy.deepcopy(base)                       # exact duplicate: cannot be matched
        elif k < 0.55:
            r = copy.deepcopy(base); r['bol'] = True      # ^-only competitor
        elif k < 0.7:
            r = copy.deepcopy(base); r['head'] = ('cat', base['head'], ('chr', rng.choice([97, 98, 10])))
        elif k < 0.85:
            r = {'scs': [], 'all': False, 'bol': False, 'head': ('chr', rng.choice([97, 98, 99, 10, 0])), 'trail': None, 'dollar': False}
        else:
            r = {'scs': [], 'all': True, 'bol': False, 'head': ('cls', ('br', False, [('r', 0, rs.csize - 1)])), 'trail': None, 'dollar': False}
        if len(rs.scs) > 1 and rng.random() < 0.4:
            r = dict(r); r['scs'] = sorted(rng.sample(range(len(rs.scs)), rng.randrange(1, len(rs.scs) + 1))); r['all'] = False
        extra.append(r)
    if rng.random() < 0.3:
        # a fixed-length head with a trailing part that only *looks* variable, after rules of variable length: not a
        # variable trailing context rule, so the warnings have to be exact
        a, b = rng.sample([97, 98, 99, 48, 65], 2)
        extra.append({'scs': [], 'all': False, 'bol': False, 'head': ('str', [rng.choice([97, 98]), rng.choice([97, 99])]),
                      'trail': ('alt', ('chr', a), ('chr', b)), 'dollar': False})
    for r in extra:
        rs.rules.insert(rng.randrange(len(rs.rules) + 1), r)
    if rng.random() < 0.4:
        # '|' actions ("same action as the next rule"): flex corrects the recorded line of such a rule, because the
        # newline that ends it has been counted already - the warnings must still name the right rule
        for i in rng.sample(range(len(rs.rules) - 1), min(len(rs.rules) - 1, rng.choice([1, 1, 2, 3]))):
            rs.rules[i]['chain'] = True
    if rng.random() < 0.25:
        # exhaustive rule set: the default rule becomes unreachable (matters with -s)
        rs.rules.append({'scs': [], 'all': True, 'bol': False, 'head': ('cls', ('br', False, [('r', 0, rs.csize - 1)])), 'trail': None, 'dollar': False})
    return rs


def _job(job):
    (flex, work, idx, seed) = job
    rng = random.Random(seed)
    rs = shadowing_ruleset(rng)
    nodefault = rng.random() < 0.5
    reject = rng.random() < 0.15
    rs.nodefault = nodefault
    lex = rs.to_lex(random.Random(seed ^ 9), extra_options=(['reject'] if reject else []))
    lf = os.path.join(work, 'c17_%d.l' % idx)
    open(lf, 'w', encoding='latin1').write(lex)
    topt = rng.choice([['-Cem'], ['-C'], ['-Cf'], ['-CF'], ['-Ce']])
    if reject:
        topt = ['-Cem']
    opts = topt + ['-8']
    res = {'idx': idx, 'lex': lex, 'opts': opts, 'problems': [], 'nodefault': nodefault, 'reject': reject}
    c1 = lf + '.c'
    rc, so, se = flexrun.run_flex(flex, lf, c1, opts, timeout=10)
    if rc != 0:
        res['status'] = 'slow' if rc == -999 else 'flexfail'
        res['stderr'] = se[-300:]
        _rm(lf, c1)
        return res
    out1 = open(c1, 'rb').read()
    warned = set()
    dflt_warned = False
    for line in se.split('\n'):
        m = re.match(r'.*:(\d+): warning, rule cannot be matched', line)
        if m:
            ln = int(m.group(1))
            hit = [i for i, l in rs.rule_lines.items() if l <= ln <= rs.rule_last_lines.get(i, l)]
            if hit:
                warned.add(hit[0])
            else:
                res['problems'].append('warning names line %d which holds no rule' % ln)
        if 'default rule can be matched' in line:
            dflt_warned = True
    uses_reject = reject or ('yy_acclist' in out1.decode('latin1'))
    want_reject = reject or bool(rs.expected_var_rules())
    if uses_reject and not want_reject:
        res['problems'].append('no rule has a variable head *and* a variable trailing part and REJECT is not used, yet flex generates the '
                               'REJECT machinery (yy_acclist): in that mode it does not report unmatchable rules or a reachable default rule')
    # model
    cf = lf + '.case'
    open(cf, 'w').write('\n'.join(rs.case_lines(())) + '\n')
    drc, dout, derr = flexrun.run_driver(['useful', cf, '8000'], timeout=120)
    m = re.search(r'useful certok=(\d) states=(\d+) rules=(.*)', dout)
    if not m:
        res['status'] = 'unexplored'
        _rm(lf, c1, cf)
        return res
    if m.group(1) != '1':
        res['problems'].append('reachability certificate did not check')
    useful = set(int(x) for x in m.group(3).split())
    n = len(rs.rules)
    unmatchable = set(range(1, n + 1)) - useful
    res['states'] = int(m.group(2))
    res['unmatchable'] = sorted(unmatchable)
    res['warned'] = sorted(warned)
    if uses_reject:
        false_w = warned - unmatchable
        if false_w:
            res['problems'].append('false warning (REJECT / variable trailing context scanner): rule(s) %s can be matched' % sorted(false_w))
        if nodefault and dflt_warned and (n + 1) not in useful:
            res['problems'].append('-s: false warning (REJECT / variable trailing context scanner): the default rule cannot be matched but flex says it can')
    else:
        if warned - unmatchable:
            res['problems'].append('false warning: rule(s) %s can be matched (some input selects them)' % sorted(warned - unmatchable))
        if unmatchable - warned:
            res['problems'].append('missing warning: rule(s) %s can never be selected but flex did not warn' % sorted(unmatchable - warned))
        if nodefault:
            dflt_useful = (n + 1) in useful
            if dflt_useful != dflt_warned:
                res['problems'].append('-s: default rule %s be matched but flex %s' % (
                    'can' if dflt_useful else 'cannot', 'warned' if dflt_warned else 'did not warn'))
    # -w: same scanner, no warnings
    c2 = lf + '.w.c'
    rc2, so2, se2 = flexrun.run_flex(flex, lf, c2, opts + ['-w'], timeout=10)
    if rc2 != 0:
        res['problems'].append('-w makes flex fail: %s' % se2[-200:])
    else:
        out2 = open(c2, 'rb').read()
        norm = lambda b: b.replace(os.path.basename(c2).encode(), b'X').replace(os.path.basename(c1).encode(), b'X')
        if norm(out1) != norm(out2):
            res['problems'].append('-w changes the generated scanner')
        if 'warning' in se2:
            res['problems'].append('-w did not suppress: %s' % se2[-200:])
    res['status'] = 'ok'
    _rm(lf, c1, c2, cf)
    return res


def _rm(*fs):
    for f in fs:
        try:
            os.unlink(f)
        except OSError:
            pass


def run(ctx):
    flex, src = flexrun.build_flex()
    work = flexrun.scratch_root()
    discharged = common.proof_audit(ctx, THEOREMS)
    for b in getattr(ctx, 'proof_broken', []):
        ctx.violation('proof obligation broken: ' + b, {'broken': b}, no_input=True)
    n = {'quick': 640, 'thorough': 6000}[ctx.tier]
    rng = ctx.rng('c17')
    with Pool(16) as pool:
        results = pool.map(_job, [(flex, work, i, rng.getrandbits(48)) for i in range(n)], chunksize=2)
    st = {}
    samples = []
    nprob = 0
    with_unmatchable = 0
    for r in results:
        st[r['status']] = st.get(r['status'], 0) + 1
        if r['status'] == 'ok' and r.get('unmatchable'):
            with_unmatchable += 1
            if len(samples) < 3 and not r['problems']:
                samples.append({'lex': r['lex'], 'opts': r['opts'], 'unmatchable_rules': r['unmatchable'], 'flex_warned': r['warned']})
        for p in r['problems']:
            nprob += 1
            if nprob <= 10:
                ctx.violation(p, {'lex': r['lex'], 'opts': r['opts'], 'model_unmatchable': r.get('unmatchable'),
                                  'flex_warned': r.get('warned'), 'nodefault': r['nodefault']})
    ok = st.get('ok', 0)
    cov = {
        'programs': ok, 'disagreements_checked': ok, 'samples': samples or [{'note': 'none'}],
        'obligations': len(THEOREMS), 'discharged': discharged,
        'checker_cmd': 'lake build FlexVerif fvdriver; #print axioms via tools/fv/common.py',
        'trusted_base': common.TRUSTED_BASE,
        'status_counts': st, 'programs_with_unmatchable_rules': with_unmatchable,
        'explanation': 'per generated rule set (biased to shadowing: duplicates, ^-only competitors, extensions, '
                       'catch-all rules, start-condition lists) the set of rules flex warns about is compared with the '
                       'set the Lean reachability certificate proves unmatchable (useful_exact: exact for all inputs); '
                       '-s default-rule warning likewise; REJECT / variable trailing context: no false warning only; '
                       '-w: byte-identical scanner, no warnings',
    }
    return common.finish(ctx, 'translation_validation', cov)

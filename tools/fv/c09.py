"""C09 runtime correspondence check (see DESIGN.md)."""
import os, random, re
from multiprocessing import Pool
from . import rtprop, flexrun, rules, tv

THEOREMS = ['FlexVerif.beginMatch_lnTotal', 'FlexVerif.less_lnTotal', 'FlexVerif.unput_lnTotal', 'FlexVerif.input_lnTotal',
            'FlexVerif.Re.canNl_iff', 'FlexVerif.Re.nonEmpty_iff']


def _eol_job(job):
    """yy_rule_can_match_eol against Re.canNl (exact by canNl_iff) for one generated rule set"""
    (flex, work, idx, seed) = job
    rng = random.Random(seed)
    rs = rules.gen_ruleset(rng, p_trail=0.3, nrules=rng.choice([2, 4, 8, 15]), p_chain=rng.choice([0.0, 0.2]))
    topt = rng.choice(tv.TABLE_OPTS)
    lex = rs.to_lex(random.Random(seed ^ 5), extra_options=['yylineno'])
    lf = os.path.join(work, 'c09e_%d.l' % idx)
    cf = lf + '.c'
    open(lf, 'w', encoding='latin1').write(lex)
    opts = tv.opts_for(rs, topt)
    rc, so, se = flexrun.run_flex(flex, lf, cf, opts, timeout=10)
    res = {'idx': idx, 'lex': lex, 'opts': opts, 'problems': [], 'rules': 0, 'nl_rules': 0}
    if rc != 0:
        res['status'] = 'slow' if rc == -999 else 'flexfail'
        _rm(lf, cf)
        return res
    tl, t, flags = flexrun.table_lines(open(cf, encoding='latin1').read())
    casef = lf + '.case'
    open(casef, 'w').write('\n'.join(rs.case_lines(flexrun.var_rules_of(t)) + tl) + '\n')
    drc, out, err = flexrun.run_driver(['eolflags', casef], timeout=60)
    chained = {i + 1 for i, r in enumerate(rs.rules) if r.get('chain')}
    for l in out.split('\n'):
        m = re.match(r'(rule|default) (\d+) head=(\d) full=(\d) flag=(-?\d+)', l)
        if not m:
            continue
        kind, i, head, full, flag = m.group(1), int(m.group(2)), int(m.group(3)), int(m.group(4)), int(m.group(5))
        res['rules'] += 1
        res['nl_rules'] += head
        if head == 1 and flag != 1:
            res['problems'].append('%s %d matches text that contains a newline but yy_rule_can_match_eol[%d] = %d: '
                                   'yylineno misses those newlines' % (kind, i, i, flag))
    res['status'] = 'ok' if res['rules'] else 'error'
    if res['status'] == 'error':
        res['detail'] = (out + err)[-300:]
    _rm(lf, cf, casef)
    return res


def _rm(*fs):
    for f in fs:
        try:
            os.unlink(f)
        except OSError:
            pass


def eol_table_check(ctx, results):
    flex, src = flexrun.build_flex()
    work = flexrun.scratch_root()
    n = {'quick': 200, 'thorough': 3000}[ctx.tier]
    rng = ctx.rng('c09-eol')
    with Pool(16) as pool:
        res = pool.map(_eol_job, [(flex, work, i, rng.getrandbits(48)) for i in range(n)], chunksize=4)
    nprob = 0
    tot = sum(r['rules'] for r in res)
    nl = sum(r['nl_rules'] for r in res)
    for r in res:
        for p in r['problems']:
            nprob += 1
            if nprob <= 6:
                ctx.violation(p, {'lex': r['lex'], 'opts': r['opts']})
    ctx.assumptions.append('eol table: %d rules of %d generated rule sets compared with Re.canNl (%d can match a newline); '
                           'status %s' % (tot, len(res), nl, {s: sum(1 for r in res if r.get('status') == s) for s in {r.get('status') for r in res}}))


def run(ctx):
    from . import c08
    info, err = c08.regen_yyless()
    if err:
        ctx.violation('translator of the yyless() macros gave up: ' + err, {'error': err}, no_input=True)
    q1, q2, q3 = {'quick': (64, 48, 32), 'thorough': (600, 400, 200)}[ctx.tier]
    plan = [('lineno', q1, 8), ('reject', q3, 4), ('unput', q3, 4), ('morenl', q3, 6)]
    return rtprop.run(ctx, THEOREMS + ['FlexVerif.C08YYLess.ln_loop', 'FlexVerif.C08YYLess.less_action_spec', 'FlexVerif.C08YYLess.less_section3_spec'], plan, 'proof',
                      'yylineno logged at every action and compared with the abstract count; rules matching newline via classes, negated classes, (?s:.), default rule, trailing context; with less/unput/input/more/REJECT; per generated program the emitted yy_rule_can_match_eol is compared with Re.canNl, which by the kernel-checked canNl_iff holds exactly when the rule matches some text containing a newline (the flag must be set for every such rule)' + '. Kernel-checked theorems about the abstract scanner (listed under obligations) + differential '
                      'correspondence of the real generated scanner (ASan/UBSan build) with that model on generated cases.',
                      post=eol_table_check)

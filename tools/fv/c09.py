"""C09 runtime correspondence check (see DESIGN.md)."""
from . import rtprop

THEOREMS = ['FlexVerif.beginMatch_lnTotal', 'FlexVerif.less_lnTotal', 'FlexVerif.unput_lnTotal', 'FlexVerif.input_lnTotal']


def run(ctx):
    q1, q2, q3 = {'quick': (64, 48, 32), 'thorough': (600, 400, 200)}[ctx.tier]
    plan = [('lineno', q1, 8), ('reject', q3, 4), ('unput', q3, 4)]
    return rtprop.run(ctx, THEOREMS, plan, 'proof',
                      'yylineno logged at every action and compared with the abstract count; rules matching newline via classes, negated classes, (?s:.), default rule, trailing context; with less/unput/input/more/REJECT' + '. Kernel-checked theorems about the abstract scanner (listed under obligations) + differential '
                      'correspondence of the real generated scanner (ASan/UBSan build) with that model on generated cases.')
